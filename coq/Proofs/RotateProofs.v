(* Proofs/RotateProofs.v — lemmas about rotate (Model/GradOps.v) for C17. *)
From Coq Require Import ZArith QArith Qround Qabs Lia Lqa List Bool Setoid Morphisms.
From PV Require Import Base.QUtil Base.Round Base.PWL Gen.GenGradOps Model.GradOps Proofs.GradOpsProofs.
Import ListNotations.
Open Scope Q_scope.

(* the value of one gradient event / of a list of events (one channel) at time t *)
Definition gev (r : Q) (g : grad) (t : Q) : Q := eval (to_pwl r g) t.
Fixpoint gsum (r : Q) (l : list grad) (t : Q) : Q :=
  match l with [] => 0 | g :: l' => gev r g t + gsum r l' t end.

(* the gradient events of an event list that play on channel ch, and their summed waveform *)
Fixpoint grads_on (ch : nat) (evs : list rev) : list grad :=
  match evs with
  | [] => []
  | RG g :: r => if Nat.eqb (g_ch g) ch then g :: grads_on ch r else grads_on ch r
  | RO _ :: r => grads_on ch r
  end.
Definition render (r : Q) (ch : nat) (evs : list rev) (t : Q) : Q := gsum r (grads_on ch evs) t.

(* events that rotate returns untouched: non-gradient events, gradients on the rotation axis (and on
   an unknown channel) *)
Definition is_bypass (axis a0 a1 : nat) (ev : rev) : bool :=
  match ev with
  | RO _ => true
  | RG g => Nat.eqb (g_ch g) axis || negb (Nat.eqb (g_ch g) a0 || Nat.eqb (g_ch g) a1)
  end.

Lemma gsum_app r l1 l2 t : gsum r (l1 ++ l2) t == gsum r l1 t + gsum r l2 t.
Proof. induction l1 as [|g l IH]; cbn [app gsum]; [ring|rewrite IH; ring]. Qed.

Lemma grads_on_app ch l1 l2 : grads_on ch (l1 ++ l2) = grads_on ch l1 ++ grads_on ch l2.
Proof.
  induction l1 as [|[g|k] l IH]; cbn [app grads_on]; [reflexivity| |exact IH].
  destruct (Nat.eqb (g_ch g) ch); [cbn [app]; f_equal|]; exact IH.
Qed.

Lemma to_pwl_set_ch r g c : to_pwl r (set_ch g c) = to_pwl r g.
Proof. destruct g as [t|e]; reflexivity. Qed.
Lemma g_ch_set_ch g c : g_ch (set_ch g c) = c.
Proof. destruct g as [t|e]; reflexivity. Qed.
Lemma g_ch_scale g k : g_ch (scale_grad g k) = g_ch g.
Proof. destruct g as [t|e]; reflexivity. Qed.

Lemma gsum_scale r k l t : gsum r (map (fun g => scale_grad g k) l) t == k * gsum r l t.
Proof.
  induction l as [|g l IH]; cbn [map gsum]; [ring|]. rewrite IH. unfold gev. rewrite scale_eval. ring.
Qed.
Lemma gsum_scale_set r k c l t :
  gsum r (map (fun g => set_ch (scale_grad g k) c) l) t == k * gsum r l t.
Proof.
  induction l as [|g l IH]; cbn [map gsum]; [ring|]. rewrite IH. unfold gev.
  rewrite to_pwl_set_ch, scale_eval. ring.
Qed.

(* ---- classification --------------------------------------------------------------------------- *)
Lemma classify_spec axis a0 a1 : a0 <> axis -> a1 <> axis -> a0 <> a1 -> forall evs b g1 g2,
  classify axis a0 a1 evs = (b, g1, g2) ->
  b = filter (is_bypass axis a0 a1) evs /\ g1 = grads_on a0 evs /\ g2 = grads_on a1 evs /\
  grads_on a0 b = [] /\ grads_on a1 b = [].
Proof.
  intros N0 N1 N01. induction evs as [|ev evs IH]; intros b g1 g2 H; cbn [classify] in H.
  - inversion H. repeat split; reflexivity.
  - destruct (classify axis a0 a1 evs) as [[b' g1'] g2'] eqn:E.
    destruct (IH _ _ _ eq_refl) as (Hb & H1 & H2 & H3 & H4).
    destruct ev as [g|k].
    + cbn [filter is_bypass grads_on].
      destruct (Nat.eqb (g_ch g) axis) eqn:Ea.
      * apply Nat.eqb_eq in Ea. inversion H; subst b g1 g2. cbn [orb grads_on].
        assert (X0 : Nat.eqb (g_ch g) a0 = false) by (apply Nat.eqb_neq; congruence).
        assert (X1 : Nat.eqb (g_ch g) a1 = false) by (apply Nat.eqb_neq; congruence).
        rewrite X0, X1. repeat split; try assumption. f_equal. exact Hb.
      * destruct (Nat.eqb (g_ch g) a0) eqn:E0.
        -- apply Nat.eqb_eq in E0. inversion H; subst b g1 g2. cbn [orb negb].
           assert (X1 : Nat.eqb (g_ch g) a1 = false) by (apply Nat.eqb_neq; congruence).
           rewrite X1. repeat split; try assumption. f_equal. exact H1.
        -- destruct (Nat.eqb (g_ch g) a1) eqn:E1.
           ++ inversion H; subst b g1 g2. cbn [orb negb]. repeat split; try assumption. f_equal. exact H2.
           ++ inversion H; subst b g1 g2. cbn [orb negb grads_on]. rewrite E0, E1.
              repeat split; try assumption. f_equal. exact Hb.
    + inversion H; subst b g1 g2. cbn [filter is_bypass grads_on]. repeat split; try assumption.
      f_equal. exact Hb.
Qed.

Lemma drop_small_id thr l : (forall g, In g l -> thr <= gmag g) -> drop_small thr l = l.
Proof.
  induction l as [|g l IH]; intro H; [reflexivity|]. unfold drop_small in *. cbn [filter].
  assert (Hg : thr <= gmag g) by (apply H; left; reflexivity).
  destruct (Qltb (gmag g) thr) eqn:E; [apply Qltb_lt in E; lra|]. cbn [negb]. f_equal.
  apply IH. intros x Hx. apply H. right. exact Hx.
Qed.

Lemma grads_on_map_RG_same ch l : (forall g, In g l -> g_ch g = ch) -> grads_on ch (map RG l) = l.
Proof.
  induction l as [|g l IH]; intro H; [reflexivity|]. cbn [map grads_on].
  rewrite (H g (or_introl eq_refl)), Nat.eqb_refl. f_equal. apply IH. intros x Hx. apply H. right. exact Hx.
Qed.
Lemma grads_on_map_RG_other ch l : (forall g, In g l -> g_ch g <> ch) -> grads_on ch (map RG l) = [].
Proof.
  induction l as [|g l IH]; intro H; [reflexivity|]. cbn [map grads_on].
  assert (X : Nat.eqb (g_ch g) ch = false) by (apply Nat.eqb_neq; apply H; left; reflexivity).
  rewrite X. apply IH. intros x Hx. apply H. right. exact Hx.
Qed.

(* ---- the rotation ------------------------------------------------------------------------------ *)
Section Rotate.
Variable r : Q.                                   (* gradient raster (rendering of arbitrary shapes) *)
Variable add : list grad -> res grad.             (* add_gradients *)
(* property C16: the sum event renders to the pointwise sum and plays on the channel of the first *)
Hypothesis AddIsSum : forall l g, l <> [] -> add l = OK g ->
  (forall t, gev r g t == gsum r l t) /\ g_ch g = g_ch (hd g l).

Definition axes_of (axis : nat) : option (nat * nat) :=
  match remove_first axis rot_axes with [a0; a1] => Some (a0, a1) | _ => None end.

Lemma axes_of_spec axis a0 a1 : axes_of axis = Some (a0, a1) -> existsb (Nat.eqb axis) rot_axes = true ->
  a0 <> axis /\ a1 <> axis /\ a0 <> a1.
Proof.
  unfold axes_of, rot_axes. intros H E.
  destruct axis as [|[|[|n]]]; cbn in H; inversion H; subst; try (repeat split; discriminate).
  all: try (cbn in E; discriminate).
Qed.

(* the threshold of rotate for an event list *)
Definition rot_threshold (axis : nat) (evs : list rev) : Q :=
  match axes_of axis with
  | Some (a0, a1) => rot_elim_factor * lmax (map gmag (grads_on a0 evs ++ grads_on a1 evs))
  | None => 0
  end.

(* "nothing is dropped": every scaled component and every per-channel sum reaches the threshold *)
Definition NoDrop (c s : Q) (axis : nat) (evs : list rev) : Prop :=
  let thr := rot_threshold axis evs in
  (forall g k, In (RG g) evs -> (k == c \/ k == s \/ k == - s) -> thr <= gmag (scale_grad g k)) /\
  (forall p g, rotate_pre c s axis evs = OK p ->
               add (rp_rot1 p) = OK g \/ add (rp_rot2 p) = OK g -> thr <= gmag g).

Lemma gmag_set_ch g c : gmag (set_ch g c) = gmag g.
Proof. destruct g as [t|e]; reflexivity. Qed.

Lemma Qmax_eq a a' b b' : a == a' -> b == b' -> Qmax a b == Qmax a' b'.
Proof.
  intros Ha Hb. unfold Qmax.
  destruct (Qle_bool a b) eqn:E1; destruct (Qle_bool a' b') eqn:E2; try assumption.
  - apply Qle_bool_iff in E1. apply Qleb_gt in E2. lra.
  - apply Qleb_gt in E1. apply Qle_bool_iff in E2. lra.
Qed.

Lemma gmag_scale_Proper g k k' : k == k' -> gmag (scale_grad g k) == gmag (scale_grad g k').
Proof.
  intro H. destruct g as [t|e]; cbn [gmag scale_grad t_amp e_wf].
  - rewrite H. reflexivity.
  - induction (e_wf e) as [|w l IH]; cbn [map lmax]; [reflexivity|].
    apply Qmax_eq; [rewrite H; reflexivity|exact IH].
Qed.

Lemma in_grads_on ch evs g : In g (grads_on ch evs) -> In (RG g) evs /\ g_ch g = ch.
Proof.
  induction evs as [|[x|k] evs IH]; cbn [grads_on]; intro H; [contradiction| |].
  - destruct (Nat.eqb (g_ch x) ch) eqn:E.
    + destruct H as [->|H]; [split; [left; reflexivity|apply Nat.eqb_eq; exact E]|].
      destruct (IH H). split; [right|]; assumption.
    + destruct (IH H). split; [right|]; assumption.
  - destruct (IH H). split; [right|]; assumption.
Qed.

(* main structural lemma: what rotate returns when nothing is dropped *)
Lemma rotate_nodrop_shape c s axis evs out a0 a1 :
  axes_of axis = Some (a0, a1) -> NoDrop c s axis evs ->
  rotate add c s axis evs = OK out ->
  exists new, out = filter (is_bypass axis a0 a1) evs ++ map RG new /\
    (forall t, gsum r (grads_on a0 (map RG new)) t
               == c * render r a0 evs t + (rot_cross2_sign * s) * render r a1 evs t) /\
    (forall t, gsum r (grads_on a1 (map RG new)) t
               == (rot_cross1_sign * s) * render r a0 evs t + c * render r a1 evs t) /\
    (forall g, In g new -> g_ch g = a0 \/ g_ch g = a1) /\ (length new <= 2)%nat.
Proof.
  intros Hax [ND1 ND2] H. unfold rot_threshold in ND1, ND2. rewrite Hax in ND1, ND2.
  unfold rotate in H. destruct (rotate_pre c s axis evs) as [pp|] eqn:Ep; [|discriminate].
  specialize (fun g => ND2 pp g eq_refl). unfold rotate_pre in Ep.
  destruct (negb (existsb (Nat.eqb axis) rot_axes)) eqn:Eax; [discriminate|].
  apply negb_false_iff in Eax.
  destruct (axes_of_spec axis a0 a1 Hax Eax) as (N0 & N1 & N01).
  unfold axes_of in Hax.
  destruct (remove_first axis rot_axes) as [|x0 [|x1 [|x2 l]]] eqn:Erm; try discriminate.
  inversion Hax; subst x0 x1. clear Hax.
  destruct (classify axis a0 a1 evs) as [[byp g1] g2] eqn:Ec.
  destruct (classify_spec axis a0 a1 N0 N1 N01 evs byp g1 g2 Ec) as (Hb & H1 & H2 & Hb0 & Hb1).
  unfold rot_cross1_target, rot_cross2_target in Ep. cbn [nth] in Ep.
  set (thr := rot_elim_factor * lmax (map gmag (g1 ++ g2))) in *.
  set (R1 := map (fun g => scale_grad g c) g1 ++ map (fun g => set_ch (scale_grad g (rot_cross2_sign * s)) a0) g2) in *.
  set (R2 := map (fun g => set_ch (scale_grad g (rot_cross1_sign * s)) a1) g1 ++ map (fun g => scale_grad g c) g2) in *.
  assert (Hthr : thr = rot_elim_factor * lmax (map gmag (grads_on a0 evs ++ grads_on a1 evs))) by (subst thr g1 g2; reflexivity).
  assert (Hin1 : forall g, In g g1 -> In (RG g) evs /\ g_ch g = a0) by (intros g Hg; subst g1; apply in_grads_on; exact Hg).
  assert (Hin2 : forall g, In g g2 -> In (RG g) evs /\ g_ch g = a1) by (intros g Hg; subst g2; apply in_grads_on; exact Hg).
  assert (K1 : forall g, In g R1 -> thr <= gmag g /\ g_ch g = a0).
  { intros g Hg. subst R1. apply in_app_or in Hg. destruct Hg as [Hg|Hg]; apply in_map_iff in Hg; destruct Hg as [x [<- Hx]].
    - destruct (Hin1 x Hx) as [A B]. split; [rewrite Hthr; apply ND1; [exact A|left; reflexivity]|rewrite g_ch_scale; exact B].
    - destruct (Hin2 x Hx) as [A B]. split; [|apply g_ch_set_ch]. rewrite gmag_set_ch, Hthr.
      rewrite (gmag_scale_Proper x (rot_cross2_sign * s) (- s)) by (unfold rot_cross2_sign; ring).
      apply ND1; [exact A|right; right; reflexivity]. }
  assert (K2 : forall g, In g R2 -> thr <= gmag g /\ g_ch g = a1).
  { intros g Hg. subst R2. apply in_app_or in Hg. destruct Hg as [Hg|Hg]; apply in_map_iff in Hg; destruct Hg as [x [<- Hx]].
    - destruct (Hin1 x Hx) as [A B]. split; [|apply g_ch_set_ch]. rewrite gmag_set_ch, Hthr.
      rewrite (gmag_scale_Proper x (rot_cross1_sign * s) s) by (unfold rot_cross1_sign; ring).
      apply ND1; [exact A|right; left; reflexivity].
    - destruct (Hin2 x Hx) as [A B]. split; [rewrite Hthr; apply ND1; [exact A|left; reflexivity]|rewrite g_ch_scale; exact B]. }
  rewrite (drop_small_id thr R1) in Ep by (intros g Hg; apply K1; exact Hg).
  rewrite (drop_small_id thr R2) in Ep by (intros g Hg; apply K2; exact Hg).
  inversion Ep; subst pp. clear Ep. cbn [rp_rot1 rp_rot2] in ND2.
  assert (S1 : forall t, gsum r R1 t == c * render r a0 evs t + (rot_cross2_sign * s) * render r a1 evs t).
  { intro t. subst R1. rewrite gsum_app, gsum_scale, gsum_scale_set. unfold render. rewrite <- H1, <- H2. reflexivity. }
  assert (S2 : forall t, gsum r R2 t == (rot_cross1_sign * s) * render r a0 evs t + c * render r a1 evs t).
  { intro t. subst R2. rewrite gsum_app, gsum_scale, gsum_scale_set. unfold render. rewrite <- H1, <- H2. reflexivity. }
  unfold rotate_post in H. cbn [rp_rot1 rp_rot2 rp_bypass rp_thr] in H.
  (* per-channel sums *)
  assert (A1 : forall l, (forall g, In g l -> g_ch g = a0) -> forall sg, add l = OK sg -> l <> [] ->
               g_ch sg = a0 /\ forall t, gev r sg t == gsum r l t).
  { intros l Hl sg Hs Hne. destruct (AddIsSum l sg Hne Hs) as [X Y]. split; [|exact X].
    rewrite Y. destruct l as [|g0 l0]; [congruence|]. cbn [hd]. apply Hl. left. reflexivity. }
  assert (A2 : forall l, (forall g, In g l -> g_ch g = a1) -> forall sg, add l = OK sg -> l <> [] ->
               g_ch sg = a1 /\ forall t, gev r sg t == gsum r l t).
  { intros l Hl sg Hs Hne. destruct (AddIsSum l sg Hne Hs) as [X Y]. split; [|exact X].
    rewrite Y. destruct l as [|g0 l0]; [congruence|]. cbn [hd]. apply Hl. left. reflexivity. }
  assert (Hn01 : Nat.eqb a0 a1 = false) by (apply Nat.eqb_neq; exact N01).
  assert (Hn10 : Nat.eqb a1 a0 = false) by (apply Nat.eqb_neq; congruence).
  destruct R1 as [|p1 R1'] eqn:ER1; destruct R2 as [|p2 R2'] eqn:ER2.
  - cbn [app] in H. inversion H. exists []. cbn [map app grads_on gsum length].
    repeat split; try (intros; rewrite <- ?S1, <- ?S2; reflexivity); try contradiction; try lia.
    rewrite Hb. reflexivity.
  - destruct (add (p2 :: R2')) as [s2|] eqn:E2; [|discriminate].
    destruct (A2 _ (fun g Hg => proj2 (K2 g Hg)) s2 E2 ltac:(discriminate)) as [C2 V2].
    cbn [app] in H. rewrite (drop_small_id thr [s2]) in H
      by (intros g [<-|[]]; rewrite Hthr; apply ND2; right; reflexivity).
    inversion H. exists [s2]. cbn [map grads_on gsum length]. rewrite C2, Hn10, Nat.eqb_refl. cbn [gsum].
    repeat split; try lia.
    + rewrite Hb. reflexivity.
    + intro t. rewrite <- S1. reflexivity.
    + intro t. rewrite <- S2, V2. ring.
    + intros g [<-|[]]. right. exact C2.
  - destruct (add (p1 :: R1')) as [s1|] eqn:E1; [|discriminate].
    destruct (A1 _ (fun g Hg => proj2 (K1 g Hg)) s1 E1 ltac:(discriminate)) as [C1 V1].
    cbn [app] in H. rewrite (drop_small_id thr [s1]) in H
      by (intros g [<-|[]]; rewrite Hthr; apply ND2; left; reflexivity).
    inversion H. exists [s1]. cbn [map grads_on gsum length]. rewrite C1, Hn01, Nat.eqb_refl. cbn [gsum].
    repeat split; try lia.
    + rewrite Hb. reflexivity.
    + intro t. rewrite <- S1, V1. ring.
    + intro t. rewrite <- S2. reflexivity.
    + intros g [<-|[]]. left. exact C1.
  - destruct (add (p1 :: R1')) as [s1|] eqn:E1; [|discriminate].
    destruct (add (p2 :: R2')) as [s2|] eqn:E2; [|discriminate].
    destruct (A1 _ (fun g Hg => proj2 (K1 g Hg)) s1 E1 ltac:(discriminate)) as [C1 V1].
    destruct (A2 _ (fun g Hg => proj2 (K2 g Hg)) s2 E2 ltac:(discriminate)) as [C2 V2].
    cbn [app] in H. rewrite (drop_small_id thr [s1; s2]) in H
      by (intros g [<-|[<-|[]]]; rewrite Hthr; apply ND2; [left; reflexivity|right; reflexivity]).
    inversion H. exists [s1; s2]. cbn [map grads_on gsum length].
    rewrite C1, C2, Hn01, Hn10, !Nat.eqb_refl. cbn [gsum].
    repeat split; try lia.
    + rewrite Hb. reflexivity.
    + intro t. rewrite <- S1, V1. ring.
    + intro t. rewrite <- S2, V2. ring.
    + intros g [<-|[<-|[]]]; [left; exact C1|right; exact C2].
Qed.

Lemma grads_on_bypass_rot axis a0 a1 ch evs : ch <> axis -> (ch = a0 \/ ch = a1) ->
  grads_on ch (filter (is_bypass axis a0 a1) evs) = [].
Proof.
  intros Hn Hc. induction evs as [|[g|k] evs IH]; cbn [filter is_bypass]; [reflexivity| |exact IH].
  destruct (Nat.eqb (g_ch g) axis) eqn:Ea; cbn [orb].
  - cbn [grads_on]. apply Nat.eqb_eq in Ea.
    assert (X : Nat.eqb (g_ch g) ch = false) by (apply Nat.eqb_neq; congruence). rewrite X. exact IH.
  - destruct (Nat.eqb (g_ch g) a0) eqn:E0; destruct (Nat.eqb (g_ch g) a1) eqn:E1; cbn [orb negb]; try exact IH.
    cbn [grads_on].
    assert (X : Nat.eqb (g_ch g) ch = false) by (destruct Hc; subst ch; assumption). rewrite X. exact IH.
Qed.

Lemma grads_on_bypass_other axis a0 a1 ch evs : ch <> a0 -> ch <> a1 ->
  grads_on ch (filter (is_bypass axis a0 a1) evs) = grads_on ch evs.
Proof.
  intros H0 H1. induction evs as [|[g|k] evs IH]; cbn [filter is_bypass grads_on]; [reflexivity| |exact IH].
  destruct (Nat.eqb (g_ch g) ch) eqn:Ec.
  - apply Nat.eqb_eq in Ec.
    assert (X0 : Nat.eqb (g_ch g) a0 = false) by (apply Nat.eqb_neq; congruence).
    assert (X1 : Nat.eqb (g_ch g) a1 = false) by (apply Nat.eqb_neq; congruence).
    rewrite X0, X1. cbn [orb negb]. rewrite orb_true_r. cbn [grads_on].
    rewrite (proj2 (Nat.eqb_eq _ _) Ec). f_equal. exact IH.
  - destruct (Nat.eqb (g_ch g) axis || negb (Nat.eqb (g_ch g) a0 || Nat.eqb (g_ch g) a1)); [|exact IH].
    cbn [grads_on]. rewrite Ec. exact IH.
Qed.

Definition non_grads (evs : list rev) : list rev :=
  filter (fun ev => match ev with RO _ => true | RG _ => false end) evs.

Lemma non_grads_bypass axis a0 a1 evs : non_grads (filter (is_bypass axis a0 a1) evs) = non_grads evs.
Proof.
  unfold non_grads. induction evs as [|[g|k] evs IH]; cbn [filter is_bypass]; [reflexivity| |f_equal; exact IH].
  destruct (Nat.eqb (g_ch g) axis || negb (Nat.eqb (g_ch g) a0 || Nat.eqb (g_ch g) a1)); cbn [filter]; exact IH.
Qed.
Lemma non_grads_app l1 l2 : non_grads (l1 ++ l2) = non_grads l1 ++ non_grads l2.
Proof. unfold non_grads. apply filter_app. Qed.
Lemma non_grads_map_RG l : non_grads (map RG l) = [].
Proof. induction l as [|g l IH]; [reflexivity|exact IH]. Qed.

(* rotate_matrix: the pair on the two remaining axes (in x,y,z order) is multiplied by
   [[c, -s], [s, c]] at every time *)
Theorem rotate_matrix c s axis evs out a0 a1 :
  axes_of axis = Some (a0, a1) -> NoDrop c s axis evs -> rotate add c s axis evs = OK out ->
  forall t, render r a0 out t == c * render r a0 evs t - s * render r a1 evs t /\
            render r a1 out t == s * render r a0 evs t + c * render r a1 evs t.
Proof.
  intros Hax ND H t.
  destruct (rotate_nodrop_shape c s axis evs out a0 a1 Hax ND H) as (new & Ho & M0 & M1 & _ & _).
  assert (Eax : existsb (Nat.eqb axis) rot_axes = true).
  { unfold rotate, rotate_pre in H. destruct (existsb (Nat.eqb axis) rot_axes); [reflexivity|discriminate]. }
  destruct (axes_of_spec axis a0 a1 Hax Eax) as (N0 & N1 & N01).
  unfold render. subst out. rewrite !grads_on_app.
  rewrite (grads_on_bypass_rot axis a0 a1 a0 evs N0 (or_introl eq_refl)).
  rewrite (grads_on_bypass_rot axis a0 a1 a1 evs N1 (or_intror eq_refl)). cbn [app].
  rewrite M0, M1. unfold rot_cross1_sign, rot_cross2_sign, render. split; ring.
Qed.

(* rotate_axis_and_others_unchanged: what is not rotated comes back untouched and first, in order;
   at most one new gradient event per rotated axis follows *)
Theorem rotate_others_unchanged c s axis evs out a0 a1 :
  axes_of axis = Some (a0, a1) -> NoDrop c s axis evs -> rotate add c s axis evs = OK out ->
  (exists new, out = filter (is_bypass axis a0 a1) evs ++ map RG new /\ (length new <= 2)%nat /\
               forall g, In g new -> g_ch g = a0 \/ g_ch g = a1) /\
  (forall ch, ch <> a0 -> ch <> a1 -> grads_on ch out = grads_on ch evs) /\
  non_grads out = non_grads evs.
Proof.
  intros Hax ND H.
  destruct (rotate_nodrop_shape c s axis evs out a0 a1 Hax ND H) as (new & Ho & _ & _ & Hch & Hlen).
  split; [exists new; repeat split; assumption|]. subst out. split.
  - intros ch H0 H1. rewrite grads_on_app, grads_on_bypass_other by assumption.
    rewrite grads_on_map_RG_other; [apply app_nil_r|].
    intros g Hg. destruct (Hch g Hg) as [X|X]; congruence.
  - rewrite non_grads_app, non_grads_bypass, non_grads_map_RG. apply app_nil_r.
Qed.

(* rotate_inverse: rotating by (c, s) and then by (c, -s) restores the waveforms *)
Theorem rotate_inverse c s axis evs out1 out2 a0 a1 :
  c * c + s * s == 1 -> axes_of axis = Some (a0, a1) ->
  NoDrop c s axis evs -> rotate add c s axis evs = OK out1 ->
  NoDrop c (- s) axis out1 -> rotate add c (- s) axis out1 = OK out2 ->
  forall t, render r a0 out2 t == render r a0 evs t /\ render r a1 out2 t == render r a1 evs t.
Proof.
  intros Hcs Hax ND1 H1 ND2 H2 t.
  destruct (rotate_matrix c s axis evs out1 a0 a1 Hax ND1 H1 t) as [X1 Y1].
  destruct (rotate_matrix c (- s) axis out1 out2 a0 a1 Hax ND2 H2 t) as [X2 Y2].
  rewrite X2, Y2, X1, Y1. split.
  - transitivity ((c * c + s * s) * render r a0 evs t); [ring|rewrite Hcs; ring].
  - transitivity ((c * c + s * s) * render r a1 evs t); [ring|rewrite Hcs; ring].
Qed.

(* rotate_norm_preserved *)
Theorem rotate_norm c s axis evs out a0 a1 :
  c * c + s * s == 1 -> axes_of axis = Some (a0, a1) ->
  NoDrop c s axis evs -> rotate add c s axis evs = OK out ->
  forall t, render r a0 out t * render r a0 out t + render r a1 out t * render r a1 out t
            == render r a0 evs t * render r a0 evs t + render r a1 evs t * render r a1 evs t.
Proof.
  intros Hcs Hax ND H t.
  destruct (rotate_matrix c s axis evs out a0 a1 Hax ND H t) as [X Y]. rewrite X, Y.
  transitivity ((c * c + s * s) * (render r a0 evs t * render r a0 evs t + render r a1 evs t * render r a1 evs t));
    [ring|rewrite Hcs; ring].
Qed.

End Rotate.

(* property C16 as a predicate on add_gradients *)
Definition AddIsSumP (r : Q) (add : list grad -> res grad) : Prop :=
  forall l g, l <> [] -> add l = OK g -> (forall t, gev r g t == gsum r l t) /\ g_ch g = g_ch (hd g l).

(* ---- dropped components ------------------------------------------------------------------------ *)
Lemma max_abs_shift d p : max_abs (shift d p) = max_abs p.
Proof. induction p as [|[t v] p IH]; [reflexivity|]. cbn [shift map max_abs fst snd]. fold (shift d p). rewrite IH. reflexivity. Qed.

Lemma lmax_abs_nonneg l : 0 <= lmax (map Qabs l).
Proof.
  induction l as [|x l IH]; cbn [map lmax]; [lra|]. eapply Qle_trans; [exact IH|apply Qmax_ub_r].
Qed.

Lemma max_abs_combine tt : forall wf, max_abs (combine tt wf) <= lmax (map Qabs wf).
Proof.
  induction tt as [|t tt IH]; intros wf.
  - cbn [combine max_abs]. apply lmax_abs_nonneg.
  - destruct wf as [|w wf]; cbn [combine max_abs map lmax]; [lra|].
    apply Qmax_le_iff. split; [apply Qmax_ub_l|]. eapply Qle_trans; [apply IH|apply Qmax_ub_r].
Qed.

(* the magnitude that rotate tests bounds the waveform of trapezoids and extended trapezoids
   (for arbitrary shapes the rendering also contains the edge values first/last) *)
Definition not_arb (r : Q) (g : grad) : Prop :=
  match g with GTrap _ => True | GExt e => is_arb r (e_tt e) = false end.

Theorem mag_bound r g t : not_arb r g -> Qabs (gev r g t) <= gmag g.
Proof.
  intro H. unfold gev. eapply Qle_trans; [apply amp_bound|].
  destruct g as [tr|e]; cbn [to_pwl gmag]; rewrite max_abs_shift.
  - unfold trap_corners. destruct (Qeq_bool (t_flat tr) 0); cbn [max_abs];
      repeat (apply Qmax_le_iff; split); try apply Qle_refl; try (change (Qabs 0) with 0; apply Qabs_nonneg).
  - cbn [not_arb] in H. unfold egrad_corners. rewrite H. apply max_abs_combine.
Qed.

(* dropping the components below the threshold moves the sum by at most (their number) * threshold *)
Theorem drop_bound r thr l t : 0 <= thr -> (forall g, In g l -> Qabs (gev r g t) <= gmag g) ->
  Qabs (gsum r l t - gsum r (drop_small thr l) t) <= inject_Z (Z.of_nat (length l)) * thr.
Proof.
  intros Ht H. induction l as [|g l IH].
  - cbn. setoid_replace (0 - 0) with 0 by ring. cbn. lra.
  - assert (IH' := IH (fun x Hx => H x (or_intror Hx))). clear IH.
    change (length (g :: l)) with (S (length l)). rewrite Nat2Z.inj_succ, <- Z.add_1_r, inject_Z_plus.
    change (inject_Z 1) with 1. unfold drop_small in *. cbn [filter gsum].
    destruct (Qltb (gmag g) thr) eqn:E; cbn [negb gsum].
    + apply Qltb_lt in E. pose proof (H g (or_introl eq_refl)) as Hg.
      apply Qabs_Qle_condition in IH'. apply Qabs_Qle_condition in Hg. apply Qabs_Qle_condition. lra.
    + apply Qabs_Qle_condition in IH'. apply Qabs_Qle_condition. lra.
Qed.
