(* Proofs/ExtStore.v — C19 at the level of set_block / add_block: the label and trigger events handed
   over by value come back from the stored block's extension chain as a permutation, in every store
   that satisfies the invariant [lab_inv]; the invariant holds along every operation history. *)
From Coq Require Import List Bool ZArith QArith Qcanon Lia Permutation.
From RecordUpdate Require Import RecordSet.
From PV Require Import Base.AList Base.QUtil Model.EventLib Model.Seq Model.Labels Model.LabelEval
                       Proofs.SeqSpec Proofs.SeqCache Proofs.SeqCont Proofs.ExtProofs.
Import ListNotations RecordSetNotations.
Open Scope Z_scope.

(* ---- the extension type table --------------------------------------------------------------------- *)
Definition xt_inv (c : core) : Prop := NoDup (ext_num c) /\ length (ext_num c) = length (ext_str c).

Lemma index_of_nth_error x l n : index_of x l = Some n -> nth_error l n = Some x.
Proof.
  revert n. induction l as [|y r IH]; cbn; intros n H; [discriminate|].
  destruct (x =? y) eqn:E.
  - inversion H. apply Z.eqb_eq in E. subst. reflexivity.
  - destruct (index_of x r) as [m|]; [|discriminate]. inversion H. cbn. apply IH. reflexivity.
Qed.

Lemma index_of_notin x l : ~ In x l -> index_of x l = None.
Proof.
  induction l as [|y r IH]; cbn; intro N; [reflexivity|].
  destruct (x =? y) eqn:E; [apply Z.eqb_eq in E; exfalso; apply N; left; congruence|].
  rewrite IH; [reflexivity|]. intro H. apply N. right. exact H.
Qed.

Lemma index_of_nodup l : NoDup l -> forall n x, nth_error l n = Some x -> index_of x l = Some n.
Proof.
  induction 1 as [|y r Hn Hr IH]; intros n x H; [destruct n; discriminate|].
  destruct n as [|n]; cbn in H.
  - inversion H. subst. cbn. rewrite Z.eqb_refl. reflexivity.
  - cbn. destruct (x =? y) eqn:E.
    + apply Z.eqb_eq in E. subst. exfalso. apply Hn. eapply nth_error_In. exact H.
    + rewrite (IH n x H). reflexivity.
Qed.

Lemma index_of_snoc_new x l : ~ In x l -> index_of x (l ++ [x]) = Some (length l).
Proof.
  induction l as [|y r IH]; cbn; intro N.
  - rewrite Z.eqb_refl. reflexivity.
  - destruct (x =? y) eqn:E; [apply Z.eqb_eq in E; exfalso; apply N; left; congruence|].
    rewrite IH; [reflexivity|]. intro H. apply N. right. exact H.
Qed.

Lemma NoDup_snoc {A} (l : list A) x : NoDup l -> ~ In x l -> NoDup (l ++ [x]).
Proof.
  induction 1 as [|y r Hn Hr IH]; intro N; cbn; [constructor; [intros []|constructor]|].
  constructor.
  - intro H. apply in_app_or in H. destruct H as [H|[H|[]]]; [contradiction|]. apply N. left. symmetry. exact H.
  - apply IH. intro H. apply N. right. exact H.
Qed.

Lemma fold_max_ge l : forall a, a <= fold_left Z.max l a /\ forall y, In y l -> y <= fold_left Z.max l a.
Proof.
  induction l as [|x r IH]; intro a; cbn [fold_left]; [split; [lia|intros y []]|].
  destruct (IH (Z.max a x)) as [H1 H2]. split; [lia|].
  intros y [<-|Hy]; [lia|apply H2; exact Hy].
Qed.

Lemma ext_type_id_spec c s :
  xt_inv c ->
  xt_inv (fst (ext_type_id c s)) /\ ext_type_str (fst (ext_type_id c s)) (snd (ext_type_id c s)) = Some s.
Proof.
  intros [Hn Hl]. unfold ext_type_id.
  destruct (index_of s (ext_str c)) as [n|] eqn:E; cbn [fst snd].
  - split; [split; assumption|]. unfold ext_type_str.
    pose proof (index_of_nth_error _ _ _ E) as G.
    assert (Hlt : (n < length (ext_num c))%nat) by (rewrite Hl; apply nth_error_Some; congruence).
    assert (G2 : nth_error (ext_num c) n = Some (nth n (ext_num c) 0)) by (apply nth_error_nth'; exact Hlt).
    rewrite (index_of_nodup _ Hn _ _ G2). exact G.
  - set (id := match ext_num c with [] => 1 | _ :: _ => 1 + max_list (ext_num c) end).
    assert (Hfresh : ~ In id (ext_num c)).
    { intro H. subst id. destruct (ext_num c) as [|y r] eqn:En; [destruct H|].
      destruct (fold_max_ge (y :: r) 0) as [_ H2]. specialize (H2 _ H). unfold max_list in H. unfold max_list in *. lia. }
    split.
    + split; cbn.
      * apply NoDup_snoc; assumption.
      * rewrite !app_length. cbn. lia.
    + unfold ext_type_str. cbn. rewrite (index_of_snoc_new _ _ Hfresh).
      rewrite Hl. rewrite nth_error_app2 by lia. rewrite Nat.sub_diag. reflexivity.
Qed.

(* ---- libraries ------------------------------------------------------------------------------------- *)
Lemma kfoi_get (l : klib) k ty :
  lib_inv l -> keymap_consistent l ->
  lib_get (fst (fst (kfoi l k ty))) (snd (fst (kfoi l k ty))) = Some k.
Proof.
  intros I C. unfold kfoi, lib_find_or_insert.
  destruct (aget key_eqb (lkeymap l) k) as [id|] eqn:E; cbn [fst snd].
  - apply C. exact E.
  - unfold lib_get. cbn [ldata]. apply agetZ_aset_same.
Qed.

(* ---- the invariant --------------------------------------------------------------------------------- *)
Definition lab_inv (c : core) : Prop :=
  core_inv c /\ ext_wf (ext_l c) /\ keymap_consistent (trig_l c) /\ keymap_consistent (lset_l c) /\
  keymap_consistent (linc_l c) /\ xt_inv c.

Definition lpart (c : core) := (trig_l c, lset_l c, linc_l c, ext_num c, ext_str c).

Lemma lab_inv_transfer c c' :
  core_inv c' -> ext_l c' = ext_l c -> lpart c' = lpart c -> lab_inv c -> lab_inv c'.
Proof.
  intros I E P (_ & W & K1 & K2 & K3 & X1 & X2). unfold lpart in P. inversion P as [[P1 P2 P3 P4 P5]].
  split; [exact I|]. split; [rewrite E; exact W|]. split; [rewrite P1; exact K1|].
  split; [rewrite P2; exact K2|]. split; [rewrite P3; exact K3|].
  split; [rewrite P4; exact X1|rewrite P4, P5; exact X2].
Qed.

Lemma register_adc_lpart c n dw de fr ph dd : lpart (fst (fst (register_adc c n dw de fr ph dd))) = lpart c.
Proof. unfold register_adc. crush_ext. Qed.
Lemma register_trap_lpart c a r f fl d : lpart (fst (fst (register_trap c a r f fl d))) = lpart c.
Proof. unfold register_trap. crush_ext. Qed.
Lemma register_grad_lpart c sids amp ws ts delay first last :
  lpart (fst (fst (fst (register_grad c sids amp ws ts delay first last)))) = lpart c.
Proof. unfold register_grad. crush_ext. Qed.
Lemma register_rf_lpart c sids amp mag ph ts delay freq phoff use :
  lpart (fst (fst (fst (register_rf c sids amp mag ph ts delay freq phoff use)))) = lpart c.
Proof. unfold register_rf. crush_ext. Qed.

Lemma lab_inv_init g s sl e : lab_inv (core_init g s sl e).
Proof.
  split; [apply core_inv_init|]. split; [apply ext_wf_init|].
  repeat split; try (intros k id H; discriminate H); try constructor.
Qed.

(* ---- payloads -------------------------------------------------------------------------------------- *)
Lemma ext_payload_mono c c' x p : core_le c c' -> ext_payload c x = Some p -> ext_payload c' x = Some p.
Proof.
  intros L H. unfold ext_payload in *.
  destruct (ext_type_str c (fst x)) as [s|] eqn:E; [|discriminate].
  rewrite (le_xstr _ _ L _ _ E).
  destruct (s =? XS_TRIGGERS).
  - destruct (lib_get (trig_l c) (snd x)) as [q|] eqn:G; [|discriminate].
    rewrite (lib_le_get _ _ _ _ (le_trig _ _ L) G). exact H.
  - destruct (s =? XS_LABELSET).
    + destruct (lib_get (lset_l c) (snd x)) as [q|] eqn:G; [|discriminate].
      rewrite (lib_le_get _ _ _ _ (le_lset _ _ L) G). exact H.
    + destruct (s =? XS_LABELINC); [|discriminate].
      destruct (lib_get (linc_l c) (snd x)) as [q|] eqn:G; [|discriminate].
      rewrite (lib_le_get _ _ _ _ (le_linc _ _ L) G). exact H.
Qed.

Lemma map_opt_mono {A B} (f g : A -> option B) l r :
  (forall x y, f x = Some y -> g x = Some y) -> map_opt f l = Some r -> map_opt g l = Some r.
Proof.
  intro M. revert r. induction l as [|x t IH]; cbn; intros r H; [exact H|].
  destruct (f x) as [y|] eqn:E; [|discriminate]. rewrite (M _ _ E).
  destruct (map_opt f t) as [s|]; [|discriminate]. rewrite (IH s eq_refl). exact H.
Qed.

Lemma map_opt_app {A B} (f : A -> option B) l1 l2 r1 r2 :
  map_opt f l1 = Some r1 -> map_opt f l2 = Some r2 -> map_opt f (l1 ++ l2) = Some (r1 ++ r2).
Proof.
  revert r1. induction l1 as [|x t IH]; cbn; intros r1 H1 H2.
  - inversion H1. exact H2.
  - destruct (f x) as [y|]; [|discriminate]. destruct (map_opt f t) as [s|]; [|discriminate].
    inversion H1. rewrite (IH s eq_refl H2). reflexivity.
Qed.

Lemma map_opt_perm {A B} (f : A -> option B) l l' :
  Permutation l l' -> forall r, map_opt f l = Some r -> exists r', map_opt f l' = Some r' /\ Permutation r r'.
Proof.
  induction 1 as [|x t t' P IH|x y t|l1 l2 l3 P1 IH1 P2 IH2]; intros r H; cbn in *.
  - exists r. split; [exact H|inversion H; constructor].
  - destruct (f x) as [a|]; [|discriminate]. destruct (map_opt f t) as [s|]; [|discriminate].
    destruct (IH s eq_refl) as (s' & E & Ps). rewrite E. inversion H. exists (a :: s'). split; [reflexivity|].
    constructor. exact Ps.
  - destruct (f y) as [b|]; [|discriminate]. destruct (f x) as [a|]; [|discriminate].
    destruct (map_opt f t) as [s|]; [|discriminate]. inversion H. exists (a :: b :: s). split; [reflexivity|apply perm_swap].
  - destruct (IH1 r H) as (r2 & E2 & Q2). destruct (IH2 r2 E2) as (r3 & E3 & Q3).
    exists r3. split; [exact E3|eapply perm_trans; eassumption].
Qed.

(* ---- events ------------------------------------------------------------------------------------------ *)
(* what a label / trigger event handed over by value must come back as: extension string and row *)
Definition ext_event_payload (e : mevent) : list (Z * key) :=
  match e with
  | MCtl None typ chan delay dur => [(XS_TRIGGERS, [zq typ; zq chan; delay; dur])]
  | MLabel None is_set value lbl => [(if is_set then XS_LABELSET else XS_LABELINC, [value; zq lbl])]
  | _ => []
  end.
Definition ext_by_value (e : mevent) : Prop :=
  match e with
  | MCtl (Some _) _ _ _ _ | MLabel (Some _) _ _ _ => False
  | _ => True
  end.

Definition blk_ok (a : acc) : Prop := length (a_blk a) = 7%nat /\ nth 6 (a_blk a) 0 = 0.

Lemma ev_step_blk a e a' : blk_ok a -> ev_ok e -> ev_step a e = inl a' -> blk_ok a'.
Proof.
  intros [B1 B2] Ok H. unfold blk_ok.
  destruct (a_blk a) as [|b0 [|b1 [|b2 [|b3 [|b4 [|b5 [|b6 [|b7 r]]]]]]]] eqn:EB; try discriminate B1.
  cbn in B2. subst b6.
  destruct e; cbn [ev_step ev_ok] in *.
  - destruct (negb (nth 1 (a_blk a) 0 =? 0)); [discriminate|].
    destruct id; [|destruct (register_rf _ _ _ _ _ _ _ _ _ _) as [[[? ?] ?] ?]]; inversion H; cbn; rewrite EB; split; reflexivity.
  - destruct Ok as (Hch & _ & _). destruct (negb (nth (2 + ch) (a_blk a) 0 =? 0)); [discriminate|].
    destruct ch as [|[|[|ch]]]; try lia;
    (destruct id; [|destruct (register_grad _ _ _ _ _ _ _ _) as [[[? ?] ?] ?]]; inversion H; cbn; rewrite EB; split; reflexivity).
  - destruct Ok as (Hch & _). destruct (negb (nth (2 + ch) (a_blk a) 0 =? 0)); [discriminate|].
    destruct ch as [|[|[|ch]]]; try lia;
    (destruct id; [|destruct (register_trap _ _ _ _ _ _) as [[? ?] ?]]; inversion H; cbn; rewrite EB; split; reflexivity).
  - destruct (negb (nth 5 (a_blk a) 0 =? 0)); [discriminate|].
    destruct id; [|destruct (register_adc _ _ _ _ _ _ _) as [[? ?] ?]]; inversion H; cbn; rewrite EB; split; reflexivity.
  - inversion H; cbn; rewrite EB; split; reflexivity.
  - destruct id; [|destruct (register_ctl _ _ _ _ _) as [[? ?] ?]]; destruct (ext_type_id _ _) as [? ?];
      inversion H; cbn; rewrite EB; split; reflexivity.
  - destruct id; [|destruct (register_label _ _ _ _) as [[? ?] ?]]; destruct (ext_type_id _ _) as [? ?];
      inversion H; cbn; rewrite EB; split; reflexivity.
  - inversion H; cbn; rewrite EB; split; reflexivity.
Qed.

Lemma XS_distinct : XS_LABELSET =? XS_TRIGGERS = false /\ XS_LABELINC =? XS_TRIGGERS = false /\
                    XS_LABELINC =? XS_LABELSET = false.
Proof. repeat split; reflexivity. Qed.

Lemma ev_step_lab a e a' :
  lab_inv (a_core a) -> ev_ok e -> ext_by_value e -> ev_step a e = inl a' ->
  lab_inv (a_core a') /\ grows (a_core a) (a_core a') /\
  exists new, a_exts a' = a_exts a ++ new /\
              map_opt (ext_payload (a_core a')) new = Some (ext_event_payload e).
Proof.
  intros L Ok Bv H.
  pose proof (ev_step_grows a e a' (proj1 L) H) as G.
  pose proof (ev_step_ext a e a' H) as Ex.
  destruct e; cbn [ev_step] in H; cbn [ev_ok ext_by_value ext_event_payload] in *.
  - (* MRf *)
    destruct (negb (nth 1 (a_blk a) 0 =? 0)); [discriminate|].
    destruct id as [i|].
    + inversion H. subst a'. cbn -[set_nth] in *. split; [exact L|].
      split; [exact G|]. exists []. split; [rewrite app_nil_r; reflexivity|reflexivity].
    + pose proof (register_rf_lpart (a_core a) sids amp mag phase tshape delay freq phoff use) as P.
      destruct (register_rf (a_core a) sids amp mag phase tshape delay freq phoff use) as [[[c1 i] ids] clr].
      inversion H. subst a'. cbn -[set_nth] in *.
      split; [apply (lab_inv_transfer (a_core a)); [exact (proj1 G)|exact Ex|exact P|exact L]|].
     
      split; [exact G|]. exists []. split; [rewrite app_nil_r; reflexivity|reflexivity].
  - (* MGrad *)
    destruct Ok as (Hch & -> & _).
    destruct (negb (nth (2 + ch) (a_blk a) 0 =? 0)); [discriminate|].
    pose proof (register_grad_lpart (a_core a) sids amp wshape tshape delay first last) as P.
    destruct (register_grad (a_core a) sids amp wshape tshape delay first last) as [[[c1 i] ids] clr].
    inversion H. subst a'. cbn -[set_nth] in *.
    split; [apply (lab_inv_transfer (a_core a)); [exact (proj1 G)|exact Ex|exact P|exact L]|].
   
    split; [exact G|]. exists []. split; [rewrite app_nil_r; reflexivity|reflexivity].
  - (* MTrap *)
    destruct Ok as (Hch & ->).
    destruct (negb (nth (2 + ch) (a_blk a) 0 =? 0)); [discriminate|].
    pose proof (register_trap_lpart (a_core a) amp rise flat fall delay) as P.
    destruct (register_trap (a_core a) amp rise flat fall delay) as [[c1 i] clr].
    inversion H. subst a'. cbn -[set_nth] in *.
    split; [apply (lab_inv_transfer (a_core a)); [exact (proj1 G)|exact Ex|exact P|exact L]|].
   
    split; [exact G|]. exists []. split; [rewrite app_nil_r; reflexivity|reflexivity].
  - (* MAdc *)
    destruct (negb (nth 5 (a_blk a) 0 =? 0)); [discriminate|].
    destruct id as [i|].
    + inversion H. subst a'. cbn -[set_nth] in *. split; [exact L|].
      split; [exact G|]. exists []. split; [rewrite app_nil_r; reflexivity|reflexivity].
    + pose proof (register_adc_lpart (a_core a) num dwell delay freq phoff dead) as P.
      destruct (register_adc (a_core a) num dwell delay freq phoff dead) as [[c1 i] clr].
      inversion H. subst a'. cbn -[set_nth] in *.
      split; [apply (lab_inv_transfer (a_core a)); [exact (proj1 G)|exact Ex|exact P|exact L]|].
     
      split; [exact G|]. exists []. split; [rewrite app_nil_r; reflexivity|reflexivity].
  - (* MDelay *)
    inversion H. subst a'. cbn -[set_nth] in *. split; [exact L|].
    split; [exact G|]. exists []. split; [rewrite app_nil_r; reflexivity|reflexivity].
  - (* MCtl *)
    destruct id as [i|]; [contradiction|].
    destruct L as (I & W & K1 & K2 & K3 & X).
    pose proof (kfoi_get (trig_l (a_core a)) [zq typ; zq chan; delay; dur] 0 (proj1 (proj2 (proj2 (proj2 I)))) K1) as Gk.
    pose proof (kfoi_keymap_consistent (trig_l (a_core a)) [zq typ; zq chan; delay; dur] 0
                  (proj1 (proj2 (proj2 (proj2 I)))) K1) as [_ K1'].
    unfold register_ctl in H.
    destruct (kfoi (trig_l (a_core a)) [zq typ; zq chan; delay; dur] 0) as [[tl eid] found]. cbn [fst snd] in Gk, K1'.
    set (c1 := a_core a <| trig_l := tl |>) in *.
    assert (X1 : xt_inv c1) by exact X.
    pose proof (ext_type_id_spec c1 XS_TRIGGERS X1) as [X2 T2].
    pose proof (ext_type_id_ext c1 XS_TRIGGERS) as E2.
    assert (P2 : trig_l (fst (ext_type_id c1 XS_TRIGGERS)) = tl /\
                 lset_l (fst (ext_type_id c1 XS_TRIGGERS)) = lset_l (a_core a) /\
                 linc_l (fst (ext_type_id c1 XS_TRIGGERS)) = linc_l (a_core a))
      by (unfold ext_type_id; destruct (index_of XS_TRIGGERS (ext_str c1)); repeat split; reflexivity).
    destruct (ext_type_id c1 XS_TRIGGERS) as [c2 tid]. cbn [fst snd] in *.
    inversion H. subst a'. cbn -[set_nth] in *. destruct P2 as (Q1 & Q2 & Q3).
    split.
    { split; [exact (proj1 G)|]. split; [rewrite E2; exact W|].
      rewrite Q1, Q2, Q3. repeat split; try assumption; apply X2. }
    split; [exact G|].
    exists [(tid, eid)]. split; [reflexivity|].
    cbn [map_opt]. unfold ext_payload. cbn [fst snd]. rewrite T2. rewrite Z.eqb_refl. rewrite Q1, Gk. reflexivity.
  - (* MLabel *)
    destruct id as [i|]; [contradiction|].
    destruct L as (I & W & K1 & K2 & K3 & X).
    destruct I as (I1 & I2 & I3 & I4 & I5 & I6 & I7 & I8).
    unfold register_label in H.
    destruct is_set.
    + pose proof (kfoi_get (lset_l (a_core a)) [value; zq lbl] 0 I5 K2) as Gk.
      pose proof (kfoi_keymap_consistent (lset_l (a_core a)) [value; zq lbl] 0 I5 K2) as [_ K2'].
      destruct (kfoi (lset_l (a_core a)) [value; zq lbl] 0) as [[tl eid] found]. cbn [fst snd] in Gk, K2'.
      set (c1 := a_core a <| lset_l := tl |>) in *.
      assert (X1 : xt_inv c1) by exact X.
      pose proof (ext_type_id_spec c1 XS_LABELSET X1) as [X2 T2].
      pose proof (ext_type_id_ext c1 XS_LABELSET) as E2.
      assert (P2 : trig_l (fst (ext_type_id c1 XS_LABELSET)) = trig_l (a_core a) /\
                   lset_l (fst (ext_type_id c1 XS_LABELSET)) = tl /\
                   linc_l (fst (ext_type_id c1 XS_LABELSET)) = linc_l (a_core a))
        by (unfold ext_type_id; destruct (index_of XS_LABELSET (ext_str c1)); repeat split; reflexivity).
      destruct (ext_type_id c1 XS_LABELSET) as [c2 tid]. cbn [fst snd] in *.
      inversion H. subst a'. cbn -[set_nth] in *. destruct P2 as (Q1 & Q2 & Q3).
      split.
      { split; [exact (proj1 G)|]. split; [rewrite E2; exact W|].
        rewrite Q1, Q2, Q3. repeat split; try assumption; apply X2. }
      split; [exact G|].
      exists [(tid, eid)]. split; [reflexivity|].
      cbn [map_opt]. unfold ext_payload. cbn [fst snd]. rewrite T2.
      destruct XS_distinct as (D1 & D2 & D3). rewrite D1, Z.eqb_refl. rewrite Q2, Gk. reflexivity.
    + pose proof (kfoi_get (linc_l (a_core a)) [value; zq lbl] 0 I6 K3) as Gk.
      pose proof (kfoi_keymap_consistent (linc_l (a_core a)) [value; zq lbl] 0 I6 K3) as [_ K3'].
      destruct (kfoi (linc_l (a_core a)) [value; zq lbl] 0) as [[tl eid] found]. cbn [fst snd] in Gk, K3'.
      set (c1 := a_core a <| linc_l := tl |>) in *.
      assert (X1 : xt_inv c1) by exact X.
      pose proof (ext_type_id_spec c1 XS_LABELINC X1) as [X2 T2].
      pose proof (ext_type_id_ext c1 XS_LABELINC) as E2.
      assert (P2 : trig_l (fst (ext_type_id c1 XS_LABELINC)) = trig_l (a_core a) /\
                   lset_l (fst (ext_type_id c1 XS_LABELINC)) = lset_l (a_core a) /\
                   linc_l (fst (ext_type_id c1 XS_LABELINC)) = tl)
        by (unfold ext_type_id; destruct (index_of XS_LABELINC (ext_str c1)); repeat split; reflexivity).
      destruct (ext_type_id c1 XS_LABELINC) as [c2 tid]. cbn [fst snd] in *.
      inversion H. subst a'. cbn -[set_nth] in *. destruct P2 as (Q1 & Q2 & Q3).
      split.
      { split; [exact (proj1 G)|]. split; [rewrite E2; exact W|].
        rewrite Q1, Q2, Q3. repeat split; try assumption; apply X2. }
      split; [exact G|].
      exists [(tid, eid)]. split; [reflexivity|].
      cbn [map_opt]. unfold ext_payload. cbn [fst snd]. rewrite T2.
      destruct XS_distinct as (D1 & D2 & D3). rewrite D2, D3, Z.eqb_refl. rewrite Q3, Gk. reflexivity.
  - (* MDur *)
    inversion H. subst a'. cbn -[set_nth] in *. split; [exact L|].
    split; [exact G|]. exists []. split; [rewrite app_nil_r; reflexivity|reflexivity].
Qed.
