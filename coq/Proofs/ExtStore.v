(* Proofs/ExtStore.v — C19 at the level of set_block / add_block: the label and trigger events handed
   over by value come back from the stored block's extension chain as a permutation, in every store
   that satisfies the invariant [lab_inv]; the invariant holds along every operation history. *)
From Coq Require Import List Bool ZArith QArith Qcanon Lia Permutation.
From RecordUpdate Require Import RecordSet.
From PV Require Import Base.AList Base.QUtil Model.EventLib Model.Seq Model.Labels Model.LabelEval
                       Proofs.SeqSpec Proofs.SeqCache Proofs.SeqCont Proofs.ExtProofs.
Import ListNotations RecordSetNotations.
Open Scope Z_scope.

(* ---- the extension type table --------------------------------------------------------------------- *)
Definition xt_inv (c : core) : Prop :=
  NoDup (ext_num c) /\ length (ext_num c) = length (ext_str c) /\ NoDup (ext_str c).

Lemma index_of_nth_error x l n : index_of x l = Some n -> nth_error l n = Some x.
Proof.
  revert n. induction l as [|y r IH]; cbn; intros n H; [discriminate|].
  destruct (x =? y) eqn:E.
  - inversion H. apply Z.eqb_eq in E. subst. reflexivity.
  - destruct (index_of x r) as [m|]; [|discriminate]. inversion H. cbn. apply IH. reflexivity.
Qed.

Lemma index_of_notin x l : ~ In x l -> index_of x l = None.
Proof.
  induction l as [|y r IH]; cbn; intro N; [reflexivity|].
  destruct (x =? y) eqn:E; [apply Z.eqb_eq in E; exfalso; apply N; left; congruence|].
  rewrite IH; [reflexivity|]. intro H. apply N. right. exact H.
Qed.

Lemma index_of_nodup l : NoDup l -> forall n x, nth_error l n = Some x -> index_of x l = Some n.
Proof.
  induction 1 as [|y r Hn Hr IH]; intros n x H; [destruct n; discriminate|].
  destruct n as [|n]; cbn in H.
  - inversion H. subst. cbn. rewrite Z.eqb_refl. reflexivity.
  - cbn. destruct (x =? y) eqn:E.
    + apply Z.eqb_eq in E. subst. exfalso. apply Hn. eapply nth_error_In. exact H.
    + rewrite (IH n x H). reflexivity.
Qed.

Lemma index_of_snoc_new x l : ~ In x l -> index_of x (l ++ [x]) = Some (length l).
Proof.
  induction l as [|y r IH]; cbn; intro N.
  - rewrite Z.eqb_refl. reflexivity.
  - destruct (x =? y) eqn:E; [apply Z.eqb_eq in E; exfalso; apply N; left; congruence|].
    rewrite IH; [reflexivity|]. intro H. apply N. right. exact H.
Qed.

Lemma NoDup_snoc {A} (l : list A) x : NoDup l -> ~ In x l -> NoDup (l ++ [x]).
Proof.
  induction 1 as [|y r Hn Hr IH]; intro N; cbn; [constructor; [intros []|constructor]|].
  constructor.
  - intro H. apply in_app_or in H. destruct H as [H|[H|[]]]; [contradiction|]. apply N. left. symmetry. exact H.
  - apply IH. intro H. apply N. right. exact H.
Qed.

Lemma fold_max_ge l : forall a, a <= fold_left Z.max l a /\ forall y, In y l -> y <= fold_left Z.max l a.
Proof.
  induction l as [|x r IH]; intro a; cbn [fold_left]; [split; [lia|intros y []]|].
  destruct (IH (Z.max a x)) as [H1 H2]. split; [lia|].
  intros y [<-|Hy]; [lia|apply H2; exact Hy].
Qed.

Lemma index_of_none_notin x l : index_of x l = None -> ~ In x l.
Proof.
  induction l as [|y r IH]; cbn; intro H; [tauto|].
  destruct (x =? y) eqn:E; [discriminate|]. destruct (index_of x r); [discriminate|].
  intros [H1|H1]; [subst; rewrite Z.eqb_refl in E; discriminate|exact (IH eq_refl H1)].
Qed.

Lemma ext_type_id_spec c s :
  xt_inv c ->
  xt_inv (fst (ext_type_id c s)) /\ ext_type_str (fst (ext_type_id c s)) (snd (ext_type_id c s)) = Some s.
Proof.
  intros (Hn & Hl & Hs). unfold ext_type_id.
  destruct (index_of s (ext_str c)) as [n|] eqn:E; cbn [fst snd].
  - split; [repeat split; assumption|]. unfold ext_type_str.
    pose proof (index_of_nth_error _ _ _ E) as G.
    assert (Hlt : (n < length (ext_num c))%nat) by (rewrite Hl; apply nth_error_Some; congruence).
    assert (G2 : nth_error (ext_num c) n = Some (nth n (ext_num c) 0)) by (apply nth_error_nth'; exact Hlt).
    rewrite (index_of_nodup _ Hn _ _ G2). exact G.
  - set (id := match ext_num c with [] => 1 | _ :: _ => 1 + max_list (ext_num c) end).
    assert (Hfresh : ~ In id (ext_num c)).
    { intro H. subst id. destruct (ext_num c) as [|y r] eqn:En; [destruct H|].
      destruct (fold_max_ge (y :: r) 0) as [_ H2]. specialize (H2 _ H). unfold max_list in H. unfold max_list in *. lia. }
    split.
    + split; [|split]; cbn.
      * apply NoDup_snoc; assumption.
      * rewrite !app_length. cbn. lia.
      * apply NoDup_snoc; [exact Hs|apply index_of_none_notin; exact E].
    + unfold ext_type_str. cbn. rewrite (index_of_snoc_new _ _ Hfresh).
      rewrite Hl. rewrite nth_error_app2 by lia. rewrite Nat.sub_diag. reflexivity.
Qed.

(* ---- libraries ------------------------------------------------------------------------------------- *)
Lemma kfoi_get (l : klib) k ty :
  lib_inv l -> keymap_consistent l ->
  lib_get (fst (fst (kfoi l k ty))) (snd (fst (kfoi l k ty))) = Some k.
Proof.
  intros I C. unfold kfoi, lib_find_or_insert.
  destruct (aget key_eqb (lkeymap l) k) as [id|] eqn:E; cbn [fst snd].
  - apply C. exact E.
  - unfold lib_get. cbn [ldata]. apply agetZ_aset_same.
Qed.

(* ---- the invariant --------------------------------------------------------------------------------- *)
Definition lab_inv (c : core) : Prop :=
  core_inv c /\ ext_wf (ext_l c) /\ keymap_consistent (trig_l c) /\ keymap_consistent (lset_l c) /\
  keymap_consistent (linc_l c) /\ xt_inv c.

Definition lpart (c : core) := (trig_l c, lset_l c, linc_l c, ext_num c, ext_str c).

Lemma lab_inv_transfer c c' :
  core_inv c' -> ext_l c' = ext_l c -> lpart c' = lpart c -> lab_inv c -> lab_inv c'.
Proof.
  intros I E P (_ & W & K1 & K2 & K3 & X1 & X2 & X3). unfold lpart in P. inversion P as [[P1 P2 P3 P4 P5]].
  split; [exact I|]. split; [rewrite E; exact W|]. split; [rewrite P1; exact K1|].
  split; [rewrite P2; exact K2|]. split; [rewrite P3; exact K3|].
  split; [rewrite P4; exact X1|split; [rewrite P4, P5; exact X2|rewrite P5; exact X3]].
Qed.

Lemma register_adc_lpart c n dw de fr ph dd : lpart (fst (fst (register_adc c n dw de fr ph dd))) = lpart c.
Proof. unfold register_adc. crush_ext. Qed.
Lemma register_trap_lpart c a r f fl d : lpart (fst (fst (register_trap c a r f fl d))) = lpart c.
Proof. unfold register_trap. crush_ext. Qed.
Lemma register_grad_lpart c sids amp ws ts delay first last :
  lpart (fst (fst (fst (register_grad c sids amp ws ts delay first last)))) = lpart c.
Proof. unfold register_grad. crush_ext. Qed.
Lemma register_rf_lpart c sids amp mag ph ts delay freq phoff use :
  lpart (fst (fst (fst (register_rf c sids amp mag ph ts delay freq phoff use)))) = lpart c.
Proof. unfold register_rf. crush_ext. Qed.

Lemma lab_inv_init g s sl e : lab_inv (core_init g s sl e).
Proof.
  split; [apply core_inv_init|]. split; [apply ext_wf_init|].
  repeat split; try (intros k id H; discriminate H); try constructor.
Qed.

(* ---- payloads -------------------------------------------------------------------------------------- *)
Lemma ext_payload_mono c c' x p : core_le c c' -> ext_payload c x = Some p -> ext_payload c' x = Some p.
Proof.
  intros L H. unfold ext_payload in *.
  destruct (ext_type_str c (fst x)) as [s|] eqn:E; [|discriminate].
  rewrite (le_xstr _ _ L _ _ E).
  destruct (s =? XS_TRIGGERS).
  - destruct (lib_get (trig_l c) (snd x)) as [q|] eqn:G; [|discriminate].
    rewrite (lib_le_get _ _ _ _ (le_trig _ _ L) G). exact H.
  - destruct (s =? XS_LABELSET).
    + destruct (lib_get (lset_l c) (snd x)) as [q|] eqn:G; [|discriminate].
      rewrite (lib_le_get _ _ _ _ (le_lset _ _ L) G). exact H.
    + destruct (s =? XS_LABELINC); [|discriminate].
      destruct (lib_get (linc_l c) (snd x)) as [q|] eqn:G; [|discriminate].
      rewrite (lib_le_get _ _ _ _ (le_linc _ _ L) G). exact H.
Qed.

Lemma map_opt_mono {A B} (f g : A -> option B) l r :
  (forall x y, f x = Some y -> g x = Some y) -> map_opt f l = Some r -> map_opt g l = Some r.
Proof.
  intro M. revert r. induction l as [|x t IH]; cbn; intros r H; [exact H|].
  destruct (f x) as [y|] eqn:E; [|discriminate]. rewrite (M _ _ E).
  destruct (map_opt f t) as [s|]; [|discriminate]. rewrite (IH s eq_refl). exact H.
Qed.

Lemma map_opt_app {A B} (f : A -> option B) l1 l2 r1 r2 :
  map_opt f l1 = Some r1 -> map_opt f l2 = Some r2 -> map_opt f (l1 ++ l2) = Some (r1 ++ r2).
Proof.
  revert r1. induction l1 as [|x t IH]; cbn; intros r1 H1 H2.
  - inversion H1. exact H2.
  - destruct (f x) as [y|]; [|discriminate]. destruct (map_opt f t) as [s|]; [|discriminate].
    inversion H1. rewrite (IH s eq_refl H2). reflexivity.
Qed.

Lemma map_opt_perm {A B} (f : A -> option B) l l' :
  Permutation l l' -> forall r, map_opt f l = Some r -> exists r', map_opt f l' = Some r' /\ Permutation r r'.
Proof.
  induction 1 as [|x t t' P IH|x y t|l1 l2 l3 P1 IH1 P2 IH2]; intros r H; cbn in *.
  - exists r. split; [exact H|inversion H; constructor].
  - destruct (f x) as [a|]; [|discriminate]. destruct (map_opt f t) as [s|]; [|discriminate].
    destruct (IH s eq_refl) as (s' & E & Ps). rewrite E. inversion H. exists (a :: s'). split; [reflexivity|].
    constructor. exact Ps.
  - destruct (f y) as [b|]; [|discriminate]. destruct (f x) as [a|]; [|discriminate].
    destruct (map_opt f t) as [s|]; [|discriminate]. inversion H. exists (a :: b :: s). split; [reflexivity|apply perm_swap].
  - destruct (IH1 r H) as (r2 & E2 & Q2). destruct (IH2 r2 E2) as (r3 & E3 & Q3).
    exists r3. split; [exact E3|eapply perm_trans; eassumption].
Qed.

(* ---- events ------------------------------------------------------------------------------------------ *)
(* what a label / trigger event handed over by value must come back as: extension string and row *)
Definition ext_event_payload (e : mevent) : list (Z * key) :=
  match e with
  | MCtl None typ chan delay dur => [(XS_TRIGGERS, [zq typ; zq chan; delay; dur])]
  | MLabel None is_set value lbl => [(if is_set then XS_LABELSET else XS_LABELINC, [value; zq lbl])]
  | _ => []
  end.
Definition ext_by_value (e : mevent) : Prop :=
  match e with
  | MCtl (Some _) _ _ _ _ | MLabel (Some _) _ _ _ => False
  | _ => True
  end.

Definition blk_ok (a : acc) : Prop := length (a_blk a) = 7%nat /\ nth 6 (a_blk a) 0 = 0.

Lemma ev_step_blk a e a' : blk_ok a -> ev_ok e -> ev_step a e = inl a' -> blk_ok a'.
Proof.
  intros [B1 B2] Ok H. unfold blk_ok.
  destruct (a_blk a) as [|b0 [|b1 [|b2 [|b3 [|b4 [|b5 [|b6 [|b7 r]]]]]]]] eqn:EB; try discriminate B1.
  cbn in B2. subst b6.
  destruct e; cbn [ev_step ev_ok] in *.
  - destruct (negb (nth 1 (a_blk a) 0 =? 0)); [discriminate|].
    destruct id; [|destruct (register_rf _ _ _ _ _ _ _ _ _ _) as [[[? ?] ?] ?]]; inversion H; cbn; rewrite EB; split; reflexivity.
  - destruct Ok as (Hch & _ & _). destruct (negb (nth (2 + ch) (a_blk a) 0 =? 0)); [discriminate|].
    destruct ch as [|[|[|ch]]]; try lia;
    (destruct id; [|destruct (register_grad _ _ _ _ _ _ _ _) as [[[? ?] ?] ?]]; inversion H; cbn; rewrite EB; split; reflexivity).
  - destruct Ok as (Hch & _). destruct (negb (nth (2 + ch) (a_blk a) 0 =? 0)); [discriminate|].
    destruct ch as [|[|[|ch]]]; try lia;
    (destruct id; [|destruct (register_trap _ _ _ _ _ _) as [[? ?] ?]]; inversion H; cbn; rewrite EB; split; reflexivity).
  - destruct (negb (nth 5 (a_blk a) 0 =? 0)); [discriminate|].
    destruct id; [|destruct (register_adc _ _ _ _ _ _ _) as [[? ?] ?]]; inversion H; cbn; rewrite EB; split; reflexivity.
  - inversion H; cbn; rewrite EB; split; reflexivity.
  - destruct id; [|destruct (register_ctl _ _ _ _ _) as [[? ?] ?]]; destruct (ext_type_id _ _) as [? ?];
      inversion H; cbn; rewrite EB; split; reflexivity.
  - destruct id; [|destruct (register_label _ _ _ _) as [[? ?] ?]]; destruct (ext_type_id _ _) as [? ?];
      inversion H; cbn; rewrite EB; split; reflexivity.
  - inversion H; cbn; rewrite EB; split; reflexivity.
Qed.

Lemma XS_distinct : XS_LABELSET =? XS_TRIGGERS = false /\ XS_LABELINC =? XS_TRIGGERS = false /\
                    XS_LABELINC =? XS_LABELSET = false.
Proof. repeat split; reflexivity. Qed.

Lemma ev_step_lab a e a' :
  lab_inv (a_core a) -> ev_ok e -> ext_by_value e -> ev_step a e = inl a' ->
  lab_inv (a_core a') /\ grows (a_core a) (a_core a') /\
  exists new, a_exts a' = a_exts a ++ new /\
              map_opt (ext_payload (a_core a')) new = Some (ext_event_payload e).
Proof.
  intros L Ok Bv H.
  pose proof (ev_step_grows a e a' (proj1 L) H) as G.
  pose proof (ev_step_ext a e a' H) as Ex.
  destruct e; cbn [ev_step] in H; cbn [ev_ok ext_by_value ext_event_payload] in *.
  - (* MRf *)
    destruct (negb (nth 1 (a_blk a) 0 =? 0)); [discriminate|].
    destruct id as [i|].
    + inversion H. subst a'. cbn -[set_nth] in *. split; [exact L|].
      split; [exact G|]. exists []. split; [rewrite app_nil_r; reflexivity|reflexivity].
    + pose proof (register_rf_lpart (a_core a) sids amp mag phase tshape delay freq phoff use) as P.
      destruct (register_rf (a_core a) sids amp mag phase tshape delay freq phoff use) as [[[c1 i] ids] clr].
      inversion H. subst a'. cbn -[set_nth] in *.
      split; [apply (lab_inv_transfer (a_core a)); [exact (proj1 G)|exact Ex|exact P|exact L]|].
     
      split; [exact G|]. exists []. split; [rewrite app_nil_r; reflexivity|reflexivity].
  - (* MGrad *)
    destruct Ok as (Hch & -> & _).
    destruct (negb (nth (2 + ch) (a_blk a) 0 =? 0)); [discriminate|].
    pose proof (register_grad_lpart (a_core a) sids amp wshape tshape delay first last) as P.
    destruct (register_grad (a_core a) sids amp wshape tshape delay first last) as [[[c1 i] ids] clr].
    inversion H. subst a'. cbn -[set_nth] in *.
    split; [apply (lab_inv_transfer (a_core a)); [exact (proj1 G)|exact Ex|exact P|exact L]|].
   
    split; [exact G|]. exists []. split; [rewrite app_nil_r; reflexivity|reflexivity].
  - (* MTrap *)
    destruct Ok as (Hch & ->).
    destruct (negb (nth (2 + ch) (a_blk a) 0 =? 0)); [discriminate|].
    pose proof (register_trap_lpart (a_core a) amp rise flat fall delay) as P.
    destruct (register_trap (a_core a) amp rise flat fall delay) as [[c1 i] clr].
    inversion H. subst a'. cbn -[set_nth] in *.
    split; [apply (lab_inv_transfer (a_core a)); [exact (proj1 G)|exact Ex|exact P|exact L]|].
   
    split; [exact G|]. exists []. split; [rewrite app_nil_r; reflexivity|reflexivity].
  - (* MAdc *)
    destruct (negb (nth 5 (a_blk a) 0 =? 0)); [discriminate|].
    destruct id as [i|].
    + inversion H. subst a'. cbn -[set_nth] in *. split; [exact L|].
      split; [exact G|]. exists []. split; [rewrite app_nil_r; reflexivity|reflexivity].
    + pose proof (register_adc_lpart (a_core a) num dwell delay freq phoff dead) as P.
      destruct (register_adc (a_core a) num dwell delay freq phoff dead) as [[c1 i] clr].
      inversion H. subst a'. cbn -[set_nth] in *.
      split; [apply (lab_inv_transfer (a_core a)); [exact (proj1 G)|exact Ex|exact P|exact L]|].
     
      split; [exact G|]. exists []. split; [rewrite app_nil_r; reflexivity|reflexivity].
  - (* MDelay *)
    inversion H. subst a'. cbn -[set_nth] in *. split; [exact L|].
    split; [exact G|]. exists []. split; [rewrite app_nil_r; reflexivity|reflexivity].
  - (* MCtl *)
    destruct id as [i|]; [contradiction|].
    destruct L as (I & W & K1 & K2 & K3 & X).
    pose proof (kfoi_get (trig_l (a_core a)) [zq typ; zq chan; delay; dur] 0 (proj1 (proj2 (proj2 (proj2 I)))) K1) as Gk.
    pose proof (kfoi_keymap_consistent (trig_l (a_core a)) [zq typ; zq chan; delay; dur] 0
                  (proj1 (proj2 (proj2 (proj2 I)))) K1) as [_ K1'].
    unfold register_ctl in H.
    destruct (kfoi (trig_l (a_core a)) [zq typ; zq chan; delay; dur] 0) as [[tl eid] found]. cbn [fst snd] in Gk, K1'.
    set (c1 := a_core a <| trig_l := tl |>) in *.
    assert (X1 : xt_inv c1) by exact X.
    pose proof (ext_type_id_spec c1 XS_TRIGGERS X1) as [X2 T2].
    pose proof (ext_type_id_ext c1 XS_TRIGGERS) as E2.
    assert (P2 : trig_l (fst (ext_type_id c1 XS_TRIGGERS)) = tl /\
                 lset_l (fst (ext_type_id c1 XS_TRIGGERS)) = lset_l (a_core a) /\
                 linc_l (fst (ext_type_id c1 XS_TRIGGERS)) = linc_l (a_core a))
      by (unfold ext_type_id; destruct (index_of XS_TRIGGERS (ext_str c1)); repeat split; reflexivity).
    destruct (ext_type_id c1 XS_TRIGGERS) as [c2 tid]. cbn [fst snd] in *.
    inversion H. subst a'. cbn -[set_nth] in *. destruct P2 as (Q1 & Q2 & Q3).
    split.
    { split; [exact (proj1 G)|]. split; [rewrite E2; exact W|].
      rewrite Q1, Q2, Q3. repeat split; try assumption; apply X2. }
    split; [exact G|].
    exists [(tid, eid)]. split; [reflexivity|].
    cbn [map_opt]. unfold ext_payload. cbn [fst snd]. rewrite T2. rewrite Z.eqb_refl. rewrite Q1, Gk. reflexivity.
  - (* MLabel *)
    destruct id as [i|]; [contradiction|].
    destruct L as (I & W & K1 & K2 & K3 & X).
    destruct I as (I1 & I2 & I3 & I4 & I5 & I6 & I7 & I8).
    unfold register_label in H.
    destruct is_set.
    + pose proof (kfoi_get (lset_l (a_core a)) [value; zq lbl] 0 I5 K2) as Gk.
      pose proof (kfoi_keymap_consistent (lset_l (a_core a)) [value; zq lbl] 0 I5 K2) as [_ K2'].
      destruct (kfoi (lset_l (a_core a)) [value; zq lbl] 0) as [[tl eid] found]. cbn [fst snd] in Gk, K2'.
      set (c1 := a_core a <| lset_l := tl |>) in *.
      assert (X1 : xt_inv c1) by exact X.
      pose proof (ext_type_id_spec c1 XS_LABELSET X1) as [X2 T2].
      pose proof (ext_type_id_ext c1 XS_LABELSET) as E2.
      assert (P2 : trig_l (fst (ext_type_id c1 XS_LABELSET)) = trig_l (a_core a) /\
                   lset_l (fst (ext_type_id c1 XS_LABELSET)) = tl /\
                   linc_l (fst (ext_type_id c1 XS_LABELSET)) = linc_l (a_core a))
        by (unfold ext_type_id; destruct (index_of XS_LABELSET (ext_str c1)); repeat split; reflexivity).
      destruct (ext_type_id c1 XS_LABELSET) as [c2 tid]. cbn [fst snd] in *.
      inversion H. subst a'. cbn -[set_nth] in *. destruct P2 as (Q1 & Q2 & Q3).
      split.
      { split; [exact (proj1 G)|]. split; [rewrite E2; exact W|].
        rewrite Q1, Q2, Q3. repeat split; try assumption; apply X2. }
      split; [exact G|].
      exists [(tid, eid)]. split; [reflexivity|].
      cbn [map_opt]. unfold ext_payload. cbn [fst snd]. rewrite T2.
      destruct XS_distinct as (D1 & D2 & D3). rewrite D1, Z.eqb_refl. rewrite Q2, Gk. reflexivity.
    + pose proof (kfoi_get (linc_l (a_core a)) [value; zq lbl] 0 I6 K3) as Gk.
      pose proof (kfoi_keymap_consistent (linc_l (a_core a)) [value; zq lbl] 0 I6 K3) as [_ K3'].
      destruct (kfoi (linc_l (a_core a)) [value; zq lbl] 0) as [[tl eid] found]. cbn [fst snd] in Gk, K3'.
      set (c1 := a_core a <| linc_l := tl |>) in *.
      assert (X1 : xt_inv c1) by exact X.
      pose proof (ext_type_id_spec c1 XS_LABELINC X1) as [X2 T2].
      pose proof (ext_type_id_ext c1 XS_LABELINC) as E2.
      assert (P2 : trig_l (fst (ext_type_id c1 XS_LABELINC)) = trig_l (a_core a) /\
                   lset_l (fst (ext_type_id c1 XS_LABELINC)) = lset_l (a_core a) /\
                   linc_l (fst (ext_type_id c1 XS_LABELINC)) = tl)
        by (unfold ext_type_id; destruct (index_of XS_LABELINC (ext_str c1)); repeat split; reflexivity).
      destruct (ext_type_id c1 XS_LABELINC) as [c2 tid]. cbn [fst snd] in *.
      inversion H. subst a'. cbn -[set_nth] in *. destruct P2 as (Q1 & Q2 & Q3).
      split.
      { split; [exact (proj1 G)|]. split; [rewrite E2; exact W|].
        rewrite Q1, Q2, Q3. repeat split; try assumption; apply X2. }
      split; [exact G|].
      exists [(tid, eid)]. split; [reflexivity|].
      cbn [map_opt]. unfold ext_payload. cbn [fst snd]. rewrite T2.
      destruct XS_distinct as (D1 & D2 & D3). rewrite D2, D3, Z.eqb_refl. rewrite Q3, Gk. reflexivity.
  - (* MDur *)
    inversion H. subst a'. cbn -[set_nth] in *. split; [exact L|].
    split; [exact G|]. exists []. split; [rewrite app_nil_r; reflexivity|reflexivity].
Qed.

(* ---- the event loop ---------------------------------------------------------------------------------- *)
Lemma ev_loop_lab_inv evs : forall a,
  lab_inv (a_core a) -> blk_ok a -> Forall ev_ok evs -> Forall ext_by_value evs ->
  lab_inv (a_core (fst (ev_loop a evs))) /\ blk_ok (fst (ev_loop a evs)).
Proof.
  induction evs as [|e r IH]; intros a L B Ok Bv; cbn [ev_loop]; [split; assumption|].
  inversion Ok as [|? ? Oe Or]. inversion Bv as [|? ? Be Br]. subst.
  destruct (ev_step a e) as [a1|x] eqn:E; [|split; assumption].
  destruct (ev_step_lab a e a1 L Oe Be E) as (L1 & _).
  apply IH; [exact L1|eapply ev_step_blk; eassumption|exact Or|exact Br].
Qed.

Lemma ev_loop_lab evs : forall a a',
  lab_inv (a_core a) -> Forall ev_ok evs -> Forall ext_by_value evs ->
  ev_loop a evs = (a', None) ->
  grows (a_core a) (a_core a') /\
  exists new, a_exts a' = a_exts a ++ new /\
              map_opt (ext_payload (a_core a')) new = Some (flat_map ext_event_payload evs).
Proof.
  induction evs as [|e r IH]; intros a a' L Ok Bv H; cbn [ev_loop] in H.
  - inversion H. subst a'. split; [apply grows_refl; exact (proj1 L)|].
    exists []. split; [rewrite app_nil_r; reflexivity|reflexivity].
  - inversion Ok as [|? ? Oe Or]. inversion Bv as [|? ? Be Br]. subst.
    destruct (ev_step a e) as [a1|x] eqn:E; [|discriminate].
    destruct (ev_step_lab a e a1 L Oe Be E) as (L1 & G1 & new1 & N1 & P1).
    destruct (IH a1 a' L1 Or Br H) as (G2 & new2 & N2 & P2).
    split; [eapply grows_trans; eassumption|].
    exists (new1 ++ new2). split; [rewrite N2, N1, app_assoc; reflexivity|].
    cbn [flat_map]. apply map_opt_app; [|exact P2].
    eapply map_opt_mono; [|exact P1]. intros x y Hx. eapply ext_payload_mono; [exact (proj2 G2)|exact Hx].
Qed.

Lemma map_opt_nil_inv {A B} (f : A -> option B) r : map_opt f [] = Some r -> r = [].
Proof. cbn. intro H. inversion H. reflexivity. Qed.

(* ---- set_block ----------------------------------------------------------------------------------------- *)
Definition stored_ext (c : core) (i : Z) : option (list (Z * key)) :=
  match aget Z.eqb (blocks c) i with
  | None => None
  | Some blk =>
    (* exactly the expression decode (Model/Seq.v) evaluates for the d_ext field *)
    if 0 <? nth 6 blk 0 then dec_ext c (S (length (ldata (ext_l c)))) (nth 6 blk 0) else Some []
  end.

Lemma sbc_lab_inv abs_fix c i evs hint :
  lab_inv c -> Forall ev_ok evs -> Forall ext_by_value evs ->
  lab_inv (fst (fst (set_block_core abs_fix c i evs hint))).
Proof.
  intros L Ok Bv.
  pose proof (sbc_core_inv abs_fix c i evs hint (proj1 L)) as I'.
  pose proof (sbc_ext abs_fix c i evs hint (proj1 (proj2 L))) as W'.
  unfold set_block_core in *.
  set (a0 := mkAcc c false [0; 0; 0; 0; 0; 0; 0] qc0 [chk0; chk0; chk0] []) in *.
  assert (B0 : blk_ok a0) by (split; reflexivity).
  destruct (ev_loop_lab_inv evs a0 L B0 Ok Bv) as [(_ & _ & K1 & K2 & K3 & X) _].
  destruct (ev_loop a0 evs) as [a eo]. cbn [fst] in *.
  destruct eo as [x|].
  - cbn [fst] in *. repeat (split; try assumption).
  - destruct (a_exts a) as [|x xs].
    + destruct (check_channels abs_fix (a_core a) i (a_dur a) 0 (a_chk a)); cbn [fst] in *;
        (split; [exact I'|split; [exact W'|]]); cbn; repeat (split; try assumption); apply X.
    + destruct (ext_register hint (ext_l (a_core a)) (x :: xs)) as [el eid].
      destruct (check_channels abs_fix (a_core a <| ext_l := el |>) i (a_dur a) 0 (a_chk a)); cbn [fst] in *;
        (split; [exact I'|split; [exact W'|]]); cbn; repeat (split; try assumption); apply X.
Qed.

Lemma stored_ext_set c i blk d ext :
  (if 0 <? nth 6 blk 0 then dec_ext c (S (length (ldata (ext_l c)))) (nth 6 blk 0) else Some []) = Some ext ->
  stored_ext (c <| blocks := aset Z.eqb (blocks c) i blk |> <| durs := d |>) i = Some ext.
Proof.
  intro H. unfold stored_ext.
  change (blocks (c <| blocks := aset Z.eqb (blocks c) i blk |> <| durs := d |>)) with (aset Z.eqb (blocks c) i blk).
  rewrite agetZ_aset_same.
  change (ext_l (c <| blocks := aset Z.eqb (blocks c) i blk |> <| durs := d |>)) with (ext_l c).
  destruct (0 <? nth 6 blk 0); [|exact H].
  rewrite (dec_ext_cong c); [exact H|unfold same_libs; cbn; repeat split].
Qed.

Theorem set_block_ext_roundtrip : forall abs_fix c i evs hint c' clr,
  lab_inv c -> Forall ev_ok evs -> Forall ext_by_value evs ->
  set_block_core abs_fix c i evs hint = (c', clr, None) ->
  exists ext, stored_ext c' i = Some ext /\ Permutation ext (flat_map ext_event_payload evs).
Proof.
  intros abs_fix c i evs hint c' clr L Ok Bv H. unfold set_block_core in H.
  set (a0 := mkAcc c false [0; 0; 0; 0; 0; 0; 0] qc0 [chk0; chk0; chk0] []) in *.
  assert (B0 : blk_ok a0) by (split; reflexivity).
  destruct (ev_loop_lab_inv evs a0 L B0 Ok Bv) as [La Ba].
  destruct (ev_loop a0 evs) as [a eo] eqn:EL. cbn [fst] in La, Ba.
  destruct eo as [x|]; [inversion H|].
  destruct (ev_loop_lab evs a0 a L Ok Bv EL) as (G & new & N & P). cbn [a_exts a0 app] in N.
  rewrite <- N in P. clear new N.
  destruct Ba as [Bl Bn].
  destruct (a_blk a) as [|b0 [|b1 [|b2 [|b3 [|b4 [|b5 [|b6 [|b7 rr]]]]]]]] eqn:EB; try discriminate Bl.
  cbn in Bn. subst b6.
  destruct (a_exts a) as [|x xs] eqn:EX.
  - destruct (check_channels abs_fix (a_core a) i (a_dur a) 0 (a_chk a)); [inversion H|].
    injection H as Hc Hclr. subst c' clr.
    apply map_opt_nil_inv in P. rewrite P.
    exists []. split; [|constructor].
    apply stored_ext_set. reflexivity.
  - pose proof (proj1 (proj2 La)) as Wa.
    destruct (ext_register_spec hint (ext_l (a_core a)) (x :: xs) Wa) as (A1 & A2 & A3 & A4 & A5 & A6).
    destruct (ext_roundtrip hint (a_core a) (x :: xs) Wa) as [R1 R2].
    destruct (ext_register hint (ext_l (a_core a)) (x :: xs)) as [el eid]. cbn [fst snd] in *.
    destruct (check_channels abs_fix (a_core a <| ext_l := el |>) i (a_dur a) 0 _); [inversion H|].
    injection H as Hc Hclr. subst c' clr.
    (* the registered id is positive *)
    assert (Hpos : 0 < eid).
    { destruct A4 as [->|V].
      - rewrite ext_list_unfold in A5. cbn in A5. inversion A5 as [A5'].
        rewrite <- A5' in R2. apply Permutation_nil in R2. discriminate.
      - destruct (lib_get el eid) as [k|] eqn:E; [|congruence].
        destruct A1 as (_ & W1 & _). destruct (W1 _ _ E). lia. }
    destruct (map_opt_perm (ext_payload (a_core a)) _ _ (Permutation_sym R2) _ P) as (ext & E1 & E2).
    exists ext. split; [|apply Permutation_sym; exact E2].
    change (stored_ext ((a_core a <| ext_l := el |>)
              <| blocks := aset Z.eqb (blocks (a_core a <| ext_l := el |>)) i [b0; b1; b2; b3; b4; b5; eid] |>
              <| durs := aset Z.eqb (durs (a_core a)) i (a_dur a) |>) i = Some ext).
    apply stored_ext_set.
    cbn [nth set_nth]. apply Z.ltb_lt in Hpos. rewrite Hpos.
    change (ext_l (a_core a <| ext_l := el |>)) with el.
    rewrite R1. exact E1.
Qed.

(* ---- whole histories ------------------------------------------------------------------------------------ *)
Definition op_lab_ok (o : op) : Prop :=
  match o with
  | AddBlock evs _ | SetBlock _ evs _ => Forall ev_ok evs /\ Forall ext_by_value evs
  | Load c => lab_inv c
  | _ => True
  end.

Lemma dedup_core_lpart r1 r2 r3 r4 c c' : dedup_core r1 r2 r3 r4 c = Some c' -> lpart c' = lpart c.
Proof.
  intro H. unfold dedup_core in H.
  destruct (lib_remove_duplicates key_eqb r1 (shape_l c)) as [sl smap].
  destruct (remap_rows (ldata (grad_l c)) (grad_l c)
              (fun id => match lib_type (grad_l c) id with Some t => t =? tag_g | None => false end)
              (remap_grad_row smap)) as [gl1|]; cbn [opt_bind] in H; [|discriminate].
  destruct (remap_rows (ldata (rf_l c)) (rf_l c) (fun _ => true) (remap_rf_row smap)) as [rl1|];
    cbn [opt_bind] in H; [|discriminate].
  destruct (lib_remove_duplicates key_eqb r2 gl1) as [gl2 gmap].
  destruct (remap_blocks (blocks c) [2%nat; 3%nat; 4%nat] gmap) as [b1|]; cbn [opt_bind] in H; [|discriminate].
  destruct (lib_remove_duplicates key_eqb r3 rl1) as [rl2 rmap].
  destruct (remap_blocks b1 [1%nat] rmap) as [b2|]; cbn [opt_bind] in H; [|discriminate].
  destruct (lib_remove_duplicates key_eqb r4 (adc_l c)) as [al2 amap].
  destruct (remap_blocks b2 [5%nat] amap) as [b3|]; cbn [opt_bind] in H; [|discriminate].
  inversion H. reflexivity.
Qed.

Lemma op_lab_ok_wf o : op_lab_ok o -> ops_wf [o].
Proof. destruct o; cbn; try tauto. intros (I & _). split; [exact I|exact Logic.I]. Qed.

Theorem step_lab_inv : forall cache_on abs_fix r1 r2 r3 r4 s o,
  lab_inv (st_core s) -> op_lab_ok o ->
  lab_inv (st_core (fst (step cache_on abs_fix r1 r2 r3 r4 s o))).
Proof.
  intros cache_on abs_fix r1 r2 r3 r4 s o L Ok.
  pose proof (step_core_inv cache_on abs_fix r1 r2 r3 r4 s o (proj1 L) (op_lab_ok_wf o Ok)) as I'.
  destruct o; cbn [step] in *.
  - destruct Ok as [O1 O2].
    pose proof (sbc_lab_inv abs_fix (st_core s) (next_block (st_core s)) evs hint L O1 O2) as H.
    destruct (set_block_core abs_fix (st_core s) (next_block (st_core s)) evs hint) as [[c' clr] e].
    cbn [fst] in H. destruct e; cbn [fst st_core]; [exact H|].
    apply (lab_inv_transfer c'); [exact I'|reflexivity|reflexivity|exact H].
  - destruct Ok as [O1 O2].
    pose proof (sbc_lab_inv abs_fix (st_core s) i evs hint L O1 O2) as H.
    destruct (set_block_core abs_fix (st_core s) i evs hint) as [[c' clr] e].
    cbn [fst] in H. destruct e; cbn [fst st_core]; [exact H|].
    apply (lab_inv_transfer c'); [exact I'|reflexivity|reflexivity|exact H].
  - pose proof (do_get_core cache_on s i) as H.
    destruct (do_get cache_on s i) as [s' b]. cbn [fst] in *. rewrite H. exact L.
  - pose proof (register_rf_lpart (st_core s) sids amp mag phase tshape delay freq phoff use) as P.
    pose proof (register_rf_ext (st_core s) sids amp mag phase tshape delay freq phoff use) as E.
    destruct (register_rf (st_core s) sids amp mag phase tshape delay freq phoff use) as [[[c' id] ids] clr].
    cbn [fst st_core] in *. apply (lab_inv_transfer (st_core s)); assumption.
  - pose proof (register_grad_lpart (st_core s) sids amp wshape tshape delay first last) as P.
    pose proof (register_grad_ext (st_core s) sids amp wshape tshape delay first last) as E.
    destruct (register_grad (st_core s) sids amp wshape tshape delay first last) as [[[c' id] ids] clr].
    cbn [fst st_core] in *. apply (lab_inv_transfer (st_core s)); assumption.
  - pose proof (register_trap_lpart (st_core s) amp rise flat fall delay) as P.
    pose proof (register_trap_ext (st_core s) amp rise flat fall delay) as E.
    destruct (register_trap (st_core s) amp rise flat fall delay) as [[c' id] clr].
    cbn [fst st_core] in *. apply (lab_inv_transfer (st_core s)); assumption.
  - pose proof (register_adc_lpart (st_core s) num dwell delay freq phoff dead) as P.
    pose proof (register_adc_ext (st_core s) num dwell delay freq phoff dead) as E.
    destruct (register_adc (st_core s) num dwell delay freq phoff dead) as [[c' id] clr].
    cbn [fst st_core] in *. apply (lab_inv_transfer (st_core s)); assumption.
  - (* RegLabel: one of the two label libraries grows by find_or_insert *)
    destruct L as (I & W & K1 & K2 & K3 & X). destruct I as (I1 & I2 & I3 & I4 & I5 & I6 & I7 & I8).
    unfold register_label in *. destruct is_set.
    + pose proof (kfoi_keymap_consistent (lset_l (st_core s)) [value; zq lbl] 0 I5 K2) as [_ K2'].
      destruct (kfoi (lset_l (st_core s)) [value; zq lbl] 0) as [[tl id] found]. cbn [fst snd st_core] in *.
      split; [exact I'|]. repeat (split; try assumption); apply X.
    + pose proof (kfoi_keymap_consistent (linc_l (st_core s)) [value; zq lbl] 0 I6 K3) as [_ K3'].
      destruct (kfoi (linc_l (st_core s)) [value; zq lbl] 0) as [[tl id] found]. cbn [fst snd st_core] in *.
      split; [exact I'|]. repeat (split; try assumption); apply X.
  - destruct (dedup_core r1 r2 r3 r4 (st_core s)) as [c'|] eqn:E; cbn [fst st_core] in *; [|exact L].
    apply (lab_inv_transfer (st_core s));
      [exact I'|exact (dedup_core_ext _ _ _ _ _ _ E)|exact (dedup_core_lpart _ _ _ _ _ _ E)|exact L].
  - cbn [fst]. exact L.
  - cbn [fst]. rewrite touch_core. exact L.
  - cbn [fst st_core]. exact Ok.
Qed.

Lemma run_lab_inv_gen cache_on abs_fix r1 r2 r3 r4 ops : forall s acc,
  lab_inv (st_core s) -> Forall op_lab_ok ops ->
  lab_inv (st_core (fst (fold_left (fun (acc : state * list out) o =>
               let '(s', x) := step cache_on abs_fix r1 r2 r3 r4 (fst acc) o in (s', snd acc ++ [x]))
               ops (s, acc)))).
Proof.
  induction ops as [|o r IH]; intros s acc L Ok; cbn [fold_left]; [exact L|].
  inversion Ok as [|? ? Oo Or]. subst. cbn [fst snd].
  pose proof (step_lab_inv cache_on abs_fix r1 r2 r3 r4 s o L Oo) as L'.
  destruct (step cache_on abs_fix r1 r2 r3 r4 s o) as [s1 x1]. cbn [fst] in L'.
  apply IH; assumption.
Qed.

Theorem run_lab_inv : forall cache_on abs_fix r1 r2 r3 r4 ops s0,
  lab_inv (st_core s0) -> Forall op_lab_ok ops ->
  lab_inv (st_core (fst (run cache_on abs_fix r1 r2 r3 r4 s0 ops))).
Proof. intros. unfold run. apply run_lab_inv_gen; assumption. Qed.

(* after ANY history (events by value; read() of well-formed stores), a successful add_block stores a
   block whose extension chain decodes to a permutation of the label / trigger events handed over *)
Theorem add_block_returns_extensions : forall cache_on abs_fix r1 r2 r3 r4 ops g sr sl e evs hint,
  Forall op_lab_ok ops -> Forall ev_ok evs -> Forall ext_by_value evs ->
  let s := fst (run cache_on abs_fix r1 r2 r3 r4 (mkState (core_init g sr sl e) []) ops) in
  let res := step cache_on abs_fix r1 r2 r3 r4 s (AddBlock evs hint) in
  snd res = ONone ->
  exists ext, stored_ext (st_core (fst res)) (next_block (st_core s)) = Some ext /\
              Permutation ext (flat_map ext_event_payload evs).
Proof.
  intros cache_on abs_fix r1 r2 r3 r4 ops g sr sl e evs hint Ok Oe Be. cbv zeta.
  pose proof (run_lab_inv cache_on abs_fix r1 r2 r3 r4 ops (mkState (core_init g sr sl e) [])
                (lab_inv_init g sr sl e) Ok) as L.
  set (s := fst (run cache_on abs_fix r1 r2 r3 r4 (mkState (core_init g sr sl e) []) ops)) in *.
  cbn [step].
  destruct (set_block_core abs_fix (st_core s) (next_block (st_core s)) evs hint) as [[c' clr] eo] eqn:E.
  destruct eo as [x|]; cbn [snd fst st_core]; [discriminate|]. intros _.
  destruct (set_block_ext_roundtrip _ _ _ _ _ _ _ L Oe Be E) as (ext & S1 & S2).
  exists ext. split; [|exact S2].
  unfold stored_ext in *.
  change (blocks (c' <| next_block := next_block c' + 1 |>)) with (blocks c').
  destruct (aget Z.eqb (blocks c') (next_block (st_core s))) as [blk|]; [|discriminate].
  change (ext_l (c' <| next_block := next_block c' + 1 |>)) with (ext_l c').
  destruct (0 <? nth 6 blk 0); [|exact S1].
  rewrite (dec_ext_cong c'); [exact S1|unfold same_libs; cbn; repeat split].
Qed.

(* ---- in terms of what the user sees: label operations and trigger rows ----------------------------------- *)
Definition event_labels (evs : list mevent) : list lop :=
  flat_map (fun e => match e with MLabel None s v l => [mkLop s l (qz v)] | _ => [] end) evs.
Definition event_trigs (evs : list mevent) : list key :=
  flat_map (fun e => match e with MCtl None t ch d du => [[zq t; zq ch; d; du]] | _ => [] end) evs.

Lemma filter_map_app {A B} (f : A -> option B) l1 l2 : filter_map f (l1 ++ l2) = filter_map f l1 ++ filter_map f l2.
Proof.
  induction l1 as [|x r IH]; cbn; [reflexivity|]. destruct (f x); cbn; rewrite IH; reflexivity.
Qed.

Lemma filter_map_perm {A B} (f : A -> option B) l l' : Permutation l l' -> Permutation (filter_map f l) (filter_map f l').
Proof.
  induction 1 as [|x t t' P IH|x y t|l1 l2 l3 P1 IH1 P2 IH2]; cbn.
  - constructor.
  - destruct (f x); [constructor|]; exact IH.
  - destruct (f y); destruct (f x); try apply perm_swap; apply Permutation_refl.
  - eapply perm_trans; eassumption.
Qed.

Lemma payload_labels evs : filter_map lop_of_ext (flat_map ext_event_payload evs) = event_labels evs.
Proof.
  induction evs as [|e r IH]; [reflexivity|]. unfold event_labels in *. cbn [flat_map].
  rewrite filter_map_app, IH. f_equal.
  destruct e; try reflexivity; destruct id; try reflexivity.
  destruct is_set; cbn; unfold knth; cbn [nth]; rewrite qz_zq; reflexivity.
Qed.

Lemma payload_trigs evs :
  filter_map (fun x => if fst x =? XS_TRIGGERS then Some (snd x) else None) (flat_map ext_event_payload evs) = event_trigs evs.
Proof.
  induction evs as [|e r IH]; [reflexivity|]. unfold event_trigs in *. cbn [flat_map].
  rewrite filter_map_app, IH. f_equal.
  destruct e; try reflexivity; destruct id; try reflexivity. destruct is_set; reflexivity.
Qed.

Theorem ext_perm_labels_trigs : forall ext evs,
  Permutation ext (flat_map ext_event_payload evs) ->
  Permutation (labels_of_ext ext) (event_labels evs) /\ Permutation (trigs_of_ext ext) (event_trigs evs).
Proof.
  intros ext evs P. split.
  - unfold labels_of_ext. eapply perm_trans; [apply Permutation_sym, Permutation_rev|].
    rewrite <- payload_labels. apply filter_map_perm. exact P.
  - unfold trigs_of_ext. rewrite <- payload_trigs. apply filter_map_perm. exact P.
Qed.

(* get_block's extension field is [stored_ext] *)
Theorem decode_ext_is_stored : forall c i b, decode c i = Some b -> stored_ext c i = Some (d_ext b).
Proof.
  intros c i b H. unfold decode in H. unfold stored_ext.
  destruct (aget Z.eqb (blocks c) i) as [ev|]; cbn [opt_bind] in H; [|discriminate].
  destruct (dec_rf c (nth 1 ev 0)) as [rf|]; cbn [opt_bind] in H; [|discriminate].
  destruct (dec_grad c (nth 2 ev 0)) as [gx|]; cbn [opt_bind] in H; [|discriminate].
  destruct (dec_grad c (nth 3 ev 0)) as [gy|]; cbn [opt_bind] in H; [|discriminate].
  destruct (dec_grad c (nth 4 ev 0)) as [gz|]; cbn [opt_bind] in H; [|discriminate].
  destruct (dec_adc c (nth 5 ev 0)) as [adc|]; cbn [opt_bind] in H; [|discriminate].
  destruct (if 0 <? nth 6 ev 0 then dec_ext c (S (length (ldata (ext_l c)))) (nth 6 ev 0) else Some []) as [ext|];
    cbn [opt_bind] in H; [|discriminate].
  destruct (aget Z.eqb (durs c) i) as [d|]; cbn [opt_bind] in H; [|discriminate].
  inversion H. reflexivity.
Qed.

(* the statement of the property for one add_block, after any history: whenever get_block of the new
   block succeeds, its labels and triggers are a permutation of the ones added *)
Theorem add_block_get_block_labels_triggers : forall cache_on abs_fix r1 r2 r3 r4 ops g sr sl e evs hint b,
  Forall op_lab_ok ops -> Forall ev_ok evs -> Forall ext_by_value evs ->
  let s := fst (run cache_on abs_fix r1 r2 r3 r4 (mkState (core_init g sr sl e) []) ops) in
  let res := step cache_on abs_fix r1 r2 r3 r4 s (AddBlock evs hint) in
  snd res = ONone ->
  decode (st_core (fst res)) (next_block (st_core s)) = Some b ->
  Permutation (labels_of_ext (d_ext b)) (event_labels evs) /\
  Permutation (trigs_of_ext (d_ext b)) (event_trigs evs).
Proof.
  intros cache_on abs_fix r1 r2 r3 r4 ops g sr sl e evs hint b Ok Oe Be. cbv zeta. intros Hn Hd.
  destruct (add_block_returns_extensions cache_on abs_fix r1 r2 r3 r4 ops g sr sl e evs hint Ok Oe Be Hn)
    as (ext & S1 & S2).
  rewrite (decode_ext_is_stored _ _ _ Hd) in S1. inversion S1. subst ext.
  apply ext_perm_labels_trigs. exact S2.
Qed.

(* ---- the numeric id of a new extension type never collides, whatever the order of the id list ------- *)
Theorem ext_type_id_fresh : forall c s,
  index_of s (ext_str c) = None -> ~ In (snd (ext_type_id c s)) (ext_num c).
Proof.
  intros c s E. unfold ext_type_id. rewrite E. cbn [snd].
  intro H. destruct (ext_num c) as [|y r] eqn:En; [destruct H|].
  destruct (fold_max_ge (y :: r) 0) as [_ H2]. specialize (H2 _ H). unfold max_list in *. lia.
Qed.

(* known names keep their number; a store loaded from a file (ids in any order) satisfying [xt_inv]
   therefore maps every name to one number and every number to one name, before and after *)
Theorem ext_type_id_known : forall c ty s,
  xt_inv c -> ext_type_str c ty = Some s -> ext_type_id c s = (c, ty).
Proof.
  intros c ty s (Hn & Hl & Hs) H. unfold ext_type_str in H.
  destruct (index_of ty (ext_num c)) as [n|] eqn:E; [|discriminate].
  unfold ext_type_id. rewrite (index_of_nodup _ Hs _ _ H).
  pose proof (index_of_nth_error _ _ _ E) as G.
  f_equal. apply nth_error_nth. exact G.
Qed.

Theorem ext_type_id_last_refuted :
  exists c s, xt_inv c /\ index_of s (ext_str c) = None /\
    In (snd (ext_type_id_last c s)) (ext_num c) /\
    ext_type_str (fst (ext_type_id_last c s)) (snd (ext_type_id_last c s)) <> Some s.
Proof.
  exists ((core_init qc0 qc0 qc0 qc0) <| ext_num := [2; 1] |> <| ext_str := [XS_LABELSET; XS_LABELINC] |>), XS_TRIGGERS.
  split; [|split; [reflexivity|split; [cbn; auto|cbn; discriminate]]].
  repeat split; cbn; try reflexivity; repeat constructor; cbn; intuition discriminate.
Qed.

(* ---- label / trigger events passed BY ID (the `ev.id = seq.register_label_event(ev)` idiom) ---------------- *)
(* set_block trusts an id attached to the event (block.py: `if hasattr(event, 'id')`).  When the id is the one
   register_label_event returned for THIS store, storing by id equals storing by value ... *)
Theorem label_by_value_eq_by_id : forall abs_fix c i s v l hint,
  let '(c1, id, _) := register_label c s v l in
  fst (fst (set_block_core abs_fix c i [MLabel None s v l] hint)) =
  fst (fst (set_block_core abs_fix c1 i [MLabel (Some id) s v l] hint)).
Proof.
  intros abs_fix c i s v l hint.
  unfold set_block_core. cbn [ev_loop ev_step a_core a_blk a_exts].
  destruct (register_label c s v l) as [[c1 id] clr].
  destruct (ext_type_id c1 (if s then XS_LABELSET else XS_LABELINC)) as [c2 tid].
  cbn -[check_channels Qcmax Qcplus Qcmult ext_register].
  destruct (ext_register hint (ext_l c2) [(tid, id)]) as [el eid].
  match goal with
  | |- context [check_channels ?x1 ?x2 ?x3 ?x4 ?x5 ?x6] =>
    destruct (check_channels x1 x2 x3 x4 x5 x6); reflexivity
  end.
Qed.

Theorem ctl_by_value_eq_by_id : forall abs_fix c i ty ch d du hint,
  let '(c1, id, _) := register_ctl c ty ch d du in
  fst (fst (set_block_core abs_fix c i [MCtl None ty ch d du] hint)) =
  fst (fst (set_block_core abs_fix c1 i [MCtl (Some id) ty ch d du] hint)).
Proof.
  intros abs_fix c i ty ch d du hint.
  unfold set_block_core. cbn [ev_loop ev_step a_core a_blk a_exts].
  destruct (register_ctl c ty ch d du) as [[c1 id] clr].
  destruct (ext_type_id c1 XS_TRIGGERS) as [c2 tid].
  cbn -[check_channels Qcmax Qcplus Qcmult ext_register].
  destruct (ext_register hint (ext_l c2) [(tid, id)]) as [el eid].
  match goal with
  | |- context [check_channels ?x1 ?x2 ?x3 ?x4 ?x5 ?x6] =>
    destruct (check_channels x1 x2 x3 x4 x5 x6); reflexivity
  end.
Qed.
