(* Proofs/PnsProofs.v — lemmas about Model/Pns.v (C20).  All statements are for arbitrary sample
   lists (any length), weights, time constants; proofs by induction over the lists. *)
From Coq Require Import ZArith QArith Qround Qabs Qpower List Bool Arith Lia Lqa Setoid Morphisms.
From PV Require Import Base.QUtil Gen.GenPns Model.Pns.
Import ListNotations.
Open Scope Q_scope.

Lemma Qmult_le_l' x y z : 0 <= z -> x <= y -> z * x <= z * y.
Proof. intros. rewrite (Qmult_comm z x), (Qmult_comm z y). apply Qmult_le_compat_r; assumption. Qed.

(* ---------------------------------------------------------------------------------------------- *)
(* lists of rationals up to Qeq *)
Definition leq (l1 l2 : list Q) : Prop := Forall2 Qeq l1 l2.

Lemma leq_refl l : leq l l.
Proof. induction l; constructor; [reflexivity|assumption]. Qed.
Lemma leq_sym l1 l2 : leq l1 l2 -> leq l2 l1.
Proof. induction 1; constructor; [symmetry; assumption|assumption]. Qed.
Lemma leq_trans l1 l2 l3 : leq l1 l2 -> leq l2 l3 -> leq l1 l3.
Proof.
  intros H; revert l3; induction H; intros l3 H3; inversion H3; subst; constructor.
  - etransitivity; eassumption.
  - apply IHForall2; assumption.
Qed.
Global Instance leq_Equiv : Equivalence leq.
Proof. split; [exact leq_refl|exact leq_sym|exact leq_trans]. Qed.

Lemma leq_length l1 l2 : leq l1 l2 -> length l1 = length l2.
Proof. induction 1; simpl; congruence. Qed.
Lemma leq_app l1 l2 m1 m2 : leq l1 l2 -> leq m1 m2 -> leq (l1 ++ m1) (l2 ++ m2).
Proof. induction 1; simpl; intros Hm; [assumption|constructor; [assumption|apply IHForall2; assumption]]. Qed.
Lemma leq_map (f g : Q -> Q) l1 l2 :
  (forall a b, a == b -> f a == g b) -> leq l1 l2 -> leq (map f l1) (map g l2).
Proof. intros Hf; induction 1; simpl; constructor; [apply Hf; assumption|assumption]. Qed.
Lemma leq_map_ext (f g : Q -> Q) l : (forall a, f a == g a) -> leq (map f l) (map g l).
Proof. intros Hf; induction l; simpl; constructor; [apply Hf|assumption]. Qed.
Lemma leq_zipw (f g : Q -> Q -> Q) l1 l2 m1 m2 :
  (forall a b c d, a == b -> c == d -> f a c == g b d) ->
  leq l1 l2 -> leq m1 m2 -> leq (zipw f l1 m1) (zipw g l2 m2).
Proof.
  intros Hf H; revert m1 m2; induction H; intros m1 m2 Hm; simpl; [constructor|].
  inversion Hm; subst; constructor; [apply Hf; assumption|apply IHForall2; assumption].
Qed.
Lemma leq_nth l1 l2 k : leq l1 l2 -> nth k l1 0 == nth k l2 0.
Proof. intros H; revert k; induction H; intros [|k]; simpl; try reflexivity; [assumption|apply IHForall2]. Qed.
Lemma leq_of_nth l1 l2 : length l1 = length l2 ->
  (forall k, (k < length l1)%nat -> nth k l1 0 == nth k l2 0) -> leq l1 l2.
Proof.
  revert l2; induction l1 as [|a l1 IH]; intros [|b l2] Hl Hn; simpl in *; try discriminate; constructor.
  - apply (Hn 0%nat); lia.
  - apply IH; [lia|]. intros k Hk. apply (Hn (S k)); lia.
Qed.
Lemma leq_select m l1 l2 : leq l1 l2 -> leq (select m l1) (select m l2).
Proof.
  intros H; revert m; induction H; intros [|[|] m]; simpl; try constructor; try assumption; apply IHForall2.
Qed.

Lemma zeros_app a b : zeros (a + b) = zeros a ++ zeros b.
Proof. unfold zeros. apply repeat_app. Qed.
Lemma length_zeros n : length (zeros n) = n.
Proof. apply repeat_length. Qed.
Lemma length_zipw f l1 l2 : length (zipw f l1 l2) = Nat.min (length l1) (length l2).
Proof. revert l2; induction l1; intros [|b l2]; simpl; auto. Qed.
Lemma nth_zipw f l1 l2 k : (k < length l1)%nat -> (k < length l2)%nat ->
  nth k (zipw f l1 l2) 0 = f (nth k l1 0) (nth k l2 0).
Proof.
  revert l2 k; induction l1; intros [|b l2] [|k]; simpl; intros; try lia; auto. apply IHl1; lia.
Qed.
Lemma Forall_zeros n : Forall (fun z => z == 0) (zeros n).
Proof. induction n; simpl; constructor; [reflexivity|assumption]. Qed.

(* ---------------------------------------------------------------------------------------------- *)
(* causal scans *)
Lemma length_scan f h x : length (scan f h x) = length x.
Proof. revert h; induction x; simpl; intros; auto. Qed.
Lemma scan_app f h l1 l2 : scan f h (l1 ++ l2) = scan f h l1 ++ scan f (rev l1 ++ h) l2.
Proof.
  revert h; induction l1; simpl; intros; [reflexivity|].
  rewrite IHl1. rewrite <- app_assoc. reflexivity.
Qed.
Lemma nth_scan f h x k : (k < length x)%nat ->
  nth k (scan f h x) 0 = f (rev (firstn (S k) x) ++ h).
Proof.
  revert h k; induction x as [|a x IH]; intros h k Hk; simpl in Hk; [lia|].
  destruct k as [|k].
  - simpl. reflexivity.
  - cbn [scan nth]. rewrite IH by lia. f_equal.
    change (firstn (S (S k)) (a :: x)) with (a :: firstn (S k) x).
    cbn [rev]. rewrite <- app_assoc. reflexivity.
Qed.
Lemma leq_scan f g h1 h2 x1 x2 :
  (forall a b, leq a b -> f a == g b) -> leq h1 h2 -> leq x1 x2 -> leq (scan f h1 x1) (scan g h2 x2).
Proof.
  intros Hf Hh Hx; revert h1 h2 Hh; induction Hx; intros h1 h2 Hh; simpl; constructor.
  - apply Hf. constructor; assumption.
  - apply IHHx. constructor; assumption.
Qed.
(* outputs only depend on f at histories no longer than the data seen *)
Lemma scan_ext_len f g h x :
  (forall a, (length a <= length h + length x)%nat -> f a == g a) -> leq (scan f h x) (scan g h x).
Proof.
  revert h; induction x as [|a x IH]; intros h Hf; simpl; constructor.
  - apply Hf. simpl. lia.
  - apply IH. intros b Hb. apply Hf. simpl in *. lia.
Qed.
Lemma scan_hist_pad f h0 Z x :
  (forall h, f (h ++ Z) == f h) -> leq (scan f (h0 ++ Z) x) (scan f h0 x).
Proof.
  intros Hf; revert h0; induction x as [|a x IH]; intros h0; simpl; constructor.
  - apply (Hf (a :: h0)).
  - apply (IH (a :: h0)).
Qed.

(* ---------------------------------------------------------------------------------------------- *)
(* the filter: Horner forms *)
Fixpoint qpow (r : Q) (n : nat) : Q := match n with O => 1 | S n' => r * qpow r n' end.
Fixpoint hsumn (r : Q) (n : nat) (H : list Q) : Q :=
  match n, H with
  | S n', a :: H' => a + r * hsumn r n' H'
  | _, _ => 0
  end.
Definition hsum (r : Q) (H : list Q) : Q := hsumn r (length H) H.

Lemma qpow_Qpower r n : Qpower r (Z.of_nat n) == qpow r n.
Proof.
  induction n.
  - reflexivity.
  - rewrite Nat2Z.inj_succ. unfold Z.succ. rewrite Z.add_comm.
    rewrite Qpower_plus' by lia. rewrite IHn. simpl. reflexivity.
Qed.
Lemma qpow_nonneg r n : 0 <= r -> 0 <= qpow r n.
Proof. intros Hr; induction n; simpl; [lra|]. apply Qmult_le_0_compat; assumption. Qed.

Global Instance hsumn_Proper : Proper (Qeq ==> eq ==> leq ==> Qeq) hsumn.
Proof.
  intros r1 r2 Hr n1 n2 <- H1 H2 HH. revert H1 H2 HH.
  induction n1; intros H1 H2 HH; simpl; [reflexivity|].
  inversion HH; subst; [reflexivity|]. rewrite (IHn1 _ _ H0), Hr, H. reflexivity.
Qed.

Lemma dotp_powers c r n H : dotp (powers_from c r n) H == c * hsumn r n H.
Proof.
  revert c H; induction n; intros c H; cbn [powers_from dotp hsumn]; [ring|].
  destruct H as [|a H]; [ring|].
  rewrite Qred_correct, IHn, Qred_correct. ring.
Qed.
Lemma hsumn_ge r n H : (length H <= n)%nat -> hsumn r n H = hsum r H.
Proof.
  unfold hsum. revert n; induction H as [|a H IH]; intros n Hn.
  - destruct n; reflexivity.
  - destruct n; simpl in Hn; [lia|]. simpl. rewrite IH by lia. reflexivity.
Qed.
Lemma hsum_cons r a H : hsum r (a :: H) = a + r * hsum r H.
Proof. reflexivity. Qed.
Lemma hsum_split r n H : hsum r H == hsumn r n H + qpow r n * hsum r (skipn n H).
Proof.
  revert H; induction n; intros H.
  - simpl. destruct H; ring.
  - destruct H as [|a H]; [simpl; unfold hsum; simpl; ring|].
    rewrite hsum_cons. cbn [hsumn skipn qpow]. rewrite (IHn H). ring.
Qed.
Lemma hsumn_zeros r n Z : Forall (fun z => z == 0) Z -> hsumn r n Z == 0.
Proof.
  intros HZ; revert n; induction HZ; intros [|n]; cbn [hsumn]; try reflexivity.
  rewrite H, IHHZ. ring.
Qed.
Lemma hsumn_app_zeros r n H Z : Forall (fun z => z == 0) Z -> hsumn r n (H ++ Z) == hsumn r n H.
Proof.
  intros HZ. revert H; induction n; intros H; [reflexivity|].
  destruct H as [|a H].
  - cbn [app]. rewrite hsumn_zeros by assumption. reflexivity.
  - cbn [app hsumn]. rewrite IHn. reflexivity.
Qed.
Lemma hsumn_scale r n c H : hsumn r n (map (Qmult c) H) == c * hsumn r n H.
Proof.
  revert H; induction n; intros H; cbn [hsumn map]; [ring|]. destruct H; cbn [hsumn map]; [ring|]. rewrite IHn. ring.
Qed.

(* bound: a convex combination never exceeds the input bound *)
Lemma hsum_bound alpha M H : 0 <= alpha -> alpha <= 1 -> 0 <= M ->
  Forall (fun v => Qabs v <= M) H -> Qabs (alpha * hsum (1 - alpha) H) <= M.
Proof.
  intros Ha0 Ha1 HM HH. induction HH as [|a H Ha HH IH].
  - assert (E : alpha * hsum (1 - alpha) [] == 0) by (unfold hsum; cbn [length hsumn]; ring).
    rewrite E. exact HM.
  - rewrite hsum_cons.
    setoid_replace (alpha * (a + (1 - alpha) * hsum (1 - alpha) H))
      with (alpha * a + (1 - alpha) * (alpha * hsum (1 - alpha) H)) by ring.
    eapply Qle_trans; [apply Qabs_triangle|].
    rewrite (Qabs_Qmult alpha a), (Qabs_Qmult (1 - alpha) (alpha * hsum (1 - alpha) H)).
    rewrite (Qabs_pos alpha) by assumption. rewrite (Qabs_pos (1 - alpha)) by lra.
    apply Qle_trans with (alpha * M + (1 - alpha) * M); [|ring_simplify; lra].
    apply Qplus_le_compat; apply Qmult_le_l'; try assumption; lra.
Qed.

(* ---------------------------------------------------------------------------------------------- *)
(* safe_tau_lowpass: truncated FIR vs the recursive filter *)
Definition firF (alpha : Q) (n : nat) : list Q -> Q := fun h => Qred (alpha * dotp (filt alpha n) h).
Lemma firF_spec alpha n h : firF alpha n h == alpha * hsumn (1 - alpha) n h.
Proof. unfold firF, filt. rewrite Qred_correct, dotp_powers. ring. Qed.
Lemma fir_as_scan alpha n x : lowpass_fir alpha n x = scan (firF alpha n) [] x.
Proof. reflexivity. Qed.

Lemma iir_scan alpha x : forall hist y, y == alpha * hsum (1 - alpha) hist ->
  leq (iir_go alpha y x) (scan (fun h => alpha * hsum (1 - alpha) h) hist x).
Proof.
  induction x as [|a x IH]; intros hist y Hy; cbn [iir_go scan]; constructor.
  - rewrite Qred_correct, Hy, hsum_cons. ring.
  - apply IH. rewrite Qred_correct, Hy, hsum_cons. ring.
Qed.
Lemma iir_as_scan alpha x : leq (lowpass_iir alpha x) (scan (fun h => alpha * hsum (1 - alpha) h) [] x).
Proof. apply iir_scan. unfold hsum; cbn [length hsumn]. ring. Qed.
Lemma length_iir_go alpha y x : length (iir_go alpha y x) = length x.
Proof. revert y; induction x; intros; simpl; auto. Qed.

Lemma fir_full_is_iir alpha n x : (length x <= n)%nat -> leq (lowpass_fir alpha n x) (lowpass_iir alpha x).
Proof.
  intros Hn. etransitivity; [|symmetry; apply iir_as_scan].
  rewrite fir_as_scan. apply scan_ext_len. intros a Ha. cbn [length] in Ha.
  rewrite firF_spec. rewrite hsumn_ge by lia. reflexivity.
Qed.

Lemma nth_fir alpha n x k : (k < length x)%nat ->
  nth k (lowpass_fir alpha n x) 0 == alpha * hsumn (1 - alpha) n (rev (firstn (S k) x)).
Proof. intros Hk. rewrite fir_as_scan, nth_scan by assumption. rewrite app_nil_r. apply firF_spec. Qed.
Lemma nth_iir alpha x k : (k < length x)%nat ->
  nth k (lowpass_iir alpha x) 0 == alpha * hsum (1 - alpha) (rev (firstn (S k) x)).
Proof.
  intros Hk. rewrite (leq_nth _ _ k (iir_as_scan alpha x)). rewrite nth_scan by assumption.
  rewrite app_nil_r. reflexivity.
Qed.

Lemma In_skipn {A} n (l : list A) v : In v (skipn n l) -> In v l.
Proof. intros H. rewrite <- (firstn_skipn n l). apply in_or_app. right. assumption. Qed.
Lemma In_firstn {A} n (l : list A) v : In v (firstn n l) -> In v l.
Proof. intros H. rewrite <- (firstn_skipn n l). apply in_or_app. left. assumption. Qed.

Lemma fir_truncation_bound_pow alpha n x M k :
  0 <= alpha -> alpha <= 1 -> Forall (fun v => Qabs v <= M) x -> (k < length x)%nat ->
  Qabs (nth k (lowpass_fir alpha n x) 0 - nth k (lowpass_iir alpha x) 0) <= M * qpow (1 - alpha) n.
Proof.
  intros Ha0 Ha1 HM Hk.
  assert (HM0 : 0 <= M).
  { destruct x as [|v x]; [simpl in Hk; lia|]. inversion HM; subst.
    eapply Qle_trans; [apply Qabs_nonneg|eassumption]. }
  rewrite nth_fir, nth_iir by assumption. set (H := rev (firstn (S k) x)).
  rewrite (hsum_split (1 - alpha) n H).
  setoid_replace (alpha * hsumn (1 - alpha) n H
                  - alpha * (hsumn (1 - alpha) n H + qpow (1 - alpha) n * hsum (1 - alpha) (skipn n H)))
    with (- (qpow (1 - alpha) n * (alpha * hsum (1 - alpha) (skipn n H)))) by ring.
  rewrite Qabs_opp, Qabs_Qmult. rewrite (Qabs_pos (qpow (1 - alpha) n)) by (apply qpow_nonneg; lra).
  rewrite Qmult_comm. apply Qmult_le_compat_r; [|apply qpow_nonneg; lra].
  apply hsum_bound; try assumption.
  apply Forall_forall. intros v Hv. rewrite Forall_forall in HM. apply HM.
  apply In_skipn in Hv. unfold H in Hv. apply in_rev in Hv. eapply In_firstn; eassumption.
Qed.
Lemma fir_truncation_bound alpha n x M k :
  0 <= alpha -> alpha <= 1 -> Forall (fun v => Qabs v <= M) x -> (k < length x)%nat ->
  Qabs (nth k (lowpass_fir alpha n x) 0 - nth k (lowpass_iir alpha x) 0) <= M * (1 - alpha) ^ (Z.of_nat n).
Proof. intros. rewrite qpow_Qpower. apply fir_truncation_bound_pow; assumption. Qed.

(* the difference-of-two-recursive-filters form used by the runner for larger cases *)
Lemma nth_firstn_lt {A} (l : list A) m k d : (k < m)%nat -> nth k (firstn m l) d = nth k l d.
Proof.
  revert m k; induction l as [|a l IH]; intros [|m] [|k] Hk; simpl; try lia; auto. apply IH; lia.
Qed.
Lemma nth_shiftr n y k : (k < length y)%nat ->
  nth k (shiftr n y) 0 = if (k <? n)%nat then 0 else nth (k - n) y 0.
Proof.
  intros Hk. unfold shiftr. rewrite nth_firstn_lt by assumption.
  destruct (k <? n)%nat eqn:E.
  - apply Nat.ltb_lt in E. rewrite app_nth1 by (rewrite length_zeros; assumption). apply nth_repeat.
  - apply Nat.ltb_ge in E. rewrite app_nth2 by (rewrite length_zeros; assumption).
    rewrite length_zeros. reflexivity.
Qed.
Lemma length_shiftr n y : length (shiftr n y) = length y.
Proof. unfold shiftr. rewrite firstn_length, app_length, length_zeros. lia. Qed.
Lemma length_fir alpha n x : length (lowpass_fir alpha n x) = length x.
Proof. apply length_scan. Qed.
Lemma length_iir alpha x : length (lowpass_iir alpha x) = length x.
Proof. apply length_iir_go. Qed.
Lemma length_fast alpha n x : length (lowpass_fast alpha n x) = length x.
Proof. unfold lowpass_fast. rewrite length_zipw, length_shiftr, length_iir. lia. Qed.

Lemma fir_fast_eq alpha n x : leq (lowpass_fast alpha n x) (lowpass_fir alpha n x).
Proof.
  apply leq_of_nth; [rewrite length_fast, length_fir; reflexivity|].
  rewrite length_fast. intros k Hk. unfold lowpass_fast.
  rewrite nth_zipw by (rewrite ?length_shiftr, length_iir; assumption).
  rewrite nth_shiftr by (rewrite length_iir; assumption).
  rewrite Qred_correct, Qred_correct, qpow_Qpower, nth_fir, nth_iir by assumption.
  set (H := rev (firstn (S k) x)).
  assert (LH : length H = S k) by (unfold H; rewrite rev_length, firstn_length; lia).
  destruct (k <? n)%nat eqn:E.
  - apply Nat.ltb_lt in E. rewrite hsumn_ge by lia. ring.
  - apply Nat.ltb_ge in E. rewrite nth_iir by lia.
    rewrite (hsum_split (1 - alpha) n H).
    assert (ES : skipn n H = rev (firstn (S (k - n)) x)).
    { unfold H. rewrite skipn_rev, firstn_firstn, firstn_length. f_equal. f_equal. lia. }
    rewrite ES. ring.
Qed.
