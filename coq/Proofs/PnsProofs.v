(* Proofs/PnsProofs.v — lemmas about Model/Pns.v (C20). *)
From Coq Require Import ZArith QArith Qround Qabs List Bool Arith Lia Lqa.
From PV Require Import Base.QUtil Gen.GenPns Model.Pns.
Import ListNotations.
Open Scope Q_scope.

Lemma pct_cancel : pct * unpct == 1.
Proof. reflexivity. Qed.
