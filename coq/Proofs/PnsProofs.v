(* Proofs/PnsProofs.v — lemmas about Model/Pns.v (C20).  All statements are for arbitrary sample
   lists (any length), weights, time constants; proofs by induction over the lists. *)
From Coq Require Import ZArith QArith Qround Qabs Qpower List Bool Arith Lia Lqa Setoid Morphisms.
From PV Require Import Base.QUtil Gen.GenPns Model.Pns.
Import ListNotations.
Open Scope Q_scope.

Lemma Qmult_le_l' x y z : 0 <= z -> x <= y -> z * x <= z * y.
Proof. intros. rewrite (Qmult_comm z x), (Qmult_comm z y). apply Qmult_le_compat_r; assumption. Qed.

(* ---------------------------------------------------------------------------------------------- *)
(* lists of rationals up to Qeq *)
Definition leq (l1 l2 : list Q) : Prop := Forall2 Qeq l1 l2.

Lemma leq_refl l : leq l l.
Proof. induction l; constructor; [reflexivity|assumption]. Qed.
Lemma leq_sym l1 l2 : leq l1 l2 -> leq l2 l1.
Proof. induction 1; constructor; [symmetry; assumption|assumption]. Qed.
Lemma leq_trans l1 l2 l3 : leq l1 l2 -> leq l2 l3 -> leq l1 l3.
Proof.
  intros H; revert l3; induction H; intros l3 H3; inversion H3; subst; constructor.
  - etransitivity; eassumption.
  - apply IHForall2; assumption.
Qed.
Global Instance leq_Equiv : Equivalence leq.
Proof. split; [exact leq_refl|exact leq_sym|exact leq_trans]. Qed.

Lemma leq_length l1 l2 : leq l1 l2 -> length l1 = length l2.
Proof. induction 1; simpl; congruence. Qed.
Lemma leq_app l1 l2 m1 m2 : leq l1 l2 -> leq m1 m2 -> leq (l1 ++ m1) (l2 ++ m2).
Proof. induction 1; simpl; intros Hm; [assumption|constructor; [assumption|apply IHForall2; assumption]]. Qed.
Lemma leq_map (f g : Q -> Q) l1 l2 :
  (forall a b, a == b -> f a == g b) -> leq l1 l2 -> leq (map f l1) (map g l2).
Proof. intros Hf; induction 1; simpl; constructor; [apply Hf; assumption|assumption]. Qed.
Lemma leq_map_ext (f g : Q -> Q) l : (forall a, f a == g a) -> leq (map f l) (map g l).
Proof. intros Hf; induction l; simpl; constructor; [apply Hf|assumption]. Qed.
Lemma leq_zipw (f g : Q -> Q -> Q) l1 l2 m1 m2 :
  (forall a b c d, a == b -> c == d -> f a c == g b d) ->
  leq l1 l2 -> leq m1 m2 -> leq (zipw f l1 m1) (zipw g l2 m2).
Proof.
  intros Hf H; revert m1 m2; induction H; intros m1 m2 Hm; simpl; [constructor|].
  inversion Hm; subst; constructor; [apply Hf; assumption|apply IHForall2; assumption].
Qed.
Lemma leq_nth l1 l2 k : leq l1 l2 -> nth k l1 0 == nth k l2 0.
Proof. intros H; revert k; induction H; intros [|k]; simpl; try reflexivity; [assumption|apply IHForall2]. Qed.
Lemma leq_of_nth l1 l2 : length l1 = length l2 ->
  (forall k, (k < length l1)%nat -> nth k l1 0 == nth k l2 0) -> leq l1 l2.
Proof.
  revert l2; induction l1 as [|a l1 IH]; intros [|b l2] Hl Hn; simpl in *; try discriminate; constructor.
  - apply (Hn 0%nat); lia.
  - apply IH; [lia|]. intros k Hk. apply (Hn (S k)); lia.
Qed.
Lemma leq_select m l1 l2 : leq l1 l2 -> leq (select m l1) (select m l2).
Proof.
  intros H; revert m; induction H; intros [|[|] m]; simpl; try constructor; try assumption; apply IHForall2.
Qed.

Lemma zeros_app a b : zeros (a + b) = zeros a ++ zeros b.
Proof. unfold zeros. apply repeat_app. Qed.
Lemma length_zeros n : length (zeros n) = n.
Proof. apply repeat_length. Qed.
Lemma length_zipw f l1 l2 : length (zipw f l1 l2) = Nat.min (length l1) (length l2).
Proof. revert l2; induction l1; intros [|b l2]; simpl; auto. Qed.
Lemma nth_zipw f l1 l2 k : (k < length l1)%nat -> (k < length l2)%nat ->
  nth k (zipw f l1 l2) 0 = f (nth k l1 0) (nth k l2 0).
Proof.
  revert l2 k; induction l1; intros [|b l2] [|k]; simpl; intros; try lia; auto. apply IHl1; lia.
Qed.
Lemma Forall_zeros n : Forall (fun z => z == 0) (zeros n).
Proof. induction n; simpl; constructor; [reflexivity|assumption]. Qed.

(* ---------------------------------------------------------------------------------------------- *)
(* causal scans *)
Lemma length_scan f h x : length (scan f h x) = length x.
Proof. revert h; induction x; simpl; intros; auto. Qed.
Lemma scan_app f h l1 l2 : scan f h (l1 ++ l2) = scan f h l1 ++ scan f (rev l1 ++ h) l2.
Proof.
  revert h; induction l1; simpl; intros; [reflexivity|].
  rewrite IHl1. rewrite <- app_assoc. reflexivity.
Qed.
Lemma nth_scan f h x k : (k < length x)%nat ->
  nth k (scan f h x) 0 = f (rev (firstn (S k) x) ++ h).
Proof.
  revert h k; induction x as [|a x IH]; intros h k Hk; simpl in Hk; [lia|].
  destruct k as [|k].
  - simpl. reflexivity.
  - cbn [scan nth]. rewrite IH by lia. f_equal.
    change (firstn (S (S k)) (a :: x)) with (a :: firstn (S k) x).
    cbn [rev]. rewrite <- app_assoc. reflexivity.
Qed.
Lemma leq_scan f g h1 h2 x1 x2 :
  (forall a b, leq a b -> f a == g b) -> leq h1 h2 -> leq x1 x2 -> leq (scan f h1 x1) (scan g h2 x2).
Proof.
  intros Hf Hh Hx; revert h1 h2 Hh; induction Hx; intros h1 h2 Hh; simpl; constructor.
  - apply Hf. constructor; assumption.
  - apply IHHx. constructor; assumption.
Qed.
(* outputs only depend on f at histories no longer than the data seen *)
Lemma scan_ext_len f g h x :
  (forall a, (length a <= length h + length x)%nat -> f a == g a) -> leq (scan f h x) (scan g h x).
Proof.
  revert h; induction x as [|a x IH]; intros h Hf; simpl; constructor.
  - apply Hf. simpl. lia.
  - apply IH. intros b Hb. apply Hf. simpl in *. lia.
Qed.
Lemma scan_hist_pad f h0 Z x :
  (forall h, f (h ++ Z) == f h) -> leq (scan f (h0 ++ Z) x) (scan f h0 x).
Proof.
  intros Hf; revert h0; induction x as [|a x IH]; intros h0; simpl; constructor.
  - apply (Hf (a :: h0)).
  - apply (IH (a :: h0)).
Qed.

(* ---------------------------------------------------------------------------------------------- *)
(* the filter: Horner forms *)
Fixpoint qpow (r : Q) (n : nat) : Q := match n with O => 1 | S n' => r * qpow r n' end.
Fixpoint hsumn (r : Q) (n : nat) (H : list Q) : Q :=
  match n, H with
  | S n', a :: H' => a + r * hsumn r n' H'
  | _, _ => 0
  end.
Definition hsum (r : Q) (H : list Q) : Q := hsumn r (length H) H.

Lemma qpow_Qpower r n : Qpower r (Z.of_nat n) == qpow r n.
Proof.
  induction n.
  - reflexivity.
  - rewrite Nat2Z.inj_succ. unfold Z.succ. rewrite Z.add_comm.
    rewrite Qpower_plus' by lia. rewrite IHn. simpl. reflexivity.
Qed.
Lemma qpow_nonneg r n : 0 <= r -> 0 <= qpow r n.
Proof. intros Hr; induction n; simpl; [lra|]. apply Qmult_le_0_compat; assumption. Qed.

Global Instance hsumn_Proper : Proper (Qeq ==> eq ==> leq ==> Qeq) hsumn.
Proof.
  intros r1 r2 Hr n1 n2 <- H1 H2 HH. revert H1 H2 HH.
  induction n1; intros H1 H2 HH; simpl; [reflexivity|].
  inversion HH; subst; [reflexivity|]. rewrite (IHn1 _ _ H0), Hr, H. reflexivity.
Qed.

Lemma dotp_powers c r n H : dotp (powers_from c r n) H == c * hsumn r n H.
Proof.
  revert c H; induction n; intros c H; cbn [powers_from dotp hsumn]; [ring|].
  destruct H as [|a H]; [ring|].
  rewrite Qred_correct, IHn, Qred_correct. ring.
Qed.
Lemma hsumn_ge r n H : (length H <= n)%nat -> hsumn r n H = hsum r H.
Proof.
  unfold hsum. revert n; induction H as [|a H IH]; intros n Hn.
  - destruct n; reflexivity.
  - destruct n; simpl in Hn; [lia|]. simpl. rewrite IH by lia. reflexivity.
Qed.
Lemma hsum_cons r a H : hsum r (a :: H) = a + r * hsum r H.
Proof. reflexivity. Qed.
Lemma hsum_split r n H : hsum r H == hsumn r n H + qpow r n * hsum r (skipn n H).
Proof.
  revert H; induction n; intros H.
  - simpl. destruct H; ring.
  - destruct H as [|a H]; [simpl; unfold hsum; simpl; ring|].
    rewrite hsum_cons. cbn [hsumn skipn qpow]. rewrite (IHn H). ring.
Qed.
Lemma hsumn_zeros r n Z : Forall (fun z => z == 0) Z -> hsumn r n Z == 0.
Proof.
  intros HZ; revert n; induction HZ; intros [|n]; cbn [hsumn]; try reflexivity.
  rewrite H, IHHZ. ring.
Qed.
Lemma hsumn_app_zeros r n H Z : Forall (fun z => z == 0) Z -> hsumn r n (H ++ Z) == hsumn r n H.
Proof.
  intros HZ. revert H; induction n; intros H; [reflexivity|].
  destruct H as [|a H].
  - cbn [app]. rewrite hsumn_zeros by assumption. reflexivity.
  - cbn [app hsumn]. rewrite IHn. reflexivity.
Qed.
Lemma hsumn_scale r n c H : hsumn r n (map (Qmult c) H) == c * hsumn r n H.
Proof.
  revert H; induction n; intros H; cbn [hsumn map]; [ring|]. destruct H; cbn [hsumn map]; [ring|]. rewrite IHn. ring.
Qed.

(* bound: a convex combination never exceeds the input bound *)
Lemma hsum_bound alpha M H : 0 <= alpha -> alpha <= 1 -> 0 <= M ->
  Forall (fun v => Qabs v <= M) H -> Qabs (alpha * hsum (1 - alpha) H) <= M.
Proof.
  intros Ha0 Ha1 HM HH. induction HH as [|a H Ha HH IH].
  - assert (E : alpha * hsum (1 - alpha) [] == 0) by (unfold hsum; cbn [length hsumn]; ring).
    rewrite E. exact HM.
  - rewrite hsum_cons.
    setoid_replace (alpha * (a + (1 - alpha) * hsum (1 - alpha) H))
      with (alpha * a + (1 - alpha) * (alpha * hsum (1 - alpha) H)) by ring.
    eapply Qle_trans; [apply Qabs_triangle|].
    rewrite (Qabs_Qmult alpha a), (Qabs_Qmult (1 - alpha) (alpha * hsum (1 - alpha) H)).
    rewrite (Qabs_pos alpha) by assumption. rewrite (Qabs_pos (1 - alpha)) by lra.
    apply Qle_trans with (alpha * M + (1 - alpha) * M); [|ring_simplify; lra].
    apply Qplus_le_compat; apply Qmult_le_l'; try assumption; lra.
Qed.

(* ---------------------------------------------------------------------------------------------- *)
(* safe_tau_lowpass: truncated FIR vs the recursive filter *)
Definition firF (alpha : Q) (n : nat) : list Q -> Q := fun h => Qred (alpha * dotp (filt alpha n) h).
Lemma firF_spec alpha n h : firF alpha n h == alpha * hsumn (1 - alpha) n h.
Proof. unfold firF, filt. rewrite Qred_correct, dotp_powers. ring. Qed.
Lemma fir_as_scan alpha n x : lowpass_fir alpha n x = scan (firF alpha n) [] x.
Proof. reflexivity. Qed.

Lemma iir_scan alpha x : forall hist y, y == alpha * hsum (1 - alpha) hist ->
  leq (iir_go alpha y x) (scan (fun h => alpha * hsum (1 - alpha) h) hist x).
Proof.
  induction x as [|a x IH]; intros hist y Hy; cbn [iir_go scan]; constructor.
  - rewrite Qred_correct, Hy, hsum_cons. ring.
  - apply IH. rewrite Qred_correct, Hy, hsum_cons. ring.
Qed.
Lemma iir_as_scan alpha x : leq (lowpass_iir alpha x) (scan (fun h => alpha * hsum (1 - alpha) h) [] x).
Proof. apply iir_scan. unfold hsum; cbn [length hsumn]. ring. Qed.
Lemma length_iir_go alpha y x : length (iir_go alpha y x) = length x.
Proof. revert y; induction x; intros; simpl; auto. Qed.

Lemma fir_full_is_iir alpha n x : (length x <= n)%nat -> leq (lowpass_fir alpha n x) (lowpass_iir alpha x).
Proof.
  intros Hn. etransitivity; [|symmetry; apply iir_as_scan].
  rewrite fir_as_scan. apply scan_ext_len. intros a Ha. cbn [length] in Ha.
  rewrite firF_spec. rewrite hsumn_ge by lia. reflexivity.
Qed.

Lemma nth_fir alpha n x k : (k < length x)%nat ->
  nth k (lowpass_fir alpha n x) 0 == alpha * hsumn (1 - alpha) n (rev (firstn (S k) x)).
Proof. intros Hk. rewrite fir_as_scan, nth_scan by assumption. rewrite app_nil_r. apply firF_spec. Qed.
Lemma nth_iir alpha x k : (k < length x)%nat ->
  nth k (lowpass_iir alpha x) 0 == alpha * hsum (1 - alpha) (rev (firstn (S k) x)).
Proof.
  intros Hk. rewrite (leq_nth _ _ k (iir_as_scan alpha x)). rewrite nth_scan by assumption.
  rewrite app_nil_r. reflexivity.
Qed.

Lemma In_skipn {A} n (l : list A) v : In v (skipn n l) -> In v l.
Proof. intros H. rewrite <- (firstn_skipn n l). apply in_or_app. right. assumption. Qed.
Lemma In_firstn {A} n (l : list A) v : In v (firstn n l) -> In v l.
Proof. intros H. rewrite <- (firstn_skipn n l). apply in_or_app. left. assumption. Qed.

Lemma fir_truncation_bound_pow alpha n x M k :
  0 <= alpha -> alpha <= 1 -> Forall (fun v => Qabs v <= M) x -> (k < length x)%nat ->
  Qabs (nth k (lowpass_fir alpha n x) 0 - nth k (lowpass_iir alpha x) 0) <= M * qpow (1 - alpha) n.
Proof.
  intros Ha0 Ha1 HM Hk.
  assert (HM0 : 0 <= M).
  { destruct x as [|v x]; [simpl in Hk; lia|]. inversion HM; subst.
    eapply Qle_trans; [apply Qabs_nonneg|eassumption]. }
  rewrite nth_fir, nth_iir by assumption. set (H := rev (firstn (S k) x)).
  rewrite (hsum_split (1 - alpha) n H).
  setoid_replace (alpha * hsumn (1 - alpha) n H
                  - alpha * (hsumn (1 - alpha) n H + qpow (1 - alpha) n * hsum (1 - alpha) (skipn n H)))
    with (- (qpow (1 - alpha) n * (alpha * hsum (1 - alpha) (skipn n H)))) by ring.
  rewrite Qabs_opp, Qabs_Qmult. rewrite (Qabs_pos (qpow (1 - alpha) n)) by (apply qpow_nonneg; lra).
  rewrite Qmult_comm. apply Qmult_le_compat_r; [|apply qpow_nonneg; lra].
  apply hsum_bound; try assumption.
  apply Forall_forall. intros v Hv. rewrite Forall_forall in HM. apply HM.
  apply In_skipn in Hv. unfold H in Hv. apply in_rev in Hv. eapply In_firstn; eassumption.
Qed.
Lemma fir_truncation_bound alpha n x M k :
  0 <= alpha -> alpha <= 1 -> Forall (fun v => Qabs v <= M) x -> (k < length x)%nat ->
  Qabs (nth k (lowpass_fir alpha n x) 0 - nth k (lowpass_iir alpha x) 0) <= M * (1 - alpha) ^ (Z.of_nat n).
Proof. intros. rewrite qpow_Qpower. apply fir_truncation_bound_pow; assumption. Qed.

(* the difference-of-two-recursive-filters form used by the runner for larger cases *)
Lemma nth_firstn_lt {A} (l : list A) m k d : (k < m)%nat -> nth k (firstn m l) d = nth k l d.
Proof.
  revert m k; induction l as [|a l IH]; intros [|m] [|k] Hk; simpl; try lia; auto. apply IH; lia.
Qed.
Lemma nth_shiftr n y k : (k < length y)%nat ->
  nth k (shiftr n y) 0 = if (k <? n)%nat then 0 else nth (k - n) y 0.
Proof.
  intros Hk. unfold shiftr. rewrite nth_firstn_lt by assumption.
  destruct (k <? n)%nat eqn:E.
  - apply Nat.ltb_lt in E. rewrite app_nth1 by (rewrite length_zeros; assumption). apply nth_repeat.
  - apply Nat.ltb_ge in E. rewrite app_nth2 by (rewrite length_zeros; assumption).
    rewrite length_zeros. reflexivity.
Qed.
Lemma length_shiftr n y : length (shiftr n y) = length y.
Proof. unfold shiftr. rewrite firstn_length, app_length, length_zeros. lia. Qed.
Lemma length_fir alpha n x : length (lowpass_fir alpha n x) = length x.
Proof. apply length_scan. Qed.
Lemma length_iir alpha x : length (lowpass_iir alpha x) = length x.
Proof. apply length_iir_go. Qed.
Lemma length_fast alpha n x : length (lowpass_fast alpha n x) = length x.
Proof. unfold lowpass_fast. rewrite length_zipw, length_shiftr, length_iir. lia. Qed.

Lemma fir_fast_eq alpha n x : leq (lowpass_fast alpha n x) (lowpass_fir alpha n x).
Proof.
  apply leq_of_nth; [rewrite length_fast, length_fir; reflexivity|].
  rewrite length_fast. intros k Hk. unfold lowpass_fast.
  rewrite nth_zipw by (rewrite ?length_shiftr, length_iir; assumption).
  rewrite nth_shiftr by (rewrite length_iir; assumption).
  rewrite Qred_correct, Qred_correct, qpow_Qpower, nth_fir, nth_iir by assumption.
  set (H := rev (firstn (S k) x)).
  assert (LH : length H = S k) by (unfold H; rewrite rev_length, firstn_length; lia).
  destruct (k <? n)%nat eqn:E.
  - apply Nat.ltb_lt in E. rewrite hsumn_ge by lia. ring.
  - apply Nat.ltb_ge in E. rewrite nth_iir by lia.
    rewrite (hsum_split (1 - alpha) n H).
    assert (ES : skipn n H = rev (firstn (S (k - n)) x)).
    { unfold H. rewrite skipn_rev, firstn_firstn, firstn_length. f_equal. f_equal. lia. }
    rewrite ES. ring.
Qed.

(* ---------------------------------------------------------------------------------------------- *)
(* selection (un-padding) commutes with the pointwise stages *)
Lemma zipw_nil_r f l : zipw f l [] = [].
Proof. destruct l; reflexivity. Qed.
Lemma select_nil m : select m [] = [].
Proof. destruct m as [|[|] m]; reflexivity. Qed.
Lemma select_map m f l : select m (map f l) = map f (select m l).
Proof.
  revert l; induction m as [|b m IH]; intros [|a l]; simpl; try reflexivity.
  destruct b; simpl; rewrite IH; reflexivity.
Qed.
Lemma select_zipw m f l1 l2 : select m (zipw f l1 l2) = zipw f (select m l1) (select m l2).
Proof.
  revert l1 l2; induction m as [|b m IH]; intros [|a l1] [|c l2]; simpl; try reflexivity.
  - destruct b; rewrite ?zipw_nil_r; reflexivity.
  - destruct b; simpl; rewrite IH; reflexivity.
Qed.
Lemma select_false p C : select (repeat false p) C = [].
Proof. revert C; induction p; intros [|c C]; simpl; auto. Qed.
Lemma select_mid p nt p2 A B C : length A = p -> length B = nt ->
  select (repeat false p ++ repeat true nt ++ repeat false p2) (A ++ B ++ C) = B.
Proof.
  revert A; induction p; intros [|a A] HA HB; simpl in HA; try lia.
  - simpl. clear HA. revert B HB; induction nt; intros [|b B] HB; simpl in HB; try lia.
    + simpl. apply select_false.
    + simpl. f_equal. apply IHnt. lia.
  - simpl. apply IHp; [lia|assumption].
Qed.
Lemma rf_mask_S p nt p2 : rf_mask (S p) nt p2 = repeat false p ++ repeat true nt ++ repeat false p2.
Proof. reflexivity. Qed.

(* ---------------------------------------------------------------------------------------------- *)
(* Proper-ness of the stages w.r.t. leq *)
Lemma firF_leq alpha n a b : leq a b -> firF alpha n a == firF alpha n b.
Proof. intros H. rewrite !firF_spec. rewrite H. reflexivity. Qed.
Lemma fir_leq alpha n x1 x2 : leq x1 x2 -> leq (lowpass_fir alpha n x1) (lowpass_fir alpha n x2).
Proof. intros H. rewrite !fir_as_scan. apply leq_scan; [apply firF_leq|reflexivity|assumption]. Qed.
Lemma abs_leq x1 x2 : leq x1 x2 -> leq (map Qabs x1) (map Qabs x2).
Proof. apply leq_map. intros a b E. rewrite E. reflexivity. Qed.
Lemma diffq_leq l1 l2 : leq l1 l2 -> leq (diffq l1) (diffq l2).
Proof.
  induction 1 as [|a b l1 l2 Hab Hl IH]; [constructor|].
  destruct Hl as [|c d l1' l2' Hcd Hl']; [constructor|].
  cbn [diffq] in *. constructor; [rewrite Hab, Hcd; reflexivity|exact IH].
Qed.
Lemma length_diffq a l : length (diffq (a :: l)) = length l.
Proof. revert a; induction l as [|b l IH]; intros a; [reflexivity|].
  change (diffq (a :: b :: l)) with ((b - a) :: diffq (b :: l)). cbn [length]. rewrite IH. reflexivity. Qed.

Lemma map_zeros f n : (f 0 == 0) -> leq (map f (zeros n)) (zeros n).
Proof. intros Hf; induction n; [constructor|]. cbn [zeros repeat map]. constructor; [exact Hf|exact IHn]. Qed.
Lemma map_abs_zeros n : map Qabs (zeros n) = zeros n.
Proof. induction n; [reflexivity|]. cbn [zeros repeat map]. change (Qabs 0) with 0. f_equal. exact IHn. Qed.

(* the padded slew rate is  0^p ++ slew(0 :: g) ++ tail *)
Lemma diffq_app_prefix a l Z : exists T, diffq (a :: l ++ Z) = diffq (a :: l) ++ T.
Proof.
  revert a; induction l as [|b l IH]; intros a.
  - exists (diffq (a :: Z)). reflexivity.
  - destruct (IH b) as [T HT]. exists T. cbn [app diffq] in *. rewrite HT. reflexivity.
Qed.
Lemma diffq_pad p l Z : exists T, leq (diffq (zeros (S p) ++ l ++ Z)) (zeros p ++ diffq (0 :: l) ++ T).
Proof.
  destruct (diffq_app_prefix 0 l Z) as [T HT]. exists T.
  induction p.
  - cbn [zeros repeat app]. rewrite HT. reflexivity.
  - change (zeros (S (S p)) ++ l ++ Z) with (0 :: (zeros (S p) ++ l ++ Z)).
    change (zeros (S p) ++ l ++ Z) with (0 :: (zeros p ++ l ++ Z)) in *.
    cbn [diffq]. change (zeros (S p) ++ diffq (0 :: l) ++ T) with (0 :: (zeros p ++ diffq (0 :: l) ++ T)).
    constructor; [ring|exact IHp].
Qed.
Lemma dgdt_pad dt p p2 l : exists T,
  leq (dgdt dt (pad (S p) p2 l)) (zeros p ++ dgdt dt (0 :: l) ++ T).
Proof.
  destruct (diffq_pad p l (zeros p2)) as [T HT]. exists (map (fun d => d / dt) T).
  unfold dgdt, pad. etransitivity; [apply leq_map with (g := fun d => d / dt); [|exact HT]|].
  - intros a b E. rewrite E. reflexivity.
  - rewrite !map_app. apply leq_app; [|reflexivity].
    apply map_zeros. unfold Qdiv. ring.
Qed.

(* core: the causal FIR does not see leading zeros nor anything that follows *)
Lemma fir_pad_invisible alpha n p p2 d T :
  leq (select (repeat false p ++ repeat true (length d) ++ repeat false p2)
              (lowpass_fir alpha n (zeros p ++ d ++ T)))
      (lowpass_fir alpha n d).
Proof.
  rewrite !fir_as_scan. rewrite scan_app, scan_app.
  rewrite select_mid.
  - change (rev (zeros p) ++ []) with ([] ++ (rev (zeros p) ++ [])).
    apply scan_hist_pad. intros h. rewrite !firF_spec. rewrite hsumn_app_zeros; [reflexivity|].
    rewrite app_nil_r. apply Forall_rev. apply Forall_zeros.
  - rewrite length_scan. apply length_zeros.
  - rewrite length_scan. reflexivity.
Qed.

(* ---------------------------------------------------------------------------------------------- *)
(* un-padding of the whole per-axis chain *)
Definition midmask (p nt p2 : nat) : list bool := repeat false p ++ repeat true nt ++ repeat false p2.

Lemma Qmult_leq c l1 l2 : leq l1 l2 -> leq (map (Qmult c) l1) (map (Qmult c) l2).
Proof. apply leq_map. intros a b E. rewrite E. reflexivity. Qed.

Lemma branch_unpad h dtms b n p p2 d T X :
  leq X (zeros p ++ d ++ T) ->
  leq (select (midmask p (length d) p2) (branch_out lowpass_fir h dtms b n X))
      (branch_out lowpass_fir h dtms b n d).
Proof.
  intros HX. unfold branch_out. rewrite select_map. apply Qmult_leq.
  set (alpha := alpha_of dtms (hw_tau h (b_tau b))).
  assert (core : forall X' d' T', length d' = length d -> leq X' (zeros p ++ d' ++ T') ->
            leq (select (midmask p (length d) p2) (lowpass_fir alpha n X')) (lowpass_fir alpha n d')).
  { intros X' d' T' Hl HX'. rewrite <- Hl.
    etransitivity; [apply leq_select, fir_leq, HX'|]. apply fir_pad_invisible. }
  assert (inner : leq (select (midmask p (length d) p2)
                        (lowpass_fir alpha n (if b_abs_in b then map Qabs X else X)))
                      (lowpass_fir alpha n (if b_abs_in b then map Qabs d else d))).
  { destruct (b_abs_in b).
    - apply core with (T' := map Qabs T); [apply map_length|].
      etransitivity; [apply abs_leq, HX|]. rewrite !map_app, map_abs_zeros. reflexivity.
    - apply core with (T' := T); [reflexivity|exact HX]. }
  destruct (b_abs_out b).
  - rewrite select_map. apply abs_leq. exact inner.
  - exact inner.
Qed.

Lemma stim_sum_unpad h dtms bs : forall taps p p2 d T X,
  leq X (zeros p ++ d ++ T) ->
  leq (select (midmask p (length d) p2) (stim_sum lowpass_fir h dtms bs taps X))
      (stim_sum lowpass_fir h dtms bs taps d).
Proof.
  induction bs as [|b bs IH]; intros taps p p2 d T X HX; cbn [stim_sum].
  - apply leq_length in HX. rewrite HX, !app_length, length_zeros, !zeros_app.
    unfold midmask. rewrite select_mid by apply length_zeros. reflexivity.
  - unfold ladd. rewrite select_zipw. apply leq_zipw.
    + intros a b0 c d0 E1 E2. rewrite E1, E2. reflexivity.
    + eapply branch_unpad; eassumption.
    + eapply IH; eassumption.
Qed.

Lemma length_dgdt0 dt gamma g : length (dgdt dt (0 :: to_tesla gamma g)) = length g.
Proof. unfold dgdt, to_tesla. rewrite map_length, length_diffq, map_length. reflexivity. Qed.

Lemma unpad_indices h gamma dt p p2 taps g :
  leq (pns_axis lowpass_fir h gamma dt (S p) p2 taps g) (pns_direct lowpass_fir h gamma dt taps g).
Proof.
  unfold pns_axis, pns_direct, pns_model. rewrite rf_mask_S.
  destruct (dgdt_pad dt p p2 (to_tesla gamma g)) as [T HT].
  apply Qmult_leq. rewrite select_map.
  apply leq_map; [intros a b E; rewrite E; reflexivity|].
  rewrite <- (length_dgdt0 dt gamma g). apply (stim_sum_unpad h _ branches taps p p2 _ T). exact HT.
Qed.

(* what the slew-rate samples are: (g_k - g_{k-1}) / gamma / dt with g_{-1} = 0 *)
Lemma nth_map0 (f : Q -> Q) l k : (k < length l)%nat -> nth k (map f l) 0 = f (nth k l 0).
Proof. revert k; induction l; intros [|k] Hk; simpl in *; try lia; auto. apply IHl; lia. Qed.
Lemma nth_diffq a l k : (k < length l)%nat -> nth k (diffq (a :: l)) 0 = nth k l 0 - nth k (a :: l) 0.
Proof.
  revert a k; induction l as [|b l IH]; intros a k Hk; simpl in Hk; [lia|].
  change (diffq (a :: b :: l)) with ((b - a) :: diffq (b :: l)).
  destruct k as [|k]; [reflexivity|]. cbn [nth]. rewrite IH by lia. reflexivity.
Qed.
Lemma slew_samples dt gamma g k : (k < length g)%nat ->
  nth k (dgdt dt (0 :: to_tesla gamma g)) 0
  == (nth k g 0 - match k with O => 0 | S j => nth j g 0 end) / gamma / dt.
Proof.
  intros Hk. unfold dgdt. rewrite nth_map0 by (rewrite length_diffq; unfold to_tesla; rewrite map_length; exact Hk).
  rewrite nth_diffq by (unfold to_tesla; rewrite map_length; exact Hk).
  unfold to_tesla. rewrite nth_map0 by exact Hk.
  destruct k as [|k]; cbn [nth].
  - unfold Qdiv. ring.
  - rewrite nth_map0 by lia. unfold Qdiv. ring.
Qed.

(* ---------------------------------------------------------------------------------------------- *)
(* positive homogeneity of degree 1 *)
Lemma scan_scale f k : (forall h, f (map (Qmult k) h) == k * f h) -> forall x h0,
  leq (scan f (map (Qmult k) h0) (map (Qmult k) x)) (map (Qmult k) (scan f h0 x)).
Proof.
  intros Hf x; induction x as [|a x IH]; intros h0; cbn [scan map]; constructor.
  - apply (Hf (a :: h0)).
  - apply (IH (a :: h0)).
Qed.
Lemma fir_scale alpha n k x :
  leq (lowpass_fir alpha n (map (Qmult k) x)) (map (Qmult k) (lowpass_fir alpha n x)).
Proof.
  rewrite !fir_as_scan. apply (scan_scale (firF alpha n) k) with (h0 := []).
  intros h. rewrite !firF_spec, hsumn_scale. ring.
Qed.
Lemma diffq_scale c l : leq (diffq (map (Qmult c) l)) (map (Qmult c) (diffq l)).
Proof.
  induction l as [|a l IH]; [constructor|]. destruct l as [|b l]; [constructor|].
  change (diffq (map (Qmult c) (a :: b :: l))) with ((c * b - c * a) :: diffq (map (Qmult c) (b :: l))).
  change (diffq (a :: b :: l)) with ((b - a) :: diffq (b :: l)). cbn [map].
  constructor; [ring|exact IH].
Qed.
Lemma map_map_comm (f g f' g' : Q -> Q) l :
  (forall a, f (g a) == g' (f' a)) -> leq (map f (map g l)) (map g' (map f' l)).
Proof. intros H. rewrite !map_map. apply leq_map_ext. exact H. Qed.
Lemma scale_zeros c n : leq (zeros n) (map (Qmult c) (zeros n)).
Proof. symmetry. apply map_zeros. ring. Qed.

Lemma slew_scale dt gamma p1 p2 c g :
  leq (dgdt dt (pad p1 p2 (to_tesla gamma (map (Qmult c) g))))
      (map (Qmult c) (dgdt dt (pad p1 p2 (to_tesla gamma g)))).
Proof.
  unfold dgdt.
  assert (P : leq (pad p1 p2 (to_tesla gamma (map (Qmult c) g)))
                  (map (Qmult c) (pad p1 p2 (to_tesla gamma g)))).
  { unfold pad, to_tesla. rewrite !map_app. apply leq_app; [apply scale_zeros|].
    apply leq_app; [|apply scale_zeros].
    apply map_map_comm. intros a. unfold Qdiv. ring. }
  etransitivity; [apply leq_map with (g := fun d => d / dt); [intros a b E; rewrite E; reflexivity|]|].
  - etransitivity; [apply diffq_leq, P|apply diffq_scale].
  - apply map_map_comm. intros a. unfold Qdiv. ring.
Qed.

Definition has_abs (b : branch) : Prop := b_abs_in b || b_abs_out b = true.

Lemma abs_scale c l : leq (map Qabs (map (Qmult c) l)) (map (Qmult (Qabs c)) (map Qabs l)).
Proof. apply map_map_comm. intros a. apply Qabs_Qmult. Qed.

Lemma branch_scale h dtms b n c X X' : has_abs b -> leq X' (map (Qmult c) X) ->
  leq (branch_out lowpass_fir h dtms b n X') (map (Qmult (Qabs c)) (branch_out lowpass_fir h dtms b n X)).
Proof.
  intros Hb HX. unfold branch_out, has_abs in *.
  set (alpha := alpha_of dtms (hw_tau h (b_tau b))). set (w := hw_a h (b_weight b)).
  assert (KK : Qabs (Qabs c) == Qabs c) by (apply Qabs_pos, Qabs_nonneg).
  etransitivity; [|apply map_map_comm with (f := Qmult w) (g := Qmult (Qabs c)); intros a; ring].
  apply Qmult_leq.
  destruct (b_abs_in b); cbn [orb] in Hb.
  - assert (I : leq (lowpass_fir alpha n (map Qabs X')) (map (Qmult (Qabs c)) (lowpass_fir alpha n (map Qabs X)))).
    { etransitivity; [apply fir_leq|apply fir_scale].
      etransitivity; [apply abs_leq, HX|apply abs_scale]. }
    destruct (b_abs_out b).
    + etransitivity; [apply abs_leq, I|]. etransitivity; [apply abs_scale|].
      apply leq_map_ext. intros a. rewrite KK. reflexivity.
    + exact I.
  - rewrite Hb.
    etransitivity; [apply abs_leq; etransitivity; [apply fir_leq, HX|apply fir_scale]|]. apply abs_scale.
Qed.

Lemma map_ladd k l1 l2 : leq (ladd (map (Qmult k) l1) (map (Qmult k) l2)) (map (Qmult k) (ladd l1 l2)).
Proof.
  unfold ladd. revert l2; induction l1 as [|a l1 IH]; intros [|b l2]; cbn [map zipw]; constructor; [ring|apply IH].
Qed.

Lemma stim_sum_scale h dtms c bs : Forall has_abs bs -> forall taps X X', leq X' (map (Qmult c) X) ->
  leq (stim_sum lowpass_fir h dtms bs taps X') (map (Qmult (Qabs c)) (stim_sum lowpass_fir h dtms bs taps X)).
Proof.
  induction 1 as [|b bs Hb Hbs IH]; intros taps X X' HX; cbn [stim_sum].
  - apply leq_length in HX. rewrite HX, map_length. apply scale_zeros.
  - etransitivity; [|apply map_ladd]. unfold ladd. apply leq_zipw.
    + intros a b0 c0 d E1 E2. rewrite E1, E2. reflexivity.
    + apply branch_scale; assumption.
    + apply IH; assumption.
Qed.

Lemma branches_have_abs : Forall has_abs branches.
Proof. unfold branches, has_abs. repeat constructor. Qed.

Lemma pns_homogeneous h gamma dt p1 p2 taps c g :
  leq (pns_axis lowpass_fir h gamma dt p1 p2 taps (map (Qmult c) g))
      (map (Qmult (Qabs c)) (pns_axis lowpass_fir h gamma dt p1 p2 taps g)).
Proof.
  unfold pns_axis, pns_model. rewrite map_length. rewrite !select_map.
  set (m := rf_mask p1 (length g) p2).
  pose proof (stim_sum_scale h (dt * ms_factor) c branches branches_have_abs taps _ _
                (slew_scale dt gamma p1 p2 c g)) as S.
  apply (leq_select m) in S. rewrite select_map in S.
  etransitivity; [apply Qmult_leq; apply leq_map with (g := fun s => Qred (s / stim_limit h * g_scale h * pct));
                  [intros a b E; rewrite E; reflexivity|exact S]|].
  rewrite !map_map. apply leq_map_ext. intros a. rewrite !Qred_correct. unfold Qdiv. ring.
Qed.

(* ---------------------------------------------------------------------------------------------- *)
(* number of output samples *)
Lemma length_branch_out h dtms b n x : length (branch_out lowpass_fir h dtms b n x) = length x.
Proof.
  unfold branch_out. rewrite map_length.
  destruct (b_abs_out b), (b_abs_in b); rewrite ?map_length, length_fir, ?map_length; reflexivity.
Qed.
Lemma length_stim_sum h dtms bs : forall taps x, length (stim_sum lowpass_fir h dtms bs taps x) = length x.
Proof.
  induction bs as [|b bs IH]; intros taps x; cbn [stim_sum]; [apply length_zeros|].
  unfold ladd. rewrite length_zipw, length_branch_out, IH. apply Nat.min_id.
Qed.
Lemma pns_count h gamma dt p p2 taps g :
  length (pns_axis lowpass_fir h gamma dt (S p) p2 taps g) = length g.
Proof.
  rewrite (leq_length _ _ (unpad_indices h gamma dt p p2 taps g)).
  unfold pns_direct, pns_model. rewrite !map_length, length_stim_sum. apply length_dgdt0.
Qed.

Lemma slack_nonneg : 0 <= maxt_slack - 2 * teps.
Proof. unfold Qle; simpl; lia. Qed.

Lemma num_samples_raster N dt : (0 < N)%Z -> maxt_slack - 2 * teps < dt ->
  num_samples (inject_Z N * dt + 2 * teps) dt = Z.to_nat N.
Proof.
  intros HN Hdt. pose proof slack_nonneg as He.
  assert (Hd : 0 < dt) by lra.
  unfold num_samples. f_equal. unfold Qceiling.
  set (q := (maxt_slack - 2 * teps) / dt).
  assert (Hq0 : 0 <= q) by (unfold q; apply Qle_shift_div_l; [assumption|lra]).
  assert (Hq1 : q < 1) by (unfold q; apply Qlt_shift_div_r; [assumption|lra]).
  assert (E : - ((inject_Z N * dt + 2 * teps - maxt_slack) / dt) == inject_Z (- N) + q).
  { unfold q. rewrite inject_Z_opp. field. lra. }
  rewrite (Qfloor_comp _ _ E).
  rewrite (Qfloor_unique (inject_Z (- N) + q) (- N)%Z) by lra. lia.
Qed.

Lemma pp_end_spec p pts : pp_end (p :: pts) = fst (last (p :: pts) (0, 0)) + 2 * teps.
Proof.
  unfold pp_end, with_flanks. destruct p as [t0 v0].
  set (L := (t0, v0) :: pts). set (tl := fst (last L (0, 0))).
  change ((t0 - 2 * teps, 0) :: (t0 - teps, 0) :: L ++ [(tl + teps, 0); (tl + 2 * teps, 0)])
    with (((t0 - 2 * teps, 0) :: (t0 - teps, 0) :: L) ++ [(tl + teps, 0); (tl + 2 * teps, 0)]).
  change [(tl + teps, 0); (tl + 2 * teps, 0)] with ([(tl + teps, 0)] ++ [(tl + 2 * teps, 0)]).
  rewrite app_assoc, last_last. reflexivity.
Qed.

Lemma length_sample f dt nt : length (sample f dt nt) = nt.
Proof. unfold sample, centres. rewrite !map_length, seq_length. reflexivity. Qed.
Lemma sample_nth f dt nt k : (k < nt)%nat ->
  nth k (sample f dt nt) 0 = f ((inject_Z (Z.of_nat k) + centre_offset) * dt).
Proof.
  intros Hk. unfold sample, centres. rewrite map_map.
  rewrite (nth_indep _ 0 ((fun i => f (centre dt i)) 0%nat)) by (rewrite map_length, seq_length; lia).
  rewrite (map_nth (fun i => f (centre dt i))). rewrite seq_nth by lia. reflexivity.
Qed.
Lemma centre_offset_half : centre_offset == 1 # 2.
Proof. reflexivity. Qed.

(* ---------------------------------------------------------------------------------------------- *)
(* norm and ok *)
Lemma ok_iff nsq : ok_of nsq = true <-> Forall (fun s => s < 1) nsq.
Proof.
  unfold ok_of. rewrite forallb_forall, Forall_forall.
  assert (L : ok_limit * ok_limit == 1) by reflexivity.
  split; intros H s Hs; specialize (H s Hs); unfold below, ok_strict in *.
  - apply Qltb_lt in H. rewrite L in H. exact H.
  - apply Qltb_lt. rewrite L. exact H.
Qed.
Lemma norm_lt_1_iff n s : 0 <= n -> n * n == s -> (n < 1 <-> s < 1).
Proof.
  intros Hn E. rewrite <- E. split; intro H.
  - apply Qle_lt_trans with (n * 1); [apply Qmult_le_l'; lra|lra].
  - destruct (Qlt_le_dec n 1) as [|Hge]; [assumption|]. exfalso.
    assert (1 * 1 <= n * n).
    { apply Qle_trans with (n * 1); [lra|apply Qmult_le_l'; lra]. }
    lra.
Qed.
Lemma normsq3_nth x : forall y z k, length y = length x -> length z = length x -> (k < length x)%nat ->
  nth k (normsq3 x y z) 0 == nth k x 0 * nth k x 0 + nth k y 0 * nth k y 0 + nth k z 0 * nth k z 0.
Proof.
  induction x as [|a x IH]; intros [|b y] [|c z] k Hy Hz Hk; simpl in Hy, Hz, Hk; try lia.
  destruct k as [|k]; cbn [normsq3 nth].
  - apply Qred_correct.
  - apply IH; lia.
Qed.
Lemma length_normsq3 x : forall y z, length y = length x -> length z = length x -> length (normsq3 x y z) = length x.
Proof.
  induction x as [|a x IH]; intros [|b y] [|c z] Hy Hz; simpl in *; try lia. rewrite IH; lia.
Qed.

(* structure of the result: every component is the per-axis chain of its own channel only *)
Lemma calc_pns_structure lp gamma dt hx hy hz wx wy wz tx ty tz o :
  calc_pns lp gamma dt hx hy hz wx wy wz tx ty tz = OK o ->
  exists nt,
    o_x o = pns_axis lp hx gamma dt (pad1_of hx hy hz dt) (pad2_of hx hy hz dt) tx (opt_sample wx dt nt) /\
    o_y o = pns_axis lp hy gamma dt (pad1_of hx hy hz dt) (pad2_of hx hy hz dt) ty (opt_sample wy dt nt) /\
    o_z o = pns_axis lp hz gamma dt (pad1_of hx hy hz dt) (pad2_of hx hy hz dt) tz (opt_sample wz dt nt) /\
    o_normsq o = normsq3 (o_x o) (o_y o) (o_z o) /\
    o_ok o = ok_of (o_normsq o).
Proof.
  unfold calc_pns. destruct (opt_end wx ++ opt_end wy ++ opt_end wz) as [|e es]; [discriminate|].
  destruct (weights_bad hx || weights_bad hy || weights_bad hz); [discriminate|].
  destruct (existsb (Nat.eqb 0) (firstn 3 tx ++ firstn 3 ty ++ firstn 3 tz)); [discriminate|].
  intros E. inversion E; subst; clear E. cbn [o_x o_y o_z o_normsq o_ok].
  eexists. repeat split; reflexivity.
Qed.

(* the runner's fast filter form gives the same per-axis result as the convolution form *)
Lemma pns_axis_fast_eq h gamma dt p1 p2 taps g :
  leq (pns_axis lowpass_fast h gamma dt p1 p2 taps g) (pns_axis lowpass_fir h gamma dt p1 p2 taps g).
Proof.
  unfold pns_axis, pns_model. apply Qmult_leq. apply leq_select.
  apply leq_map; [intros a b E; rewrite E; reflexivity|].
  generalize (dgdt dt (pad p1 p2 (to_tesla gamma g))) as X. intros X.
  generalize taps. induction branches as [|b bs IH]; intros tp; cbn [stim_sum]; [reflexivity|].
  unfold ladd. apply leq_zipw; [intros a b0 c d E1 E2; rewrite E1, E2; reflexivity| |apply IH].
  unfold branch_out. apply Qmult_leq.
  destruct (b_abs_out b); [apply abs_leq|]; apply fir_fast_eq.
Qed.

Lemma pct_cancel : pct * unpct == 1.
Proof. reflexivity. Qed.
