(* Proofs/AddGradRaster.v — raster path of add_gradients: the k-th sample that points_to_waveform /
   the zero padding produce for an input is the value of that input's rendering at the k-th raster
   centre; hence every sample of the result is the sum of the input renderings at that centre. *)
From Coq Require Import ZArith QArith Qabs List Bool Lia Lqa Setoid Morphisms Arith.
From PV Require Import Base.QUtil Base.PWL Gen.GenAddGrad Model.AddGrad Proofs.AddGradProofs.
Import ListNotations.
Open Scope Q_scope.

Definition OnRaster (r t : Q) : Prop := exists k : Z, t == inject_Z k * r.

(* offset of the k-th raster centre *)
Definition ctr (r : Q) (k : nat) : Q := (inject_Z (Z.of_nat k) + (1 # 2)) * r.

Lemma rnd_on_raster r t k : 0 < r -> t == inject_Z k * r -> rnd_he (t / r) = k.
Proof.
  intros Hr H. assert (E : t / r == inject_Z k) by (rewrite H; field; lra).
  rewrite E. apply rnd_he_inject.
Qed.

Lemma inject_Z_le_0 k r : 0 < r -> 0 <= inject_Z k * r -> (0 <= k)%Z.
Proof.
  intros Hr H. destruct (Z_lt_le_dec k 0) as [Hk|Hk]; [|exact Hk]. exfalso.
  assert (Hq : inject_Z k < 0) by (change 0 with (inject_Z 0); rewrite <- Zlt_Qlt; exact Hk).
  assert (P : 0 < (- inject_Z k) * r) by (apply Qmult_lt_0_compat; lra). lra.
Qed.

(* ---------- min / max of sorted lists, of arbitrary lists ---------- *)
Lemma Qmin_l a b : a <= b -> Qmin a b = a.
Proof. intro H. unfold Qmin. apply Qle_bool_iff in H. rewrite H. reflexivity. Qed.
Lemma Qmax_r a b : a <= b -> Qmax a b = b.
Proof. intro H. unfold Qmax. apply Qle_bool_iff in H. rewrite H. reflexivity. Qed.

Lemma fold_min_sorted l : forall a, sorted_strict (a :: l) -> fold_left Qmin l a = a.
Proof.
  induction l as [|b l IH]; intros a H; [reflexivity|].
  cbn [fold_left]. destruct H as [Hab Hs]. rewrite Qmin_l by lra.
  apply IH. destruct l as [|c l]; [exact I|]. destruct Hs as [Hbc Hs]. split; [lra|exact Hs].
Qed.

Lemma fold_max_sorted l : forall a, sorted_strict (a :: l) -> fold_left Qmax l a = last (a :: l) 0.
Proof.
  induction l as [|b l IH]; intros a H; [reflexivity|].
  cbn [fold_left]. destruct H as [Hab Hs]. rewrite Qmax_r by lra. rewrite last_cons2.
  apply IH. exact Hs.
Qed.

Lemma minl_sorted l : sorted_strict l -> minl l = hd 0 l.
Proof. destruct l as [|a l]; [reflexivity|]. intro H. cbn [minl hd]. apply fold_min_sorted. exact H. Qed.
Lemma maxl_sorted l : sorted_strict l -> maxl l = last l 0.
Proof. destruct l as [|a l]; [reflexivity|]. intro H. cbn [maxl]. apply fold_max_sorted. exact H. Qed.

Lemma Qmin_case a b : Qmin a b = a \/ Qmin a b = b.
Proof. unfold Qmin. destruct (Qle_bool a b); auto. Qed.
Lemma Qmin_lb_l a b : Qmin a b <= a.
Proof. unfold Qmin. destruct (Qle_bool a b) eqn:E; [lra|]. apply Qleb_gt in E. lra. Qed.
Lemma Qmin_lb_r a b : Qmin a b <= b.
Proof. unfold Qmin. destruct (Qle_bool a b) eqn:E; [apply Qle_bool_iff in E; lra|lra]. Qed.

Lemma fold_min_spec l : forall a,
  (fold_left Qmin l a = a \/ In (fold_left Qmin l a) l) /\
  fold_left Qmin l a <= a /\ forall x, In x l -> fold_left Qmin l a <= x.
Proof.
  induction l as [|b l IH]; intros a; cbn [fold_left].
  - split; [left; reflexivity|]. split; [lra|intros x []].
  - destruct (IH (Qmin a b)) as (H1 & H2 & H3).
    pose proof (Qmin_lb_l a b). pose proof (Qmin_lb_r a b).
    split; [|split].
    + destruct H1 as [H1|H1]; [|right; right; exact H1].
      rewrite H1. destruct (Qmin_case a b) as [E|E]; rewrite E; [left; reflexivity|right; left; reflexivity].
    + lra.
    + intros x [<-|Hx]; [lra|apply H3; exact Hx].
Qed.

Lemma minl_le l x : In x l -> minl l <= x.
Proof.
  destruct l as [|a l]; [intros []|]. cbn [minl]. destruct (fold_min_spec l a) as (_ & H2 & H3).
  intros [<-|Hx]; [exact H2|apply H3; exact Hx].
Qed.
Lemma minl_in l : l <> [] -> In (minl l) l.
Proof.
  destruct l as [|a l]; [congruence|]. intros _. cbn [minl].
  destruct (fold_min_spec l a) as ([H|H] & _); [left; symmetry; exact H|right; exact H].
Qed.

Lemma Qmax_case' a b : Qmax a b = a \/ Qmax a b = b.
Proof. apply Qmax_case. Qed.

Lemma fold_max_spec l : forall a,
  (fold_left Qmax l a = a \/ In (fold_left Qmax l a) l) /\
  a <= fold_left Qmax l a /\ forall x, In x l -> x <= fold_left Qmax l a.
Proof.
  induction l as [|b l IH]; intros a; cbn [fold_left].
  - split; [left; reflexivity|]. split; [lra|intros x []].
  - destruct (IH (Qmax a b)) as (H1 & H2 & H3).
    pose proof (Qmax_ub_l a b). pose proof (Qmax_ub_r a b).
    split; [|split].
    + destruct H1 as [H1|H1]; [|right; right; exact H1].
      rewrite H1. destruct (Qmax_case a b) as [E|E]; rewrite E; [left; reflexivity|right; left; reflexivity].
    + lra.
    + intros x [<-|Hx]; [lra|apply H3; exact Hx].
Qed.

Lemma maxl_ge l x : In x l -> x <= maxl l.
Proof.
  destruct l as [|a l]; [intros []|]. cbn [maxl]. destruct (fold_max_spec l a) as (_ & H2 & H3).
  intros [<-|Hx]; [exact H2|apply H3; exact Hx].
Qed.
Lemma maxl_in l : l <> [] -> In (maxl l) l.
Proof.
  destruct l as [|a l]; [congruence|]. intros _. cbn [maxl].
  destruct (fold_max_spec l a) as ([H|H] & _); [left; symmetry; exact H|right; exact H].
Qed.

(* ---------- indexing ---------- *)
Lemma nth_repeat_app (m : nat) (w : list Q) k :
  nth k (repeat 0 m ++ w) 0 = if (k <? m)%nat then 0 else nth (k - m) w 0.
Proof.
  destruct (k <? m)%nat eqn:E.
  - apply Nat.ltb_lt in E. rewrite app_nth1 by (rewrite repeat_length; exact E).
    apply nth_repeat.
  - apply Nat.ltb_ge in E. rewrite app_nth2 by (rewrite repeat_length; exact E).
    rewrite repeat_length. reflexivity.
Qed.

Lemma nth_map_zrange (f : Z -> Q) n : forall k0 j,
  nth j (map f (zrange k0 n)) 0 = if (j <? n)%nat then f (k0 + Z.of_nat j)%Z else 0.
Proof.
  induction n as [|n IH]; intros k0 j; [destruct j; reflexivity|].
  destruct j as [|j]; cbn [zrange map nth].
  - rewrite Z.add_0_r. reflexivity.
  - rewrite IH. change (S j <? S n)%nat with (j <? n)%nat.
    destruct (j <? n)%nat; [|reflexivity]. f_equal. lia.
Qed.

Lemma sorted_nth (l : list Q) :
  (forall k, (S k < length l)%nat -> nth k l 0 < nth (S k) l 0) -> sorted_strict l.
Proof.
  induction l as [|a l IH]; intro H; [exact I|].
  destruct l as [|b l]; [exact I|]. split.
  - apply (H 0%nat). cbn. lia.
  - apply IH. intros k Hk. apply (H (S k)). cbn in *. lia.
Qed.

(* ---------- points_to_waveform on a sorted list whose ends are on the raster ---------- *)
Lemma p2w_nth r (p : pwl) (k0 N : Z) : 0 < r -> p <> [] -> sorted_strict (times p) ->
  (0 <= N)%Z -> tfirst p == inject_Z k0 * r -> tlast p == inject_Z (k0 + N) * r ->
  forall j : nat, nth j (p2w r p) 0 == eval p (inject_Z (k0 + Z.of_nat j) * r + r / 2).
Proof.
  intros Hr Hne Hs HN Hf Hl j. destruct p as [|a p']; [congruence|].
  set (p := a :: p') in *. unfold p2w. fold p.
  change (match p with [] => [0] | _ :: _ =>
            map (fun k => interp_clamp p (inject_Z k * r + r / 2))
              (zrange (rnd_he (minl (times p) / r)) (Z.to_nat (rnd_he (maxl (times p) / r) - rnd_he (minl (times p) / r))))
          end)
    with (map (fun k => interp_clamp p (inject_Z k * r + r / 2))
              (zrange (rnd_he (minl (times p) / r)) (Z.to_nat (rnd_he (maxl (times p) / r) - rnd_he (minl (times p) / r))))).
  rewrite (minl_sorted _ Hs), (maxl_sorted _ Hs), <- tfirst_times, <- tlast_times.
  rewrite (rnd_on_raster r (tfirst p) k0 Hr Hf), (rnd_on_raster r (tlast p) (k0 + N) Hr Hl).
  replace (k0 + N - k0)%Z with N by lia.
  rewrite nth_map_zrange.
  set (x := inject_Z (k0 + Z.of_nat j) * r + r / 2).
  assert (Hx0 : tfirst p < x).
  { unfold x. rewrite Hf, inject_Z_plus.
    assert (0 <= inject_Z (Z.of_nat j)) by (change 0 with (inject_Z 0); rewrite <- Zle_Qle; lia).
    assert (0 <= inject_Z (Z.of_nat j) * r) by (apply Qmult_le_0_compat; lra).
    assert (0 < r / 2) by (apply Qlt_shift_div_l; lra). lra. }
  destruct (j <? Z.to_nat N)%nat eqn:E.
  - apply Nat.ltb_lt in E.
    assert (Hx1 : x < tlast p).
    { unfold x. rewrite Hl, !inject_Z_plus.
      assert (Hj : inject_Z (Z.of_nat j) + 1 <= inject_Z N).
      { change 1 with (inject_Z 1). rewrite <- inject_Z_plus, <- Zle_Qle. lia. }
      assert ((inject_Z (Z.of_nat j) + 1) * r <= inject_Z N * r) by (apply Qmult_le_compat_r; lra).
      assert (r / 2 < r) by (apply Qlt_shift_div_r; lra). lra. }
    unfold interp_clamp. fold x.
    case_ltb x (tfirst p) A; [lra|]. case_ltb (tlast p) x B; [lra|]. reflexivity.
  - apply Nat.ltb_ge in E. symmetry. apply eval_outside_right; [exact Hs|].
    unfold x. rewrite Hl, !inject_Z_plus.
    assert (Hj : inject_Z N <= inject_Z (Z.of_nat j)) by (rewrite <- Zle_Qle; lia).
    assert (inject_Z N * r <= inject_Z (Z.of_nat j) * r) by (apply Qmult_le_compat_r; lra).
    assert (0 < r / 2) by (apply Qlt_shift_div_l; lra). lra.
Qed.

(* ---------- centre arithmetic ---------- *)
Lemma ctr_alt r k : ctr r k == inject_Z (Z.of_nat k) * r + r / 2.
Proof. unfold ctr. field. Qed.

Lemma ctr_pos r k : 0 < r -> 0 < ctr r k.
Proof.
  intro Hr. unfold ctr. apply Qmult_lt_0_compat; [|exact Hr].
  assert (0 <= inject_Z (Z.of_nat k)) by (change 0 with (inject_Z 0); rewrite <- Zle_Qle; lia). lra.
Qed.

Lemma ctr_lt r j k : 0 < r -> (j < k)%nat -> ctr r j + r / 2 <= inject_Z (Z.of_nat k) * r.
Proof.
  intros Hr H. rewrite ctr_alt.
  assert (Hj : inject_Z (Z.of_nat j) + 1 <= inject_Z (Z.of_nat k)).
  { change 1 with (inject_Z 1). rewrite <- inject_Z_plus, <- Zle_Qle. lia. }
  assert ((inject_Z (Z.of_nat j) + 1) * r <= inject_Z (Z.of_nat k) * r) by (apply Qmult_le_compat_r; lra).
  assert (E : r / 2 + r / 2 == r) by field. lra.
Qed.

Lemma ctr_shift r (m : Z) k : (0 <= m)%Z -> (Z.to_nat m <= k)%nat ->
  ctr r k == inject_Z m * r + ctr r (k - Z.to_nat m).
Proof.
  intros Hm Hk. unfold ctr.
  assert (E : inject_Z (Z.of_nat k) == inject_Z m + inject_Z (Z.of_nat (k - Z.to_nat m))).
  { rewrite <- inject_Z_plus. apply inject_Z_injective. lia. }
  rewrite E. ring.
Qed.

Lemma nonneg_raster_zero r m : 0 < r -> (0 <= m)%Z -> inject_Z m * r <= 0 -> m = 0%Z.
Proof.
  intros Hr Hm H. destruct (Z.eq_dec m 0) as [E|E]; [exact E|]. exfalso.
  assert (H1 : 1 <= inject_Z m) by (change 1 with (inject_Z 1); rewrite <- Zle_Qle; lia).
  assert (1 * r <= inject_Z m * r) by (apply Qmult_le_compat_r; lra). lra.
Qed.

(* ---------- padding ---------- *)
(* the samples of one input: zero padding by m raster cells in front of a list w *)
Lemma raster_samples_pad s cd g (w : list Q) (m : Z) :
  0 < s_raster s -> (0 <= m)%Z -> g_delay g - cd == inject_Z m * s_raster s ->
  forall k, nth k (if Qgtb (g_delay g - cd) 0
                   then repeat 0 (Z.to_nat (rnd_he ((g_delay g - cd) / s_raster s))) ++ w else w) 0
            = if (k <? Z.to_nat m)%nat then 0 else nth (k - Z.to_nat m) w 0.
Proof.
  intros Hr Hm Hd k. unfold Qgtb. case_ltb 0 (g_delay g - cd) E.
  - rewrite (rnd_on_raster _ _ m Hr Hd). apply nth_repeat_app.
  - assert (m = 0%Z) by (apply (nonneg_raster_zero (s_raster s)); [exact Hr|exact Hm|lra]).
    subst m. cbn [Z.to_nat]. rewrite Nat.sub_0_r. reflexivity.
Qed.

(* ---------- trapezoid input ---------- *)
Lemma trap_pwl_ends a rise flat fall d : 0 <= flat ->
  trap_pwl a rise flat fall d <> [] /\ tfirst (trap_pwl a rise flat fall d) = d /\
  tlast (trap_pwl a rise flat fall d) == d + rise + flat + fall.
Proof.
  intro Hf. unfold trap_pwl, Qgtb. case_ltb 0 flat E; cbn; repeat split; try discriminate; lra.
Qed.

Lemma trap_pwl_shift a rise flat fall d c :
  pwl_eq (trap_pwl a rise flat fall d) (shift c (trap_pwl a rise flat fall (d - c))).
Proof.
  unfold trap_pwl. destruct (Qgtb flat 0); cbn; repeat constructor; cbn; try reflexivity; ring.
Qed.

Lemma trap_samples s cd t (m N : Z) : 0 < s_raster s -> WF (GTrap t) -> (0 <= m)%Z ->
  tr_delay t - cd == inject_Z m * s_raster s ->
  tr_rise t + tr_flat t + tr_fall t == inject_Z N * s_raster s ->
  forall k, nth k (raster_samples s cd (GTrap t)) 0 == eval (to_pwl (GTrap t)) (cd + ctr (s_raster s) k).
Proof.
  intros Hr (H1 & H2 & H3) Hm Hd HN k.
  set (r := s_raster s) in *.
  set (p := trap_pwl (tr_amp t) (tr_rise t) (tr_flat t) (tr_fall t) (tr_delay t - cd)).
  destruct (trap_pwl_ends (tr_amp t) (tr_rise t) (tr_flat t) (tr_fall t) (tr_delay t - cd) H2)
    as (Hne & Hf & Hl). fold p in Hne, Hf, Hl.
  assert (Hs : sorted_strict (times p)) by (apply trap_pwl_sorted; assumption).
  assert (HN0 : (0 <= N)%Z) by (apply (inject_Z_le_0 N r Hr); lra).
  assert (Hf' : tfirst p == inject_Z m * r) by (rewrite Hf; exact Hd).
  assert (Hl' : tlast p == inject_Z (m + N) * r) by (rewrite Hl, inject_Z_plus; lra).
  (* rendering of the input, relative to cd *)
  assert (Hev : forall x, eval (to_pwl (GTrap t)) (cd + x) == eval p x).
  { intro x. cbn [to_pwl].
    rewrite (eval_pwl_eq _ _ (cd + x) (trap_pwl_shift (tr_amp t) (tr_rise t) (tr_flat t) (tr_fall t) (tr_delay t) cd)).
    fold p. rewrite eval_shift. apply eval_Proper. ring. }
  rewrite Hev. unfold raster_samples. fold r. fold p.
  rewrite (raster_samples_pad s cd (GTrap t) (p2w r p) m Hr Hm Hd).
  destruct (k <? Z.to_nat m)%nat eqn:E.
  - apply Nat.ltb_lt in E. symmetry. apply eval_outside_left. rewrite Hf'.
    assert (Hk : (k < Z.to_nat m)%nat) by exact E.
    pose proof (ctr_lt r k (Z.to_nat m) Hr Hk) as Hc. rewrite Z2Nat.id in Hc by exact Hm.
    assert (0 < r / 2) by (apply Qlt_shift_div_l; lra). lra.
  - apply Nat.ltb_ge in E.
    rewrite (p2w_nth r p m N Hr Hne Hs HN0 Hf' Hl').
    apply eval_Proper. rewrite (ctr_shift r m k Hm E), ctr_alt, inject_Z_plus. ring.
Qed.

(* ---------- extended-trapezoid input (tt on raster edges) ---------- *)
Lemma tfirst_combine (tt wf : list Q) : length tt = length wf -> tfirst (combine tt wf) = hd 0 tt.
Proof. destruct tt, wf; try discriminate; reflexivity. Qed.

Lemma ext_samples s cd e (m N : Z) : 0 < s_raster s -> WF (GExt e) -> is_arb s (GExt e) = false ->
  (0 <= m)%Z -> eg_delay e - cd == inject_Z m * s_raster s ->
  last (eg_tt e) 0 == inject_Z N * s_raster s ->
  forall k, nth k (raster_samples s cd (GExt e)) 0 == eval (to_pwl (GExt e)) (cd + ctr (s_raster s) k).
Proof.
  intros Hr (H1 & H2 & H3 & H4) Harb Hm Hd HN k.
  set (r := s_raster s) in *.
  set (p := combine (eg_tt e) (eg_wf e)).
  assert (Ht : times p = eg_tt e) by (apply times_combine; exact H4).
  assert (Hne : p <> []).
  { unfold p. destruct (eg_tt e) as [|a l]; [congruence|]. destruct (eg_wf e); [discriminate|discriminate]. }
  assert (Hs : sorted_strict (times p)) by (rewrite Ht; exact H1).
  assert (Hf' : tfirst p == inject_Z 0 * r).
  { unfold p. rewrite tfirst_combine by exact H4. rewrite H3. change (inject_Z 0) with 0. ring. }
  assert (Hl' : tlast p == inject_Z (0 + N) * r) by (rewrite tlast_times, Ht; exact HN).
  assert (HN0 : (0 <= N)%Z).
  { apply (inject_Z_le_0 N r Hr). rewrite <- HN.
    pose proof (sorted_le_last _ H1 (hd 0 (eg_tt e))) as HH.
    assert (In (hd 0 (eg_tt e)) (eg_tt e)) by (destruct (eg_tt e); [congruence|left; reflexivity]).
    specialize (HH H). lra. }
  assert (Hev : forall x, eval (to_pwl (GExt e)) (cd + x) == eval p (x - inject_Z m * r)).
  { intro x. cbn [to_pwl]. case_eqb (hd 0 (eg_tt e)) 0 E0; [|contradiction].
    unfold ext_pwl. fold p. rewrite eval_shift. apply eval_Proper. cbn [g_delay] in Hd. lra. }
  rewrite Hev. unfold raster_samples. fold r. rewrite Harb. fold p.
  rewrite (raster_samples_pad s cd (GExt e) (p2w r p) m Hr Hm Hd).
  destruct (k <? Z.to_nat m)%nat eqn:E.
  - apply Nat.ltb_lt in E. symmetry. apply eval_outside_left. rewrite Hf'.
    pose proof (ctr_lt r k (Z.to_nat m) Hr E) as Hc. rewrite Z2Nat.id in Hc by exact Hm.
    assert (0 < r / 2) by (apply Qlt_shift_div_l; lra). change (inject_Z 0) with 0. lra.
  - apply Nat.ltb_ge in E.
    rewrite (p2w_nth r p 0 N Hr Hne Hs HN0 Hf' Hl').
    apply eval_Proper. rewrite (ctr_shift r m k Hm E), ctr_alt. cbn [Z.add]. ring.
Qed.

(* ---------- raster-sampled (arbitrary) gradient ---------- *)
Definition ArbOk (r : Q) (e : egrad) : Prop :=
  length (eg_tt e) = length (eg_wf e) /\ (1 <= length (eg_wf e))%nat /\
  (forall j, (j < length (eg_wf e))%nat -> nth j (eg_tt e) 0 == ctr r j) /\
  eg_shape_dur e == inject_Z (Z.of_nat (length (eg_wf e))) * r.

Lemma nth_map_plus (tt : list Q) d j : (j < length tt)%nat ->
  nth j (map (fun t => t + d) tt) 0 = nth j tt 0 + d.
Proof.
  intro H. rewrite (nth_indep _ 0 (0 + d)) by (rewrite map_length; exact H).
  apply (map_nth (fun t => t + d)).
Qed.

Lemma tlast_app_single (p : pwl) x : tlast (p ++ [x]) = fst x.
Proof. unfold tlast. rewrite last_last. reflexivity. Qed.

Lemma ctr_step r j : 0 < r -> ctr r j < ctr r (S j).
Proof.
  intro Hr. unfold ctr. rewrite Nat2Z.inj_succ, <- Z.add_1_r, inject_Z_plus.
  change (inject_Z 1) with 1. lra.
Qed.

Definition arb_pwl (e : egrad) : pwl :=
  (eg_delay e, eg_first e) :: ext_pwl e ++ [(eg_delay e + eg_shape_dur e, eg_last e)].

Lemma arb_times e : length (eg_tt e) = length (eg_wf e) ->
  times (arb_pwl e) =
  eg_delay e :: map (fun t => t + eg_delay e) (eg_tt e) ++ [eg_delay e + eg_shape_dur e].
Proof.
  intro H. unfold arb_pwl, ext_pwl, times. cbn [map fst]. rewrite map_app. cbn [map fst].
  f_equal. f_equal. fold (times (shift (eg_delay e) (combine (eg_tt e) (eg_wf e)))).
  rewrite times_shift, times_combine by exact H. reflexivity.
Qed.

Lemma arb_sorted r e : 0 < r -> ArbOk r e -> sorted_strict (times (arb_pwl e)).
Proof.
  intros Hr (Hlen & Hn & Htt & Hsd). rewrite (arb_times e Hlen).
  set (n := length (eg_wf e)) in *. set (d := eg_delay e).
  apply sorted_nth. intros k Hk.
  cbn [length] in Hk. rewrite app_length, map_length, Hlen in Hk. cbn [length] in Hk. fold n in Hk.
  assert (Hm : forall j, (j < n)%nat ->
     nth (S j) (d :: map (fun t => t + d) (eg_tt e) ++ [d + eg_shape_dur e]) 0 == ctr r j + d).
  { intros j Hj. cbn [nth]. rewrite app_nth1 by (rewrite map_length, Hlen; exact Hj).
    rewrite nth_map_plus by (rewrite Hlen; exact Hj). rewrite (Htt j Hj). reflexivity. }
  assert (Hlast : nth (S n) (d :: map (fun t => t + d) (eg_tt e) ++ [d + eg_shape_dur e]) 0
                  == d + inject_Z (Z.of_nat n) * r).
  { cbn [nth]. rewrite app_nth2 by (rewrite map_length, Hlen; fold n; lia).
    rewrite map_length, Hlen. fold n. rewrite Nat.sub_diag. cbn [nth]. rewrite Hsd. reflexivity. }
  destruct k as [|j].
  - rewrite (Hm 0%nat) by (fold n in Hn; lia). cbn [nth]. pose proof (ctr_pos r 0 Hr). lra.
  - assert (Hj : (j < n)%nat) by lia. rewrite (Hm j Hj).
    destruct (Nat.eq_dec (S j) n) as [E|E].
    + rewrite E, Hlast. pose proof (ctr_lt r j n Hr Hj).
      assert (0 < r / 2) by (apply Qlt_shift_div_l; lra). lra.
    + rewrite (Hm (S j)) by lia. pose proof (ctr_step r j Hr). lra.
Qed.

Lemma arb_to_pwl r e : 0 < r -> ArbOk r e -> to_pwl (GExt e) = arb_pwl e.
Proof.
  intros Hr (Hlen & Hn & Htt & Hsd). cbn [to_pwl].
  assert (H0 : hd 0 (eg_tt e) == ctr r 0).
  { rewrite <- (Htt 0%nat) by lia. destruct (eg_tt e); reflexivity. }
  case_eqb (hd 0 (eg_tt e)) 0 E; [|reflexivity].
  pose proof (ctr_pos r 0 Hr). lra.
Qed.

(* the rendering of a raster-sampled gradient at the j-th raster centre is its j-th sample
   (0 beyond the last sample) *)
Lemma arb_eval_centre r e : 0 < r -> ArbOk r e ->
  forall j, eval (to_pwl (GExt e)) (eg_delay e + ctr r j) == nth j (eg_wf e) 0.
Proof.
  intros Hr Hok j. rewrite (arb_to_pwl r e Hr Hok).
  pose proof (arb_sorted r e Hr Hok) as Hs.
  destruct Hok as (Hlen & Hn & Htt & Hsd).
  destruct (lt_dec j (length (eg_wf e))) as [Hj|Hj].
  - assert (Hin : In (nth j (eg_tt e) 0 + eg_delay e, nth j (eg_wf e) 0) (arb_pwl e)).
    { unfold arb_pwl. right. apply in_or_app. left. unfold ext_pwl, shift.
      apply (in_map (fun tv => (fst tv + eg_delay e, snd tv)) _ (nth j (eg_tt e) 0, nth j (eg_wf e) 0)).
      rewrite <- (combine_nth _ _ j 0 0 Hlen). apply nth_In.
      rewrite combine_length, Hlen, Nat.min_id. exact Hj. }
    rewrite <- (eval_at_corner _ Hs _ _ Hin). apply eval_Proper. rewrite (Htt j Hj). ring.
  - rewrite nth_overflow by lia. apply eval_outside_right; [exact Hs|].
    unfold arb_pwl. rewrite app_comm_cons, tlast_app_single. cbn [fst]. rewrite Hsd.
    assert (Hc : ctr r (length (eg_wf e)) <= ctr r j).
    { unfold ctr. apply Qmult_le_compat_r; [|lra].
      assert (inject_Z (Z.of_nat (length (eg_wf e))) <= inject_Z (Z.of_nat j)) by (rewrite <- Zle_Qle; lia).
      lra. }
    rewrite ctr_alt in Hc at 1. assert (0 < r / 2) by (apply Qlt_shift_div_l; lra). lra.
Qed.

Lemma arb_samples s cd e (m : Z) : 0 < s_raster s -> ArbOk (s_raster s) e -> is_arb s (GExt e) = true ->
  (0 <= m)%Z -> eg_delay e - cd == inject_Z m * s_raster s ->
  forall k, nth k (raster_samples s cd (GExt e)) 0 == eval (to_pwl (GExt e)) (cd + ctr (s_raster s) k).
Proof.
  intros Hr Hok Harb Hm Hd k. set (r := s_raster s) in *.
  unfold raster_samples. fold r. rewrite Harb.
  rewrite (raster_samples_pad s cd (GExt e) (eg_wf e) m Hr Hm Hd).
  destruct (k <? Z.to_nat m)%nat eqn:E.
  - apply Nat.ltb_lt in E. symmetry. rewrite (arb_to_pwl r e Hr Hok).
    apply eval_outside_left. unfold arb_pwl. cbn [tfirst].
    pose proof (ctr_lt r k (Z.to_nat m) Hr E) as Hc. rewrite Z2Nat.id in Hc by exact Hm.
    assert (0 < r / 2) by (apply Qlt_shift_div_l; lra). cbn [g_delay] in Hd. lra.
  - apply Nat.ltb_ge in E. rewrite <- (arb_eval_centre r e Hr Hok).
    apply eval_Proper. rewrite (ctr_shift r m k Hm E). cbn [g_delay] in Hd. lra.
Qed.

(* ---------- all inputs ---------- *)
Definition RasterIn (s : sys) (g : grad) : Prop :=
  OnRaster (s_raster s) (g_delay g) /\
  match g with
  | GTrap t => WF g /\ OnRaster (s_raster s) (tr_rise t + tr_flat t + tr_fall t)
  | GExt e => if is_arb s g then ArbOk (s_raster s) e
              else WF g /\ OnRaster (s_raster s) (last (eg_tt e) 0)
  end.

Record RasterInputsOk (s : sys) (grads : list grad) : Prop := {
  rio_raster : 0 < s_raster s;
  rio_nonempty : grads <> [];
  rio_in : forall g, In g grads -> RasterIn s g }.

Lemma delay_offset s grads g : RasterInputsOk s grads -> In g grads ->
  exists m : Z, (0 <= m)%Z /\ g_delay g - minl (map g_delay grads) == inject_Z m * s_raster s.
Proof.
  intros H Hg. pose proof (rio_raster _ _ H) as Hr.
  destruct (rio_in _ _ H g Hg) as [(k & Hk) _].
  assert (Hne : map g_delay grads <> []).
  { pose proof (rio_nonempty _ _ H). destruct grads; [congruence|discriminate]. }
  pose proof (minl_in _ Hne) as Hin. apply in_map_iff in Hin. destruct Hin as (g' & Hg' & Hin').
  destruct (rio_in _ _ H g' Hin') as [(k' & Hk') _].
  pose proof (minl_le (map g_delay grads) (g_delay g) (in_map g_delay _ _ Hg)) as Hle.
  exists (k - k')%Z. split.
  - apply (inject_Z_le_0 _ (s_raster s) Hr). unfold Zminus. rewrite inject_Z_plus, inject_Z_opp.
    rewrite <- Hg' in Hle. lra.
  - unfold Zminus. rewrite inject_Z_plus, inject_Z_opp. rewrite <- Hg'. lra.
Qed.

Lemma input_samples s grads g : RasterInputsOk s grads -> In g grads ->
  forall k, nth k (raster_samples s (minl (map g_delay grads)) g) 0
            == eval (to_pwl g) (minl (map g_delay grads) + ctr (s_raster s) k).
Proof.
  intros H Hg k. pose proof (rio_raster _ _ H) as Hr.
  destruct (delay_offset s grads g H Hg) as (m & Hm & Hd).
  destruct (rio_in _ _ H g Hg) as [_ Hk].
  destruct g as [t|e].
  - destruct Hk as [Hwf (N & HN)]. apply (trap_samples s _ t m N); assumption.
  - destruct (is_arb s (GExt e)) eqn:Ea.
    + apply (arb_samples s _ e m); assumption.
    + destruct Hk as [Hwf (N & HN)]. apply (ext_samples s _ e m N); assumption.
Qed.

Lemma sumQ_sum_eval (grads : list grad) (f : grad -> Q) t :
  (forall g, In g grads -> f g == eval (to_pwl g) t) ->
  sumQ (map f grads) == sum_eval (map to_pwl grads) t.
Proof.
  induction grads as [|g l IH]; intro H; [reflexivity|].
  cbn [map sumQ sum_eval fold_right]. fold (sumQ (map f l)). fold (sum_eval (map to_pwl l) t).
  rewrite (H g (or_introl eq_refl)), IH; [reflexivity|]. intros g' Hg'. apply H. right. exact Hg'.
Qed.

(* Raster path, any number of inputs of any kind: the k-th sample of the result is the sum of the
   input renderings at the k-th raster centre (counted from the smallest delay), for EVERY k *)
Theorem add_raster_path_sum_at_centres s mg ms grads g :
  add_gradients s mg ms grads = OK (P_raster, g) -> RasterInputsOk s grads ->
  let cd := minl (map g_delay grads) in
  exists e, g = GExt e /\ eg_delay e = cd /\
    forall k, nth k (eg_wf e) 0 == sum_eval (map to_pwl grads) (cd + ctr (s_raster s) k).
Proof.
  intros H Hok cd.
  destruct (add_raster_path_sum_at_centres_partial _ _ _ _ _ H) as (e & -> & Hd & Hw & _).
  exists e. split; [reflexivity|]. split; [exact Hd|]. intro k. rewrite (Hw k).
  apply sumQ_sum_eval. intros gi Hgi. apply (input_samples s grads gi Hok Hgi).
Qed.

(* ---------- the result is itself a raster-sampled gradient ---------- *)
Lemma zip_idx_length l : forall k, length (zip_idx k l) = length l.
Proof. induction l as [|x l IH]; intro k; [reflexivity|]. cbn. rewrite IH. reflexivity. Qed.

Lemma zip_idx_nth l : forall k j, (j < length l)%nat ->
  nth j (zip_idx k l) (0%Z, 0) = ((k + Z.of_nat j)%Z, nth j l 0).
Proof.
  induction l as [|x l IH]; intros k j Hj; [cbn in Hj; lia|].
  destruct j as [|j]; cbn [zip_idx nth].
  - rewrite Z.add_0_r. reflexivity.
  - rewrite IH by (cbn in Hj; lia). f_equal. lia.
Qed.

Lemma diffs_nonempty_length (w : list Q) : diffs w <> [] -> (2 <= length w)%nat.
Proof. destruct w as [|a [|b w]]; cbn; try congruence; lia. Qed.

Lemma make_arb_ArbOk s mg ms w d f l g : make_arb s mg ms w d f l = OK g ->
  exists e, g = GExt e /\ eg_delay e = d /\ eg_wf e = w /\ ArbOk (s_raster s) e.
Proof.
  unfold make_arb. destruct (diffs w) eqn:Ed; [discriminate|].
  destruct (Qgtb _ _); [discriminate|]. destruct (Qgtb _ _); [discriminate|].
  intro H. injection H as <-. eexists. split; [reflexivity|]. split; [reflexivity|]. split; [reflexivity|].
  assert (Hlen : (2 <= length w)%nat) by (apply diffs_nonempty_length; rewrite Ed; discriminate).
  unfold ArbOk. cbn [eg_tt eg_wf eg_shape_dur].
  split; [rewrite map_length, zip_idx_length; reflexivity|]. split; [lia|]. split; [|reflexivity].
  intros j Hj.
  rewrite (nth_indep _ 0 ((fun kx : Z * Q => (inject_Z (fst kx) + (1 # 2)) * s_raster s) (0%Z, 0)))
    by (rewrite map_length, zip_idx_length; exact Hj).
  rewrite (map_nth (fun kx : Z * Q => (inject_Z (fst kx) + (1 # 2)) * s_raster s)).
  rewrite zip_idx_nth by exact Hj. cbn [fst]. unfold ctr. rewrite Z.add_0_l. reflexivity.
Qed.

(* Statement with the rendering of the result on the left: at every raster centre (all k >= 0,
   counted from the smallest delay) the returned gradient equals the sum of the inputs *)
Theorem add_raster_path_sum_at_centres_eval s mg ms grads g :
  add_gradients s mg ms grads = OK (P_raster, g) -> RasterInputsOk s grads ->
  let cd := minl (map g_delay grads) in
  g_delay g = cd /\
  forall k : nat, eval (to_pwl g) (cd + ctr (s_raster s) k)
                  == sum_eval (map to_pwl grads) (cd + ctr (s_raster s) k).
Proof.
  intros H Hok cd.
  destruct (add_gradients_raster_inv _ _ _ _ _ H) as (mg' & ms' & Hm).
  destruct (make_arb_ArbOk _ _ _ _ _ _ _ _ Hm) as (e & -> & Hd & Hw & Harb).
  destruct (add_raster_path_sum_at_centres _ _ _ _ _ H Hok) as (e' & He' & _ & Hs).
  injection He' as <-. cbn [g_delay]. split; [exact Hd|]. intro k.
  fold cd in Hd. rewrite <- Hd at 1.
  rewrite (arb_eval_centre (s_raster s) e (rio_raster _ _ Hok) Harb k). apply Hs.
Qed.

(* the raster theorem in terms of the stored samples, together with the first / last sums *)
Theorem add_raster_samples_first_last s mg ms grads g :
  add_gradients s mg ms grads = OK (P_raster, g) -> RasterInputsOk s grads ->
  let cd := minl (map g_delay grads) in
  (exists e, g = GExt e /\ eg_delay e = cd /\
     forall k, nth k (eg_wf e) 0 == sum_eval (map to_pwl grads) (cd + ctr (s_raster s) k)) /\
  (exists e, g = GExt e /\
     eg_first e = sumQ (map g_first (filter (fun g => same_time (g_delay g) cd) grads)) /\
     eg_last e = sumQ (map g_last (filter (fun g => same_time (g_dur g) (maxl (map g_dur grads))) grads))).
Proof.
  intros H Hok cd. split.
  - exact (add_raster_path_sum_at_centres s mg ms grads g H Hok).
  - destruct (add_raster_path_sum_at_centres_partial s mg ms grads g H) as (e & E & _ & _ & F & L).
    exists e. split; [exact E|]. split; [exact F|exact L].
Qed.
