(* Proofs/SeqStoredGrad.v — "get_block returns what was stored", completed: arbitrary / extended-trapezoid
   gradients handed over by value with their shapes.  After a successful set_block / add_block the block decodes, on
   the channel of the event, to a gradient row tagged 'g' with the amplitude, delay, first and last of the call,
   and the shapes decoded through the row's shape ids are exactly the waveform shape and (if any) time shape of the
   call.  Together with SeqStored.v (trapezoids, ADC), SeqStoredRf.v (RF) and ExtStore.v (labels, triggers) every
   event kind of a block is covered. *)
From Coq Require Import List Bool ZArith QArith Qcanon Lia.
From RecordUpdate Require Import RecordSet.
From PV Require Import Base.AList Base.QUtil Model.EventLib Model.Seq Proofs.SeqSpec Proofs.SeqCache Proofs.SeqCont
                       Proofs.SeqStored Proofs.SeqStoredRf Proofs.DedupProofs.
Import ListNotations RecordSetNotations.
Open Scope Z_scope.
Local Arguments set_nth : simpl never.

(* in the gradient library, six-field rows are shape-based gradients *)
Definition grad_typed (l : klib) : Prop :=
  forall id k, lib_get l id = Some k -> length k = 6%nat -> lib_type l id = Some tag_g.

Lemma kfoi_grad_typed (l : klib) k ty :
  lib_inv l -> grad_typed l -> (length k = 6%nat -> ty = tag_g) -> grad_typed (fst (fst (kfoi l k ty))).
Proof.
  intros I T Hty. unfold kfoi, lib_find_or_insert.
  destruct (aget key_eqb (lkeymap l) k) as [id0|]; cbn [fst]; [exact T|].
  intros id k' H L. unfold lib_get, lib_type in *. cbn [ldata ltype] in *.
  rewrite set_type_get.
  destruct (Z.eq_dec id (lnext l)) as [->|N].
  - rewrite agetZ_aset_same in H. inversion H. subst k'. rewrite (Hty L). rewrite Z.eqb_refl. reflexivity.
  - rewrite agetZ_aset_other in H by exact N.
    replace (id =? lnext l) with false by (symmetry; apply Z.eqb_neq; exact N). rewrite andb_false_r.
    exact (T _ _ H L).
Qed.

Lemma kins0_grad_typed (l : klib) k ty :
  lib_inv l -> grad_typed l -> (length k = 6%nat -> ty = tag_g) -> grad_typed (fst (kins l 0 k ty)).
Proof.
  intros I T Hty. unfold kins, lib_insert. cbn [Z.eqb fst].
  intros id k' H L. unfold lib_get, lib_type in *. cbn [ldata ltype] in *.
  rewrite set_type_get.
  destruct (Z.eq_dec id (lnext l)) as [->|N].
  - rewrite agetZ_aset_same in H. inversion H. subst k'. rewrite (Hty L). rewrite Z.eqb_refl. reflexivity.
  - rewrite agetZ_aset_other in H by exact N.
    replace (id =? lnext l) with false by (symmetry; apply Z.eqb_neq; exact N). rewrite andb_false_r.
    exact (T _ _ H L).
Qed.

Definition gs_inv (c : core) : Prop := ga_inv c /\ rs_inv c /\ grad_typed (grad_l c).

Lemma gs_inv_init g s sl e : gs_inv (core_init g s sl e).
Proof. split; [apply ga_inv_init|]. split; [apply rs_inv_init|]. intros id k H. discriminate H. Qed.

(* the gradient library alone *)
Lemma gs_transfer c c' : ga_inv c' -> rs_inv c' -> grad_l c' = grad_l c -> grad_typed (grad_l c) -> gs_inv c'.
Proof. intros A R E T. split; [exact A|]. split; [exact R|]. rewrite E. exact T. Qed.

Lemma register_trap_gt c a r f fl d : core_inv c -> grad_typed (grad_l c) ->
  grad_typed (grad_l (fst (fst (register_trap c a r f fl d)))).
Proof.
  intros I T. unfold register_trap.
  pose proof (kfoi_grad_typed (grad_l c) [a; r; f; fl; d] tag_t (proj1 (proj2 I)) T) as T'.
  destruct (kfoi (grad_l c) [a; r; f; fl; d] tag_t) as [[l id] fd]. cbn [fst] in *. cbn.
  apply T'. cbn. discriminate.
Qed.

(* ---- registration of a gradient handed over with its shapes --------------------------------------------------- *)
Definition grad_row_ok (c : core) (gid : Z) (amp : Qc) (ws : key) (tshape : option key) (delay first last : Qc) : Prop :=
  0 < gid /\
  exists id1 id2,
    lib_get (grad_l c) gid = Some [amp; zq id1; zq id2; delay; first; last] /\
    lib_type (grad_l c) gid = Some tag_g /\
    0 < id1 /\ lib_get (shape_l c) id1 = Some ws /\
    match tshape with None => id2 = 0 | Some ts => 0 < id2 /\ lib_get (shape_l c) id2 = Some ts end.

Lemma register_grad_spec c amp ws tshape delay first last c' gid ids clr :
  gs_inv c ->
  register_grad c None amp ws tshape delay first last = (c', gid, ids, clr) ->
  gs_inv c' /\ grad_row_ok c' gid amp ws tshape delay first last.
Proof.
  intros (A & R & T) H.
  pose proof (register_grad_ga c None amp ws tshape delay first last A I) as A'.
  pose proof (register_grad_rs c None amp ws tshape delay first last R) as R'.
  rewrite H in A', R'. cbn [fst] in A', R'.
  destruct A as (I & G & _ & _). destruct R as (_ & S & _).
  unfold register_grad in H.
  destruct (kfoi (shape_l c) ws 0) as [[sl1 id1] f1] eqn:E1.
  destruct (kfoi_full _ _ _ _ _ _ S E1) as (S1 & G1 & P1 & L1).
  destruct tshape as [ts|].
  - destruct (kfoi sl1 ts 0) as [[sl2 id2] f2] eqn:E2.
    destruct (kfoi_full _ _ _ _ _ _ S1 E2) as (S2 & G2 & P2 & L2).
    pose proof (lib_le_get _ _ _ _ L2 G1) as G1'.
    cbn [app map] in H.
    destruct (f1 && f2).
    + pose proof (kfoi_grad_typed (grad_l c) [amp; zq id1; zq id2; delay; first; last] tag_g (proj1 G) T (fun _ => eq_refl)) as T'.
      destruct (kfoi (grad_l c) [amp; zq id1; zq id2; delay; first; last] tag_g) as [[gl gid0] fd] eqn:EG.
      destruct (kfoi_full _ _ _ _ _ _ G EG) as (G' & GG & PG & _). cbn [fst] in T'.
      inversion H. subst c' gid ids clr.
      split; [split; [exact A'|split; [exact R'|exact T']]|].
      split; [exact PG|]. exists id1, id2. cbn. repeat split; try assumption. exact (T' _ _ GG eq_refl).
    + pose proof (kins0_grad_typed (grad_l c) [amp; zq id1; zq id2; delay; first; last] tag_g (proj1 G) T (fun _ => eq_refl)) as T'.
      destruct (kins (grad_l c) 0 [amp; zq id1; zq id2; delay; first; last] tag_g) as [gl gid0] eqn:EG.
      destruct (kins0_full _ _ _ _ _ G EG) as (G' & GG & PG & _). cbn [fst] in T'.
      inversion H. subst c' gid ids clr.
      split; [split; [exact A'|split; [exact R'|exact T']]|].
      split; [exact PG|]. exists id1, id2. cbn. repeat split; try assumption. exact (T' _ _ GG eq_refl).
  - cbn [app map] in H.
    destruct f1.
    + pose proof (kfoi_grad_typed (grad_l c) [amp; zq id1; zq 0; delay; first; last] tag_g (proj1 G) T (fun _ => eq_refl)) as T'.
      destruct (kfoi (grad_l c) [amp; zq id1; zq 0; delay; first; last] tag_g) as [[gl gid0] fd] eqn:EG.
      destruct (kfoi_full _ _ _ _ _ _ G EG) as (G' & GG & PG & _). cbn [fst] in T'.
      inversion H. subst c' gid ids clr.
      split; [split; [exact A'|split; [exact R'|exact T']]|].
      split; [exact PG|]. exists id1, 0. cbn. repeat split; try assumption. exact (T' _ _ GG eq_refl).
    + pose proof (kins0_grad_typed (grad_l c) [amp; zq id1; zq 0; delay; first; last] tag_g (proj1 G) T (fun _ => eq_refl)) as T'.
      destruct (kins (grad_l c) 0 [amp; zq id1; zq 0; delay; first; last] tag_g) as [gl gid0] eqn:EG.
      destruct (kins0_full _ _ _ _ _ G EG) as (G' & GG & PG & _). cbn [fst] in T'.
      inversion H. subst c' gid ids clr.
      split; [split; [exact A'|split; [exact R'|exact T']]|].
      split; [exact PG|]. exists id1, 0. cbn. repeat split; try assumption. exact (T' _ _ GG eq_refl).
Qed.

Lemma register_grad_gs c sids amp ws ts delay first last :
  gs_inv c -> match sids with None => True | Some l => length l = 2%nat end ->
  gs_inv (fst (fst (fst (register_grad c sids amp ws ts delay first last)))).
Proof.
  intros G Hs. destruct sids as [ids|].
  - destruct G as (A & R & T).
    pose proof (register_grad_ga c (Some ids) amp ws ts delay first last A Hs) as A'.
    pose proof (register_grad_rs c (Some ids) amp ws ts delay first last R) as R'.
    unfold register_grad in *.
    assert (Hk : length ([amp] ++ map zq ids ++ [delay; first; last]) = 6%nat -> tag_g = tag_g) by reflexivity.
    pose proof (kfoi_grad_typed (grad_l c) ([amp] ++ map zq ids ++ [delay; first; last]) tag_g
                  (proj1 (proj1 (proj2 A))) T Hk) as T'.
    destruct (kfoi (grad_l c) ([amp] ++ map zq ids ++ [delay; first; last]) tag_g) as [[gl gid] fd]. cbn [fst] in *.
    split; [exact A'|]. split; [exact R'|exact T'].
  - destruct (register_grad c None amp ws ts delay first last) as [[[c' gid] ids] clr] eqn:E.
    cbn [fst]. exact (proj1 (register_grad_spec _ _ _ _ _ _ _ _ _ _ _ G E)).
Qed.

(* ---- the event loop ------------------------------------------------------------------------------------------- *)
Lemma ev_step_gs a e a' : gs_inv (a_core a) -> ev_ok e -> ev_step a e = inl a' -> gs_inv (a_core a').
Proof.
  intros (A & R & T) Ok H.
  pose proof (ev_step_ga a e a' A Ok H) as A'. pose proof (ev_step_rs a e a' R H) as R'.
  split; [exact A'|]. split; [exact R'|].
  destruct e; cbn [ev_step] in H.
  - destruct (negb (nth 1 (a_blk a) 0 =? 0)); [discriminate|].
    destruct id as [i|].
    + inversion H. cbn. exact T.
    + pose proof (register_rf_gapart (a_core a) sids amp mag phase tshape delay freq phoff use) as P.
      destruct (register_rf (a_core a) sids amp mag phase tshape delay freq phoff use) as [[[c1 i] ids] clr].
      inversion H. subst a'. cbn in *. unfold gapart in P. inversion P as [[P1 P2]]. rewrite P1. exact T.
  - destruct Ok as (_ & -> & Hs).
    destruct (negb (nth (2 + ch) (a_blk a) 0 =? 0)); [discriminate|].
    pose proof (register_grad_gs (a_core a) sids amp wshape tshape delay first last (conj A (conj R T)) Hs) as P.
    destruct (register_grad (a_core a) sids amp wshape tshape delay first last) as [[[c1 i] ids] clr].
    inversion H. subst a'. cbn in *. exact (proj2 (proj2 P)).
  - destruct Ok as (_ & ->).
    destruct (negb (nth (2 + ch) (a_blk a) 0 =? 0)); [discriminate|].
    pose proof (register_trap_gt (a_core a) amp rise flat fall delay (proj1 A) T) as P.
    destruct (register_trap (a_core a) amp rise flat fall delay) as [[c1 i] clr].
    inversion H. subst a'. cbn in *. exact P.
  - destruct (negb (nth 5 (a_blk a) 0 =? 0)); [discriminate|].
    destruct id as [i|].
    + inversion H. cbn. exact T.
    + unfold register_adc in H.
      destruct (kfoi (adc_l (a_core a)) [num; dwell; delay; freq; phoff; dead] 0) as [[l i] fd].
      inversion H. subst a'. cbn. exact T.
  - inversion H. cbn. exact T.
  - destruct id as [i|].
    + pose proof (ext_type_id_gapart (a_core a) XS_TRIGGERS) as P.
      destruct (ext_type_id (a_core a) XS_TRIGGERS) as [c2 tid].
      inversion H. subst a'. cbn in *. unfold gapart in P. inversion P as [[P1 P2]]. rewrite P1. exact T.
    + pose proof (register_ctl_gapart (a_core a) typ chan delay dur) as P1.
      destruct (register_ctl (a_core a) typ chan delay dur) as [[c1 i] clr]. cbn [fst] in P1.
      pose proof (ext_type_id_gapart c1 XS_TRIGGERS) as P2.
      destruct (ext_type_id c1 XS_TRIGGERS) as [c2 tid]. cbn [fst] in P2.
      inversion H. subst a'. cbn. unfold gapart in P1, P2. inversion P1 as [[Q1 Q2]]. inversion P2 as [[Q3 Q4]].
      rewrite Q3, Q1. exact T.
  - destruct id as [i|].
    + pose proof (ext_type_id_gapart (a_core a) (if is_set then XS_LABELSET else XS_LABELINC)) as P.
      destruct (ext_type_id (a_core a) (if is_set then XS_LABELSET else XS_LABELINC)) as [c2 tid].
      inversion H. subst a'. cbn in *. unfold gapart in P. inversion P as [[P1 P2]]. rewrite P1. exact T.
    + pose proof (register_label_gapart (a_core a) is_set value lbl) as P1.
      destruct (register_label (a_core a) is_set value lbl) as [[c1 i] clr]. cbn [fst] in P1.
      pose proof (ext_type_id_gapart c1 (if is_set then XS_LABELSET else XS_LABELINC)) as P2.
      destruct (ext_type_id c1 (if is_set then XS_LABELSET else XS_LABELINC)) as [c2 tid]. cbn [fst] in P2.
      inversion H. subst a'. cbn. unfold gapart in P1, P2. inversion P1 as [[Q1 Q2]]. inversion P2 as [[Q3 Q4]].
      rewrite Q3, Q1. exact T.
  - inversion H. cbn. exact T.
Qed.

Definition grad_recorded (a : acc) (ch : nat) amp ws tshape delay first last : Prop :=
  grad_row_ok (a_core a) (nth (2 + ch) (a_blk a) 0) amp ws tshape delay first last.

Lemma grad_row_ok_mono c c' gid amp ws tshape delay first last :
  core_le c c' -> grad_row_ok c gid amp ws tshape delay first last ->
  grad_row_ok c' gid amp ws tshape delay first last.
Proof.
  intros L (P & id1 & id2 & GG & TT & P1 & G1 & H2).
  split; [exact P|]. exists id1, id2.
  split; [exact (lib_le_get _ _ _ _ (le_grad _ _ L) GG)|].
  split; [rewrite (lib_le_type _ _ _ _ (le_grad _ _ L) GG); exact TT|].
  split; [exact P1|]. split; [exact (lib_le_get _ _ _ _ (le_shape _ _ L) G1)|].
  destruct tshape as [ts|]; [|exact H2].
  destruct H2 as [P2 G2]. split; [exact P2|exact (lib_le_get _ _ _ _ (le_shape _ _ L) G2)].
Qed.

Lemma ev_step_keeps_grad a e a' ch amp ws tshape delay first last :
  core_inv (a_core a) -> ev_step a e = inl a' ->
  grad_recorded a ch amp ws tshape delay first last -> grad_recorded a' ch amp ws tshape delay first last.
Proof.
  intros I H R. destruct (ev_step_grows a e a' I H) as [_ L].
  destruct (ev_step_row a e a' H) as [_ Rw]. unfold grad_recorded in *.
  rewrite (Rw (2 + ch)%nat) by (destruct R as [P _]; lia).
  eapply grad_row_ok_mono; eassumption.
Qed.

Lemma ev_step_records_grad a a' ch amp ws tshape delay first last t0 tl :
  gs_inv (a_core a) -> length (a_blk a) = 7%nat -> (ch < 3)%nat ->
  ev_step a (MGrad ch None None amp ws tshape delay first last t0 tl) = inl a' ->
  grad_recorded a' ch amp ws tshape delay first last.
Proof.
  intros G Len Hch H. cbn [ev_step] in H.
  destruct (negb (nth (2 + ch) (a_blk a) 0 =? 0)); [discriminate|].
  destruct (register_grad (a_core a) None amp ws tshape delay first last) as [[[c1 i] ids] clr] eqn:E.
  destruct (register_grad_spec _ _ _ _ _ _ _ _ _ _ _ G E) as [_ Ok].
  inversion H. subst a'. unfold grad_recorded. cbn.
  rewrite nth_set_nth_same by (rewrite Len; lia). exact Ok.
Qed.

Lemma ev_loop_stored_grad evs : forall a a',
  gs_inv (a_core a) -> length (a_blk a) = 7%nat -> Forall ev_ok evs ->
  ev_loop a evs = (a', None) ->
  gs_inv (a_core a') /\ length (a_blk a') = 7%nat /\
  (forall ch amp ws tshape delay first last,
     grad_recorded a ch amp ws tshape delay first last -> grad_recorded a' ch amp ws tshape delay first last) /\
  (forall ch amp ws tshape delay first last t0 tl,
     In (MGrad ch None None amp ws tshape delay first last t0 tl) evs ->
     grad_recorded a' ch amp ws tshape delay first last).
Proof.
  induction evs as [|e r IH]; intros a a' G Len Ok H; cbn [ev_loop] in H.
  - inversion H. subst a'. split; [exact G|]. split; [exact Len|].
    split; [intros; assumption|]. intros ch amp ws tshape delay first last t0 tl [].
  - inversion Ok as [|e0 r0 Oe Or]. subst e0 r0.
    destruct (ev_step a e) as [a1|x] eqn:E; [|discriminate].
    pose proof (ev_step_gs a e a1 G Oe E) as G1.
    destruct (ev_step_row a e a1 E) as [Len1 _]. rewrite Len in Len1.
    destruct (IH a1 a' G1 Len1 Or H) as (G' & Len' & K & N).
    split; [exact G'|]. split; [exact Len'|]. split.
    + intros ch amp ws tshape delay first last R. apply K.
      eapply ev_step_keeps_grad; [exact (proj1 (proj1 G))|exact E|exact R].
    + intros ch amp ws tshape delay first last t0 tl [->|Hin]; [|eapply N; exact Hin].
      apply K. eapply ev_step_records_grad; [exact G|exact Len|exact (proj1 Oe)|exact E].
Qed.

(* ---- decoding --------------------------------------------------------------------------------------------------- *)
Definition grad_shapes (ws : key) (tshape : option key) : list key :=
  ws :: match tshape with Some ts => [ts] | None => [] end.

Lemma tag_g_not_t : tag_g =? tag_t = false.
Proof. reflexivity. Qed.

Lemma dec_grad_row c gid amp ws tshape delay first last :
  grad_row_ok c gid amp ws tshape delay first last ->
  exists id1 id2,
    dec_grad c gid = Some (Some (mkDGrad tag_g [amp; zq id1; zq id2; delay; first; last] (grad_shapes ws tshape))).
Proof.
  intros (P & id1 & id2 & GG & TT & P1 & G1 & H2).
  exists id1, id2. unfold dec_grad.
  replace (gid <=? 0) with false by (symmetry; apply Z.leb_gt; exact P).
  rewrite TT, GG. cbn [opt_bind]. rewrite tag_g_not_t. cbn [knth nth]. rewrite !qz_zq.
  unfold get_shape. rewrite G1. cbn [opt_bind].
  destruct tshape as [ts|].
  - destruct H2 as [P2 G2].
    replace (id2 =? 0) with false by (symmetry; apply Z.eqb_neq; lia).
    rewrite G2. reflexivity.
  - subst id2. reflexivity.
Qed.

Theorem set_block_stores_grad : forall abs_fix c i evs hint c' clr b ch amp ws tshape delay first last t0 tl,
  gs_inv c -> Forall ev_ok evs ->
  set_block_core abs_fix c i evs hint = (c', clr, None) ->
  decode c' i = Some b ->
  In (MGrad ch None None amp ws tshape delay first last t0 tl) evs ->
  exists id1 id2,
    nth ch (d_g b) None = Some (mkDGrad tag_g [amp; zq id1; zq id2; delay; first; last] (grad_shapes ws tshape)).
Proof.
  intros abs_fix c i evs hint c' clr b ch amp ws tshape delay first last t0 tl G Ok H D Hin.
  assert (Hch : (ch < 3)%nat) by (rewrite Forall_forall in Ok; exact (proj1 (Ok _ Hin))).
  unfold set_block_core in H.
  set (a0 := mkAcc c false [0; 0; 0; 0; 0; 0; 0] qc0 [chk0; chk0; chk0] []) in *.
  destruct (ev_loop a0 evs) as [a eo] eqn:EL.
  destruct eo as [x|]; [inversion H|].
  destruct (ev_loop_stored_grad evs a0 a G eq_refl Ok EL) as (Ga & Len & _ & N).
  pose proof (N _ _ _ _ _ _ _ _ _ Hin) as R. unfold grad_recorded in R.
  assert (Hc : exists blk c2 dd,
            c' = c2 <| blocks := aset Z.eqb (blocks c2) i blk |> <| durs := dd |> /\
            grad_l c2 = grad_l (a_core a) /\ shape_l c2 = shape_l (a_core a) /\
            (forall j, (j < 6)%nat -> nth j blk 0 = nth j (a_blk a) 0)).
  { destruct (a_exts a) as [|x xs].
    - destruct (check_channels abs_fix (a_core a) i (a_dur a) 0 (a_chk a)); [inversion H|].
      inversion H. exists (a_blk a), (a_core a), (aset Z.eqb (durs (a_core a)) i (a_dur a)).
      repeat split; reflexivity.
    - destruct (ext_register hint (ext_l (a_core a)) (x :: xs)) as [el eid].
      destruct (check_channels abs_fix (a_core a <| ext_l := el |>) i (a_dur a) 0 (a_chk a)); [inversion H|].
      inversion H. exists (set_nth 6 eid (a_blk a)), (a_core a <| ext_l := el |>),
                          (aset Z.eqb (durs (a_core a <| ext_l := el |>)) i (a_dur a)).
      split; [reflexivity|]. split; [reflexivity|]. split; [reflexivity|].
      intros j Hj. apply nth_set_nth_other. lia. }
  destruct Hc as (blk & c2 & dd & -> & Eg & Es & Eb).
  set (cF := c2 <| blocks := aset Z.eqb (blocks c2) i blk |> <| durs := dd |>) in *.
  destruct (decode_fields _ _ _ D) as (ev & Hev & Dx & Dy & Dz & _ & _).
  change (blocks cF) with (aset Z.eqb (blocks c2) i blk) in Hev.
  rewrite agetZ_aset_same in Hev. inversion Hev. subst ev.
  assert (RG : grad_row_ok cF (nth (2 + ch) blk 0) amp ws tshape delay first last).
  { rewrite (Eb (2 + ch)%nat) by lia.
    destruct R as (P & id1 & id2 & GG & TT & P1 & G1 & H2).
    split; [exact P|]. exists id1, id2.
    change (grad_l cF) with (grad_l c2). change (shape_l cF) with (shape_l c2). rewrite Eg, Es.
    repeat split; assumption. }
  destruct (dec_grad_row _ _ _ _ _ _ _ _ RG) as (id1 & id2 & E).
  exists id1, id2.
  destruct ch as [|[|[|ch]]]; [| | |lia]; cbn [Nat.add] in E.
  - rewrite E in Dx. congruence.
  - rewrite E in Dy. congruence.
  - rewrite E in Dz. congruence.
Qed.

(* ---- along histories -------------------------------------------------------------------------------------------- *)
Lemma ev_loop_gs evs : forall a, gs_inv (a_core a) -> Forall ev_ok evs -> gs_inv (a_core (fst (ev_loop a evs))).
Proof.
  induction evs as [|e r IH]; intros a G Ok; cbn [ev_loop]; [exact G|].
  inversion Ok as [|e0 r0 Oe Or]. subst e0 r0.
  destruct (ev_step a e) as [a1|x] eqn:E; [|exact G].
  apply IH; [exact (ev_step_gs a e a1 G Oe E)|exact Or].
Qed.

Lemma sbc_gs abs_fix c i evs hint :
  gs_inv c -> Forall ev_ok evs -> gs_inv (fst (fst (set_block_core abs_fix c i evs hint))).
Proof.
  intros G Ok.
  pose proof (sbc_ga abs_fix c i evs hint (proj1 G) Ok) as A'.
  pose proof (sbc_rs abs_fix c i evs hint (proj1 (proj2 G))) as R'.
  split; [exact A'|]. split; [exact R'|].
  unfold set_block_core in *.
  pose proof (ev_loop_gs evs (mkAcc c false [0; 0; 0; 0; 0; 0; 0] qc0 [chk0; chk0; chk0] []) G Ok) as Ga.
  destruct (ev_loop (mkAcc c false [0; 0; 0; 0; 0; 0; 0] qc0 [chk0; chk0; chk0] []) evs) as [a eo].
  cbn [fst] in Ga. destruct Ga as (_ & _ & T).
  destruct eo as [x|]; [exact T|].
  destruct (a_exts a) as [|x xs].
  - destruct (check_channels abs_fix (a_core a) i (a_dur a) 0 (a_chk a)); cbn [fst]; exact T.
  - destruct (ext_register hint (ext_l (a_core a)) (x :: xs)) as [el eid].
    destruct (check_channels abs_fix (a_core a <| ext_l := el |>) i (a_dur a) 0 (a_chk a)); cbn [fst]; exact T.
Qed.

Theorem step_gs_inv : forall cache_on abs_fix r1 r2 r3 r4 s o,
  gs_inv (st_core s) -> op_plain o -> gs_inv (st_core (fst (step cache_on abs_fix r1 r2 r3 r4 s o))).
Proof.
  intros cache_on abs_fix r1 r2 r3 r4 s o G Ok.
  pose proof (step_ga_inv cache_on abs_fix r1 r2 r3 r4 s o (proj1 G) Ok) as A'.
  pose proof (step_rs_inv cache_on abs_fix r1 r2 r3 r4 s o (proj1 (proj2 G)) Ok) as R'.
  split; [exact A'|]. split; [exact R'|].
  destruct G as (A & R & T).
  destruct o; cbn [step op_plain] in *.
  - pose proof (sbc_gs abs_fix (st_core s) (next_block (st_core s)) evs hint (conj A (conj R T)) Ok) as H.
    destruct (set_block_core abs_fix (st_core s) (next_block (st_core s)) evs hint) as [[c' clr] e].
    cbn [fst] in H. destruct e; cbn [fst st_core]; exact (proj2 (proj2 H)).
  - pose proof (sbc_gs abs_fix (st_core s) i evs hint (conj A (conj R T)) Ok) as H.
    destruct (set_block_core abs_fix (st_core s) i evs hint) as [[c' clr] e].
    cbn [fst] in H. destruct e; cbn [fst st_core]; exact (proj2 (proj2 H)).
  - pose proof (do_get_core cache_on s i) as H.
    destruct (do_get cache_on s i) as [s' b]. cbn [fst] in *. rewrite H. exact T.
  - pose proof (register_rf_gapart (st_core s) sids amp mag phase tshape delay freq phoff use) as P.
    destruct (register_rf (st_core s) sids amp mag phase tshape delay freq phoff use) as [[[c' id] ids] clr].
    cbn [fst st_core] in *. unfold gapart in P. inversion P as [[P1 P2]]. rewrite P1. exact T.
  - pose proof (register_grad_gs (st_core s) sids amp wshape tshape delay first last (conj A (conj R T)) Ok) as P.
    destruct (register_grad (st_core s) sids amp wshape tshape delay first last) as [[[c' id] ids] clr].
    cbn [fst st_core] in *. exact (proj2 (proj2 P)).
  - pose proof (register_trap_gt (st_core s) amp rise flat fall delay (proj1 A) T) as P.
    destruct (register_trap (st_core s) amp rise flat fall delay) as [[c' id] clr].
    cbn [fst st_core] in *. exact P.
  - unfold register_adc.
    destruct (kfoi (adc_l (st_core s)) [num; dwell; delay; freq; phoff; dead] 0) as [[l id] fd].
    cbn [fst st_core]. cbn. exact T.
  - pose proof (register_label_gapart (st_core s) is_set value lbl) as P.
    destruct (register_label (st_core s) is_set value lbl) as [[c' id] clr].
    cbn [fst st_core] in *. unfold gapart in P. inversion P as [[P1 P2]]. rewrite P1. exact T.
  - contradiction.
  - cbn [fst]. exact T.
  - cbn [fst]. rewrite touch_core. exact T.
  - contradiction.
Qed.

Lemma run_gs_inv_gen cache_on abs_fix r1 r2 r3 r4 ops : forall s acc,
  gs_inv (st_core s) -> Forall op_plain ops ->
  gs_inv (st_core (fst (fold_left (fun (acc : state * list out) o =>
               let '(s', x) := step cache_on abs_fix r1 r2 r3 r4 (fst acc) o in (s', snd acc ++ [x]))
               ops (s, acc)))).
Proof.
  induction ops as [|o r IH]; intros s acc L Ok; cbn [fold_left]; [exact L|].
  inversion Ok as [|? ? Oo Or]. subst. cbn [fst snd].
  pose proof (step_gs_inv cache_on abs_fix r1 r2 r3 r4 s o L Oo) as L'.
  destruct (step cache_on abs_fix r1 r2 r3 r4 s o) as [s1 x1]. cbn [fst] in L'.
  apply IH; assumption.
Qed.

Theorem set_block_then_decode_grad : forall cache_on abs_fix r1 r2 r3 r4 ops g sr sl e i evs hint b
                                            ch amp ws tshape delay first last t0 tl,
  Forall op_plain ops -> Forall ev_ok evs ->
  let s := fst (run cache_on abs_fix r1 r2 r3 r4 (mkState (core_init g sr sl e) []) ops) in
  let res := step cache_on abs_fix r1 r2 r3 r4 s (SetBlock i evs hint) in
  snd res = ONone ->
  decode (st_core (fst res)) i = Some b ->
  In (MGrad ch None None amp ws tshape delay first last t0 tl) evs ->
  exists id1 id2,
    nth ch (d_g b) None = Some (mkDGrad tag_g [amp; zq id1; zq id2; delay; first; last] (grad_shapes ws tshape)).
Proof.
  intros cache_on abs_fix r1 r2 r3 r4 ops g sr sl e i evs hint b ch amp ws tshape delay first last t0 tl Ok Oe.
  cbv zeta.
  assert (G : gs_inv (st_core (fst (run cache_on abs_fix r1 r2 r3 r4 (mkState (core_init g sr sl e) []) ops)))).
  { unfold run. apply run_gs_inv_gen; [apply gs_inv_init|exact Ok]. }
  set (s := fst (run cache_on abs_fix r1 r2 r3 r4 (mkState (core_init g sr sl e) []) ops)) in *.
  cbn [step].
  destruct (set_block_core abs_fix (st_core s) i evs hint) as [[c' clr] eo] eqn:E.
  destruct eo as [x|]; cbn [snd fst st_core]; [discriminate|]. intros _ D Hin.
  rewrite decode_set_next in D.
  exact (set_block_stores_grad _ _ _ _ _ _ _ _ _ _ _ _ _ _ _ _ _ G Oe E D Hin).
Qed.

Theorem add_block_then_decode_grad : forall cache_on abs_fix r1 r2 r3 r4 ops g sr sl e evs hint b
                                            ch amp ws tshape delay first last t0 tl,
  Forall op_plain ops -> Forall ev_ok evs ->
  let s := fst (run cache_on abs_fix r1 r2 r3 r4 (mkState (core_init g sr sl e) []) ops) in
  let res := step cache_on abs_fix r1 r2 r3 r4 s (AddBlock evs hint) in
  snd res = ONone ->
  decode (st_core (fst res)) (next_block (st_core s)) = Some b ->
  In (MGrad ch None None amp ws tshape delay first last t0 tl) evs ->
  exists id1 id2,
    nth ch (d_g b) None = Some (mkDGrad tag_g [amp; zq id1; zq id2; delay; first; last] (grad_shapes ws tshape)).
Proof.
  intros cache_on abs_fix r1 r2 r3 r4 ops g sr sl e evs hint b ch amp ws tshape delay first last t0 tl Ok Oe.
  cbv zeta.
  assert (G : gs_inv (st_core (fst (run cache_on abs_fix r1 r2 r3 r4 (mkState (core_init g sr sl e) []) ops)))).
  { unfold run. apply run_gs_inv_gen; [apply gs_inv_init|exact Ok]. }
  set (s := fst (run cache_on abs_fix r1 r2 r3 r4 (mkState (core_init g sr sl e) []) ops)) in *.
  cbn [step].
  destruct (set_block_core abs_fix (st_core s) (next_block (st_core s)) evs hint) as [[c' clr] eo] eqn:E.
  destruct eo as [x|]; cbn [snd fst st_core]; [discriminate|]. intros _ D Hin.
  rewrite decode_set_next in D.
  exact (set_block_stores_grad _ _ _ _ _ _ _ _ _ _ _ _ _ _ _ _ _ G Oe E D Hin).
Qed.
