(* Proofs/ShapeProofs.v — lemmas about Model/Shape.v *)
From Coq Require Import ZArith QArith Qround Qabs List Bool Arith Lia Lqa.
From PV Require Import Base.QUtil Gen.GenShape Model.Shape.
Import ListNotations.
Open Scope Q_scope.

Lemma quant_factor_pos : 0 < quant_factor.
Proof. reflexivity. Qed.

Lemma qv_inj v w : qv v == qv w -> v = w.
Proof.
  unfold qv. intro H. pose proof quant_factor_pos as P.
  assert (E : inject_Z v == inject_Z w).
  { apply (Qmult_inj_r _ _ quant_factor); [lra|exact H]. }
  unfold Qeq, inject_Z in E. simpl in E. lia.
Qed.

Lemma qv_eqb v w : Qeq_bool (qv v) (qv w) = Z.eqb v w.
Proof.
  destruct (Z.eqb_spec v w) as [->|N].
  - apply Qeq_bool_iff. reflexivity.
  - destruct (Qeq_bool (qv v) (qv w)) eqn:E; [|reflexivity].
    apply Qeq_bool_iff in E. apply qv_inj in E. contradiction.
Qed.

Lemma count_of_cnt n : count_of (cnt n) = Some n.
Proof.
  unfold count_of, cnt. rewrite Qfloor_Z.
  assert (E : Qeq_bool (inject_Z (Z.of_nat n - rl_offset_enc)) (inject_Z (Z.of_nat n - rl_offset_enc)) = true)
    by (apply Qeq_bool_iff; reflexivity).
  rewrite E.
  (* encoder and decoder must agree on the offset: checked on the GENERATED constants *)
  assert (Hoff : rl_offset_enc = rl_offset_dec) by reflexivity.
  replace (Z.of_nat n - rl_offset_enc + rl_offset_dec)%Z with (Z.of_nat n) by lia.
  destruct (Z.leb_spec 0 (Z.of_nat n)); [|lia].
  rewrite Nat2Z.id. reflexivity.
Qed.

(* ---- run structure -------------------------------------------------------------------------- *)
Fixpoint wf_runs (R : list (Z * nat)) : Prop :=
  match R with
  | [] => True
  | (v, n) :: t =>
    (1 <= n)%nat /\ match t with (w, _) :: _ => v <> w | [] => True end /\ wf_runs t
  end.

Definition expand (R : list (Z * nat)) : list Z := flat_map (fun r => repeat (fst r) (snd r)) R.

Lemma runs_wf l : wf_runs (runs l).
Proof.
  induction l as [|v r IH]; cbn [runs]; [exact I|].
  destruct (runs r) as [|[w n] t] eqn:E.
  - cbn. auto.
  - destruct (Z.eqb_spec v w) as [->|N].
    + cbn in IH |- *. destruct IH as (Hn & Hd & Hw). repeat split; [lia|exact Hd|exact Hw].
    + cbn in IH |- *. destruct IH as (Hn & Hd & Hw). repeat split; auto.
Qed.

Lemma runs_expand l : expand (runs l) = l.
Proof.
  induction l as [|v r IH]; cbn [runs]; [reflexivity|].
  destruct (runs r) as [|[w n] t] eqn:E.
  - cbn in IH |- *. subst r. reflexivity.
  - destruct (Z.eqb_spec v w) as [->|N].
    + rewrite <- IH. reflexivity.
    + rewrite <- IH. reflexivity.
Qed.

Definition expandQ (R : list (Z * nat)) : list Q :=
  flat_map (fun r => repeat (qv (fst r)) (snd r)) R.

Lemma expandQ_map R : expandQ R = map qv (expand R).
Proof.
  unfold expandQ, expand. induction R as [|[v n] t IH]; [reflexivity|].
  cbn [flat_map fst snd]. rewrite map_app, IH. f_equal.
  clear. induction n; cbn; congruence.
Qed.

Lemma unpack_single a b r : Qeq_bool a b = false ->
  unpack_go (a :: b :: r) 0 = option_map (cons a) (unpack_go (b :: r) 0).
Proof. intro H. cbn [unpack_go]. rewrite H. reflexivity. Qed.

Lemma unpack_run a b c r rep : Qeq_bool a b = true -> count_of c = Some rep ->
  unpack_go (a :: b :: c :: r) 0 = option_map (app (repeat a rep)) (unpack_go r 0).
Proof. intros H1 H2. cbn [unpack_go]. rewrite H1, H2. reflexivity. Qed.

Lemma unpack_pack_runs R : wf_runs R -> unpack_go (pack_runs R) 0 = Some (expandQ R).
Proof.
  induction R as [|[v n] t IH]; intro W; [reflexivity|].
  cbn [wf_runs] in W. destruct W as (Hn & Hd & Hw). specialize (IH Hw).
  unfold pack_runs, expandQ in *. cbn [flat_map pack_run fst snd].
  destruct (Nat.ltb_spec 1 n) as [Hgt|Hle].
  - (* a real run: value, value, count *)
    cbn [app]. rewrite (unpack_run _ _ _ _ n); [|rewrite qv_eqb; apply Z.eqb_refl|apply count_of_cnt].
    rewrite IH. reflexivity.
  - assert (n = 1)%nat by lia. subst n. cbn [app repeat].
    destruct t as [|[w m] t'].
    + reflexivity.
    + cbn [flat_map pack_run] in *.
      assert (Hhd : exists rest, (if (1 <? m)%nat then [qv w; qv w; cnt m] else [qv w]) ++
                                  flat_map pack_run t' = qv w :: rest).
      { destruct (1 <? m)%nat; eexists; reflexivity. }
      destruct Hhd as [rest Hrest]. rewrite Hrest in *.
      cbn [app]. rewrite unpack_single.
      * rewrite IH. reflexivity.
      * rewrite qv_eqb. apply Z.eqb_neq. exact Hd.
Qed.

Theorem unpack_pack (l : list Z) : unpack_go (pack l) 0 = Some (map qv l).
Proof.
  unfold pack. rewrite unpack_pack_runs by apply runs_wf.
  rewrite expandQ_map, runs_expand. reflexivity.
Qed.

(* ---- quantisation error ---------------------------------------------------------------------- *)
Definition close (bound : Q) (x y : Q) : Prop := Qabs (y - x) <= bound.
Definition half_q : Q := quant_factor * Qhalf.

Lemma sample_close (x : Q) (s : Q) (C rq : Z) :
  s == x / quant_factor -> rq = rnd_he (s - inject_Z C) ->
  close half_q x (inject_Z (C + rq) * quant_factor).
Proof.
  intros Hs Hrq. unfold close, half_q.
  pose proof (rnd_he_err (s - inject_Z C)) as E. rewrite <- Hrq in E.
  apply Qabs_Qle_condition in E. destruct E as [E1 E2].
  assert (X : x == s * quant_factor).
  { rewrite Hs. field. pose proof quant_factor_pos. lra. }
  rewrite inject_Z_plus. rewrite X.
  apply Qabs_Qle_condition. unfold Qhalf, quant_factor in *. lra.
Qed.

Lemma quant_go_close xs : forall prev_s C prev_rq D,
  D = (C + prev_rq)%Z ->
  Forall2 (close half_q) xs
    (map (fun c => inject_Z c * quant_factor) (cumsumZ_go D (quant_go prev_s C prev_rq false xs))).
Proof.
  induction xs as [|x r IH]; intros prev_s C prev_rq D HD; [constructor|].
  cbn [quant_go cumsumZ_go map].
  set (s := Qred (x / quant_factor)).
  set (dq := rnd_he (s - prev_s)).
  set (rq := rnd_he (s - inject_Z (C + dq))).
  constructor.
  - replace (D + (dq + (rq - prev_rq)))%Z with ((C + dq) + rq)%Z by lia.
    apply (sample_close x s); [apply Qred_correct|reflexivity].
  - apply IH. lia.
Qed.

Theorem quantise_close xs :
  Forall2 (close half_q) xs (map (fun c => inject_Z c * quant_factor) (cumsumZ (quantise xs))).
Proof.
  unfold quantise, cumsumZ. destruct xs as [|x r]; [constructor|].
  cbn [quant_go cumsumZ_go map].
  set (s := Qred (x / quant_factor)).
  set (dq := rnd_he (s - 0)).
  set (rq := rnd_he (s - inject_Z (0 + dq))).
  assert (Hrq : rq = 0%Z).
  { unfold rq. apply rnd_he_small. replace (0 + dq)%Z with dq by lia.
    unfold dq. assert (E : s - 0 == s) by ring. rewrite E. apply rnd_he_err. }
  constructor.
  - replace (0 + dq)%Z with ((0 + dq) + rq)%Z by lia.
    apply (sample_close x s); [apply Qred_correct|reflexivity].
  - apply quant_go_close. lia.
Qed.

(* ---- cumsum over Q vs over Z ------------------------------------------------------------------ *)
Lemma cumsum_qv l : forall (a : Q) (z : Z), a == inject_Z z * quant_factor ->
  Forall2 Qeq (cumsumQ_go a (map qv l)) (map (fun c => inject_Z c * quant_factor) (cumsumZ_go z l)).
Proof.
  induction l as [|v r IH]; intros a z H; [constructor|].
  cbn [map cumsumQ_go cumsumZ_go].
  assert (E : Qred (a + qv v) == inject_Z (z + v) * quant_factor).
  { rewrite Qred_correct, H, inject_Z_plus. unfold qv. ring. }
  constructor; [exact E|]. apply IH. exact E.
Qed.

Lemma Forall2_close_eq b xs ys zs :
  Forall2 (close b) xs ys -> Forall2 Qeq zs ys -> Forall2 (close b) xs zs.
Proof.
  intros H. revert zs. induction H as [|x y xs ys Hxy _ IH]; intros zs Hz; inversion Hz; subst.
  - constructor.
  - constructor; [|apply IH; assumption].
    unfold close in *. match goal with E : _ == y |- _ => rewrite E end. exact Hxy.
Qed.

Lemma Forall2_length {A B} (R : A -> B -> Prop) l1 l2 : Forall2 R l1 l2 -> length l1 = length l2.
Proof. induction 1; cbn; congruence. Qed.

Lemma close_refl b x : 0 <= b -> close b x x.
Proof. intro H. unfold close. setoid_replace (x - x) with 0 by ring. exact H. Qed.

Lemma Forall2_close_refl b xs : 0 <= b -> Forall2 (close b) xs xs.
Proof. intro H. induction xs; constructor; auto using close_refl. Qed.

Lemma length_quant_go xs : forall p C q f, length (quant_go p C q f xs) = length xs.
Proof.
  induction xs as [|x r IH]; intros; cbn [quant_go length]; [reflexivity|]. f_equal. apply IH.
Qed.
Lemma length_quantise xs : length (quantise xs) = length xs.
Proof. apply length_quant_go. Qed.

(* ---- the codec round trip ---------------------------------------------------------------------- *)
Theorem codec_roundtrip (force : bool) (x : list Q) :
  exists y, decompress force (compress force x) = Some y /\ Forall2 (close half_q) x y.
Proof.
  assert (HB : 0 <= half_q) by (unfold half_q, Qhalf, quant_factor; lra).
  assert (Hdec : forall c, cdata c = pack (quantise x) -> num_samples c = length x ->
            (force = true \/ length (pack (quantise x)) <> length x) ->
            exists y, decompress force c = Some y /\ Forall2 (close half_q) x y).
  { intros c Hc Hn Hbr. unfold decompress. rewrite Hc, Hn.
    assert (Hbranch : negb force && (length x =? length (pack (quantise x)))%nat = false).
    { destruct Hbr as [->|Hne]; [reflexivity|].
      destruct (Nat.eqb_spec (length x) (length (pack (quantise x)))); [congruence|].
      apply andb_false_r. }
    rewrite Hbranch, unpack_pack, map_length, length_quantise, Nat.eqb_refl.
    eexists; split; [reflexivity|].
    eapply Forall2_close_eq; [apply quantise_close|].
    apply cumsum_qv. change (inject_Z 0) with 0. ring. }
  unfold compress.
  destruct (negb force && (length x <=? short_shape_threshold)%nat) eqn:Eshort.
  - (* stored raw *)
    exists x. split; [|apply Forall2_close_refl; exact HB].
    unfold decompress. cbn [num_samples cdata].
    destruct force; [discriminate|]. cbn [negb andb]. rewrite Nat.eqb_refl. reflexivity.
  - destruct (force || (length (pack (quantise x)) <? length x)%nat) eqn:Ecomp.
    + apply Hdec; [reflexivity|reflexivity|].
      destruct force; [left; reflexivity|right].
      cbn [orb] in Ecomp. apply Nat.ltb_lt in Ecomp. lia.
    + exists x. split; [|apply Forall2_close_refl; exact HB].
      unfold decompress. cbn [num_samples cdata].
      destruct force; [discriminate|]. cbn [negb andb]. rewrite Nat.eqb_refl. reflexivity.
Qed.

Theorem compressed_not_longer (x : list Q) : (length (cdata (compress false x)) <= length x)%nat.
Proof.
  unfold compress. cbn [negb andb orb].
  destruct (length x <=? short_shape_threshold)%nat; [cbn; lia|].
  destruct (Nat.ltb_spec (length (pack (quantise x))) (length x)); cbn [cdata]; lia.
Qed.

Theorem num_samples_compress force x : num_samples (compress force x) = length x.
Proof.
  unfold compress.
  destruct (negb force && _); [reflexivity|]. destruct (force || _); reflexivity.
Qed.

Lemma half_q_is_5e8 : half_q == 5 # 100000000.
Proof. reflexivity. Qed.

Definition close5e8 (x y : Q) : Prop := Qabs (y - x) <= 5 # 100000000.

Lemma Forall2_close_lit xs ys : Forall2 (close half_q) xs ys -> Forall2 close5e8 xs ys.
Proof.
  induction 1 as [|x y xs ys H _ IH]; constructor; [|exact IH].
  unfold close, close5e8 in *. rewrite <- half_q_is_5e8. exact H.
Qed.

Theorem quantise_close_lit xs :
  Forall2 close5e8 xs (map (fun c => inject_Z c * quant_factor) (cumsumZ (quantise xs))).
Proof. apply Forall2_close_lit, quantise_close. Qed.

Theorem codec_roundtrip_lit (force : bool) (x : list Q) :
  exists y, decompress force (compress force x) = Some y /\ length y = length x /\
            Forall2 close5e8 x y.
Proof.
  destruct (codec_roundtrip force x) as (y & Hd & Hc).
  exists y. split; [exact Hd|]. split; [symmetry; exact (Forall2_length _ _ _ Hc)|].
  apply Forall2_close_lit. exact Hc.
Qed.
