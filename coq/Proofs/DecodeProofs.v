(* Proofs/DecodeProofs.v — get_block level: the decoded samples of a written-and-re-read shape-based event
   differ from the decoded samples of the original by the amplitude rounding only; composed with the
   shape codec bound of C14 this bounds the distance to the waveform the user handed to add_block. *)
From Coq Require Import List Bool ZArith QArith Qround Qabs Lia Lqa.
From PV Require Import Base.QUtil Gen.GenShape Gen.GenFile Model.Shape Model.File Model.Decode
     Proofs.ShapeProofs Proofs.FileProofs.
Import ListNotations.
Open Scope Q_scope.

Definition optrel {A} (R : A -> A -> Prop) (a b : option A) : Prop :=
  match a, b with Some x, Some y => R x y | None, None => True | _, _ => False end.

Lemma Qeq_bool_comp a a' b b' : a == a' -> b == b' -> Qeq_bool a b = Qeq_bool a' b'.
Proof.
  intros Ea Eb. destruct (Qeq_bool a b) eqn:X; destruct (Qeq_bool a' b') eqn:Y; try reflexivity.
  - apply Qeq_bool_iff in X. assert (Z : a' == b') by (rewrite <- Ea, <- Eb; exact X). apply Qeq_bool_iff in Z. congruence.
  - apply Qeq_bool_iff in Y. assert (Z : a == b) by (rewrite Ea, Eb; exact Y). apply Qeq_bool_iff in Z. congruence.
Qed.

Lemma count_of_comp c c' : c == c' -> count_of c = count_of c'.
Proof.
  intro E. unfold count_of. rewrite (Qfloor_comp _ _ E).
  rewrite (Qeq_bool_comp (inject_Z (Qfloor c')) (inject_Z (Qfloor c')) c c' (Qeq_refl _) E). reflexivity.
Qed.

Lemma Forall2_Qeq_repeat a a' n : a == a' -> Forall2 Qeq (repeat a n) (repeat a' n).
Proof. intro E. induction n; cbn; constructor; auto. Qed.

Lemma Forall2_app_Qeq (l1 l1' l2 l2' : list Q) : Forall2 Qeq l1 l1' -> Forall2 Qeq l2 l2' -> Forall2 Qeq (l1 ++ l2) (l1' ++ l2').
Proof. induction 1; cbn; [auto|constructor; auto]. Qed.

Lemma unpack_go_comp : forall l l', Forall2 Qeq l l' -> forall skip,
  optrel (Forall2 Qeq) (unpack_go l skip) (unpack_go l' skip).
Proof.
  induction 1 as [|a a' tl tl' Ea Htl IH]; intro skip; [cbn; constructor|].
  cbn [unpack_go]. destruct skip as [|k]; [|apply IH].
  inversion Htl as [|b b' r r' Eb Hr]; subst.
  - cbn. constructor; [exact Ea|constructor].
  - rewrite (Qeq_bool_comp a a' b b' Ea Eb). destruct (Qeq_bool a' b').
    + inversion Hr as [|c c' r2 r2' Ec Hr2]; subst; [cbn; exact I|].
      rewrite (count_of_comp c c' Ec). destruct (count_of c') as [rep|]; [|cbn; exact I].
      specialize (IH 2%nat). destruct (unpack_go (b :: c :: r2) 2) as [u|]; destruct (unpack_go (b' :: c' :: r2') 2) as [u'|];
        cbn in IH |- *; try contradiction; try exact I.
      apply Forall2_app_Qeq; [apply Forall2_Qeq_repeat; exact Ea|exact IH].
    + specialize (IH 0%nat). destruct (unpack_go (b :: r) 0) as [u|]; destruct (unpack_go (b' :: r') 0) as [u'|];
        cbn in IH |- *; try contradiction; try exact I.
      constructor; assumption.
Qed.

Lemma cumsumQ_go_comp : forall l l', Forall2 Qeq l l' -> forall a, cumsumQ_go a l = cumsumQ_go a l'.
Proof.
  induction 1 as [|x x' l l' E _ IH]; intro a; [reflexivity|].
  cbn [cumsumQ_go]. assert (R : Qred (a + x) = Qred (a + x')) by (apply Qred_complete; rewrite E; reflexivity).
  rewrite R, IH. reflexivity.
Qed.

Lemma Forall2_Qeq_refl (l : list Q) : Forall2 Qeq l l.
Proof. induction l; constructor; auto. reflexivity. Qed.

Lemma decompress_comp n d d' : Forall2 Qeq d d' ->
  optrel (Forall2 Qeq) (decompress false {| num_samples := n; cdata := d |}) (decompress false {| num_samples := n; cdata := d' |}).
Proof.
  intro H. unfold decompress. cbn [num_samples cdata negb andb].
  rewrite <- (Forall2_length _ _ _ H).
  destruct (n =? length d)%nat; [exact H|].
  pose proof (unpack_go_comp d d' H 0%nat) as U.
  destruct (unpack_go d 0) as [u|]; destruct (unpack_go d' 0) as [u'|]; cbn in U |- *; try contradiction; try exact I.
  rewrite <- (Forall2_length _ _ _ U). destruct (length u =? n)%nat; [|exact I].
  unfold cumsumQ. rewrite (cumsumQ_go_comp u u' U 0). apply Forall2_Qeq_refl.
Qed.

(* the packed samples that the '%.9g' format prints exactly, e.g. every multiple of 1e-7 below 100 and every
   run-length count below 10^9 — all samples of a shape that compress_shape stored compressed *)
Definition shape_printable (sh : list Q) : Prop :=
  match sh with
  | _ :: num :: data => is_int num /\ Forall (fun v => fmt_sig shape_sample_fmt v == v) data
  | _ => False
  end.

Lemma qv_printable v : (Z.abs v < 10 ^ 9)%Z -> fmt_sig shape_sample_fmt (qv v) == qv v.
Proof.
  intro H. unfold qv. change quant_factor with (1 # 10000000).
  change (1 # 10000000) with (p10 (- 7)). exact (fmt_sig_exact_decimal shape_sample_fmt v 7 ltac:(vm_compute; discriminate) H).
Qed.
Lemma cnt_printable n : (Z.of_nat n < 10 ^ 9)%Z -> fmt_sig shape_sample_fmt (cnt n) == cnt n.
Proof.
  intro H. unfold cnt. set (z := (Z.of_nat n - rl_offset_enc)%Z).
  assert (E : inject_Z z == inject_Z z * p10 (- 0)) by (change (p10 (- 0)) with 1; ring).
  assert (B : (Z.abs z < 10 ^ 9)%Z) by (unfold z; change rl_offset_enc with 2%Z; lia).
  rewrite (fmt_sig_Proper shape_sample_fmt _ _ E).
  rewrite (fmt_sig_exact_decimal shape_sample_fmt z 0 ltac:(vm_compute; discriminate) B). symmetry. exact E.
Qed.

Lemma reread_shape_Qeq sh : shape_printable sh ->
  match sh, read_shape (write_shape sh) with
  | _ :: num :: data, _ :: num' :: data' => Qfloor num' = Qfloor num /\ Forall2 Qeq data' data
  | _, _ => False
  end.
Proof.
  destruct sh as [|id [|num data]]; cbn [shape_printable]; try contradiction.
  intros [IN PR]. unfold read_shape. cbn [write_shape]. split.
  - apply Qfloor_comp. apply fmt_int_exact. exact IN.
  - induction PR as [|v data Hv _ IH]; cbn [map]; constructor; assumption.
Qed.

Lemma Forall2_Qeq_sym (l l' : list Q) : Forall2 Qeq l l' -> Forall2 Qeq l' l.
Proof. induction 1; constructor; auto. symmetry. assumption. Qed.

(* the decoded (normalised) shape of a printable shape row survives the file unchanged *)
Theorem decode_shape_reread sh y : shape_printable sh -> decode_shape sh = Some y ->
  exists y', decode_shape (read_shape (write_shape sh)) = Some y' /\ Forall2 Qeq y y'.
Proof.
  intros P D. destruct sh as [|id [|num data]]; try (cbn in P; contradiction).
  pose proof (reread_shape_Qeq _ P) as R.
  unfold read_shape in *. cbn [write_shape] in *. destruct R as [RN RD].
  unfold decode_shape in *. cbn [shape_of_row] in *. rewrite RN.
  pose proof (decompress_comp (Z.to_nat (Qfloor num)) data (map (fmt_sig shape_sample_fmt) data) (Forall2_Qeq_sym _ _ RD)) as C.
  rewrite D in C.
  destruct (decompress false {| num_samples := Z.to_nat (Qfloor num); cdata := map (fmt_sig shape_sample_fmt) data |}) as [y'|];
    cbn in C; [|contradiction].
  exists y'. split; [reflexivity|exact C].
Qed.

(* get_block, shape-based gradient / RF magnitude: every decoded sample of the re-read event is within half a
   unit of the last significant digit of the amplitude column of the decoded sample of the original *)
Theorem getblock_wave_roundtrip rfr c amp sh w :
  is_sig_col c = true -> shape_printable sh -> decode_wave amp sh = Some w ->
  exists w', decode_wave (rcol c (wcol rfr c amp)) (read_shape (write_shape sh)) = Some w' /\
             Forall2 (fun a b => Qabs (b - a) <= (1 # 2) * p10 (1 - c_fmt c) * Qabs a) w w'.
Proof.
  intros SC P D. unfold decode_wave in *.
  destruct (decode_shape sh) as [y|] eqn:DS; [|discriminate]. cbn [option_map] in D. inversion D; subst w. clear D.
  destruct (decode_shape_reread sh y P DS) as [y' [DS' E]]. rewrite DS'. cbn [option_map].
  eexists. split; [reflexivity|].
  assert (CO : col_ok c = true) by (unfold col_ok; rewrite SC; rewrite orb_true_r; reflexivity).
  pose proof (col_roundtrip rfr c amp CO) as CS. unfold col_sim, col_target in CS.
  unfold is_sig_col in SC. apply andb_true_iff in SC. destruct SC as [SC _]. apply andb_true_iff in SC. destruct SC as [SC _].
  apply andb_true_iff in SC. destruct SC as [F P2]. apply negb_true_iff in P2. rewrite P2, F in CS. destruct CS as [CS _].
  set (amp' := rcol c (wcol rfr c amp)) in *.
  clear DS DS'. induction E as [|a b y y' Eab _ IH]; cbn [map]; [constructor|constructor; [|exact IH]].
  setoid_replace (amp' * b - amp * a) with ((amp' - amp) * a) by (rewrite Eab; ring).
  rewrite !Qabs_Qmult.
  setoid_replace ((1 # 2) * p10 (1 - c_fmt c) * (Qabs amp * Qabs a)) with ((1 # 2) * p10 (1 - c_fmt c) * Qabs amp * Qabs a) by ring.
  apply Qmult_le_compat_r; [exact CS|apply Qabs_nonneg].
Qed.

(* composed with the shape codec (C14): distance to the waveform amp * g the user handed to add_block, g the
   normalised waveform that compress_shape stored *)
Theorem getblock_vs_user_waveform rfr c amp id (g : list Q) :
  is_sig_col c = true ->
  let cs := compress false g in
  let sh := id :: inject_Z (Z.of_nat (num_samples cs)) :: cdata cs in
  shape_printable sh ->
  exists w', decode_wave (rcol c (wcol rfr c amp)) (read_shape (write_shape sh)) = Some w' /\
             Forall2 (fun gi b => Qabs (b - amp * gi) <=
                        Qabs amp * ((1 # 2) * p10 (1 - c_fmt c) * (Qabs gi + (5 # 100000000)) + (5 # 100000000))) g w'.
Proof.
  intros SC cs sh P.
  destruct (codec_roundtrip_lit false g) as [y [DY [_ CL]]].
  assert (DS : decode_shape sh = Some y).
  { unfold decode_shape, sh. cbn [shape_of_row]. rewrite Qfloor_Z, Nat2Z.id.
    assert (ETA : {| num_samples := num_samples cs; cdata := cdata cs |} = cs) by (unfold cs; destruct (compress false g); reflexivity).
    rewrite ETA. exact DY. }
  assert (DW : decode_wave amp sh = Some (map (Qmult amp) y)) by (unfold decode_wave; rewrite DS; reflexivity).
  destruct (getblock_wave_roundtrip rfr c amp sh _ SC P DW) as [w' [DW' B]].
  exists w'. split; [exact DW'|].
  clear DW DW' DS DY P. revert w' B. induction CL as [|gi yi g y Hc _ IH]; intros w' B; inversion B; subst; constructor.
  - match goal with H : Qabs (?b - amp * yi) <= _ |- _ => rename H into HB end.
    unfold close5e8 in Hc.
    assert (T : Qabs (y0 - amp * gi) <= Qabs (y0 - amp * yi) + Qabs amp * Qabs (yi - gi)).
    { setoid_replace (y0 - amp * gi) with ((y0 - amp * yi) + amp * (yi - gi)) by ring.
      eapply Qle_trans; [apply Qabs_triangle|]. rewrite Qabs_Qmult. apply Qle_refl. }
    assert (Y : Qabs yi <= Qabs gi + (5 # 100000000)).
    { setoid_replace yi with (gi + (yi - gi)) by ring. eapply Qle_trans; [apply Qabs_triangle|]. lra. }
    rewrite Qabs_Qmult in HB. pose proof (Qabs_nonneg amp) as NA. pose proof (p10_pos (1 - c_fmt c)) as PP.
    set (h := (1 # 2) * p10 (1 - c_fmt c)) in *. set (A := Qabs amp) in *.
    assert (HP : 0 <= h * A) by (unfold h; nra).
    assert (M1 : Qabs yi * (h * A) <= (Qabs gi + (5 # 100000000)) * (h * A)) by (apply Qmult_le_compat_r; assumption).
    assert (M2 : Qabs (yi - gi) * A <= (5 # 100000000) * A) by (apply Qmult_le_compat_r; assumption).
    nra.
  - apply IH. assumption.
Qed.

(* get_block, trapezoid: times on the microsecond grid come back exactly, the amplitude within half a unit of its
   last digit, hence also area and flat_area *)
Theorem getblock_trap_roundtrip rfr id a r f fl d :
  is_int (r * (1000000 # 1)) -> is_int (f * (1000000 # 1)) -> is_int (fl * (1000000 # 1)) -> is_int (d * (1000000 # 1)) ->
  cols_ok sec_trap = true ->
  match decode_trap (read_row sec_trap (write_row rfr sec_trap [id; a; r; f; fl; d])) with
  | Some t => Qabs (t_amp t - a) <= (1 # 2) * p10 (-5) * Qabs a /\
              t_rise t == r /\ t_flat t == f /\ t_fall t == fl /\ t_delay t == d /\
              Qabs (t_area t - a * (f + r / (2 # 1) + fl / (2 # 1))) <= (1 # 2) * p10 (-5) * Qabs (a * (f + r / (2 # 1) + fl / (2 # 1))) /\
              Qabs (t_flat_area t - a * f) <= (1 # 2) * p10 (-5) * Qabs (a * f)
  | None => False
  end.
Proof.
  intros IR IF IFL ID OK.
  pose proof (roundtrip_row rfr sec_trap OK [id; a; r; f; fl; d]) as RS.
  change sec_trap with
    [(1, 0%Z, 0%Z, 1); (1, 0%Z, 6%Z, 1); ((1000000 # 1), 1%Z, 0%Z, (1 # 1000000)); ((1000000 # 1), 1%Z, 0%Z, (1 # 1000000));
     ((1000000 # 1), 1%Z, 0%Z, (1 # 1000000)); ((1000000 # 1), 1%Z, 0%Z, (1 # 1000000))] in *.
  cbn [write_row read_row row_sim decode_trap] in *.
  destruct RS as [_ [[SA _] [[_ SR] [[_ SF] [[_ SFL] [[_ SD] _]]]]]].
  unfold col_target, c_pre, c_fmt, c_mult, c_scale in *. cbn [fst snd] in *.
  change (1 =? 2)%Z with false in *. change (0 =? 2)%Z with false in *.
  specialize (SR IR). specialize (SF IF). specialize (SFL IFL). specialize (SD ID).
  cbn [t_amp t_rise t_flat t_fall t_delay t_area t_flat_area].
  change (1 - 6)%Z with (-5)%Z in SA.
  set (a' := rcol _ (wcol rfr _ a)) in *.
  repeat split; try assumption.
  - rewrite SR, SF, SFL.
    setoid_replace (a' * (f + r / (2 # 1) + fl / (2 # 1)) - a * (f + r / (2 # 1) + fl / (2 # 1)))
      with ((a' - a) * (f + r / (2 # 1) + fl / (2 # 1))) by ring.
    rewrite !Qabs_Qmult.
    setoid_replace ((1 # 2) * p10 (-5) * (Qabs a * Qabs (f + r / (2 # 1) + fl / (2 # 1))))
      with ((1 # 2) * p10 (-5) * Qabs a * Qabs (f + r / (2 # 1) + fl / (2 # 1))) by ring.
    apply Qmult_le_compat_r; [exact SA|apply Qabs_nonneg].
  - rewrite SF. setoid_replace (a' * f - a * f) with ((a' - a) * f) by ring. rewrite !Qabs_Qmult.
    setoid_replace ((1 # 2) * p10 (-5) * (Qabs a * Qabs f)) with ((1 # 2) * p10 (-5) * Qabs a * Qabs f) by ring.
    apply Qmult_le_compat_r; [exact SA|apply Qabs_nonneg].
Qed.
