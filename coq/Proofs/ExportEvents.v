(* Proofs/ExportEvents.v — C08 stated on the EVENTS of the blocks (input level), not on computed pieces:
   an input-level connection condition on consecutive gradients implies EdgeConsistent of the pieces. *)
From Coq Require Import ZArith QArith Qabs Lia Lqa List Bool Arith Setoid Morphisms.
From PV Require Import Base.QUtil Base.PWL Gen.GenExport Model.Export Proofs.ExportProofs Proofs.ExportBlocks.
Import ListNotations.
Open Scope Q_scope.

(* ------------------------------------------------------------------------------------------ *)
(* input-level description of one gradient event *)

(* value at the first / last instant of the event *)
Definition g_first_val (raster : Q) (g : grad) : Q :=
  match g with
  | Trap _ _ _ _ _ => 0
  | Corners _ ts wf first _ => if is_arb raster ts then first else hd 0 wf
  end.
Definition g_last_val (raster : Q) (g : grad) : Q :=
  match g with
  | Trap _ _ _ _ _ => 0
  | Corners _ ts wf _ last => if is_arb raster ts then last else List.last wf 0
  end.

(* a timing-valid event inside a block of duration d (what the constructors and add_block accept):
   non-negative delay, ramps / corner spacings of at least eps (> eps where the code tests > eps), the event
   ends inside the block *)
Definition gwf (raster d : Q) (g : grad) : Prop :=
  match g with
  | Trap amp rise flat fall delay =>
      0 <= delay /\ eps < rise /\ eps < fall /\ (flat == 0 \/ eps < flat) /\ delay + rise + flat + fall <= d
  | Corners delay ts wf first last =>
      0 <= delay /\ spaced ts /\ length ts = length wf /\
      if is_arb raster ts
      then (1 <= length ts)%nat /\ eps <= hd 0 ts /\ eps <= raster / 2 /\ delay + (qlast ts + raster / 2) <= d
      else (2 <= length ts)%nat /\ 0 <= hd 0 ts /\ delay + qlast ts <= d
  end.

(* ------------------------------------------------------------------------------------------ *)
(* list helpers *)

Lemma map_fst_combine {A B} : forall (l : list A) (v : list B), length l = length v -> map fst (combine l v) = l.
Proof.
  induction l as [|x l IH]; intros [|y v] H; try reflexivity; try discriminate.
  cbn. f_equal. apply IH. cbn in H. lia.
Qed.

Lemma map_snd_combine {A B} : forall (l : list A) (v : list B), length l = length v -> map snd (combine l v) = v.
Proof.
  induction l as [|x l IH]; intros [|y v] H; try reflexivity; try discriminate.
  cbn. f_equal. apply IH. cbn in H. lia.
Qed.

Lemma last_map_ne {A B} (f : A -> B) : forall (l : list A) d d', l <> [] -> last (map f l) d' = f (last l d).
Proof.
  induction l as [|x l IH]; intros d d' Hn; [congruence|].
  destruct l as [|y l]; [reflexivity|].
  change (map f (x :: y :: l)) with (f x :: map f (y :: l)).
  rewrite !last_cons2. apply IH. discriminate.
Qed.

Lemma vlast_values (p : pwl) : vlast p = last (values p) 0.
Proof.
  unfold vlast, values. induction p as [|a p IH]; [reflexivity|].
  destruct p as [|b p]; [reflexivity|]. change (map snd (a :: b :: p)) with (snd a :: map snd (b :: p)).
  rewrite !last_cons2. exact IH.
Qed.

Lemma vfirst_values (p : pwl) : vfirst p = hd 0 (values p).
Proof. destruct p as [|[t v] p]; reflexivity. Qed.

Lemma spaced_map_shift c : forall l, spaced l -> spaced (map (fun x => c + x) l).
Proof.
  induction l as [|a l IH]; intro H; [exact I|]. destruct l as [|b l]; [exact I|].
  destruct H as [Hab H]. split; [lra|apply IH; exact H].
Qed.

Lemma hd_map {A B} (f : A -> B) l d d' : l <> [] -> hd d' (map f l) = f (hd d l).
Proof. destruct l; [congruence|reflexivity]. Qed.

(* facts about the corner list  combine (map (c + .) L) V  with equally long L, V *)
Lemma corner_piece_props c : forall (L V : list Q), length L = length V -> L <> [] -> spaced L ->
  let p := combine (map (fun x => c + x) L) V in
  spaced (times p) /\ length p = length L /\
  tfirst p = c + hd 0 L /\ tlast p = c + last L 0 /\ vfirst p = hd 0 V /\ vlast p = last V 0.
Proof.
  intros L V Hlen Hn Hs p.
  assert (Hl2 : length (map (fun x => c + x) L) = length V) by (rewrite map_length; exact Hlen).
  assert (Ht : times p = map (fun x => c + x) L) by (unfold p, times; apply map_fst_combine; exact Hl2).
  assert (Hv : values p = V) by (unfold p, values; apply map_snd_combine; exact Hl2).
  repeat split.
  - rewrite Ht. apply spaced_map_shift. exact Hs.
  - unfold p. rewrite combine_length, map_length, <- Hlen. apply Nat.min_id.
  - rewrite tfirst_times, Ht. apply (hd_map (fun x => c + x) L 0 0 Hn).
  - rewrite tlast_times, Ht. apply (last_map_ne (fun x => c + x) L 0 0 Hn).
  - rewrite vfirst_values, Hv. reflexivity.
  - rewrite vlast_values, Hv. reflexivity.
Qed.

Lemma spaced_cons a l : spaced l -> (match l with [] => True | b :: _ => a + eps <= b end) -> spaced (a :: l).
Proof. destruct l as [|b l]; intros H1 H2; [exact I|split; assumption]. Qed.

Lemma spaced_snoc : forall l b, l <> [] -> spaced l -> last l 0 + eps <= b -> spaced (l ++ [b]).
Proof.
  intros l b Hn Hs Hb. unfold spaced. apply all_consec_app; try assumption. exact I.
Qed.

Lemma last_cons2_ne {A} (a : A) (l : list A) (d : A) : l <> [] -> last (a :: l) d = last l d.
Proof. destruct l; [congruence|reflexivity]. Qed.

Lemma last_app_single {A} (l : list A) (x d : A) : last (l ++ [x]) d = x.
Proof. apply last_last. Qed.

(* ------------------------------------------------------------------------------------------ *)
(* the piece of a timing-valid event *)

Record piece_facts (raster start : Q) (g : grad) (p : pwl) : Prop := {
  pf_ok : piece_ok p;
  pf_tfirst : tfirst p == start + g_begin_r raster g;
  pf_tlast : tlast p == start + g_end_r raster g;
  pf_vfirst : vfirst p == g_first_val raster g;
  pf_vlast : vlast p == g_last_val raster g
}.

Lemma Qltb_true a b : a < b -> Qltb a b = true.
Proof. intro H. apply Qltb_lt. exact H. Qed.

Lemma piece_props raster start d g : gwf raster d g ->
  exists p, piece raster start g = Some p /\ piece_facts raster start g p.
Proof.
  pose proof eps_pos as He.
  destruct g as [amp rise flat fall delay|delay ts wf first last]; cbn [gwf]; intro H.
  - destruct H as [Hd [Hr [Hf [Hfl Hend]]]]. cbn [piece].
    destruct Hfl as [Hfl|Hfl].
    + (* triangle *)
      assert (E1 : Qltb eps (Qabs flat) = false).
      { apply Qltb_ge. rewrite Hfl. change (Qabs 0) with 0. lra. }
      assert (E2 : Qltb eps (Qabs rise) = true) by (apply Qltb_true; rewrite Qabs_pos; lra).
      assert (E3 : Qltb eps (Qabs fall) = true) by (apply Qltb_true; rewrite Qabs_pos; lra).
      rewrite E1, E2, E3. cbn [andb]. eexists. split; [reflexivity|].
      unfold cumsum3. cbn [combine].
      split; cbn [g_begin_r g_end_r g_first_val g_last_val tfirst tlast vfirst vlast last fst snd].
      * split; [|cbn; lia]. cbn [times map fst]. repeat split; lra.
      * ring.
      * rewrite Hfl. ring.
      * ring.
      * ring.
    + assert (E1 : Qltb eps (Qabs flat) = true) by (apply Qltb_true; rewrite Qabs_pos; lra).
      rewrite E1. eexists. split; [reflexivity|].
      unfold cumsum4. cbn [combine].
      split; cbn [g_begin_r g_end_r g_first_val g_last_val tfirst tlast vfirst vlast last fst snd].
      * split; [|cbn; lia]. cbn [times map fst]. repeat split; lra.
      * ring.
      * ring.
      * ring.
      * ring.
  - destruct H as [Hd [Hs [Hlen Hk]]]. cbn [piece g_begin_r g_end_r g_first_val g_last_val].
    destruct (is_arb raster ts) eqn:Ea.
    + destruct Hk as [Hn [Hh [Hr Hend]]].
      assert (Nts : ts <> []) by (intro E; subst ts; cbn in Hn; lia).
      set (L := [0] ++ ts ++ [qlast ts + raster / 2]).
      set (V := [first] ++ wf ++ [last]).
      assert (HL : length L = length V).
      { unfold L, V. rewrite !app_length. cbn [length]. rewrite Hlen. reflexivity. }
      assert (SL : spaced L).
      { unfold L. cbn [app]. apply spaced_cons.
        - apply spaced_snoc; [exact Nts|exact Hs|]. unfold qlast. lra.
        - destruct ts as [|x ts']; [congruence|]. cbn [app hd] in *. lra. }
      destruct (corner_piece_props (start + delay) L V HL ltac:(discriminate) SL) as [P1 [P2 [P3 [P4 [P5 P6]]]]].
      eexists. split; [reflexivity|]. fold L V.
      split; cbn [g_begin_r g_end_r g_first_val g_last_val]; rewrite ?Ea.
      * split; [exact P1|]. rewrite P2. unfold L. rewrite !app_length. cbn [length]. lia.
      * rewrite P3. unfold L. cbn [app hd]. ring.
      * rewrite P4. unfold L. change ([0] ++ ts ++ [qlast ts + raster / 2]) with (0 :: (ts ++ [qlast ts + raster / 2])).
        rewrite (last_cons2_ne 0 (ts ++ [qlast ts + raster / 2])) by (destruct ts; discriminate).
        rewrite last_app_single. ring.
      * rewrite P5. unfold V. reflexivity.
      * rewrite P6. unfold V. change ([first] ++ wf ++ [last]) with (first :: (wf ++ [last])).
        rewrite (last_cons2_ne first (wf ++ [last])) by (destruct wf; discriminate).
        rewrite last_app_single. reflexivity.
    + destruct Hk as [Hn [Hh Hend]].
      assert (Nts : ts <> []) by (intro E; subst ts; cbn in Hn; lia).
      destruct (corner_piece_props (start + delay) ts wf Hlen Nts Hs) as [P1 [P2 [P3 [P4 [P5 P6]]]]].
      eexists. split; [reflexivity|]. split; cbn [g_begin_r g_end_r g_first_val g_last_val]; rewrite ?Ea.
      * split; [exact P1|]. rewrite P2. exact Hn.
      * rewrite P3. ring.
      * rewrite P4. unfold qlast. ring.
      * rewrite P5. reflexivity.
      * rewrite P6. reflexivity.
Qed.

(* ------------------------------------------------------------------------------------------ *)
(* the input-level connection condition (the C05 rules, in relative times only) *)

(* [prev] = (time from the end of the previous gradient of the channel to the start of the current block,
   value at that end), None when the channel had no gradient yet.  A gradient beginning gb after the block
   start with value vb connects if it starts exactly where the previous one ended with the same value, or more
   than eps later with both values zero. *)
Definition link_in (prev : option (Q * Q)) (gb vb : Q) : Prop :=
  match prev with
  | None => True
  | Some (gap, v) => (gap + gb == 0 /\ v == vb) \/ (eps < gap + gb /\ v == 0 /\ vb == 0)
  end.

Definition bump (prev : option (Q * Q)) (d : Q) : option (Q * Q) :=
  match prev with None => None | Some (gap, v) => Some (gap + d, v) end.

Fixpoint Connected (raster : Q) (ch : nat) (prev : option (Q * Q)) (bs : list block) : Prop :=
  match bs with
  | [] => True
  | b :: r =>
    match bgrad b ch with
    | None => Connected raster ch (bump prev (b_dur b)) r
    | Some g => gwf raster (b_dur b) g /\
                link_in prev (g_begin_r raster g) (g_first_val raster g) /\
                Connected raster ch (Some (b_dur b - g_end_r raster g, g_last_val raster g)) r
    end
  end.

Lemma connected_chain raster ch : forall bs start prev, Connected raster ch prev bs ->
  Forall piece_ok (pieces raster start bs ch) /\
  (forall P gap v, prev = Some (gap, v) -> tlast P + gap == start -> vlast P == v ->
     chain P (pieces raster start bs ch)) /\
  match pieces raster start bs ch with [] => True | p :: r => chain p r end.
Proof.
  induction bs as [|b r IH]; intros start prev Hc.
  - cbn. split; [constructor|split; [intros; exact I|exact I]].
  - cbn [Connected] in Hc. cbn [pieces]. unfold block_piece.
    destruct (bgrad b ch) as [g|] eqn:Eg.
    + destruct Hc as [Hw [Hl Hc]].
      destruct (piece_props raster start (b_dur b) g Hw) as [p [Ep [Pok Ptf Ptl Pvf Pvl]]].
      rewrite Ep. cbn [app].
      destruct (IH (Qred (start + b_dur b)) _ Hc) as [F [C _]].
      assert (Cp : chain p (pieces raster (Qred (start + b_dur b)) r ch)).
      { apply (C p _ _ eq_refl); [rewrite Qred_correct, Ptl; ring|exact Pvl]. }
      split; [|split].
      * constructor; assumption.
      * intros P gap v -> HP Hv. cbn [chain]. split; [|exact Cp].
        cbn [link_in] in Hl. destruct Hl as [[H1 H2]|[H1 [H2 H3]]].
        -- left. split; [rewrite Ptf; lra|rewrite Pvf, Hv; exact H2].
        -- right. repeat split; [rewrite Ptf; lra|rewrite Hv; exact H2|rewrite Pvf; exact H3].
      * exact Cp.
    + cbn [app]. destruct (IH (Qred (start + b_dur b)) _ Hc) as [F [C C0]].
      split; [exact F|split; [|exact C0]].
      intros P gap v -> HP Hv. apply (C P (gap + b_dur b) v eq_refl); [rewrite Qred_correct; lra|exact Hv].
Qed.

Theorem connected_edge_consistent raster ch bs start :
  Connected raster ch None bs -> EdgeConsistent (pieces raster start bs ch).
Proof.
  intro Hc. destruct (connected_chain raster ch bs start None Hc) as [F [_ C]]. split; assumption.
Qed.

Lemma connected_gwf raster ch : forall bs prev, Connected raster ch prev bs ->
  forall b g, In b bs -> bgrad b ch = Some g -> gwf raster (b_dur b) g.
Proof.
  induction bs as [|b0 r IH]; intros prev Hc b g Hin Hg; [contradiction|].
  cbn [Connected] in Hc. destruct Hin as [E|Hin].
  - subst b0. rewrite Hg in Hc. apply Hc.
  - destruct (bgrad b0 ch); [destruct Hc as [_ [_ Hc]]|]; apply (IH _ Hc b g Hin Hg).
Qed.

Lemma gwf_grad_wf raster d g : gwf raster d g -> grad_wf g.
Proof.
  pose proof eps_pos. destruct g; cbn; [|trivial]. intros [_ [H1 [H2 [H3 _]]]]. split; [lra|split; [lra|exact H3]].
Qed.

(* the gradient of block i (counting from 0) on the channel is active at t *)
Definition active (raster : Q) (bs : list block) (ch : nat) (i : nat) (g : grad) (t : Q) : Prop :=
  exists b, nth_error bs i = Some b /\ bgrad b ch = Some g /\
            nth i (starts 0 bs) 0 + g_begin_r raster g <= t /\ t <= nth i (starts 0 bs) 0 + g_end_r raster g.

(* C08 on events: for every block list whose gradients are timing valid and connect (input-level condition),
   the export succeeds, is strictly increasing in time, equals the rendering of the active event at every time
   an event is active (shifted by its block start) and is zero where no event is active. *)
Theorem waveform_is_rendering_events raster bs ch : Connected raster ch None bs ->
  exists w, waveform raster bs ch = WOk w /\
    sorted_strict (times w) /\
    (forall i g t, active raster bs ch i g t -> eval w t == render raster g (t - nth i (starts 0 bs) 0)) /\
    (forall t, (forall i g, ~ active raster bs ch i g t) -> eval w t == 0).
Proof.
  intro Hc.
  destruct (waveform_is_rendering raster bs ch (connected_edge_consistent raster ch bs 0 Hc)) as [w [Hw [Hs [Hin Hout]]]].
  { intros b g Hb Hg. apply (gwf_grad_wf raster (b_dur b)). apply (connected_gwf raster ch bs None Hc b g Hb Hg). }
  exists w. split; [exact Hw|]. split; [exact Hs|]. split.
  - intros i g t [b [Hn [Hg [H1 H2]]]].
    assert (Hwf : gwf raster (b_dur b) g).
    { apply (connected_gwf raster ch bs None Hc b g); [eapply nth_error_In; exact Hn|exact Hg]. }
    destruct (piece_props raster (nth i (starts 0 bs) 0) (b_dur b) g Hwf) as [p [Ep [Pok Ptf Ptl _ _]]].
    apply (Hin i g p); [exists b; repeat split; assumption|].
    split; [rewrite Ptf; exact H1|rewrite Ptl; exact H2].
  - intros t Hno. apply Hout. intros i g p [b [Hn [Hg Ep]]] Hins.
    assert (Hwf : gwf raster (b_dur b) g).
    { apply (connected_gwf raster ch bs None Hc b g); [eapply nth_error_In; exact Hn|exact Hg]. }
    destruct (piece_props raster (nth i (starts 0 bs) 0) (b_dur b) g Hwf) as [p' [Ep' [Pok Ptf Ptl _ _]]].
    rewrite Ep in Ep'. injection Ep' as <-.
    apply (Hno i g). exists b. repeat split; try assumption.
    + destruct Hins as [H _]. rewrite Ptf in H. exact H.
    + destruct Hins as [_ H]. rewrite Ptl in H. exact H.
Qed.
