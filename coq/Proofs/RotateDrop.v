(* Proofs/RotateDrop.v — rotate (Model/GradOps.v) for ALL inputs: the returned pair differs from the
   exact rotation by at most the budget of the dropped components (+ the error of add_gradients).
   Arbitrary shapes are included: the magnitude test of the code looks at the samples only, the
   rendering also contains the edge values first/last, so a dropped arbitrary component is bounded by
   max(threshold, |first|, |last|) instead of the threshold. *)
From Coq Require Import ZArith QArith Qround Qabs Lia Lqa List Bool Setoid Morphisms.
From PV Require Import Base.QUtil Base.Round Base.PWL Gen.GenGradOps Model.GradOps
                       Proofs.GradOpsProofs Proofs.RotateProofs.
Import ListNotations.
Open Scope Q_scope.

(* ---- the true peak of one event ------------------------------------------------------------------ *)
Definition gedge (r : Q) (g : grad) : Q :=
  match g with
  | GTrap _ => 0
  | GExt e => if is_arb r (e_tt e) then Qmax (Qabs (e_first e)) (Qabs (e_last e)) else 0
  end.

Lemma gedge_nonneg r g : 0 <= gedge r g.
Proof.
  destruct g as [t|e]; cbn [gedge]; [lra|]. destruct (is_arb r (e_tt e)); [|lra].
  eapply Qle_trans; [apply Qabs_nonneg|apply Qmax_ub_l].
Qed.

Lemma max_abs_app p : forall q, max_abs (p ++ q) <= Qmax (max_abs p) (max_abs q).
Proof.
  induction p as [|[t v] p IH]; intro q; cbn [app max_abs].
  - apply Qmax_ub_r.
  - apply Qmax_le_iff. split.
    + eapply Qle_trans; [apply Qmax_ub_l|apply Qmax_ub_l].
    + eapply Qle_trans; [apply IH|]. apply Qmax_le_iff. split.
      * eapply Qle_trans; [apply Qmax_ub_r|apply Qmax_ub_l].
      * apply Qmax_ub_r.
Qed.

Lemma gmag_nonneg g : 0 <= gmag g.
Proof. destruct g as [t|e]; cbn [gmag]; [apply Qabs_nonneg|apply lmax_abs_nonneg]. Qed.

(* |g(t)| <= max(magnitude seen by rotate, edge values) for EVERY kind of gradient *)
Theorem peak_bound r g t : Qabs (gev r g t) <= Qmax (gmag g) (gedge r g).
Proof.
  destruct g as [tr|e].
  - eapply Qle_trans; [apply (mag_bound r (GTrap tr) t I)|apply Qmax_ub_l].
  - destruct (is_arb r (e_tt e)) eqn:Ea.
    + unfold gev. eapply Qle_trans; [apply amp_bound|]. cbn [to_pwl gmag gedge]. rewrite Ea.
      rewrite max_abs_shift. unfold egrad_corners. rewrite Ea. cbn [max_abs].
      apply Qmax_le_iff. split.
      * eapply Qle_trans; [apply Qmax_ub_l|apply Qmax_ub_r].
      * eapply Qle_trans; [apply max_abs_app|]. apply Qmax_le_iff. split.
        -- eapply Qle_trans; [apply max_abs_combine|apply Qmax_ub_l].
        -- cbn [max_abs]. apply Qmax_le_iff. split.
           ++ eapply Qle_trans; [apply Qmax_ub_r|apply Qmax_ub_r].
           ++ eapply Qle_trans; [apply gmag_nonneg with (g := GExt e)|apply Qmax_ub_l].
    + eapply Qle_trans; [apply (mag_bound r (GExt e) t Ea)|apply Qmax_ub_l].
Qed.

(* ---- budget of the first elimination ---------------------------------------------------------------- *)
Definition dropped (thr : Q) (l : list grad) : list grad := filter (fun g => Qltb (gmag g) thr) l.
Definition budget (r thr : Q) (l : list grad) : Q :=
  fold_right (fun g acc => Qmax thr (gedge r g) + acc) 0 (dropped thr l).

Lemma budget_nonneg r thr l : 0 <= thr -> 0 <= budget r thr l.
Proof.
  intro Ht. unfold budget. induction (dropped thr l) as [|g d IH]; cbn [fold_right]; [lra|].
  pose proof (Qmax_ub_l thr (gedge r g)). lra.
Qed.

Lemma Qmax_mono_l a b c : a <= b -> Qmax a c <= Qmax b c.
Proof.
  intro H. apply Qmax_le_iff. split; [eapply Qle_trans; [exact H|apply Qmax_ub_l]|apply Qmax_ub_r].
Qed.

Theorem drop_bound_gen r thr l t :
  Qabs (gsum r l t - gsum r (drop_small thr l) t) <= budget r thr l.
Proof.
  unfold budget, dropped, drop_small. induction l as [|g l IH]; cbn [filter gsum fold_right].
  - setoid_replace (0 - 0) with 0 by ring. cbn. lra.
  - destruct (Qltb (gmag g) thr) eqn:E; cbn [negb gsum fold_right].
    + apply Qltb_lt in E.
      assert (Hg : Qabs (gev r g t) <= Qmax thr (gedge r g)).
      { eapply Qle_trans; [apply peak_bound|]. apply Qmax_mono_l. lra. }
      apply Qabs_Qle_condition in IH. apply Qabs_Qle_condition in Hg. apply Qabs_Qle_condition. lra.
    + apply Qabs_Qle_condition in IH. apply Qabs_Qle_condition. lra.
Qed.

(* when no edge value exceeds the threshold the budget is (number of dropped components) * threshold *)
Lemma budget_count r thr l : 0 <= thr -> (forall g, In g l -> gedge r g <= thr) ->
  budget r thr l <= inject_Z (Z.of_nat (length (dropped thr l))) * thr.
Proof.
  intros Ht H. unfold budget.
  assert (H' : forall g, In g (dropped thr l) -> gedge r g <= thr)
    by (intros g Hg; apply H; unfold dropped in Hg; apply filter_In in Hg; tauto).
  clear H. induction (dropped thr l) as [|g d IH]; cbn [fold_right length]; [cbn [Z.of_nat]; change (inject_Z 0) with 0; lra|].
  rewrite Nat2Z.inj_succ, <- Z.add_1_r, inject_Z_plus. change (inject_Z 1) with 1.
  assert (Hg : Qmax thr (gedge r g) <= thr) by (apply Qmax_le_iff; split; [lra|apply H'; left; reflexivity]).
  assert (IH' := IH (fun x Hx => H' x (or_intror Hx))). lra.
Qed.

(* ---- the parts of rotate ---------------------------------------------------------------------------- *)
Definition rot_parts (c s : Q) (a0 a1 : nat) (evs : list rev) : list grad * list grad * Q :=
  let g1 := grads_on a0 evs in
  let g2 := grads_on a1 evs in
  (map (fun g => scale_grad g c) g1 ++ map (fun g => set_ch (scale_grad g (rot_cross2_sign * s)) a0) g2,
   map (fun g => set_ch (scale_grad g (rot_cross1_sign * s)) a1) g1 ++ map (fun g => scale_grad g c) g2,
   rot_elim_factor * lmax (map gmag (g1 ++ g2))).

Lemma rotate_pre_parts c s axis evs p a0 a1 :
  axes_of axis = Some (a0, a1) -> rotate_pre c s axis evs = OK p ->
  a0 <> axis /\ a1 <> axis /\ a0 <> a1 /\
  let '(R1, R2, thr) := rot_parts c s a0 a1 evs in
  p = mkRotPre (filter (is_bypass axis a0 a1) evs) (drop_small thr R1) (drop_small thr R2) thr.
Proof.
  intros Hax Ep. unfold rotate_pre in Ep.
  destruct (negb (existsb (Nat.eqb axis) rot_axes)) eqn:Eax; [discriminate|].
  apply negb_false_iff in Eax.
  destruct (axes_of_spec axis a0 a1 Hax Eax) as (N0 & N1 & N01).
  unfold axes_of in Hax.
  destruct (remove_first axis rot_axes) as [|x0 [|x1 [|x2 l]]] eqn:Erm; try discriminate.
  inversion Hax; subst x0 x1. clear Hax.
  destruct (classify axis a0 a1 evs) as [[byp g1] g2] eqn:Ec.
  destruct (classify_spec axis a0 a1 N0 N1 N01 evs byp g1 g2 Ec) as (Hb & H1 & H2 & _ & _).
  unfold rot_cross1_target, rot_cross2_target in Ep. cbn [nth] in Ep.
  repeat split; try assumption. unfold rot_parts. rewrite <- H1, <- H2, <- Hb.
  inversion Ep. reflexivity.
Qed.

Lemma rot_parts_sums r c s a0 a1 evs t :
  let '(R1, R2, _) := rot_parts c s a0 a1 evs in
  gsum r R1 t == c * render r a0 evs t - s * render r a1 evs t /\
  gsum r R2 t == s * render r a0 evs t + c * render r a1 evs t.
Proof.
  unfold rot_parts. split.
  - rewrite gsum_app, gsum_scale, gsum_scale_set. unfold render, rot_cross2_sign. ring.
  - rewrite gsum_app, gsum_scale, gsum_scale_set. unfold render, rot_cross1_sign. ring.
Qed.

Lemma rot_parts_channels c s a0 a1 evs :
  let '(R1, R2, _) := rot_parts c s a0 a1 evs in
  (forall g, In g R1 -> g_ch g = a0) /\ (forall g, In g R2 -> g_ch g = a1).
Proof.
  unfold rot_parts. split; intros g Hg; apply in_app_or in Hg; destruct Hg as [Hg|Hg];
    apply in_map_iff in Hg; destruct Hg as [x [<- Hx]]; apply in_grads_on in Hx; destruct Hx as [_ Hx];
    rewrite ?g_ch_set_ch, ?g_ch_scale; try reflexivity; exact Hx.
Qed.

(* the per-channel summation of rotate_post *)
Definition addl (add : list grad -> res grad) (l : list grad) : res (list grad) :=
  match l with [] => OK [] | _ => match add l with OK g => OK [g] | Err e => Err e end end.

Lemma rotate_post_addl add p :
  rotate_post add p =
  match addl add (rp_rot1 p) with
  | Err e => Err e
  | OK s1 => match addl add (rp_rot2 p) with
             | Err e => Err e
             | OK s2 => OK (rp_bypass p ++ map RG (drop_small (rp_thr p) (s1 ++ s2)))
             end
  end.
Proof. reflexivity. Qed.

(* budget of the second elimination: the per-channel sum itself may be dropped *)
Definition stage2 (r thr : Q) (add : list grad -> res grad) (K : list grad) : Q :=
  match K with
  | [] => 0
  | _ => match add K with
         | OK sg => if Qltb (gmag sg) thr then Qmax thr (gedge r sg) else 0
         | Err _ => 0
         end
  end.

Definition chan_budget (r thr : Q) (add : list grad -> res grad) (R : list grad) : Q :=
  budget r thr R + stage2 r thr add (drop_small thr R).

Section RotateDrop.
Variable r : Q.
Variable add : list grad -> res grad.
Variable P : list grad -> Prop.      (* the lists on which add_gradients is known to be the sum ... *)
Variable e : Q.                      (* ... up to this error *)
Hypothesis He : 0 <= e.
Hypothesis AddApprox : forall l g, l <> [] -> P l -> add l = OK g ->
  (forall t, Qabs (gev r g t - gsum r l t) <= e) /\ g_ch g = g_ch (hd g l).

Lemma addl_chan thr a K s1 t :
  addl add K = OK s1 -> (forall g, In g K -> g_ch g = a) -> (K <> [] -> P K) ->
  (forall g, In g s1 -> g_ch g = a) /\
  Qabs (gsum r (drop_small thr s1) t - gsum r K t) <= stage2 r thr add K + e.
Proof.
  intros H Hch HP. unfold addl in H. destruct K as [|k0 K'].
  - inversion H; subst s1. split; [intros g []|]. cbn [drop_small filter gsum stage2].
    setoid_replace (0 - 0) with 0 by ring. cbn [Qabs Z.abs]. lra.
  - destruct (add (k0 :: K')) as [sg|] eqn:Ea; [|discriminate]. inversion H; subst s1.
    destruct (AddApprox (k0 :: K') sg ltac:(discriminate) (HP ltac:(discriminate)) Ea) as [V C].
    split.
    + intros g [<-|[]]. rewrite C. cbn [hd]. apply Hch. left. reflexivity.
    + unfold stage2. rewrite Ea. unfold drop_small. cbn [filter].
      specialize (V t). apply Qabs_Qle_condition in V. set (GK := gsum r (k0 :: K') t) in *.
      destruct (Qltb (gmag sg) thr) eqn:E; cbn [negb gsum].
      * apply Qltb_lt in E.
        assert (Hg : Qabs (gev r sg t) <= Qmax thr (gedge r sg)).
        { eapply Qle_trans; [apply peak_bound|]. apply Qmax_mono_l. lra. }
        apply Qabs_Qle_condition in Hg. apply Qabs_Qle_condition. lra.
      * apply Qabs_Qle_condition. lra.
Qed.

(* rotate_matrix_up_to_drop: for ALL event lists, all c, s, all axes *)
Theorem rotate_matrix_up_to_drop c s axis evs out a0 a1 :
  axes_of axis = Some (a0, a1) -> rotate add c s axis evs = OK out ->
  let '(R1, R2, thr) := rot_parts c s a0 a1 evs in
  (drop_small thr R1 <> [] -> P (drop_small thr R1)) ->
  (drop_small thr R2 <> [] -> P (drop_small thr R2)) ->
  forall t,
    Qabs (render r a0 out t - (c * render r a0 evs t - s * render r a1 evs t)) <= chan_budget r thr add R1 + e /\
    Qabs (render r a1 out t - (s * render r a0 evs t + c * render r a1 evs t)) <= chan_budget r thr add R2 + e.
Proof.
  intros Hax H. unfold rotate in H.
  destruct (rotate_pre c s axis evs) as [p|] eqn:Ep; [|discriminate].
  destruct (rotate_pre_parts c s axis evs p a0 a1 Hax Ep) as (N0 & N1 & N01 & Hp).
  pose proof (rot_parts_channels c s a0 a1 evs) as Hch.
  destruct (rot_parts c s a0 a1 evs) as [[R1 R2] thr] eqn:Erp. destruct Hch as [Hc1 Hc2].
  intros P1 P2 t.
  pose proof (rot_parts_sums r c s a0 a1 evs t) as Hs. rewrite Erp in Hs. destruct Hs as [S1 S2].
  subst p. rewrite rotate_post_addl in H. cbn [rp_rot1 rp_rot2 rp_bypass rp_thr] in H.
  destruct (addl add (drop_small thr R1)) as [s1|] eqn:A1; [|discriminate].
  destruct (addl add (drop_small thr R2)) as [s2|] eqn:A2; [|discriminate].
  inversion H; subst out. clear H.
  assert (K1ch : forall g, In g (drop_small thr R1) -> g_ch g = a0)
    by (intros g Hg; apply Hc1; unfold drop_small in Hg; apply filter_In in Hg; tauto).
  assert (K2ch : forall g, In g (drop_small thr R2) -> g_ch g = a1)
    by (intros g Hg; apply Hc2; unfold drop_small in Hg; apply filter_In in Hg; tauto).
  destruct (addl_chan thr a0 _ s1 t A1 K1ch P1) as [C1 B1].
  destruct (addl_chan thr a1 _ s2 t A2 K2ch P2) as [C2 B2].
  assert (D1ch : forall g, In g (drop_small thr s1) -> g_ch g = a0)
    by (intros g Hg; apply C1; unfold drop_small in Hg; apply filter_In in Hg; tauto).
  assert (D2ch : forall g, In g (drop_small thr s2) -> g_ch g = a1)
    by (intros g Hg; apply C2; unfold drop_small in Hg; apply filter_In in Hg; tauto).
  assert (Eds : drop_small thr (s1 ++ s2) = drop_small thr s1 ++ drop_small thr s2)
    by (unfold drop_small; apply filter_app).
  assert (R0 : render r a0 (filter (is_bypass axis a0 a1) evs ++ map RG (drop_small thr (s1 ++ s2))) t
               == gsum r (drop_small thr s1) t).
  { unfold render. rewrite grads_on_app, (grads_on_bypass_rot axis a0 a1 a0 evs N0 (or_introl eq_refl)).
    cbn [app]. rewrite Eds, map_app, grads_on_app.
    rewrite (grads_on_map_RG_same a0 _ D1ch).
    rewrite (grads_on_map_RG_other a0 (drop_small thr s2)) by (intros g Hg; rewrite (D2ch g Hg); congruence).
    rewrite app_nil_r. reflexivity. }
  assert (R1' : render r a1 (filter (is_bypass axis a0 a1) evs ++ map RG (drop_small thr (s1 ++ s2))) t
               == gsum r (drop_small thr s2) t).
  { unfold render. rewrite grads_on_app, (grads_on_bypass_rot axis a0 a1 a1 evs N1 (or_intror eq_refl)).
    cbn [app]. rewrite Eds, map_app, grads_on_app.
    rewrite (grads_on_map_RG_other a1 (drop_small thr s1)) by (intros g Hg; rewrite (D1ch g Hg); congruence).
    rewrite (grads_on_map_RG_same a1 _ D2ch). reflexivity. }
  pose proof (drop_bound_gen r thr R1 t) as G1. pose proof (drop_bound_gen r thr R2 t) as G2.
  unfold chan_budget.
  apply Qabs_Qle_condition in B1. apply Qabs_Qle_condition in B2.
  apply Qabs_Qle_condition in G1. apply Qabs_Qle_condition in G2.
  split; apply Qabs_Qle_condition; [rewrite R0, <- S1|rewrite R1', <- S2]; lra.
Qed.

End RotateDrop.

(* ---- counting form: (number of dropped components) * threshold ---------------------------------------- *)
Definition stage2_count (thr : Q) (add : list grad -> res grad) (K : list grad) : nat :=
  match K with
  | [] => 0
  | _ => match add K with OK sg => if Qltb (gmag sg) thr then 1 else 0 | Err _ => 0 end
  end.
Definition n_dropped (thr : Q) (add : list grad -> res grad) (R : list grad) : nat :=
  length (dropped thr R) + stage2_count thr add (drop_small thr R).

Lemma lmax_gmag_nonneg l : 0 <= lmax (map gmag l).
Proof.
  induction l as [|g l IH]; cbn [map lmax]; [lra|]. eapply Qle_trans; [exact IH|apply Qmax_ub_r].
Qed.

Lemma rot_parts_thr_nonneg c s a0 a1 evs : 0 <= snd (rot_parts c s a0 a1 evs).
Proof.
  unfold rot_parts. cbn [snd].
  pose proof (lmax_gmag_nonneg (grads_on a0 evs ++ grads_on a1 evs)) as H.
  assert (0 <= rot_elim_factor) by (unfold rot_elim_factor; lra).
  apply Qmult_le_0_compat; assumption.
Qed.

(* when no edge value (first/last of an arbitrary shape) exceeds the threshold — in particular when
   there is no arbitrary shape among the components and sums — every dropped component costs at most
   the threshold *)
Theorem chan_budget_count r thr add R : 0 <= thr ->
  (forall g, In g R -> gedge r g <= thr) ->
  (forall sg, add (drop_small thr R) = OK sg -> gedge r sg <= thr) ->
  chan_budget r thr add R <= inject_Z (Z.of_nat (n_dropped thr add R)) * thr.
Proof.
  intros Ht HR Hs. unfold chan_budget, n_dropped.
  rewrite Nat2Z.inj_add, inject_Z_plus.
  pose proof (budget_count r thr R Ht HR) as B.
  assert (S2 : stage2 r thr add (drop_small thr R)
               <= inject_Z (Z.of_nat (stage2_count thr add (drop_small thr R))) * thr).
  { unfold stage2, stage2_count. destruct (drop_small thr R) as [|k K];
      [cbv beta iota; change (inject_Z (Z.of_nat 0)) with 0; lra|].
    destruct (add (k :: K)) as [sg|] eqn:Ea; [|cbv beta iota; change (inject_Z (Z.of_nat 0)) with 0; lra].
    destruct (Qltb (gmag sg) thr); [|cbv beta iota; change (inject_Z (Z.of_nat 0)) with 0; lra].
    change (inject_Z (Z.of_nat 1)) with 1.
    assert (Qmax thr (gedge r sg) <= thr) by (apply Qmax_le_iff; split; [lra|apply Hs; reflexivity]). lra. }
  lra.
Qed.

Lemma gedge_not_arb r g : not_arb r g -> gedge r g = 0.
Proof. destruct g as [t|e]; cbn [not_arb gedge]; [reflexivity|]. intro H. rewrite H. reflexivity. Qed.
