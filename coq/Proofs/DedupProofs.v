(* Proofs/DedupProofs.v — EventLibrary.remove_duplicates (Model/EventLib.v) for an arbitrary key type
   and an arbitrary rounding function, then Sequence.remove_duplicates (dedup_core of Model/Seq.v),
   then the instantiation with the digit tuples read from the source (Model/Dedup.v). *)
From Coq Require Import List Bool ZArith QArith Qcanon Qabs Lia Lqa Sorted Permutation.
From RecordUpdate Require Import RecordSet.
From PV Require Import Base.AList Base.QUtil Base.Round Gen.GenDedup Model.EventLib Model.Seq Model.Dedup
     Proofs.SeqSpec Proofs.SeqCache Proofs.SeqCont Proofs.RoundProofs.
Import ListNotations RecordSetNotations.
Open Scope Z_scope.

(* ================================================================================================ *)
(* 0. association lists keyed by Z                                                                   *)
(* ================================================================================================ *)
Lemma agetZ_In_nodup {V} (l : list (Z * V)) k v :
  NoDup (akeys l) -> In (k, v) l -> aget Z.eqb l k = Some v.
Proof.
  induction l as [|[k' v'] r IH]; cbn; intros N H; [contradiction|].
  inversion N as [|? ? N1 N2]; subst.
  destruct H as [H|H].
  - inversion H. subst. rewrite Z.eqb_refl. reflexivity.
  - destruct (k' =? k) eqn:E.
    + apply Z.eqb_eq in E. subst. exfalso. apply N1. apply (in_map fst) in H. exact H.
    + apply IH; assumption.
Qed.

Lemma asetZ_new {V} (l : list (Z * V)) k v : aget Z.eqb l k = None -> aset Z.eqb l k v = l ++ [(k, v)].
Proof.
  induction l as [|[k' v'] r IH]; cbn; intro H; [reflexivity|].
  destruct (k' =? k); [discriminate|]. rewrite IH by exact H. reflexivity.
Qed.

Lemma agetZ_app {V} (a b : list (Z * V)) k :
  aget Z.eqb (a ++ b) k = match aget Z.eqb a k with Some v => Some v | None => aget Z.eqb b k end.
Proof.
  induction a as [|[k' v'] r IH]; cbn; [reflexivity|]. destruct (k' =? k); [reflexivity|exact IH].
Qed.

Lemma akeys_asetZ_in {V} (l : list (Z * V)) k v : aget Z.eqb l k <> None -> akeys (aset Z.eqb l k v) = akeys l.
Proof. apply (akeys_aset_in Z.eqb). Qed.

(* ---- insertion sort by id -------------------------------------------------------------------------- *)
Lemma insert_sorted_perm {V} (x : Z * V) l : Permutation (insert_sorted x l) (x :: l).
Proof.
  induction l as [|y r IH]; cbn; [apply Permutation_refl|].
  destruct (fst x <=? fst y); [apply Permutation_refl|].
  eapply Permutation_trans; [apply perm_skip; exact IH|apply perm_swap].
Qed.

Lemma sort_by_id_perm {V} (l : list (Z * V)) : Permutation (sort_by_id l) l.
Proof.
  induction l as [|x r IH]; cbn; [apply Permutation_refl|].
  eapply Permutation_trans; [apply insert_sorted_perm|apply perm_skip; exact IH].
Qed.

Lemma insert_sorted_sorted {V} (x : Z * V) l :
  StronglySorted Z.le (map fst l) -> StronglySorted Z.le (map fst (insert_sorted x l)).
Proof.
  induction l as [|y r IH]; cbn; intro S; [constructor; constructor|].
  inversion S as [|? ? S1 S2]; subst.
  destruct (fst x <=? fst y) eqn:E.
  - apply Z.leb_le in E. cbn. constructor; [exact S|]. constructor; [exact E|].
    rewrite Forall_forall in S2 |- *. intros z Hz. specialize (S2 z Hz). lia.
  - apply Z.leb_gt in E. cbn. constructor; [apply IH; exact S1|].
    rewrite Forall_forall in S2 |- *. intros z Hz.
    assert (P : In z (map fst (x :: r))).
    { eapply Permutation_in; [apply Permutation_map; apply insert_sorted_perm|exact Hz]. }
    cbn in P. destruct P as [P|P]; [lia|apply S2; exact P].
Qed.

Lemma sort_by_id_sorted {V} (l : list (Z * V)) : StronglySorted Z.le (map fst (sort_by_id l)).
Proof.
  induction l as [|x r IH]; cbn; [constructor|]. apply insert_sorted_sorted. exact IH.
Qed.

Lemma sorted_le_nodup_lt (l : list Z) : StronglySorted Z.le l -> NoDup l -> StronglySorted Z.lt l.
Proof.
  induction 1 as [|x r S IH F]; intro N; [constructor|].
  inversion N as [|? ? N1 N2]; subst. constructor; [apply IH; exact N2|].
  rewrite Forall_forall in F |- *. intros z Hz. specialize (F z Hz).
  assert (z <> x) by (intro; subst; contradiction). lia.
Qed.

Lemma sort_by_id_ssorted {V} (l : list (Z * V)) :
  NoDup (akeys l) -> StronglySorted Z.lt (map fst (sort_by_id l)).
Proof.
  intro N. apply sorted_le_nodup_lt; [apply sort_by_id_sorted|].
  eapply Permutation_NoDup; [|exact N]. apply Permutation_sym. apply Permutation_map. apply sort_by_id_perm.
Qed.

Lemma ssorted_app_lt (a : list Z) x b : StronglySorted Z.lt (a ++ x :: b) -> forall y, In y a -> y < x.
Proof.
  induction a as [|z r IH]; cbn; intros S y Hy; [contradiction|].
  inversion S as [|? ? S1 S2]; subst. destruct Hy as [->|Hy].
  - rewrite Forall_forall in S2. apply S2. apply in_or_app. right. left. reflexivity.
  - apply IH; assumption.
Qed.

Lemma sort_sorted_id {V} (l : list (Z * V)) : StronglySorted Z.le (map fst l) -> sort_by_id l = l.
Proof.
  induction l as [|x r IH]; intro S; [reflexivity|].
  change (sort_by_id (x :: r)) with (insert_sorted x (sort_by_id r)).
  cbn [map] in S. inversion S as [|? ? S1 S2]; subst. rewrite IH by exact S1.
  destruct r as [|y r']; cbn [insert_sorted]; [reflexivity|]. cbn [map] in S2.
  inversion S2 as [|? ? L _]; subst. apply Z.leb_le in L. rewrite L. reflexivity.
Qed.

Lemma ssorted_nth_lt {V} (F : list (Z * V)) : StronglySorted Z.lt (map fst F) ->
  forall a b x y, nth_error F a = Some x -> nth_error F b = Some y -> fst x < fst y -> (a < b)%nat.
Proof.
  induction F as [|p r IH]; intros S a b x y Ha Hb L; [destruct a; discriminate|].
  cbn in S. inversion S as [|? ? S1 S2]; subst. rewrite Forall_forall in S2.
  destruct a as [|a], b as [|b]; cbn in Ha, Hb.
  - inversion Ha. inversion Hb. subst. lia.
  - lia.
  - inversion Hb. subst. apply nth_error_In in Ha. apply (in_map fst) in Ha. specialize (S2 _ Ha). lia.
  - apply -> Nat.succ_lt_mono. eapply IH; eassumption.
Qed.

(* ================================================================================================ *)
(* 1. canonical libraries: ids 1..n in order, keymap the mirror image, tags of the non-empty types    *)
(* ================================================================================================ *)
Fixpoint enum {A} (s : Z) (ks : list A) : list (Z * A) :=
  match ks with [] => [] | k :: r => (s, k) :: enum (s + 1) r end.
Fixpoint enumr {A} (s : Z) (ks : list A) : list (A * Z) :=
  match ks with [] => [] | k :: r => (k, s) :: enumr (s + 1) r end.
Definition nz (p : Z * Z) : bool := negb (snd p =? 0).
(* how a stored tag is seen: the empty string (0) is never stored *)
Definition tag_view (o : option Z) : option Z :=
  match o with Some t => if t =? 0 then None else Some t | None => None end.

Lemma enum_app {A} (a b : list A) : forall s, enum s (a ++ b) = enum s a ++ enum (s + Z.of_nat (length a)) b.
Proof.
  induction a as [|x r IH]; intro s; cbn [enum app length].
  - rewrite Z.add_0_r. reflexivity.
  - rewrite IH. do 3 f_equal. lia.
Qed.

Lemma enumr_app {A} (a b : list A) : forall s, enumr s (a ++ b) = enumr s a ++ enumr (s + Z.of_nat (length a)) b.
Proof.
  induction a as [|x r IH]; intro s; cbn [enumr app length].
  - rewrite Z.add_0_r. reflexivity.
  - rewrite IH. do 3 f_equal. lia.
Qed.

Lemma akeys_enum {A} (ks : list A) : forall s, akeys (enum s ks) = map (fun i => s + Z.of_nat i) (seq 0 (length ks)).
Proof.
  induction ks as [|k r IH]; intro s; cbn [enum akeys map length seq fst]; [reflexivity|].
  change (map fst (enum (s + 1) r)) with (akeys (enum (s + 1) r)). rewrite IH.
  rewrite <- seq_shift. rewrite map_map. f_equal; [cbn; lia|]. apply map_ext. intro i. lia.
Qed.

Lemma aget_enum {A} (ks : list A) : forall s j,
  aget Z.eqb (enum s ks) j = if s <=? j then nth_error ks (Z.to_nat (j - s)) else None.
Proof.
  induction ks as [|k r IH]; intros s j; cbn [enum aget].
  - destruct (s <=? j); [|reflexivity]. destruct (Z.to_nat (j - s)); reflexivity.
  - destruct (s =? j) eqn:E.
    + apply Z.eqb_eq in E. subst. rewrite Z.leb_refl. rewrite Z.sub_diag. reflexivity.
    + apply Z.eqb_neq in E. rewrite IH. destruct (s <=? j) eqn:L.
      * apply Z.leb_le in L. assert (L' : s + 1 <=? j = true) by (apply Z.leb_le; lia). rewrite L'.
        replace (Z.to_nat (j - s)) with (S (Z.to_nat (j - (s + 1)))) by lia. reflexivity.
      * apply Z.leb_gt in L. assert (L' : s + 1 <=? j = false) by (apply Z.leb_gt; lia). rewrite L'. reflexivity.
Qed.

Lemma aget_enum_idx {A} (ks : list A) s idx : aget Z.eqb (enum s ks) (s + Z.of_nat idx) = nth_error ks idx.
Proof.
  rewrite aget_enum. assert (L : s <=? s + Z.of_nat idx = true) by (apply Z.leb_le; lia). rewrite L.
  f_equal. lia.
Qed.

Lemma aget_enum_Some {A} (ks : list A) s j k :
  aget Z.eqb (enum s ks) j = Some k -> exists idx, j = s + Z.of_nat idx /\ nth_error ks idx = Some k.
Proof.
  rewrite aget_enum. destruct (s <=? j) eqn:L; [|discriminate]. apply Z.leb_le in L.
  intro H. exists (Z.to_nat (j - s)). split; [lia|exact H].
Qed.

Section Enumr.
Context {K : Type}.
Variable keqb : K -> K -> bool.
Hypothesis keqb_spec : forall a b, keqb a b = true <-> a = b.

Lemma aget_enumr_None (ks : list K) : forall s k, aget keqb (enumr s ks) k = None <-> ~ In k ks.
Proof.
  induction ks as [|x r IH]; intros s k; cbn [enumr aget In]; [tauto|].
  destruct (keqb x k) eqn:E.
  - apply keqb_spec in E. split; [discriminate|]. intro H. exfalso. apply H. left. exact E.
  - rewrite IH. split; [|tauto]. intros H [H1|H1]; [|tauto].
    subst. rewrite (proj2 (keqb_spec k k) eq_refl) in E. discriminate.
Qed.

Lemma aget_enumr_Some (ks : list K) : forall s k j,
  aget keqb (enumr s ks) k = Some j -> exists idx, j = s + Z.of_nat idx /\ nth_error ks idx = Some k.
Proof.
  induction ks as [|x r IH]; intros s k j; cbn [enumr aget]; [discriminate|].
  destruct (keqb x k) eqn:E.
  - apply keqb_spec in E. intro H. inversion H. subst. exists 0%nat. split; [lia|reflexivity].
  - intro H. apply IH in H. destruct H as (idx & -> & H). exists (S idx). split; [lia|exact H].
Qed.

Lemma aget_enumr_nth (ks : list K) : NoDup ks -> forall s idx k,
  nth_error ks idx = Some k -> aget keqb (enumr s ks) k = Some (s + Z.of_nat idx).
Proof.
  induction 1 as [|x r N1 N2 IH]; intros s idx k H; [destruct idx; discriminate|].
  cbn [enumr aget]. destruct idx as [|idx]; cbn in H.
  - inversion H. subst. rewrite (proj2 (keqb_spec k k) eq_refl). f_equal. lia.
  - destruct (keqb x k) eqn:E.
    + apply keqb_spec in E. subst. exfalso. apply N1. eapply nth_error_In. exact H.
    + rewrite (IH _ _ _ H). f_equal. lia.
Qed.

Lemma aset_enumr_append (ks : list K) : forall s k,
  ~ In k ks -> aset keqb (enumr s ks) k (s + Z.of_nat (length ks)) = enumr s (ks ++ [k]).
Proof.
  induction ks as [|x r IH]; intros s k H; cbn [enumr aset app length].
  - rewrite Z.add_0_r. reflexivity.
  - destruct (keqb x k) eqn:E.
    + apply keqb_spec in E. exfalso. apply H. left. exact E.
    + f_equal. rewrite <- IH by (intro X; apply H; right; exact X). f_equal. lia.
Qed.
End Enumr.

Lemma aset_enum_append {A} (ks : list A) : forall s k,
  aset Z.eqb (enum s ks) (s + Z.of_nat (length ks)) k = enum s (ks ++ [k]).
Proof.
  induction ks as [|x r IH]; intros s k; cbn [enum aset app length].
  - rewrite Z.add_0_r. reflexivity.
  - assert (E : s =? s + Z.of_nat (S (length r)) = false) by (apply Z.eqb_neq; lia). rewrite E.
    f_equal. rewrite <- IH. f_equal. lia.
Qed.

Lemma aget_filter_enum_lt (ts : list Z) : forall s j, j < s -> aget Z.eqb (filter nz (enum s ts)) j = None.
Proof.
  induction ts as [|t r IH]; intros s j L; cbn [enum filter]; [reflexivity|].
  destruct (nz (s, t)); cbn [aget].
  - assert (E : s =? j = false) by (apply Z.eqb_neq; lia). rewrite E. apply IH. lia.
  - apply IH. lia.
Qed.

Lemma aget_filter_enum (ts : list Z) : forall s j,
  aget Z.eqb (filter nz (enum s ts)) j = tag_view (aget Z.eqb (enum s ts) j).
Proof.
  induction ts as [|t r IH]; intros s j; cbn [enum filter aget]; [reflexivity|].
  unfold nz at 1. cbn [snd]. destruct (s =? j) eqn:E.
  - apply Z.eqb_eq in E. subst j. cbn [tag_view]. destruct (t =? 0); cbn [negb aget].
    + apply aget_filter_enum_lt. lia.
    + rewrite Z.eqb_refl. reflexivity.
  - destruct (t =? 0); cbn [negb aget]; [apply IH|]. rewrite E. apply IH.
Qed.

Lemma set_type_append (ts : list Z) s ty :
  set_type (filter nz (enum s ts)) (s + Z.of_nat (length ts)) ty = filter nz (enum s (ts ++ [ty])).
Proof.
  rewrite enum_app, filter_app. cbn [enum filter]. unfold nz at 3. cbn [snd]. unfold set_type.
  destruct (ty =? 0); cbn [negb]; [rewrite app_nil_r; reflexivity|].
  apply asetZ_new. rewrite aget_filter_enum, aget_enum_idx.
  rewrite (proj2 (nth_error_None ts (length ts))) by lia. reflexivity.
Qed.

Lemma NoDup_app_snoc {A} (a : list A) x : NoDup a -> ~ In x a -> NoDup (a ++ [x]).
Proof.
  induction 1 as [|y r N1 N2 IH]; intro H; cbn; [constructor; [tauto|constructor]|].
  constructor.
  - intro X. apply in_app_or in X. destruct X as [X|[X|[]]]; [contradiction|]. subst. apply H. left. reflexivity.
  - apply IH. intro X. apply H. right. exact X.
Qed.

(* ================================================================================================ *)
(* 2. EventLibrary.remove_duplicates for an arbitrary key type and rounding function                  *)
(* ================================================================================================ *)
Section LibDedup.
Variable K : Type.
Variable keqb : K -> K -> bool.
Hypothesis keqb_spec : forall a b, keqb a b = true <-> a = b.
Variable rnd : K -> K.

Definition mk (ks : list K) (ts : list Z) : lib K :=
  mkLib (enum 1 ks) (filter nz (enum 1 ts)) (enumr 1 ks) (1 + Z.of_nat (length ks)).

Lemma mk_nil : mk [] [] = lib_empty.
Proof. reflexivity. Qed.

Lemma foi_mk_found ks ts k ty id :
  aget keqb (enumr 1 ks) k = Some id -> lib_find_or_insert keqb (mk ks ts) k ty = (mk ks ts, id, true).
Proof. intro H. unfold lib_find_or_insert. cbn [lkeymap mk]. rewrite H. reflexivity. Qed.

Lemma foi_mk_new ks ts k ty :
  length ts = length ks -> ~ In k ks ->
  lib_find_or_insert keqb (mk ks ts) k ty = (mk (ks ++ [k]) (ts ++ [ty]), 1 + Z.of_nat (length ks), false).
Proof.
  intros L H. unfold lib_find_or_insert. cbn [lkeymap ldata ltype lnext mk].
  rewrite (proj2 (aget_enumr_None keqb keqb_spec ks 1 k) H).
  unfold mk. rewrite aset_enum_append, (aset_enumr_append keqb keqb_spec) by exact H.
  replace (set_type (filter nz (enum 1 ts)) (1 + Z.of_nat (length ks)) ty)
    with (filter nz (enum 1 (ts ++ [ty]))) by (rewrite <- L; symmetry; apply set_type_append).
  rewrite app_length. cbn [length]. do 3 f_equal. lia.
Qed.

Lemma lib_get_mk ks ts idx : lib_get (mk ks ts) (1 + Z.of_nat idx) = nth_error ks idx.
Proof. unfold lib_get. cbn [ldata mk]. apply aget_enum_idx. Qed.

Lemma lib_get_mk_Some ks ts j k :
  lib_get (mk ks ts) j = Some k -> exists idx, j = 1 + Z.of_nat idx /\ nth_error ks idx = Some k.
Proof. unfold lib_get. cbn [ldata mk]. apply aget_enum_Some. Qed.

Lemma lib_type_mk ks ts idx : lib_type (mk ks ts) (1 + Z.of_nat idx) = tag_view (nth_error ts idx).
Proof. unfold lib_type. cbn [ltype mk]. rewrite aget_filter_enum, aget_enum_idx. reflexivity. Qed.

(* ---- the loop of remove_duplicates --------------------------------------------------------------- *)
Variable l : lib K.
Definition tyof (i : Z) : Z := match lib_type l i with Some t => t | None => 0 end.
Definition dd_step (acc : lib K * list (Z * Z)) (kv : Z * K) : lib K * list (Z * Z) :=
  let '(nl, mp) := acc in
  let '(nl', id, _) := lib_find_or_insert keqb nl (rnd (snd kv)) (tyof (fst kv)) in
  (nl', aset Z.eqb mp (fst kv) id).

Lemma lrd_unfold : lib_remove_duplicates keqb rnd l = fold_left dd_step (sort_by_id (ldata l)) (lib_empty, [(0, 0)]).
Proof. reflexivity. Qed.

Definition rk (p : Z * K) : K := rnd (snd p).
Definition tg (p : Z * K) : Z := tyof (fst p).

(* [done] = rows processed so far (ascending ids), [F] = those that created a new entry *)
Record Inv (done : list (Z * K)) (nl : lib K) (mp : list (Z * Z)) (F : list (Z * K)) : Prop := {
  inv_nl : nl = mk (map rk F) (map tg F);
  inv_nodup : NoDup (map rk F);
  inv_incl : incl F done;
  inv_sorted : StronglySorted Z.lt (map fst F);
  inv_map : forall i k, In (i, k) done ->
            exists idx i0 k0, nth_error F idx = Some (i0, k0) /\ rnd k0 = rnd k /\ i0 <= i /\
                              aget Z.eqb mp i = Some (1 + Z.of_nat idx);
  inv_dom : forall i, aget Z.eqb mp i <> None -> i = 0 \/ In i (map fst done);
  inv_zero : ~ In 0 (map fst done) -> aget Z.eqb mp 0 = Some 0
}.

Lemma Inv_init : Inv [] lib_empty [(0, 0)] [].
Proof.
  constructor; cbn.
  - reflexivity.
  - constructor.
  - intros x H. exact H.
  - constructor.
  - intros i k H. contradiction.
  - intros i H. destruct i as [|p|p]; [left; reflexivity|exfalso; apply H; reflexivity|exfalso; apply H; reflexivity].
  - intros _. reflexivity.
Qed.

Lemma ssorted_snoc (a : list Z) x : StronglySorted Z.lt a -> (forall y, In y a -> y < x) -> StronglySorted Z.lt (a ++ [x]).
Proof.
  induction 1 as [|z r S IH F]; intro H; cbn; [constructor; constructor|].
  constructor.
  - apply IH. intros y Hy. apply H. right. exact Hy.
  - rewrite Forall_forall in F |- *. intros y Hy. apply in_app_or in Hy. destruct Hy as [Hy|[<-|[]]].
    + apply F. exact Hy.
    + apply H. left. reflexivity.
Qed.

Lemma Inv_step done nl mp F i k :
  Inv done nl mp F -> (forall y, In y (map fst done) -> y < i) ->
  exists F', Inv (done ++ [(i, k)]) (fst (dd_step (nl, mp) (i, k))) (snd (dd_step (nl, mp) (i, k))) F'.
Proof.
  intros [Hnl Hnd Hin Hso Hmap Hdom Hz] Hlt.
  assert (Hni : ~ In i (map fst done)) by (intro X; specialize (Hlt _ X); lia).
  unfold dd_step. cbn [fst snd]. subst nl.
  destruct (aget keqb (enumr 1 (map rk F)) (rnd k)) as [id|] eqn:E.
  - (* the rounded key is already there: merged into an earlier entry *)
    rewrite (foi_mk_found _ _ _ _ _ E). cbn [fst snd].
    destruct (aget_enumr_Some keqb keqb_spec _ _ _ _ E) as (idx & -> & Hn).
    rewrite nth_error_map in Hn. destruct (nth_error F idx) as [[i0 k0]|] eqn:EF; [|discriminate].
    cbn in Hn. inversion Hn as [Hr]. fold (rk (i0, k0)) in Hr.
    assert (Hi0 : i0 < i).
    { apply Hlt. apply nth_error_In in EF. apply Hin in EF. apply (in_map fst) in EF. exact EF. }
    exists F. constructor.
    + reflexivity.
    + exact Hnd.
    + intros x Hx. apply in_or_app. left. apply Hin. exact Hx.
    + exact Hso.
    + intros i' k' H. apply in_app_or in H. destruct H as [H|[H|[]]].
      * destruct (Hmap _ _ H) as (idx' & i1 & k1 & A & B & C & D).
        exists idx', i1, k1. repeat split; try assumption.
        rewrite agetZ_aset_other; [exact D|]. intro X. subst. apply Hni. apply (in_map fst) in H. exact H.
      * inversion H. subst i' k'. exists idx, i0, k0. repeat split; [exact EF|exact Hr|lia|].
        apply agetZ_aset_same.
    + intros i' H. rewrite map_app. cbn [map fst]. destruct (Z.eq_dec i' i) as [->|N].
      * right. apply in_or_app. right. left. reflexivity.
      * rewrite agetZ_aset_other in H by exact N. destruct (Hdom _ H) as [H'|H']; [left; exact H'|].
        right. apply in_or_app. left. exact H'.
    + intro H. rewrite map_app in H. cbn [map fst] in H.
      rewrite agetZ_aset_other.
      * apply Hz. intro X. apply H. apply in_or_app. left. exact X.
      * intro X. apply H. apply in_or_app. right. left. symmetry. exact X.
  - (* a new entry with the next id *)
    apply (aget_enumr_None keqb keqb_spec) in E.
    rewrite foi_mk_new; [|rewrite !map_length; reflexivity|exact E]. cbn [fst snd].
    rewrite map_length.
    exists (F ++ [(i, k)]). constructor.
    + rewrite !map_app. reflexivity.
    + rewrite map_app. cbn [map]. apply NoDup_app_snoc; [exact Hnd|exact E].
    + intros x Hx. apply in_app_or in Hx. apply in_or_app. destruct Hx as [Hx|Hx]; [left; apply Hin; exact Hx|right; exact Hx].
    + rewrite map_app. cbn [map fst]. apply ssorted_snoc; [exact Hso|].
      intros y Hy. apply Hlt. apply in_map_iff in Hy. destruct Hy as (p & <- & Hp). apply in_map. apply Hin. exact Hp.
    + intros i' k' H. apply in_app_or in H. destruct H as [H|[H|[]]].
      * destruct (Hmap _ _ H) as (idx' & i1 & k1 & A & B & C & D).
        exists idx', i1, k1. repeat split; try assumption.
        -- rewrite nth_error_app1; [exact A|]. apply nth_error_Some. congruence.
        -- rewrite agetZ_aset_other; [exact D|]. intro X. subst. apply Hni. apply (in_map fst) in H. exact H.
      * inversion H. subst i' k'. exists (length F), i, k. repeat split; [|lia|apply agetZ_aset_same].
        rewrite nth_error_app2 by lia. rewrite Nat.sub_diag. reflexivity.
    + intros i' H. rewrite map_app. cbn [map fst]. destruct (Z.eq_dec i' i) as [->|N].
      * right. apply in_or_app. right. left. reflexivity.
      * rewrite agetZ_aset_other in H by exact N. destruct (Hdom _ H) as [H'|H']; [left; exact H'|].
        right. apply in_or_app. left. exact H'.
    + intro H. rewrite map_app in H. cbn [map fst] in H.
      rewrite agetZ_aset_other.
      * apply Hz. intro X. apply H. apply in_or_app. left. exact X.
      * intro X. apply H. apply in_or_app. right. left. symmetry. exact X.
Qed.

Lemma Inv_fold rest : forall done nl mp F,
  Inv done nl mp F -> StronglySorted Z.lt (map fst (done ++ rest)) ->
  exists F', Inv (done ++ rest) (fst (fold_left dd_step rest (nl, mp))) (snd (fold_left dd_step rest (nl, mp))) F'.
Proof.
  induction rest as [|[i k] r IH]; intros done nl mp F I S.
  - rewrite app_nil_r. exists F. exact I.
  - cbn [fold_left].
    destruct (Inv_step done nl mp F i k I) as (F1 & I1).
    { rewrite map_app in S. cbn [map fst] in S. intros y Hy. eapply ssorted_app_lt; eassumption. }
    destruct (dd_step (nl, mp) (i, k)) as [nl1 mp1] eqn:E. cbn [fst snd] in I1.
    replace (done ++ (i, k) :: r) with ((done ++ [(i, k)]) ++ r) by (rewrite <- app_assoc; reflexivity).
    apply (IH _ _ _ F1 I1). rewrite <- app_assoc. exact S.
Qed.

Hypothesis Hnodup : NoDup (akeys (ldata l)).
Let nl := fst (lib_remove_duplicates keqb rnd l).
Let mp := snd (lib_remove_duplicates keqb rnd l).

Lemma lrd_Inv : exists F, Inv (sort_by_id (ldata l)) nl mp F.
Proof.
  unfold nl, mp. rewrite lrd_unfold.
  apply (Inv_fold (sort_by_id (ldata l)) [] lib_empty [(0, 0)] [] Inv_init).
  cbn [app]. apply sort_by_id_ssorted. exact Hnodup.
Qed.

Lemma get_rows i k : lib_get l i = Some k <-> In (i, k) (sort_by_id (ldata l)).
Proof.
  split; intro H.
  - apply agetZ_In in H. eapply Permutation_in; [apply Permutation_sym; apply sort_by_id_perm|exact H].
  - apply agetZ_In_nodup; [exact Hnodup|]. eapply Permutation_in; [apply sort_by_id_perm|exact H].
Qed.

Definition first_member (i : Z) (k : K) : Prop :=
  lib_get l i = Some k /\ forall i' k', lib_get l i' = Some k' -> rnd k' = rnd k -> i <= i'.

Lemma nodup_idx {A} (ks : list A) a b x : NoDup ks -> nth_error ks a = Some x -> nth_error ks b = Some x -> a = b.
Proof.
  intros N Ha Hb. apply (proj1 (NoDup_nth_error ks) N).
  - apply nth_error_Some. congruence.
  - congruence.
Qed.

(* everything the later theorems need, in one statement about the list F of class representatives *)
Lemma lrd_structure : exists F : list (Z * K),
  nl = mk (map rk F) (map tg F) /\ NoDup (map rk F) /\ StronglySorted Z.lt (map fst F) /\
  (forall i k, lib_get l i = Some k ->
     exists idx i0 k0, nth_error F idx = Some (i0, k0) /\ rnd k0 = rnd k /\ i0 <= i /\
                       aget Z.eqb mp i = Some (1 + Z.of_nat idx)) /\
  (forall idx i0 k0, nth_error F idx = Some (i0, k0) ->
     first_member i0 k0 /\ aget Z.eqb mp i0 = Some (1 + Z.of_nat idx)) /\
  (forall i, aget Z.eqb mp i <> None -> i = 0 \/ lib_get l i <> None) /\
  (lib_get l 0 = None -> aget Z.eqb mp 0 = Some 0).
Proof.
  destruct lrd_Inv as (F & [Hnl Hnd Hin Hso Hmap Hdom Hz]).
  assert (M : forall i k, lib_get l i = Some k ->
     exists idx i0 k0, nth_error F idx = Some (i0, k0) /\ rnd k0 = rnd k /\ i0 <= i /\
                       aget Z.eqb mp i = Some (1 + Z.of_nat idx)).
  { intros i k H. apply Hmap. apply get_rows. exact H. }
  exists F. repeat split; try assumption.
  - apply get_rows. apply Hin. eapply nth_error_In. exact H.
  - intros i' k' G R.
    destruct (M _ _ G) as (idx' & i1 & k1 & A & B & C & _).
    assert (idx' = idx).
    { apply (nodup_idx (map rk F) idx' idx (rnd k0) Hnd); rewrite nth_error_map.
      - rewrite A. cbn. unfold rk. cbn. congruence.
      - rewrite H. reflexivity. }
    subst idx'. rewrite H in A. inversion A. subst. exact C.
  - assert (G : lib_get l i0 = Some k0) by (apply get_rows; apply Hin; eapply nth_error_In; exact H).
    destruct (M _ _ G) as (idx' & i1 & k1 & A & B & _ & D).
    assert (idx' = idx).
    { apply (nodup_idx (map rk F) idx' idx (rnd k0) Hnd); rewrite nth_error_map.
      - rewrite A. cbn. unfold rk. cbn. congruence.
      - rewrite H. reflexivity. }
    subst idx'. exact D.
  - intros i H. destruct (Hdom i H) as [H'|H']; [left; exact H'|right].
    apply in_map_iff in H'. destruct H' as ([i' k'] & E & H'). cbn in E. subst i'.
    apply get_rows in H'. congruence.
  - intro H. apply Hz. intro X. apply in_map_iff in X. destruct X as ([i' k'] & E & X). cbn in E. subst i'.
    apply get_rows in X. congruence.
Qed.

(* ---- (a) the theorems ------------------------------------------------------------------------------ *)
(* the mapping is total on old ids, maps into existing new ids, and the data found there is the
   rounded old data *)
Theorem dedup_data_is_rounded i k :
  lib_get l i = Some k -> exists j, aget Z.eqb mp i = Some j /\ lib_get nl j = Some (rnd k).
Proof.
  intro H. destruct lrd_structure as (F & Hnl & _ & _ & M & _).
  destruct (M _ _ H) as (idx & i0 & k0 & A & B & _ & D).
  exists (1 + Z.of_nat idx). split; [exact D|]. rewrite Hnl, lib_get_mk, nth_error_map, A. cbn. unfold rk. cbn. congruence.
Qed.

Theorem dedup_map_domain i : aget Z.eqb mp i <> None -> i = 0 \/ lib_get l i <> None.
Proof. destruct lrd_structure as (F & _ & _ & _ & _ & _ & D & _). apply D. Qed.

Theorem dedup_map_zero : lib_get l 0 = None -> aget Z.eqb mp 0 = Some 0.
Proof. destruct lrd_structure as (F & _ & _ & _ & _ & _ & _ & Z0). exact Z0. Qed.

(* distinct new ids carry distinct keys *)
Lemma new_data_injective j1 j2 k : lib_get nl j1 = Some k -> lib_get nl j2 = Some k -> j1 = j2.
Proof.
  destruct lrd_structure as (F & Hnl & Hnd & _). rewrite Hnl. intros H1 H2.
  apply lib_get_mk_Some in H1, H2. destruct H1 as (a & -> & A), H2 as (b & -> & B).
  rewrite (nodup_idx _ a b k Hnd A B). reflexivity.
Qed.

(* two old entries are merged exactly when their rounded keys are equal *)
Theorem merge_iff_round_equal i1 i2 k1 k2 :
  lib_get l i1 = Some k1 -> lib_get l i2 = Some k2 ->
  (aget Z.eqb mp i1 = aget Z.eqb mp i2 <-> rnd k1 = rnd k2).
Proof.
  intros H1 H2.
  destruct (dedup_data_is_rounded _ _ H1) as (j1 & M1 & D1).
  destruct (dedup_data_is_rounded _ _ H2) as (j2 & M2 & D2).
  rewrite M1, M2. split; intro H.
  - inversion H. subst. congruence.
  - f_equal. rewrite H in D1. exact (new_data_injective _ _ _ D1 D2).
Qed.

(* every new entry comes from the first member of its class; its tag is that member's tag *)
Theorem dedup_onto j k' :
  lib_get nl j = Some k' ->
  exists i k, first_member i k /\ aget Z.eqb mp i = Some j /\ k' = rnd k /\ lib_type nl j = tag_view (lib_type l i).
Proof.
  destruct lrd_structure as (F & Hnl & _ & _ & _ & R & _). intro H. rewrite Hnl in H.
  apply lib_get_mk_Some in H. destruct H as (idx & -> & H). rewrite nth_error_map in H.
  destruct (nth_error F idx) as [[i0 k0]|] eqn:E; [|discriminate]. cbn in H. inversion H.
  destruct (R _ _ _ E) as [FM D]. exists i0, k0. repeat split; try apply FM; [exact D|].
  rewrite Hnl, lib_type_mk, nth_error_map, E. cbn. unfold tg, tyof. cbn.
  destruct (lib_type l i0) as [t|]; reflexivity.
Qed.

Lemma first_member_unique i1 i2 k1 k2 : first_member i1 k1 -> first_member i2 k2 -> rnd k1 = rnd k2 -> i1 = i2.
Proof.
  intros [G1 F1] [G2 F2] R. pose proof (F1 _ _ G2 (eq_sym R)). pose proof (F2 _ _ G1 R). lia.
Qed.

Theorem dedup_type_from_first i k j :
  first_member i k -> aget Z.eqb mp i = Some j -> lib_type nl j = tag_view (lib_type l i).
Proof.
  intros FM M. destruct (dedup_data_is_rounded i k (proj1 FM)) as (j' & M' & D).
  rewrite M in M'. inversion M'. subst j'.
  destruct (dedup_onto _ _ D) as (i0 & k0 & FM0 & _ & R & T).
  rewrite (first_member_unique _ _ _ _ FM FM0 R). exact T.
Qed.

(* new ids are 1..n, handed out in ascending order of the first members' old ids *)
Theorem dedup_dense_ascending :
  (exists n, akeys (ldata nl) = map (fun i => 1 + Z.of_nat i) (seq 0 n) /\ lnext nl = 1 + Z.of_nat n) /\
  (forall i1 i2 k1 k2 j1 j2, first_member i1 k1 -> first_member i2 k2 -> i1 < i2 ->
     aget Z.eqb mp i1 = Some j1 -> aget Z.eqb mp i2 = Some j2 -> j1 < j2).
Proof.
  destruct lrd_structure as (F & Hnl & Hnd & Hso & M & R & _). split.
  - exists (length (map rk F)). rewrite Hnl. cbn [ldata lnext mk]. split; [apply akeys_enum|reflexivity].
  - intros i1 i2 k1 k2 j1 j2 FM1 FM2 L M1 M2.
    destruct (M _ _ (proj1 FM1)) as (a & x & kx & A1 & A2 & A3 & A4).
    destruct (M _ _ (proj1 FM2)) as (b & y & ky & B1 & B2 & B3 & B4).
    destruct (R _ _ _ A1) as [FMx _]. destruct (R _ _ _ B1) as [FMy _].
    pose proof (first_member_unique _ _ _ _ FMx FM1 A2). pose proof (first_member_unique _ _ _ _ FMy FM2 B2).
    subst x y. rewrite A4 in M1. rewrite B4 in M2.
    assert (E1 : j1 = 1 + Z.of_nat a) by congruence. assert (E2 : j2 = 1 + Z.of_nat b) by congruence.
    pose proof (ssorted_nth_lt F Hso a b _ _ A1 B1 L). lia.
Qed.

(* the result is a well-formed library: keymap and data are mirror images, ids below next, no
   duplicate ids, tags only on existing ids *)
Theorem dedup_lib_invariant :
  (forall k j, aget keqb (lkeymap nl) k = Some j <-> lib_get nl j = Some k) /\
  (forall j k, lib_get nl j = Some k -> 0 < j < lnext nl) /\
  NoDup (akeys (ldata nl)) /\
  (forall j t, lib_type nl j = Some t -> lib_get nl j <> None /\ t <> 0).
Proof.
  destruct lrd_structure as (F & Hnl & Hnd & _). rewrite Hnl. repeat split.
  - intro H. cbn [lkeymap mk] in H. apply (aget_enumr_Some keqb keqb_spec) in H.
    destruct H as (idx & -> & H). rewrite lib_get_mk. exact H.
  - intro H. apply lib_get_mk_Some in H. destruct H as (idx & -> & H). cbn [lkeymap mk].
    apply (aget_enumr_nth keqb keqb_spec); assumption.
  - apply lib_get_mk_Some in H. destruct H as (idx & -> & H). lia.
  - apply lib_get_mk_Some in H. destruct H as (idx & -> & H). cbn [lnext mk].
    assert (idx < length (map rk F))%nat by (apply nth_error_Some; congruence). lia.
  - cbn [ldata mk]. rewrite akeys_enum. apply FinFun.Injective_map_NoDup; [|apply seq_NoDup].
    intros a b H. lia.
  - unfold lib_type in H. cbn [ltype mk] in H. rewrite aget_filter_enum in H.
    unfold lib_get. cbn [ldata mk]. rewrite !aget_enum in *. destruct (1 <=? j); [|discriminate].
    rewrite !nth_error_map in *. destruct (nth_error F (Z.to_nat (j - 1))); [discriminate|discriminate].
  - unfold lib_type in H. cbn [ltype mk] in H. rewrite aget_filter_enum in H.
    destruct (aget Z.eqb (enum 1 (map tg F)) j) as [t'|]; [|discriminate]. cbn in H.
    destruct (t' =? 0) eqn:E; [discriminate|]. inversion H. subst. apply Z.eqb_neq. exact E.
Qed.

(* canonical shape of the result, used for idempotence *)
Lemma lrd_canonical : exists ks ts, nl = mk ks ts /\ NoDup ks /\ length ts = length ks /\
  (forall k, In k ks -> exists k0, k = rnd k0).
Proof.
  destruct lrd_structure as (F & Hnl & Hnd & _). exists (map rk F), (map tg F).
  repeat split; [exact Hnl|exact Hnd|rewrite !map_length; reflexivity|].
  intros k H. apply in_map_iff in H. destruct H as (p & <- & _). exists (snd p). reflexivity.
Qed.
End LibDedup.

(* ================================================================================================ *)
(* 3. idempotence                                                                                     *)
(* ================================================================================================ *)
Lemma enum_keys_ge {A} (ks : list A) : forall s j, In j (map fst (enum s ks)) -> s <= j.
Proof.
  induction ks as [|k r IH]; intros s j H; cbn in H; [contradiction|].
  destruct H as [<-|H]; [lia|]. apply IH in H. lia.
Qed.

Lemma enum_sorted {A} (ks : list A) : forall s, StronglySorted Z.le (map fst (enum s ks)).
Proof.
  induction ks as [|k r IH]; intro s; cbn [enum map fst]; constructor; [apply IH|].
  apply Forall_forall. intros j H. apply enum_keys_ge in H. lia.
Qed.

Section LibIdem.
Variable K : Type.
Variable keqb : K -> K -> bool.
Hypothesis keqb_spec : forall a b, keqb a b = true <-> a = b.
Variable rnd : K -> K.

Definition idpairs (ks : list K) (s : Z) : list (Z * Z) := map (fun p => (fst p, fst p)) (enum s ks).

Lemma tyof_mk ks ts idx t : nth_error ts idx = Some t -> tyof K (mk K ks ts) (1 + Z.of_nat idx) = t.
Proof.
  intro H. unfold tyof. rewrite lib_type_mk, H. cbn [tag_view]. destruct (t =? 0) eqn:E; [|reflexivity].
  apply Z.eqb_eq in E. congruence.
Qed.

Lemma second_pass (L : lib K) : forall ks2 ts2 ks1 ts1 M1,
  length ts1 = length ks1 -> length ts2 = length ks2 -> NoDup (ks1 ++ ks2) ->
  (forall k, In k ks2 -> rnd k = k) ->
  (forall idx t, nth_error ts2 idx = Some t -> tyof K L (1 + Z.of_nat (length ks1) + Z.of_nat idx) = t) ->
  (forall j, 1 + Z.of_nat (length ks1) <= j -> aget Z.eqb M1 j = None) ->
  fold_left (dd_step K keqb rnd L) (enum (1 + Z.of_nat (length ks1)) ks2) (mk K ks1 ts1, M1) =
  (mk K (ks1 ++ ks2) (ts1 ++ ts2), M1 ++ idpairs ks2 (1 + Z.of_nat (length ks1))).
Proof.
  induction ks2 as [|k r IH]; intros ts2 ks1 ts1 M1 L1 L2 N R T D.
  - destruct ts2; [|discriminate]. cbn. rewrite !app_nil_r. reflexivity.
  - destruct ts2 as [|t ts2]; [discriminate|]. cbn [enum fold_left].
    assert (Hk : ~ In k ks1).
    { intro X. apply NoDup_remove_2 in N. apply N. apply in_or_app. left. exact X. }
    unfold dd_step at 2. cbn [fst snd]. rewrite (R k (or_introl eq_refl)).
    rewrite (foi_mk_new K keqb keqb_spec ks1 ts1 k _ L1 Hk).
    assert (Ht : tyof K L (1 + Z.of_nat (length ks1)) = t).
    { rewrite <- (T 0%nat t eq_refl). f_equal. cbn. lia. }
    rewrite Ht. rewrite asetZ_new by (apply D; lia).
    assert (E : 1 + Z.of_nat (length ks1) + 1 = 1 + Z.of_nat (length (ks1 ++ [k]))).
    { rewrite app_length. cbn [length]. lia. }
    rewrite E. rewrite (IH ts2).
    + rewrite <- !app_assoc. cbn [app]. f_equal. unfold idpairs. cbn [enum map fst]. rewrite E. reflexivity.
    + rewrite !app_length. cbn [length]. lia.
    + cbn [length] in L2. lia.
    + rewrite <- app_assoc. exact N.
    + intros k' H. apply R. right. exact H.
    + intros idx t' H. rewrite <- E. rewrite <- (T (S idx) t' H). f_equal. lia.
    + intros j H. rewrite <- E in H. rewrite agetZ_app, D by lia. cbn [aget].
      assert (X : 1 + Z.of_nat (length ks1) =? j = false) by (apply Z.eqb_neq; lia). rewrite X. reflexivity.
Qed.

(* a canonical library whose keys are fixed points of the rounding is left alone; the id mapping
   is the identity *)
Lemma lrd_canonical_fixed ks ts :
  NoDup ks -> length ts = length ks -> (forall k, In k ks -> rnd k = k) ->
  lib_remove_duplicates keqb rnd (mk K ks ts) = (mk K ks ts, (0, 0) :: idpairs ks 1).
Proof.
  intros N L R. rewrite lrd_unfold. cbn [ldata mk]. rewrite sort_sorted_id by apply enum_sorted.
  change lib_empty with (mk K [] []).
  apply (second_pass (mk K ks ts) ks ts [] [] [(0, 0)]); try assumption; try reflexivity.
  - intros idx t H. cbn [length]. rewrite Z.add_0_r. apply tyof_mk. exact H.
  - intros j H. cbn [length] in H. cbn [aget]. destruct j; try lia; reflexivity.
Qed.

Theorem dedup_idempotent (l : lib K) :
  (forall k, rnd (rnd k) = rnd k) -> NoDup (akeys (ldata l)) ->
  let nl := fst (lib_remove_duplicates keqb rnd l) in
  lib_remove_duplicates keqb rnd nl = (nl, (0, 0) :: map (fun p => (fst p, fst p)) (ldata nl)).
Proof.
  intros Hr N nl.
  destruct (lrd_canonical K keqb keqb_spec rnd l N) as (ks & ts & E & Nk & L & Rk).
  unfold nl. rewrite E. cbn [ldata mk]. apply lrd_canonical_fixed; try assumption.
  intros k H. destruct (Rk k H) as (k0 & ->). apply Hr.
Qed.
End LibIdem.

(* ================================================================================================ *)
(* 4. the rounding functions of Sequence.remove_duplicates (digit tuples from the source)             *)
(* ================================================================================================ *)
Lemma this_canon (q : Qc) : canonQ (this q).
Proof. destruct q as [q c]. exact c. Qed.

Lemma map_this_canon (k : key) : Forall canonQ (map this k).
Proof. induction k; cbn; constructor; [apply this_canon|assumption]. Qed.

Lemma map_this_Q2Qc (l : list Q) : Forall canonQ l -> map this (map Q2Qc l) = l.
Proof. induction 1 as [|q r H _ IH]; cbn [map]; [reflexivity|]. rewrite IH. f_equal. exact H. Qed.

Lemma qc_row_idem (f : list Q -> list Q) (k : key) :
  (forall row, Forall canonQ row -> Forall canonQ (f row)) ->
  f (f (map this k)) = f (map this k) -> qc_row f (qc_row f k) = qc_row f k.
Proof.
  intros C H. unfold qc_row. rewrite map_this_Q2Qc by (apply C; apply map_this_canon). rewrite H. reflexivity.
Qed.

Definition key_stable (digs : list Z) (k : key) : Prop := row_stable digs (map this k).
Definition shape_stable (dig : Z) (k : key) : Prop := Forall (col_stable dig) (map this k).

Theorem rnd_grad_key_idem_partial k : key_stable dedup_digits_grad k -> rnd_grad_key (rnd_grad_key k) = rnd_grad_key k.
Proof. intro H. apply qc_row_idem; [apply round_row_canon|apply round_row_idem_partial; exact H]. Qed.
Theorem rnd_rf_key_idem_partial k : key_stable dedup_digits_rf k -> rnd_rf_key (rnd_rf_key k) = rnd_rf_key k.
Proof. intro H. apply qc_row_idem; [apply round_row_canon|apply round_row_idem_partial; exact H]. Qed.
Theorem rnd_adc_key_idem_partial k : key_stable dedup_digits_adc k -> rnd_adc_key (rnd_adc_key k) = rnd_adc_key k.
Proof. intro H. apply qc_row_idem; [apply round_row_canon|apply round_row_idem_partial; exact H]. Qed.
Theorem rnd_shape_key_idem_partial k : shape_stable dedup_digits_shape k -> rnd_shape_key (rnd_shape_key k) = rnd_shape_key k.
Proof. intro H. apply qc_row_idem; [apply round_all_canon|apply round_all_idem_partial; exact H]. Qed.

(* column n of a rounded row is within the declared rounding of column n of the row *)
Lemma qc_row_nth (digs : list Z) (k : key) n dg d :
  nth_error digs n = Some dg -> nth_error k n = Some d ->
  exists r, nth_error (qc_row (round_row digs) k) n = Some r /\ col_err_ok dg (this d) (this r).
Proof.
  intros H1 H2. unfold qc_row.
  assert (H3 : nth_error (map this k) n = Some (this d)) by (rewrite nth_error_map, H2; reflexivity).
  exists (Q2Qc (round_spec dg (this d))). split.
  - rewrite nth_error_map, (round_row_nth _ _ _ _ _ H1 H3). reflexivity.
  - cbn [this Q2Qc]. pose proof (round_spec_col_err dg (this d)) as E. unfold col_err_ok in *.
    destruct (0 <? dg); rewrite Qred_correct; exact E.
Qed.

(* what the digit entries mean: every column of every tuple is one of the four declared roundings *)
Definition declared_digit (dg : Z) : Prop := dg = 6 \/ dg = 0 \/ dg = -6 \/ dg = -9.
Theorem digits_are_declared :
  dedup_digits_shape = 9 /\ Forall declared_digit dedup_digits_grad /\
  Forall declared_digit dedup_digits_rf /\ Forall declared_digit dedup_digits_adc.
Proof.
  unfold declared_digit. split; [reflexivity|].
  repeat split; repeat (constructor; [vm_compute; tauto|]); constructor.
Qed.

(* the tuples as the property text declares them: amplitudes / offsets 6 significant digits, times
   1 us (gradient, ADC delay) and 1 ns (dwell), shape ids and sample counts integers; the RF delay
   is the exception (6 significant digits, KF-5) *)
Theorem digits_as_declared :
  dedup_digits_grad = [6; -6; -6; -6; -6; -6] /\ dedup_digits_rf = [6; 0; 0; 0; 6; 6; 6] /\
  dedup_digits_adc = [0; -9; -6; 6; 6; 6].
Proof. repeat split; reflexivity. Qed.

(* time columns (dig <= 0) of all tuples are unconditionally idempotent *)
Theorem time_columns_idempotent :
  Forall (fun dg => dg <= 0 -> forall d, round_spec dg (round_spec dg d) = round_spec dg d)
         (dedup_digits_grad ++ dedup_digits_rf ++ dedup_digits_adc).
Proof. apply Forall_forall. intros dg _ H d. apply round_spec_idem_dec. exact H. Qed.

(* ---- KF-5: RF delays of 1 s and more are rounded to 6 significant digits, not to 1 us ------------- *)
Definition dq (n : Z) (d : positive) : Qc := Q2Qc (n # d).
Definition kf5_rf_a : key := [dq 250 1; zq 1; zq 2; zq 0; dq 1234567 1000000; dq 0 1; dq 0 1].
Definition kf5_rf_b : key := [dq 250 1; zq 1; zq 2; zq 0; dq 1234568 1000000; dq 0 1; dq 0 1].

Theorem rf_delay_merge_refuted :
  exists a b da db,
    nth_error a 4 = Some da /\ nth_error b 4 = Some db /\
    (this db - this da == 1 # 1000000)%Q /\                    (* the delays differ by 1 us *)
    rnd_rf_key a = rnd_rf_key b /\                                  (* ... and are merged *)
    (exists r, nth_error (rnd_rf_key a) 4 = Some r /\ ((1 # 1000000) < Qabs (this r - this da))%Q).
Proof.
  exists kf5_rf_a, kf5_rf_b, (dq 1234567 1000000), (dq 1234568 1000000).
  split; [reflexivity|]. split; [reflexivity|]. split; [vm_compute; reflexivity|].
  split; [apply key_eqb_spec; vm_compute; reflexivity|].
  exists (dq 123457 100000). split; [vm_compute; reflexivity|vm_compute; reflexivity].
Qed.

(* below 1 s the 6 significant digits are at least as fine as 1 us *)
Theorem rf_delay_fine_below_1s (d : Q) :
  (Qabs d + log_offset <= 1)%Q -> (Qabs (round_spec 6 d - d) <= (1 # 2) * pow10 (-6))%Q.
Proof.
  intro H. destruct (Qeq_bool d neg_zero) eqn:G.
  - rewrite (round_spec_passthrough 6 d G). setoid_replace (d - d)%Q with 0%Q by ring. vm_compute. discriminate.
  - rewrite (round_spec_sig_eq 6 d G) by lia.
    pose proof (round_dec_err (6 - sig_exp d) d) as E. eapply Qle_trans; [exact E|].
    apply Qmult_le_l; [reflexivity|]. apply pow10_mono.
    assert (X : sig_exp d <= 0); [|lia].
    destruct (Z_le_gt_dec (sig_exp d) 0) as [L|L]; [exact L|exfalso].
    destruct (ceil_log10_spec (Qabs d + log_offset)) as (_ & [B|B] & _); fold (sig_exp d) in B; [lia|].
    assert (P : (pow10 0 <= pow10 (sig_exp d - 1))%Q) by (apply pow10_mono; lia).
    rewrite pow10_0 in P. apply (Qlt_irrefl 1%Q). eapply Qle_lt_trans; [exact P|]. eapply Qlt_le_trans; [exact B|exact H].
Qed.

(* ================================================================================================ *)
(* 5. remove_duplicates(in_place=False) leaves the object alone; in place = copy                      *)
(* ================================================================================================ *)
Theorem dedup_copy_leaves_original : forall cache_on abs_fix r1 r2 r3 r4 s,
  fst (step cache_on abs_fix r1 r2 r3 r4 s DedupCopy) = s.
Proof. reflexivity. Qed.

Theorem dedup_in_place_eq_copy : forall cache_on abs_fix r1 r2 r3 r4 s c' i,
  snd (step cache_on abs_fix r1 r2 r3 r4 s DedupCopy) = OCore (Some c') ->
  fst (step cache_on abs_fix r1 r2 r3 r4 s DedupInPlace) = mkState c' [] /\
  snd (step cache_on abs_fix r1 r2 r3 r4 (fst (step cache_on abs_fix r1 r2 r3 r4 s DedupInPlace)) (GetBlock i))
  = OBlock (decode c' i).
Proof.
  intros cache_on abs_fix r1 r2 r3 r4 s c' i H. cbn [step snd] in H. inversion H as [E].
  cbn [step]. rewrite E. cbn [fst]. split; [reflexivity|].
  unfold do_get. cbn [st_cache st_core aget].
  destruct cache_on; destruct (decode c' i); reflexivity.
Qed.

(* ================================================================================================ *)
(* 6. Sequence.remove_duplicates (dedup_core)                                                         *)
(* ================================================================================================ *)
Lemma qz_zq (z : Z) : qz (zq z) = z.
Proof.
  unfold qz, zq. cbn [this Q2Qc].
  rewrite (Qround.Qfloor_comp _ _ (Qred_correct (inject_Z z))). apply Qround.Qfloor_Z.
Qed.

(* ---- remapping of the shape ids inside gradient / RF rows ------------------------------------------- *)
Lemma kupd_data (l : klib) id nd : id <> 0 ->
  ldata (kupd l id nd 0) = aset Z.eqb (ldata l) id nd /\ ltype (kupd l id nd 0) = ltype l.
Proof.
  intro N. unfold kupd, lib_update, lib_insert. cbn [fst ldata ltype lnext].
  assert (E : id =? 0 = false) by (apply Z.eqb_neq; exact N). rewrite E. cbn [ldata ltype]. split; reflexivity.
Qed.

Definition row_after (isg : Z -> bool) (f : key -> option key) (id : Z) (d : key) : option key :=
  if isg id then f d else Some d.

Lemma remap_rows_spec (isg : Z -> bool) (f : key -> option key) : forall rows (l0 : klib),
  NoDup (map fst rows) -> ~ In 0 (map fst rows) ->
  (forall id d, In (id, d) rows -> lib_get l0 id = Some d) ->
  (forall id d, In (id, d) rows -> row_after isg f id d <> None) ->
  exists l', remap_rows rows l0 isg f = Some l' /\ akeys (ldata l') = akeys (ldata l0) /\ ltype l' = ltype l0 /\
    forall id, lib_get l' id = match aget Z.eqb rows id with
                               | Some d => row_after isg f id d
                               | None => lib_get l0 id end.
Proof.
  induction rows as [|[id d] r IH]; intros l0 N Z0 Hin Hf.
  - exists l0. cbn. repeat split; reflexivity.
  - cbn [map fst] in N, Z0. inversion N as [|? ? N1 N2]; subst.
    assert (Hid : id <> 0) by (intro X; apply Z0; left; exact X).
    assert (Z0' : ~ In 0 (map fst r)) by (intro X; apply Z0; right; exact X).
    cbn [remap_rows].
    pose proof (Hf id d (or_introl eq_refl)) as Hfd. unfold row_after in Hfd.
    assert (Hr : forall id' d', In (id', d') r -> id' <> id).
    { intros id' d' H X. subst. apply N1. apply (in_map fst) in H. exact H. }
    assert (Hskip : forall l1, (forall id', id' <> id -> lib_get l1 id' = lib_get l0 id') ->
              akeys (ldata l1) = akeys (ldata l0) -> ltype l1 = ltype l0 ->
              forall v, lib_get l1 id = v ->
              exists l', remap_rows r l1 isg f = Some l' /\ akeys (ldata l') = akeys (ldata l0) /\ ltype l' = ltype l0 /\
                forall id', lib_get l' id' = if id =? id' then v else
                                                     match aget Z.eqb r id' with
                                                     | Some d' => row_after isg f id' d' | None => lib_get l0 id' end).
    { intros l1 Hoth Hk Ht v Hv.
      destruct (IH l1 N2 Z0') as (l' & E & K & T & G).
      - intros id' d' H. rewrite Hoth by (eapply Hr; exact H). apply Hin. right. exact H.
      - intros id' d' H. apply Hf. right. exact H.
      - exists l'. split; [exact E|]. split; [congruence|]. split; [congruence|].
        intro id'. rewrite G. destruct (id =? id') eqn:Eid.
        + apply Z.eqb_eq in Eid. subst id'.
          assert (A : aget Z.eqb r id = None).
          { destruct (aget Z.eqb r id) eqn:A; [|reflexivity]. apply agetZ_In in A. exfalso. eapply Hr; [exact A|reflexivity]. }
          rewrite A. exact Hv.
        + apply Z.eqb_neq in Eid. destruct (aget Z.eqb r id'); [reflexivity|]. apply Hoth. congruence. }
    assert (Hfin : forall v l', (forall id', lib_get l' id' = if id =? id' then v else
                                                     match aget Z.eqb r id' with
                                                     | Some d' => row_after isg f id' d' | None => lib_get l0 id' end) ->
                 v = row_after isg f id d ->
                 forall id', lib_get l' id' = match aget Z.eqb ((id, d) :: r) id' with
                               | Some d0 => row_after isg f id' d0
                               | None => lib_get l0 id' end).
    { intros v l' G Ev id'. rewrite G. cbn [aget]. destruct (id =? id') eqn:Eid.
      - apply Z.eqb_eq in Eid. subst. reflexivity.
      - destruct (aget Z.eqb r id'); reflexivity. }
    pose proof (Hin id d (or_introl eq_refl)) as Hd.
    destruct (isg id) eqn:Eg.
    + destruct (f d) as [nd|] eqn:Efd; [|congruence].
      destruct (key_eqb d nd) eqn:Ek.
      * apply key_eqb_spec in Ek. subst nd.
        destruct (Hskip l0 (fun _ _ => eq_refl) eq_refl eq_refl (Some d) Hd) as (l' & E & K & T & G).
        exists l'. repeat split; try assumption. apply (Hfin (Some d)); [exact G|]. unfold row_after. rewrite Eg. congruence.
      * destruct (kupd_data l0 id nd Hid) as [D T1].
        destruct (Hskip (kupd l0 id nd 0)) with (v := Some nd) as (l' & E & K & T & G).
        -- intros id' H. unfold lib_get. rewrite D. apply agetZ_aset_other. exact H.
        -- rewrite D. apply akeys_asetZ_in. unfold lib_get in Hd. congruence.
        -- exact T1.
        -- unfold lib_get. rewrite D. apply agetZ_aset_same.
        -- exists l'. repeat split; try assumption. apply (Hfin (Some nd)); [exact G|]. unfold row_after. rewrite Eg. congruence.
    + destruct (Hskip l0 (fun _ _ => eq_refl) eq_refl eq_refl (Some d) Hd) as (l' & E & K & T & G).
      exists l'. repeat split; try assumption. apply (Hfin (Some d)); [exact G|]. unfold row_after. rewrite Eg. reflexivity.
Qed.

(* ---- remapping of the block table ---------------------------------------------------------------------- *)
Definition mapval (mp : list (Z * Z)) (z : Z) : Z := match aget Z.eqb mp z with Some v => v | None => 0 end.
Definition ev_rel (idxs : list nat) (mp : list (Z * Z)) (ev ev' : list Z) : Prop :=
  forall n, nth n ev' 0 = if existsb (Nat.eqb n) idxs then mapval mp (nth n ev 0) else nth n ev 0.
Definition remap_ev (idxs : list nat) (mp : list (Z * Z)) (ev : list Z) : option (list Z) :=
  fold_left (fun (acc : option (list Z)) (ix : nat) =>
               match acc with
               | None => None
               | Some e => match map_id mp (nth ix e 0) with
                           | Some v => Some (set_nth ix v e)
                           | None => None end
               end) idxs (Some ev).

Lemma set_nth_beyond {A} n (x : A) l : (length l <= n)%nat -> set_nth n x l = l.
Proof.
  revert n. induction l as [|y r IH]; intros [|n]; cbn; intro H; try lia; try reflexivity.
  rewrite IH by lia. reflexivity.
Qed.

Lemma remap_ev_spec mp : aget Z.eqb mp 0 = Some 0 -> forall idxs ev,
  NoDup idxs -> (forall ix, In ix idxs -> aget Z.eqb mp (nth ix ev 0) <> None) ->
  exists ev', remap_ev idxs mp ev = Some ev' /\ ev_rel idxs mp ev ev'.
Proof.
  intro Z0. induction idxs as [|ix r IH]; intros ev N H.
  - exists ev. split; [reflexivity|]. intro n. reflexivity.
  - inversion N as [|? ? N1 N2]; subst.
    unfold remap_ev. cbn [fold_left]. unfold map_id at 2.
    destruct (aget Z.eqb mp (nth ix ev 0)) as [v|] eqn:E; [|exfalso; apply (H ix (or_introl eq_refl)); exact E].
    destruct (IH (set_nth ix v ev) N2) as (ev' & E' & R).
    { intros ix' Hix. rewrite nth_set_nth_other by (intro X; subst; contradiction). apply H. right. exact Hix. }
    exists ev'. split; [exact E'|]. intro n. rewrite R. cbn [existsb].
    destruct (Nat.eqb n ix) eqn:En.
    + apply Nat.eqb_eq in En. subst n.
      assert (X : existsb (Nat.eqb ix) r = false).
      { destruct (existsb (Nat.eqb ix) r) eqn:X; [|reflexivity]. apply existsb_exists in X.
        destruct X as (y & Hy & Ey). apply Nat.eqb_eq in Ey. subst. contradiction. }
      rewrite X. cbn [orb]. unfold mapval. rewrite E.
      destruct (Nat.lt_ge_cases ix (length ev)) as [L|L].
      * apply nth_set_nth_same. exact L.
      * rewrite set_nth_beyond by exact L. rewrite nth_overflow in * by exact L. congruence.
    + cbn [orb]. apply Nat.eqb_neq in En. rewrite nth_set_nth_other by exact En. reflexivity.
Qed.

Definition blk_rel (idxs : list nat) (mp : list (Z * Z)) (p p' : Z * list Z) : Prop :=
  fst p' = fst p /\ ev_rel idxs mp (snd p) (snd p').

Lemma remap_blocks_spec mp idxs : aget Z.eqb mp 0 = Some 0 -> NoDup idxs -> forall bl,
  (forall b ev, In (b, ev) bl -> forall ix, In ix idxs -> aget Z.eqb mp (nth ix ev 0) <> None) ->
  exists bl', remap_blocks bl idxs mp = Some bl' /\ Forall2 (blk_rel idxs mp) bl bl'.
Proof.
  intros Z0 N. induction bl as [|[b ev] r IH]; intro H.
  - exists []. split; [reflexivity|constructor].
  - cbn [remap_blocks]. fold (remap_ev idxs mp ev).
    destruct (remap_ev_spec mp Z0 idxs ev N (H b ev (or_introl eq_refl))) as (ev' & E & R).
    rewrite E. destruct IH as (r' & E' & F); [intros b' e' Hb; apply (H b' e'); right; exact Hb|].
    rewrite E'. exists ((b, ev') :: r'). split; [reflexivity|]. constructor; [split; [reflexivity|exact R]|exact F].
Qed.

Lemma blk_rel_aget (R : list Z -> list Z -> Prop) : forall bl bl',
  Forall2 (fun p p' : Z * list Z => fst p' = fst p /\ R (snd p) (snd p')) bl bl' ->
  akeys bl' = akeys bl /\
  forall b ev, aget Z.eqb bl b = Some ev -> exists ev', aget Z.eqb bl' b = Some ev' /\ R ev ev'.
Proof.
  induction 1 as [|[b ev] [b' ev'] r r' [E1 E2] F IH]; [split; [reflexivity|discriminate]|].
  cbn [fst snd] in E1, E2. subst b'. destruct IH as [K G]. split; [cbn; f_equal; exact K|].
  intros b0 ev0. cbn [aget]. destruct (b =? b0); [|apply G].
  intro H. inversion H. subst. exists ev'. split; [reflexivity|exact E2].
Qed.

Lemma Forall2_In_l {A B} (R : A -> B -> Prop) l l' y : Forall2 R l l' -> In y l' -> exists x, In x l /\ R x y.
Proof.
  induction 1 as [|a b r r' H F IH]; intro Hy; [contradiction|]. destruct Hy as [<-|Hy].
  - exists a. split; [left; reflexivity|exact H].
  - destruct (IH Hy) as (x & Hx & Rx). exists x. split; [right; exact Hx|exact Rx].
Qed.

Lemma Forall2_In_r {A B} (R : A -> B -> Prop) l l' x : Forall2 R l l' -> In x l -> exists y, In y l' /\ R x y.
Proof.
  induction 1 as [|a b r r' H F IH]; intro Hx; [contradiction|]. destruct Hx as [<-|Hx].
  - exists b. split; [left; reflexivity|exact H].
  - destruct (IH Hx) as (y & Hy & Ry). exists y. split; [right; exact Hy|exact Ry].
Qed.

(* ---- well-formed stores with valid references -------------------------------------------------------------- *)
Definition lib_wf (l : klib) : Prop :=
  NoDup (akeys (ldata l)) /\ Forall (fun id => 0 < id) (akeys (ldata l)) /\ Forall (fun p : Z * Z => snd p <> 0) (ltype l).
Definition has (l : klib) (id : Z) : Prop := id = 0 \/ lib_get l id <> None.

Lemma lib_wf_pos l id k : lib_wf l -> lib_get l id = Some k -> 0 < id.
Proof.
  intros (_ & P & _) H. rewrite Forall_forall in P. apply P. eapply (aget_Some_in Z.eqb Zeqb_spec). exact H.
Qed.

Lemma lib_wf_zero l : lib_wf l -> lib_get l 0 = None.
Proof.
  intro W. destruct (lib_get l 0) eqn:E; [|reflexivity]. pose proof (lib_wf_pos _ _ _ W E). lia.
Qed.

Lemma lib_wf_tag l id : lib_wf l -> tag_view (lib_type l id) = lib_type l id.
Proof.
  intros (_ & _ & T). destruct (lib_type l id) as [t|] eqn:E; [|reflexivity]. cbn.
  unfold lib_type in E. apply agetZ_In in E. rewrite Forall_forall in T. specialize (T _ E). cbn in T.
  apply Z.eqb_neq in T. rewrite T. reflexivity.
Qed.

Lemma lrd_wf (rnd : key -> key) (l : klib) : lib_wf l -> lib_wf (fst (lib_remove_duplicates key_eqb rnd l)).
Proof.
  intros (N & _ & _).
  destruct (dedup_lib_invariant key key_eqb key_eqb_spec rnd l N) as (_ & P & N' & T).
  split; [exact N'|]. split; apply Forall_forall.
  - intros id H. apply in_map_iff in H. destruct H as ([id' k] & <- & H). cbn.
    apply agetZ_In_nodup in H; [|exact N']. apply (P _ _ H).
  - intros [j t] H. cbn. apply (T j t). unfold lib_type.
    (* ids of the type table are unique as well: go through aget *)
    destruct (aget Z.eqb (ltype (fst (lib_remove_duplicates key_eqb rnd l))) j) as [t'|] eqn:E.
    + destruct (Z.eq_dec t' t) as [->|Ne]; [reflexivity|]. exfalso.
      destruct (lrd_canonical key key_eqb key_eqb_spec rnd l N) as (ks & ts & Enl & _ & _ & _).
      rewrite Enl in H, E. cbn [ltype mk] in H, E.
      apply filter_In in H. destruct H as [H _].
      assert (A : aget Z.eqb (enum 1 ts) j = Some t).
      { apply agetZ_In_nodup; [|exact H]. rewrite akeys_enum. apply FinFun.Injective_map_NoDup; [|apply seq_NoDup].
        intros a b X. lia. }
      rewrite aget_filter_enum, A in E. cbn in E. destruct (t =? 0); congruence.
    + exfalso. apply (aget_None_notin Z.eqb Zeqb_spec) in E. apply E. apply (in_map fst) in H. exact H.
Qed.

(* the id mapping of one library on a reference that is 0 or an existing id *)
Lemma map_has (rnd : key -> key) (l : klib) z : lib_wf l -> has l z ->
  exists m, aget Z.eqb (snd (lib_remove_duplicates key_eqb rnd l)) z = Some m /\
    ((z = 0 /\ m = 0) \/
     (exists k, lib_get l z = Some k /\ lib_get (fst (lib_remove_duplicates key_eqb rnd l)) m = Some (rnd k) /\ 0 < z /\ 0 < m)).
Proof.
  intros W [->|H].
  - exists 0. split; [|left; split; reflexivity].
    apply (dedup_map_zero key key_eqb key_eqb_spec); [apply W|apply lib_wf_zero; exact W].
  - destruct (lib_get l z) as [k|] eqn:E; [|congruence].
    destruct (dedup_data_is_rounded key key_eqb key_eqb_spec rnd l (proj1 W) z k E) as (m & M & D).
    exists m. split; [exact M|right]. exists k. repeat split; try assumption.
    + eapply lib_wf_pos; eassumption.
    + eapply lib_wf_pos; [apply lrd_wf; exact W|exact D].
Qed.

Lemma Forall2_comp {A B C} (R1 : A -> B -> Prop) (R2 : B -> C -> Prop) a : forall b c,
  Forall2 R1 a b -> Forall2 R2 b c -> Forall2 (fun x z => exists y, R1 x y /\ R2 y z) a c.
Proof.
  induction a as [|x a IH]; intros b c F1 F2; inversion F1; subst; inversion F2; subst; constructor.
  - eexists. split; eassumption.
  - eapply IH; eassumption.
Qed.

Lemma Forall2_impl {A B} (R R' : A -> B -> Prop) a b : (forall x y, R x y -> R' x y) -> Forall2 R a b -> Forall2 R' a b.
Proof. intros H F. induction F; constructor; auto. Qed.

Section SeqDedup.
Variables r1 r2 r3 r4 : key -> key.
Notation lrd := (lib_remove_duplicates key_eqb).

Definition is_g (c : core) (id : Z) : bool :=
  match lib_type (grad_l c) id with Some t => t =? tag_g | None => false end.

(* every 'g' gradient row and every RF row refers to existing shape ids (0 = no time shape), every
   gradient is typed 't' or 'g', every block entry is 0 or an existing library id *)
Definition grad_row_ok (c : core) (p : Z * key) : Prop :=
  lib_type (grad_l c) (fst p) = Some tag_t \/
  (lib_type (grad_l c) (fst p) = Some tag_g /\
   exists a s1 s2 rest, snd p = a :: s1 :: s2 :: rest /\ has (shape_l c) (qz s1) /\ has (shape_l c) (qz s2)).
Definition rf_row_ok (c : core) (p : Z * key) : Prop :=
  exists a s1 s2 s3 rest, snd p = a :: s1 :: s2 :: s3 :: rest /\
    has (shape_l c) (qz s1) /\ has (shape_l c) (qz s2) /\ has (shape_l c) (qz s3).
Definition blk_ok (c : core) (p : Z * list Z) : Prop :=
  has (rf_l c) (nth 1 (snd p) 0) /\ has (grad_l c) (nth 2 (snd p) 0) /\ has (grad_l c) (nth 3 (snd p) 0) /\
  has (grad_l c) (nth 4 (snd p) 0) /\ has (adc_l c) (nth 5 (snd p) 0).
Definition RefsExist (c : core) : Prop :=
  Forall (grad_row_ok c) (ldata (grad_l c)) /\ Forall (rf_row_ok c) (ldata (rf_l c)) /\ Forall (blk_ok c) (blocks c).
(* ids are unique positive dict keys, the empty type tag is never stored *)
Definition StoreWf (c : core) : Prop :=
  lib_wf (shape_l c) /\ lib_wf (grad_l c) /\ lib_wf (rf_l c) /\ lib_wf (adc_l c).

(* the intermediate values of Sequence.remove_duplicates *)
Definition d_sl c := fst (lrd r1 (shape_l c)).
Definition d_smap c := snd (lrd r1 (shape_l c)).
Definition d_gl1 c := match remap_rows (ldata (grad_l c)) (grad_l c) (is_g c) (remap_grad_row (d_smap c)) with
                      | Some l => l | None => grad_l c end.
Definition d_rl1 c := match remap_rows (ldata (rf_l c)) (rf_l c) (fun _ => true) (remap_rf_row (d_smap c)) with
                      | Some l => l | None => rf_l c end.
Definition d_gl2 c := fst (lrd r2 (d_gl1 c)).
Definition d_gmap c := snd (lrd r2 (d_gl1 c)).
Definition d_rl2 c := fst (lrd r3 (d_rl1 c)).
Definition d_rmap c := snd (lrd r3 (d_rl1 c)).
Definition d_al2 c := fst (lrd r4 (adc_l c)).
Definition d_amap c := snd (lrd r4 (adc_l c)).

Definition smap_rel c (z m : Z) : Prop :=
  (z = 0 /\ m = 0) \/
  (exists k, lib_get (shape_l c) z = Some k /\ lib_get (d_sl c) m = Some (r1 k) /\ 0 < z /\ 0 < m).

Lemma map_atom_has c s : lib_wf (shape_l c) -> has (shape_l c) (qz s) ->
  exists m, map_atom (d_smap c) s = Some (zq m) /\ smap_rel c (qz s) m.
Proof.
  intros W H. destruct (map_has r1 (shape_l c) (qz s) W H) as (m & M & R).
  exists m. split; [unfold map_atom, map_id, d_smap; rewrite M; reflexivity|exact R].
Qed.

Lemma wf_rows (l : klib) : lib_wf l ->
  NoDup (map fst (ldata l)) /\ ~ In 0 (map fst (ldata l)) /\ (forall id d, In (id, d) (ldata l) -> lib_get l id = Some d).
Proof.
  intros (N & P & _). split; [exact N|]. split.
  - intro X. rewrite Forall_forall in P. specialize (P 0 X). lia.
  - intros id d H. apply agetZ_In_nodup; assumption.
Qed.

Lemma gl1_spec c : StoreWf c -> RefsExist c ->
  remap_rows (ldata (grad_l c)) (grad_l c) (is_g c) (remap_grad_row (d_smap c)) = Some (d_gl1 c) /\
  akeys (ldata (d_gl1 c)) = akeys (ldata (grad_l c)) /\ ltype (d_gl1 c) = ltype (grad_l c) /\
  (forall id, lib_get (grad_l c) id = None -> lib_get (d_gl1 c) id = None) /\
  (forall id d, lib_get (grad_l c) id = Some d ->
     (lib_type (grad_l c) id = Some tag_t /\ lib_get (d_gl1 c) id = Some d) \/
     (lib_type (grad_l c) id = Some tag_g /\ exists a s1 s2 rest m1 m2,
        d = a :: s1 :: s2 :: rest /\ remap_grad_row (d_smap c) d = Some (a :: zq m1 :: zq m2 :: rest) /\
        lib_get (d_gl1 c) id = Some (a :: zq m1 :: zq m2 :: rest) /\
        smap_rel c (qz s1) m1 /\ smap_rel c (qz s2) m2)).
Proof.
  intros (Ws & Wg & _ & _) (Rg & _ & _). rewrite Forall_forall in Rg.
  destruct (wf_rows _ Wg) as (N & Z0 & Hin).
  assert (Hrow : forall id d, In (id, d) (ldata (grad_l c)) ->
     (lib_type (grad_l c) id = Some tag_t /\ row_after (is_g c) (remap_grad_row (d_smap c)) id d = Some d) \/
     (lib_type (grad_l c) id = Some tag_g /\ exists a s1 s2 rest m1 m2,
        d = a :: s1 :: s2 :: rest /\ remap_grad_row (d_smap c) d = Some (a :: zq m1 :: zq m2 :: rest) /\
        row_after (is_g c) (remap_grad_row (d_smap c)) id d = Some (a :: zq m1 :: zq m2 :: rest) /\
        smap_rel c (qz s1) m1 /\ smap_rel c (qz s2) m2)).
  { intros id d H. destruct (Rg _ H) as [T|(T & a & s1 & s2 & rest & E & H1 & H2)]; cbn [fst snd] in *.
    - left. split; [exact T|]. unfold row_after, is_g. rewrite T. reflexivity.
    - right. split; [exact T|].
      destruct (map_atom_has c s1 Ws H1) as (m1 & M1 & R1). destruct (map_atom_has c s2 Ws H2) as (m2 & M2 & R2).
      exists a, s1, s2, rest, m1, m2. subst d.
      assert (X : remap_grad_row (d_smap c) (a :: s1 :: s2 :: rest) = Some (a :: zq m1 :: zq m2 :: rest)).
      { cbn [remap_grad_row]. rewrite M1, M2. reflexivity. }
      repeat split; try assumption. unfold row_after, is_g. rewrite T. cbn. exact X. }
  destruct (remap_rows_spec (is_g c) (remap_grad_row (d_smap c)) (ldata (grad_l c)) (grad_l c) N Z0 Hin) as (l' & E & K & T & G).
  { intros id d H. destruct (Hrow id d H) as [[_ X]|(_ & a & s1 & s2 & rest & m1 & m2 & _ & _ & X & _)]; rewrite X; discriminate. }
  unfold d_gl1. rewrite E. repeat split; try assumption.
  - intros id H. rewrite G. fold (lib_get (grad_l c) id). rewrite H. reflexivity.
  - intros id d H. pose proof (G id) as Gi. fold (lib_get (grad_l c) id) in Gi. rewrite H in Gi.
    apply agetZ_In in H.
    destruct (Hrow id d H) as [[T1 X]|(T1 & a & s1 & s2 & rest & m1 & m2 & E1 & E2 & X & R1 & R2)].
    + left. split; [exact T1|congruence].
    + right. split; [exact T1|]. exists a, s1, s2, rest, m1, m2. repeat split; try assumption. congruence.
Qed.

Lemma rl1_spec c : StoreWf c -> RefsExist c ->
  remap_rows (ldata (rf_l c)) (rf_l c) (fun _ => true) (remap_rf_row (d_smap c)) = Some (d_rl1 c) /\
  akeys (ldata (d_rl1 c)) = akeys (ldata (rf_l c)) /\ ltype (d_rl1 c) = ltype (rf_l c) /\
  (forall id, lib_get (rf_l c) id = None -> lib_get (d_rl1 c) id = None) /\
  (forall id d, lib_get (rf_l c) id = Some d ->
     exists a s1 s2 s3 rest m1 m2 m3,
        d = a :: s1 :: s2 :: s3 :: rest /\
        remap_rf_row (d_smap c) d = Some (a :: zq m1 :: zq m2 :: zq m3 :: rest) /\
        lib_get (d_rl1 c) id = Some (a :: zq m1 :: zq m2 :: zq m3 :: rest) /\
        smap_rel c (qz s1) m1 /\ smap_rel c (qz s2) m2 /\ smap_rel c (qz s3) m3).
Proof.
  intros (Ws & _ & Wr & _) (_ & Rr & _). rewrite Forall_forall in Rr.
  destruct (wf_rows _ Wr) as (N & Z0 & Hin).
  assert (Hrow : forall id d, In (id, d) (ldata (rf_l c)) ->
     exists a s1 s2 s3 rest m1 m2 m3,
        d = a :: s1 :: s2 :: s3 :: rest /\
        remap_rf_row (d_smap c) d = Some (a :: zq m1 :: zq m2 :: zq m3 :: rest) /\
        smap_rel c (qz s1) m1 /\ smap_rel c (qz s2) m2 /\ smap_rel c (qz s3) m3).
  { intros id d H. destruct (Rr _ H) as (a & s1 & s2 & s3 & rest & E & H1 & H2 & H3). cbn [snd] in E.
    destruct (map_atom_has c s1 Ws H1) as (m1 & M1 & R1). destruct (map_atom_has c s2 Ws H2) as (m2 & M2 & R2).
    destruct (map_atom_has c s3 Ws H3) as (m3 & M3 & R3).
    exists a, s1, s2, s3, rest, m1, m2, m3. subst d. repeat split; try assumption.
    cbn [remap_rf_row]. rewrite M1, M2, M3. reflexivity. }
  destruct (remap_rows_spec (fun _ => true) (remap_rf_row (d_smap c)) (ldata (rf_l c)) (rf_l c) N Z0 Hin) as (l' & E & K & T & G).
  { intros id d H. destruct (Hrow id d H) as (a & s1 & s2 & s3 & rest & m1 & m2 & m3 & _ & X & _).
    unfold row_after. rewrite X. discriminate. }
  unfold d_rl1. rewrite E. repeat split; try assumption.
  - intros id H. rewrite G. fold (lib_get (rf_l c) id). rewrite H. reflexivity.
  - intros id d H. pose proof (G id) as Gi. fold (lib_get (rf_l c) id) in Gi. rewrite H in Gi.
    apply agetZ_In in H.
    destruct (Hrow id d H) as (a & s1 & s2 & s3 & rest & m1 & m2 & m3 & E1 & X & R1 & R2 & R3).
    exists a, s1, s2, s3, rest, m1, m2, m3. repeat split; try assumption. unfold row_after in Gi. congruence.
Qed.

Lemma wf_same_keys (l l' : klib) : akeys (ldata l') = akeys (ldata l) -> ltype l' = ltype l -> lib_wf l -> lib_wf l'.
Proof. intros K T (A & B & C). unfold lib_wf. rewrite K, T. repeat split; assumption. Qed.

Lemma gl1_wf c : StoreWf c -> RefsExist c -> lib_wf (d_gl1 c).
Proof. intros W R. destruct (gl1_spec c W R) as (_ & K & T & _). eapply wf_same_keys; [exact K|exact T|apply W]. Qed.
Lemma rl1_wf c : StoreWf c -> RefsExist c -> lib_wf (d_rl1 c).
Proof. intros W R. destruct (rl1_spec c W R) as (_ & K & T & _). eapply wf_same_keys; [exact K|exact T|apply W]. Qed.

Lemma has_gl1 c z : StoreWf c -> RefsExist c -> has (grad_l c) z -> has (d_gl1 c) z.
Proof.
  intros W R [->|H]; [left; reflexivity|right]. destruct (lib_get (grad_l c) z) as [d|] eqn:E; [|congruence].
  destruct (gl1_spec c W R) as (_ & _ & _ & _ & G).
  destruct (G z d E) as [[_ X]|(_ & a & s1 & s2 & rest & m1 & m2 & _ & _ & X & _)]; congruence.
Qed.
Lemma has_rl1 c z : StoreWf c -> RefsExist c -> has (rf_l c) z -> has (d_rl1 c) z.
Proof.
  intros W R [->|H]; [left; reflexivity|right]. destruct (lib_get (rf_l c) z) as [d|] eqn:E; [|congruence].
  destruct (rl1_spec c W R) as (_ & _ & _ & _ & G).
  destruct (G z d E) as (a & s1 & s2 & s3 & rest & m1 & m2 & m3 & _ & _ & X & _). congruence.
Qed.

(* what happens to one row of the block table *)
Definition colmap c (n : nat) (z : Z) : Z :=
  match n with
  | 1%nat => mapval (d_rmap c) z
  | 2%nat | 3%nat | 4%nat => mapval (d_gmap c) z
  | 5%nat => mapval (d_amap c) z
  | _ => z
  end.
Definition ev_fin c (ev ev' : list Z) : Prop := forall n, nth n ev' 0 = colmap c n (nth n ev 0).

Lemma map_zero (rnd : key -> key) (l : klib) : lib_wf l -> aget Z.eqb (snd (lrd rnd l)) 0 = Some 0.
Proof. intro W. apply (dedup_map_zero key key_eqb key_eqb_spec); [apply W|apply lib_wf_zero; exact W]. Qed.

Lemma map_has_ne (rnd : key -> key) (l : klib) z : lib_wf l -> has l z -> aget Z.eqb (snd (lrd rnd l)) z <> None.
Proof. intros W H. destruct (map_has rnd l z W H) as (m & M & _). congruence. Qed.

Lemma dedup_core_spec c : StoreWf c -> RefsExist c ->
  exists b3, dedup_core r1 r2 r3 r4 c =
    Some (c <| shape_l := d_sl c |> <| grad_l := d_gl2 c |> <| rf_l := d_rl2 c |> <| adc_l := d_al2 c |> <| blocks := b3 |>) /\
    Forall2 (fun p p' => fst p' = fst p /\ ev_fin c (snd p) (snd p')) (blocks c) b3.
Proof.
  intros W R. pose proof W as (Ws & Wg & Wr & Wa). pose proof R as (_ & _ & Rb). rewrite Forall_forall in Rb.
  destruct (gl1_spec c W R) as (Eg & _). destruct (rl1_spec c W R) as (Er & _).
  pose proof (gl1_wf c W R) as Wg1. pose proof (rl1_wf c W R) as Wr1.
  destruct (remap_blocks_spec (d_gmap c) [2; 3; 4]%nat (map_zero r2 _ Wg1)) with (bl := blocks c) as (b1 & E1 & F1).
  { repeat constructor; cbn; intuition lia. }
  { intros b ev H ix Hix. apply map_has_ne; [exact Wg1|]. apply has_gl1; [exact W|exact R|].
    destruct (Rb _ H) as (_ & H2 & H3 & H4 & _). cbn [snd] in *.
    destruct Hix as [<-|[<-|[<-|[]]]]; assumption. }
  assert (P1 : forall b ev1, In (b, ev1) b1 -> exists ev, In (b, ev) (blocks c) /\ ev_rel [2; 3; 4]%nat (d_gmap c) ev ev1).
  { intros b ev1 H. destruct (Forall2_In_l _ _ _ _ F1 H) as ([b' ev] & Hx & E & Rx). cbn [fst snd] in *. subst b'.
    exists ev. split; assumption. }
  destruct (remap_blocks_spec (d_rmap c) [1]%nat (map_zero r3 _ Wr1)) with (bl := b1) as (b2 & E2 & F2).
  { repeat constructor. cbn. tauto. }
  { intros b ev1 H ix Hix. destruct Hix as [<-|[]]. destruct (P1 _ _ H) as (ev & Hev & Rv).
    rewrite (Rv 1%nat). cbn [existsb Nat.eqb orb]. apply map_has_ne; [exact Wr1|]. apply has_rl1; [exact W|exact R|].
    destruct (Rb _ Hev) as (H1 & _). exact H1. }
  assert (P2 : forall b ev2, In (b, ev2) b2 -> exists ev, In (b, ev) (blocks c) /\ nth 5 ev2 0 = nth 5 ev 0).
  { intros b ev2 H. destruct (Forall2_In_l _ _ _ _ F2 H) as ([b' ev1] & Hx & E & Rx). cbn [fst snd] in *. subst b'.
    destruct (P1 _ _ Hx) as (ev & Hev & Rv). exists ev. split; [exact Hev|].
    rewrite (Rx 5%nat), (Rv 5%nat). reflexivity. }
  destruct (remap_blocks_spec (d_amap c) [5]%nat (map_zero r4 _ Wa)) with (bl := b2) as (b3 & E3 & F3).
  { repeat constructor. cbn. tauto. }
  { intros b ev2 H ix Hix. destruct Hix as [<-|[]]. destruct (P2 _ _ H) as (ev & Hev & E5). rewrite E5.
    apply map_has_ne; [exact Wa|]. destruct (Rb _ Hev) as (_ & _ & _ & _ & H5). exact H5. }
  exists b3. split.
  - unfold dedup_core.
    rewrite (surjective_pairing (lrd r1 (shape_l c))). fold (d_sl c) (d_smap c).
    unfold is_g in Eg. rewrite Eg. cbn [opt_bind]. rewrite Er. cbn [opt_bind].
    rewrite (surjective_pairing (lrd r2 (d_gl1 c))). fold (d_gl2 c) (d_gmap c). rewrite E1. cbn [opt_bind].
    rewrite (surjective_pairing (lrd r3 (d_rl1 c))). fold (d_rl2 c) (d_rmap c). rewrite E2. cbn [opt_bind].
    rewrite (surjective_pairing (lrd r4 (adc_l c))). fold (d_al2 c) (d_amap c). rewrite E3. cbn [opt_bind].
    reflexivity.
  - pose proof (Forall2_comp _ _ _ _ _ (Forall2_comp _ _ _ _ _ F1 F2) F3) as F.
    eapply Forall2_impl; [|exact F].
    intros [b ev] [b' ev3] ([bb ev2] & ([ba ev1] & [A1 A2] & [B1 B2]) & [C1 C2]). cbn [fst snd] in *.
    split; [congruence|]. intro n. rewrite (C2 n), (B2 n), (A2 n).
    do 6 (destruct n as [|n]; [reflexivity|]). reflexivity.
Qed.

(* ---- decoding after duplicate removal ------------------------------------------------------------------------ *)
(* merged rows carry the same type tag (needed: the tag of a class is that of its first member) *)
Definition tags_agree (rnd : key -> key) (l : klib) : Prop :=
  forall i1 i2 k1 k2, lib_get l i1 = Some k1 -> lib_get l i2 = Some k2 -> rnd k1 = rnd k2 -> lib_type l i1 = lib_type l i2.
Definition TagsAgree (c : core) : Prop := tags_agree r2 (d_gl1 c) /\ tags_agree r3 (d_rl1 c).
(* the rounding leaves integer shape-id columns alone *)
Definition KeepIds2 : Prop := forall a m1 m2 rest, exists a' s1' s2' rest',
  r2 (a :: zq m1 :: zq m2 :: rest) = a' :: s1' :: s2' :: rest' /\ qz s1' = m1 /\ qz s2' = m2.
Definition KeepIds3 : Prop := forall a m1 m2 m3 rest, exists a' s1' s2' s3' rest',
  r3 (a :: zq m1 :: zq m2 :: zq m3 :: rest) = a' :: s1' :: s2' :: s3' :: rest' /\ qz s1' = m1 /\ qz s2' = m2 /\ qz s3' = m3.

Definition rm_grad c (ty : Z) (d : key) : key :=
  if ty =? tag_g then match remap_grad_row (d_smap c) d with Some nd => nd | None => d end else d.
Definition rm_rf c (d : key) : key := match remap_rf_row (d_smap c) d with Some nd => nd | None => d end.
Definition rd_grad c (g : dgrad) : dgrad :=
  mkDGrad (dg_type g) (r2 (rm_grad c (dg_type g) (dg_data g))) (map r1 (dg_shapes g)).
Definition rd_rf c (x : key * Z * list key) : key * Z * list key :=
  let '(d, u, shs) := x in (r3 (rm_rf c d), u, map r1 shs).
(* a decoded block with every library row replaced by its rounded row (shape ids renumbered) and
   every shape payload by its rounded payload; duration and extensions untouched *)
Definition round_dblock c (b : dblock) : dblock :=
  mkDBlock (d_dur b) (option_map (rd_rf c) (d_rf b)) (map (option_map (rd_grad c)) (d_g b))
           (option_map r4 (d_adc b)) (d_ext b).

Lemma new_lookup (rnd : key -> key) (l : klib) id d :
  lib_wf l -> tags_agree rnd l -> lib_get l id = Some d ->
  exists j, mapval (snd (lrd rnd l)) id = j /\ 0 < j /\ lib_get (fst (lrd rnd l)) j = Some (rnd d) /\
            lib_type (fst (lrd rnd l)) j = lib_type l id.
Proof.
  intros W T H.
  destruct (dedup_data_is_rounded key key_eqb key_eqb_spec rnd l (proj1 W) id d H) as (j & M & D).
  exists j. split; [unfold mapval; rewrite M; reflexivity|]. split; [eapply lib_wf_pos; [apply lrd_wf; exact W|exact D]|].
  split; [exact D|].
  destruct (dedup_onto key key_eqb key_eqb_spec rnd l (proj1 W) j _ D) as (i0 & k0 & [G0 _] & _ & R & Ty).
  rewrite Ty, (lib_wf_tag l i0 W). apply (T i0 id k0 d G0 H). congruence.
Qed.

Lemma shape_after c c' z m k : lib_wf (shape_l c) -> shape_l c' = d_sl c ->
  smap_rel c z m -> get_shape c z = Some k -> get_shape c' m = Some (r1 k) /\ 0 < z /\ 0 < m.
Proof.
  intros W E [[-> ->]|(k' & G & D & Pz & Pm)] H; unfold get_shape in *.
  - rewrite (lib_wf_zero _ W) in H. discriminate.
  - rewrite E. rewrite G in H. inversion H. subst. repeat split; assumption.
Qed.

Lemma dec_adc_dedup c c' id x : StoreWf c -> adc_l c' = d_al2 c -> has (adc_l c) id ->
  dec_adc c id = Some x -> dec_adc c' (mapval (d_amap c) id) = Some (option_map r4 x).
Proof.
  intros (_ & _ & _ & W) E H D. destruct (map_has r4 (adc_l c) id W H) as (m & M & [[-> ->]|(k & G & N & Pz & Pm)]);
    unfold mapval, d_amap; rewrite M.
  - cbn in D. inversion D. reflexivity.
  - unfold dec_adc in *. assert (L1 : id <=? 0 = false) by (apply Z.leb_gt; lia).
    assert (L2 : m <=? 0 = false) by (apply Z.leb_gt; lia). rewrite L1 in D. rewrite L2. rewrite G in D. cbn in D.
    inversion D. rewrite E. unfold d_al2. rewrite N. reflexivity.
Qed.

Lemma lib_type_same (l l' : klib) id : ltype l' = ltype l -> lib_type l' id = lib_type l id.
Proof. intro H. unfold lib_type. rewrite H. reflexivity. Qed.

Lemma dec_grad_dedup c c' id x : StoreWf c -> RefsExist c -> KeepIds2 -> tags_agree r2 (d_gl1 c) ->
  grad_l c' = d_gl2 c -> shape_l c' = d_sl c -> has (grad_l c) id ->
  dec_grad c id = Some x -> dec_grad c' (mapval (d_gmap c) id) = Some (option_map (rd_grad c) x).
Proof.
  intros W R KI TA Eg Es H D. pose proof W as (Ws & Wg & _ & _).
  pose proof (gl1_wf c W R) as Wg1. destruct (gl1_spec c W R) as (_ & _ & LT & _ & G).
  destruct H as [->|H].
  - unfold mapval, d_gmap. rewrite (map_zero r2 _ Wg1). cbn in D. inversion D. reflexivity.
  - destruct (lib_get (grad_l c) id) as [d|] eqn:Ed; [|congruence].
    assert (Pid : 0 < id) by (apply (lib_wf_pos _ _ _ Wg Ed)).
    assert (L1 : id <=? 0 = false) by (apply Z.leb_gt; lia).
    unfold dec_grad in D. rewrite L1, Ed in D.
    destruct (G id d Ed) as [[Ty G1]|(Ty & a & s1 & s2 & rest & m1 & m2 & E1 & E2 & G1 & R1 & R2)];
      rewrite Ty in D; cbn [opt_bind] in D;
      destruct (new_lookup r2 (d_gl1 c) id _ Wg1 TA G1) as (j & Mj & Pj & Dj & Tj);
      fold (d_gmap c) in Mj; fold (d_gl2 c) in Dj, Tj; rewrite Mj;
      assert (L2 : j <=? 0 = false) by (apply Z.leb_gt; lia);
      rewrite (lib_type_same _ _ id LT), Ty in Tj;
      unfold dec_grad; rewrite L2, Eg, Tj, Dj; cbn [opt_bind].
    + change (tag_t =? tag_t) with true in *. cbv iota in D |- *. inversion D. cbn [option_map]. unfold rd_grad, rm_grad. cbn. reflexivity.
    + change (tag_g =? tag_t) with false in *. cbv iota in D |- *. subst d.
      destruct (KI a m1 m2 rest) as (a' & s1' & s2' & rest' & EK & K1 & K2). rewrite EK.
      change (knth (a' :: s1' :: s2' :: rest') 1) with s1'. change (knth (a' :: s1' :: s2' :: rest') 2) with s2'.
      rewrite K1, K2. rewrite <- EK.
      change (knth (a :: s1 :: s2 :: rest) 1) with s1 in D. change (knth (a :: s1 :: s2 :: rest) 2) with s2 in D.
      destruct (get_shape c (qz s1)) as [ws|] eqn:S1; cbn [opt_bind] in D; [|discriminate].
      destruct (shape_after c c' _ _ _ Ws Es R1 S1) as (S1' & _ & _). rewrite S1'. cbn [opt_bind].
      assert (RM : rm_grad c tag_g (a :: s1 :: s2 :: rest) = a :: zq m1 :: zq m2 :: rest).
      { unfold rm_grad. change (tag_g =? tag_g) with true. cbv iota. rewrite E2. reflexivity. }
      destruct R2 as [[Z2 ->]|(k2 & G2 & D2 & P2 & Pm2)].
      * rewrite Z2 in D. cbn in D. inversion D. cbn [option_map]. unfold rd_grad. cbn [dg_type dg_data dg_shapes map].
        rewrite RM. reflexivity.
      * assert (N2 : qz s2 =? 0 = false) by (apply Z.eqb_neq; lia). assert (N2' : m2 =? 0 = false) by (apply Z.eqb_neq; lia).
        rewrite N2 in D. rewrite N2'. unfold get_shape in D |- *. rewrite G2 in D. cbn [opt_bind] in D. inversion D.
        rewrite Es, D2. cbn [opt_bind option_map]. unfold rd_grad. cbn [dg_type dg_data dg_shapes map]. rewrite RM. reflexivity.
Qed.

Lemma dec_rf_dedup c c' id x : StoreWf c -> RefsExist c -> KeepIds3 -> tags_agree r3 (d_rl1 c) ->
  rf_l c' = d_rl2 c -> shape_l c' = d_sl c -> has (rf_l c) id ->
  dec_rf c id = Some x -> dec_rf c' (mapval (d_rmap c) id) = Some (option_map (rd_rf c) x).
Proof.
  intros W R KI TA Er Es H D. pose proof W as (Ws & _ & Wr & _).
  pose proof (rl1_wf c W R) as Wr1. destruct (rl1_spec c W R) as (_ & _ & LT & _ & G).
  destruct H as [->|H].
  - unfold mapval, d_rmap. rewrite (map_zero r3 _ Wr1). cbn in D. inversion D. reflexivity.
  - destruct (lib_get (rf_l c) id) as [d|] eqn:Ed; [|congruence].
    assert (Pid : 0 < id) by (apply (lib_wf_pos _ _ _ Wr Ed)).
    assert (L1 : id <=? 0 = false) by (apply Z.leb_gt; lia).
    unfold dec_rf in D. rewrite L1, Ed in D. cbn [opt_bind] in D. cbv zeta in D.
    destruct (G id d Ed) as (a & s1 & s2 & s3 & rest & m1 & m2 & m3 & E1 & E2 & G1 & R1 & R2 & R3).
    destruct (new_lookup r3 (d_rl1 c) id _ Wr1 TA G1) as (j & Mj & Pj & Dj & Tj).
    fold (d_rmap c) in Mj. fold (d_rl2 c) in Dj, Tj. rewrite Mj.
    assert (L2 : j <=? 0 = false) by (apply Z.leb_gt; lia).
    rewrite (lib_type_same _ _ id LT) in Tj.
    unfold dec_rf. rewrite L2, Er, Dj, Tj. cbn [opt_bind]. cbv zeta. subst d.
    destruct (KI a m1 m2 m3 rest) as (a' & s1' & s2' & s3' & rest' & EK & K1 & K2 & K3). rewrite EK.
    change (knth (a' :: s1' :: s2' :: s3' :: rest') 1) with s1'. change (knth (a' :: s1' :: s2' :: s3' :: rest') 2) with s2'.
    change (knth (a' :: s1' :: s2' :: s3' :: rest') 3) with s3'. rewrite K1, K2, K3. rewrite <- EK.
    change (knth (a :: s1 :: s2 :: s3 :: rest) 1) with s1 in D. change (knth (a :: s1 :: s2 :: s3 :: rest) 2) with s2 in D.
    change (knth (a :: s1 :: s2 :: s3 :: rest) 3) with s3 in D.
    destruct (get_shape c (qz s1)) as [mag|] eqn:S1; cbn [opt_bind] in D; [|discriminate].
    destruct (get_shape c (qz s2)) as [ph|] eqn:S2; cbn [opt_bind] in D; [|discriminate].
    destruct (shape_after c c' _ _ _ Ws Es R1 S1) as (S1' & _ & _). destruct (shape_after c c' _ _ _ Ws Es R2 S2) as (S2' & _ & _).
    rewrite S1', S2'. cbn [opt_bind].
    assert (RM : rm_rf c (a :: s1 :: s2 :: s3 :: rest) = a :: zq m1 :: zq m2 :: zq m3 :: rest).
    { unfold rm_rf. rewrite E2. reflexivity. }
    destruct R3 as [[Z3 ->]|(k3 & G3 & D3 & P3 & Pm3)].
    + rewrite Z3 in D. cbn in D. inversion D. cbn [option_map]. unfold rd_rf. cbn [map]. rewrite RM. reflexivity.
    + assert (N3 : 0 <? qz s3 = true) by (apply Z.ltb_lt; lia). assert (N3' : 0 <? m3 = true) by (apply Z.ltb_lt; lia).
      rewrite N3 in D. rewrite N3'. unfold get_shape in D |- *. rewrite G3 in D. cbn [opt_bind] in D. inversion D.
      rewrite Es, D3. cbn [opt_bind option_map]. unfold rd_rf. cbn [map]. rewrite RM. reflexivity.
Qed.

Lemma dec_ext_cong2 c c' :
  trig_l c' = trig_l c -> lset_l c' = lset_l c -> linc_l c' = linc_l c -> ext_l c' = ext_l c ->
  ext_num c' = ext_num c -> ext_str c' = ext_str c ->
  forall f eid, dec_ext c' f eid = dec_ext c f eid.
Proof.
  intros H4 H5 H6 H7 H9 H10.
  induction f as [|f IH]; intro eid; rewrite (dec_ext_unfold c), (dec_ext_unfold c').
  - reflexivity.
  - destruct (eid =? 0); [reflexivity|].
    unfold ext_type_str. rewrite H4, H5, H6, H7, H9, H10.
    apply opt_bind_ext; intro ed. apply opt_bind_ext; intro s0. cbv zeta.
    apply opt_bind_ext; intro p. rewrite IH. reflexivity.
Qed.

(* the result of remove_duplicates *)
Definition d_core c (b3 : list (Z * list Z)) : core :=
  c <| shape_l := d_sl c |> <| grad_l := d_gl2 c |> <| rf_l := d_rl2 c |> <| adc_l := d_al2 c |> <| blocks := b3 |>.

Theorem dedup_decodes_rounded c : StoreWf c -> RefsExist c -> KeepIds2 -> KeepIds3 -> TagsAgree c ->
  exists c', dedup_core r1 r2 r3 r4 c = Some c' /\
    akeys (blocks c') = akeys (blocks c) /\ durs c' = durs c /\
    forall i b, decode c i = Some b -> decode c' i = Some (round_dblock c b).
Proof.
  intros W R K2 K3 [TA2 TA3]. destruct (dedup_core_spec c W R) as (b3 & E & F).
  fold (d_core c b3) in E. exists (d_core c b3). split; [exact E|].
  destruct (blk_rel_aget (ev_fin c) _ _ F) as [Kb Gb].
  split; [exact Kb|]. split; [reflexivity|].
  intros i b H. unfold decode in H.
  destruct (aget Z.eqb (blocks c) i) as [ev|] eqn:Eev; cbn [opt_bind] in H; [|discriminate].
  destruct (dec_rf c (nth 1 ev 0)) as [rf|] eqn:Erf; cbn [opt_bind] in H; [|discriminate].
  destruct (dec_grad c (nth 2 ev 0)) as [gx|] eqn:Egx; cbn [opt_bind] in H; [|discriminate].
  destruct (dec_grad c (nth 3 ev 0)) as [gy|] eqn:Egy; cbn [opt_bind] in H; [|discriminate].
  destruct (dec_grad c (nth 4 ev 0)) as [gz|] eqn:Egz; cbn [opt_bind] in H; [|discriminate].
  destruct (dec_adc c (nth 5 ev 0)) as [adc|] eqn:Eadc; cbn [opt_bind] in H; [|discriminate].
  destruct (if 0 <? nth 6 ev 0 then dec_ext c (S (length (ldata (ext_l c)))) (nth 6 ev 0) else Some []) as [ext|] eqn:Eext;
    cbn [opt_bind] in H; [|discriminate].
  destruct (aget Z.eqb (durs c) i) as [d|] eqn:Ed; cbn [opt_bind] in H; [|discriminate].
  inversion H. subst b. clear H.
  destruct (Gb i ev Eev) as (ev3 & Eev3 & Rv).
  pose proof R as (_ & _ & Rb). rewrite Forall_forall in Rb.
  destruct (Rb _ (agetZ_In _ _ _ Eev)) as (H1 & H2 & H3 & H4 & H5). cbn [snd] in *.
  unfold decode. change (blocks (d_core c b3)) with b3. rewrite Eev3. cbn [opt_bind].
  rewrite (Rv 1%nat), (Rv 2%nat), (Rv 3%nat), (Rv 4%nat), (Rv 5%nat), (Rv 6%nat). cbn [colmap].
  rewrite (dec_rf_dedup c (d_core c b3) _ _ W R K3 TA3 eq_refl eq_refl H1 Erf). cbn [opt_bind].
  rewrite (dec_grad_dedup c (d_core c b3) _ _ W R K2 TA2 eq_refl eq_refl H2 Egx). cbn [opt_bind].
  rewrite (dec_grad_dedup c (d_core c b3) _ _ W R K2 TA2 eq_refl eq_refl H3 Egy). cbn [opt_bind].
  rewrite (dec_grad_dedup c (d_core c b3) _ _ W R K2 TA2 eq_refl eq_refl H4 Egz). cbn [opt_bind].
  rewrite (dec_adc_dedup c (d_core c b3) _ _ W eq_refl H5 Eadc). cbn [opt_bind].
  change (ext_l (d_core c b3)) with (ext_l c).
  rewrite (dec_ext_cong2 c (d_core c b3) eq_refl eq_refl eq_refl eq_refl eq_refl eq_refl).
  rewrite Eext. cbn [opt_bind]. change (durs (d_core c b3)) with (durs c). rewrite Ed. reflexivity.
Qed.

(* ---- references stay valid --------------------------------------------------------------------------------- *)
Lemma has_mapped (rnd : key -> key) (l : klib) z : lib_wf l -> has l z ->
  has (fst (lrd rnd l)) (mapval (snd (lrd rnd l)) z).
Proof.
  intros W H. destruct (map_has rnd l z W H) as (m & M & [[_ ->]|(k & _ & D & _)]); unfold mapval; rewrite M.
  - left. reflexivity.
  - right. congruence.
Qed.

Lemma smap_rel_has c z m : smap_rel c z m -> has (d_sl c) m.
Proof. intros [[_ ->]|(k & _ & D & _)]; [left; reflexivity|right; congruence]. Qed.

Theorem dedup_refs_exist c : StoreWf c -> RefsExist c -> KeepIds2 -> KeepIds3 ->
  exists c', dedup_core r1 r2 r3 r4 c = Some c' /\ StoreWf c' /\ RefsExist c'.
Proof.
  intros W R K2 K3. destruct (dedup_core_spec c W R) as (b3 & E & F).
  fold (d_core c b3) in E. exists (d_core c b3). split; [exact E|].
  pose proof W as (Ws & Wg & Wr & Wa). pose proof (gl1_wf c W R) as Wg1. pose proof (rl1_wf c W R) as Wr1.
  assert (W' : StoreWf (d_core c b3)).
  { repeat split; apply lrd_wf; assumption. }
  split; [exact W'|]. destruct W' as (Ws' & Wg' & Wr' & Wa').
  change (shape_l (d_core c b3)) with (d_sl c) in *. change (grad_l (d_core c b3)) with (d_gl2 c) in *.
  change (rf_l (d_core c b3)) with (d_rl2 c) in *. change (adc_l (d_core c b3)) with (d_al2 c) in *.
  destruct (gl1_spec c W R) as (_ & _ & LTg & Ng & Gg). destruct (rl1_spec c W R) as (_ & _ & LTr & Nr & Gr).
  split; [|split]; apply Forall_forall.
  - intros [j k'] H. unfold grad_row_ok. cbn [fst snd].
    change (shape_l (d_core c b3)) with (d_sl c). change (grad_l (d_core c b3)) with (d_gl2 c).
    apply (proj2 (proj2 (wf_rows _ Wg'))) in H.
    destruct (dedup_onto key key_eqb key_eqb_spec r2 (d_gl1 c) (proj1 Wg1) j k' H) as (i0 & k0 & [G0 _] & _ & -> & Ty).
    fold (d_gl2 c) in Ty. rewrite (lib_wf_tag _ i0 Wg1), (lib_type_same _ _ i0 LTg) in Ty.
    destruct (lib_get (grad_l c) i0) as [d0|] eqn:E0; [|rewrite (Ng i0 E0) in G0; discriminate].
    destruct (Gg i0 d0 E0) as [[T1 _]|(T1 & a & s1 & s2 & rest & m1 & m2 & _ & _ & G1 & R1 & R2)].
    + left. congruence.
    + right. split; [congruence|]. rewrite G1 in G0. inversion G0. subst k0.
      destruct (K2 a m1 m2 rest) as (a' & s1' & s2' & rest' & EK & Q1 & Q2).
      exists a', s1', s2', rest'. split; [exact EK|]. rewrite Q1, Q2. split; eapply smap_rel_has; eassumption.
  - intros [j k'] H. unfold rf_row_ok. cbn [fst snd].
    change (shape_l (d_core c b3)) with (d_sl c).
    apply (proj2 (proj2 (wf_rows _ Wr'))) in H.
    destruct (dedup_onto key key_eqb key_eqb_spec r3 (d_rl1 c) (proj1 Wr1) j k' H) as (i0 & k0 & [G0 _] & _ & -> & _).
    destruct (lib_get (rf_l c) i0) as [d0|] eqn:E0; [|rewrite (Nr i0 E0) in G0; discriminate].
    destruct (Gr i0 d0 E0) as (a & s1 & s2 & s3 & rest & m1 & m2 & m3 & _ & _ & G1 & R1 & R2 & R3).
    rewrite G1 in G0. inversion G0. subst k0.
    destruct (K3 a m1 m2 m3 rest) as (a' & s1' & s2' & s3' & rest' & EK & Q1 & Q2 & Q3).
    exists a', s1', s2', s3', rest'. split; [exact EK|]. rewrite Q1, Q2, Q3.
    repeat split; eapply smap_rel_has; eassumption.
  - intros [b ev3] H. change (blocks (d_core c b3)) with b3 in H.
    destruct (Forall2_In_l _ _ _ _ F H) as ([b' ev] & Hev & _ & Rv). cbn [fst snd] in Rv.
    pose proof R as (_ & _ & Rb). rewrite Forall_forall in Rb. destruct (Rb _ Hev) as (H1 & H2 & H3 & H4 & H5). cbn [snd] in *.
    unfold blk_ok. cbn [snd].
    change (rf_l (d_core c b3)) with (d_rl2 c). change (grad_l (d_core c b3)) with (d_gl2 c).
    change (adc_l (d_core c b3)) with (d_al2 c).
    rewrite (Rv 1%nat), (Rv 2%nat), (Rv 3%nat), (Rv 4%nat), (Rv 5%nat). cbn [colmap].
    repeat split.
    + apply has_mapped; [exact Wr1|apply has_rl1; assumption].
    + apply has_mapped; [exact Wg1|apply has_gl1; assumption].
    + apply has_mapped; [exact Wg1|apply has_gl1; assumption].
    + apply has_mapped; [exact Wg1|apply has_gl1; assumption].
    + apply has_mapped; assumption.
Qed.
End SeqDedup.

(* ================================================================================================ *)
(* 7. the sequence-level theorems for the rounding functions of the source                            *)
(* ================================================================================================ *)
Lemma round_spec_int_eq (dg : Z) (q : Q) (m : Z) : (q == inject_Z m)%Q -> dg <= 0 -> (round_spec dg q == inject_Z m)%Q.
Proof.
  intros E H. unfold round_spec.
  assert (N : Qeq_bool q neg_zero = false).
  { destruct (Qeq_bool q neg_zero) eqn:X; [|reflexivity]. apply Qeq_bool_iff in X. rewrite E in X.
    apply Qeq_bool_iff in X. rewrite inject_Z_not_neg_zero in X. discriminate. }
  rewrite N. assert (F : (0 <? dg) = false) by (apply Z.ltb_ge; exact H). rewrite F.
  rewrite (round_dec_Proper (- dg) q (inject_Z m) E).
  apply (round_dec_on_grid 0 (- dg) m); [lia|]. rewrite pow10_0. ring.
Qed.

Lemma Q2Qc_zq_int (dg : Z) (m : Z) : dg <= 0 -> qz (Q2Qc (round_spec dg (this (zq m)))) = m.
Proof.
  intro H. unfold qz. cbn [this Q2Qc zq].
  rewrite (Qround.Qfloor_comp _ (inject_Z m)); [apply Qround.Qfloor_Z|].
  rewrite Qred_correct. apply round_spec_int_eq; [apply Qred_correct|exact H].
Qed.

Theorem rnd_grad_keeps_shape_ids : KeepIds2 rnd_grad_key.
Proof.
  intros a m1 m2 rest. unfold rnd_grad_key, qc_row.
  exists (Q2Qc (round_spec 6 (this a))), (Q2Qc (round_spec (-6) (this (zq m1)))), (Q2Qc (round_spec (-6) (this (zq m2)))),
         (map Q2Qc (round_row [-6; -6; -6] (map this rest))).
  split; [reflexivity|]. split; apply Q2Qc_zq_int; lia.
Qed.

Theorem rnd_rf_keeps_shape_ids : KeepIds3 rnd_rf_key.
Proof.
  intros a m1 m2 m3 rest. unfold rnd_rf_key, qc_row.
  exists (Q2Qc (round_spec 6 (this a))), (Q2Qc (round_spec 0 (this (zq m1)))), (Q2Qc (round_spec 0 (this (zq m2)))),
         (Q2Qc (round_spec 0 (this (zq m3)))), (map Q2Qc (round_row [6; 6; 6] (map this rest))).
  split; [reflexivity|]. repeat split; apply Q2Qc_zq_int; lia.
Qed.

(* gradient rows of different kind have different lengths (trapezoid 5, arbitrary 6) and the
   rounding keeps the length, so gradients of different kind are never merged *)
Definition GradRowsShaped (c : core) : Prop :=
  forall i k, lib_get (grad_l c) i = Some k ->
    (lib_type (grad_l c) i = Some tag_t /\ length k = 5%nat) \/ (lib_type (grad_l c) i = Some tag_g /\ length k = 6%nat).
Definition RfTagsUniform (c : core) : Prop :=
  exists t, forall i k, lib_get (rf_l c) i = Some k -> lib_type (rf_l c) i = t.

Lemma rnd_grad_key_length k : length (rnd_grad_key k) = Nat.min 6 (length k).
Proof. unfold rnd_grad_key, qc_row. rewrite map_length, round_row_length, map_length. reflexivity. Qed.

Theorem tags_agree_intro (r1 r3 : key -> key) c : StoreWf c -> RefsExist c -> GradRowsShaped c -> RfTagsUniform c ->
  TagsAgree r1 rnd_grad_key r3 c.
Proof.
  intros W R GS [t RU]. split.
  - destruct (gl1_spec r1 c W R) as (_ & _ & LT & Ng & G).
    assert (Sh : forall i k, lib_get (d_gl1 r1 c) i = Some k ->
              (lib_type (d_gl1 r1 c) i = Some tag_t /\ length k = 5%nat) \/ (lib_type (d_gl1 r1 c) i = Some tag_g /\ length k = 6%nat)).
    { intros i k H. rewrite (lib_type_same _ _ i LT).
      destruct (lib_get (grad_l c) i) as [d|] eqn:E; [|rewrite (Ng i E) in H; discriminate].
      destruct (GS i d E) as [[T L]|[T L]];
        destruct (G i d E) as [[T1 G1]|(T1 & a & s1 & s2 & rest & m1 & m2 & E1 & _ & G1 & _)];
        try (exfalso; rewrite T in T1; vm_compute in T1; discriminate T1).
      - left. split; [exact T|congruence].
      - right. split; [exact T|]. rewrite G1 in H. inversion H. subst. cbn in *. exact L. }
    intros i1 i2 k1 k2 H1 H2 E. apply (f_equal (@length Qc)) in E. rewrite !rnd_grad_key_length in E.
    destruct (Sh _ _ H1) as [[T1 L1]|[T1 L1]], (Sh _ _ H2) as [[T2 L2]|[T2 L2]]; rewrite L1, L2 in E; cbn in E;
      try discriminate E; congruence.
  - destruct (rl1_spec r1 c W R) as (_ & _ & LT & Nr & _).
    intros i1 i2 k1 k2 H1 H2 _. rewrite !(lib_type_same _ _ _ LT).
    destruct (lib_get (rf_l c) i1) as [d1|] eqn:E1; [|rewrite (Nr i1 E1) in H1; discriminate].
    destruct (lib_get (rf_l c) i2) as [d2|] eqn:E2; [|rewrite (Nr i2 E2) in H2; discriminate].
    rewrite (RU _ _ E1), (RU _ _ E2). reflexivity.
Qed.

(* Sequence.remove_duplicates with the digit tuples of the source *)
Theorem seq_dedup_decodes_rounded c :
  StoreWf c -> RefsExist c -> TagsAgree rnd_shape_key rnd_grad_key rnd_rf_key c ->
  exists c', seq_dedup c = Some c' /\ StoreWf c' /\ RefsExist c' /\
    akeys (blocks c') = akeys (blocks c) /\ durs c' = durs c /\
    forall i b, decode c i = Some b ->
      decode c' i = Some (round_dblock rnd_shape_key rnd_grad_key rnd_rf_key rnd_adc_key c b).
Proof.
  intros W R T.
  destruct (dedup_decodes_rounded rnd_shape_key rnd_grad_key rnd_rf_key rnd_adc_key c W R
              rnd_grad_keeps_shape_ids rnd_rf_keeps_shape_ids T) as (c' & E & K & D & Dec).
  destruct (dedup_refs_exist rnd_shape_key rnd_grad_key rnd_rf_key rnd_adc_key c W R
              rnd_grad_keeps_shape_ids rnd_rf_keeps_shape_ids) as (c2 & E2 & W2 & R2).
  unfold seq_dedup. rewrite E in E2. inversion E2. subst c2. exists c'.
  split; [exact E|]. split; [exact W2|]. split; [exact R2|]. split; [exact K|]. split; [exact D|exact Dec].
Qed.

(* ================================================================================================ *)
(* 8. non-vacuity: a concrete store satisfying every hypothesis, and the witness for the RF `use` tag  *)
(* ================================================================================================ *)
Lemma has_intro (l : klib) id : ((id =? 0) || amem Z.eqb (ldata l) id) = true -> has l id.
Proof.
  intro H. apply orb_true_iff in H. destruct H as [H|H]; [left; apply Z.eqb_eq; exact H|right].
  unfold amem in H. unfold lib_get. destruct (aget Z.eqb (ldata l) id); [discriminate|discriminate].
Qed.

Lemma shaped_intro c :
  Forall (fun p : Z * key => (lib_type (grad_l c) (fst p) = Some tag_t /\ length (snd p) = 5%nat) \/
                             (lib_type (grad_l c) (fst p) = Some tag_g /\ length (snd p) = 6%nat)) (ldata (grad_l c)) ->
  GradRowsShaped c.
Proof. intros F i k H. apply agetZ_In in H. rewrite Forall_forall in F. exact (F _ H). Qed.

Lemma rf_uniform_intro c t : Forall (fun p : Z * key => lib_type (rf_l c) (fst p) = t) (ldata (rf_l c)) -> RfTagsUniform c.
Proof. intro F. exists t. intros i k H. apply agetZ_In in H. rewrite Forall_forall in F. exact (F _ H). Qed.

Ltac fin_nodup := repeat (constructor; [cbn; intuition discriminate|]); constructor.
Ltac fin_forall tac := repeat (constructor; [tac|]); constructor.
Ltac fin_list := match goal with |- Forall ?P ?l => let v := eval vm_compute in l in change (Forall P v) end.
Ltac fin_store_wf :=
  unfold StoreWf, lib_wf; repeat split;
  [ .. ]; first
  [ match goal with |- NoDup ?l => let v := eval vm_compute in l in change (NoDup v); fin_nodup end
  | fin_list; fin_forall ltac:(cbv beta; cbn; first [lia|discriminate]) ].
Ltac fin_refs :=
  unfold RefsExist; repeat split;
  [ fin_list; fin_forall ltac:(unfold grad_row_ok; cbn [fst snd];
      first [left; vm_compute; reflexivity
            |right; split; [vm_compute; reflexivity
                           |do 4 eexists; split; [reflexivity|split; apply has_intro; vm_compute; reflexivity]]])
  | fin_list; fin_forall ltac:(unfold rf_row_ok; cbn [fst snd]; do 5 eexists;
      split; [reflexivity|repeat split; apply has_intro; vm_compute; reflexivity])
  | fin_list; fin_forall ltac:(unfold blk_ok; cbn [fst snd]; repeat split; apply has_intro; vm_compute; reflexivity) ].

Definition ex_init : core := core_init (dq 1 100000) (dq 1 100000) (dq 170000000000 1) (dq 1 1000000000).
(* two trapezoids differing in the 10th digit, two arbitrary gradients whose shapes differ in the
   11th digit (so the gradients become equal only after the shape ids are renumbered), RF + ADC *)
Definition ex_ops : list op :=
  [ AddBlock [MTrap 0 None (dq 100000 1) (dq 1 10000) (dq 1 1000) (dq 1 10000) qc0] [];
    AddBlock [MTrap 0 None (dq 1000000001 10000) (dq 1 10000) (dq 1 1000) (dq 1 10000) qc0] [];
    AddBlock [MGrad 1 None None (dq 50000 1) [dq 1 2; dq 1 1; dq 1 2] None qc0 qc0 qc0 (dq 1 200000) (dq 5 200000)] [];
    AddBlock [MGrad 1 None None (dq 50000 1) [dq 1 2; dq 10000000001 10000000000; dq 1 2] None qc0 qc0 qc0
                    (dq 1 200000) (dq 5 200000)] [];
    AddBlock [MRf None None (dq 250 1) [dq 1 1; dq 1 1] [qc0; qc0] None (dq 1 10000) qc0 qc0 117 (dq 1 1000) qc0;
              MAdc None (dq 16 1) (dq 1 100000) (dq 1 10000) qc0 qc0 qc0] [] ].
Definition ex_c : core := st_core (fst (seq_run false true (mkState ex_init []) ex_ops)).

Lemma ex_wf : StoreWf ex_c.
Proof. fin_store_wf. Qed.
Lemma ex_refs : RefsExist ex_c.
Proof. fin_refs. Qed.
Lemma ex_tags : TagsAgree rnd_shape_key rnd_grad_key rnd_rf_key ex_c.
Proof.
  apply tags_agree_intro; [exact ex_wf|exact ex_refs| |].
  - apply shaped_intro. fin_list.
    fin_forall ltac:(cbn [fst snd]; first [left; split; vm_compute; reflexivity|right; split; vm_compute; reflexivity]).
  - apply (rf_uniform_intro ex_c (Some 117)). fin_list. fin_forall ltac:(vm_compute; reflexivity).
Qed.

Theorem dedup_example :
  StoreWf ex_c /\ RefsExist ex_c /\ TagsAgree rnd_shape_key rnd_grad_key rnd_rf_key ex_c /\
  option_map blocks (seq_dedup ex_c) =
    Some [(1, [0; 0; 1; 0; 0; 0; 0]); (2, [0; 0; 1; 0; 0; 0; 0]); (3, [0; 0; 0; 2; 0; 0; 0]);
          (4, [0; 0; 0; 2; 0; 0; 0]); (5, [0; 1; 0; 0; 0; 1; 0])].
Proof. split; [exact ex_wf|]. split; [exact ex_refs|]. split; [exact ex_tags|]. vm_compute. reflexivity. Qed.

(* the hypothesis TagsAgree cannot be dropped for the RF library: two RF rows that differ in the
   9th digit of the amplitude but carry different `use` tags are merged and the second block
   decodes with the first row's tag ('r' = 114 becomes 'e' = 101) *)
Definition kf_use_ops : list op :=
  [ AddBlock [MRf None None (dq 250 1) [dq 1 1; dq 1 1] [qc0; qc0] None (dq 1 10000) qc0 qc0 101 (dq 1 1000) qc0] [];
    AddBlock [MRf None None (dq 2500000025 10000000) [dq 1 1; dq 1 1] [qc0; qc0] None (dq 1 10000) qc0 qc0 114
                  (dq 1 1000) qc0] [] ].
Definition kf_use_c : core := st_core (fst (seq_run false true (mkState ex_init []) kf_use_ops)).
Definition rf_use_of (b : option dblock) : option (option Z) :=
  option_map (fun b => option_map (fun x : key * Z * list key => snd (fst x)) (d_rf b)) b.

Theorem rf_use_merge_refuted :
  exists c c' i, StoreWf c /\ RefsExist c /\ seq_dedup c = Some c' /\
    rf_use_of (decode c i) = Some (Some 114) /\ rf_use_of (decode c' i) = Some (Some 101).
Proof.
  exists kf_use_c. destruct (seq_dedup kf_use_c) as [c'|] eqn:E; [|vm_compute in E; discriminate E].
  exists c', 2. split; [fin_store_wf|]. split; [fin_refs|]. split; [reflexivity|].
  split; [vm_compute; reflexivity|].
  assert (X : option_map (fun c' => rf_use_of (decode c' 2)) (seq_dedup kf_use_c) = Some (Some (Some 101)))
    by (vm_compute; reflexivity).
  rewrite E in X. cbn [option_map] in X. inversion X. reflexivity.
Qed.

(* ================================================================================================ *)
(* round 2: the roundings of the source are idempotent without any side condition                     *)
(* ================================================================================================ *)
Theorem rnd_grad_key_idem k : rnd_grad_key (rnd_grad_key k) = rnd_grad_key k.
Proof. apply qc_row_idem; [apply round_row_canon|apply round_row_idem]. Qed.
Theorem rnd_rf_key_idem k : rnd_rf_key (rnd_rf_key k) = rnd_rf_key k.
Proof. apply qc_row_idem; [apply round_row_canon|apply round_row_idem]. Qed.
Theorem rnd_adc_key_idem k : rnd_adc_key (rnd_adc_key k) = rnd_adc_key k.
Proof. apply qc_row_idem; [apply round_row_canon|apply round_row_idem]. Qed.
Theorem rnd_shape_key_idem k : rnd_shape_key (rnd_shape_key k) = rnd_shape_key k.
Proof. apply qc_row_idem; [apply round_all_canon|apply round_all_idem]. Qed.

(* EventLibrary.remove_duplicates with the digit tuples of the source: a second pass returns the same
   library and the identity mapping, for every library with unique ids *)
Definition second_pass_identity (rnd : key -> key) (l : klib) : Prop :=
  let nl := fst (lib_remove_duplicates key_eqb rnd l) in
  lib_remove_duplicates key_eqb rnd nl = (nl, (0, 0) :: map (fun p => (fst p, fst p)) (ldata nl)).
Theorem source_dedup_idempotent (l : klib) : NoDup (akeys (ldata l)) ->
  second_pass_identity rnd_shape_key l /\ second_pass_identity rnd_grad_key l /\
  second_pass_identity rnd_rf_key l /\ second_pass_identity rnd_adc_key l.
Proof.
  intro N. unfold second_pass_identity. repeat split; apply (dedup_idempotent key key_eqb key_eqb_spec); try exact N.
  - exact rnd_shape_key_idem.
  - exact rnd_grad_key_idem.
  - exact rnd_rf_key_idem.
  - exact rnd_adc_key_idem.
Qed.

(* ================================================================================================ *)
(* 9. under valid references every block decodes (no block fails before, none after)                  *)
(* ================================================================================================ *)
(* the shapes get_block cannot do without (waveform of an arbitrary gradient, magnitude and phase of
   an RF pulse) are present; RefsExist allows 0 there because remove_duplicates itself tolerates it *)
Definition ShapesPresent (c : core) : Prop :=
  Forall (fun p : Z * key => lib_type (grad_l c) (fst p) = Some tag_g ->
                             lib_get (shape_l c) (qz (knth (snd p) 1)) <> None) (ldata (grad_l c)) /\
  Forall (fun p : Z * key => lib_get (shape_l c) (qz (knth (snd p) 1)) <> None /\
                             lib_get (shape_l c) (qz (knth (snd p) 2)) <> None) (ldata (rf_l c)).
(* every block has a stored duration and an extension chain that can be walked (neither is touched
   by remove_duplicates) *)
Definition BlocksComplete (c : core) : Prop :=
  Forall (fun p : Z * list Z =>
            aget Z.eqb (durs c) (fst p) <> None /\
            (if 0 <? nth 6 (snd p) 0 then dec_ext c (S (length (ldata (ext_l c)))) (nth 6 (snd p) 0) else Some []) <> None)
         (blocks c).

Lemma dec_adc_some c id : has (adc_l c) id -> dec_adc c id <> None.
Proof.
  intro H. unfold dec_adc. destruct (id <=? 0) eqn:L; [discriminate|].
  destruct H as [->|H]; [cbn in L; discriminate L|].
  destruct (lib_get (adc_l c) id); [cbn; discriminate|congruence].
Qed.

Lemma has_shape_some c z : has (shape_l c) z -> z <> 0 -> exists k, get_shape c z = Some k.
Proof.
  intros [->|H] N; [congruence|]. unfold get_shape. destruct (lib_get (shape_l c) z) as [k|]; [exists k; reflexivity|congruence].
Qed.

Lemma dec_grad_some c id : RefsExist c -> ShapesPresent c -> has (grad_l c) id -> dec_grad c id <> None.
Proof.
  intros (Rg & _ & _) (Sg & _) H. rewrite Forall_forall in Rg, Sg.
  unfold dec_grad. destruct (id <=? 0) eqn:L; [discriminate|].
  destruct H as [->|H]; [cbn in L; discriminate L|].
  destruct (lib_get (grad_l c) id) as [d|] eqn:E; [|congruence].
  pose proof (agetZ_In _ _ _ E) as Hin.
  destruct (Rg _ Hin) as [T|(T & a & s1 & s2 & rest & Ed & H1 & H2)]; cbn [fst snd] in *; rewrite T; cbn [opt_bind].
  - change (tag_t =? tag_t) with true. cbv iota. discriminate.
  - change (tag_g =? tag_t) with false. cbv iota.
    pose proof (Sg _ Hin T) as S1. cbn [snd] in S1. unfold get_shape.
    destruct (lib_get (shape_l c) (qz (knth d 1))) as [ws|]; [|congruence]. cbn [opt_bind].
    subst d. change (knth (a :: s1 :: s2 :: rest) 2) with s2.
    destruct (qz s2 =? 0) eqn:Z2; [discriminate|]. apply Z.eqb_neq in Z2.
    destruct (has_shape_some c _ H2 Z2) as (ts & Ets). unfold get_shape in Ets. rewrite Ets. cbn. discriminate.
Qed.

Lemma dec_rf_some c id : RefsExist c -> ShapesPresent c -> has (rf_l c) id -> dec_rf c id <> None.
Proof.
  intros (_ & Rr & _) (_ & Sr) H. rewrite Forall_forall in Rr, Sr.
  unfold dec_rf. destruct (id <=? 0) eqn:L; [discriminate|].
  destruct H as [->|H]; [cbn in L; discriminate L|].
  destruct (lib_get (rf_l c) id) as [d|] eqn:E; [|congruence]. cbn [opt_bind]. cbv zeta.
  pose proof (agetZ_In _ _ _ E) as Hin.
  destruct (Rr _ Hin) as (a & s1 & s2 & s3 & rest & Ed & H1 & H2 & H3). cbn [snd] in Ed.
  destruct (Sr _ Hin) as [S1 S2]. cbn [snd] in S1, S2. unfold get_shape.
  destruct (lib_get (shape_l c) (qz (knth d 1))) as [mag|]; [|congruence]. cbn [opt_bind].
  destruct (lib_get (shape_l c) (qz (knth d 2))) as [ph|]; [|congruence]. cbn [opt_bind].
  subst d. change (knth (a :: s1 :: s2 :: s3 :: rest) 3) with s3.
  destruct (0 <? qz s3) eqn:Z3; [|discriminate]. apply Z.ltb_lt in Z3.
  destruct (has_shape_some c _ H3 ltac:(lia)) as (ts & Ets). unfold get_shape in Ets. rewrite Ets. cbn. discriminate.
Qed.

Theorem refs_decode c i :
  RefsExist c -> ShapesPresent c -> BlocksComplete c -> In i (akeys (blocks c)) -> decode c i <> None.
Proof.
  intros R SP B Hi. pose proof R as (_ & _ & Rb). rewrite Forall_forall in Rb. unfold BlocksComplete in B. rewrite Forall_forall in B.
  unfold decode. destruct (aget Z.eqb (blocks c) i) as [ev|] eqn:E.
  2:{ exfalso. apply (aget_None_notin Z.eqb Zeqb_spec) in E. contradiction. }
  cbn [opt_bind]. pose proof (agetZ_In _ _ _ E) as Hin.
  destruct (Rb _ Hin) as (H1 & H2 & H3 & H4 & H5). destruct (B _ Hin) as (Bd & Bx). cbn [fst snd] in *.
  destruct (dec_rf c (nth 1 ev 0)) as [rf|] eqn:E1; [|exfalso; exact (dec_rf_some c _ R SP H1 E1)]. cbn [opt_bind].
  destruct (dec_grad c (nth 2 ev 0)) as [gx|] eqn:E2; [|exfalso; exact (dec_grad_some c _ R SP H2 E2)]. cbn [opt_bind].
  destruct (dec_grad c (nth 3 ev 0)) as [gy|] eqn:E3; [|exfalso; exact (dec_grad_some c _ R SP H3 E3)]. cbn [opt_bind].
  destruct (dec_grad c (nth 4 ev 0)) as [gz|] eqn:E4; [|exfalso; exact (dec_grad_some c _ R SP H4 E4)]. cbn [opt_bind].
  destruct (dec_adc c (nth 5 ev 0)) as [adc|] eqn:E5; [|exfalso; exact (dec_adc_some c _ H5 E5)]. cbn [opt_bind].
  destruct (if 0 <? nth 6 ev 0 then dec_ext c (S (length (ldata (ext_l c)))) (nth 6 ev 0) else Some []) as [ext|];
    [|congruence]. cbn [opt_bind].
  destruct (aget Z.eqb (durs c) i); [cbn; discriminate|congruence].
Qed.

(* hence: every block of a valid store decodes before AND after duplicate removal, to the rounded block *)
Theorem seq_dedup_every_block_decodes c :
  StoreWf c -> RefsExist c -> ShapesPresent c -> BlocksComplete c ->
  TagsAgree rnd_shape_key rnd_grad_key rnd_rf_key c ->
  exists c', seq_dedup c = Some c' /\
    forall i, In i (akeys (blocks c')) ->
      exists b, decode c i = Some b /\
                decode c' i = Some (round_dblock rnd_shape_key rnd_grad_key rnd_rf_key rnd_adc_key c b).
Proof.
  intros W R SP B T. destruct (seq_dedup_decodes_rounded c W R T) as (c' & E & _ & _ & K & _ & D).
  exists c'. split; [exact E|]. intros i Hi. rewrite K in Hi.
  destruct (decode c i) as [b|] eqn:Eb; [|exfalso; exact (refs_decode c i R SP B Hi Eb)].
  exists b. split; [reflexivity|apply D; exact Eb].
Qed.

(* non-vacuity of the two extra hypotheses on the example store *)
Lemma ex_shapes : ShapesPresent ex_c.
Proof.
  unfold ShapesPresent. split; fin_list;
    fin_forall ltac:(cbn [fst snd]; first [intro T; vm_compute in T; discriminate T
                                          |intros _; vm_compute; discriminate
                                          |split; vm_compute; discriminate]).
Qed.
Lemma ex_complete : BlocksComplete ex_c.
Proof. unfold BlocksComplete. fin_list. fin_forall ltac:(cbn [fst snd]; split; vm_compute; discriminate). Qed.

(* ================================================================================================ *)
(* round 3: stores that come from read(): RF rows WITHOUT a type entry (rf_library.type is empty      *)
(* unless detect_rf_use=True).  EventLibrary.remove_duplicates passes str() for them (model: tag 0),  *)
(* get_block decodes them as 'undefined' (model: tag_u).  The example store with the RF type table    *)
(* emptied satisfies every hypothesis; its RF block decodes with tag_u before and after.              *)
(* ================================================================================================ *)
Definition ex_untyped : core :=
  ex_c <| rf_l := mkLib (ldata (rf_l ex_c)) [] (lkeymap (rf_l ex_c)) (lnext (rf_l ex_c)) |>.

Lemma exu_wf : StoreWf ex_untyped.
Proof. fin_store_wf. Qed.
Lemma exu_refs : RefsExist ex_untyped.
Proof. fin_refs. Qed.
Lemma exu_tags : TagsAgree rnd_shape_key rnd_grad_key rnd_rf_key ex_untyped.
Proof.
  apply tags_agree_intro; [exact exu_wf|exact exu_refs| |].
  - apply shaped_intro. fin_list.
    fin_forall ltac:(cbn [fst snd]; first [left; split; vm_compute; reflexivity|right; split; vm_compute; reflexivity]).
  - apply (rf_uniform_intro ex_untyped None). fin_list. fin_forall ltac:(vm_compute; reflexivity).
Qed.

Theorem untyped_rf_example :
  StoreWf ex_untyped /\ RefsExist ex_untyped /\ TagsAgree rnd_shape_key rnd_grad_key rnd_rf_key ex_untyped /\
  lib_type (rf_l ex_untyped) 1 = None /\
  rf_use_of (decode ex_untyped 5) = Some (Some tag_u) /\
  (exists c', seq_dedup ex_untyped = Some c' /\ lib_type (rf_l c') 1 = None /\ rf_use_of (decode c' 5) = Some (Some tag_u)).
Proof.
  split; [exact exu_wf|]. split; [exact exu_refs|]. split; [exact exu_tags|].
  split; [vm_compute; reflexivity|]. split; [vm_compute; reflexivity|].
  destruct (seq_dedup ex_untyped) as [c'|] eqn:E; [|vm_compute in E; discriminate E].
  exists c'. split; [reflexivity|].
  assert (X : option_map (fun c' => (lib_type (rf_l c') 1, rf_use_of (decode c' 5))) (seq_dedup ex_untyped)
              = Some (None, Some (Some tag_u))) by (vm_compute; reflexivity).
  rewrite E in X. cbn [option_map] in X. inversion X as [[X1 X2]]. rewrite X1, X2. split; reflexivity.
Qed.
