(* Proofs/SplitOffRaster.v — split_gradient on trapezoids whose times are NOT on the gradient raster.
   The code rounds delay/rise/flat/fall to the raster but computes the delay of the ramp-down part from
   the UNROUNDED total duration (split_gradient.py:50,79).  Exact statement of what the three parts are,
   when they add up to the raster-rounded trapezoid, and by how much they miss it otherwise. *)
From Coq Require Import ZArith QArith Qround Qabs Lia Lqa List Bool Setoid Morphisms.
From PV Require Import Base.QUtil Base.Round Base.PWL Gen.GenGradOps Model.GradOps Proofs.GradOpsProofs.
Import ListNotations.
Open Scope Q_scope.

(* total - rounded total *)
Definition split_total_shift (r : Q) (t : trap) : Q :=
  let tr := round_trap r t in
  (t_delay t + t_rise t + t_flat t + t_fall t) - (t_delay tr + t_rise tr + t_flat tr + t_fall tr).

(* the three parts, each as a two-corner function of time *)
Lemma split3_parts s t up flat down t' :
  let r := raster s in
  split_gradient s (GTrap t) = (OK (up, flat, down), t') ->
  let tr := round_trap r t in
  let D := t_delay tr in let R := t_rise tr in let Fl := t_flat tr in let Fa := t_fall tr in
  let A := t_amp t in
  t' = GTrap tr /\
  (forall x, eval (to_pwl r (GExt up)) x == eval [(0, 0); (R, A)] (x - D)) /\
  (forall x, eval (to_pwl r (GExt flat)) x == eval [(0, A); (Fl, A)] (x - D - R)) /\
  (forall x, eval (to_pwl r (GExt down)) x
             == eval [(0, A); (Fa, 0)] (x - D - R - Fl - split_total_shift r t)).
Proof.
  intros r H tr D R Fl Fa A.
  cbn [split_gradient] in H. fold r tr in H.
  destruct (make_ext_trap s (t_ch t) true [(0, 0); (t_rise tr, t_amp t)]) as [e1|] eqn:M1; [|inversion H].
  destruct (make_ext_trap s (t_ch t) true [(0, t_amp t); (t_fall tr, 0)]) as [e3|] eqn:M3; [|inversion H].
  destruct (make_ext_trap s (t_ch t) true [(0, t_amp t); (t_flat tr, t_amp t)]) as [e2|] eqn:M2; [|inversion H].
  inversion H; subst up flat down t'. split; [reflexivity|].
  pose proof (corners_of_mk _ _ _ _ _ M1 (Qeq_refl 0)) as C1.
  pose proof (corners_of_mk _ _ _ _ _ M2 (Qeq_refl 0)) as C2.
  pose proof (corners_of_mk _ _ _ _ _ M3 (Qeq_refl 0)) as C3. fold r in C1, C2, C3.
  try change (to_raster r (t_delay t)) with D. try change (to_raster r (t_rise t)) with R.
  try change (to_raster r (t_fall t)) with Fa. try change (to_raster r (t_flat t)) with Fl.
  split; [|split].
  - intro x. cbn [to_pwl e_delay with_delay]. rewrite egrad_corners_with_delay.
    rewrite (eval_pwl_eq _ _ x (pwl_eq_shift D D _ _ (Qeq_refl D) C1)). apply eval_shift.
  - intro x. cbn [to_pwl e_delay with_delay]. rewrite egrad_corners_with_delay.
    rewrite (eval_pwl_eq _ _ x (pwl_eq_shift (D + R) (D + R) _ _ (Qeq_refl _) C2)).
    rewrite eval_shift. apply eval_Proper. ring.
  - intro x. cbn [to_pwl e_delay with_delay]. rewrite egrad_corners_with_delay.
    rewrite (eval_pwl_eq _ _ x (pwl_eq_shift _ _ _ _ (Qeq_refl _) C3)).
    rewrite eval_shift. apply eval_Proper. unfold split_total_shift. fold r tr. fold D R Fl Fa. ring.
Qed.

Lemma trap4 r tr x : 0 < t_flat tr ->
  eval (to_pwl r (GTrap tr)) x
  == eval [(0, 0); (t_rise tr, t_amp tr); (t_rise tr + t_flat tr, t_amp tr);
           (t_rise tr + t_flat tr + t_fall tr, 0)] (x - t_delay tr).
Proof.
  intro Hf. cbn [to_pwl]. rewrite eval_shift. unfold trap_corners.
  destruct (Qeq_bool (t_flat tr) 0) eqn:E; [apply Qeq_bool_iff in E; lra|]. reflexivity.
Qed.

(* quantified discrepancy: away from the junctions the three parts miss the rounded trapezoid by
   exactly the displacement of the ramp-down:  ramp(x - j2 - shift) - ramp(x - j2) *)
Theorem split3_discrepancy s t up flat down t' :
  let r := raster s in
  split_gradient s (GTrap t) = (OK (up, flat, down), t') ->
  let tr := round_trap r t in
  0 < t_rise tr -> 0 < t_flat tr -> 0 < t_fall tr ->
  let j1 := t_delay tr + t_rise tr in
  let j2 := j1 + t_flat tr in
  let ramp := eval [(0, t_amp t); (t_fall tr, 0)] in
  let d := split_total_shift r t in
  forall x, ~ x == j1 -> ~ x == j2 ->
    eval (to_pwl r (GExt up)) x + eval (to_pwl r (GExt flat)) x + eval (to_pwl r (GExt down)) x
    - eval (to_pwl r (GTrap tr)) x == ramp (x - j2 - d) - ramp (x - j2).
Proof.
  intros r H tr Hr Hf Hl j1 j2 ramp d x N1 N2.
  destruct (split3_parts s t up flat down t' H) as (_ & E1 & E2 & E3). fold r tr in E1, E2, E3.
  rewrite E1, E2, E3, (trap4 r tr x Hf). subst ramp d j1 j2. fold r.
  replace (t_amp tr) with (t_amp t) by reflexivity.
  set (D := t_delay tr) in *. set (R := t_rise tr) in *. set (Fl := t_flat tr) in *.
  set (Fa := t_fall tr) in *. set (A := t_amp t) in *. set (dd := split_total_shift r t) in *.
  assert (P : eval [(0, A); (Fa, 0)] (x - D - R - Fl - dd) == eval [(0, A); (Fa, 0)] (x - (D + R + Fl) - dd))
    by (apply eval_Proper; ring).
  rewrite P. clear P.
  set (rv := eval [(0, A); (Fa, 0)] (x - (D + R + Fl) - dd)).
  rewrite !eval2. rewrite !eval_cons2, eval_single.
  qb; try lra; unfold interp, slope; try (field; lra).
Qed.

(* hence: no rounding of the total duration -> the parts add up (this is C18_split_sum) ... *)
Theorem split3_adds_up_if s t up flat down t' :
  let r := raster s in
  split_gradient s (GTrap t) = (OK (up, flat, down), t') ->
  let tr := round_trap r t in
  0 < t_rise tr -> 0 < t_flat tr -> 0 < t_fall tr ->
  split_total_shift r t == 0 ->
  forall x, ~ x == t_delay tr + t_rise tr -> ~ x == t_delay tr + t_rise tr + t_flat tr ->
    eval (to_pwl r (GExt up)) x + eval (to_pwl r (GExt flat)) x + eval (to_pwl r (GExt down)) x
    == eval (to_pwl r (GTrap tr)) x.
Proof.
  intros r H tr Hr Hf Hl Hd x N1 N2.
  pose proof (split3_discrepancy s t up flat down t' H Hr Hf Hl x N1 N2) as X. cbv zeta in X.
  fold r tr in X.
  assert (E : eval [(0, t_amp t); (t_fall tr, 0)] (x - (t_delay tr + t_rise tr + t_flat tr) - split_total_shift r t)
              == eval [(0, t_amp t); (t_fall tr, 0)] (x - (t_delay tr + t_rise tr + t_flat tr)))
    by (apply eval_Proper; rewrite Hd; ring).
  rewrite E in X. lra.
Qed.

(* ... and conversely: when the rounding changes the total duration (and the amplitude is not zero)
   there is a time, not a junction, at which the parts do not add up to the rounded trapezoid *)
Theorem split3_adds_up_only_if s t up flat down t' :
  let r := raster s in
  split_gradient s (GTrap t) = (OK (up, flat, down), t') ->
  let tr := round_trap r t in
  0 < t_rise tr -> 0 < t_flat tr -> 0 < t_fall tr -> ~ t_amp t == 0 ->
  ~ split_total_shift r t == 0 ->
  exists x, ~ x == t_delay tr + t_rise tr /\ ~ x == t_delay tr + t_rise tr + t_flat tr /\
    ~ eval (to_pwl r (GExt up)) x + eval (to_pwl r (GExt flat)) x + eval (to_pwl r (GExt down)) x
      == eval (to_pwl r (GTrap tr)) x.
Proof.
  intros r H tr Hr Hf Hl HA Hd.
  set (D := t_delay tr) in *. set (R := t_rise tr) in *. set (Fl := t_flat tr) in *.
  set (Fa := t_fall tr) in *. set (A := t_amp t) in *. set (d := split_total_shift r t) in *.
  set (j2 := D + R + Fl). set (E := j2 + Fa).
  (* the witness lies strictly after j2, where only the two ramps matter *)
  assert (W : forall x, j2 < x ->
            ~ eval [(0, A); (Fa, 0)] (x - j2 - d) == eval [(0, A); (Fa, 0)] (x - j2) ->
            ~ x == D + R /\ ~ x == D + R + Fl /\
            ~ eval (to_pwl r (GExt up)) x + eval (to_pwl r (GExt flat)) x + eval (to_pwl r (GExt down)) x
              == eval (to_pwl r (GTrap tr)) x).
  { intros x Hx Hne. subst j2. split; [lra|]. split; [lra|]. intro Heq.
    assert (N1 : ~ x == D + R) by lra. assert (N2 : ~ x == D + R + Fl) by lra.
    pose proof (split3_discrepancy s t up flat down t' H Hr Hf Hl x N1 N2) as X. cbv zeta in X.
    fold r tr D R Fl Fa A d in X. apply Hne. lra. }
  assert (Hmul : forall k, ~ k == 0 -> ~ A * k == 0).
  { intros k Hk Hz. apply Qmult_integral in Hz. destruct Hz; contradiction. }
  clearbody D R Fl Fa A d. clear H.
  destruct (Qlt_le_dec 0 d) as [Hpos|Hneg].
  - destruct (Qlt_le_dec Fa d) as [Hbig|Hsmall].
    + exists (j2 + d + Fa * (1 # 2)). apply W; [subst j2; lra|].
      rewrite !eval2. qb; try lra. unfold interp, slope. intro X.
      apply (Hmul (1 # 2)); [discriminate|]. rewrite <- X. field. lra.
    + exists (E + d * (1 # 2)). apply W; [subst E j2; lra|].
      rewrite !eval2. subst E. qb; try lra. unfold interp, slope. intro X.
      apply (Hmul (d / (2 * Fa))).
      * intro Z. apply Hd. unfold Qdiv in Z. apply Qmult_integral in Z. destruct Z as [Z|Z]; [exact Z|].
        assert (0 < / (2 * Fa)) by (apply Qinv_lt_0_compat; lra). lra.
      * rewrite <- X. field. lra.
  - assert (Hlt : d < 0) by lra.
    destruct (Qlt_le_dec d (- Fa)) as [Hbig|Hsmall].
    + exists (j2 + Fa * (1 # 2)). apply W; [lra|].
      rewrite !eval2. qb; try lra. unfold interp, slope. intro X.
      apply (Hmul (1 # 2)); [discriminate|]. rewrite X. field. lra.
    + exists (E + d * (1 # 2)). apply W; [subst E; lra|].
      rewrite !eval2. subst E. qb; try lra. unfold interp, slope. intro X.
      apply (Hmul (d / (2 * Fa))).
      * intro Z. apply Hd. unfold Qdiv in Z. apply Qmult_integral in Z. destruct Z as [Z|Z]; [exact Z|].
        assert (0 < / (2 * Fa)) by (apply Qinv_lt_0_compat; lra). lra.
      * setoid_replace (A * (d / (2 * Fa))) with (- (A + (0 - A) * / (Fa - 0) * (j2 + Fa + d * (1 # 2) - j2 - 0))).
        -- rewrite <- X. ring.
        -- field. lra.
Qed.
