(* Proofs/Md5Proofs.v — facts about Model/Md5.v: the RFC 1321 test suite evaluated in the kernel, shape of
   the digest (16 bytes, 32 lower-case hex characters, never white space), padding to whole blocks, and the
   signature contract of Model/Signature.v instantiated with this digest (no hypothesis on the digest left). *)
From Coq Require Import List Bool ZArith Lia.
From PV Require Import Gen.GenSignature Model.Signature Model.Md5 Proofs.SignatureProofs.
Import ListNotations.
Open Scope Z_scope.

(* ---- RFC 1321 A.5 test suite ------------------------------------------------------------------ *)
(* "" *)
Example md5_rfc_empty : md5_hex [] =
  [100; 52; 49; 100; 56; 99; 100; 57; 56; 102; 48; 48; 98; 50; 48; 52; 101; 57; 56; 48; 48; 57; 57; 56; 101; 99; 102; 56; 52; 50; 55; 101].
Proof. vm_compute. reflexivity. Qed.
(* "a" -> 0cc175b9c0f1b6a831c399e269772661 *)
Example md5_rfc_a : md5_hex [97] =
  [48; 99; 99; 49; 55; 53; 98; 57; 99; 48; 102; 49; 98; 54; 97; 56; 51; 49; 99; 51; 57; 57; 101; 50; 54; 57; 55; 55; 50; 54; 54; 49].
Proof. vm_compute. reflexivity. Qed.
(* "abc" -> 900150983cd24fb0d6963f7d28e17f72 *)
Example md5_rfc_abc : md5_hex [97; 98; 99] =
  [57; 48; 48; 49; 53; 48; 57; 56; 51; 99; 100; 50; 52; 102; 98; 48; 100; 54; 57; 54; 51; 102; 55; 100; 50; 56; 101; 49; 55; 102; 55; 50].
Proof. vm_compute. reflexivity. Qed.
(* "message digest" -> f96b697d7cb7938d525a2f31aaf161d0 *)
Example md5_rfc_message_digest :
  md5_hex [109; 101; 115; 115; 97; 103; 101; 32; 100; 105; 103; 101; 115; 116] =
  [102; 57; 54; 98; 54; 57; 55; 100; 55; 99; 98; 55; 57; 51; 56; 100; 53; 50; 53; 97; 50; 102; 51; 49; 97; 97; 102; 49; 54; 49; 100; 48].
Proof. vm_compute. reflexivity. Qed.
(* "abcdefghijklmnopqrstuvwxyz" -> c3fcd3d76192e4007dfb496cca67e13b *)
Definition alphabet : bytes := map Z.of_nat (seq 97 26).
Example md5_rfc_alphabet : md5_hex alphabet =
  [99; 51; 102; 99; 100; 51; 100; 55; 54; 49; 57; 50; 101; 52; 48; 48; 55; 100; 102; 98; 52; 57; 54; 99; 99; 97; 54; 55; 101; 49; 51; 98].
Proof. vm_compute. reflexivity. Qed.
(* "A..Za..z0..9" (62 bytes: the padding spills into a second block) -> d174ab98d277d9f5a5611c2c9f419d9f *)
Definition alnum : bytes := map Z.of_nat (seq 65 26 ++ seq 97 26 ++ seq 48 10).
Example md5_rfc_alnum : md5_hex alnum =
  [100; 49; 55; 52; 97; 98; 57; 56; 100; 50; 55; 55; 100; 57; 102; 53; 97; 53; 54; 49; 49; 99; 50; 99; 57; 102; 52; 49; 57; 100; 57; 102].
Proof. vm_compute. reflexivity. Qed.
(* eight times "1234567890" (80 bytes, two blocks) -> 57edf4a22be3c955ac49da2e2107b67a *)
Definition digits80 : bytes := flat_map (fun _ => map Z.of_nat (seq 49 9 ++ [48%nat])) (seq 0 8).
Example md5_rfc_digits80 : md5_hex digits80 =
  [53; 55; 101; 100; 102; 52; 97; 50; 50; 98; 101; 51; 99; 57; 53; 53; 97; 99; 52; 57; 100; 97; 50; 101; 50; 49; 48; 55; 98; 54; 55; 97].
Proof. vm_compute. reflexivity. Qed.

(* ---- shape of the digest ------------------------------------------------------------------------ *)
Lemma md5_length : forall m, length (md5 m) = 16%nat.
Proof. intro m. unfold md5, le32. reflexivity. Qed.

Lemma hex_of_bytes_length : forall l, length (hex_of_bytes l) = (2 * length l)%nat.
Proof. induction l as [|b l IH]; [reflexivity|]. cbn [hex_of_bytes flat_map app length] in *. fold (hex_of_bytes l). lia. Qed.

Theorem md5_hex_length : forall m, length (md5_hex m) = 32%nat.
Proof. intro m. unfold md5_hex. rewrite hex_of_bytes_length, md5_length. reflexivity. Qed.

Lemma hex_digit_not_ws : forall n, 0 <= n < 16 -> is_ws (hex_digit n) = false.
Proof.
  intros n Hn. unfold is_ws, hex_digit. destruct (n <? 10) eqn:E.
  - apply Z.ltb_lt in E.
    replace (48 + n =? 32) with false by (symmetry; apply Z.eqb_neq; lia).
    replace (48 + n =? 9) with false by (symmetry; apply Z.eqb_neq; lia).
    replace (48 + n =? 13) with false by (symmetry; apply Z.eqb_neq; lia).
    replace (48 + n =? 10) with false by (symmetry; apply Z.eqb_neq; lia). reflexivity.
  - apply Z.ltb_ge in E.
    replace (87 + n =? 32) with false by (symmetry; apply Z.eqb_neq; lia).
    replace (87 + n =? 9) with false by (symmetry; apply Z.eqb_neq; lia).
    replace (87 + n =? 13) with false by (symmetry; apply Z.eqb_neq; lia).
    replace (87 + n =? 10) with false by (symmetry; apply Z.eqb_neq; lia). reflexivity.
Qed.

(* every character is one of 0-9a-f *)
Lemma hex_digit_range : forall n, 0 <= n < 16 -> 48 <= hex_digit n <= 57 \/ 97 <= hex_digit n <= 102.
Proof. intros n Hn. unfold hex_digit. destruct (n <? 10) eqn:E; [apply Z.ltb_lt in E | apply Z.ltb_ge in E]; lia. Qed.

Lemma hex_of_bytes_in : forall l c, In c (hex_of_bytes l) -> exists n, 0 <= n < 16 /\ c = hex_digit n.
Proof.
  intros l c H. unfold hex_of_bytes in H. apply in_flat_map in H. destruct H as [b [_ H]].
  destruct H as [H | [H | []]]; subst c.
  - exists ((b / 16) mod 16). split; [apply Z.mod_pos_bound; lia | reflexivity].
  - exists (b mod 16). split; [apply Z.mod_pos_bound; lia | reflexivity].
Qed.

Theorem md5_hex_charset : forall m c, In c (md5_hex m) -> 48 <= c <= 57 \/ 97 <= c <= 102.
Proof. intros m c H. apply hex_of_bytes_in in H. destruct H as [n [Hn ->]]. apply hex_digit_range; exact Hn. Qed.

Theorem md5_hex_clean : forall m, clean (md5_hex m).
Proof.
  intro m. split.
  - intro E. pose proof (md5_hex_length m) as L. rewrite E in L. discriminate L.
  - intros b H. apply hex_of_bytes_in in H. destruct H as [n [Hn ->]]. apply hex_digit_not_ws; exact Hn.
Qed.

(* ---- padding: whole 64-byte blocks, message kept as a prefix ---------------------------------------------- *)
Lemma le32_length : forall x, length (le32 x) = 4%nat.
Proof. reflexivity. Qed.

Theorem md5_pad_whole_blocks : forall m, Z.of_nat (length (md5_pad m)) mod 64 = 0.
Proof.
  intro m. unfold md5_pad, le64. cbv zeta.
  rewrite !app_length, repeat_length, !le32_length. cbn [length].
  pose proof (Z.mod_pos_bound (55 - Z.of_nat (length m)) 64 ltac:(lia)) as Hk.
  pose proof (Z.div_mod (55 - Z.of_nat (length m)) 64 ltac:(lia)) as D.
  replace (Z.of_nat (length m + (1 + (Z.to_nat ((55 - Z.of_nat (length m)) mod 64) + (4 + 4)))))
    with ((1 - (55 - Z.of_nat (length m)) / 64) * 64) by lia.
  apply Z.mod_mul. lia.
Qed.

Theorem md5_pad_prefix : forall m, firstn (length m) (md5_pad m) = m.
Proof. intro m. unfold md5_pad. apply firstn_length_app. Qed.

(* ---- the signature contract with the digest the implementation uses: no hypothesis on the digest -------- *)
Theorem write_signed_md5_contract : forall body,
  no_sub sig_tag body = true ->
  let '(f, ret) := write_signed_md5 body in
  ret = Some (md5_hex body) /\ split_sig f = Some (body, MD5, md5_hex body) /\
  exists k, find_sub sig_marker f = Some k /\ firstn k f = body.
Proof.
  intros body Hb. unfold write_signed_md5, write_file.
  split; [reflexivity|]. split.
  - apply signature_roundtrip; [exact Hb | apply md5_hex_clean].
  - apply signed_prefix_is_body. exact Hb.
Qed.
