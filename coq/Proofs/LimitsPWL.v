(* Proofs/LimitsPWL.v — bridge between the corner-level notions of Model/Limits.v (C04) and the
   piecewise-linear library Base/PWL.v: a corner list that is [Limits.within G S] stays within G in
   amplitude and within S in slope at EVERY time, not only at its corners. *)
From Coq Require Import ZArith QArith Qabs List Bool Lia Lqa.
From PV Require Import Base.QUtil Base.PWL Gen.GenUnits Gen.GenLimits Model.Limits Proofs.LimitsProofs.
Import ListNotations.
Open Scope Q_scope.

Lemma segs_within_seg_bound S p : segs_within S p <-> seg_bound S p.
Proof.
  induction p as [|[t0 v0] r IH]; [reflexivity|].
  destruct r as [|[t1 v1] r]; [reflexivity|].
  change (segs_within S ((t0, v0) :: (t1, v1) :: r))
    with (Qabs (v1 - v0) <= S * (t1 - t0) /\ segs_within S ((t1, v1) :: r)).
  rewrite seg_bound_cons2, IH. reflexivity.
Qed.

Lemma strictly_increasing_sorted l : strictly_increasing l <-> sorted_strict l.
Proof.
  induction l as [|a l IH]; [reflexivity|]. destruct l as [|b l]; [reflexivity|].
  change (strictly_increasing (a :: b :: l)) with (a < b /\ strictly_increasing (b :: l)).
  rewrite sorted_cons2, IH. reflexivity.
Qed.

Theorem within_everywhere G S (p : list (Q * Q)) :
  p <> [] -> sorted_strict (times p) -> within G S p ->
  (forall t, Qabs (eval p t) <= G) /\
  (forall t u, inside p t -> inside p u -> Qabs (eval p t - eval p u) <= S * Qabs (t - u)).
Proof.
  intros Hne Hs [Hc Hseg]. split.
  - apply corner_bound_everywhere_ne; assumption.
  - apply seg_bound_everywhere; [exact Hs|]. apply segs_within_seg_bound. exact Hseg.
Qed.

(* C04 lifted to all times: whatever make_extended_trapezoid returns stays within
   max_grad + eps and max_slew * (1 + eps) at every instant of its rendering *)
Theorem ext_trap_safe_everywhere : forall sys times amps mg ms skip g,
  make_ext_trap sys times amps mg ms skip = LOK g ->
  let G := eff_pos mg (s_max_grad sys) in
  let S := eff_pos ms (s_max_slew sys) in
  (forall t, Qabs (eval (ext_corners g) t) <= G + pp_eps) /\
  (forall t u, inside (ext_corners g) t -> inside (ext_corners g) u ->
     Qabs (eval (ext_corners g) t - eval (ext_corners g) u) <= S * (1 + pp_eps) * Qabs (t - u)).
Proof.
  intros sys tms amps mg ms skip g H G S.
  destruct (ext_trap_safe _ _ _ _ _ _ _ H) as (Ew & El & H2 & Hinc & Hw).
  apply within_everywhere; [| |exact Hw].
  - unfold ext_corners. rewrite Ew. destruct (cg_tt g) as [|a l]; destruct amps as [|b m]; cbn in *; try lia.
    discriminate.
  - unfold ext_corners, PWL.times. rewrite map_fst_combine by (rewrite Ew; exact El).
    apply strictly_increasing_sorted. exact Hinc.
Qed.
