(* Proofs/SeqStoredRf.v — "get_block returns what was stored", continued: RF events handed over by value with
   their shapes.  After a successful set_block / add_block the decoded block carries an RF row with the amplitude,
   delay, frequency and phase offsets of the call, and the shape payloads decoded through the row's shape ids are
   exactly the magnitude, phase and time shapes of the call.  (The `use` tag is NOT claimed: two RF events equal
   except for `use` share one library entry — known finding C06/rf-use-shared-entry.) *)
From Coq Require Import List Bool ZArith QArith Qcanon Lia.
From RecordUpdate Require Import RecordSet.
From PV Require Import Base.AList Base.QUtil Model.EventLib Model.Seq Proofs.SeqSpec Proofs.SeqCache Proofs.SeqCont
                       Proofs.SeqStored Proofs.DedupProofs.
Import ListNotations RecordSetNotations.
Open Scope Z_scope.

Local Arguments set_nth : simpl never.

Definition rs_inv (c : core) : Prop := core_inv c /\ lib_good (shape_l c) /\ lib_good (rf_l c).
Definition rspart (c : core) := (shape_l c, rf_l c).

Lemma rs_inv_transfer c c' : core_inv c' -> rspart c' = rspart c -> rs_inv c -> rs_inv c'.
Proof.
  intros I E (_ & S & R). unfold rspart in E. inversion E as [[E1 E2]].
  split; [exact I|]. rewrite E1, E2. split; assumption.
Qed.

Lemma rs_inv_init g s sl e : rs_inv (core_init g s sl e).
Proof. split; [apply core_inv_init|]. cbn. split; apply lib_good_empty. Qed.

Lemma register_trap_rspart c a r f fl d : rspart (fst (fst (register_trap c a r f fl d))) = rspart c.
Proof. unfold register_trap. crush_reg. Qed.
Lemma register_adc_rspart c n dw de fr ph dd : rspart (fst (fst (register_adc c n dw de fr ph dd))) = rspart c.
Proof. unfold register_adc. crush_reg. Qed.
Lemma register_ctl_rspart c ty ch de du : rspart (fst (fst (register_ctl c ty ch de du))) = rspart c.
Proof. unfold register_ctl. crush_reg. Qed.
Lemma register_label_rspart c s v l : rspart (fst (fst (register_label c s v l))) = rspart c.
Proof. unfold register_label. crush_reg. Qed.
Lemma ext_type_id_rspart c s : rspart (fst (ext_type_id c s)) = rspart c.
Proof. unfold ext_type_id. crush_reg. Qed.

Lemma lib_good_inv l : lib_good l -> lib_inv l.
Proof. intro G. exact (proj1 G). Qed.

(* find-or-insert: good library, the row is there under a positive id, older rows are kept *)
Lemma kfoi_full (l : klib) k ty l' id f :
  lib_good l -> kfoi l k ty = (l', id, f) ->
  lib_good l' /\ lib_get l' id = Some k /\ 0 < id /\ lib_le l l'.
Proof.
  intros G E. pose proof (kfoi_good l k ty G) as G'. rewrite E in G'. cbn [fst] in G'.
  destruct (kfoi_get_good _ _ _ _ _ _ G E) as [Hg Hp].
  destruct (kfoi_grow _ _ _ _ _ _ (proj1 G) E) as [_ L].
  split; [exact G'|]. split; [exact Hg|]. split; [exact Hp|exact L].
Qed.

Lemma kins0_full (l : klib) k ty l' id :
  lib_good l -> kins l 0 k ty = (l', id) ->
  lib_good l' /\ lib_get l' id = Some k /\ 0 < id /\ lib_le l l'.
Proof.
  intros G E. pose proof (kins0_good l k ty G) as G'. rewrite E in G'. cbn [fst] in G'.
  destruct (kins_fresh_grow _ _ _ _ _ _ (proj1 G) (or_introl eq_refl) E) as [_ L].
  unfold kins, lib_insert in E. cbn [Z.eqb] in E. inversion E. subst l' id.
  split; [exact G'|]. split; [unfold lib_get; cbn [ldata]; apply agetZ_aset_same|].
  split; [exact (proj1 (proj2 (proj2 G)))|exact L].
Qed.

(* ---- registration of an RF event handed over with its shapes ---------------------------------------------- *)
Definition rf_row_ok (c : core) (rid : Z) (amp : Qc) (mag phase : key) (tshape : option key) (delay freq phoff : Qc) : Prop :=
  0 < rid /\
  exists id1 id2 id3,
    lib_get (rf_l c) rid = Some [amp; zq id1; zq id2; zq id3; delay; freq; phoff] /\
    0 < id1 /\ lib_get (shape_l c) id1 = Some mag /\
    0 < id2 /\ lib_get (shape_l c) id2 = Some phase /\
    match tshape with None => id3 = 0 | Some ts => 0 < id3 /\ lib_get (shape_l c) id3 = Some ts end.

Lemma register_rf_spec c amp mag phase tshape delay freq phoff use c' rid ids clr :
  rs_inv c ->
  register_rf c None amp mag phase tshape delay freq phoff use = (c', rid, ids, clr) ->
  rs_inv c' /\ rf_row_ok c' rid amp mag phase tshape delay freq phoff.
Proof.
  intros (I & S & R) H.
  pose proof (register_rf_grows c None amp mag phase tshape delay freq phoff use I) as [I' _].
  rewrite H in I'. cbn [fst] in I'.
  unfold register_rf in H.
  destruct (kfoi (shape_l c) mag 0) as [[sl1 id1] f1] eqn:E1.
  destruct (kfoi_full _ _ _ _ _ _ S E1) as (S1 & G1 & P1 & L1).
  destruct (kfoi sl1 phase 0) as [[sl2 id2] f2] eqn:E2.
  destruct (kfoi_full _ _ _ _ _ _ S1 E2) as (S2 & G2 & P2 & L2).
  pose proof (lib_le_get _ _ _ _ L2 G1) as G1'.
  destruct tshape as [ts|].
  - destruct (kfoi sl2 ts 0) as [[sl3 id3] f3] eqn:E3.
    destruct (kfoi_full _ _ _ _ _ _ S2 E3) as (S3 & G3 & P3 & L3).
    pose proof (lib_le_get _ _ _ _ L3 G1') as G1''. pose proof (lib_le_get _ _ _ _ L3 G2) as G2''.
    cbn [app map] in H.
    destruct (f1 && f2 && f3).
    + destruct (kfoi (rf_l c) [amp; zq id1; zq id2; zq id3; delay; freq; phoff] use) as [[rl rid0] fd] eqn:ER.
      destruct (kfoi_full _ _ _ _ _ _ R ER) as (R' & GR & PR & _).
      inversion H. subst c' rid ids clr.
      split; [split; [exact I'|cbn; split; assumption]|].
      split; [exact PR|]. exists id1, id2, id3. cbn. repeat split; assumption.
    + destruct (kins (rf_l c) 0 [amp; zq id1; zq id2; zq id3; delay; freq; phoff] use) as [rl rid0] eqn:ER.
      destruct (kins0_full _ _ _ _ _ R ER) as (R' & GR & PR & _).
      inversion H. subst c' rid ids clr.
      split; [split; [exact I'|cbn; split; assumption]|].
      split; [exact PR|]. exists id1, id2, id3. cbn. repeat split; assumption.
  - cbn [app map] in H.
    destruct (f1 && f2).
    + destruct (kfoi (rf_l c) [amp; zq id1; zq id2; zq 0; delay; freq; phoff] use) as [[rl rid0] fd] eqn:ER.
      destruct (kfoi_full _ _ _ _ _ _ R ER) as (R' & GR & PR & _).
      inversion H. subst c' rid ids clr.
      split; [split; [exact I'|cbn; split; assumption]|].
      split; [exact PR|]. exists id1, id2, 0. cbn. repeat split; assumption.
    + destruct (kins (rf_l c) 0 [amp; zq id1; zq id2; zq 0; delay; freq; phoff] use) as [rl rid0] eqn:ER.
      destruct (kins0_full _ _ _ _ _ R ER) as (R' & GR & PR & _).
      inversion H. subst c' rid ids clr.
      split; [split; [exact I'|cbn; split; assumption]|].
      split; [exact PR|]. exists id1, id2, 0. cbn. repeat split; assumption.
Qed.

Lemma register_grad_rs c sids amp ws ts delay first last :
  rs_inv c -> rs_inv (fst (fst (fst (register_grad c sids amp ws ts delay first last)))).
Proof.
  intros (I & S & R).
  pose proof (register_grad_grows c sids amp ws ts delay first last I) as [I' _].
  unfold register_grad in *.
  assert (HS : lib_good (fst (fst (fst
            match sids with
            | Some ids => (shape_l c, ids, true, false)
            | None =>
                let '(sl1, id1, f1) := kfoi (shape_l c) ws 0 in
                match ts with
                | Some ts0 => let '(sl2, id2, f2) := kfoi sl1 ts0 0 in (sl2, [id1; id2], f1 && f2, f1 || f2)
                | None => (sl1, [id1; 0], f1, f1)
                end
            end)))).
  { destruct sids as [ids|]; [exact S|].
    pose proof (kfoi_good (shape_l c) ws 0 S) as S1.
    destruct (kfoi (shape_l c) ws 0) as [[sl1 id1] f1]. cbn [fst] in S1.
    destruct ts as [t|]; [|exact S1].
    pose proof (kfoi_good sl1 t 0 S1) as S2.
    destruct (kfoi sl1 t 0) as [[sl2 id2] f2]. exact S2. }
  destruct (match sids with
            | Some ids => (shape_l c, ids, true, false)
            | None => _ end) as [[[sl ids] may_exist] any_changed]. cbn [fst] in HS.
  destruct may_exist.
  - destruct (kfoi (grad_l c) ([amp] ++ map zq ids ++ [delay; first; last]) tag_g) as [[gl gid] fd]. cbn [fst] in *.
    split; [exact I'|]. cbn. split; assumption.
  - destruct (kins (grad_l c) 0 ([amp] ++ map zq ids ++ [delay; first; last]) tag_g) as [gl gid]. cbn [fst] in *.
    split; [exact I'|]. cbn. split; assumption.
Qed.

Lemma register_rf_rs c sids amp mag ph ts delay freq phoff use :
  rs_inv c -> rs_inv (fst (fst (fst (register_rf c sids amp mag ph ts delay freq phoff use)))).
Proof.
  intros G. destruct sids as [ids|].
  - destruct G as (I & S & R).
    pose proof (register_rf_grows c (Some ids) amp mag ph ts delay freq phoff use I) as [I' _].
    unfold register_rf in *.
    pose proof (kfoi_good (rf_l c) ([amp] ++ map zq ids ++ [delay; freq; phoff]) use R) as R'.
    destruct (kfoi (rf_l c) ([amp] ++ map zq ids ++ [delay; freq; phoff]) use) as [[rl rid] fd]. cbn [fst] in *.
    split; [exact I'|]. cbn. split; assumption.
  - destruct (register_rf c None amp mag ph ts delay freq phoff use) as [[[c' rid] ids] clr] eqn:E.
    cbn [fst]. exact (proj1 (register_rf_spec _ _ _ _ _ _ _ _ _ _ _ _ _ G E)).
Qed.

(* ---- the event loop ------------------------------------------------------------------------------------------- *)
Lemma ev_step_rs a e a' : rs_inv (a_core a) -> ev_step a e = inl a' -> rs_inv (a_core a').
Proof.
  intros G H. pose proof (ev_step_grows a e a' (proj1 G) H) as [I' _].
  destruct e; cbn [ev_step] in H.
  - destruct (negb (nth 1 (a_blk a) 0 =? 0)); [discriminate|].
    destruct id as [i|].
    + inversion H. cbn. exact G.
    + pose proof (register_rf_rs (a_core a) sids amp mag phase tshape delay freq phoff use G) as P.
      destruct (register_rf (a_core a) sids amp mag phase tshape delay freq phoff use) as [[[c1 i] ids] clr].
      inversion H. subst a'. cbn in *. exact P.
  - destruct (negb (nth (2 + ch) (a_blk a) 0 =? 0)); [discriminate|].
    destruct id as [i|].
    + inversion H. cbn. exact G.
    + pose proof (register_grad_rs (a_core a) sids amp wshape tshape delay first last G) as P.
      destruct (register_grad (a_core a) sids amp wshape tshape delay first last) as [[[c1 i] ids] clr].
      inversion H. subst a'. cbn in *. exact P.
  - destruct (negb (nth (2 + ch) (a_blk a) 0 =? 0)); [discriminate|].
    destruct id as [i|].
    + inversion H. cbn. exact G.
    + pose proof (register_trap_rspart (a_core a) amp rise flat fall delay) as P.
      destruct (register_trap (a_core a) amp rise flat fall delay) as [[c1 i] clr].
      inversion H. subst a'. cbn in I' |- *. apply (rs_inv_transfer (a_core a)); assumption.
  - destruct (negb (nth 5 (a_blk a) 0 =? 0)); [discriminate|].
    destruct id as [i|].
    + inversion H. cbn. exact G.
    + pose proof (register_adc_rspart (a_core a) num dwell delay freq phoff dead) as P.
      destruct (register_adc (a_core a) num dwell delay freq phoff dead) as [[c1 i] clr].
      inversion H. subst a'. cbn in I' |- *. apply (rs_inv_transfer (a_core a)); assumption.
  - inversion H. cbn. exact G.
  - destruct id as [i|].
    + pose proof (ext_type_id_rspart (a_core a) XS_TRIGGERS) as P.
      destruct (ext_type_id (a_core a) XS_TRIGGERS) as [c2 tid].
      inversion H. subst a'. cbn in I' |- *. apply (rs_inv_transfer (a_core a)); assumption.
    + pose proof (register_ctl_rspart (a_core a) typ chan delay dur) as P1.
      destruct (register_ctl (a_core a) typ chan delay dur) as [[c1 i] clr]. cbn [fst] in P1.
      pose proof (ext_type_id_rspart c1 XS_TRIGGERS) as P2.
      destruct (ext_type_id c1 XS_TRIGGERS) as [c2 tid]. cbn [fst] in P2.
      inversion H. subst a'. cbn in I' |- *. apply (rs_inv_transfer (a_core a)); [exact I'|rewrite P2; exact P1|exact G].
  - destruct id as [i|].
    + pose proof (ext_type_id_rspart (a_core a) (if is_set then XS_LABELSET else XS_LABELINC)) as P.
      destruct (ext_type_id (a_core a) (if is_set then XS_LABELSET else XS_LABELINC)) as [c2 tid].
      inversion H. subst a'. cbn in I' |- *. apply (rs_inv_transfer (a_core a)); assumption.
    + pose proof (register_label_rspart (a_core a) is_set value lbl) as P1.
      destruct (register_label (a_core a) is_set value lbl) as [[c1 i] clr]. cbn [fst] in P1.
      pose proof (ext_type_id_rspart c1 (if is_set then XS_LABELSET else XS_LABELINC)) as P2.
      destruct (ext_type_id c1 (if is_set then XS_LABELSET else XS_LABELINC)) as [c2 tid]. cbn [fst] in P2.
      inversion H. subst a'. cbn in I' |- *. apply (rs_inv_transfer (a_core a)); [exact I'|rewrite P2; exact P1|exact G].
  - inversion H. cbn. exact G.
Qed.

Definition rf_recorded (a : acc) amp mag phase tshape delay freq phoff : Prop :=
  rf_row_ok (a_core a) (nth 1 (a_blk a) 0) amp mag phase tshape delay freq phoff.

Lemma rf_row_ok_mono c c' rid amp mag phase tshape delay freq phoff :
  core_le c c' -> rf_row_ok c rid amp mag phase tshape delay freq phoff ->
  rf_row_ok c' rid amp mag phase tshape delay freq phoff.
Proof.
  intros L (P & id1 & id2 & id3 & GR & P1 & G1 & P2 & G2 & H3).
  split; [exact P|]. exists id1, id2, id3.
  split; [exact (lib_le_get _ _ _ _ (le_rf _ _ L) GR)|].
  split; [exact P1|]. split; [exact (lib_le_get _ _ _ _ (le_shape _ _ L) G1)|].
  split; [exact P2|]. split; [exact (lib_le_get _ _ _ _ (le_shape _ _ L) G2)|].
  destruct tshape as [ts|]; [|exact H3].
  destruct H3 as [P3 G3]. split; [exact P3|exact (lib_le_get _ _ _ _ (le_shape _ _ L) G3)].
Qed.

Lemma ev_step_keeps_rf a e a' amp mag phase tshape delay freq phoff :
  core_inv (a_core a) -> ev_step a e = inl a' ->
  rf_recorded a amp mag phase tshape delay freq phoff -> rf_recorded a' amp mag phase tshape delay freq phoff.
Proof.
  intros I H R. destruct (ev_step_grows a e a' I H) as [_ L].
  destruct (ev_step_row a e a' H) as [_ Rw]. unfold rf_recorded in *.
  rewrite (Rw 1%nat) by (destruct R as [P _]; lia).
  eapply rf_row_ok_mono; eassumption.
Qed.

Lemma ev_step_records_rf a a' amp mag phase tshape delay freq phoff use sd rd :
  rs_inv (a_core a) -> length (a_blk a) = 7%nat ->
  ev_step a (MRf None None amp mag phase tshape delay freq phoff use sd rd) = inl a' ->
  rf_recorded a' amp mag phase tshape delay freq phoff.
Proof.
  intros G Len H. cbn [ev_step] in H.
  destruct (negb (nth 1 (a_blk a) 0 =? 0)); [discriminate|].
  destruct (register_rf (a_core a) None amp mag phase tshape delay freq phoff use) as [[[c1 i] ids] clr] eqn:E.
  destruct (register_rf_spec _ _ _ _ _ _ _ _ _ _ _ _ _ G E) as [_ Ok].
  inversion H. subst a'. unfold rf_recorded. cbn.
  rewrite nth_set_nth_same by (rewrite Len; lia). exact Ok.
Qed.

Lemma ev_loop_stored_rf evs : forall a a',
  rs_inv (a_core a) -> length (a_blk a) = 7%nat ->
  ev_loop a evs = (a', None) ->
  rs_inv (a_core a') /\ length (a_blk a') = 7%nat /\
  (forall amp mag phase tshape delay freq phoff,
     rf_recorded a amp mag phase tshape delay freq phoff -> rf_recorded a' amp mag phase tshape delay freq phoff) /\
  (forall amp mag phase tshape delay freq phoff use sd rd,
     In (MRf None None amp mag phase tshape delay freq phoff use sd rd) evs ->
     rf_recorded a' amp mag phase tshape delay freq phoff).
Proof.
  induction evs as [|e r IH]; intros a a' G Len H; cbn [ev_loop] in H.
  - inversion H. subst a'. split; [exact G|]. split; [exact Len|].
    split; [intros; assumption|]. intros amp mag phase tshape delay freq phoff use sd rd [].
  - destruct (ev_step a e) as [a1|x] eqn:E; [|discriminate].
    pose proof (ev_step_rs a e a1 G E) as G1.
    destruct (ev_step_row a e a1 E) as [Len1 _]. rewrite Len in Len1.
    destruct (IH a1 a' G1 Len1 H) as (G' & Len' & K & N).
    split; [exact G'|]. split; [exact Len'|]. split.
    + intros amp mag phase tshape delay freq phoff R. apply K.
      eapply ev_step_keeps_rf; [exact (proj1 G)|exact E|exact R].
    + intros amp mag phase tshape delay freq phoff use sd rd [->|Hin]; [|eapply N; exact Hin].
      apply K. eapply ev_step_records_rf; [exact G|exact Len|exact E].
Qed.

(* ---- decoding --------------------------------------------------------------------------------------------------- *)
Definition rf_shapes (mag phase : key) (tshape : option key) : list key :=
  mag :: phase :: match tshape with Some ts => [ts] | None => [] end.

Lemma dec_rf_row c rid amp mag phase tshape delay freq phoff :
  rf_row_ok c rid amp mag phase tshape delay freq phoff ->
  exists id1 id2 id3 use,
    dec_rf c rid = Some (Some ([amp; zq id1; zq id2; zq id3; delay; freq; phoff], use, rf_shapes mag phase tshape)).
Proof.
  intros (P & id1 & id2 & id3 & GR & P1 & G1 & P2 & G2 & H3).
  exists id1, id2, id3, (match lib_type (rf_l c) rid with Some u => u | None => tag_u end).
  unfold dec_rf.
  replace (rid <=? 0) with false by (symmetry; apply Z.leb_gt; exact P).
  rewrite GR. cbn [opt_bind knth nth]. rewrite !qz_zq.
  unfold get_shape. rewrite G1, G2. cbn [opt_bind].
  destruct tshape as [ts|].
  - destruct H3 as [P3 G3].
    replace (0 <? id3) with true by (symmetry; apply Z.ltb_lt; exact P3).
    rewrite G3. reflexivity.
  - subst id3. reflexivity.
Qed.

Lemma decode_rf_field c i b : decode c i = Some b ->
  exists ev, aget Z.eqb (blocks c) i = Some ev /\ dec_rf c (nth 1 ev 0) = Some (d_rf b).
Proof.
  intro H. unfold decode in H.
  destruct (aget Z.eqb (blocks c) i) as [ev|] eqn:E0; cbn [opt_bind] in H; [|discriminate].
  destruct (dec_rf c (nth 1 ev 0)) as [rf|] eqn:E1; cbn [opt_bind] in H; [|discriminate].
  destruct (dec_grad c (nth 2 ev 0)) as [gx|]; cbn [opt_bind] in H; [|discriminate].
  destruct (dec_grad c (nth 3 ev 0)) as [gy|]; cbn [opt_bind] in H; [|discriminate].
  destruct (dec_grad c (nth 4 ev 0)) as [gz|]; cbn [opt_bind] in H; [|discriminate].
  destruct (dec_adc c (nth 5 ev 0)) as [adc|]; cbn [opt_bind] in H; [|discriminate].
  destruct (if 0 <? nth 6 ev 0 then dec_ext c (S (length (ldata (ext_l c)))) (nth 6 ev 0) else Some []) as [ext|];
    cbn [opt_bind] in H; [|discriminate].
  destruct (aget Z.eqb (durs c) i) as [d|]; cbn [opt_bind] in H; [|discriminate].
  inversion H. exists ev. cbn. split; [reflexivity|exact E1].
Qed.

(* ---- one successful set_block -------------------------------------------------------------------------------- *)
Theorem set_block_stores_rf : forall abs_fix c i evs hint c' clr b amp mag phase tshape delay freq phoff use sd rd,
  rs_inv c ->
  set_block_core abs_fix c i evs hint = (c', clr, None) ->
  decode c' i = Some b ->
  In (MRf None None amp mag phase tshape delay freq phoff use sd rd) evs ->
  exists id1 id2 id3 u,
    d_rf b = Some ([amp; zq id1; zq id2; zq id3; delay; freq; phoff], u, rf_shapes mag phase tshape).
Proof.
  intros abs_fix c i evs hint c' clr b amp mag phase tshape delay freq phoff use sd rd G H D Hin.
  unfold set_block_core in H.
  set (a0 := mkAcc c false [0; 0; 0; 0; 0; 0; 0] qc0 [chk0; chk0; chk0] []) in *.
  destruct (ev_loop a0 evs) as [a eo] eqn:EL.
  destruct eo as [x|]; [inversion H|].
  destruct (ev_loop_stored_rf evs a0 a G eq_refl EL) as (Ga & Len & _ & N).
  pose proof (N _ _ _ _ _ _ _ _ _ _ Hin) as R. unfold rf_recorded in R.
  assert (Hc : exists blk c2 dd,
            c' = c2 <| blocks := aset Z.eqb (blocks c2) i blk |> <| durs := dd |> /\
            rf_l c2 = rf_l (a_core a) /\ shape_l c2 = shape_l (a_core a) /\
            nth 1 blk 0 = nth 1 (a_blk a) 0).
  { destruct (a_exts a) as [|x xs].
    - destruct (check_channels abs_fix (a_core a) i (a_dur a) 0 (a_chk a)); [inversion H|].
      inversion H. exists (a_blk a), (a_core a), (aset Z.eqb (durs (a_core a)) i (a_dur a)).
      repeat split; reflexivity.
    - destruct (ext_register hint (ext_l (a_core a)) (x :: xs)) as [el eid].
      destruct (check_channels abs_fix (a_core a <| ext_l := el |>) i (a_dur a) 0 (a_chk a)); [inversion H|].
      inversion H. exists (set_nth 6 eid (a_blk a)), (a_core a <| ext_l := el |>),
                          (aset Z.eqb (durs (a_core a <| ext_l := el |>)) i (a_dur a)).
      split; [reflexivity|]. split; [reflexivity|]. split; [reflexivity|].
      apply nth_set_nth_other. lia. }
  destruct Hc as (blk & c2 & dd & -> & Er & Es & Eb).
  set (cF := c2 <| blocks := aset Z.eqb (blocks c2) i blk |> <| durs := dd |>) in *.
  destruct (decode_rf_field _ _ _ D) as (ev & Hev & Drf).
  change (blocks cF) with (aset Z.eqb (blocks c2) i blk) in Hev.
  rewrite agetZ_aset_same in Hev. inversion Hev. subst ev.
  assert (RF : rf_row_ok cF (nth 1 blk 0) amp mag phase tshape delay freq phoff).
  { rewrite Eb. destruct R as (P & id1 & id2 & id3 & GR & P1 & G1 & P2 & G2 & H3).
    split; [exact P|]. exists id1, id2, id3.
    change (rf_l cF) with (rf_l c2). change (shape_l cF) with (shape_l c2). rewrite Er, Es.
    repeat split; assumption. }
  destruct (dec_rf_row _ _ _ _ _ _ _ _ _ RF) as (id1 & id2 & id3 & u & E).
  exists id1, id2, id3, u. rewrite E in Drf. congruence.
Qed.

(* ---- along histories -------------------------------------------------------------------------------------------- *)
Lemma ev_loop_rs evs : forall a, rs_inv (a_core a) -> rs_inv (a_core (fst (ev_loop a evs))).
Proof.
  induction evs as [|e r IH]; intros a G; cbn [ev_loop]; [exact G|].
  destruct (ev_step a e) as [a1|x] eqn:E; [|exact G].
  apply IH. exact (ev_step_rs a e a1 G E).
Qed.

Lemma sbc_rs abs_fix c i evs hint : rs_inv c -> rs_inv (fst (fst (set_block_core abs_fix c i evs hint))).
Proof.
  intros G. pose proof (sbc_core_inv abs_fix c i evs hint (proj1 G)) as I'.
  unfold set_block_core in *.
  pose proof (ev_loop_rs evs (mkAcc c false [0; 0; 0; 0; 0; 0; 0] qc0 [chk0; chk0; chk0] []) G) as Ga.
  destruct (ev_loop (mkAcc c false [0; 0; 0; 0; 0; 0; 0] qc0 [chk0; chk0; chk0] []) evs) as [a eo].
  cbn [fst] in Ga. destruct eo as [x|]; [exact Ga|].
  destruct (a_exts a) as [|x xs].
  - destruct (check_channels abs_fix (a_core a) i (a_dur a) 0 (a_chk a)); cbn [fst] in *;
      (apply (rs_inv_transfer (a_core a)); [exact I'|reflexivity|exact Ga]).
  - destruct (ext_register hint (ext_l (a_core a)) (x :: xs)) as [el eid].
    destruct (check_channels abs_fix (a_core a <| ext_l := el |>) i (a_dur a) 0 (a_chk a)); cbn [fst] in *;
      (apply (rs_inv_transfer (a_core a)); [exact I'|reflexivity|exact Ga]).
Qed.

Theorem step_rs_inv : forall cache_on abs_fix r1 r2 r3 r4 s o,
  rs_inv (st_core s) -> op_plain o -> rs_inv (st_core (fst (step cache_on abs_fix r1 r2 r3 r4 s o))).
Proof.
  intros cache_on abs_fix r1 r2 r3 r4 s o G Ok.
  pose proof (step_core_inv cache_on abs_fix r1 r2 r3 r4 s o (proj1 G) (op_plain_wf o Ok)) as I'.
  destruct o; cbn [step op_plain] in *.
  - pose proof (sbc_rs abs_fix (st_core s) (next_block (st_core s)) evs hint G) as H.
    destruct (set_block_core abs_fix (st_core s) (next_block (st_core s)) evs hint) as [[c' clr] e].
    cbn [fst] in H. destruct e; cbn [fst st_core] in *; [exact H|].
    apply (rs_inv_transfer c'); [exact I'|reflexivity|exact H].
  - pose proof (sbc_rs abs_fix (st_core s) i evs hint G) as H.
    destruct (set_block_core abs_fix (st_core s) i evs hint) as [[c' clr] e].
    cbn [fst] in H. destruct e; cbn [fst st_core] in *; [exact H|].
    apply (rs_inv_transfer c'); [exact I'|reflexivity|exact H].
  - pose proof (do_get_core cache_on s i) as H.
    destruct (do_get cache_on s i) as [s' b]. cbn [fst] in *. rewrite H. exact G.
  - pose proof (register_rf_rs (st_core s) sids amp mag phase tshape delay freq phoff use G) as P.
    destruct (register_rf (st_core s) sids amp mag phase tshape delay freq phoff use) as [[[c' id] ids] clr].
    cbn [fst st_core] in *. exact P.
  - pose proof (register_grad_rs (st_core s) sids amp wshape tshape delay first last G) as P.
    destruct (register_grad (st_core s) sids amp wshape tshape delay first last) as [[[c' id] ids] clr].
    cbn [fst st_core] in *. exact P.
  - pose proof (register_trap_rspart (st_core s) amp rise flat fall delay) as P.
    destruct (register_trap (st_core s) amp rise flat fall delay) as [[c' id] clr].
    cbn [fst st_core] in *. apply (rs_inv_transfer (st_core s)); assumption.
  - pose proof (register_adc_rspart (st_core s) num dwell delay freq phoff dead) as P.
    destruct (register_adc (st_core s) num dwell delay freq phoff dead) as [[c' id] clr].
    cbn [fst st_core] in *. apply (rs_inv_transfer (st_core s)); assumption.
  - pose proof (register_label_rspart (st_core s) is_set value lbl) as P.
    destruct (register_label (st_core s) is_set value lbl) as [[c' id] clr].
    cbn [fst st_core] in *. apply (rs_inv_transfer (st_core s)); assumption.
  - contradiction.
  - cbn [fst]. exact G.
  - cbn [fst]. rewrite touch_core. exact G.
  - contradiction.
Qed.

Lemma run_rs_inv_gen cache_on abs_fix r1 r2 r3 r4 ops : forall s acc,
  rs_inv (st_core s) -> Forall op_plain ops ->
  rs_inv (st_core (fst (fold_left (fun (acc : state * list out) o =>
               let '(s', x) := step cache_on abs_fix r1 r2 r3 r4 (fst acc) o in (s', snd acc ++ [x]))
               ops (s, acc)))).
Proof.
  induction ops as [|o r IH]; intros s acc L Ok; cbn [fold_left]; [exact L|].
  inversion Ok as [|? ? Oo Or]. subst. cbn [fst snd].
  pose proof (step_rs_inv cache_on abs_fix r1 r2 r3 r4 s o L Oo) as L'.
  destruct (step cache_on abs_fix r1 r2 r3 r4 s o) as [s1 x1]. cbn [fst] in L'.
  apply IH; assumption.
Qed.

(* the property's first clause for RF events, after any plain history, for set_block (add_block: i = next index) *)
Theorem set_block_then_decode_rf : forall cache_on abs_fix r1 r2 r3 r4 ops g sr sl e i evs hint b
                                          amp mag phase tshape delay freq phoff use sd rd,
  Forall op_plain ops ->
  let s := fst (run cache_on abs_fix r1 r2 r3 r4 (mkState (core_init g sr sl e) []) ops) in
  let res := step cache_on abs_fix r1 r2 r3 r4 s (SetBlock i evs hint) in
  snd res = ONone ->
  decode (st_core (fst res)) i = Some b ->
  In (MRf None None amp mag phase tshape delay freq phoff use sd rd) evs ->
  exists id1 id2 id3 u,
    d_rf b = Some ([amp; zq id1; zq id2; zq id3; delay; freq; phoff], u, rf_shapes mag phase tshape).
Proof.
  intros cache_on abs_fix r1 r2 r3 r4 ops g sr sl e i evs hint b amp mag phase tshape delay freq phoff use sd rd Ok.
  cbv zeta.
  assert (G : rs_inv (st_core (fst (run cache_on abs_fix r1 r2 r3 r4 (mkState (core_init g sr sl e) []) ops)))).
  { unfold run. apply run_rs_inv_gen; [apply rs_inv_init|exact Ok]. }
  set (s := fst (run cache_on abs_fix r1 r2 r3 r4 (mkState (core_init g sr sl e) []) ops)) in *.
  cbn [step].
  destruct (set_block_core abs_fix (st_core s) i evs hint) as [[c' clr] eo] eqn:E.
  destruct eo as [x|]; cbn [snd fst st_core]; [discriminate|]. intros _ D Hin.
  rewrite decode_set_next in D.
  exact (set_block_stores_rf _ _ _ _ _ _ _ _ _ _ _ _ _ _ _ _ _ _ G E D Hin).
Qed.

Theorem add_block_then_decode_rf : forall cache_on abs_fix r1 r2 r3 r4 ops g sr sl e evs hint b
                                          amp mag phase tshape delay freq phoff use sd rd,
  Forall op_plain ops ->
  let s := fst (run cache_on abs_fix r1 r2 r3 r4 (mkState (core_init g sr sl e) []) ops) in
  let res := step cache_on abs_fix r1 r2 r3 r4 s (AddBlock evs hint) in
  snd res = ONone ->
  decode (st_core (fst res)) (next_block (st_core s)) = Some b ->
  In (MRf None None amp mag phase tshape delay freq phoff use sd rd) evs ->
  exists id1 id2 id3 u,
    d_rf b = Some ([amp; zq id1; zq id2; zq id3; delay; freq; phoff], u, rf_shapes mag phase tshape).
Proof.
  intros cache_on abs_fix r1 r2 r3 r4 ops g sr sl e evs hint b amp mag phase tshape delay freq phoff use sd rd Ok.
  cbv zeta.
  assert (G : rs_inv (st_core (fst (run cache_on abs_fix r1 r2 r3 r4 (mkState (core_init g sr sl e) []) ops)))).
  { unfold run. apply run_rs_inv_gen; [apply rs_inv_init|exact Ok]. }
  set (s := fst (run cache_on abs_fix r1 r2 r3 r4 (mkState (core_init g sr sl e) []) ops)) in *.
  cbn [step].
  destruct (set_block_core abs_fix (st_core s) (next_block (st_core s)) evs hint) as [[c' clr] eo] eqn:E.
  destruct eo as [x|]; cbn [snd fst st_core]; [discriminate|]. intros _ D Hin.
  rewrite decode_set_next in D.
  exact (set_block_stores_rf _ _ _ _ _ _ _ _ _ _ _ _ _ _ _ _ _ _ G E D Hin).
Qed.
