(* Proofs/ExportArea.v — areas: the joined export has the sum of the piece areas; the get_gradients padding
   changes neither the values inside the waveform nor (for zero end values) the area. *)
From Coq Require Import ZArith QArith Qabs Lia Lqa List Bool Arith Setoid Morphisms.
From PV Require Import Base.QUtil Base.PWL Gen.GenExport Model.Export Proofs.ExportProofs.
Import ListNotations.
Open Scope Q_scope.

Fixpoint sum_areas (ps : list pwl) : Q :=
  match ps with [] => 0 | p :: r => area p + sum_areas r end.

Lemma area_head_eq a v b w T : a == b -> v == w -> area ((a, v) :: T) == area ((b, w) :: T).
Proof.
  intros E1 E2. destruct T as [|[t1 v1] T]; [reflexivity|]. rewrite !area_cons2. rewrite E1, E2. reflexivity.
Qed.

Lemma last_app_ne {A} (l1 l2 : list A) d : l2 <> [] -> last (l1 ++ l2) d = last l2 d.
Proof.
  intro Hn. induction l1 as [|x l1 IH]; [reflexivity|].
  cbn [app]. rewrite <- IH. destruct (l1 ++ l2) eqn:E; [destruct l1; cbn in E; congruence|reflexivity].
Qed.

Lemma last_cons2_eq {A} (x : A) (l : list A) d : l <> [] -> last (x :: l) d = last l d.
Proof. destruct l; [congruence|reflexivity]. Qed.

Lemma last_default {A} : forall (l : list A) d d', l <> [] -> last l d = last l d'.
Proof.
  induction l as [|x l IH]; intros d d' Hn; [congruence|].
  destruct l as [|y l]; [reflexivity|]. rewrite !last_cons2. apply IH. discriminate.
Qed.

Lemma last_shift {A} (c : A) (r : list A) (p : A) : last (c :: r) p = last r c.
Proof.
  destruct r as [|y r]; [reflexivity|]. rewrite last_cons2. apply last_default. discriminate.
Qed.

(* area, last time and last value of the joined list *)
Record join_area_inv (p : pwl) (r : list pwl) : Prop := {
  ja_area : area (join (p :: r)) == area p + sum_areas r;
  ja_tlast : tlast (join (p :: r)) = tlast (last r p);
  ja_vlast : vlast (join (p :: r)) = vlast (last r p)
}.

Lemma join_area_invariant : forall r p, piece_ok p -> Forall piece_ok r -> chain p r -> join_area_inv p r.
Proof.
  induction r as [|c r IH]; intros p Hp Hr Hch.
  - assert (E : join [p] = p) by (cbn [join join_from]; apply app_nil_r).
    split; rewrite E; cbn [sum_areas last]; [ring|reflexivity|reflexivity].
  - destruct Hch as [Hl Hch]. inversion Hr as [|? ? Hc Hr']; subst.
    pose proof (IH c Hc Hr' Hch) as [Ia It Iv].
    pose proof (piece_ok_nonempty _ Hp) as Np. pose proof (piece_ok_nonempty _ Hc) as Nc.
    set (W' := join (c :: r)) in *.
    assert (HW' : W' = c ++ join_from c r) by reflexivity.
    assert (Lrc : last (c :: r) p = last r c) by apply last_shift.
    destruct (split_last p Np) as [p0 Ep].
    set (a := tlast p) in *. set (v := vlast p) in *.
    destruct Hl as [[Ht Hv]|[Hg [Hv0 Hv1]]].
    + pose proof (join_cons2 p c r) as EJ. rewrite (join_step_touch p c Ht) in EJ.
      destruct c as [|[tc vc] c1]; [congruence|]. cbn [tl tfirst vfirst] in *.
      assert (Nc1 : c1 <> []).
      { destruct Hc as [_ Hlen]. destruct c1; [cbn in Hlen; lia|discriminate]. }
      set (T := c1 ++ join_from ((tc, vc) :: c1) r) in *.
      assert (NT : T <> []) by (unfold T; destruct c1; [congruence|discriminate]).
      assert (EW' : W' = (tc, vc) :: T) by reflexivity.
      assert (EW : p ++ T = p0 ++ (a, v) :: T) by (rewrite Ep at 1; rewrite <- app_assoc; reflexivity).
      rewrite EW in EJ.
      split; rewrite EJ, ?Lrc.
      * rewrite area_app, <- Ep. rewrite (area_head_eq a v tc vc T) by assumption.
        rewrite <- EW', Ia. cbn [sum_areas]. ring.
      * rewrite <- It, EW'. unfold tlast. f_equal.
        rewrite (last_app_ne p0 ((a, v) :: T)) by discriminate.
        rewrite (last_cons2_eq (a, v) T) by exact NT. rewrite (last_cons2_eq (tc, vc) T) by exact NT. reflexivity.
      * rewrite <- Iv, EW'. unfold vlast. f_equal.
        rewrite (last_app_ne p0 ((a, v) :: T)) by discriminate.
        rewrite (last_cons2_eq (a, v) T) by exact NT. rewrite (last_cons2_eq (tc, vc) T) by exact NT. reflexivity.
    + subst a v. pose proof (join_cons2 p c r) as EJ. rewrite (join_step_gap p c Hg) in EJ.
      change (c ++ join_from c r) with W' in EJ.
      assert (NW' : W' <> []) by (rewrite HW'; destruct c; [congruence|discriminate]).
      split; rewrite EJ, ?Lrc.
      * destruct W' as [|[b w] T] eqn:EW'; [congruence|].
        assert (Hw : w == 0).
        { assert (Vc : vfirst ((b, w) :: T) = vfirst c) by (rewrite HW'; destruct c; [congruence|reflexivity]).
          cbn [vfirst] in Vc. rewrite Vc. exact Hv1. }
        rewrite Ep at 1. rewrite <- app_assoc. cbn [app].
        rewrite area_app, <- Ep, area_cons2, Ia. rewrite Hv0, Hw. cbn [sum_areas]. ring.
      * rewrite <- It. unfold tlast. f_equal. apply last_app_ne. exact NW'.
      * rewrite <- Iv. unfold vlast. f_equal. apply last_app_ne. exact NW'.
Qed.

Theorem area_join ps : EdgeConsistent ps -> area (join ps) == sum_areas ps.
Proof.
  intros [Hok Hch]. destruct ps as [|p r]; [reflexivity|].
  inversion Hok; subst. destruct (join_area_invariant r p) as [Ha _ _]; assumption.
Qed.

Theorem join_last ps : EdgeConsistent ps -> ps <> [] ->
  tlast (join ps) = tlast (last ps []) /\ vlast (join ps) = vlast (last ps []).
Proof.
  intros [Hok Hch] Hn. destruct ps as [|p r]; [congruence|].
  inversion Hok; subst. destruct (join_area_invariant r p) as [_ Ht Hv]; try assumption.
  assert (E : last (p :: r) [] = last r p).
  { apply last_shift. }
  rewrite E. split; assumption.
Qed.

Theorem join_first (p : pwl) (r : list pwl) : p <> [] -> tfirst (join (p :: r)) = tfirst p /\ vfirst (join (p :: r)) = vfirst p.
Proof. intro Hn. cbn [join]. destruct p; [congruence|]. split; reflexivity. Qed.

(* ------------------------------------------------------------------------------------------ *)
(* the get_gradients padding: two zero samples teps and 2 teps before the first / after the last corner *)

Lemma teps_pos : 0 < teps.
Proof. unfold teps. reflexivity. Qed.

Lemma padded_cons t0 v0 w' :
  padded ((t0, v0) :: w') =
  (t0 - 2 * teps, 0) :: (t0 - teps, 0) :: ((t0, v0) :: w') ++
    [(tlast ((t0, v0) :: w') + teps, 0); (tlast ((t0, v0) :: w') + 2 * teps, 0)].
Proof. reflexivity. Qed.

Lemma sorted_padded w : w <> [] -> sorted_strict (times w) -> sorted_strict (times (padded w)).
Proof.
  pose proof teps_pos as Ht. intros Hn Hs. destruct w as [|[t0 v0] w']; [congruence|].
  rewrite padded_cons. set (w := (t0, v0) :: w') in *.
  change (times ((t0 - 2 * teps, 0) :: (t0 - teps, 0) :: w ++ [(tlast w + teps, 0); (tlast w + 2 * teps, 0)]))
    with ((t0 - 2 * teps) :: (t0 - teps) :: times (w ++ [(tlast w + teps, 0); (tlast w + 2 * teps, 0)])).
  rewrite times_app.
  change (times [(tlast w + teps, 0); (tlast w + 2 * teps, 0)]) with [tlast w + teps; tlast w + 2 * teps].
  assert (S1 : sorted_strict (times w ++ [tlast w + teps; tlast w + 2 * teps])).
  { apply all_consec_app.
    - unfold w. discriminate.
    - exact Hs.
    - split; [lra|exact I].
    - rewrite <- tlast_times. lra. }
  unfold w at 1 in S1. unfold w at 1. rewrite times_cons in *. cbn [app] in *.
  split; [lra|]. split; [lra|]. exact S1.
Qed.

Lemma tlast_padded w : w <> [] -> tlast (padded w) = tlast w + 2 * teps.
Proof.
  intro Hn. unfold padded. unfold tlast at 1. rewrite app_assoc.
  rewrite (last_app_ne _ [(tlast w + teps, 0); (tlast w + 2 * teps, 0)]) by discriminate. reflexivity.
Qed.

Lemma tfirst_padded w : tfirst (padded w) = tfirst w - 2 * teps.
Proof. reflexivity. Qed.

Theorem area_padded w : w <> [] -> area (padded w) == area w + (vfirst w + vlast w) * teps * (1 # 2).
Proof.
  intro Hn. destruct (split_last w Hn) as [w0 Ew].
  destruct w as [|[t0 v0] w']; [congruence|]. rewrite padded_cons.
  set (w := (t0, v0) :: w') in *. set (tl := tlast w) in *. set (vl := vlast w) in *.
  cbn [vfirst]. unfold w at 1. cbn [app]. rewrite !area_cons2.
  change ((t0, v0) :: w' ++ [(tl + teps, 0); (tl + 2 * teps, 0)]) with (w ++ (tl + teps, 0) :: [(tl + 2 * teps, 0)]).
  rewrite area_app.
  rewrite Ew at 1. rewrite <- app_assoc. cbn [app]. rewrite area_app, <- Ew.
  rewrite !area_cons2. cbn [area]. change (vfirst w) with v0. ring.
Qed.

(* a list embedded between a prefix and a suffix evaluates to itself inside its own support *)
Lemma eval_sandwich (P w S : pwl) t : w <> [] -> sorted_strict (times (P ++ w ++ S)) -> inside w t ->
  eval (P ++ w ++ S) t == eval w t.
Proof.
  intros Hn Sp [H1 H2]. destruct (split_last w Hn) as [w0 Ew].
  generalize dependent (vlast w). generalize dependent (tlast w). intros tl H2 vl Ew.
  destruct w as [|[t0 v0] w']; [congruence|]. cbn [tfirst] in H1.
  assert (Sw : sorted_strict (times (((t0, v0) :: w') ++ S))).
  { rewrite times_app in Sp. apply sorted_app_r in Sp. exact Sp. }
  change (P ++ ((t0, v0) :: w') ++ S) with (P ++ (t0, v0) :: (w' ++ S)) in *.
  rewrite (eval_concat_right P t0 v0 (w' ++ S) t Sp H1).
  change ((t0, v0) :: w' ++ S) with (((t0, v0) :: w') ++ S).
  rewrite Ew in Sw |- *. rewrite <- app_assoc in Sw |- *. cbn [app] in Sw |- *.
  apply (eval_concat_left w0 tl vl S t Sw H2).
Qed.

(* inside the waveform the padding is invisible; from teps outside on the padded function is zero *)
Theorem eval_padded_inside w t : w <> [] -> sorted_strict (times w) -> inside w t ->
  eval (padded w) t == eval w t.
Proof.
  intros Hn Hs Hin. pose proof (sorted_padded w Hn Hs) as Sp. unfold padded in *.
  apply eval_sandwich; assumption.
Qed.

Theorem eval_padded_outside w t : w <> [] -> sorted_strict (times w) ->
  t <= tfirst w - teps \/ tlast w + teps <= t -> eval (padded w) t == 0.
Proof.
  pose proof teps_pos as Ht. intros Hn Hs Hout. pose proof (sorted_padded w Hn Hs) as Sp.
  destruct Hout as [H|H].
  - destruct (Qlt_le_dec t (tfirst w - 2 * teps)) as [H0|H0].
    + apply eval_outside_left. rewrite tfirst_padded. exact H0.
    + destruct w as [|[t0 v0] w']; [congruence|]. cbn [tfirst] in *. rewrite padded_cons in *.
      rewrite (eval_between [] (t0 - 2 * teps) 0 (t0 - teps) 0 _ t Sp H0 H).
      apply interp_const.
  - destruct (Qlt_le_dec (tlast w + 2 * teps) t) as [H0|H0].
    + apply eval_outside_right; [exact Sp|]. rewrite tlast_padded by exact Hn. exact H0.
    + unfold padded in *. rewrite app_assoc in *.
      rewrite (eval_between _ (tlast w + teps) 0 (tlast w + 2 * teps) 0 [] t Sp H H0).
      apply interp_const.
Qed.
