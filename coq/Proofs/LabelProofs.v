(* Proofs/LabelProofs.v — evaluate_labels (Model/Labels.v) is the label-by-label interpreter of
   Model/LabelEval.v, for every program, every init dictionary and every evolution mode. *)
From Coq Require Import List Bool ZArith Lia Permutation.
From PV Require Import Base.AList Model.Labels Model.LabelEval.
Import ListNotations.
Open Scope Z_scope.

Lemma Zeqb_spec' : forall a b : Z, Z.eqb a b = true <-> a = b.
Proof. intros. apply Z.eqb_eq. Qed.

Local Notation get := (aget Z.eqb).
Local Notation put := (aset Z.eqb).

Lemma get_put_same {V} (e : list (Z * V)) k v : get (put e k v) k = Some v.
Proof. apply (aget_aset_same Z.eqb Zeqb_spec'). Qed.
Lemma get_put_other {V} (e : list (Z * V)) k v k2 : k2 <> k -> get (put e k v) k2 = get e k2.
Proof. apply (aget_aset_other Z.eqb Zeqb_spec'). Qed.

(* ---- one operation, one block ------------------------------------------------------------------- *)
Lemma get_apply_op e o l : get (apply_op e o) l = op_on l (get e l) o.
Proof.
  unfold apply_op, op_on. destruct (l_lbl o =? l) eqn:E.
  - apply Z.eqb_eq in E. subst l. destruct (l_set o).
    + apply get_put_same.
    + destruct (get e (l_lbl o)) as [v|] eqn:G.
      * rewrite G. apply get_put_same.
      * rewrite get_put_same. rewrite get_put_same. reflexivity.
  - apply Z.eqb_neq in E. assert (N : l <> l_lbl o) by congruence. destruct (l_set o).
    + apply get_put_other. exact N.
    + destruct (get e (l_lbl o)) as [v|] eqn:G.
      * rewrite G. apply get_put_other. exact N.
      * rewrite get_put_same. rewrite get_put_other by exact N. apply get_put_other. exact N.
Qed.

Lemma get_apply_ops ops : forall e l, get (fold_left apply_op ops e) l = fold_left (op_on l) ops (get e l).
Proof.
  induction ops as [|o r IH]; intros e l; cbn [fold_left]; [reflexivity|].
  rewrite IH. rewrite get_apply_op. reflexivity.
Qed.

Lemma get_apply_block e b l : get (apply_block e b) l = lstep_seq l (get e l) b.
Proof. unfold apply_block, lstep_seq. apply get_apply_ops. Qed.

(* the rows a block contributes: exactly one snapshot iff the block emits in this mode *)
Lemma block_step_spec m e b :
  block_step m e b = (apply_block e b, if emits m b then [apply_block e b] else []).
Proof.
  unfold block_step, emits. destruct m; destruct (b_labels b) eqn:L; try destruct (b_adc b); reflexivity.
Qed.

Definition look0 (l : Z) (s : env) : Z := val0 (get s l).

Lemma run_blocks_spec m l : forall bs e,
  get (fst (run_blocks m e bs)) l = fst (interp_col lstep_seq m l (get e l) bs) /\
  map (look0 l) (snd (run_blocks m e bs)) = snd (interp_col lstep_seq m l (get e l) bs).
Proof.
  induction bs as [|b r IH]; intros e; cbn [run_blocks interp_col].
  - split; reflexivity.
  - rewrite block_step_spec.
    destruct (IH (apply_block e b)) as [H1 H2].
    rewrite get_apply_block in H1, H2.
    destruct (run_blocks m (apply_block e b) r) as [e2 s'].
    destruct (interp_col lstep_seq m l (lstep_seq l (get e l) b) r) as [vf rows].
    cbn [fst snd] in *. split; [exact H1|].
    rewrite map_app. rewrite H2.
    destruct (emits m b); cbn [map app]; [|reflexivity].
    unfold look0. rewrite get_apply_block. reflexivity.
Qed.

(* number of rows is the same for every label *)
Lemma interp_col_rows stp m l v bs :
  length (snd (interp_col stp m l v bs)) = length (filter (emits m) bs).
Proof.
  revert v. induction bs as [|b r IH]; intros v; cbn [interp_col filter]; [reflexivity|].
  specialize (IH (stp l v b)). destruct (interp_col stp m l (stp l v b) r) as [vf rows].
  cbn [snd] in *. destruct (emits m b); cbn [length]; lia.
Qed.

Lemma get_map_snd {A B} (f : Z -> A -> B) (e : list (Z * A)) l :
  get (map (fun kv => (fst kv, f (fst kv) (snd kv))) e) l = option_map (f l) (get e l).
Proof.
  induction e as [|[k v] r IH]; cbn; [reflexivity|].
  destruct (k =? l) eqn:E; [apply Z.eqb_eq in E; subst; reflexivity|exact IH].
Qed.

(* ---- the theorem, sequential form: any number of operations per label and block ---------------- *)
Theorem eval_labels_is_seq_interpreter : forall init m bs l,
  get (fst (evaluate_labels init m bs)) l = interp_seq init m bs l.
Proof.
  intros init m bs l. unfold evaluate_labels, interp_seq, interp_gen.
  destruct (run_blocks_spec m l bs init) as [H1 H2].
  destruct (run_blocks m init bs) as [e evo].
  destruct (interp_col lstep_seq m l (get init l) bs) as [vf rows]. cbn [fst snd] in *.
  destruct evo as [|s0 evo']; cbn [fst].
  - cbn [map] in H2. subst rows.
    rewrite (get_map_snd (fun _ v => [v])). rewrite H1. destruct vf; reflexivity.
  - rewrite (get_map_snd (fun k _ => map (fun s => match get s k with Some v => v | None => 0 end) (s0 :: evo'))).
    rewrite H1. destruct vf as [x|]; cbn [option_map]; [|reflexivity].
    f_equal. change (map (look0 l) (s0 :: evo') = match rows with [] => [x] | _ => rows end).
    rewrite H2. destruct rows; [discriminate H2|reflexivity].
Qed.

(* array-or-scalar flag: arrays are returned iff at least one block emitted a row *)
Theorem eval_labels_array_flag : forall init m bs,
  snd (evaluate_labels init m bs) = existsb (emits m) bs.
Proof.
  intros init m bs. unfold evaluate_labels.
  assert (H : length (snd (run_blocks m init bs)) = length (filter (emits m) bs)).
  { destruct (run_blocks_spec m 0 bs init) as [_ H2].
    rewrite <- (map_length (look0 0)). rewrite H2. apply interp_col_rows. }
  destruct (run_blocks m init bs) as [e evo]. cbn [snd] in H.
  assert (X : existsb (emits m) bs = negb (Nat.eqb (length (filter (emits m) bs)) 0)).
  { clear. induction bs as [|b r IH]; cbn; [reflexivity|]. destruct (emits m b); cbn; [reflexivity|exact IH]. }
  rewrite X, <- H. destruct evo; reflexivity.
Qed.

(* ---- at most one operation per label: the order inside a block is irrelevant ------------------- *)
Lemma nodup_z_cons x r : nodup_z (x :: r) = true -> ~ In x r /\ nodup_z r = true.
Proof.
  cbn. intro H. apply andb_true_iff in H. destruct H as [H1 H2]. split; [|exact H2].
  intro Hin. apply negb_true_iff in H1.
  assert (existsb (Z.eqb x) r = true) by (apply existsb_exists; exists x; split; [exact Hin|apply Z.eqb_refl]).
  congruence.
Qed.

Lemma fold_op_on_absent l ops : forall v, ~ In l (map l_lbl ops) -> fold_left (op_on l) ops v = v.
Proof.
  induction ops as [|o r IH]; intros v N; cbn [fold_left]; [reflexivity|].
  cbn [map] in N. unfold op_on at 2.
  destruct (l_lbl o =? l) eqn:E; [apply Z.eqb_eq in E; exfalso; apply N; left; exact E|].
  apply IH. intro H. apply N. right. exact H.
Qed.

Lemma find_op_absent l ops : ~ In l (map l_lbl ops) -> find_op l ops = None.
Proof.
  induction ops as [|o r IH]; intro N; cbn [find_op]; [reflexivity|]. cbn [map] in N.
  destruct (l_lbl o =? l) eqn:E; [apply Z.eqb_eq in E; exfalso; apply N; left; exact E|].
  apply IH. intro H. apply N. right. exact H.
Qed.

Lemma lstep_seq_one l v b : one_op_per_label b = true -> lstep_seq l v b = spec_step l v b.
Proof.
  unfold one_op_per_label, lstep_seq, spec_step. generalize (b_labels b) as ops. intro ops. revert v.
  induction ops as [|o r IH]; intros v N; cbn [fold_left find_op map] in *; [reflexivity|].
  destruct (nodup_z_cons _ _ N) as [Nin Nr].
  unfold op_on at 2. destruct (l_lbl o =? l) eqn:E.
  - apply Z.eqb_eq in E. subst l. rewrite fold_op_on_absent by exact Nin.
    destruct (l_set o); reflexivity.
  - apply IH. exact Nr.
Qed.

Lemma interp_col_ext stp1 stp2 m l bs :
  Forall (fun b => forall v, stp1 l v b = stp2 l v b) bs ->
  forall v, interp_col stp1 m l v bs = interp_col stp2 m l v bs.
Proof.
  induction 1 as [|b r Hb _ IH]; intros v; cbn [interp_col]; [reflexivity|].
  rewrite Hb. rewrite IH. reflexivity.
Qed.

Theorem eval_labels_is_interpreter : forall init m bs l,
  forallb one_op_per_label bs = true ->
  get (fst (evaluate_labels init m bs)) l = interp init m bs l.
Proof.
  intros init m bs l H. rewrite eval_labels_is_seq_interpreter.
  unfold interp_seq, interp, interp_gen.
  rewrite (interp_col_ext lstep_seq spec_step); [reflexivity|].
  rewrite forallb_forall in H. apply Forall_forall. intros b Hb v. apply lstep_seq_one. apply H. exact Hb.
Qed.

(* the stored order of the operations of a block (ascending library id, ties by NumPy's sort) cannot be
   observed through evaluate_labels when every block has at most one operation per label *)
Lemma nodup_z_NoDup l : nodup_z l = true <-> NoDup l.
Proof.
  induction l as [|x r IH]; cbn; split; intro H; try reflexivity; try constructor.
  - apply andb_true_iff in H. destruct H as [H1 _]. apply negb_true_iff in H1. intro Hin.
    assert (existsb (Z.eqb x) r = true) by (apply existsb_exists; exists x; split; [exact Hin|apply Z.eqb_refl]).
    congruence.
  - apply IH. apply andb_true_iff in H. apply H.
  - inversion H as [|? ? Hn Hr]. subst. apply andb_true_iff. split; [|apply IH; exact Hr].
    apply negb_true_iff. destruct (existsb (Z.eqb x) r) eqn:E; [|reflexivity].
    apply existsb_exists in E. destruct E as (y & Hy & Ey). apply Z.eqb_eq in Ey. subst. contradiction.
Qed.

Lemma find_op_perm l ops ops' :
  NoDup (map l_lbl ops) -> Permutation ops ops' -> find_op l ops = find_op l ops'.
Proof.
  intros N P. revert N. induction P as [|o r r' P IH|o1 o2 r|r1 r2 r3 P1 IH1 P2 IH2]; intro N.
  - reflexivity.
  - cbn [find_op]. destruct (l_lbl o =? l); [reflexivity|]. apply IH. cbn in N. inversion N. assumption.
  - cbn [find_op]. destruct (l_lbl o2 =? l) eqn:E2; destruct (l_lbl o1 =? l) eqn:E1; try reflexivity.
    apply Z.eqb_eq in E1, E2. cbn in N. inversion N as [|? ? Hn _]. exfalso. apply Hn. left. congruence.
  - rewrite IH1 by exact N. apply IH2. eapply Permutation_NoDup; [apply Permutation_map; exact P1|exact N].
Qed.

Definition same_up_to_order (b b' : lblock) : Prop :=
  Permutation (b_labels b) (b_labels b') /\ b_adc b = b_adc b'.

Lemma emits_perm m b b' : same_up_to_order b b' -> emits m b = emits m b'.
Proof.
  intros [P A]. unfold emits. destruct m; try reflexivity; try exact A.
  destruct (b_labels b) eqn:E1; destruct (b_labels b') eqn:E2; try reflexivity.
  - apply Permutation_nil in P. discriminate.
  - apply Permutation_sym, Permutation_nil in P. discriminate.
Qed.

Lemma interp_col_perm m l : forall bs bs',
  Forall2 same_up_to_order bs bs' -> Forall (fun b => one_op_per_label b = true) bs ->
  forall v, interp_col spec_step m l v bs = interp_col spec_step m l v bs'.
Proof.
  induction 1 as [|b b' r r' Hb _ IH]; intros N v; cbn [interp_col]; [reflexivity|].
  inversion N as [|? ? Nb Nr]. subst.
  assert (S : spec_step l v b = spec_step l v b').
  { unfold spec_step. rewrite (find_op_perm l (b_labels b) (b_labels b')); [reflexivity| |exact (proj1 Hb)].
    apply nodup_z_NoDup. exact Nb. }
  rewrite S, (emits_perm m b b' Hb), (IH Nr). reflexivity.
Qed.

Lemma one_op_perm b b' : same_up_to_order b b' -> one_op_per_label b = true -> one_op_per_label b' = true.
Proof.
  intros [P _] H. unfold one_op_per_label in *. apply nodup_z_NoDup. apply nodup_z_NoDup in H.
  eapply Permutation_NoDup; [apply Permutation_map; exact P|exact H].
Qed.

Lemma Forall2_one_op bs bs' : Forall2 same_up_to_order bs bs' ->
  Forall (fun b => one_op_per_label b = true) bs -> Forall (fun b => one_op_per_label b = true) bs'.
Proof.
  induction 1 as [|b b' r r' Hb _ IH]; intro N; [constructor|].
  inversion N. subst. constructor; [eapply one_op_perm; eassumption|apply IH; assumption].
Qed.

Lemma forallb_Forall {A} (f : A -> bool) l : forallb f l = true <-> Forall (fun x => f x = true) l.
Proof. rewrite forallb_forall, Forall_forall. reflexivity. Qed.

Theorem eval_labels_order_irrelevant : forall init m bs bs' l,
  Forall2 same_up_to_order bs bs' -> forallb one_op_per_label bs = true ->
  get (fst (evaluate_labels init m bs)) l = get (fst (evaluate_labels init m bs')) l.
Proof.
  intros init m bs bs' l P N.
  pose proof (proj1 (forallb_Forall _ _) N) as NF.
  pose proof (proj2 (forallb_Forall _ _) (Forall2_one_op _ _ P NF)) as N'.
  rewrite (eval_labels_is_interpreter init m bs l N), (eval_labels_is_interpreter init m bs' l N').
  unfold interp, interp_gen. rewrite (interp_col_perm m l bs bs' P NF). reflexivity.
Qed.

(* with two operations on one label in one block the order IS observable: the property's restriction
   to at most one operation per label and block is necessary *)
Theorem eval_labels_order_matters_refuted :
  exists (init : env) (m : emode) (b b' : lblock) (l : Z), same_up_to_order b b' /\
    (get (fst (evaluate_labels init m [b])) l <> get (fst (evaluate_labels init m [b'])) l).
Proof.
  exists [], ENone, (mkLBlock [mkLop true 8 5; mkLop false 8 1] false),
         (mkLBlock [mkLop false 8 1; mkLop true 8 5] false), 8.
  split; [split; [apply perm_swap|reflexivity]|]. vm_compute. discriminate.
Qed.
