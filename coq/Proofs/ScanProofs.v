(* Proofs/ScanProofs.v — the first/last reconstruction scan recovers the edge values of a continuous
   block table, for every history of event re-use (induction over channels and blocks). *)
From Coq Require Import List Bool ZArith QArith Lia.
From PV Require Import Base.QUtil Model.Scan.
Import ListNotations.
Open Scope Q_scope.

Lemma zlookup_app {A} (l : list (Z * A)) k v i :
  zlookup (l ++ [(k, v)]) i = match zlookup l i with Some x => Some x | None => if (k =? i)%Z then Some v else None end.
Proof.
  induction l as [|[k' v'] r IH]; cbn [app zlookup]; [reflexivity|].
  destruct (k' =? i)%Z; [reflexivity|exact IH].
Qed.

Section ScanProofs.
Variable eps : Q.
Variable lib : list (Z * gev).
Variable F : Z -> Q.          (* the first value of every shape-based gradient event *)

Definition wl (id : Z) : Q := match zlookup lib id with Some g => g_wlast g | None => 0 end.
(* the value a channel holding event [id] ends at *)
Definition endv (id : Z) : Q :=
  if (id =? 0)%Z then 0 else
  match zlookup lib id with Some g => if g_trap g then 0 else g_wlast g | None => 0 end.
Definition is_grad (id : Z) : Prop := id <> 0%Z /\ exists g, zlookup lib id = Some g /\ g_trap g = false.

(* continuity of one channel of one block (the C05 invariant, exact): the event starts at the value the
   previous block ended at (at 0 when it has a delay), and an event that ends before the block end ends at 0 *)
Definition chan_ok (bdur p : Q) (id : Z) : Prop :=
  forall g, id <> 0%Z -> zlookup lib id = Some g -> g_trap g = false ->
    F id = (if Qltb 0 (g_delay g) then 0 else p) /\ (Qltb (g_dur g + eps) bdur = true -> g_wlast g = 0).

Fixpoint Cont (pv : list Q) (bs : list sblock) : Prop :=
  match bs with
  | [] => True
  | b :: r => length (b_ids b) = length pv /\ Forall2 (chan_ok (b_dur b)) pv (b_ids b) /\ Cont (map endv (b_ids b)) r
  end.

Definition done_ok (done : fltab) : Prop := forall id fl, zlookup done id = Some fl -> fl = (F id, wl id).

Lemma scan_channel_spec done0 earlier bdur id p done p' done' :
  scan_channel true true eps lib done0 earlier bdur id p done = (p', done') ->
  chan_ok bdur p id -> done_ok done0 -> done_ok done ->
  (forall i q, zlookup earlier i = Some q -> q = endv i) ->
  (forall i, zlookup done i <> None -> zlookup done0 i <> None \/ zlookup earlier i <> None) ->
  (forall i, zlookup earlier i <> None -> is_grad i -> zlookup done i <> None) ->
  (forall i, zlookup done0 i <> None -> zlookup done i <> None) ->
  p' = endv id /\ done_ok done' /\
  (forall i fl, zlookup done i = Some fl -> zlookup done' i = Some fl) /\
  (forall i, zlookup done' i <> None -> zlookup done i <> None \/ (i = id /\ is_grad id)) /\
  (is_grad id -> zlookup done' id <> None).
Proof.
  intros H CO D0 D E I3 I4 I5. unfold scan_channel in H. unfold endv.
  destruct (id =? 0)%Z eqn:Z0.
  { inversion H; subst. repeat split; auto. intros [N _]. apply Z.eqb_eq in Z0. contradiction. }
  assert (NZ : id <> 0%Z) by (apply Z.eqb_neq; exact Z0).
  destruct (zlookup lib id) as [g|] eqn:L.
  2:{ inversion H; subst. repeat split; auto. intros [_ [g [G _]]]. congruence. }
  destruct (g_trap g) eqn:T.
  { inversion H; subst. repeat split; auto. intros [_ [g' [G T']]]. rewrite G in L. inversion L; subst. congruence. }
  assert (IG : is_grad id) by (split; [exact NZ|exists g; split; assumption]).
  destruct (CO g NZ L T) as [CF CS].
  destruct (zlookup done0 id) as [fl|] eqn:L0.
  { inversion H; subst. specialize (D0 id fl L0). subst fl. cbn [snd]. unfold wl. rewrite L.
    repeat split; auto. intros _. apply I5. rewrite L0. discriminate. }
  destruct (zlookup earlier id) as [pe|] eqn:LE.
  { inversion H; subst. specialize (E id p' LE). unfold endv in E. rewrite Z0, L, T in E.
    repeat split; auto. intros _. apply I4; [rewrite LE; discriminate|exact IG]. }
  inversion H; subst. clear H.
  assert (DN : zlookup done id = None).
  { destruct (zlookup done id) eqn:X; [|reflexivity]. exfalso.
    destruct (I3 id) as [A|A]; [rewrite X; discriminate|rewrite L0 in A; congruence|rewrite LE in A; congruence]. }
  split; [|split; [|split; [|split]]].
  - destruct (Qltb (g_dur g + eps) bdur) eqn:S; [|reflexivity]. symmetry. apply CS. reflexivity.
  - intros i fl X. rewrite zlookup_app in X. destruct (zlookup done i) eqn:Y.
    + inversion X; subst. apply (D i). exact Y.
    + destruct (id =? i)%Z eqn:EQ; [|discriminate]. apply Z.eqb_eq in EQ. subst i. inversion X; subst.
      unfold wl. rewrite L, CF. reflexivity.
  - intros i fl X. rewrite zlookup_app, X. reflexivity.
  - intros i X. rewrite zlookup_app in X. destruct (zlookup done i) eqn:Y; [left; discriminate|].
    destruct (id =? i)%Z eqn:EQ; [|congruence]. apply Z.eqb_eq in EQ. right. split; [symmetry; exact EQ|exact IG].
  - intros _. rewrite zlookup_app, DN, Z.eqb_refl. discriminate.
Qed.

Lemma scan_chs_spec done0 bdur : forall ids prevs earlier done prevs' done',
  scan_chs true true eps lib done0 bdur earlier ids prevs done = (prevs', done') ->
  length ids = length prevs -> Forall2 (chan_ok bdur) prevs ids -> done_ok done0 -> done_ok done ->
  (forall i q, zlookup earlier i = Some q -> q = endv i) ->
  (forall i, zlookup done i <> None -> zlookup done0 i <> None \/ zlookup earlier i <> None) ->
  (forall i, zlookup earlier i <> None -> is_grad i -> zlookup done i <> None) ->
  (forall i, zlookup done0 i <> None -> zlookup done i <> None) ->
  prevs' = map endv ids /\ done_ok done' /\
  (forall i fl, zlookup done i = Some fl -> zlookup done' i = Some fl) /\
  (forall i, In i ids -> is_grad i -> zlookup done' i <> None).
Proof.
  induction ids as [|id ids IH]; intros prevs earlier done prevs' done' H LEN FA D0 D E I3 I4 I5.
  - destruct prevs; cbn in H; inversion H; subst; (repeat split; auto; intros i []).
  - destruct prevs as [|p prevs]; [cbn in LEN; lia|]. cbn [scan_chs] in H.
    destruct (scan_channel true true eps lib done0 earlier bdur id p done) as [p1 done1] eqn:C.
    destruct (scan_chs true true eps lib done0 bdur (earlier ++ [(id, p1)]) ids prevs done1) as [rest done2] eqn:R.
    inversion H; subst. clear H. inversion FA as [|? ? ? ? CO FA']; subst.
    destruct (scan_channel_spec _ _ _ _ _ _ _ _ C CO D0 D E I3 I4 I5) as [P1 [D1 [M1 [N1 G1]]]].
    assert (LEN' : length ids = length prevs) by (cbn in LEN; lia).
    destruct (IH prevs (earlier ++ [(id, p1)]) done1 rest done' R LEN' FA' D0 D1) as [P2 [D2 [M2 G2]]].
    + intros i q X. rewrite zlookup_app in X. destruct (zlookup earlier i) eqn:Y.
      * inversion X; subst. apply E. exact Y.
      * destruct (id =? i)%Z eqn:EQ; [|discriminate]. apply Z.eqb_eq in EQ. subst i. inversion X; subst; reflexivity.
    + intros i X. destruct (N1 i X) as [A|[A _]].
      * destruct (I3 i A) as [B|B]; [left; exact B|right]. rewrite zlookup_app.
        destruct (zlookup earlier i); [discriminate|contradiction].
      * right. subst i. rewrite zlookup_app. destruct (zlookup earlier id); [discriminate|]. rewrite Z.eqb_refl. discriminate.
    + intros i X IG. rewrite zlookup_app in X. destruct (zlookup earlier i) eqn:Y.
      * assert (A : zlookup done i <> None) by (apply I4; [rewrite Y; discriminate|exact IG]).
        destruct (zlookup done i) eqn:Z1; [|contradiction]. rewrite (M1 i _ Z1). discriminate.
      * destruct (id =? i)%Z eqn:EQ; [|contradiction]. apply Z.eqb_eq in EQ. subst i. apply G1. exact IG.
    + intros i X. specialize (I5 i X). destruct (zlookup done i) eqn:Z1; [|contradiction]. rewrite (M1 i _ Z1). discriminate.
    + split; [cbn [map]; rewrite P1, P2; reflexivity|]. split; [exact D2|]. split.
      * intros i fl X. apply M2. apply M1. exact X.
      * intros i [EQ|IN] IG.
        -- subst i. specialize (G1 IG). destruct (zlookup done1 id) eqn:Z1; [|contradiction]. rewrite (M2 id _ Z1). discriminate.
        -- apply G2; assumption.
Qed.

Lemma scan_block_spec st b st' :
  scan_block true true eps lib st b = st' -> done_ok (snd st) ->
  length (b_ids b) = length (fst st) -> Forall2 (chan_ok (b_dur b)) (fst st) (b_ids b) ->
  fst st' = map endv (b_ids b) /\ done_ok (snd st') /\
  (forall i fl, zlookup (snd st) i = Some fl -> zlookup (snd st') i = Some fl) /\
  (forall i, In i (b_ids b) -> is_grad i -> zlookup (snd st') i <> None).
Proof.
  intros H D LEN FA. unfold scan_block in H. destruct st' as [pv' done'].
  apply (scan_chs_spec (snd st) (b_dur b) (b_ids b) (fst st) [] (snd st) pv' done' H LEN FA D D).
  - intros i q X. discriminate X.
  - intros i X. left. exact X.
  - intros i X. cbn in X. contradiction.
  - auto.
Qed.

Lemma scan_fold_spec : forall bs st,
  done_ok (snd st) -> Cont (fst st) bs ->
  let res := fold_left (scan_block true true eps lib) bs st in
  done_ok (snd res) /\
  (forall i fl, zlookup (snd st) i = Some fl -> zlookup (snd res) i = Some fl) /\
  (forall b i, In b bs -> In i (b_ids b) -> is_grad i -> zlookup (snd res) i <> None).
Proof.
  induction bs as [|b bs IH]; intros st D C; cbn [fold_left].
  - repeat split; auto; intros b i [].
  - cbn [Cont] in C. destruct C as [LEN [FA C']].
    destruct (scan_block_spec st b _ eq_refl D LEN FA) as [P [D1 [M1 G1]]].
    set (st1 := scan_block true true eps lib st b) in *.
    rewrite <- P in C'. destruct (IH st1 D1 C') as [D2 [M2 G2]].
    split; [exact D2|]. split.
    + intros i fl X. apply M2. apply M1. exact X.
    + intros b' i [EQ|IN] II IG.
      * subst b'. specialize (G1 i II IG). destruct (zlookup (snd st1) i) eqn:Z1; [|contradiction].
        rewrite (M2 i _ Z1). discriminate.
      * apply (G2 b' i IN II IG).
Qed.

(* for every continuous block table and every history of re-use, the scan gives every shape-based gradient
   event the first value it had (= what the previous block ended at on that channel) and its own end value *)
Theorem first_last_reconstruction_gen bs : Cont [0; 0; 0] bs ->
  forall b id, In b bs -> In id (b_ids b) -> is_grad id ->
  zlookup (snd (scan_blocks true true eps lib bs)) id = Some (F id, wl id).
Proof.
  intros C b id IB II IG. unfold scan_blocks.
  destruct (scan_fold_spec bs ([0; 0; 0], []) ltac:(intros i fl X; discriminate X) C) as [D [_ G]].
  specialize (G b id IB II IG). cbn zeta in *.
  destruct (zlookup (snd (fold_left (scan_block true true eps lib) bs ([0; 0; 0], []))) id) as [fl|] eqn:X; [|contradiction].
  rewrite (D id fl X). reflexivity.
Qed.
End ScanProofs.
