(* Proofs/TrapMinimal.v — minimality of the ramp times make_trapezoid chooses itself
   (argument sets other than area-only, whose near-optimality is trap_near_optimal_l):
     * amplitude paths and the flat_area path without ramps: the chosen ramp is THE shortest positive
       raster multiple that ramps to the returned amplitude within max_slew (exactly, no eps slack);
     * area + duration without ramps (and area-only): the ramps are those of the shortest design for the
       area — never longer than the shortest slew-feasible triangle ramp, and on the plateau branch of an
       area-only call the shortest for the returned amplitude.  For area + duration the ramp is in general
       NOT the shortest for the (smaller) returned amplitude: refuted by a witness in Props/C11.v. *)
From Coq Require Import ZArith QArith Qround Qabs Bool Lia Lqa.
From PV Require Import Base.QUtil Gen.GenTrap Model.Trap Proofs.TrapProofs.
Open Scope Q_scope.

Lemma raster_ge_one (k : Z) R : 0 < R -> (1 <= k)%Z -> R <= inject_Z k * R.
Proof.
  intros HR Hk. rewrite <- (Qmult_1_l R) at 1. apply Qmult_le_compat_r; [|lra].
  change 1 with (inject_Z 1). rewrite <- Zle_Qle. exact Hk.
Qed.

Lemma amp_chosen_rise_minimal h S R (k : Z) : 0 < S -> 0 < R -> (1 <= k)%Z ->
  Qabs h <= S * (inject_Z k * R) -> amp_chosen_rise h S R <= inject_Z k * R.
Proof.
  intros HS HR Hk H. unfold amp_chosen_rise. destruct (isz _).
  - apply raster_ge_one; assumption.
  - apply ceil_raster_least; [exact HR|]. apply Qdiv_le_iff; [exact HS|]. rewrite Qmult_comm. exact H.
Qed.

Lemma amp_chosen_rise_feasible h S R : 0 < S -> 0 < R -> Qabs h <= S * amp_chosen_rise h S R.
Proof.
  intros HS HR. unfold amp_chosen_rise.
  pose proof (ceil_raster_ge (Qabs h / S) R HR) as H.
  destruct (isz _) eqn:Z.
  - apply isz_true in Z. rewrite Z in H. apply (proj1 (Qdiv_le_iff _ _ _ HS)) in H.
    assert (0 <= S * R) by (apply Qmult_le_0_compat; lra). lra.
  - apply (proj1 (Qdiv_le_iff _ _ _ HS)) in H. rewrite Qmult_comm. exact H.
Qed.

Lemma shortest_rise_time_minimal amp S R (k : Z) : 0 < S -> 0 < R -> (1 <= k)%Z ->
  Qabs amp <= S * (inject_Z k * R) -> shortest_rise_time amp S R <= inject_Z k * R.
Proof.
  intros HS HR Hk H. unfold shortest_rise_time. apply ceil_raster_least; [exact HR|].
  destruct (Qmax_case (Qabs amp / S) R) as [E|E]; rewrite E.
  - apply Qdiv_le_iff; [exact HS|]. rewrite Qmult_comm. exact H.
  - apply raster_ge_one; assumption.
Qed.

Lemma shortest_rise_time_feasible amp S R : 0 < S -> 0 < R -> Qabs amp <= S * shortest_rise_time amp S R.
Proof.
  intros HS HR. unfold shortest_rise_time.
  pose proof (ceil_raster_ge (Qmax (Qabs amp / S) R) R HR) as H.
  pose proof (Qmax_ub_l (Qabs amp / S) R) as H1.
  assert (H2 : Qabs amp / S <= ceil_raster (Qmax (Qabs amp / S) R) R) by lra.
  apply (proj1 (Qdiv_le_iff _ _ _ HS)) in H2. rewrite Qmult_comm. exact H2.
Qed.

(* amplitude / flat_area requests without ramps: exact slew feasibility and minimality *)
Lemma trap_chosen_ramp_minimal_l a g : make_trap a = OK g -> rise0_of a = None -> a_area a = None ->
  Qabs (t_amplitude g) <= eff_max_slew a * t_rise g /\
  forall k : Z, (1 <= k)%Z -> Qabs (t_amplitude g) <= eff_max_slew a * (inject_Z k * raster_of a) ->
    t_rise g <= inject_Z k * raster_of a /\ t_fall g <= inject_Z k * raster_of a.
Proof.
  intros H Hr0 HnA. trap_start H. rewrite Eamp.
  destruct (path_cases a _ HP) as [[A HA]|[[FA HA]|[h HA]]].
  - rewrite HA in HnA. discriminate.
  - destruct (path_flat_area a FA _ HA HP) as (HP' & _ & _). apply flat_area_path_inv in HP'.
    destruct HP' as (_ & _ & _ & _ & -> & ->).
    rewrite Hr0, (rise0_None_fall0 a Hr0) in Hrf. destruct Hrf as [E1 E2]. rewrite E1, E2.
    split; [apply shortest_rise_time_feasible; assumption|].
    intros k Hk Hle. split; apply shortest_rise_time_minimal; assumption.
  - destruct (path_amplitude a h _ HA HP) as (HP' & _ & _). apply amplitude_path_inv in HP'.
    destruct HP' as (-> & [(_ & Hro & Hfo)|(C & _)] & _); [|contradiction].
    destruct (ramps_of_some _ _ _ _ _ _ _ _ Hro Hfo Hrf) as [E1 E2]. rewrite E1, E2.
    split; [apply amp_chosen_rise_feasible; assumption|].
    intros k Hk Hle. split; apply amp_chosen_rise_minimal; assumption.
Qed.

(* area requests whose ramps the function chooses (area-only, area + duration without ramps) *)
Lemma trap_area_ramp_minimal_l a g A : make_trap a = OK g -> a_area a = Some A -> chosen_ramps a ->
  forall k : Z, (1 <= k)%Z ->
    Qabs A <= eff_max_slew a * ((inject_Z k * raster_of a) * (inject_Z k * raster_of a)) ->
    t_rise g <= inject_Z k * raster_of a.
Proof.
  intros H HA Hch k Hk Hle. trap_start H.
  destruct (path_area a A _ HA HP) as (HP' & _ & _). apply area_path_inv in HP'.
  assert (Hsq : Qabs A / eff_max_slew a <= inject_Z k * raster_of a * (inject_Z k * raster_of a)).
  { apply Qdiv_le_iff; [exact HS|]. rewrite Qmult_comm. exact Hle. }
  destruct HP' as [(d' & a' & r & fls & f & _ & _ & _ & SP & _ & _ & _ & _ & Hro & Hfo)
                 |[(d' & r & f & Cd & _ & C & _)
                 |[(t' & r & f & Ct & C & _)
                 |(r & f & _ & _ & SP & Hro & Hfo)]]].
  - destruct (ramps_of_some _ _ _ _ _ _ _ _ Hro Hfo Hrf) as [-> _].
    destruct (shortest_spec A _ _ _ HS HG HR _ _ _ _ SP) as (_ & _ & _ & _ & _ & _ & _ & Hr1 & _).
    eapply Qle_trans; [exact Hr1|]. apply rise1_least; assumption.
  - destruct Hch as [X|(_ & X & _)]; [rewrite C in X; discriminate|rewrite Cd in X; discriminate].
  - destruct Hch as [X|(_ & _ & X)]; [rewrite C in X; discriminate|rewrite Ct in X; discriminate].
  - destruct (ramps_of_some _ _ _ _ _ _ _ _ Hro Hfo Hrf) as [-> _].
    destruct (shortest_spec A _ _ _ HS HG HR _ _ _ _ SP) as (_ & _ & _ & _ & _ & _ & _ & Hr1 & _).
    eapply Qle_trans; [exact Hr1|]. apply rise1_least; assumption.
Qed.

(* area-only with a plateau: the ramp is the shortest raster multiple for the returned amplitude *)
Lemma trap_area_only_plateau_ramp_minimal_l a g A : make_trap a = OK g ->
  a_area a = Some A -> a_duration a = None -> a_flat_time a = None -> 0 < t_flat g ->
  forall k : Z, (1 <= k)%Z -> Qabs (t_amplitude g) <= eff_max_slew a * (inject_Z k * raster_of a) ->
    t_rise g <= inject_Z k * raster_of a.
Proof.
  intros H HA Hd Hft Hpos k Hk Hle. trap_start H. rewrite Eamp in Hle.
  destruct (path_area a A _ HA HP) as (HP' & _ & _). apply area_path_inv in HP'.
  destruct HP' as [(d' & a' & r & fls & f & C & _)
                 |[(d' & r & f & C & _)
                 |[(t' & r & f & C & _)
                 |(r & f & _ & _ & SP & Hro & Hfo)]]];
    try (rewrite Hd in C; discriminate); try (rewrite Hft in C; discriminate).
  destruct (ramps_of_some _ _ _ _ _ _ _ _ Hro Hfo Hrf) as [-> _].
  destruct (shortest_spec A _ _ _ HS HG HR _ _ _ _ SP)
    as (_ & _ & (m & Hm & Em) & _ & _ & _ & _ & _ & Hmin).
  rewrite (flat_rel_keep _ _ Hflat (raster_mult_nonneg m _ fl HR Hm Em)) in Hpos.
  apply Hmin; assumption.
Qed.

(* area + duration without ramps uses exactly the ramps of the area-only design *)
Lemma trap_area_duration_ramps_l a g A d : make_trap a = OK g ->
  a_area a = Some A -> a_duration a = Some d -> a_flat_time a = None -> rise0_of a = None ->
  exists amp0 fl0, shortest_params A (eff_max_slew a) (eff_max_grad a) (raster_of a)
                   = (amp0, t_rise g, fl0, t_fall g) /\ t_rise g + fl0 + t_fall g <= d.
Proof.
  intros H HA Hd Hft Hr0. trap_start H.
  destruct (path_area a A _ HA HP) as (HP' & _ & _). apply area_path_inv in HP'.
  destruct HP' as [(d' & a' & r & fls & f & Cd & _ & _ & SP & Hmin & _ & _ & _ & Hro & Hfo)
                 |[(d' & r & f & _ & _ & C & _)
                 |[(t' & r & f & C & _)
                 |(r & f & C & _)]]].
  - destruct (ramps_of_some _ _ _ _ _ _ _ _ Hro Hfo Hrf) as [-> ->].
    rewrite Hd in Cd. injection Cd as <-. exists a', fls. split; assumption.
  - rewrite Hr0 in C. discriminate.
  - rewrite Hft in C. discriminate.
  - rewrite Hd in C. discriminate.
Qed.

(* area + duration: the ramp is NOT always the shortest for the returned amplitude (area = 1, duration = 1 s
   on the default system: amplitude about 1 Hz/m, ramps 20 us, while 10 us would do) *)
Lemma area_duration_ramp_not_minimal_witness :
  exists a g (k : Z), make_trap a = OK g /\ a_duration a <> None /\ rise0_of a = None /\ (1 <= k)%Z /\
    Qabs (t_amplitude g) <= eff_max_slew a * (inject_Z k * raster_of a) /\
    inject_Z k * raster_of a < t_rise g.
Proof.
  exists (with_duration (with_area ex_args 1) 1). eexists. exists 1%Z.
  split; [vm_compute; reflexivity|].
  split; [discriminate|]. split; [reflexivity|]. split; [lia|].
  split; vm_compute; [discriminate|reflexivity].
Qed.
