(* Proofs/RfProofs.v — lemmas about Model/Rf.v (C13).
   The expressions generated from the source (Gen/GenRf.v) are characterised first ([*_spec] lemmas: this is
   where an edit of the source expression makes the proof fail); everything else is proved from the specs. *)
From Coq Require Import ZArith QArith Qround Qabs List Bool Arith Lia Lqa Qfield.
From PV Require Import Base.QUtil Gen.GenRf Model.Rf.
Import ListNotations.
Open Scope Q_scope.

(* ---------------------------------------------------------------------------------------------- *)
(* small arithmetic helpers *)
Lemma Qltb_false a b : Qltb a b = false -> b <= a.
Proof.
  unfold Qltb. intro H. apply negb_false_iff in H. apply Qle_bool_iff in H. exact H.
Qed.

Lemma Qleb_false a b : Qleb a b = false -> b < a.
Proof.
  intro H. apply Qnot_le_lt. intro Hle. apply Qleb_le in Hle. congruence.
Qed.

Lemma Qeqb_true a b : Qeqb a b = true -> a == b.
Proof. apply Qeq_bool_iff. Qed.

Lemma Qeqb_false a b : Qeqb a b = false -> ~ a == b.
Proof. intros H E. apply Qeq_bool_iff in E. unfold Qeqb in H. congruence. Qed.

Lemma rf_eps_nonneg : 0 <= rf_eps.
Proof. unfold rf_eps, Qle. simpl. lia. Qed.

Lemma strip2_ok : forall n d n' d', strip2 n d = (n', d') -> (n * d' = n' * d)%positive.
Proof.
  induction n as [n IH|n IH|]; intros d n' d' H; destruct d as [d|d|]; cbn [strip2] in H;
    try (injection H as <- <-; reflexivity).
  specialize (IH _ _ _ H). lia.
Qed.

Lemma Qred2_correct q : Qred2 q == q.
Proof.
  destruct q as [[|n|n] d]; unfold Qred2; cbn [Qnum Qden].
  - unfold Qeq; simpl; reflexivity.
  - destruct (strip2 n d) as [n' d'] eqn:E. apply strip2_ok in E.
    unfold Qeq; cbn [Qnum Qden]. lia.
  - destruct (strip2 n d) as [n' d'] eqn:E. apply strip2_ok in E.
    unfold Qeq; cbn [Qnum Qden]. lia.
Qed.

Lemma sumQ_cons x r : sumQ (x :: r) == x + sumQ r.
Proof. cbn [sumQ]. apply Qred2_correct. Qed.

Lemma sumQ_map_scale (f : Q -> Q) (c : Q) (w : list Q) :
  (forall s, f s == s * c) -> sumQ (map f w) == sumQ w * c.
Proof.
  intro H. induction w as [|x r IH].
  - cbn. ring.
  - cbn [map]. rewrite !sumQ_cons. rewrite IH. rewrite (H x). ring.
Qed.

Lemma Forall2_map_pointwise {A} (R : Q -> Q -> Prop) (f g : A -> Q) (w : list A) :
  (forall s, R (f s) (g s)) -> Forall2 R (map f w) (map g w).
Proof. intro H. induction w; cbn; constructor; auto. Qed.

Lemma rnd_he_nonneg q : 0 <= q -> (0 <= rnd_he q)%Z.
Proof.
  intro H. unfold rnd_he.
  assert (F : (0 <= Qfloor q)%Z).
  { change 0%Z with (Qfloor 0). apply Qfloor_resp_le. exact H. }
  destruct (Qcompare (q - inject_Z (Qfloor q)) Qhalf); [destruct (Z.even (Qfloor q))| |]; lia.
Qed.

Lemma rnd_he_multiple (N : Z) (d r : Q) : ~ r == 0 -> d == inject_Z N * r -> rnd_he (d / r) = N.
Proof.
  intros Hr Hd. rewrite <- (rnd_he_inject N). apply rnd_he_Proper. rewrite Hd. field. exact Hr.
Qed.

Lemma Qabs_pos_nz a : ~ a == 0 -> 0 < Qabs a.
Proof.
  intro NZ. destruct (Qlt_le_dec a 0) as [N|P].
  - rewrite Qabs_neg by lra. lra.
  - rewrite Qabs_pos by exact P. destruct (Qle_lt_or_eq _ _ P) as [L|E]; [exact L|]. exfalso. apply NZ. symmetry. exact E.
Qed.

Lemma Qceiling_pos q : 0 < q -> 0 < inject_Z (Qceiling q).
Proof. intro H. pose proof (Qle_ceiling q). lra. Qed.

Lemma Qceiling_ge1 q : 1 <= q -> 1 <= inject_Z (Qceiling q).
Proof. intro H. pose proof (Qle_ceiling q). lra. Qed.

Lemma Qmax_pos_r a b : 0 < b -> 0 < Qmax a b.
Proof. intro H. pose proof (Qmax_ub_r a b). lra. Qed.

(* ---------------------------------------------------------------------------------------------- *)
(* sample grid *)
Lemma zrange_length k n : length (zrange k n) = n.
Proof. revert k. induction n; intro k; cbn; auto. Qed.

Lemma nth_map_zrange (f : Z -> Q) : forall n k i d, (i < n)%nat ->
  nth i (map f (zrange k n)) d = f (k + Z.of_nat i)%Z.
Proof.
  induction n as [|n IH]; intros k i d Hi; [lia|].
  destruct i as [|i]; cbn [zrange map nth].
  - f_equal. lia.
  - rewrite IH by lia. f_equal. lia.
Qed.

(* ---------------------------------------------------------------------------------------------- *)
(* what the generated expressions of a shaped-pulse maker must say for the theorems to hold *)
Record shaped_spec (X : rf_exprs) : Prop := {
  sp_t : forall k d, x_t X k d == (k - (1 # 2)) * d;
  sp_flip : forall s d p, x_flip X s d p == s * d * 2 * p;
  sp_scale : forall s a f, x_scale X s a f == s * (a / f);
  sp_shape_dur : forall n d, x_shape_dur X n d == n * d;
  sp_amplitude : forall b t, x_amplitude X b t == b / t;
  sp_area : forall a d, x_area X a d == a * d;
  sp_gzr_area : forall a c g, x_gzr_area X a c g == - a * (1 - c) - (1 # 2) * (g - a);
  sp_gz_delay : forall d r g, x_gz_delay X d r g == inject_Z (Qceiling ((d - r) / g)) * g;
  sp_rf_delay : forall r d, x_rf_delay X r d == r + d }.

Lemma sinc_spec : shaped_spec sinc_x.
Proof.
  constructor; intros; cbn [sinc_x x_t x_flip x_scale x_shape_dur x_amplitude x_area x_gzr_area x_gz_delay x_rf_delay];
    unfold sinc_t, sinc_flip, sinc_scale, sinc_shape_dur, sinc_amplitude, sinc_area, sinc_gzr_area, sinc_gz_delay,
      sinc_rf_delay; try reflexivity; try ring.
  unfold Qdiv. ring.
Qed.

Lemma gauss_spec : shaped_spec gauss_x.
Proof.
  constructor; intros; cbn [gauss_x x_t x_flip x_scale x_shape_dur x_amplitude x_area x_gzr_area x_gz_delay x_rf_delay];
    unfold gauss_t, gauss_flip, gauss_scale, gauss_shape_dur, gauss_amplitude, gauss_area, gauss_gzr_area,
      gauss_gz_delay, gauss_rf_delay; try reflexivity; try ring.
  unfold Qdiv. ring.
Qed.

(* ---------------------------------------------------------------------------------------------- *)
(* flip angle *)
Lemma shaped_flip_exact (X : rf_exprs) (w : list Q) (a dwell pi : Q) :
  shaped_spec X -> ~ sumQ w == 0 -> ~ dwell == 0 -> ~ pi == 0 ->
  2 * pi * dwell * sumQ (shaped_signal X w a dwell pi) == a.
Proof.
  intros SP Hs Hd Hp. unfold shaped_signal.
  set (fl := Qred (x_flip X (sumQ w) dwell pi)).
  assert (Hfl : fl == sumQ w * dwell * 2 * pi).
  { unfold fl. rewrite Qred_correct. apply (sp_flip X SP). }
  rewrite (sumQ_map_scale _ (a / fl)) by (intro s; apply (sp_scale X SP)).
  rewrite Hfl. field. repeat split; assumption.
Qed.

Lemma shaped_signal_linear (X : rf_exprs) (w : list Q) (c a dwell pi : Q) :
  shaped_spec X ->
  Forall2 (fun x y => x == c * y) (shaped_signal X w (c * a) dwell pi) (shaped_signal X w a dwell pi).
Proof.
  intro SP. unfold shaped_signal. apply Forall2_map_pointwise. intro s.
  rewrite !(sp_scale X SP). unfold Qdiv. ring.
Qed.

Lemma shaped_signal_length X w a d p : length (shaped_signal X w a d p) = length w.
Proof. unfold shaped_signal. apply map_length. Qed.

Lemma shaped_times_length X n d : length (shaped_times X n d) = n.
Proof. unfold shaped_times. rewrite map_length. apply zrange_length. Qed.

Lemma shaped_times_nth X n d i : shaped_spec X -> (i < n)%nat ->
  nth i (shaped_times X n d) 0 == (inject_Z (Z.of_nat i) + (1 # 2)) * d.
Proof.
  intros SP Hi. unfold shaped_times. rewrite nth_map_zrange by exact Hi.
  rewrite (sp_t X SP). rewrite inject_Z_plus. change (inject_Z 1) with 1. ring.
Qed.

(* make_arbitrary_rf *)
Lemma arb_scale_spec s S d a p : arb_scale s S d a p == s * (a / (Qabs (S * d) * (2 * p))).
Proof.
  unfold arb_scale. unfold Qdiv. rewrite !Qinv_mult_distr. ring.
Qed.

Lemma arb_flip_pos (w : list Q) (a dwell pi : Q) :
  0 < sumQ w -> 0 < dwell -> 0 < pi ->
  2 * pi * dwell * sumQ (arb_signal w false a dwell pi) == a.
Proof.
  intros Hs Hd Hp. unfold arb_signal.
  set (sw := Qred (sumQ w)).
  assert (Hsw : sw == sumQ w) by (unfold sw; apply Qred_correct).
  rewrite (sumQ_map_scale _ (a / (Qabs (sw * dwell) * (2 * pi)))) by (intro s; apply arb_scale_spec).
  assert (P : 0 < sw * dwell) by (rewrite Hsw; apply Qmult_lt_0_compat; assumption).
  rewrite (Qabs_pos (sw * dwell)) by lra.
  rewrite Hsw. field. repeat split; lra.
Qed.

Lemma arb_flip_neg (w : list Q) (a dwell pi : Q) :
  sumQ w < 0 -> 0 < dwell -> 0 < pi ->
  2 * pi * dwell * sumQ (arb_signal w false a dwell pi) == - a.
Proof.
  intros Hs Hd Hp. unfold arb_signal.
  set (sw := Qred (sumQ w)).
  assert (Hsw : sw == sumQ w) by (unfold sw; apply Qred_correct).
  rewrite (sumQ_map_scale _ (a / (Qabs (sw * dwell) * (2 * pi)))) by (intro s; apply arb_scale_spec).
  assert (P : sw * dwell < 0).
  { rewrite Hsw. setoid_replace (sumQ w * dwell) with (- ((- sumQ w) * dwell)) by ring.
    assert (0 < (- sumQ w) * dwell) by (apply Qmult_lt_0_compat; lra). lra. }
  rewrite (Qabs_neg (sw * dwell)) by lra.
  rewrite Hsw. field. repeat split; lra.
Qed.

Lemma arb_signal_linear (w : list Q) (c a dwell pi : Q) :
  Forall2 (fun x y => x == c * y) (arb_signal w false (c * a) dwell pi) (arb_signal w false a dwell pi).
Proof.
  unfold arb_signal. apply Forall2_map_pointwise. intro s. rewrite !arb_scale_spec. unfold Qdiv. ring.
Qed.

Lemma arb_times_nth n d i : (i < n)%nat ->
  nth i (arb_times n d) 0 == (inject_Z (Z.of_nat i) + (1 # 2)) * d.
Proof.
  intro Hi. unfold arb_times. rewrite nth_map_zrange by exact Hi.
  unfold arb_t. rewrite inject_Z_plus. change (inject_Z 1) with 1. ring.
Qed.

Lemma adia_times_nth n d i : (i < n)%nat ->
  nth i (adia_times n d) 0 == (inject_Z (Z.of_nat i) + (1 # 2)) * d.
Proof.
  intro Hi. unfold adia_times. rewrite nth_map_zrange by exact Hi.
  unfold adia_t. rewrite Z.add_0_l. ring.
Qed.

(* ---------------------------------------------------------------------------------------------- *)
(* dead-time rule *)
Lemma dead_time_rule_ge_dead dead delay : dead <= dead_time_rule dead delay.
Proof.
  unfold dead_time_rule. destruct (Qltb delay dead) eqn:E; [lra|apply Qltb_false in E; exact E].
Qed.

Lemma dead_time_rule_ge_delay dead delay : delay <= dead_time_rule dead delay.
Proof.
  unfold dead_time_rule. destruct (Qltb delay dead) eqn:E; [apply Qltb_lt in E; lra|lra].
Qed.

Lemma dead_time_rule_is_max dead delay :
  dead_time_rule dead delay == Qmax delay dead.
Proof.
  unfold dead_time_rule, Qmax. destruct (Qltb delay dead) eqn:E.
  - apply Qltb_lt in E. destruct (Qle_bool delay dead) eqn:E2; [reflexivity|].
    exfalso. assert (delay <= dead) by lra. apply Qle_bool_iff in H. congruence.
  - apply Qltb_false in E. destruct (Qle_bool delay dead) eqn:E2; [|reflexivity].
    apply Qle_bool_iff in E2. lra.
Qed.

(* ---------------------------------------------------------------------------------------------- *)
(* local trapezoid model *)
Lemma trap_finish_ok mg ms amp rise flat fall g :
  trap_finish mg ms amp rise flat fall = Ok g ->
  g_amp g = amp /\ g_rise g = rise /\ g_flat g = flat /\ g_fall g = fall /\
  g_area g = amp * (flat + rise / 2 + fall / 2) /\ g_flat_area g = amp * flat /\ g_delay g = 0 /\
  Qabs amp <= mg + rf_eps.
Proof.
  unfold trap_finish.
  destruct (Qltb (mg + rf_eps) (Qabs amp)) eqn:E1; [discriminate|].
  destruct (Qltb (ms * (1 + rf_eps)) (Qabs amp / rise)); [discriminate|].
  destruct (Qltb (ms * (1 + rf_eps)) (Qabs amp / fall)); [discriminate|].
  intro H. injection H as <-. cbn. apply Qltb_false in E1. repeat split; auto.
Qed.

Lemma shortest_rise_on_raster amp ms raster :
  shortest_rise amp ms raster = inject_Z (Qceiling (Qmax (Qabs amp / ms) raster / raster)) * raster.
Proof. reflexivity. Qed.

Lemma shortest_rise_ge_raster amp ms raster : 0 < raster -> raster <= shortest_rise amp ms raster.
Proof.
  intro Hr. unfold shortest_rise.
  assert (H1 : 1 <= Qmax (Qabs amp / ms) raster / raster).
  { apply Qle_shift_div_l; [exact Hr|]. pose proof (Qmax_ub_r (Qabs amp / ms) raster). lra. }
  apply Qceiling_ge1 in H1.
  setoid_replace raster with (1 * raster) at 1 by ring.
  apply Qmult_le_compat_r; lra.
Qed.

Lemma trap_flat_area_ok mg ms raster ft fa g :
  trap_flat_area mg ms raster ft fa = Ok g ->
  ~ ft == 0 /\ g_amp g = fa / ft /\ g_flat g = ft /\ g_rise g = shortest_rise (fa / ft) ms raster /\
  g_fall g = g_rise g /\ g_delay g = 0 /\
  g_area g = g_amp g * (g_flat g + g_rise g / 2 + g_fall g / 2) /\ g_flat_area g = g_amp g * g_flat g /\
  Qabs (g_amp g) <= mg + rf_eps.
Proof.
  unfold trap_flat_area. destruct (Qeqb ft 0) eqn:E; [discriminate|].
  intro H. apply trap_finish_ok in H. destruct H as (A & R & Fl & Fa & Ar & FA & D & L).
  apply Qeqb_false in E. rewrite Ar, FA, A, R, Fl, Fa. repeat split; auto.
Qed.

Lemma trap_area_ok mg ms raster area g :
  0 < mg -> 0 < raster ->
  trap_area mg ms raster area = Ok g -> g_area g == area /\ g_delay g = 0 /\ g_fall g = g_rise g.
Proof.
  intros Hmg Hr. unfold trap_area.
  set (rise0 := Qmax (inject_Z (ceil_sqrt_over (Qabs area / ms) raster) * raster) raster).
  assert (P0 : 0 < rise0) by (apply Qmax_pos_r; exact Hr).
  destruct (Qltb (mg + rf_eps) (Qabs (area / rise0))) eqn:E.
  - apply Qltb_lt in E.
    set (eff := inject_Z (Qceiling (Qabs area / mg / raster)) * raster).
    set (rise := Qmax (inject_Z (Qceiling (Qabs (area / eff) / ms / raster)) * raster) raster).
    intro H. apply trap_finish_ok in H. destruct H as (A & R & Fl & Fa & Ar & _ & D & _).
    assert (Pa : 0 < Qabs area).
    { destruct (Qeq_dec area 0) as [Z|NZ].
      - exfalso. pose proof rf_eps_nonneg.
        assert (Qabs (area / rise0) == 0) by (rewrite Z; unfold Qdiv; rewrite Qmult_0_l; reflexivity). lra.
      - apply Qabs_pos_nz. exact NZ. }
    assert (Pe : 0 < eff).
    { unfold eff. apply Qmult_lt_0_compat; [|exact Hr]. apply Qceiling_pos.
      apply Qlt_shift_div_l; [exact Hr|]. rewrite Qmult_0_l. apply Qlt_shift_div_l; [exact Hmg|]. lra. }
    split; [rewrite Ar; field; lra|split; [exact D|rewrite Fa, R; reflexivity]].
  - intro H. apply trap_finish_ok in H. destruct H as (A & R & Fl & Fa & Ar & _ & D & _).
    split; [rewrite Ar; field; lra|split; [exact D|rewrite Fa, R; reflexivity]].
Qed.

(* ---------------------------------------------------------------------------------------------- *)
(* delay coupling *)
Definition gz_delay_spec (fg : Q -> Q -> Q -> Q) : Prop :=
  forall d r g, fg d r g == inject_Z (Qceiling ((d - r) / g)) * g.
Definition rf_delay_spec (fr : Q -> Q -> Q) : Prop := forall r d, fr r d == r + d.

Lemma couple_keeps fg fr raster r gz r' gz' :
  couple fg fr raster r gz = (r', gz') ->
  r_signal r' = r_signal r /\ r_t r' = r_t r /\ r_shape_dur r' = r_shape_dur r /\ r_freq r' = r_freq r /\
  r_phase r' = r_phase r /\ r_dead r' = r_dead r /\ r_ring r' = r_ring r /\ r_use r' = r_use r /\
  g_amp gz' = g_amp gz /\ g_rise gz' = g_rise gz /\ g_flat gz' = g_flat gz /\ g_fall gz' = g_fall gz /\
  g_area gz' = g_area gz /\ g_flat_area gz' = g_flat_area gz.
Proof.
  unfold couple. intro H. injection H as <- <-.
  destruct (Qltb (g_rise gz) (r_delay r)); cbn;
    match goal with |- context [if ?b then _ else _] => destruct b end; cbn; repeat split; reflexivity.
Qed.

Lemma couple_delays fg fr raster r gz r' gz' :
  gz_delay_spec fg -> rf_delay_spec fr -> 0 < raster -> g_delay gz == 0 ->
  couple fg fr raster r gz = (r', gz') ->
  (* the RF starts exactly where the flat top starts *)
  r_delay r' == g_delay gz' + g_rise gz' /\
  (* the RF delay is never decreased *)
  r_delay r <= r_delay r' /\
  (* the gradient delay is a non-negative integer number of raster steps, and the smallest one that works *)
  (exists k : Z, (0 <= k)%Z /\ g_delay gz' == inject_Z k * raster) /\
  g_delay gz' < Qmax (r_delay r - g_rise gz) 0 + raster.
Proof.
  intros SG SR Hr D0. unfold couple. intro H. injection H as <- <-.
  destruct (Qltb (g_rise gz) (r_delay r)) eqn:E1.
  - apply Qltb_lt in E1. cbn [set_gz_delay g_rise g_delay].
    set (q := (r_delay r - g_rise gz) / raster).
    assert (Hq : 0 < q) by (unfold q; apply Qlt_shift_div_l; [exact Hr|lra]).
    assert (Hd : fg (r_delay r) (g_rise gz) raster == inject_Z (Qceiling q) * raster) by apply SG.
    pose proof (Qle_ceiling q) as Hc1. pose proof (Qceiling_lt q) as Hc2.
    unfold Z.sub in Hc2. rewrite inject_Z_plus, inject_Z_opp in Hc2. change (inject_Z 1) with 1 in Hc2.
    assert (Hqr : q * raster == r_delay r - g_rise gz) by (unfold q; field; lra).
    assert (Hup : r_delay r - g_rise gz <= inject_Z (Qceiling q) * raster).
    { rewrite <- Hqr. apply Qmult_le_compat_r; lra. }
    assert (Hlo : inject_Z (Qceiling q) * raster < r_delay r - g_rise gz + raster).
    { rewrite <- Hqr. setoid_replace (q * raster + raster) with ((q + 1) * raster) by ring.
      apply Qmult_lt_compat_r; lra. }
    assert (Hmax : r_delay r - g_rise gz <= Qmax (r_delay r - g_rise gz) 0) by apply Qmax_ub_l.
    assert (Hk : (0 <= Qceiling q)%Z).
    { apply Qceiling_pos in Hq. rewrite Zle_Qle. change (inject_Z 0) with 0. lra. }
    destruct (Qltb (r_delay r) (g_rise gz + fg (r_delay r) (g_rise gz) raster)) eqn:E2.
    + apply Qltb_lt in E2. cbn [set_rf_delay r_delay g_delay g_rise set_gz_delay].
      pose proof (SR (g_rise gz) (fg (r_delay r) (g_rise gz) raster)) as Hfr.
      repeat split; try lra.
      exists (Qceiling q). split; [exact Hk|exact Hd].
    + apply Qltb_false in E2. cbn [r_delay g_delay g_rise set_gz_delay].
      repeat split; try lra.
      exists (Qceiling q). split; [exact Hk|exact Hd].
  - apply Qltb_false in E1.
    assert (Hmax : 0 <= Qmax (r_delay r - g_rise gz) 0) by apply Qmax_ub_r.
    destruct (Qltb (r_delay r) (g_rise gz + g_delay gz)) eqn:E2.
    + apply Qltb_lt in E2. cbn [set_rf_delay r_delay].
      pose proof (SR (g_rise gz) (g_delay gz)) as Hfr. repeat split; try lra.
      exists 0%Z. split; [lia|]. rewrite D0. change (inject_Z 0) with 0. ring.
    + apply Qltb_false in E2. repeat split; try lra.
      exists 0%Z. split; [lia|]. rewrite D0. change (inject_Z 0) with 0. ring.
Qed.

Lemma sinc_gz_delay_spec : gz_delay_spec sinc_gz_delay.
Proof. intros d r g. reflexivity. Qed.
Lemma gauss_gz_delay_spec : gz_delay_spec gauss_gz_delay.
Proof. intros d r g. reflexivity. Qed.
Lemma arb_gz_delay_spec : gz_delay_spec arb_gz_delay.
Proof. intros d r g. reflexivity. Qed.
Lemma adia_gz_delay_spec : gz_delay_spec adia_gz_delay.
Proof. intros d r g. reflexivity. Qed.
Lemma arb_rf_delay_spec : rf_delay_spec arb_rf_delay.
Proof. intros r d. reflexivity. Qed.
Lemma adia_rf_delay_spec : rf_delay_spec adia_rf_delay.
Proof. intros r d. reflexivity. Qed.
