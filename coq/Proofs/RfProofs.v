(* Proofs/RfProofs.v — lemmas about Model/Rf.v (C13).
   The expressions generated from the source (Gen/GenRf.v) are characterised first ([*_spec] lemmas: this is
   where an edit of the source expression makes the proof fail); everything else is proved from the specs. *)
From Coq Require Import ZArith QArith Qround Qabs List Bool Arith Lia Lqa Qfield.
From PV Require Import Base.QUtil Gen.GenRf Model.Rf.
Import ListNotations.
Open Scope Q_scope.

(* ---------------------------------------------------------------------------------------------- *)
(* small arithmetic helpers *)
Lemma Qltb_false a b : Qltb a b = false -> b <= a.
Proof.
  unfold Qltb. intro H. apply negb_false_iff in H. apply Qle_bool_iff in H. exact H.
Qed.

Lemma Qleb_false a b : Qleb a b = false -> b < a.
Proof.
  intro H. apply Qnot_le_lt. intro Hle. apply Qleb_le in Hle. congruence.
Qed.

Lemma Qeqb_true a b : Qeqb a b = true -> a == b.
Proof. apply Qeq_bool_iff. Qed.

Lemma Qeqb_false a b : Qeqb a b = false -> ~ a == b.
Proof. intros H E. apply Qeq_bool_iff in E. unfold Qeqb in H. congruence. Qed.

Lemma rf_eps_nonneg : 0 <= rf_eps.
Proof. unfold rf_eps, Qle. simpl. lia. Qed.

Lemma strip2_ok : forall n d n' d', strip2 n d = (n', d') -> (n * d' = n' * d)%positive.
Proof.
  induction n as [n IH|n IH|]; intros d n' d' H; destruct d as [d|d|]; cbn [strip2] in H;
    try (injection H as <- <-; reflexivity).
  specialize (IH _ _ _ H). lia.
Qed.

Lemma Qred2_correct q : Qred2 q == q.
Proof.
  destruct q as [[|n|n] d]; unfold Qred2; cbn [Qnum Qden].
  - unfold Qeq; simpl; reflexivity.
  - destruct (strip2 n d) as [n' d'] eqn:E. apply strip2_ok in E.
    unfold Qeq; cbn [Qnum Qden]. lia.
  - destruct (strip2 n d) as [n' d'] eqn:E. apply strip2_ok in E.
    unfold Qeq; cbn [Qnum Qden]. lia.
Qed.

Lemma sumQ_cons x r : sumQ (x :: r) == x + sumQ r.
Proof. reflexivity. Qed.

Lemma sumQ_map_scale (f : Q -> Q) (c : Q) (w : list Q) :
  (forall s, f s == s * c) -> sumQ (map f w) == sumQ w * c.
Proof.
  intro H. induction w as [|x r IH].
  - cbn. ring.
  - cbn [map]. rewrite !sumQ_cons. rewrite IH. rewrite (H x). ring.
Qed.

Lemma Forall2_map_pointwise {A} (R : Q -> Q -> Prop) (f g : A -> Q) (w : list A) :
  (forall s, R (f s) (g s)) -> Forall2 R (map f w) (map g w).
Proof. intro H. induction w; cbn; constructor; auto. Qed.

Lemma rnd_he_nonneg q : 0 <= q -> (0 <= rnd_he q)%Z.
Proof.
  intro H. unfold rnd_he.
  assert (F : (0 <= Qfloor q)%Z).
  { change 0%Z with (Qfloor 0). apply Qfloor_resp_le. exact H. }
  destruct (Qcompare (q - inject_Z (Qfloor q)) Qhalf); [destruct (Z.even (Qfloor q))| |]; lia.
Qed.

Lemma rnd_he_multiple (N : Z) (d r : Q) : ~ r == 0 -> d == inject_Z N * r -> rnd_he (d / r) = N.
Proof.
  intros Hr Hd. rewrite <- (rnd_he_inject N). apply rnd_he_Proper. rewrite Hd. field. exact Hr.
Qed.

Lemma Qabs_pos_nz a : ~ a == 0 -> 0 < Qabs a.
Proof.
  intro NZ. destruct (Qlt_le_dec a 0) as [N|P].
  - rewrite Qabs_neg by lra. lra.
  - rewrite Qabs_pos by exact P. destruct (Qle_lt_or_eq _ _ P) as [L|E]; [exact L|]. exfalso. apply NZ. symmetry. exact E.
Qed.

Lemma Qceiling_pos q : 0 < q -> 0 < inject_Z (Qceiling q).
Proof. intro H. pose proof (Qle_ceiling q). lra. Qed.

Lemma Qceiling_ge1 q : 1 <= q -> 1 <= inject_Z (Qceiling q).
Proof. intro H. pose proof (Qle_ceiling q). lra. Qed.

Lemma Qmax_pos_r a b : 0 < b -> 0 < Qmax a b.
Proof. intro H. pose proof (Qmax_ub_r a b). lra. Qed.

(* ---------------------------------------------------------------------------------------------- *)
(* sample grid *)
Lemma zrange_length k n : length (zrange k n) = n.
Proof. revert k. induction n; intro k; cbn; auto. Qed.

Lemma nth_map_zrange (f : Z -> Q) : forall n k i d, (i < n)%nat ->
  nth i (map f (zrange k n)) d = f (k + Z.of_nat i)%Z.
Proof.
  induction n as [|n IH]; intros k i d Hi; [lia|].
  destruct i as [|i]; cbn [zrange map nth].
  - f_equal. lia.
  - rewrite IH by lia. f_equal. lia.
Qed.

(* ---------------------------------------------------------------------------------------------- *)
(* what the generated expressions of a shaped-pulse maker must say for the theorems to hold *)
Record shaped_spec (X : rf_exprs) : Prop := {
  sp_t : forall k d, x_t X k d == (k - (1 # 2)) * d;
  sp_flip : forall s d p, x_flip X s d p == s * d * 2 * p;
  sp_scale : forall s a f, x_scale X s a f == s * (a / f);
  sp_shape_dur : forall n d, x_shape_dur X n d == n * d;
  sp_amplitude : forall b t, x_amplitude X b t == b / t;
  sp_area : forall a d, x_area X a d == a * d;
  sp_gzr_area : forall a c g, x_gzr_area X a c g == - a * (1 - c) - (1 # 2) * (g - a);
  sp_gz_delay : forall d r g, x_gz_delay X d r g == inject_Z (Qceiling ((d - r) / g)) * g;
  sp_rf_delay : forall r d, x_rf_delay X r d == r + d }.

Lemma sinc_spec : shaped_spec sinc_x.
Proof.
  constructor; intros; cbn [sinc_x x_t x_flip x_scale x_shape_dur x_amplitude x_area x_gzr_area x_gz_delay x_rf_delay];
    unfold sinc_t, sinc_flip, sinc_scale, sinc_shape_dur, sinc_amplitude, sinc_area, sinc_gzr_area, sinc_gz_delay,
      sinc_rf_delay; try reflexivity; try ring.
  unfold Qdiv. ring.
Qed.

Lemma gauss_spec : shaped_spec gauss_x.
Proof.
  constructor; intros; cbn [gauss_x x_t x_flip x_scale x_shape_dur x_amplitude x_area x_gzr_area x_gz_delay x_rf_delay];
    unfold gauss_t, gauss_flip, gauss_scale, gauss_shape_dur, gauss_amplitude, gauss_area, gauss_gzr_area,
      gauss_gz_delay, gauss_rf_delay; try reflexivity; try ring.
  unfold Qdiv. ring.
Qed.

(* ---------------------------------------------------------------------------------------------- *)
(* flip angle *)
Lemma shaped_flip_exact (X : rf_exprs) (w : list Q) (a dwell pi : Q) :
  shaped_spec X -> ~ sumQ w == 0 -> ~ dwell == 0 -> ~ pi == 0 ->
  2 * pi * dwell * sumQ (shaped_signal X w a dwell pi) == a.
Proof.
  intros SP Hs Hd Hp. unfold shaped_signal.
  set (fl := x_flip X (sumQ w) dwell pi).
  assert (Hfl : fl == sumQ w * dwell * 2 * pi) by apply (sp_flip X SP).
  rewrite (sumQ_map_scale _ (a / fl)) by (intro s; apply (sp_scale X SP)).
  rewrite Hfl. field. repeat split; assumption.
Qed.

Lemma shaped_signal_linear (X : rf_exprs) (w : list Q) (c a dwell pi : Q) :
  shaped_spec X ->
  Forall2 (fun x y => x == c * y) (shaped_signal X w (c * a) dwell pi) (shaped_signal X w a dwell pi).
Proof.
  intro SP. unfold shaped_signal. apply Forall2_map_pointwise. intro s.
  rewrite !(sp_scale X SP). unfold Qdiv. ring.
Qed.

Lemma shaped_signal_length X w a d p : length (shaped_signal X w a d p) = length w.
Proof. unfold shaped_signal. apply map_length. Qed.

Lemma shaped_times_length X n d : length (shaped_times X n d) = n.
Proof. unfold shaped_times. rewrite map_length. apply zrange_length. Qed.

Lemma shaped_times_nth X n d i : shaped_spec X -> (i < n)%nat ->
  nth i (shaped_times X n d) 0 == (inject_Z (Z.of_nat i) + (1 # 2)) * d.
Proof.
  intros SP Hi. unfold shaped_times. rewrite nth_map_zrange by exact Hi.
  rewrite (sp_t X SP). rewrite inject_Z_plus. change (inject_Z 1) with 1. ring.
Qed.

(* make_arbitrary_rf *)
Lemma arb_scale_spec s S d a p : arb_scale s S d a p == s * (a / (Qabs (S * d) * (2 * p))).
Proof.
  unfold arb_scale. unfold Qdiv. rewrite !Qinv_mult_distr. ring.
Qed.

Lemma arb_flip_pos (w : list Q) (a dwell pi : Q) :
  0 < sumQ w -> 0 < dwell -> 0 < pi ->
  2 * pi * dwell * sumQ (arb_signal w false a dwell pi) == a.
Proof.
  intros Hs Hd Hp. unfold arb_signal.
  set (sw := sumQ w).
  assert (Hsw : sw == sumQ w) by reflexivity.
  rewrite (sumQ_map_scale _ (a / (Qabs (sw * dwell) * (2 * pi)))) by (intro s; apply arb_scale_spec).
  assert (P : 0 < sw * dwell) by (rewrite Hsw; apply Qmult_lt_0_compat; assumption).
  rewrite (Qabs_pos (sw * dwell)) by lra.
  rewrite Hsw. field. repeat split; lra.
Qed.

Lemma arb_flip_neg (w : list Q) (a dwell pi : Q) :
  sumQ w < 0 -> 0 < dwell -> 0 < pi ->
  2 * pi * dwell * sumQ (arb_signal w false a dwell pi) == - a.
Proof.
  intros Hs Hd Hp. unfold arb_signal.
  set (sw := sumQ w).
  assert (Hsw : sw == sumQ w) by reflexivity.
  rewrite (sumQ_map_scale _ (a / (Qabs (sw * dwell) * (2 * pi)))) by (intro s; apply arb_scale_spec).
  assert (P : sw * dwell < 0).
  { rewrite Hsw. setoid_replace (sumQ w * dwell) with (- ((- sumQ w) * dwell)) by ring.
    assert (0 < (- sumQ w) * dwell) by (apply Qmult_lt_0_compat; lra). lra. }
  rewrite (Qabs_neg (sw * dwell)) by lra.
  rewrite Hsw. field. repeat split; lra.
Qed.

Lemma arb_signal_linear (w : list Q) (c a dwell pi : Q) :
  Forall2 (fun x y => x == c * y) (arb_signal w false (c * a) dwell pi) (arb_signal w false a dwell pi).
Proof.
  unfold arb_signal. apply Forall2_map_pointwise. intro s. rewrite !arb_scale_spec. unfold Qdiv. ring.
Qed.

Lemma arb_times_nth n d i : (i < n)%nat ->
  nth i (arb_times n d) 0 == (inject_Z (Z.of_nat i) + (1 # 2)) * d.
Proof.
  intro Hi. unfold arb_times. rewrite nth_map_zrange by exact Hi.
  unfold arb_t. rewrite inject_Z_plus. change (inject_Z 1) with 1. ring.
Qed.

Lemma adia_times_nth n d i : (i < n)%nat ->
  nth i (adia_times n d) 0 == (inject_Z (Z.of_nat i) + (1 # 2)) * d.
Proof.
  intro Hi. unfold adia_times. rewrite nth_map_zrange by exact Hi.
  unfold adia_t. rewrite Z.add_0_l. ring.
Qed.

(* ---------------------------------------------------------------------------------------------- *)
(* dead-time rule *)
Lemma dead_time_rule_ge_dead dead delay : dead <= dead_time_rule dead delay.
Proof.
  unfold dead_time_rule. destruct (Qltb delay dead) eqn:E; [lra|apply Qltb_false in E; exact E].
Qed.

Lemma dead_time_rule_ge_delay dead delay : delay <= dead_time_rule dead delay.
Proof.
  unfold dead_time_rule. destruct (Qltb delay dead) eqn:E; [apply Qltb_lt in E; lra|lra].
Qed.

Lemma dead_time_rule_is_max dead delay :
  dead_time_rule dead delay == Qmax delay dead.
Proof.
  unfold dead_time_rule, Qmax. destruct (Qltb delay dead) eqn:E.
  - apply Qltb_lt in E. destruct (Qle_bool delay dead) eqn:E2; [reflexivity|].
    exfalso. assert (delay <= dead) by lra. apply Qle_bool_iff in H. congruence.
  - apply Qltb_false in E. destruct (Qle_bool delay dead) eqn:E2; [|reflexivity].
    apply Qle_bool_iff in E2. lra.
Qed.

(* ---------------------------------------------------------------------------------------------- *)
(* local trapezoid model *)
Lemma clamp_flat_id flat : ~ flat < 0 -> clamp_flat flat = flat.
Proof.
  intro H. unfold clamp_flat. destruct (Qltb flat 0) eqn:E.
  - apply Qltb_lt in E. contradiction.
  - rewrite andb_false_r. reflexivity.
Qed.

Lemma clamp_flat_noise flat : ~ (- rf_eps < flat /\ flat < 0) -> clamp_flat flat = flat.
Proof.
  intro H. unfold clamp_flat.
  destruct (Qltb (- rf_eps) flat) eqn:E1; destruct (Qltb flat 0) eqn:E2;
    rewrite ?andb_false_r, ?andb_true_r; cbn [andb]; try reflexivity; try (destruct trap_rejects_bad_times; reflexivity).
  exfalso. apply H. split; apply Qltb_lt; assumption.
Qed.

Lemma trap_finish_ok mg ms amp rise flat fall g :
  trap_finish mg ms amp rise flat fall = Ok g ->
  g_amp g = amp /\ g_rise g = rise /\ g_flat g = clamp_flat flat /\ g_fall g = fall /\
  g_area g = amp * (clamp_flat flat + rise / 2 + fall / 2) /\ g_flat_area g = amp * clamp_flat flat /\ g_delay g = 0 /\
  Qabs amp <= mg + rf_eps.
Proof.
  unfold trap_finish.
  destruct (Qltb (mg + rf_eps) (Qabs amp)) eqn:E1; [discriminate|].
  destruct (Qltb (ms * (1 + rf_eps)) (Qabs amp / rise)); [discriminate|].
  destruct (Qltb (ms * (1 + rf_eps)) (Qabs amp / fall)); [discriminate|].
  cbv zeta.
  destruct (trap_rejects_bad_times && (Qleb rise 0 || Qleb fall 0 || Qltb (clamp_flat flat) 0))%bool; [discriminate|].
  intro H. injection H as <-. cbn. apply Qltb_false in E1. repeat split; auto.
Qed.

Lemma shortest_rise_on_raster amp ms raster :
  shortest_rise amp ms raster = inject_Z (Qceiling (Qmax (Qabs amp / ms) raster / raster)) * raster.
Proof. reflexivity. Qed.

Lemma shortest_rise_ge_raster amp ms raster : 0 < raster -> raster <= shortest_rise amp ms raster.
Proof.
  intro Hr. unfold shortest_rise.
  assert (H1 : 1 <= Qmax (Qabs amp / ms) raster / raster).
  { apply Qle_shift_div_l; [exact Hr|]. pose proof (Qmax_ub_r (Qabs amp / ms) raster). lra. }
  apply Qceiling_ge1 in H1.
  setoid_replace raster with (1 * raster) at 1 by ring.
  apply Qmult_le_compat_r; lra.
Qed.

Lemma trap_flat_area_ok mg ms raster ft fa g :
  0 <= ft ->
  trap_flat_area mg ms raster ft fa = Ok g ->
  ~ ft == 0 /\ g_amp g = fa / ft /\ g_flat g = ft /\ g_rise g = shortest_rise (fa / ft) ms raster /\
  g_fall g = g_rise g /\ g_delay g = 0 /\
  g_area g = g_amp g * (g_flat g + g_rise g / 2 + g_fall g / 2) /\ g_flat_area g = g_amp g * g_flat g /\
  Qabs (g_amp g) <= mg + rf_eps.
Proof.
  intro P. unfold trap_flat_area. destruct (Qeqb ft 0) eqn:E; [discriminate|].
  intro H. apply trap_finish_ok in H. destruct H as (A & R & Fl & Fa & Ar & FA & D & L).
  rewrite (clamp_flat_id ft) in * by lra.
  apply Qeqb_false in E. rewrite Ar, FA, A, R, Fl, Fa. repeat split; auto.
Qed.

Lemma trap_area_ok mg ms raster area g :
  0 < mg -> 0 < raster -> rf_eps <= raster ->
  trap_area mg ms raster area = Ok g -> g_area g == area /\ g_delay g = 0 /\ g_fall g = g_rise g.
Proof.
  intros Hmg Hr Hre. unfold trap_area.
  set (rise0 := Qmax (inject_Z (ceil_sqrt_over (Qabs area / ms) raster) * raster) raster).
  assert (P0 : 0 < rise0) by (apply Qmax_pos_r; exact Hr).
  destruct (Qltb (mg + rf_eps) (Qabs (area / rise0))) eqn:E.
  - apply Qltb_lt in E.
    set (A := Qceiling (Qabs area / mg / raster)).
    set (eff := inject_Z A * raster).
    set (B := Qceiling (Qabs (area / eff) / ms / raster)).
    set (rise := Qmax (inject_Z B * raster) raster).
    intro H. apply trap_finish_ok in H. destruct H as (_ & R & Fl & Fa & Ar & _ & D & _).
    assert (Pa : 0 < Qabs area).
    { destruct (Qeq_dec area 0) as [Z|NZ].
      - exfalso. pose proof rf_eps_nonneg.
        assert (Qabs (area / rise0) == 0) by (rewrite Z; unfold Qdiv; rewrite Qmult_0_l; reflexivity). lra.
      - apply Qabs_pos_nz. exact NZ. }
    assert (PA : 0 < inject_Z A).
    { unfold A. apply Qceiling_pos.
      apply Qlt_shift_div_l; [exact Hr|]. rewrite Qmult_0_l. apply Qlt_shift_div_l; [exact Hmg|]. lra. }
    assert (Pe : 0 < eff) by (unfold eff; apply Qmult_lt_0_compat; assumption).
    assert (A1 : (1 <= A)%Z).
    { assert (0 < A)%Z by (rewrite Zlt_Qlt; exact PA). lia. }
    (* eff - rise is an integer number of raster steps: negative means <= -raster <= -eps, so no clamping *)
    assert (NC : ~ (- rf_eps < eff - rise /\ eff - rise < 0)).
    { intros [L1 L2]. unfold rise, Qmax in L1, L2.
      destruct (Qle_bool (inject_Z B * raster) raster) eqn:EM.
      - (* rise = raster *)
        assert (M1 : 1 <= inject_Z A) by (rewrite Zle_Qle in A1; exact A1).
        assert (M2 : raster <= eff).
        { unfold eff. setoid_replace raster with (1 * raster) at 1 by ring. apply Qmult_le_compat_r; lra. }
        lra.
      - assert (HZ : (A - B <= -1)%Z).
        { assert (M1 : inject_Z (A - B) * raster < 0).
          { unfold Z.sub. rewrite inject_Z_plus, inject_Z_opp. unfold eff in L2. lra. }
          assert (M2 : inject_Z (A - B) < 0).
          { destruct (Qlt_le_dec (inject_Z (A - B)) 0) as [N|P]; [exact N|].
            exfalso. assert (M0 : 0 <= inject_Z (A - B) * raster) by (apply Qmult_le_0_compat; lra). lra. }
          assert (M3 : (A - B < 0)%Z) by (rewrite Zlt_Qlt; exact M2). lia. }
        rewrite Zle_Qle in HZ. unfold Z.sub in HZ. rewrite inject_Z_plus, inject_Z_opp in HZ.
        change (inject_Z (-1)) with (-1) in HZ.
        assert (M4 : (inject_Z A + - inject_Z B) * raster <= -1 * raster) by (apply Qmult_le_compat_r; lra).
        unfold eff in L1. lra. }
    rewrite (clamp_flat_noise _ NC) in *.
    split; [rewrite Ar; field; lra|split; [exact D|rewrite Fa, R; reflexivity]].
  - intro H. apply trap_finish_ok in H. destruct H as (_ & R & Fl & Fa & Ar & _ & D & _).
    assert (NC : ~ rise0 - rise0 < 0) by lra.
    rewrite (clamp_flat_id _ NC) in *.
    split; [rewrite Ar; field; lra|split; [exact D|rewrite Fa, R; reflexivity]].
Qed.

(* ---------------------------------------------------------------------------------------------- *)
(* delay coupling *)
Definition gz_delay_spec (fg : Q -> Q -> Q -> Q) : Prop :=
  forall d r g, fg d r g == inject_Z (Qceiling ((d - r) / g)) * g.
Definition rf_delay_spec (fr : Q -> Q -> Q) : Prop := forall r d, fr r d == r + d.

Lemma couple_keeps fg fr raster r gz r' gz' :
  couple fg fr raster r gz = (r', gz') ->
  r_signal r' = r_signal r /\ r_t r' = r_t r /\ r_shape_dur r' = r_shape_dur r /\ r_freq r' = r_freq r /\
  r_phase r' = r_phase r /\ r_dead r' = r_dead r /\ r_ring r' = r_ring r /\ r_use r' = r_use r /\
  g_amp gz' = g_amp gz /\ g_rise gz' = g_rise gz /\ g_flat gz' = g_flat gz /\ g_fall gz' = g_fall gz /\
  g_area gz' = g_area gz /\ g_flat_area gz' = g_flat_area gz.
Proof.
  unfold couple. intro H. injection H as <- <-.
  destruct (Qltb (g_rise gz) (r_delay r)); cbn;
    match goal with |- context [if ?b then _ else _] => destruct b end; cbn; repeat split; reflexivity.
Qed.

Lemma couple_delays fg fr raster r gz r' gz' :
  gz_delay_spec fg -> rf_delay_spec fr -> 0 < raster -> g_delay gz == 0 ->
  couple fg fr raster r gz = (r', gz') ->
  (* the RF starts exactly where the flat top starts *)
  r_delay r' == g_delay gz' + g_rise gz' /\
  (* the RF delay is never decreased *)
  r_delay r <= r_delay r' /\
  (* the gradient delay is a non-negative integer number of raster steps, and the smallest one that works *)
  (exists k : Z, (0 <= k)%Z /\ g_delay gz' == inject_Z k * raster) /\
  g_delay gz' < Qmax (r_delay r - g_rise gz) 0 + raster.
Proof.
  intros SG SR Hr D0. unfold couple. intro H. injection H as <- <-.
  destruct (Qltb (g_rise gz) (r_delay r)) eqn:E1.
  - apply Qltb_lt in E1. cbn [set_gz_delay g_rise g_delay].
    set (q := (r_delay r - g_rise gz) / raster).
    assert (Hq : 0 < q) by (unfold q; apply Qlt_shift_div_l; [exact Hr|lra]).
    assert (Hd : fg (r_delay r) (g_rise gz) raster == inject_Z (Qceiling q) * raster) by apply SG.
    pose proof (Qle_ceiling q) as Hc1. pose proof (Qceiling_lt q) as Hc2.
    unfold Z.sub in Hc2. rewrite inject_Z_plus, inject_Z_opp in Hc2. change (inject_Z 1) with 1 in Hc2.
    assert (Hqr : q * raster == r_delay r - g_rise gz) by (unfold q; field; lra).
    assert (Hup : r_delay r - g_rise gz <= inject_Z (Qceiling q) * raster).
    { rewrite <- Hqr. apply Qmult_le_compat_r; lra. }
    assert (Hlo : inject_Z (Qceiling q) * raster < r_delay r - g_rise gz + raster).
    { rewrite <- Hqr. setoid_replace (q * raster + raster) with ((q + 1) * raster) by ring.
      apply Qmult_lt_compat_r; lra. }
    assert (Hmax : r_delay r - g_rise gz <= Qmax (r_delay r - g_rise gz) 0) by apply Qmax_ub_l.
    assert (Hk : (0 <= Qceiling q)%Z).
    { apply Qceiling_pos in Hq. rewrite Zle_Qle. change (inject_Z 0) with 0. lra. }
    destruct (Qltb (r_delay r) (g_rise gz + fg (r_delay r) (g_rise gz) raster)) eqn:E2.
    + apply Qltb_lt in E2. cbn [set_rf_delay r_delay g_delay g_rise set_gz_delay].
      pose proof (SR (g_rise gz) (fg (r_delay r) (g_rise gz) raster)) as Hfr.
      repeat split; try lra.
      exists (Qceiling q). split; [exact Hk|exact Hd].
    + apply Qltb_false in E2. cbn [r_delay g_delay g_rise set_gz_delay].
      repeat split; try lra.
      exists (Qceiling q). split; [exact Hk|exact Hd].
  - apply Qltb_false in E1.
    assert (Hmax : 0 <= Qmax (r_delay r - g_rise gz) 0) by apply Qmax_ub_r.
    destruct (Qltb (r_delay r) (g_rise gz + g_delay gz)) eqn:E2.
    + apply Qltb_lt in E2. cbn [set_rf_delay r_delay].
      pose proof (SR (g_rise gz) (g_delay gz)) as Hfr. repeat split; try lra.
      exists 0%Z. split; [lia|]. rewrite D0. change (inject_Z 0) with 0. ring.
    + apply Qltb_false in E2. repeat split; try lra.
      exists 0%Z. split; [lia|]. rewrite D0. change (inject_Z 0) with 0. ring.
Qed.

Lemma sinc_gz_delay_spec : gz_delay_spec sinc_gz_delay.
Proof. intros d r g. reflexivity. Qed.
Lemma gauss_gz_delay_spec : gz_delay_spec gauss_gz_delay.
Proof. intros d r g. reflexivity. Qed.
Lemma arb_gz_delay_spec : gz_delay_spec arb_gz_delay.
Proof. intros d r g. reflexivity. Qed.
Lemma adia_gz_delay_spec : gz_delay_spec adia_gz_delay.
Proof. intros d r g. reflexivity. Qed.
Lemma arb_rf_delay_spec : rf_delay_spec arb_rf_delay.
Proof. intros r d. reflexivity. Qed.
Lemma adia_rf_delay_spec : rf_delay_spec adia_rf_delay.
Proof. intros r d. reflexivity. Qed.

(* ---------------------------------------------------------------------------------------------- *)
(* slice-select block shared by the makers: gz = make_trapezoid(flat_time, flat_area), then the delay coupling *)
Definition gz_part (fg : Q -> Q -> Q -> Q) (fr : Q -> Q -> Q) (mg ms raster dur area : Q)
  (r0 : rf) (gz0 : trap) (r : rf) (gz : trap) : Prop :=
  trap_flat_area mg ms raster dur area = Ok gz0 /\ couple fg fr raster r0 gz0 = (r, gz).

Lemma gz_part_props fg fr mg ms raster dur area r0 gz0 r gz :
  gz_delay_spec fg -> rf_delay_spec fr -> 0 < raster -> 0 <= dur ->
  gz_part fg fr mg ms raster dur area r0 gz0 r gz ->
  (* flat top *)
  ~ dur == 0 /\ g_flat gz = dur /\ g_amp gz = area / dur /\ g_flat_area gz == area /\
  (* symmetric ramps on the raster *)
  g_fall gz = g_rise gz /\ (exists k : Z, (1 <= k)%Z /\ g_rise gz = inject_Z k * raster) /\
  g_area gz == g_amp gz * (g_flat gz + g_rise gz) /\ g_area gz = g_area gz0 /\
  (* timing *)
  r_delay r == g_delay gz + g_rise gz /\ r_delay r0 <= r_delay r /\
  (exists k : Z, (0 <= k)%Z /\ g_delay gz == inject_Z k * raster) /\
  g_delay gz < Qmax (r_delay r0 - g_rise gz) 0 + raster /\
  (* the RF event itself is otherwise unchanged *)
  r_signal r = r_signal r0 /\ r_t r = r_t r0 /\ r_shape_dur r = r_shape_dur r0 /\ r_freq r = r_freq r0 /\
  r_phase r = r_phase r0 /\ r_dead r = r_dead r0 /\ r_ring r = r_ring r0 /\ r_use r = r_use r0 /\
  Qabs (g_amp gz) <= mg + rf_eps.
Proof.
  intros SG SR Hr Hdur [HT HC].
  apply (trap_flat_area_ok _ _ _ _ _ _ Hdur) in HT. destruct HT as (NZ & A & Fl & R & Fa & D & Ar & FA & L).
  pose proof (couple_keeps _ _ _ _ _ _ _ HC) as (K1 & K2 & K3 & K4 & K5 & K6 & K7 & K8 & G1 & G2 & G3 & G4 & G5 & G6).
  assert (D0 : g_delay gz0 == 0) by (rewrite D; reflexivity).
  pose proof (couple_delays _ _ _ _ _ _ _ SG SR Hr D0 HC) as (T1 & T2 & T3 & T4).
  rewrite G2 in *. rewrite G1, G3, G4, G5, G6.
  repeat split; auto.
  - rewrite FA, A, Fl. field. exact NZ.
  - rewrite R. unfold shortest_rise. eexists. split; [|reflexivity].
    assert (H1 : 1 <= Qmax (Qabs (area / dur) / ms) raster / raster).
    { apply Qle_shift_div_l; [exact Hr|]. pose proof (Qmax_ub_r (Qabs (area / dur) / ms) raster). lra. }
    apply Qceiling_ge1 in H1. rewrite Zle_Qle. exact H1.
  - rewrite Ar, Fa. field.
Qed.

(* ---------------------------------------------------------------------------------------------- *)
(* inversion of make_shaped *)
Definition eff_dwell (S : sys) (dwell0 : Q) : Q := if Qeqb dwell0 0 then s_rf_raster S else dwell0.

Definition shaped_r0 (X : rf_exprs) (S : sys) (pi : Q) (w : list Q) (flip delay duration dwell fo po : Q) (use : nat) : rf :=
  let nz := rnd_he (duration / dwell) in
  mkRf (shaped_signal X w flip dwell pi) (shaped_times X (Z.to_nat nz) dwell) (x_shape_dur X (inject_Z nz) dwell)
       fo po (s_rf_dead S) (s_rf_ring S) (dead_time_rule (s_rf_dead S) delay) (use_field use).

Definition shaped_bandwidth (gauss : bool) (bw0 tbw duration : Q) : Q :=
  if (gauss && negb (Qeqb bw0 0))%bool then bw0 else tbw / duration.

Lemma make_shaped_inv gauss X S pi w flip delay duration dwell0 cp fo po bw0 tbw rgz th mg ms use r g :
  make_shaped gauss X S pi w flip delay duration dwell0 cp fo po bw0 tbw rgz th mg ms use = Ok (r, g) ->
  let dwell := eff_dwell S dwell0 in
  let r0 := shaped_r0 X S pi w flip delay duration dwell fo po use in
  let area := x_area X (x_amplitude X (shaped_bandwidth gauss bw0 tbw duration) th) duration in
  (use <= rf_uses_count)%nat /\ ~ dwell == 0 /\ (gauss = false -> 0 < duration) /\
  length w = Z.to_nat (rnd_he (duration / dwell)) /\
  match g with
  | None => rgz = false /\ r = r0
  | Some (gz, gzr) =>
      rgz = true /\ ~ th == 0 /\
      exists gz0,
        gz_part (x_gz_delay X) (x_rf_delay X) (override mg (s_max_grad S)) (override ms (s_max_slew S))
                (s_grad_raster S) duration area r0 gz0 r gz /\
        trap_area (override mg (s_max_grad S)) (override ms (s_max_slew S)) (s_grad_raster S)
                  (x_gzr_area X area cp (g_area gz0)) = Ok gzr
  end.
Proof.
  intros H dwell r0 area. unfold make_shaped, make_shaped_gen in H. fold (eff_dwell S dwell0) in H. fold dwell in H.
  destruct (use_ok use) eqn:EU; cbn [negb] in H; [|discriminate].
  destruct (negb gauss && Qleb duration 0)%bool eqn:ED; [discriminate|].
  destruct (Qeqb duration 0 && (negb gauss || Qeqb bw0 0))%bool eqn:EZ; [discriminate|].
  destruct (Qeqb dwell 0) eqn:EW; [discriminate|].
  destruct (Nat.eqb (length w) (Z.to_nat (rnd_he (duration / dwell)))) eqn:EL; cbn [negb] in H; [|discriminate].
  fold (shaped_bandwidth gauss bw0 tbw duration) in H.
  fold (shaped_r0 X S pi w flip delay duration dwell fo po use) in H. fold r0 in H.
  split; [apply Nat.leb_le; exact EU|].
  split; [apply Qeqb_false; exact EW|].
  split.
  { intro G. subst gauss. cbn [negb andb] in ED. apply Qleb_false in ED. exact ED. }
  split; [apply Nat.eqb_eq; exact EL|].
  destruct rgz.
  - destruct (Qeqb th 0) eqn:ET; [discriminate|].
    fold area in H.
    destruct (trap_flat_area (override mg (s_max_grad S)) (override ms (s_max_slew S)) (s_grad_raster S) duration area)
      as [gz0|e] eqn:EG; [|discriminate].
    destruct (trap_area (override mg (s_max_grad S)) (override ms (s_max_slew S)) (s_grad_raster S)
                (x_gzr_area X area cp (g_area gz0))) as [gzr|e] eqn:ER; [|discriminate].
    destruct (couple (x_gz_delay X) (x_rf_delay X) (s_grad_raster S) r0 gz0) as [r1 gz1] eqn:EC.
    injection H as <- <-.
    split; [reflexivity|]. split; [apply Qeqb_false; exact ET|].
    exists gz0. split; [split; assumption|exact ER].
  - injection H as <- <-. split; reflexivity.
Qed.

(* the two facts about the coupling that need no assumption on the raster or on the ceil expression *)
Lemma couple_weak fg fr raster r gz r' gz' :
  rf_delay_spec fr -> couple fg fr raster r gz = (r', gz') ->
  r_delay r <= r_delay r' /\ g_delay gz' + g_rise gz' <= r_delay r'.
Proof.
  intros SR. unfold couple. intro H. injection H as <- <-.
  set (gz1 := if Qltb (g_rise gz) (r_delay r) then set_gz_delay gz (fg (r_delay r) (g_rise gz) raster) else gz).
  destruct (Qltb (r_delay r) (g_rise gz1 + g_delay gz1)) eqn:E.
  - apply Qltb_lt in E. cbn [set_rf_delay r_delay]. pose proof (SR (g_rise gz1) (g_delay gz1)). lra.
  - apply Qltb_false in E. lra.
Qed.

(* ---------------------------------------------------------------------------------------------- *)
(* consequences for make_sinc_pulse / make_gauss_pulse, generic in the generated expressions *)
Section Shaped.
  Variables (gauss : bool) (X : rf_exprs).
  Hypothesis SP : shaped_spec X.
  Variables (S : sys) (pi : Q) (w : list Q).
  Variables (flip delay duration dwell0 cp fo po bw0 tbw : Q) (rgz : bool) (th mg ms : Q) (use : nat).
  Variables (r : rf) (g : option (trap * trap)).
  Hypothesis H : make_shaped gauss X S pi w flip delay duration dwell0 cp fo po bw0 tbw rgz th mg ms use = Ok (r, g).

  Let dwell := eff_dwell S dwell0.
  Let nz := rnd_he (duration / dwell).
  Let r0 := shaped_r0 X S pi w flip delay duration dwell fo po use.
  Let bandwidth := shaped_bandwidth gauss bw0 tbw duration.
  Let area := x_area X (x_amplitude X bandwidth th) duration.

  Lemma SRd : rf_delay_spec (x_rf_delay X).
  Proof. intros a b. apply (sp_rf_delay X SP). Qed.
  Lemma SGd : gz_delay_spec (x_gz_delay X).
  Proof. intros a b c. apply (sp_gz_delay X SP). Qed.

  Lemma shaped_fields :
    r_signal r = shaped_signal X w flip dwell pi /\
    r_t r = shaped_times X (Z.to_nat nz) dwell /\
    r_shape_dur r = x_shape_dur X (inject_Z nz) dwell /\
    r_freq r = fo /\ r_phase r = po /\ r_dead r = s_rf_dead S /\ r_ring r = s_rf_ring S /\
    r_use r = use_field use /\ (use <= rf_uses_count)%nat /\
    dead_time_rule (s_rf_dead S) delay <= r_delay r /\
    (g = None -> r_delay r = dead_time_rule (s_rf_dead S) delay) /\
    length w = Z.to_nat nz /\ ~ dwell == 0 /\ (g = None <-> rgz = false).
  Proof.
    pose proof (make_shaped_inv _ _ _ _ _ _ _ _ _ _ _ _ _ _ _ _ _ _ _ _ _ H) as (U & DW & _ & LW & G).
    fold dwell in DW, LW, G. fold r0 in G. fold nz in LW.
    destruct g as [[gz gzr]|].
    - destruct G as (RG & _ & gz0 & [HT HC] & _).
      pose proof (couple_keeps _ _ _ _ _ _ _ HC) as (K1 & K2 & K3 & K4 & K5 & K6 & K7 & K8 & _).
      pose proof (couple_weak _ _ _ _ _ _ _ SRd HC) as [M _].
      rewrite K1, K2, K3, K4, K5, K6, K7, K8. cbn [r0 shaped_r0 r_signal r_t r_shape_dur r_freq r_phase r_dead r_ring r_use].
      repeat split; auto; try discriminate. subst rgz. discriminate.
    - destruct G as [RG ->]. cbn [r0 shaped_r0 r_signal r_t r_shape_dur r_freq r_phase r_dead r_ring r_use r_delay].
      repeat split; auto; try lra.
  Qed.

  (* flip angle *)
  Lemma shaped_flip : ~ sumQ w == 0 -> 0 < pi -> 2 * pi * dwell * sumQ (r_signal r) == flip.
  Proof.
    intros Hs Hp. destruct shaped_fields as (E & _ & _ & _ & _ & _ & _ & _ & _ & _ & _ & _ & DW & _).
    rewrite E. apply shaped_flip_exact; auto. lra.
  Qed.

  (* sample grid *)
  Lemma shaped_grid :
    length (r_t r) = length (r_signal r) /\ length (r_signal r) = Z.to_nat nz /\
    (forall i, (i < Z.to_nat nz)%nat -> nth i (r_t r) 0 == (inject_Z (Z.of_nat i) + (1 # 2)) * dwell) /\
    (forall i, (Datatypes.S i < Z.to_nat nz)%nat -> nth (Datatypes.S i) (r_t r) 0 - nth i (r_t r) 0 == dwell).
  Proof.
    destruct shaped_fields as (E & T & _ & _ & _ & _ & _ & _ & _ & _ & _ & LW & _).
    rewrite E, T. rewrite shaped_signal_length, shaped_times_length.
    repeat split; auto.
    - intros i Hi. apply shaped_times_nth; assumption.
    - intros i Hi. rewrite !shaped_times_nth by (auto; lia).
      rewrite Nat2Z.inj_succ. unfold Z.succ. rewrite inject_Z_plus. change (inject_Z 1) with 1. ring.
  Qed.

  Lemma shaped_shape_dur :
    r_shape_dur r == inject_Z nz * dwell /\
    (0 <= duration / dwell -> r_shape_dur r == inject_Z (Z.of_nat (length (r_signal r))) * dwell) /\
    (forall N : Z, duration == inject_Z N * dwell -> nz = N /\ r_shape_dur r == duration).
  Proof.
    destruct shaped_fields as (E & _ & SD & _ & _ & _ & _ & _ & _ & _ & _ & LW & DW & _).
    assert (A : r_shape_dur r == inject_Z nz * dwell) by (rewrite SD; apply (sp_shape_dur X SP)).
    split; [exact A|]. split.
    - intro P. rewrite A. rewrite E, shaped_signal_length, LW.
      rewrite Z2Nat.id by (apply rnd_he_nonneg; exact P). reflexivity.
    - intros N HN. assert (nz = N) by (apply rnd_he_multiple; assumption).
      split; [assumption|]. rewrite A, HN. subst N. reflexivity.
  Qed.

  (* last sample: shape_dur - dwell/2 *)
  Lemma shaped_last : (0 < Z.to_nat nz)%nat ->
    nth (Z.to_nat nz - 1) (r_t r) 0 == r_shape_dur r - dwell / 2.
  Proof.
    intro P. destruct shaped_grid as (_ & _ & N & _). destruct shaped_shape_dur as (A & _).
    rewrite N by lia. rewrite A.
    assert (Z.of_nat (Z.to_nat nz - 1) = nz - 1)%Z by lia. rewrite H0.
    unfold Z.sub. rewrite inject_Z_plus, inject_Z_opp. change (inject_Z 1) with 1. field.
  Qed.

  (* slice-select gradient *)
  Lemma shaped_gz gz gzr : g = Some (gz, gzr) -> rf_eps <= s_grad_raster S -> 0 < s_grad_raster S ->
    0 < override mg (s_max_grad S) -> 0 <= duration ->
    ~ duration == 0 /\ ~ th == 0 /\
    g_flat gz = duration /\ g_amp gz == bandwidth / th /\ g_flat_area gz == bandwidth / th * duration /\
    g_fall gz = g_rise gz /\ (exists k : Z, (1 <= k)%Z /\ g_rise gz = inject_Z k * s_grad_raster S) /\
    r_delay r == g_delay gz + g_rise gz /\
    (exists k : Z, (0 <= k)%Z /\ g_delay gz == inject_Z k * s_grad_raster S) /\
    g_delay gz < Qmax (dead_time_rule (s_rf_dead S) delay - g_rise gz) 0 + s_grad_raster S /\
    Qabs (g_amp gz) <= override mg (s_max_grad S) + rf_eps /\
    (* rephaser *)
    g_area gzr == - (g_amp gz * duration * (1 - cp) + g_amp gz * g_fall gz / 2) /\
    g_area gzr == - (g_flat_area gz) * (1 - cp) - (1 # 2) * (g_area gz - g_flat_area gz) /\
    (cp == 1 # 2 -> g_area gzr == - (g_area gz / 2)).
  Proof.
    intros -> Hre Hr Hmg Hdur.
    pose proof (make_shaped_inv _ _ _ _ _ _ _ _ _ _ _ _ _ _ _ _ _ _ _ _ _ H) as (_ & _ & _ & _ & G).
    cbv zeta in G. fold dwell in G. fold r0 in G. fold bandwidth in G. fold area in G.
    destruct G as (_ & TH & gz0 & GP & HR).
    pose proof (gz_part_props _ _ _ _ _ _ _ _ _ _ _ SGd SRd Hr Hdur GP)
      as (NZ & Fl & A & FA & Fa & KR & Ar & Ar0 & T1 & T2 & T3 & T4 & _ & _ & _ & _ & _ & _ & _ & _ & L).
    apply (trap_area_ok _ _ _ _ _ Hmg Hr Hre) in HR. destruct HR as (RA & _ & _).
    assert (EA : area == bandwidth / th * duration).
    { unfold area. rewrite (sp_area X SP), (sp_amplitude X SP). reflexivity. }
    assert (AM : g_amp gz == bandwidth / th).
    { rewrite A, EA. field. split; assumption. }
    assert (RG : g_area gzr == - area * (1 - cp) - (1 # 2) * (g_area gz - area)).
    { rewrite RA. rewrite (sp_gzr_area X SP). rewrite Ar0. reflexivity. }
    repeat split; auto.
    - rewrite FA. exact EA.
    - rewrite RG, Ar, Fa, Fl, EA, AM. field. exact TH.
    - rewrite RG, FA. reflexivity.
    - intro C. rewrite RG, C. field.
  Qed.

  (* doubling the flip angle doubles every sample (same envelope) *)
End Shaped.

Lemma shaped_linear_in_flip gauss X (SP : shaped_spec X) Sy pi w c flip delay duration dwell0 cp fo po bw0 tbw rgz th mg ms use
      r1 g1 r2 g2 :
  make_shaped gauss X Sy pi w flip delay duration dwell0 cp fo po bw0 tbw rgz th mg ms use = Ok (r1, g1) ->
  make_shaped gauss X Sy pi w (c * flip) delay duration dwell0 cp fo po bw0 tbw rgz th mg ms use = Ok (r2, g2) ->
  Forall2 (fun x y => x == c * y) (r_signal r2) (r_signal r1).
Proof.
  intros H1 H2.
  destruct (shaped_fields gauss X SP _ _ _ _ _ _ _ _ _ _ _ _ _ _ _ _ _ _ _ H1) as (E1 & _).
  destruct (shaped_fields gauss X SP _ _ _ _ _ _ _ _ _ _ _ _ _ _ _ _ _ _ _ H2) as (E2 & _).
  rewrite E1, E2. apply shaped_signal_linear. exact SP.
Qed.

(* ---------------------------------------------------------------------------------------------- *)
(* make_block_pulse *)
Lemma block_signal_spec a p d : block_signal a p d == a / (2 * p) / d.
Proof. unfold block_signal. change ((2 # 1) * p) with (2 * p). change (1 # 1) with 1. ring. Qed.
Lemma block_t_spec k r : block_t k r == k * r.
Proof. reflexivity. Qed.

Lemma make_block_inv Sy pi flip delay duration bandwidth tbw fo po use r :
  make_block Sy pi flip delay duration bandwidth tbw fo po use = Ok r ->
  exists dur, block_duration duration bandwidth tbw = Ok dur /\ 0 < dur /\
    ~ s_rf_raster Sy == 0 /\ (use <= rf_uses_count)%nat /\
    let nz := rnd_he (dur / s_rf_raster Sy) in
    r_signal r = [block_signal flip pi dur; block_signal flip pi dur] /\
    r_t r = [block_t 0 (s_rf_raster Sy); block_t (inject_Z nz) (s_rf_raster Sy)] /\
    r_shape_dur r = block_t (inject_Z nz) (s_rf_raster Sy) /\
    r_freq r = fo /\ r_phase r = po /\ r_dead r = s_rf_dead Sy /\ r_ring r = s_rf_ring Sy /\
    r_delay r = dead_time_rule (s_rf_dead Sy) delay /\ r_use r = use_field use.
Proof.
  unfold make_block. destruct (use_ok use) eqn:EU; cbn [negb]; [|discriminate].
  destruct (block_duration duration bandwidth tbw) as [dur|e] eqn:ED; [|discriminate].
  destruct (Qeqb (s_rf_raster Sy) 0) eqn:ER; [discriminate|].
  intro H. injection H as <-. exists dur. split; [reflexivity|].
  split.
  { (* every accepted duration is positive when it is given explicitly or derived from positive arguments *)
    unfold block_duration in ED.
    destruct duration as [d|], bandwidth as [b|].
    - destruct (Qltb 0 d); discriminate.
    - destruct (Qltb 0 d) eqn:E; [|discriminate]. injection ED as <-. apply Qltb_lt. exact E.
    - destruct (Qltb 0 b) eqn:E; [|discriminate]. apply Qltb_lt in E.
      assert (Pb : 0 < block_dur_bw b).
      { unfold block_dur_bw. apply Qlt_shift_div_l; [|lra].
        change ((4 # 1) * b) with (4 * b). lra. }
      destruct tbw as [tb|].
      + destruct (Qltb 0 tb) eqn:E2.
        * injection ED as <-. apply Qltb_lt in E2. unfold block_dur_tbw. apply Qlt_shift_div_l; lra.
        * injection ED as <-. exact Pb.
      + injection ED as <-. exact Pb.
    - injection ED as <-. unfold block_default_duration. reflexivity. }
  split; [apply Qeqb_false; exact ER|].
  split; [apply Nat.leb_le; exact EU|].
  cbn. repeat split; reflexivity.
Qed.

(* the two end points; the pulse is the constant between them: integral = s * (t1 - t0) *)
Lemma block_flip Sy pi flip delay dur fo po use r (N : Z) :
  make_block Sy pi flip delay (Some dur) None None fo po use = Ok r ->
  0 < pi -> dur == inject_Z N * s_rf_raster Sy ->
  exists s t0 t1, r_signal r = [s; s] /\ r_t r = [t0; t1] /\ t0 == 0 /\ t1 == dur /\
    r_shape_dur r == dur /\ r_shape_dur r == inject_Z N * s_rf_raster Sy /\
    2 * pi * (s * (t1 - t0)) == flip.
Proof.
  intros H Hp HN. apply make_block_inv in H. destruct H as (d & ED & Pd & NR & _ & Sg & T & SD & _).
  cbn in ED. destruct (Qltb 0 dur) eqn:E; [|discriminate]. injection ED as <-.
  assert (RN : rnd_he (dur / s_rf_raster Sy) = N) by (apply rnd_he_multiple; assumption).
  rewrite RN in T, SD.
  eexists _, _, _. split; [exact Sg|]. split; [exact T|].
  rewrite !block_t_spec, block_signal_spec. rewrite SD, block_t_spec.
  repeat split; try (rewrite HN; ring); try ring.
  rewrite <- HN. field. split; lra.
Qed.

(* ---------------------------------------------------------------------------------------------- *)
(* make_arbitrary_rf *)
Definition arb_r0 (Sy : sys) (pi : Q) (w : list Q) (flip delay dwell fo po : Q) (noscale : bool) (use : nat) : rf :=
  mkRf (arb_signal w noscale flip dwell pi) (arb_times (length w) dwell)
       (arb_duration (inject_Z (Z.of_nat (length w))) dwell) fo po (s_rf_dead Sy) (s_rf_ring Sy)
       (dead_time_rule (s_rf_dead Sy) delay) (use_field use).

Definition arb_bandwidth (bw0 tbw duration : Q) : Q := if Qltb 0 tbw then tbw / duration else bw0.

Lemma make_arbitrary_inv Sy pi w flip bw0 delay dwell0 fo po noscale mg ms rgz th tbw use r g :
  make_arbitrary Sy pi w flip bw0 delay dwell0 fo po noscale mg ms rgz th tbw use = Ok (r, g) ->
  let dwell := eff_dwell Sy dwell0 in
  let r0 := arb_r0 Sy pi w flip delay dwell fo po noscale use in
  let duration := arb_duration (inject_Z (Z.of_nat (length w))) dwell in
  let area := arb_area (arb_amplitude (arb_bandwidth bw0 tbw duration) th) duration in
  (use <= rf_uses_count)%nat /\
  match g with
  | None => rgz = false /\ r = r0
  | Some gz => rgz = true /\ 0 < th /\ 0 < bw0 /\
      exists gz0, gz_part arb_gz_delay arb_rf_delay (override mg (s_max_grad Sy)) (override ms (s_max_slew Sy))
                          (s_grad_raster Sy) duration area r0 gz0 r gz
  end.
Proof.
  intros H dwell r0 duration area. unfold make_arbitrary, make_arbitrary_gen in H.
  fold (eff_dwell Sy dwell0) in H. fold dwell in H.
  fold (arb_r0 Sy pi w flip delay dwell fo po noscale use) in H. fold r0 in H. fold duration in H.
  destruct (use_ok use) eqn:EU; cbn [negb] in H; [|discriminate].
  split; [apply Nat.leb_le; exact EU|].
  destruct rgz.
  - destruct (Qleb th 0) eqn:ET; [discriminate|].
    destruct (Qleb bw0 0) eqn:EB; [discriminate|].
    destruct (Qltb 0 tbw && Qeqb duration 0)%bool; [discriminate|].
    fold (arb_bandwidth bw0 tbw duration) in H. fold area in H.
    destruct (trap_flat_area (override mg (s_max_grad Sy)) (override ms (s_max_slew Sy)) (s_grad_raster Sy) duration area)
      as [gz0|e] eqn:EG; [|discriminate].
    destruct (couple arb_gz_delay arb_rf_delay (s_grad_raster Sy) r0 gz0) as [r1 gz1] eqn:EC.
    injection H as <- <-.
    split; [reflexivity|]. split; [apply Qleb_false; exact ET|]. split; [apply Qleb_false; exact EB|].
    exists gz0. split; assumption.
  - injection H as <- <-. split; reflexivity.
Qed.

Section Arb.
  Variables (Sy : sys) (pi : Q) (w : list Q).
  Variables (flip bw0 delay dwell0 fo po : Q) (noscale : bool) (mg ms : Q) (rgz : bool) (th tbw : Q) (use : nat).
  Variables (r : rf) (g : option trap).
  Hypothesis H : make_arbitrary Sy pi w flip bw0 delay dwell0 fo po noscale mg ms rgz th tbw use = Ok (r, g).
  Let dwell := eff_dwell Sy dwell0.
  Let r0 := arb_r0 Sy pi w flip delay dwell fo po noscale use.
  Let duration := arb_duration (inject_Z (Z.of_nat (length w))) dwell.
  Let bandwidth := arb_bandwidth bw0 tbw duration.
  Let area := arb_area (arb_amplitude bandwidth th) duration.

  Lemma arb_fields :
    r_signal r = arb_signal w noscale flip dwell pi /\
    r_t r = arb_times (length w) dwell /\
    r_shape_dur r = duration /\
    r_freq r = fo /\ r_phase r = po /\ r_dead r = s_rf_dead Sy /\ r_ring r = s_rf_ring Sy /\
    r_use r = use_field use /\ (use <= rf_uses_count)%nat /\
    dead_time_rule (s_rf_dead Sy) delay <= r_delay r /\
    (g = None -> r_delay r = dead_time_rule (s_rf_dead Sy) delay).
  Proof.
    pose proof (make_arbitrary_inv _ _ _ _ _ _ _ _ _ _ _ _ _ _ _ _ _ _ H) as (U & G).
    cbv zeta in G. fold dwell in G. fold r0 in G. fold duration in G.
    destruct g as [gz|].
    - destruct G as (_ & _ & _ & gz0 & [HT HC]).
      pose proof (couple_keeps _ _ _ _ _ _ _ HC) as (K1 & K2 & K3 & K4 & K5 & K6 & K7 & K8 & _).
      pose proof (couple_weak _ _ _ _ _ _ _ arb_rf_delay_spec HC) as [M _].
      rewrite K1, K2, K3, K4, K5, K6, K7, K8.
      cbn [r0 arb_r0 r_signal r_t r_shape_dur r_freq r_phase r_dead r_ring r_use].
      repeat split; auto; discriminate.
    - destruct G as [_ ->]. cbn [r0 arb_r0 r_signal r_t r_shape_dur r_freq r_phase r_dead r_ring r_use r_delay].
      repeat split; auto; lra.
  Qed.

  Lemma arb_flip : noscale = false -> 0 < dwell -> 0 < pi ->
    (0 < sumQ w -> 2 * pi * dwell * sumQ (r_signal r) == flip) /\
    (sumQ w < 0 -> 2 * pi * dwell * sumQ (r_signal r) == - flip) /\
    (~ sumQ w == 0 -> Qabs (2 * pi * dwell * sumQ (r_signal r)) == Qabs flip).
  Proof.
    intros NS Hd Hp. destruct arb_fields as (E & _). rewrite E. subst noscale.
    split; [intro; apply arb_flip_pos; assumption|].
    split; [intro; apply arb_flip_neg; assumption|].
    intro NZ. destruct (Qlt_le_dec (sumQ w) 0) as [N|P].
    - rewrite arb_flip_neg by assumption. apply Qabs_opp.
    - destruct (Qle_lt_or_eq _ _ P) as [L|Z]; [|exfalso; apply NZ; symmetry; exact Z].
      rewrite arb_flip_pos by assumption. reflexivity.
  Qed.

  Lemma arb_grid :
    length (r_t r) = length w /\ (noscale = false -> length (r_signal r) = length w) /\
    (forall i, (i < length w)%nat -> nth i (r_t r) 0 == (inject_Z (Z.of_nat i) + (1 # 2)) * dwell) /\
    r_shape_dur r == inject_Z (Z.of_nat (length w)) * dwell.
  Proof.
    destruct arb_fields as (E & T & SD & _). rewrite E, T, SD.
    split; [unfold arb_times; rewrite map_length; apply zrange_length|].
    split; [intros ->; unfold arb_signal; apply map_length|].
    split; [intros i Hi; apply arb_times_nth; exact Hi|].
    unfold duration, arb_duration. reflexivity.
  Qed.

  Lemma arb_gz gz : g = Some gz -> 0 < s_grad_raster Sy -> 0 <= duration ->
    ~ duration == 0 /\ 0 < th /\
    g_flat gz = duration /\ g_amp gz == bandwidth / th /\
    g_fall gz = g_rise gz /\ (exists k : Z, (1 <= k)%Z /\ g_rise gz = inject_Z k * s_grad_raster Sy) /\
    r_delay r == g_delay gz + g_rise gz /\
    (exists k : Z, (0 <= k)%Z /\ g_delay gz == inject_Z k * s_grad_raster Sy) /\
    g_delay gz < Qmax (dead_time_rule (s_rf_dead Sy) delay - g_rise gz) 0 + s_grad_raster Sy.
  Proof.
    intros -> Hr Hdur.
    pose proof (make_arbitrary_inv _ _ _ _ _ _ _ _ _ _ _ _ _ _ _ _ _ _ H) as (_ & G).
    cbv zeta in G. fold dwell in G. fold r0 in G. fold duration in G. fold bandwidth in G. fold area in G.
    destruct G as (_ & TH & _ & gz0 & GP).
    pose proof (gz_part_props _ _ _ _ _ _ _ _ _ _ _ arb_gz_delay_spec arb_rf_delay_spec Hr Hdur GP)
      as (NZ & Fl & A & FA & Fa & KR & Ar & Ar0 & T1 & T2 & T3 & T4 & _).
    repeat split; auto.
    rewrite A. unfold area, arb_area, arb_amplitude. field. split; (exact NZ || lra).
  Qed.
End Arb.

Lemma arb_linear_in_flip Sy pi w c flip bw0 delay dwell0 fo po mg ms rgz th tbw use r1 g1 r2 g2 :
  make_arbitrary Sy pi w flip bw0 delay dwell0 fo po false mg ms rgz th tbw use = Ok (r1, g1) ->
  make_arbitrary Sy pi w (c * flip) bw0 delay dwell0 fo po false mg ms rgz th tbw use = Ok (r2, g2) ->
  Forall2 (fun x y => x == c * y) (r_signal r2) (r_signal r1).
Proof.
  intros H1 H2.
  destruct (arb_fields _ _ _ _ _ _ _ _ _ _ _ _ _ _ _ _ _ _ H1) as (E1 & _).
  destruct (arb_fields _ _ _ _ _ _ _ _ _ _ _ _ _ _ _ _ _ _ H2) as (E2 & _).
  rewrite E1, E2. apply arb_signal_linear.
Qed.

(* ---------------------------------------------------------------------------------------------- *)
(* make_adiabatic_pulse: timing and slice gradients *)
Definition adia_dwell (Sy : sys) (dwell0 : option Q) : Q := match dwell0 with None => s_rf_raster Sy | Some d => d end.
Definition adia_use (use : nat) : nat := match use with O => adia_default_use | _ => use end.
Definition adia_r0 (Sy : sys) (delay duration dwell fo po : Q) (use : nat) : rf :=
  let nz := rnd_he (duration / dwell + rf_eps) in
  mkRf [] (adia_times (Z.to_nat nz) dwell) (adia_shape_dur (inject_Z nz) dwell) fo po (s_rf_dead Sy) (s_rf_ring Sy)
       (dead_time_rule (s_rf_dead Sy) delay) (Some (adia_use use)).

Lemma make_adiabatic_inv Sy delay duration dwell0 fo po rgz th bw tc use r g :
  make_adiabatic_timing Sy delay duration dwell0 fo po rgz th bw tc use = Ok (r, g) ->
  let dwell := adia_dwell Sy dwell0 in
  let r0 := adia_r0 Sy delay duration dwell fo po use in
  let area := adia_area (adia_amplitude bw th) duration in
  (use <= rf_uses_count)%nat /\ ~ dwell == 0 /\
  match g with
  | None => rgz = false /\ r = r0
  | Some (gz, gzr) =>
      rgz = true /\ 0 < th /\
      exists gz0,
        gz_part adia_gz_delay adia_rf_delay (s_max_grad Sy) (s_max_slew Sy) (s_grad_raster Sy) duration area r0 gz0 r gz /\
        trap_area (s_max_grad Sy) (s_max_slew Sy) (s_grad_raster Sy)
                  (adia_gzr_area area (adia_center_pos tc duration) (g_area gz0)) = Ok gzr
  end.
Proof.
  intros H dwell r0 area. unfold make_adiabatic_timing in H.
  fold (adia_dwell Sy dwell0) in H. fold dwell in H.
  destruct (rgz && Qleb th 0)%bool eqn:ET; [discriminate|].
  destruct (use_ok use) eqn:EU; cbn [negb] in H; [|discriminate].
  destruct (Qeqb dwell 0) eqn:EW; [discriminate|].
  fold (adia_use use) in H. fold (adia_r0 Sy delay duration dwell fo po use) in H. fold r0 in H.
  split; [apply Nat.leb_le; exact EU|]. split; [apply Qeqb_false; exact EW|].
  destruct rgz.
  - cbn [andb] in ET. fold area in H.
    destruct (trap_flat_area (s_max_grad Sy) (s_max_slew Sy) (s_grad_raster Sy) duration area) as [gz0|e] eqn:EG; [|discriminate].
    destruct (trap_area (s_max_grad Sy) (s_max_slew Sy) (s_grad_raster Sy)
                (adia_gzr_area area (adia_center_pos tc duration) (g_area gz0))) as [gzr|e] eqn:ER; [|discriminate].
    destruct (couple adia_gz_delay adia_rf_delay (s_grad_raster Sy) r0 gz0) as [r1 gz1] eqn:EC.
    injection H as <- <-.
    split; [reflexivity|]. split; [apply Qleb_false; exact ET|].
    exists gz0. split; [split; assumption|exact ER].
  - injection H as <- <-. split; reflexivity.
Qed.

Section Adia.
  Variables (Sy : sys) (delay duration : Q) (dwell0 : option Q) (fo po : Q) (rgz : bool) (th bw tc : Q) (use : nat).
  Variables (r : rf) (g : option (trap * trap)).
  Hypothesis H : make_adiabatic_timing Sy delay duration dwell0 fo po rgz th bw tc use = Ok (r, g).
  Let dwell := adia_dwell Sy dwell0.
  Let nz := rnd_he (duration / dwell + rf_eps).
  Let r0 := adia_r0 Sy delay duration dwell fo po use.
  Let area := adia_area (adia_amplitude bw th) duration.

  Lemma adia_fields :
    r_t r = adia_times (Z.to_nat nz) dwell /\
    r_shape_dur r == inject_Z nz * dwell /\
    r_freq r = fo /\ r_phase r = po /\ r_dead r = s_rf_dead Sy /\ r_ring r = s_rf_ring Sy /\
    r_use r = Some (adia_use use) /\ (use <= rf_uses_count)%nat /\
    dead_time_rule (s_rf_dead Sy) delay <= r_delay r /\
    (g = None -> r_delay r = dead_time_rule (s_rf_dead Sy) delay).
  Proof.
    pose proof (make_adiabatic_inv _ _ _ _ _ _ _ _ _ _ _ _ _ H) as (U & DW & G).
    cbv zeta in G. fold dwell in G. fold r0 in G.
    destruct g as [[gz gzr]|].
    - destruct G as (_ & _ & gz0 & [HT HC] & _).
      pose proof (couple_keeps _ _ _ _ _ _ _ HC) as (K1 & K2 & K3 & K4 & K5 & K6 & K7 & K8 & _).
      pose proof (couple_weak _ _ _ _ _ _ _ adia_rf_delay_spec HC) as [M _].
      rewrite K2, K3, K4, K5, K6, K7, K8.
      cbn [r0 adia_r0 r_signal r_t r_shape_dur r_freq r_phase r_dead r_ring r_use].
      repeat split; auto; discriminate.
    - destruct G as [_ ->]. cbn [r0 adia_r0 r_signal r_t r_shape_dur r_freq r_phase r_dead r_ring r_use r_delay].
      repeat split; auto; lra.
  Qed.

  Lemma adia_grid :
    length (r_t r) = Z.to_nat nz /\
    (forall i, (i < Z.to_nat nz)%nat -> nth i (r_t r) 0 == (inject_Z (Z.of_nat i) + (1 # 2)) * dwell).
  Proof.
    destruct adia_fields as (T & _). rewrite T.
    split; [unfold adia_times; rewrite map_length; apply zrange_length|].
    intros i Hi. apply adia_times_nth. exact Hi.
  Qed.

  Lemma adia_gz gz gzr : g = Some (gz, gzr) -> rf_eps <= s_grad_raster Sy -> 0 < s_grad_raster Sy -> 0 < s_max_grad Sy ->
    0 <= duration ->
    ~ duration == 0 /\ 0 < th /\
    g_flat gz = duration /\ g_amp gz == bw / th /\
    g_fall gz = g_rise gz /\ (exists k : Z, (1 <= k)%Z /\ g_rise gz = inject_Z k * s_grad_raster Sy) /\
    r_delay r == g_delay gz + g_rise gz /\
    (exists k : Z, (0 <= k)%Z /\ g_delay gz == inject_Z k * s_grad_raster Sy) /\
    (* rephaser, as the code computes it (centre position = adia_center_pos time_center duration) ... *)
    g_area gzr == - (g_flat_area gz) * (1 - adia_center_pos tc duration) - (1 # 2) * (g_area gz - g_flat_area gz) /\
    (* ... which is minus the area after the centre exactly when that position is the fraction tc/duration *)
    (adia_center_pos tc duration == tc / duration ->
       g_area gzr == - (g_amp gz * (duration - tc) + g_amp gz * g_fall gz / 2)).
  Proof.
    intros -> Hre Hr Hmg Hdur.
    pose proof (make_adiabatic_inv _ _ _ _ _ _ _ _ _ _ _ _ _ H) as (_ & _ & G).
    cbv zeta in G. fold dwell in G. fold r0 in G. fold area in G.
    destruct G as (_ & TH & gz0 & GP & HR).
    pose proof (gz_part_props _ _ _ _ _ _ _ _ _ _ _ adia_gz_delay_spec adia_rf_delay_spec Hr Hdur GP)
      as (NZ & Fl & A & FA & Fa & KR & Ar & Ar0 & T1 & T2 & T3 & T4 & _).
    apply (trap_area_ok _ _ _ _ _ Hmg Hr Hre) in HR. destruct HR as (RA & _ & _).
    assert (EA : area == bw / th * duration) by (unfold area, adia_area, adia_amplitude; reflexivity).
    assert (AM : g_amp gz == bw / th) by (rewrite A, EA; field; split; (exact NZ || lra)).
    assert (RG : g_area gzr == - area * (1 - adia_center_pos tc duration) - (1 # 2) * (g_area gz - area)).
    { rewrite RA. unfold adia_gzr_area. rewrite Ar0. reflexivity. }
    repeat split; auto.
    - rewrite RG, FA. reflexivity.
    - intro C. rewrite RG, C, Ar, Fa, Fl, EA, AM. field. split; (exact NZ || lra).
  Qed.
End Adia.

(* ============================================================================================== *)
(* ROUND 2 *)
(* ---------------------------------------------------------------------------------------------- *)
(* (1) the fast forms executed by the runner equal the specification forms *)
Lemma Qplus_c_correct x y : Qplus_c x y == x + y.
Proof. unfold Qplus_c, Qplus, Qeq. cbn [Qnum Qden]. ring. Qed.

Lemma sumQ_fast_correct w : sumQ_fast w == sumQ w.
Proof.
  induction w as [|x r IH]; [reflexivity|].
  cbn [sumQ_fast sumQ]. rewrite Qred2_correct, Qplus_c_correct, IH. reflexivity.
Qed.

Lemma Forall2_map_same {A} (R : Q -> Q -> Prop) (f g : A -> Q) (w : list A) :
  (forall s, R (f s) (g s)) -> Forall2 R (map f w) (map g w).
Proof. intro H. induction w; cbn; constructor; auto. Qed.

Lemma Forall2_Qeq_refl l : Forall2 Qeq l l.
Proof. induction l; constructor; [reflexivity|assumption]. Qed.

Lemma shaped_signal_fast_correct X w a d p : shaped_spec X ->
  Forall2 Qeq (shaped_signal_fast X w a d p) (shaped_signal X w a d p).
Proof.
  intro SP. unfold shaped_signal_fast, shaped_signal. apply Forall2_map_same. intro s.
  rewrite Qred_correct. rewrite !(sp_scale X SP). rewrite Qred_correct. rewrite !(sp_flip X SP).
  rewrite sumQ_fast_correct. ring.
Qed.

Lemma arb_signal_fast_correct w ns a d p :
  Forall2 Qeq (arb_signal_fast w ns a d p) (arb_signal w ns a d p).
Proof.
  unfold arb_signal_fast, arb_signal. destruct ns; [apply Forall2_Qeq_refl|].
  apply Forall2_map_same. intro s.
  rewrite Qred_correct. rewrite !arb_scale_spec. rewrite Qred_correct, sumQ_fast_correct. ring.
Qed.

(* the signal is only carried along by the makers: factor it out *)
Lemma couple_set_signal fg fr raster r s gz :
  couple fg fr raster (set_rf_signal r s) gz =
  (set_rf_signal (fst (couple fg fr raster r gz)) s, snd (couple fg fr raster r gz)).
Proof.
  unfold couple. cbn [set_rf_signal r_delay fst snd].
  destruct (Qltb (g_rise gz) (r_delay r)); cbn [g_rise g_delay set_gz_delay];
    match goal with |- context [if ?b then _ else _] => destruct b end; reflexivity.
Qed.

Definition attach_signal {A} (s : list Q) (x : res (rf * A)) : res (rf * A) :=
  match x with Ok (r, g) => Ok (set_rf_signal r s, g) | Err e => Err e end.

Definition no_signal (X : rf_exprs) (w : list Q) (a d p : Q) : list Q := [].

Lemma make_shaped_gen_factor sigf gauss X Sy pi w flip delay duration dwell0 cp fo po bw0 tbw rgz th mg ms use :
  make_shaped_gen sigf gauss X Sy pi w flip delay duration dwell0 cp fo po bw0 tbw rgz th mg ms use =
  attach_signal (sigf X w flip (eff_dwell Sy dwell0) pi)
    (make_shaped_gen no_signal gauss X Sy pi w flip delay duration dwell0 cp fo po bw0 tbw rgz th mg ms use).
Proof.
  unfold make_shaped_gen. fold (eff_dwell Sy dwell0).
  destruct (negb (use_ok use)); [reflexivity|].
  destruct (negb gauss && Qleb duration 0)%bool; [reflexivity|].
  destruct (Qeqb duration 0 && (negb gauss || Qeqb bw0 0))%bool; [reflexivity|].
  destruct (Qeqb (eff_dwell Sy dwell0) 0); [reflexivity|].
  destruct (negb (Nat.eqb (length w) (Z.to_nat (rnd_he (duration / eff_dwell Sy dwell0))))); [reflexivity|].
  destruct rgz; [|reflexivity].
  destruct (Qeqb th 0); [reflexivity|].
  match goal with |- context [trap_flat_area ?a ?b ?c ?d ?e] => destruct (trap_flat_area a b c d e) as [gz0|e0]; [|reflexivity] end.
  match goal with |- context [trap_area ?a ?b ?c ?d] => destruct (trap_area a b c d) as [gzr|e1]; [|reflexivity] end.
  unfold no_signal.
  match goal with |- context [couple ?fg ?fr ?ra (mkRf (sigf X w flip ?dw pi) ?t ?sd ?f ?p ?de ?ri ?dl ?u) gz0] =>
    change (mkRf (sigf X w flip dw pi) t sd f p de ri dl u) with (set_rf_signal (mkRf [] t sd f p de ri dl u) (sigf X w flip dw pi));
    rewrite (couple_set_signal fg fr ra (mkRf [] t sd f p de ri dl u) (sigf X w flip dw pi) gz0);
    destruct (couple fg fr ra (mkRf [] t sd f p de ri dl u) gz0) as [r1 gz1] end.
  reflexivity.
Qed.

Definition no_signal_arb (w : list Q) (ns : bool) (a d p : Q) : list Q := [].

Lemma make_arbitrary_gen_factor sigf Sy pi w flip bw0 delay dwell0 fo po ns mg ms rgz th tbw use :
  make_arbitrary_gen sigf Sy pi w flip bw0 delay dwell0 fo po ns mg ms rgz th tbw use =
  attach_signal (sigf w ns flip (eff_dwell Sy dwell0) pi)
    (make_arbitrary_gen no_signal_arb Sy pi w flip bw0 delay dwell0 fo po ns mg ms rgz th tbw use).
Proof.
  unfold make_arbitrary_gen. fold (eff_dwell Sy dwell0).
  destruct (negb (use_ok use)); [reflexivity|].
  destruct rgz; [|reflexivity].
  destruct (Qleb th 0); [reflexivity|].
  destruct (Qleb bw0 0); [reflexivity|].
  match goal with |- context [(Qltb 0 tbw && ?c)%bool] => destruct (Qltb 0 tbw && c)%bool; [reflexivity|] end.
  match goal with |- context [trap_flat_area ?a ?b ?c ?d ?e] => destruct (trap_flat_area a b c d e) as [gz0|e0]; [|reflexivity] end.
  unfold no_signal_arb.
  match goal with |- context [couple ?fg ?fr ?ra (mkRf (sigf w ns flip ?dw pi) ?t ?sd ?f ?p ?de ?ri ?dl ?u) gz0] =>
    change (mkRf (sigf w ns flip dw pi) t sd f p de ri dl u) with (set_rf_signal (mkRf [] t sd f p de ri dl u) (sigf w ns flip dw pi));
    rewrite (couple_set_signal fg fr ra (mkRf [] t sd f p de ri dl u) (sigf w ns flip dw pi) gz0);
    destruct (couple fg fr ra (mkRf [] t sd f p de ri dl u) gz0) as [r1 gz1] end.
  reflexivity.
Qed.

(* two results that agree on everything except that the signals are pointwise == *)
Definition same_up_to_signal {A} (x y : res (rf * A)) : Prop :=
  match x, y with
  | Ok (r1, g1), Ok (r2, g2) =>
      g1 = g2 /\ set_rf_signal r1 [] = set_rf_signal r2 [] /\ Forall2 Qeq (r_signal r1) (r_signal r2)
  | Err e1, Err e2 => e1 = e2
  | _, _ => False
  end.

Lemma attach_same {A} s1 s2 (x : res (rf * A)) : Forall2 Qeq s1 s2 ->
  same_up_to_signal (attach_signal s1 x) (attach_signal s2 x).
Proof.
  intro H. destruct x as [[r g]|e]; cbn; [|reflexivity]. repeat split; auto.
Qed.

Lemma make_shaped_fast_correct gauss X Sy pi w flip delay duration dwell0 cp fo po bw0 tbw rgz th mg ms use :
  shaped_spec X ->
  same_up_to_signal
    (make_shaped_fast gauss X Sy pi w flip delay duration dwell0 cp fo po bw0 tbw rgz th mg ms use)
    (make_shaped gauss X Sy pi w flip delay duration dwell0 cp fo po bw0 tbw rgz th mg ms use).
Proof.
  intro SP. unfold make_shaped_fast, make_shaped.
  rewrite (make_shaped_gen_factor shaped_signal_fast), (make_shaped_gen_factor shaped_signal).
  apply attach_same. apply shaped_signal_fast_correct. exact SP.
Qed.

Lemma make_arbitrary_fast_correct Sy pi w flip bw0 delay dwell0 fo po ns mg ms rgz th tbw use :
  same_up_to_signal
    (make_arbitrary_fast Sy pi w flip bw0 delay dwell0 fo po ns mg ms rgz th tbw use)
    (make_arbitrary Sy pi w flip bw0 delay dwell0 fo po ns mg ms rgz th tbw use).
Proof.
  unfold make_arbitrary_fast, make_arbitrary.
  rewrite (make_arbitrary_gen_factor arb_signal_fast), (make_arbitrary_gen_factor arb_signal).
  apply attach_same. apply arb_signal_fast_correct.
Qed.

(* ---------------------------------------------------------------------------------------------- *)
(* (2) ceil-threshold bracketing.  The code computes k = ceil((rf.delay - gz.rise_time)/raster) in binary64 (and takes
   the `rf.delay > gz.rise_time` decision in binary64); the exact model may therefore pick a k that differs by one
   when the quotient is within delta of an integer.  [couple_with k] is the coupling with gz.delay := k*raster for an
   ARBITRARY integer k; every k in the delta-bracket  e - delta*raster <= k*raster < e + raster + delta*raster
   (e = max(rf.delay - gz.rise_time, 0)), i.e. every ceil of a quotient perturbed by at most delta, satisfies all the
   C13 clauses (the last two up to delta*raster).  delta = 0 is the exact model. *)
Definition couple_with (k : Z) (fr : Q -> Q -> Q) (raster : Q) (r : rf) (gz : trap) : rf * trap :=
  let gz' := set_gz_delay gz (inject_Z k * raster) in
  let r' := if Qltb (r_delay r) (g_rise gz' + g_delay gz')
            then set_rf_delay r (fr (g_rise gz') (g_delay gz')) else r in
  (r', gz').

Definition in_bracket (delta raster : Q) (r : rf) (gz : trap) (k : Z) : Prop :=
  let e := Qmax (r_delay r - g_rise gz) 0 in
  (0 <= k)%Z /\ e - delta * raster <= inject_Z k * raster /\ inject_Z k * raster < e + raster + delta * raster.

Lemma couple_with_bracket k fr raster delta r gz r' gz' :
  rf_delay_spec fr -> 0 < raster -> 0 <= delta ->
  in_bracket delta raster r gz k ->
  couple_with k fr raster r gz = (r', gz') ->
  (* the RF does not start before the flat top; it starts at most delta*raster after its start *)
  g_delay gz' + g_rise gz' <= r_delay r' /\
  r_delay r' - (g_delay gz' + g_rise gz') <= delta * raster /\
  (* gz.delay is a non-negative multiple of the raster, at most (1+delta) raster later than necessary *)
  g_delay gz' = inject_Z k * raster /\ (0 <= k)%Z /\
  g_delay gz' < Qmax (r_delay r - g_rise gz) 0 + raster + delta * raster /\
  (* the RF delay is never decreased and moved by less than (1+delta) raster beyond max(delay, rise) *)
  r_delay r <= r_delay r' /\
  r_delay r' < g_rise gz + Qmax (r_delay r - g_rise gz) 0 + raster + delta * raster /\
  (* nothing else changes *)
  g_rise gz' = g_rise gz /\ g_flat gz' = g_flat gz /\ g_amp gz' = g_amp gz /\ r_signal r' = r_signal r /\ r_t r' = r_t r.
Proof.
  intros SR Hr Hd (K0 & B1 & B2). unfold couple_with. intro H. injection H as <- <-.
  cbn [set_gz_delay g_rise g_delay g_flat g_amp].
  set (e := Qmax (r_delay r - g_rise gz) 0) in *.
  assert (E1 : r_delay r - g_rise gz <= e) by apply Qmax_ub_l.
  assert (E2 : 0 <= e) by apply Qmax_ub_r.
  assert (DR : 0 <= delta * raster) by (apply Qmult_le_0_compat; lra).
  set (dr := delta * raster) in *. set (gd := inject_Z k * raster) in *.
  destruct (Qltb (r_delay r) (g_rise gz + gd)) eqn:E.
  - apply Qltb_lt in E. cbn [set_rf_delay r_delay r_signal r_t].
    pose proof (SR (g_rise gz) gd) as F. repeat split; auto; lra.
  - apply Qltb_false in E. repeat split; auto; lra.
Qed.

(* the exact model's own choice lies in the bracket with delta = 0 and coincides with couple_with of that k *)
Lemma couple_in_bracket fg fr raster r gz r' gz' :
  gz_delay_spec fg -> rf_delay_spec fr -> 0 < raster -> g_delay gz == 0 ->
  couple fg fr raster r gz = (r', gz') ->
  exists k : Z, in_bracket 0 raster r gz k /\ g_delay gz' == inject_Z k * raster /\
    r_delay r' == g_rise gz + inject_Z k * raster.
Proof.
  intros SG SR Hr D0 HC.
  pose proof (couple_keeps _ _ _ _ _ _ _ HC) as (_ & _ & _ & _ & _ & _ & _ & _ & _ & G2 & _).
  pose proof (couple_delays _ _ _ _ _ _ _ SG SR Hr D0 HC) as (T1 & T2 & (k & K0 & T3) & T4).
  rewrite G2 in T1. exists k. split; [|split; [exact T3|rewrite T1, T3; ring]].
  unfold in_bracket. cbv zeta.
  set (e := Qmax (r_delay r - g_rise gz) 0) in *.
  split; [exact K0|]. rewrite <- T3. split; [|lra].
  setoid_replace (0 * raster) with 0 by ring.
  (* e <= g_delay gz': either e = rf.delay - rise <= r'.delay - rise = g_delay gz', or e = 0 <= k*raster *)
  unfold e. destruct (Qmax_case (r_delay r - g_rise gz) 0) as [M|M]; rewrite M.
  - lra.
  - rewrite T3. assert (0 <= inject_Z k) by (rewrite Zle_Qle in K0; exact K0).
    assert (0 <= inject_Z k * raster) by (apply Qmult_le_0_compat; lra). lra.
Qed.

(* ---------------------------------------------------------------------------------------------- *)
(* (3) block pulse, ALL durations (also the ones derived from bandwidth / time_bw_product): the delivered flip angle *)
Lemma block_flip_general Sy pi flip delay duration bandwidth tbw fo po use r :
  make_block Sy pi flip delay duration bandwidth tbw fo po use = Ok r -> 0 < pi ->
  exists dur s t0 t1,
    block_duration duration bandwidth tbw = Ok dur /\ 0 < dur /\
    r_signal r = [s; s] /\ r_t r = [t0; t1] /\ t0 == 0 /\
    let N := rnd_he (dur / s_rf_raster Sy) in
    t1 == inject_Z N * s_rf_raster Sy /\ r_shape_dur r == inject_Z N * s_rf_raster Sy /\
    2 * pi * (s * (t1 - t0)) == flip * (inject_Z N * s_rf_raster Sy / dur) /\
    (0 < s_rf_raster Sy ->
       Qabs (2 * pi * (s * (t1 - t0)) - flip) <= Qabs flip * (s_rf_raster Sy / (2 * dur))).
Proof.
  intros H Hp. apply make_block_inv in H. destruct H as (d & ED & Pd & NR & _ & Sg & T & SD & _).
  cbv zeta in Sg, T, SD.
  exists d. eexists _, _, _. split; [exact ED|]. split; [exact Pd|]. split; [exact Sg|]. split; [exact T|].
  cbv zeta. rewrite !block_t_spec, block_signal_spec. rewrite SD, block_t_spec.
  set (ra := s_rf_raster Sy) in *. set (N := rnd_he (d / ra)).
  assert (DEL : 2 * pi * (flip / (2 * pi) / d * (inject_Z N * ra - 0 * ra)) == flip * (inject_Z N * ra / d))
    by (field; split; lra).
  split; [ring|]. split; [reflexivity|]. split; [reflexivity|]. split; [exact DEL|].
  intro Pr. rewrite DEL.
  pose proof (rnd_he_err (d / ra)) as RE. fold N in RE. unfold Qhalf in RE.
  setoid_replace (flip * (inject_Z N * ra / d) - flip) with (flip * ((inject_Z N - d / ra) * (ra / d)))
    by (field; split; lra).
  rewrite !Qabs_Qmult.
  assert (PC : 0 < ra / d) by (apply Qlt_shift_div_l; lra).
  rewrite (Qabs_pos (ra / d)) by lra.
  assert (AX : Qabs (inject_Z N - d / ra) <= 1 # 2).
  { setoid_replace (inject_Z N - d / ra) with (- (d / ra - inject_Z N)) by ring. rewrite Qabs_opp. exact RE. }
  setoid_replace (ra / (2 * d)) with ((1 # 2) * (ra / d)) by (field; lra).
  rewrite (Qmult_comm (Qabs flip)). rewrite (Qmult_comm (Qabs flip) ((1 # 2) * (ra / d))).
  apply Qmult_le_compat_r; [|apply Qabs_nonneg].
  apply Qmult_le_compat_r; lra.
Qed.

(* ---------------------------------------------------------------------------------------------- *)
(* (5) the last sample time never exceeds shape_dur (needed by C10 for events decoded from a sequence) *)
Lemma last_nth {A} (l : list A) (d : A) : last l d = nth (length l - 1) l d.
Proof.
  induction l as [|a l IH]; [reflexivity|].
  destruct l as [|b l]; [reflexivity|].
  change (last (a :: b :: l) d) with (last (b :: l) d). rewrite IH. cbn [length].
  replace (Datatypes.S (Datatypes.S (length l)) - 1)%nat with (Datatypes.S (length l)) by lia.
  replace (Datatypes.S (length l) - 1)%nat with (length l) by lia. reflexivity.
Qed.

Inductive rf_from_maker : rf -> Prop :=
| from_shaped : forall gauss Sy pi w flip delay duration dwell0 cp fo po bw0 tbw rgz th mg ms use r g,
    make_shaped gauss (if gauss then gauss_x else sinc_x) Sy pi w flip delay duration dwell0 cp fo po bw0 tbw rgz th mg ms use
      = Ok (r, g) ->
    0 <= eff_dwell Sy dwell0 -> 0 <= duration / eff_dwell Sy dwell0 -> rf_from_maker r
| from_block : forall Sy pi flip delay duration bandwidth tbw fo po use r,
    make_block Sy pi flip delay duration bandwidth tbw fo po use = Ok r -> rf_from_maker r
| from_arbitrary : forall Sy pi w flip bw0 delay dwell0 fo po ns mg ms rgz th tbw use r g,
    make_arbitrary Sy pi w flip bw0 delay dwell0 fo po ns mg ms rgz th tbw use = Ok (r, g) ->
    0 <= eff_dwell Sy dwell0 -> rf_from_maker r
| from_adiabatic : forall Sy delay duration dwell0 fo po rgz th bw tc use r g,
    make_adiabatic_timing Sy delay duration dwell0 fo po rgz th bw tc use = Ok (r, g) ->
    0 <= adia_dwell Sy dwell0 -> 0 <= duration / adia_dwell Sy dwell0 -> rf_from_maker r.

Lemma grid_last_le (t : list Q) (n : nat) (dwell sd : Q) :
  length t = n -> 0 <= dwell -> sd == inject_Z (Z.of_nat n) * dwell ->
  (forall i, (i < n)%nat -> nth i t 0 == (inject_Z (Z.of_nat i) + (1 # 2)) * dwell) ->
  last t 0 <= sd.
Proof.
  intros L Hd SD NTH. rewrite last_nth, L.
  destruct n as [|n].
  - destruct t; [|discriminate]. cbn [length Nat.sub nth]. rewrite SD.
    setoid_replace (inject_Z (Z.of_nat 0) * dwell) with 0 by (cbn; ring). apply Qle_refl.
  - rewrite NTH by lia. rewrite SD.
    replace (Datatypes.S n - 1)%nat with n by lia.
    rewrite Nat2Z.inj_succ. unfold Z.succ. rewrite inject_Z_plus. change (inject_Z 1) with 1.
    assert (0 <= (1 # 2) * dwell) by (apply Qmult_le_0_compat; lra). lra.
Qed.

Lemma rf_t_last_le_shape_dur r : rf_from_maker r -> last (r_t r) 0 <= r_shape_dur r.
Proof.
  intro H. destruct H as [gauss Sy pi w flip delay duration dwell0 cp fo po bw0 tbw rgz th mg ms use r g H Hd Hq
                         |Sy pi flip delay duration bandwidth tbw fo po use r H
                         |Sy pi w flip bw0 delay dwell0 fo po ns mg ms rgz th tbw use r g H Hd
                         |Sy delay duration dwell0 fo po rgz th bw tc use r g H Hd Hq].
  - assert (SP : shaped_spec (if gauss then gauss_x else sinc_x)) by (destruct gauss; [apply gauss_spec|apply sinc_spec]).
    destruct (shaped_grid _ _ SP _ _ _ _ _ _ _ _ _ _ _ _ _ _ _ _ _ _ _ H) as (A & B & C & _).
    destruct (shaped_shape_dur _ _ SP _ _ _ _ _ _ _ _ _ _ _ _ _ _ _ _ _ _ _ H) as (SD & _).
    apply (grid_last_le (r_t r) (Z.to_nat (rnd_he (duration / eff_dwell Sy dwell0))) (eff_dwell Sy dwell0) (r_shape_dur r));
      [congruence|exact Hd| |exact C].
    rewrite SD. rewrite Z2Nat.id by (apply rnd_he_nonneg; exact Hq). reflexivity.
  - apply make_block_inv in H. destruct H as (d & _ & _ & _ & _ & _ & T & SD & _). cbv zeta in T, SD.
    rewrite T, SD. cbn [last]. apply Qle_refl.
  - destruct (arb_grid _ _ _ _ _ _ _ _ _ _ _ _ _ _ _ _ _ _ H) as (A & _ & C & D).
    apply (grid_last_le (r_t r) (length w) (eff_dwell Sy dwell0) (r_shape_dur r)); [exact A|exact Hd|exact D|exact C].
  - destruct (adia_grid _ _ _ _ _ _ _ _ _ _ _ _ _ H) as (A & B).
    destruct (adia_fields _ _ _ _ _ _ _ _ _ _ _ _ _ H) as (_ & SD & _).
    apply (grid_last_le (r_t r) (Z.to_nat (rnd_he (duration / adia_dwell Sy dwell0 + rf_eps))) (adia_dwell Sy dwell0) (r_shape_dur r));
      [exact A|exact Hd| |exact B].
    rewrite SD. rewrite Z2Nat.id; [reflexivity|].
    apply rnd_he_nonneg. pose proof rf_eps_nonneg. lra.
Qed.
