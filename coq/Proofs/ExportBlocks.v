(* Proofs/ExportBlocks.v — block-level statements about Model/Export.v (C08). *)
From Coq Require Import ZArith QArith Qabs Lia Lqa List Bool Arith Setoid Morphisms.
From PV Require Import Base.QUtil Base.PWL Gen.GenExport Model.Export Proofs.ExportProofs.
Import ListNotations.
Open Scope Q_scope.

(* block start times are the prefix sums of the stored durations *)
Theorem starts_are_prefix_sums : forall bs s i, (i < length bs)%nat ->
  nth i (starts s bs) 0 == s + sum_durs (firstn i bs).
Proof.
  induction bs as [|b r IH]; intros s i Hi; [cbn in Hi; lia|].
  destruct i as [|j].
  - cbn. ring.
  - cbn [starts nth firstn sum_durs]. rewrite IH by (cbn in Hi; lia). rewrite Qred_correct. ring.
Qed.

Lemma length_starts : forall bs s, length (starts s bs) = length bs.
Proof. induction bs as [|b r IH]; intro s; [reflexivity|]. cbn. rewrite IH. reflexivity. Qed.

(* the pieces of a channel are exactly the pieces of the gradients of its blocks, each at its block start *)
Definition piece_of (raster : Q) (s : Q) (bs : list block) (ch : nat) (p : pwl) (i : nat) (g : grad) : Prop :=
  exists b, nth_error bs i = Some b /\ bgrad b ch = Some g /\ piece raster (nth i (starts s bs) 0) g = Some p.

Lemma pieces_in raster ch p : forall bs s,
  In p (pieces raster s bs ch) <-> exists i g, piece_of raster s bs ch p i g.
Proof.
  induction bs as [|b r IH]; intro s.
  - split; [intros []|]. intros [i [g [b [H _]]]]. destruct i; discriminate.
  - cbn [pieces]. rewrite in_app_iff. split.
    + intros [H|H].
      * exists 0%nat. unfold block_piece in H. destruct (bgrad b ch) as [g|] eqn:Eg; [|contradiction].
        destruct (piece raster s g) as [q|] eqn:Ep; [|contradiction].
        destruct H as [H|[]]. subst q. exists g, b. repeat split; assumption.
      * apply IH in H. destruct H as [i [g [b' [H1 [H2 H3]]]]].
        exists (S i), g, b'. repeat split; assumption.
    + intros [i [g [b' [H1 [H2 H3]]]]]. destruct i as [|j].
      * left. cbn in H1. injection H1 as <-. cbn [starts nth] in H3.
        unfold block_piece. rewrite H2, H3. left. reflexivity.
      * right. apply IH. exists j, g, b'. repeat split; assumption.
Qed.

Theorem waveform_is_rendering raster bs ch :
  EdgeConsistent (pieces raster 0 bs ch) ->
  (forall b g, In b bs -> bgrad b ch = Some g -> grad_wf g) ->
  exists w, waveform raster bs ch = WOk w /\
    sorted_strict (times w) /\
    (forall i g p, piece_of raster 0 bs ch p i g -> forall t, inside p t ->
       eval w t == render raster g (t - nth i (starts 0 bs) 0)) /\
    (forall t, (forall i g p, piece_of raster 0 bs ch p i g -> ~ inside p t) -> eval w t == 0).
Proof.
  intros Hec Hwf. destruct (join_times_strict _ Hec) as [Hm Hs].
  destruct (join_is_rendering _ Hec) as [Hin Hout].
  exists (join (pieces raster 0 bs ch)). unfold waveform, waveform_from. rewrite Hm.
  split; [reflexivity|]. split; [exact Hs|]. split.
  - intros i g p Hp t Ht.
    assert (Hi : In p (pieces raster 0 bs ch)) by (apply pieces_in; exists i, g; exact Hp).
    rewrite (Hin p Hi t Ht). destruct Hp as [b [H1 [H2 H3]]].
    apply (piece_is_rendering raster _ g p H3).
    apply (Hwf b g); [eapply nth_error_In; exact H1|exact H2].
  - intros t H. apply Hout. intros q Hq. apply pieces_in in Hq. destruct Hq as [i [g Hp]].
    apply (H i g q Hp).
Qed.
