(* Proofs/PrimProofs.v — the antiderivative of a corner list is its exact integral (C09). *)
From Coq Require Import ZArith QArith Qabs Lia Lqa List Bool Arith Setoid Morphisms.
From PV Require Import Base.QUtil Base.PWL Gen.GenExport Model.Export Model.KSpace.
Import ListNotations.
Open Scope Q_scope.

Lemma prim_cons2 t0 v0 t1 v1 r t :
  prim ((t0, v0) :: (t1, v1) :: r) t =
  if Qle_bool t t0 then 0
  else if Qle_bool t t1 then (v0 + interp t0 v0 t1 v1 t) * (t - t0) * (1 # 2)
  else Qred ((v0 + v1) * (t1 - t0) * (1 # 2) + prim ((t1, v1) :: r) t).
Proof. reflexivity. Qed.

Lemma prim_before_aux t1 v1 r c : c <= t1 -> prim ((t1, v1) :: r) c == 0.
Proof.
  intro H. destruct r as [|[t2 v2] r]; [reflexivity|]. rewrite prim_cons2.
  apply Qle_bool_iff in H. rewrite H. reflexivity.
Qed.

(* the antiderivative at c is the area of the part of p to the left of c *)
Theorem prim_cut : forall p c, sorted_strict (times p) -> prim p c == area (cut_left c p).
Proof.
  induction p as [|[t0 v0] r IH]; intros c Hs; [reflexivity|].
  destruct r as [|[t1 v1] r].
  - cbn [prim cut_left]. qb; reflexivity.
  - rewrite prim_cons2, cut_left_cons2. pose proof Hs as Hs'. apply sorted_cons2 in Hs'.
    destruct Hs' as [H01 Hs1]. cbn [times map fst] in H01.
    qb; try lra; try reflexivity.
    + (* t1 <= c <= t1 *)
      destruct (cut_left_head c t1 v1 r) as [s Es]; [lra|]. rewrite Es.
      assert (Ec : c == t1) by lra.
      assert (A0 : area (cut_left c ((t1, v1) :: r)) == 0).
      { rewrite <- IH by exact Hs1. apply prim_before_aux. lra. }
      rewrite area_cons2. rewrite <- Es, A0. unfold interp, slope. rewrite Ec. field. lra.
    + cbn [area]. ring.
    + destruct (cut_left_head c t1 v1 r) as [s Es]; [lra|]. rewrite Es, area_cons2, <- Es.
      rewrite Qred_correct, IH by exact Hs1. ring.
Qed.

Theorem prim_is_integral p a b : sorted_strict (times p) ->
  prim p b - prim p a == area (cut_left b p) - area (cut_left a p).
Proof. intro Hs. rewrite !prim_cut by exact Hs. reflexivity. Qed.

(* left of the first corner the antiderivative is 0; right of the last corner it is the whole area *)
Theorem prim_before p t : t <= tfirst p -> prim p t == 0.
Proof.
  destruct p as [|[t0 v0] [|[t1 v1] r]]; intro H; try reflexivity.
  cbn [tfirst] in H. rewrite prim_cons2. apply Qle_bool_iff in H. rewrite H. reflexivity.
Qed.

Theorem prim_total : forall p t, sorted_strict (times p) -> tlast p <= t -> prim p t == area p.
Proof.
  induction p as [|[t0 v0] r IH]; intros t Hs Ht; [reflexivity|].
  destruct r as [|[t1 v1] r]; [reflexivity|].
  rewrite prim_cons2, area_cons2. pose proof Hs as Hs'. apply sorted_cons2 in Hs'.
  destruct Hs' as [H01 Hs1]. cbn [times map fst] in H01.
  rewrite tlast_cons2 in Ht.
  assert (H1 : t1 <= t).
  { pose proof (tfirst_le_tlast ((t1, v1) :: r) Hs1) as H. cbn [tfirst] in H. lra. }
  qb; try lra.
  - assert (Et : t == t1) by lra.
    rewrite <- (IH t Hs1 Ht). rewrite (prim_before ((t1, v1) :: r) t) by (cbn [tfirst]; lra).
    unfold interp, slope. rewrite Et. field. lra.
  - rewrite Qred_correct, (IH t Hs1 Ht). reflexivity.
Qed.

(* without excitation / refocusing pulses the k-space position at the end is the area of the padded
   export minus the (zero) moment at time 0 *)
Theorem no_rf_final_is_area w T : w <> [] -> sorted_strict (times (padded w)) ->
  tlast (padded w) <= T -> 0 <= tfirst (padded w) ->
  k_at (moment w) [] T == area (padded w).
Proof.
  intros Hn Hs HT H0. unfold k_at, impl_k, impl_dk, upto. cbn [filter fold_left].
  unfold moment. destruct w as [|x w]; [congruence|].
  rewrite (prim_total _ T Hs HT). rewrite (prim_before _ 0 H0). ring.
Qed.
