(* Proofs/AddGradProofs.v — lemmas about Model/AddGrad.v (add_gradients) over Base/PWL.v *)
From Coq Require Import ZArith QArith Qabs List Bool Lia Lqa Setoid Morphisms.
From PV Require Import Base.QUtil Base.PWL Gen.GenAddGrad Model.AddGrad.
Import ListNotations.
Open Scope Q_scope.

Lemma add_single_is_identity s mg ms g : add_gradients s mg ms [g] = OK (P_single, g).
Proof. reflexivity. Qed.
