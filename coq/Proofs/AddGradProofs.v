(* Proofs/AddGradProofs.v — lemmas about Model/AddGrad.v (add_gradients) over Base/PWL.v *)
From Coq Require Import ZArith QArith Qabs List Bool Lia Lqa Setoid Morphisms.
From PV Require Import Base.QUtil Base.PWL Gen.GenAddGrad Model.AddGrad.
Import ListNotations.
Open Scope Q_scope.

Lemma add_single_is_identity s mg ms g : add_gradients s mg ms [g] = OK (P_single, g).
Proof. reflexivity. Qed.

Lemma eps_pos : 0 < eps.
Proof. reflexivity. Qed.

(* ------------------------------------------------------------------------------------------ *)
(* generic facts about pwl_eq, InQ, sum_eval *)

Lemma pwl_eq_sym p : forall q, pwl_eq p q -> pwl_eq q p.
Proof.
  induction p as [|a p IH]; intros q H; inversion H; subst; constructor.
  - destruct H2 as [H1 H2]. split; symmetry; assumption.
  - apply IH. assumption.
Qed.

Lemma pwl_eq_tfirst p q : pwl_eq p q -> tfirst p == tfirst q.
Proof. intro H. inversion H as [|[a v] [b w] l l' [H1 H2] Hr]; subst; cbn; [reflexivity|exact H1]. Qed.
Lemma pwl_eq_vfirst p q : pwl_eq p q -> vfirst p == vfirst q.
Proof. intro H. inversion H as [|[a v] [b w] l l' [H1 H2] Hr]; subst; cbn; [reflexivity|exact H2]. Qed.

Lemma pwl_eq_last p : forall q, pwl_eq p q -> tlast p == tlast q /\ vlast p == vlast q.
Proof.
  induction p as [|a p IH]; intros q H; inversion H as [|x y l l' Hxy Hr]; subst.
  - split; reflexivity.
  - destruct p as [|b p]; inversion Hr as [|x' y' l2 l2' Hxy' Hr']; subst.
    + exact Hxy.
    + rewrite !tlast_cons2, !vlast_cons2. apply IH. exact Hr.
Qed.

Lemma pwl_eq_sorted p : forall q, pwl_eq p q -> sorted_strict (times p) -> sorted_strict (times q).
Proof.
  induction p as [|a p IH]; intros q H Hs; inversion H as [|x y l l' Hxy Hr]; subst; [exact I|].
  destruct p as [|b p]; inversion Hr as [|x' y' l2 l2' Hxy' Hr']; subst; [exact I|].
  destruct Hs as [Hab Hs]. split.
  - destruct Hxy as [E1 _], Hxy' as [E2 _]. cbn [fst] in *. lra.
  - apply (IH _ Hr Hs).
Qed.

Lemma pwl_eq_times_InQ p : forall q T, pwl_eq p q ->
  (forall c, In c (times p) -> InQ c T) -> forall c, In c (times q) -> InQ c T.
Proof.
  induction p as [|a p IH]; intros q T H Hp c Hc; inversion H as [|x y l l' Hxy Hr]; subst; [destruct Hc|].
  destruct Hc as [<-|Hc].
  - destruct (Hp (fst a) (or_introl eq_refl)) as (b & Hb & E). exists b. split; [exact Hb|].
    destruct Hxy as [E1 _]. lra.
  - apply (IH _ T Hr); [|exact Hc]. intros c' Hc'. apply Hp. right. exact Hc'.
Qed.

Lemma sum_eval_ext (A : Type) (f g : A -> pwl) (l : list A) t :
  (forall x, In x l -> eval (f x) t == eval (g x) t) ->
  sum_eval (map f l) t == sum_eval (map g l) t.
Proof.
  induction l as [|x l IH]; intro H; [reflexivity|].
  cbn [map sum_eval fold_right]. fold (sum_eval (map f l) t). fold (sum_eval (map g l) t).
  rewrite (H x (or_introl eq_refl)), IH; [reflexivity|].
  intros y Hy. apply H. right. exact Hy.
Qed.

(* ------------------------------------------------------------------------------------------ *)
(* np.unique *)

Lemma insert_uniq_in x l : forall y, In y (insert_uniq x l) -> y = x \/ In y l.
Proof.
  induction l as [|a l IH]; intros y Hy; cbn [insert_uniq] in Hy.
  - destruct Hy as [<-|[]]. left. reflexivity.
  - destruct (Qltb x a).
    + destruct Hy as [<-|Hy]; [left; reflexivity|right; exact Hy].
    + destruct (Qeq_bool x a); [right; exact Hy|].
      destruct Hy as [<-|Hy]; [right; left; reflexivity|].
      destruct (IH y Hy) as [E|E]; [left; exact E|right; right; exact E].
Qed.

Lemma insert_uniq_sorted x l : sorted_strict l -> sorted_strict (insert_uniq x l).
Proof.
  induction l as [|a l IH]; intro Hs; [exact I|].
  cbn [insert_uniq]. case_ltb x a E0.
  - split; [exact E0|exact Hs].
  - case_eqb x a E1; [exact Hs|].
    specialize (IH (sorted_tail _ _ Hs)).
    destruct l as [|b l].
    + cbn [insert_uniq]. split; [lra|exact I].
    + cbn [insert_uniq] in *. destruct Hs as [Hab Hs].
      case_ltb x b E2.
      * split; [lra|]. split; [exact E2|exact Hs].
      * case_eqb x b E3; [split; assumption|]. split; [exact Hab|exact IH].
Qed.

Lemma insert_uniq_InQ x l : InQ x (insert_uniq x l) /\ forall y, In y l -> In y (insert_uniq x l).
Proof.
  induction l as [|a l [IH1 IH2]].
  - split; [exists x; split; [left; reflexivity|reflexivity]|intros y []].
  - cbn [insert_uniq]. case_ltb x a E0.
    + split; [exists x; split; [left; reflexivity|reflexivity]|intros y Hy; right; exact Hy].
    + case_eqb x a E1.
      * split; [exists a; split; [left; reflexivity|exact E1]|intros y Hy; exact Hy].
      * split.
        -- destruct IH1 as (b & Hb & E). exists b. split; [right; exact Hb|exact E].
        -- intros y [<-|Hy]; [left; reflexivity|right; apply IH2; exact Hy].
Qed.

Lemma sort_uniq_sorted l : sorted_strict (sort_uniq l).
Proof. induction l as [|a l IH]; [exact I|]. apply insert_uniq_sorted. exact IH. Qed.

Lemma sort_uniq_InQ l : forall x, In x l -> InQ x (sort_uniq l).
Proof.
  induction l as [|a l IH]; intros x Hx; [destruct Hx|].
  cbn [sort_uniq fold_right]. fold (sort_uniq l).
  destruct Hx as [<-|Hx].
  - apply insert_uniq_InQ.
  - destruct (IH x Hx) as (b & Hb & E). exists b. split; [|exact E].
    apply insert_uniq_InQ. exact Hb.
Qed.

Lemma sort_uniq_in l : forall y, In y (sort_uniq l) -> In y l.
Proof.
  induction l as [|a l IH]; intros y Hy; [destruct Hy|].
  cbn [sort_uniq fold_right] in Hy. fold (sort_uniq l) in Hy.
  destruct (insert_uniq_in _ _ _ Hy) as [->|H]; [left; reflexivity|right; apply IH; exact H].
Qed.

(* ------------------------------------------------------------------------------------------ *)
(* the merge of close times is the identity on lists whose elements are at least eps apart *)

Definition Spaced (l : list Q) : Prop := all_consec (fun a b => eps <= b - a) l.

Lemma spaced_mask l : Spaced l -> forallb negb (map (fun d => Qltb d eps) (diffs l)) = true.
Proof.
  induction l as [|a l IH]; intro H; [reflexivity|].
  destruct l as [|b l]; [reflexivity|].
  destruct H as [Hab H]. change (diffs (a :: b :: l)) with ((b - a) :: diffs (b :: l)).
  cbn [map forallb]. rewrite (IH H), andb_true_r.
  case_ltb (b - a) eps E; [lra|reflexivity].
Qed.

Lemma forallb_negb_existsb l : forallb negb l = true -> existsb (fun b => b) l = false.
Proof.
  induction l as [|a l IH]; [reflexivity|]. cbn. destruct a; cbn; [discriminate|]. exact IH.
Qed.

Lemma merge_close_spaced l : Spaced l -> merge_close l = l.
Proof.
  intro H. unfold merge_close.
  pose proof (spaced_mask l H) as Hm.
  set (mask := map (fun d => Qltb d eps) (diffs l)) in *.
  assert (E : existsb (fun b => b) (tl mask) = false).
  { apply forallb_negb_existsb. destruct mask as [|m mask]; [reflexivity|].
    cbn in Hm. apply andb_true_iff in Hm. apply Hm. }
  rewrite E. reflexivity.
Qed.

(* ------------------------------------------------------------------------------------------ *)
(* np.argmin snapping *)

Lemma nearest_fold x l : forall a,
  let m := fold_left (fun b c => if Qltb (Qabs (x - c)) (Qabs (x - b)) then c else b) l a in
  Qabs (x - m) <= Qabs (x - a) /\ forall c, In c l -> Qabs (x - m) <= Qabs (x - c).
Proof.
  induction l as [|c l IH]; intros a; cbn [fold_left].
  - split; [lra|intros c []].
  - case_ltb (Qabs (x - c)) (Qabs (x - a)) E.
    + destruct (IH c) as [H1 H2]. split; [lra|].
      intros c' [<-|Hc']; [exact H1|apply H2; exact Hc'].
    + destruct (IH a) as [H1 H2]. split; [exact H1|].
      intros c' [<-|Hc']; [lra|apply H2; exact Hc'].
Qed.

Lemma snap_eq T x : InQ x T -> snap T x == x.
Proof.
  intros (c & Hc & E). unfold snap.
  assert (Hn : Qabs (x - nearest x T) <= 0).
  { unfold nearest. destruct T as [|a l]; [destruct Hc|].
    destruct (nearest_fold x l a) as [H1 H2]. cbv zeta in H1, H2.
    assert (Z0 : Qabs (x - c) == 0) by (setoid_replace (x - c) with 0 by lra; reflexivity).
    destruct Hc as [<-|Hc]; [lra|]. specialize (H2 c Hc). lra. }
  pose proof (Qabs_nonneg (x - nearest x T)) as Hp.
  assert (Hz : x - nearest x T == 0).
  { apply Qabs_Qle_condition in Hn. lra. }
  destruct (Qltb (Qabs (x - nearest x T)) eps); lra.
Qed.

Lemma set_first_time_eq (f : Q -> Q) p : f (tfirst p) == tfirst p -> pwl_eq (set_first_time f p) p.
Proof.
  destruct p as [|[t v] r]; intro H; [constructor|].
  cbn in *. constructor; [split; [exact H|reflexivity]|apply pwl_eq_refl].
Qed.

Lemma set_last_time_eq (f : Q -> Q) p : f (tlast p) == tlast p -> pwl_eq (set_last_time f p) p.
Proof.
  induction p as [|[t v] r IH]; intro H; [constructor|].
  destruct r as [|b r].
  - cbn in *. constructor; [split; [exact H|reflexivity]|constructor].
  - rewrite tlast_cons2 in H. cbn [set_last_time].
    constructor; [split; reflexivity|]. apply IH. exact H.
Qed.

Lemma pwl_eq_trans p : forall q r, pwl_eq p q -> pwl_eq q r -> pwl_eq p r.
Proof.
  induction p as [|a p IH]; intros q r H1 H2; inversion H1; subst; inversion H2; subst; constructor.
  - destruct H3 as [A1 A2], H4 as [B1 B2]. split; lra.
  - eapply IH; [exact H5|exact H7].
Qed.

Lemma tfirst_in_times (p : pwl) : p <> [] -> In (tfirst p) (times p).
Proof. destruct p as [|[t v] p]; [congruence|]. intros _. left. reflexivity. Qed.

(* prep is the identity (up to ==) on a gradient whose corner times are on the grid and that does
   not start away from zero after time eps *)
Lemma prep_eq T g :
  (forall c, In c (times (ext_corners g)) -> InQ c T) ->
  (vfirst (ext_corners g) == 0 \/ tfirst (ext_corners g) <= eps) ->
  pwl_eq (prep T g) (ext_corners g).
Proof.
  intros Hin Hst. unfold prep.
  set (p0 := ext_corners g) in *.
  destruct p0 as [|a0 p0'] eqn:Ep0.
  { cbn. constructor. }
  assert (Hne : p0 <> []) by (rewrite Ep0; discriminate).
  rewrite <- Ep0 in *.
  assert (E1 : pwl_eq (set_first_time (snap T) p0) p0).
  { apply set_first_time_eq. apply snap_eq. apply Hin. apply tfirst_in_times. exact Hne. }
  set (p1 := set_first_time (snap T) p0) in *.
  assert (E2 : pwl_eq (set_last_time (snap T) p1) p1).
  { apply set_last_time_eq. apply snap_eq.
    destruct (pwl_eq_last _ _ E1) as [Hl _].
    destruct (Hin (tlast p0) (tlast_in_times p0 Hne)) as (c & Hc & Ec).
    exists c. split; [exact Hc|lra]. }
  set (p2 := set_last_time (snap T) p1) in *.
  assert (E3 : pwl_eq p2 p0) by (eapply pwl_eq_trans; eassumption).
  pose proof (pwl_eq_vfirst _ _ E3) as Hv. pose proof (pwl_eq_tfirst _ _ E3) as Ht.
  assert (Hd : Qgtb (Qabs (vfirst p2)) eps && Qgtb (tfirst p2) eps = false).
  { unfold Qgtb. destruct Hst as [H|H].
    - assert (Z0 : Qabs (vfirst p2) == 0) by (rewrite Hv, H; reflexivity).
      case_ltb eps (Qabs (vfirst p2)) E; [pose proof eps_pos; lra|reflexivity].
    - case_ltb eps (tfirst p2) E; [lra|apply andb_false_r]. }
  rewrite Hd. exact E3.
Qed.

(* ------------------------------------------------------------------------------------------ *)
(* well-formed inputs and their corner lists *)

Definition WF (g : grad) : Prop :=
  match g with
  | GTrap t => 0 < tr_rise t /\ 0 <= tr_flat t /\ 0 < tr_fall t
  | GExt e => sorted_strict (eg_tt e) /\ eg_tt e <> [] /\ hd 0 (eg_tt e) == 0 /\
              length (eg_tt e) = length (eg_wf e)
  end.

Lemma shift_combine d tt : forall wf,
  pwl_eq (shift d (combine tt wf)) (combine (map (fun x => d + x) tt) wf).
Proof.
  induction tt as [|a tt IH]; intros [|w wf]; try constructor.
  - cbn [fst snd]. split; [ring|reflexivity].
  - apply IH.
Qed.

Lemma times_combine (a : list Q) : forall b, length a = length b -> times (combine a b) = a.
Proof.
  induction a as [|x a IH]; intros [|y b] H; try discriminate; [reflexivity|].
  cbn in H. injection H as H. cbn [combine]. rewrite times_cons. f_equal. apply IH. exact H.
Qed.

Lemma sorted_map_plus_l d l : sorted_strict l -> sorted_strict (map (fun t => d + t) l).
Proof.
  induction l as [|a l IH]; [trivial|]. destruct l as [|b l]; [trivial|].
  intros [Hab Hs]. split; [lra|]. apply IH. exact Hs.
Qed.

Lemma to_pwl_corners g : WF g -> pwl_eq (to_pwl g) (ext_corners g).
Proof.
  destruct g as [t|e]; intro H; [apply pwl_eq_refl|].
  destruct H as (_ & _ & H0 & _). cbn [to_pwl ext_corners].
  case_eqb (hd 0 (eg_tt e)) 0 E; [|contradiction].
  apply shift_combine.
Qed.

Lemma trap_pwl_sorted a rise flat fall d :
  0 < rise -> 0 <= flat -> 0 < fall -> sorted_strict (times (trap_pwl a rise flat fall d)).
Proof.
  intros H1 H2 H3. unfold trap_pwl, Qgtb. case_ltb 0 flat E; cbn; repeat split; lra.
Qed.

Lemma corners_sorted g : WF g -> sorted_strict (times (ext_corners g)).
Proof.
  destruct g as [t|e]; intro H.
  - destruct H as (H1 & H2 & H3). apply trap_pwl_sorted; assumption.
  - destruct H as (H1 & _ & _ & H4). cbn [ext_corners].
    rewrite times_combine by (rewrite map_length; exact H4).
    apply sorted_map_plus_l. exact H1.
Qed.

Definition T0 (grads : list grad) : list Q := sort_uniq (flat_map grad_times grads).

Lemma corners_in_T0 grads g : In g grads -> WF g ->
  forall c, In c (times (ext_corners g)) -> InQ c (T0 grads).
Proof.
  intros Hg Hwf c Hc.
  assert (H : InQ c (grad_times g)).
  { destruct g as [t|e].
    - destruct Hwf as (H1 & H2 & H3). cbn [ext_corners grad_times] in *.
      unfold trap_pwl, Qgtb, trap_times in *. case_ltb 0 (tr_flat t) E; cbn in Hc.
      + exists c. split; [|reflexivity]. cbn. tauto.
      + destruct Hc as [<-|[<-|[<-|[]]]].
        * eexists. split; [left; reflexivity|reflexivity].
        * eexists. split; [right; left; reflexivity|reflexivity].
        * eexists. split; [right; right; right; left; reflexivity|]. lra.
    - destruct Hwf as (_ & _ & _ & H4). cbn [ext_corners grad_times] in *.
      rewrite times_combine in Hc by (rewrite map_length; exact H4).
      exists c. split; [exact Hc|reflexivity]. }
  destruct H as (b & Hb & E).
  assert (Hb' : In b (flat_map grad_times grads)) by (apply in_flat_map; exists g; split; assumption).
  destruct (sort_uniq_InQ _ b Hb') as (b' & Hb'' & E').
  exists b'. split; [exact Hb''|lra].
Qed.

(* ------------------------------------------------------------------------------------------ *)
(* extended-trapezoid path *)

Record ExtInputsOk (s : sys) (grads : list grad) : Prop := {
  eio_wf : forall g, In g grads -> WF g;
  (* distinct corner times are at least eps apart (on-raster inputs: at least one raster) *)
  eio_spaced : Spaced (T0 grads);
  (* StartsOk: a gradient that starts away from zero starts first and not later than eps *)
  eio_start : forall g, In g grads ->
      vfirst (to_pwl g) == 0 \/ (tfirst (to_pwl g) <= hd 0 (T0 grads) /\ tfirst (to_pwl g) <= eps);
  (* EndsOk: a gradient that ends away from zero ends last *)
  eio_end : forall g, In g grads ->
      vlast (to_pwl g) == 0 \/ last (T0 grads) 0 <= tlast (to_pwl g);
  (* the common start is on the gradient raster *)
  eio_raster : 0 < s_raster s /\ exists k : Z, hd 0 (T0 grads) == inject_Z k * s_raster s }.

Lemma ext_times_T0 s grads : ExtInputsOk s grads -> ext_times grads = T0 grads.
Proof. intro H. unfold ext_times. apply merge_close_spaced. apply (eio_spaced _ _ H). Qed.

Lemma prep_corners s grads g : ExtInputsOk s grads -> In g grads ->
  pwl_eq (prep (T0 grads) g) (ext_corners g).
Proof.
  intros H Hg. pose proof (eio_wf _ _ H g Hg) as Hwf.
  pose proof (to_pwl_corners g Hwf) as E.
  apply prep_eq.
  - apply corners_in_T0; assumption.
  - destruct (eio_start _ _ H g Hg) as [Hv|[_ Ht]].
    + left. rewrite <- (pwl_eq_vfirst _ _ E). exact Hv.
    + right. rewrite <- (pwl_eq_tfirst _ _ E). exact Ht.
Qed.

Theorem ext_sum_eval s grads : ExtInputsOk s grads ->
  forall t, eval (ext_sum grads) t == sum_eval (map to_pwl grads) t.
Proof.
  intros H t. unfold ext_sum. rewrite (ext_times_T0 s grads H).
  rewrite eval_psum_on.
  - apply sum_eval_ext. intros g Hg.
    pose proof (eio_wf _ _ H g Hg) as Hwf.
    rewrite (eval_pwl_eq _ _ t (prep_corners s grads g H Hg)).
    symmetry. apply eval_pwl_eq. apply to_pwl_corners. exact Hwf.
  - apply sort_uniq_sorted.
  - intros p Hp. apply in_map_iff in Hp. destruct Hp as (g & <- & Hg).
    pose proof (eio_wf _ _ H g Hg) as Hwf.
    pose proof (prep_corners s grads g H Hg) as E1.
    pose proof (to_pwl_corners g Hwf) as E2.
    pose proof (pwl_eq_sym _ _ E1) as E1'.
    destruct (pwl_eq_last _ _ E1) as [Ltl Lvl]. destruct (pwl_eq_last _ _ E2) as [Ltl2 Lvl2].
    pose proof (pwl_eq_tfirst _ _ E1) as Ltf. pose proof (pwl_eq_vfirst _ _ E1) as Lvf.
    pose proof (pwl_eq_tfirst _ _ E2) as Ltf2. pose proof (pwl_eq_vfirst _ _ E2) as Lvf2.
    split; [|split; [|split]].
    + apply (pwl_eq_sorted _ _ E1'). apply corners_sorted. exact Hwf.
    + apply (pwl_eq_times_InQ _ _ _ E1'). apply corners_in_T0; assumption.
    + destruct (eio_start _ _ H g Hg) as [Hv|[Ht _]]; [left; lra|right; lra].
    + destruct (eio_end _ _ H g Hg) as [Hv|Ht]; [left; lra|right; lra].
Qed.

Lemma unshift_pwl d (p : pwl) :
  pwl_eq (shift d (combine (map (fun t => t - d) (times p)) (values p))) p.
Proof.
  induction p as [|[t v] p IH]; [constructor|].
  cbn. constructor; [cbn; split; [ring|reflexivity]|exact IH].
Qed.

Lemma make_ext_trap_pwl s mg ms p g :
  make_ext_trap s mg ms p = OK g ->
  0 < s_raster s -> (exists k : Z, hd 0 (times p) == inject_Z k * s_raster s) ->
  pwl_eq (to_pwl g) p.
Proof.
  unfold make_ext_trap. intros H Hr (k & Hk).
  destruct (forallb (fun t => Qeq_bool t 0) (times p)) eqn:A1; [discriminate|].
  destruct (existsb (fun d => Qle_bool d 0) (diffs (times p))); [discriminate|].
  destruct (negb (on_raster (s_raster s) (last (times p) 0))); [discriminate|].
  destruct (Qgtb (hd 0 (times p)) 0 && negb (Qeq_bool (hd 0 (values p)) 0)); [discriminate|].
  destruct (negb (forallb (on_raster (s_raster s)) (times p))); [discriminate|].
  set (delay := inject_Z (rnd_he (hd 0 (times p) / s_raster s)) * s_raster s) in *.
  destruct (div_lists _ _); [discriminate|].
  destruct (Qgtb _ _); [discriminate|]. destruct (Qgtb _ _); [discriminate|].
  injection H as <-.
  assert (Hd : delay == hd 0 (times p)).
  { unfold delay.
    assert (E : hd 0 (times p) / s_raster s == inject_Z k) by (rewrite Hk; field; lra).
    rewrite E, rnd_he_inject. symmetry. exact Hk. }
  destruct p as [|[t0 v0] p]; [discriminate|].
  cbn [to_pwl eg_tt eg_delay]. cbn [times map hd fst] in Hd |- *.
  case_eqb (t0 - delay) 0 E; [|exfalso; apply E; lra].
  unfold ext_pwl. cbn [eg_delay eg_tt eg_wf].
  apply (unshift_pwl delay ((t0, v0) :: p)).
Qed.

Lemma add_gradients_ext_inv s mg ms grads g :
  add_gradients s mg ms grads = OK (P_ext, g) ->
  exists mg' ms', make_ext_trap s mg' ms' (ext_sum grads) = OK g.
Proof.
  unfold add_gradients. destruct grads as [|g0 [|g1 rest]]; cbv beta iota zeta; try discriminate.
  destruct (same_timing (g0 :: g1 :: rest)).
  - destruct g0; [|discriminate]. destruct (make_trap_amp _ _ _ _ _ _ _); discriminate.
  - destruct (forallb _ _).
    + destruct (make_ext_trap _ _ _ _) eqn:E; [|discriminate].
      intro H. injection H as <-. eexists. eexists. exact E.
    + destruct (make_arb _ _ _ _ _ _ _); discriminate.
Qed.

Theorem add_ext_path_sum s mg ms grads g :
  add_gradients s mg ms grads = OK (P_ext, g) -> ExtInputsOk s grads ->
  forall t, eval (to_pwl g) t == sum_eval (map to_pwl grads) t.
Proof.
  intros H Hok t. destruct (add_gradients_ext_inv _ _ _ _ _ H) as (mg' & ms' & Hm).
  destruct (eio_raster _ _ Hok) as [Hr Hk].
  rewrite (eval_pwl_eq _ _ t (make_ext_trap_pwl _ _ _ _ _ Hm Hr
            ltac:(unfold ext_sum; rewrite times_psum_on, (ext_times_T0 s grads Hok); exact Hk))).
  apply (ext_sum_eval s). exact Hok.
Qed.

(* ------------------------------------------------------------------------------------------ *)
(* equal-timing trapezoid path *)

Lemma trap_pwl_eq a rise flat fall d rise' flat' fall' d' :
  rise == rise' -> flat == flat' -> fall == fall' -> d == d' ->
  pwl_eq (trap_pwl a rise flat fall d) (scale a (trap_pwl 1 rise' flat' fall' d')).
Proof.
  intros E1 E2 E3 E4. unfold trap_pwl, Qgtb.
  assert (Eb : Qltb 0 flat = Qltb 0 flat') by (rewrite E2; reflexivity).
  rewrite Eb. destruct (Qltb 0 flat'); cbn; repeat constructor; cbn; try lra; ring.
Qed.

Lemma eval_trap_scale a rise flat fall d rise' flat' fall' d' t :
  rise == rise' -> flat == flat' -> fall == fall' -> d == d' ->
  eval (trap_pwl a rise flat fall d) t == a * eval (trap_pwl 1 rise' flat' fall' d') t.
Proof.
  intros. rewrite (eval_pwl_eq _ _ t (trap_pwl_eq a _ _ _ _ _ _ _ _ H H0 H1 H2)).
  apply eval_scale.
Qed.

Lemma same_timing_sum t0 l t :
  forallb (fun g => match g with
      | GTrap t => Qeq_bool (tr_rise t) (tr_rise t0) && Qeq_bool (tr_flat t) (tr_flat t0)
                   && Qeq_bool (tr_fall t) (tr_fall t0) && Qeq_bool (tr_delay t) (tr_delay t0)
      | GExt _ => false end) l = true ->
  sum_eval (map to_pwl l) t ==
  sumQ (map amp_of l) * eval (trap_pwl 1 (tr_rise t0) (tr_flat t0) (tr_fall t0) (tr_delay t0)) t.
Proof.
  induction l as [|g l IH]; intro H; [cbn; ring|].
  cbn [forallb] in H. apply andb_true_iff in H. destruct H as [Hg Hl].
  cbn [map sum_eval fold_right sumQ]. fold (sum_eval (map to_pwl l) t). fold (sumQ (map amp_of l)).
  rewrite (IH Hl). destruct g as [tr|e]; [|discriminate].
  apply andb_true_iff in Hg. destruct Hg as [Hg H4]. apply andb_true_iff in Hg. destruct Hg as [Hg H3].
  apply andb_true_iff in Hg. destruct Hg as [H1 H2].
  apply Qeq_bool_iff in H1, H2, H3, H4.
  cbn [to_pwl amp_of]. rewrite (eval_trap_scale _ _ _ _ _ _ _ _ _ t H1 H2 H3 H4). ring.
Qed.

Lemma add_gradients_trap_inv s mg ms grads g :
  add_gradients s mg ms grads = OK (P_trap, g) ->
  exists t0 rest mg' ms', grads = GTrap t0 :: rest /\ same_timing grads = true /\
    make_trap_amp mg' ms' (sumQ (map amp_of grads) + eps)
       (tr_rise t0) (tr_flat t0) (tr_fall t0) (tr_delay t0) = OK g.
Proof.
  unfold add_gradients. destruct grads as [|g0 [|g1 rest]]; cbv beta iota zeta; try discriminate.
  destruct (same_timing (g0 :: g1 :: rest)) eqn:Est.
  - destruct g0 as [t0|]; [|discriminate].
    destruct (make_trap_amp _ _ _ _ _ _ _) eqn:E; [|discriminate].
    intro H. injection H as <-. exists t0, (g1 :: rest). eexists. eexists.
    split; [reflexivity|]. split; [reflexivity|exact E].
  - destruct (forallb _ _).
    + destruct (make_ext_trap _ _ _ _); discriminate.
    + destruct (make_arb _ _ _ _ _ _ _); discriminate.
Qed.

Definition unit_trap (t0 : trap) : pwl :=
  trap_pwl 1 (tr_rise t0) (tr_flat t0) (tr_fall t0) (tr_delay t0).

(* the returned trapezoid is the sum of the inputs plus the code's  eps * unit trapezoid *)
Theorem add_trap_path_sum s mg ms grads g :
  add_gradients s mg ms grads = OK (P_trap, g) -> (forall x, In x grads -> WF x) ->
  exists t0, hd_error grads = Some (GTrap t0) /\
  forall t, eval (to_pwl g) t == sum_eval (map to_pwl grads) t + eps * eval (unit_trap t0) t.
Proof.
  intros H Hwf. destruct (add_gradients_trap_inv _ _ _ _ _ H) as (t0 & rest & mg' & ms' & -> & Hst & Hm).
  exists t0. split; [reflexivity|]. intro t.
  destruct (Hwf (GTrap t0) (or_introl eq_refl)) as (Hr & Hf & Hfa).
  unfold make_trap_amp in Hm.
  case_eqb (tr_rise t0) 0 E1; [lra|]. case_eqb (tr_fall t0) 0 E2; [lra|].
  destruct (Qgtb _ _); [discriminate|]. destruct (Qgtb _ _); [discriminate|].
  destruct (Qgtb _ _); [discriminate|]. injection Hm as <-.
  unfold same_timing in Hst.
  rewrite (same_timing_sum t0 _ t Hst).
  cbn [to_pwl tr_amp tr_rise tr_flat tr_fall tr_delay]. unfold unit_trap.
  rewrite (eval_trap_scale _ _ _ _ _ (tr_rise t0) (tr_flat t0) (tr_fall t0) (tr_delay t0) t)
    by reflexivity.
  unfold sumQ. cbn [map fold_right amp_of]. ring.
Qed.

Lemma unit_trap_bound t0 t : Qabs (eval (unit_trap t0) t) <= 1.
Proof.
  eapply Qle_trans; [apply amp_bound|].
  unfold unit_trap, trap_pwl. destruct (Qgtb (tr_flat t0) 0); vm_compute; discriminate.
Qed.

(* ... hence within eps of the exact sum at every time *)
Corollary add_trap_path_sum_eps s mg ms grads g :
  add_gradients s mg ms grads = OK (P_trap, g) -> (forall x, In x grads -> WF x) ->
  forall t, Qabs (eval (to_pwl g) t - sum_eval (map to_pwl grads) t) <= eps.
Proof.
  intros H Hwf t. destruct (add_trap_path_sum _ _ _ _ _ H Hwf) as (t0 & _ & Hs).
  rewrite (Hs t).
  setoid_replace (sum_eval (map to_pwl grads) t + eps * eval (unit_trap t0) t
                  - sum_eval (map to_pwl grads) t) with (eps * eval (unit_trap t0) t) by ring.
  rewrite Qabs_Qmult. rewrite (Qabs_pos eps) by (pose proof eps_pos; lra).
  pose proof (unit_trap_bound t0 t) as Hb.
  assert (P : eps * Qabs (eval (unit_trap t0) t) <= eps * 1).
  { rewrite !(Qmult_comm eps). apply Qmult_le_compat_r; [exact Hb|pose proof eps_pos; lra]. }
  lra.
Qed.

(* ------------------------------------------------------------------------------------------ *)
(* raster path: every returned sample is the sum of the input samples of the same raster cell *)

Lemma nth_nil_Q k : nth k (@nil Q) 0 = 0.
Proof. destruct k; reflexivity. Qed.

Lemma nth_vadd k : forall a b, nth k (vadd a b) 0 == nth k a 0 + nth k b 0.
Proof.
  induction k as [|k IH]; intros a b.
  - destruct a as [|x a]; destruct b as [|y b]; cbn [vadd nth]; ring.
  - destruct a as [|x a]; destruct b as [|y b]; cbn [vadd nth]; rewrite ?nth_nil_Q; try ring.
    apply IH.
Qed.

Lemma nth_fold_vadd ws : forall acc k,
  nth k (fold_left vadd ws acc) 0 == nth k acc 0 + sumQ (map (fun w => nth k w 0) ws).
Proof.
  induction ws as [|w ws IH]; intros acc k; cbn [fold_left map sumQ fold_right]; [ring|].
  fold (sumQ (map (fun w => nth k w 0) ws)). rewrite IH, nth_vadd. ring.
Qed.

Lemma add_gradients_raster_inv s mg ms grads g :
  add_gradients s mg ms grads = OK (P_raster, g) ->
  exists mg' ms', make_arb s mg' ms' (raster_sum s grads) (minl (map g_delay grads))
    (sumQ (map g_first (filter (fun g => same_time (g_delay g) (minl (map g_delay grads))) grads)))
    (sumQ (map g_last (filter (fun g => same_time (g_dur g) (maxl (map g_dur grads))) grads))) = OK g.
Proof.
  unfold add_gradients. destruct grads as [|g0 [|g1 rest]]; cbv beta iota zeta; try discriminate.
  destruct (same_timing (g0 :: g1 :: rest)).
  - destruct g0; [|discriminate]. destruct (make_trap_amp _ _ _ _ _ _ _); discriminate.
  - destruct (forallb _ _).
    + destruct (make_ext_trap _ _ _ _); discriminate.
    + destruct (make_arb _ _ _ _ _ _ _) eqn:E; [|discriminate].
      intro H. injection H as <-. eexists. eexists. exact E.
Qed.

Lemma make_arb_inv s mg ms w d f l g : make_arb s mg ms w d f l = OK g ->
  exists tt sd, g = GExt (mkEG d tt w f l sd).
Proof.
  unfold make_arb. destruct (diffs w); [discriminate|].
  destruct (Qgtb _ _); [discriminate|]. destruct (Qgtb _ _); [discriminate|].
  intro H. injection H as <-. eexists. eexists. reflexivity.
Qed.

Theorem add_raster_path_sum_at_centres_partial s mg ms grads g :
  add_gradients s mg ms grads = OK (P_raster, g) ->
  let cd := minl (map g_delay grads) in
  exists e, g = GExt e /\ eg_delay e = cd /\
    (forall k, nth k (eg_wf e) 0 == sumQ (map (fun gi => nth k (raster_samples s cd gi) 0) grads)) /\
    eg_first e = sumQ (map g_first (filter (fun g => same_time (g_delay g) cd) grads)) /\
    eg_last e = sumQ (map g_last (filter (fun g => same_time (g_dur g) (maxl (map g_dur grads))) grads)).
Proof.
  intros H cd. destruct (add_gradients_raster_inv _ _ _ _ _ H) as (mg' & ms' & Hm).
  destruct (make_arb_inv _ _ _ _ _ _ _ _ Hm) as (tt & sd & ->).
  eexists. split; [reflexivity|]. cbn [eg_delay eg_wf eg_first eg_last].
  split; [reflexivity|]. split; [|split; reflexivity].
  intro k. unfold raster_sum. rewrite nth_fold_vadd. fold cd.
  rewrite map_map. destruct k; cbn [nth]; ring.
Qed.

(* ------------------------------------------------------------------------------------------ *)
(* limit tests of the makers: they fail exactly beyond max_grad + eps / max_slew * (1 + eps) *)

Lemma Qgtb_true a b : Qgtb a b = true <-> b < a.
Proof. unfold Qgtb. apply Qltb_lt. Qed.
Lemma Qgtb_false a b : Qgtb a b = false <-> a <= b.
Proof. unfold Qgtb. apply Qltb_ge. Qed.

Theorem make_trap_amp_raises_iff mg ms amp rise flat fall delay :
  ~ rise == 0 -> ~ fall == 0 ->
  ((exists e, make_trap_amp mg ms amp rise flat fall delay = Err e) <->
   (mg + eps < Qabs amp \/ ms * (1 + eps) < Qabs amp / rise \/ ms * (1 + eps) < Qabs amp / fall)).
Proof.
  intros Hr Hf. unfold make_trap_amp.
  case_eqb rise 0 E1; [contradiction|]. case_eqb fall 0 E2; [contradiction|].
  destruct (Qgtb (Qabs amp) (mg + eps)) eqn:A1.
  { apply Qgtb_true in A1. split; [intros _; left; exact A1|intros _; eexists; reflexivity]. }
  apply Qgtb_false in A1.
  destruct (Qgtb (Qabs amp / rise) (ms * (1 + eps))) eqn:A2.
  { apply Qgtb_true in A2. split; [intros _; right; left; exact A2|intros _; eexists; reflexivity]. }
  apply Qgtb_false in A2.
  destruct (Qgtb (Qabs amp / fall) (ms * (1 + eps))) eqn:A3.
  { apply Qgtb_true in A3. split; [intros _; right; right; exact A3|intros _; eexists; reflexivity]. }
  apply Qgtb_false in A3.
  split; [intros (e & He); discriminate|intros [H|[H|H]]; lra].
Qed.

Theorem make_arb_raises_iff s mg ms w d f l : diffs w <> [] ->
  ((exists e, make_arb s mg ms w d f l = Err e) <->
   (ms * (1 + eps) < max_absl (map (fun x => x / s_raster s) (diffs w)) \/ mg + eps < max_absl w)).
Proof.
  intro Hd. unfold make_arb. destruct (diffs w) as [|d0 dw] eqn:Ed; [congruence|].
  destruct (Qgtb (max_absl (map (fun x => x / s_raster s) (d0 :: dw))) (ms * (1 + eps))) eqn:A1.
  { apply Qgtb_true in A1. split; [intros _; left; exact A1|intros _; eexists; reflexivity]. }
  apply Qgtb_false in A1.
  destruct (Qgtb (max_absl w) (mg + eps)) eqn:A2.
  { apply Qgtb_true in A2. split; [intros _; right; exact A2|intros _; eexists; reflexivity]. }
  apply Qgtb_false in A2.
  split; [intros (e & He); discriminate|intros [H|H]; lra].
Qed.

(* the raster path raises exactly when the returned samples exceed the effective limits *)
Theorem add_raster_raises_iff s mga msa grads :
  (2 <= length grads)%nat -> same_timing grads = false ->
  forallb (fun g => is_trap g || negb (is_arb s g)) grads = false ->
  diffs (raster_sum s grads) <> [] ->
  let mg := if Qle_bool mga 0 then s_max_grad s else mga in
  let ms := if Qle_bool msa 0 then s_max_slew s else msa in
  let mg3 := if ag_arb_passes_limits then mg else s_max_grad s in
  let ms3 := if ag_arb_passes_limits then ms else s_max_slew s in
  ((exists e, add_gradients s mga msa grads = Err e) <->
   (ms3 * (1 + eps) < max_absl (map (fun x => x / s_raster s) (diffs (raster_sum s grads))) \/
    mg3 + eps < max_absl (raster_sum s grads))).
Proof.
  intros Hlen Hst Hfa Hd. cbv zeta.
  unfold add_gradients. destruct grads as [|g0 [|g1 rest]]; [cbn in Hlen; lia|cbn in Hlen; lia|].
  cbv beta iota zeta. rewrite Hst, Hfa.
  set (mg3 := if ag_arb_passes_limits then _ else _).
  set (ms3 := if ag_arb_passes_limits then _ else _).
  rewrite <- (make_arb_raises_iff s mg3 ms3 _ (minl (map g_delay (g0 :: g1 :: rest)))
    (sumQ (map g_first (filter (fun g => same_time (g_delay g) (minl (map g_delay (g0 :: g1 :: rest)))) (g0 :: g1 :: rest))))
    (sumQ (map g_last (filter (fun g => same_time (g_dur g) (maxl (map g_dur (g0 :: g1 :: rest)))) (g0 :: g1 :: rest)))) Hd).
  destruct (make_arb _ _ _ _ _ _ _) eqn:E.
  - split; intros (e & He); discriminate.
  - split; intros _; eexists; reflexivity.
Qed.

(* ------------------------------------------------------------------------------------------ *)
(* duration, first, last *)

Lemma sum_eval_Proper ps : Proper (Qeq ==> Qeq) (sum_eval ps).
Proof.
  intros x y H. induction ps as [|p ps IH]; [reflexivity|].
  cbn [sum_eval fold_right]. fold (sum_eval ps x). fold (sum_eval ps y).
  rewrite IH, (eval_Proper p x y H). reflexivity.
Qed.

Lemma hd_values (p : pwl) : hd 0 (values p) = vfirst p.
Proof. destruct p as [|[t v] p]; reflexivity. Qed.

Lemma last_values (p : pwl) : last (values p) 0 = vlast p.
Proof.
  unfold vlast. induction p as [|a p IH]; [reflexivity|].
  destruct p as [|b p]; [reflexivity|].
  change (values (a :: b :: p)) with (snd a :: snd b :: values p).
  rewrite !last_cons2. exact IH.
Qed.

Lemma last_map_minus d (l : list Q) : l <> [] -> last (map (fun t => t - d) l) 0 == last l 0 - d.
Proof.
  induction l as [|a l IH]; [congruence|]. intros _.
  destruct l as [|b l]; [cbn; reflexivity|].
  change (map (fun t => t - d) (a :: b :: l)) with ((a - d) :: map (fun t => t - d) (b :: l)).
  change (map (fun t => t - d) (b :: l)) with ((b - d) :: map (fun t => t - d) l) at 1.
  rewrite !last_cons2. change ((b - d) :: map (fun t => t - d) l) with (map (fun t => t - d) (b :: l)).
  apply IH. discriminate.
Qed.

Lemma make_ext_trap_fields s mg ms p g :
  make_ext_trap s mg ms p = OK g -> p <> [] /\
  g_first g = vfirst p /\ g_last g = vlast p /\ g_dur g == tlast p.
Proof.
  unfold make_ext_trap. intros H.
  destruct (forallb (fun t => Qeq_bool t 0) (times p)) eqn:A1; [discriminate|].
  destruct (existsb _ _); [discriminate|].
  destruct (negb (on_raster _ _)); [discriminate|].
  destruct (Qgtb _ _ && _); [discriminate|].
  destruct (negb (forallb _ _)); [discriminate|].
  destruct (div_lists _ _); [discriminate|].
  destruct (Qgtb _ _); [discriminate|]. destruct (Qgtb _ _); [discriminate|].
  injection H as <-.
  assert (Hne : p <> []) by (intro E; subst p; discriminate).
  split; [exact Hne|]. cbn [g_first g_last g_dur eg_first eg_last eg_delay eg_shape_dur].
  split; [apply hd_values|]. split; [apply last_values|].
  rewrite last_map_minus by (destruct p; [congruence|discriminate]).
  rewrite <- tlast_times. ring.
Qed.

(* extended-trapezoid path: first / last are the sums of the input renderings at the start / end
   of the result, the result starts at the earliest and ends at the latest corner time of all inputs *)
Theorem add_ext_first_last_duration s mg ms grads g :
  add_gradients s mg ms grads = OK (P_ext, g) -> ExtInputsOk s grads ->
  g_first g == sum_eval (map to_pwl grads) (hd 0 (T0 grads)) /\
  g_last g == sum_eval (map to_pwl grads) (last (T0 grads) 0) /\
  g_dur g == last (T0 grads) 0.
Proof.
  intros H Hok. destruct (add_gradients_ext_inv _ _ _ _ _ H) as (mg' & ms' & Hm).
  destruct (make_ext_trap_fields _ _ _ _ _ Hm) as (Hne & Hf & Hl & Hd).
  set (p := ext_sum grads) in *.
  assert (Ht : times p = T0 grads).
  { unfold p, ext_sum. rewrite times_psum_on. apply (ext_times_T0 s). exact Hok. }
  assert (Hs : sorted_strict (times p)) by (rewrite Ht; apply sort_uniq_sorted).
  assert (Hev : forall t, eval p t == sum_eval (map to_pwl grads) t) by (apply (ext_sum_eval s); exact Hok).
  rewrite Hf, Hl, Hd. rewrite <- Ht, <- tfirst_times, <- tlast_times.
  split; [|split; [|reflexivity]].
  - rewrite <- (eval_at_first p Hs). apply Hev.
  - rewrite <- (eval_at_last p Hs). apply Hev.
Qed.

(* equal-timing path: every input has the duration of the result; first = last = 0 *)
Theorem add_trap_duration_first_last s mg ms grads g :
  add_gradients s mg ms grads = OK (P_trap, g) -> (forall x, In x grads -> WF x) ->
  g_first g = 0 /\ g_last g = 0 /\ forall x, In x grads -> g_dur x == g_dur g /\ g_first x = 0 /\ g_last x = 0.
Proof.
  intros H Hwf. destruct (add_gradients_trap_inv _ _ _ _ _ H) as (t0 & rest & mg' & ms' & -> & Hst & Hm).
  destruct (Hwf (GTrap t0) (or_introl eq_refl)) as (Hr & Hf & Hfa).
  unfold make_trap_amp in Hm.
  case_eqb (tr_rise t0) 0 E1; [lra|]. case_eqb (tr_fall t0) 0 E2; [lra|].
  destruct (Qgtb _ _); [discriminate|]. destruct (Qgtb _ _); [discriminate|].
  destruct (Qgtb _ _); [discriminate|]. injection Hm as <-.
  split; [reflexivity|]. split; [reflexivity|].
  intros x Hx. unfold same_timing in Hst. rewrite forallb_forall in Hst. specialize (Hst x Hx).
  destruct x as [tr|e]; [|discriminate].
  apply andb_true_iff in Hst. destruct Hst as [Hg H4]. apply andb_true_iff in Hg. destruct Hg as [Hg H3].
  apply andb_true_iff in Hg. destruct Hg as [H1 H2].
  apply Qeq_bool_iff in H1, H2, H3, H4.
  cbn [g_dur g_first g_last tr_delay tr_rise tr_flat tr_fall]. split; [lra|split; reflexivity].
Qed.
