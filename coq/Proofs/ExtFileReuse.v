(* Proofs/ExtFileReuse.v — C19: read() onto a Sequence object that is NOT fresh.
   read_seq.py:43-61 re-creates the rf/grad/adc/shape/trigger/label libraries and empties the two extension type
   lists; whether extensions_library is re-created as well is read from the source (since /repo 9f51bed it is;
   before, it was replaced only when the file had an [EXTENSIONS] section).  Model/ExtFile.v read_ext, for any
   receiving core; every statement below is proved for BOTH variants.
   A. a library rebuilt by insert(key_id, data) from rows with distinct non-zero ids is internally consistent;
   B. the store after read() onto ANY object satisfying the invariant satisfies the invariant again — also in
      the variant where the old extension library survives with all its keymap entries: stale entries are harmless
      because an extension entry is looked up by its full content (type id, ref, next) and decoded against the
      CURRENT tables;
   C. (Props) the variant that keeps the old trigger library is refuted by a computed witness. *)
From Coq Require Import List Bool ZArith QArith Qcanon Lia Permutation.
From RecordUpdate Require Import RecordSet.
From PV Require Import Base.AList Base.QUtil Gen.GenFile Gen.GenLabels Model.File Model.EventLib Model.Seq Model.Labels
                       Model.LabelEval Model.ExtFile Proofs.SeqSpec Proofs.SeqCache Proofs.SeqCont Proofs.FileProofs
                       Proofs.ExtProofs Proofs.ExtStore Proofs.ExtFileProofs Proofs.ExtFileInv.
Import ListNotations RecordSetNotations.
Open Scope Z_scope.

Local Notation kget := (aget key_eqb).

(* ================================================================================================ *)
(* A. rebuilt libraries                                                                              *)
(* ================================================================================================ *)
Definition ins_pair (g : key -> key) (acc : klib) (kv : Z * key) : klib := fst (kins acc (fst kv) (g (snd kv)) 0).

Lemma kins_fields (l : klib) id k : id <> 0 ->
  ldata (fst (kins l id k 0)) = aset Z.eqb (ldata l) id k /\
  lkeymap (fst (kins l id k 0)) = aset key_eqb (lkeymap l) k id /\
  lnext l <= lnext (fst (kins l id k 0)).
Proof.
  intro N. unfold kins, lib_insert. apply Z.eqb_neq in N. rewrite N. cbn [fst ldata lkeymap lnext].
  repeat split. destruct (lnext l <=? id) eqn:E; [apply Z.leb_le in E; lia|lia].
Qed.

Lemma fold_ins_inv g pairs : forall l0, lib_inv l0 -> lib_inv (fold_left (ins_pair g) pairs l0).
Proof.
  induction pairs as [|p r IH]; intros l0 I; cbn [fold_left]; [exact I|]. apply IH. apply kins_inv. exact I.
Qed.

Lemma fold_ins_next g pairs : Forall (fun kv : Z * key => fst kv <> 0) pairs ->
  forall l0, lnext l0 <= lnext (fold_left (ins_pair g) pairs l0).
Proof.
  induction 1 as [|p r Hp _ IH]; intro l0; cbn [fold_left]; [lia|].
  specialize (IH (ins_pair g l0 p)). destruct (kins_fields l0 (fst p) (g (snd p)) Hp) as (_ & _ & H). unfold ins_pair in *. lia.
Qed.

(* keymap -> data stays consistent when the inserted ids are new *)
Lemma fold_ins_consistent g pairs :
  NoDup (map fst pairs) -> Forall (fun kv : Z * key => fst kv <> 0) pairs -> forall l0,
  keymap_consistent l0 -> (forall kv, In kv pairs -> lib_get l0 (fst kv) = None) ->
  keymap_consistent (fold_left (ins_pair g) pairs l0).
Proof.
  induction pairs as [|[i k] r IH]; intros Nd Nz l0 C Fr; cbn [fold_left]; [exact C|].
  inversion Nd as [|? ? Hn Hr]. inversion Nz as [|? ? Hz Hzr]. subst. cbn [fst] in *.
  destruct (kins_fields l0 i (g k) Hz) as (Ed & Ek & _).
  apply IH; [exact Hr|exact Hzr| |].
  - intros k' id' H. unfold ins_pair in *. cbn [fst snd] in *. rewrite Ek in H. unfold lib_get. rewrite Ed.
    destruct (key_eqb k' (g k)) eqn:E.
    + apply key_eqb_spec in E. subst k'. rewrite (aget_aset_same key_eqb key_eqb_spec) in H. inversion H. subst id'.
      apply agetZ_aset_same.
    + assert (Hne : k' <> g k) by (intro X; subst; rewrite (proj2 (key_eqb_spec _ _) eq_refl) in E; discriminate).
      rewrite (aget_aset_other key_eqb key_eqb_spec _ _ _ _ Hne) in H. pose proof (C _ _ H) as G.
      rewrite agetZ_aset_other; [exact G|]. intro X. subst id'.
      pose proof (Fr (i, k) (or_introl eq_refl)) as F0. cbn [fst] in F0. unfold lib_get in G, F0. congruence.
  - intros kv Hin. unfold ins_pair. cbn [fst snd]. unfold lib_get. rewrite Ed.
    rewrite agetZ_aset_other; [exact (Fr kv (or_intror Hin))|]. intro X. apply Hn. rewrite <- X. apply in_map. exact Hin.
Qed.

(* data -> keymap (no two ids with one content) when the inserted contents are pairwise different *)
Definition km_complete (l : klib) : Prop := forall id k, lib_get l id = Some k -> kget (lkeymap l) k = Some id.

Lemma fold_ins_complete g pairs :
  NoDup (map fst pairs) -> NoDup (map (fun kv => g (snd kv)) pairs) -> Forall (fun kv : Z * key => fst kv <> 0) pairs ->
  forall l0, km_complete l0 -> keymap_consistent l0 ->
  (forall kv, In kv pairs -> lib_get l0 (fst kv) = None /\ kget (lkeymap l0) (g (snd kv)) = None) ->
  km_complete (fold_left (ins_pair g) pairs l0).
Proof.
  induction pairs as [|[i k] r IH]; intros Nd Nc Nz l0 W3 W2 Fr; cbn [fold_left]; [exact W3|].
  inversion Nd as [|? ? Hn Hr]. inversion Nc as [|? ? Hcn Hcr]. inversion Nz as [|? ? Hz Hzr]. subst. cbn [fst snd] in *.
  destruct (kins_fields l0 i (g k) Hz) as (Ed & Ek & _).
  destruct (Fr (i, k) (or_introl eq_refl)) as [F1 F2]. cbn [fst snd] in F1, F2.
  apply IH; [exact Hr|exact Hcr|exact Hzr| | |].
  - intros id k' H. unfold ins_pair in *. cbn [fst snd] in *. unfold lib_get in H. rewrite Ed in H. rewrite Ek.
    destruct (Z.eq_dec id i) as [->|N].
    + rewrite agetZ_aset_same in H. inversion H. apply (aget_aset_same key_eqb key_eqb_spec).
    + rewrite agetZ_aset_other in H by exact N. pose proof (W3 _ _ H) as G.
      rewrite (aget_aset_other key_eqb key_eqb_spec); [exact G|]. intro X. subst k'. congruence.
  - (* consistency of the intermediate library *)
    intros k' id' H. unfold ins_pair in *. cbn [fst snd] in *. rewrite Ek in H. unfold lib_get. rewrite Ed.
    destruct (key_eqb k' (g k)) eqn:E.
    + apply key_eqb_spec in E. subst k'. rewrite (aget_aset_same key_eqb key_eqb_spec) in H. inversion H. subst id'.
      apply agetZ_aset_same.
    + assert (Hne : k' <> g k) by (intro X; subst; rewrite (proj2 (key_eqb_spec _ _) eq_refl) in E; discriminate).
      rewrite (aget_aset_other key_eqb key_eqb_spec _ _ _ _ Hne) in H. pose proof (W2 _ _ H) as G.
      rewrite agetZ_aset_other; [exact G|]. intro X. subst id'. unfold lib_get in G, F1. congruence.
  - intros kv Hin. destruct (Fr kv (or_intror Hin)) as [G1 G2]. unfold ins_pair. cbn [fst snd]. unfold lib_get. rewrite Ed, Ek. split.
    + rewrite agetZ_aset_other; [exact G1|]. intro X. apply Hn. rewrite <- X. apply in_map. exact Hin.
    + rewrite (aget_aset_other key_eqb key_eqb_spec); [exact G2|]. intro X. apply Hcn. rewrite <- X.
      apply (in_map (fun kv => g (snd kv))) in Hin. exact Hin.
Qed.

Lemma rebuild_fold g l : rebuild g l = fold_left (ins_pair g) (ldata l) lib_empty.
Proof. reflexivity. Qed.

Lemma empty_consistent : keymap_consistent lib_empty /\ km_complete lib_empty.
Proof. split; intros a b H; discriminate H. Qed.

Theorem rebuild_ok : forall g l, ids_ok l ->
  lib_inv (rebuild g l) /\ keymap_consistent (rebuild g l) /\ 0 < lnext (rebuild g l).
Proof.
  intros g l [Nd Nz]. rewrite rebuild_fold. split; [apply fold_ins_inv; apply lib_inv_empty|]. split.
  - apply fold_ins_consistent; [exact Nd|exact Nz|apply empty_consistent|intros; reflexivity].
  - pose proof (fold_ins_next g _ Nz lib_empty) as H. cbn in H. lia.
Qed.

(* the extension library rebuilt from its own rows satisfies the extension invariant again *)
Theorem rebuild_ext_wf : forall l, ext_wf l -> ids_ok l -> ext_wf (rebuild (fun k => k) l).
Proof.
  intros l W Io. pose proof W as (W0 & W1 & W2 & W3). destruct (rebuild_ok (fun k => k) l Io) as (I & C & P).
  assert (G : forall id, lib_get (rebuild (fun k => k) l) id = lib_get l id)
    by (intro id; rewrite rebuild_get by exact Io; apply option_map_id).
  split; [exact P|]. split; [|split; [exact C|]].
  - intros id k H. rewrite G in H. destruct (W1 _ _ H) as ((Hp & _) & ty & ref & nx & Ek & Hn & Hv).
    split.
    + split; [exact Hp|]. apply (lib_get_lt _ id I). rewrite G. congruence.
    + exists ty, ref, nx. split; [exact Ek|]. split; [exact Hn|]. destruct Hv as [Hv|Hv]; [left; exact Hv|right; rewrite G; exact Hv].
  - destruct Io as [Nd Nz]. rewrite rebuild_fold.
    apply fold_ins_complete; [exact Nd| |exact Nz|apply empty_consistent|apply empty_consistent|intros; split; reflexivity].
    (* contents are pairwise different: two ids with one content would share the keymap entry *)
    assert (Inj : forall i1 i2 k, In (i1, k) (ldata l) -> In (i2, k) (ldata l) -> i1 = i2).
    { intros i1 i2 k H1 H2. pose proof (W3 _ _ (In_aget_nodup _ _ _ Nd H1)) as A.
      pose proof (W3 _ _ (In_aget_nodup _ _ _ Nd H2)) as B. congruence. }
    clear -Nd Inj. induction (ldata l) as [|[i k] r IH]; cbn [map]; [constructor|].
    inversion Nd as [|? ? Hn Hr]. subst. constructor.
    + cbn [snd]. intro Hin. apply in_map_iff in Hin. destruct Hin as ([i' k'] & E & Hin). cbn [snd] in E. subst k'.
      assert (i = i') by (apply (Inj i i' k); [left; reflexivity|right; exact Hin]). subst i'.
      apply Hn. apply (in_map fst) in Hin. exact Hin.
    + apply IH; [exact Hr|]. intros i1 i2 k0 H1 H2. apply (Inj i1 i2 k0); right; assumption.
Qed.

(* ================================================================================================ *)
(* B. the store after read() onto any object                                                         *)
(* ================================================================================================ *)
(* what read_ext never touches *)
Definition opart (c : core) := (rf_l c, grad_l c, adc_l c, shape_l c).

Lemma read_sec_opart c s c' : read_sec (Some c) s = Some c' -> opart c' = opart c.
Proof.
  unfold read_sec. destruct (set_ext_string_id (ext_num c, ext_str c) (xs_name s) (xs_id s)) as [[nums strs]|]; [|discriminate].
  intro H. inversion H. destruct (xs_name s =? XS_TRIGGERS); [reflexivity|]. destruct (xs_name s =? XS_LABELSET); reflexivity.
Qed.

Lemma read_secs_opart secs : forall c c', fold_left read_sec secs (Some c) = Some c' -> opart c' = opart c.
Proof.
  induction secs as [|s r IH]; intros c c' H; cbn [fold_left] in H; [inversion H; reflexivity|].
  destruct (read_sec (Some c) s) as [c1|] eqn:E.
  - rewrite (IH _ _ H). apply (read_sec_opart _ _ _ E).
  - exfalso. clear -H. induction r as [|x r IHr]; cbn in H; [discriminate|apply IHr; exact H].
Qed.

Lemma read_ext_opart c0 f c' : read_ext c0 f = Some c' -> opart c' = opart c0.
Proof.
  unfold read_ext. intro H. rewrite (read_secs_opart _ _ _ H). destruct (x_ext f); reflexivity.
Qed.

(* read() of the file written from [c] (a store of a reachable state) onto ANY object [c0] that satisfies
   the invariant gives a store that satisfies it again.  The old extension library survives when the file has no
   [EXTENSIONS] section; its entries, data and keymap alike, stay mutually consistent, which is all that
   registration and decoding rely on. *)
Theorem read_onto_lab_inv : forall c0 c c',
  lab_inv c0 -> fr_inv c -> reread_ext c0 c = Some c' -> lab_inv c'.
Proof.
  intros c0 c c' L0 [Lc Fc] R.
  pose proof (fr_inv_file_ready c (conj Lc Fc)) as (X & W & Ie & It & Is & Ii & Rt & Rs & Ri).
  destruct (reread_ext_spec c0 c X) as (c'' & R' & Le & Lt & Ls & Li & _ & N1 & N2 & N3).
  rewrite R in R'. inversion R'. subst c''. clear R'.
  pose proof (read_ext_opart _ _ _ R) as Op. unfold opart in Op. inversion Op as [[O1 O2 O3 O4]].
  destruct unit_tables as (U1 & U2 & U3).
  rewrite (reread_trig_lib _ Rt) in Lt.
  rewrite (reread_unit_lib sec_lset (lset_l c) 2 U2 eq_refl Rs) in Ls.
  rewrite (reread_unit_lib sec_linc (linc_l c) 2 U3 eq_refl Ri) in Li.
  destruct (rebuild_ok file_trig_row _ It) as (A1 & A2 & _).
  destruct (rebuild_ok (fun k => k) _ Is) as (B1 & B2 & _).
  destruct (rebuild_ok (fun k => k) _ Ii) as (C1 & C2 & _).
  destruct L0 as (I0 & W0 & _).
  destruct I0 as (J1 & J2 & J3 & J4 & J5 & J6 & J7 & J8).
  assert (We : ext_wf (ext_l c') /\ lib_inv (ext_l c')).
  { rewrite Le. destruct (nonempty (ext_l c)).
    - rewrite (reread_unit_lib sec_ext (ext_l c) 3 U1 eq_refl (ext_rows_int _ W Ie)).
      split; [apply rebuild_ext_wf; assumption|apply (rebuild_ok (fun k => k) _ Ie)].
    - destruct read_resets_ext_library; [split; [apply ext_wf_empty|apply lib_inv_empty]|split; assumption]. }
  split.
  - unfold core_inv. rewrite O1, O2, O3, O4, Lt, Ls, Li. repeat (split; try assumption); apply We.
  - split; [apply We|]. rewrite Lt, Ls, Li. split; [exact A2|]. split; [exact B2|]. split; [exact C2|].
    split; [exact N1|split; [exact N3|exact N2]].
Qed.

(* consequence: whatever was in the object before the read, a later add_block on it returns its label and
   trigger events (C19_set_block_ext_roundtrip applies to c') *)
Theorem add_block_after_read_onto : forall abs_fix c0 c c1 i evs hint c2 clr,
  lab_inv c0 -> fr_inv c -> reread_ext c0 c = Some c1 ->
  Forall ev_ok evs -> Forall ext_by_value evs ->
  set_block_core abs_fix c1 i evs hint = (c2, clr, None) ->
  exists ext, stored_ext c2 i = Some ext /\ Permutation ext (flat_map ext_event_payload evs).
Proof.
  intros abs_fix c0 c c1 i evs hint c2 clr L0 F R Ok Bv H.
  exact (set_block_ext_roundtrip abs_fix c1 i evs hint c2 clr (read_onto_lab_inv c0 c c1 L0 F R) Ok Bv H).
Qed.

(* ---- the re-read store is again ready to be written (so histories may contain read() of files written by
   write(), onto any object, and the file theorems keep applying) ------------------------------------------- *)
Lemma fold_ins_data g pairs :
  NoDup (map fst pairs) -> Forall (fun kv : Z * key => fst kv <> 0) pairs -> forall l0,
  (forall kv, In kv pairs -> lib_get l0 (fst kv) = None) ->
  ldata (fold_left (ins_pair g) pairs l0) = ldata l0 ++ map (fun kv => (fst kv, g (snd kv))) pairs.
Proof.
  induction pairs as [|[i k] r IH]; intros Nd Nz l0 Fr; cbn [fold_left map]; [rewrite app_nil_r; reflexivity|].
  inversion Nd as [|? ? Hn Hr]. inversion Nz as [|? ? Hz Hzr]. subst. cbn [fst snd] in *.
  destruct (kins_fields l0 i (g k) Hz) as (Ed & _ & _).
  rewrite IH; [| exact Hr | exact Hzr |].
  - unfold ins_pair. cbn [fst snd]. rewrite Ed.
    pose proof (Fr (i, k) (or_introl eq_refl)) as F0. cbn [fst] in F0. unfold lib_get in F0.
    rewrite (aset_new _ _ _ F0), <- app_assoc. reflexivity.
  - intros kv Hin. unfold ins_pair. cbn [fst snd]. unfold lib_get. rewrite Ed.
    rewrite agetZ_aset_other; [exact (Fr kv (or_intror Hin))|]. intro X. apply Hn. rewrite <- X. apply in_map. exact Hin.
Qed.

Lemma rebuild_data g l : ids_ok l -> ldata (rebuild g l) = map (fun kv => (fst kv, g (snd kv))) (ldata l).
Proof. intros [Nd Nz]. rewrite rebuild_fold, (fold_ins_data g _ Nd Nz); [reflexivity|intros; reflexivity]. Qed.

Lemma rebuild_ids_ok g l : ids_ok l -> ids_ok (rebuild g l).
Proof.
  intro Io. pose proof Io as [Nd Nz]. unfold ids_ok. rewrite (rebuild_data g l Io). unfold akeys. rewrite map_map. cbn [fst].
  split; [exact Nd|]. apply Forall_forall. intros x Hx. apply in_map_iff in Hx. destruct Hx as (kv & <- & Hin).
  cbn [fst]. rewrite Forall_forall in Nz. apply Nz. exact Hin.
Qed.

Theorem read_onto_fr_inv : forall c0 c c',
  fr_inv c0 -> fr_inv c -> reread_ext c0 c = Some c' -> fr_inv c'.
Proof.
  intros c0 c c' [L0 F0] [Lc Fc] R. split; [exact (read_onto_lab_inv c0 c c' L0 (conj Lc Fc) R)|].
  pose proof (fr_inv_file_ready c (conj Lc Fc)) as (X & W & Ie & It & Is & Ii & Rt & Rs & Ri).
  destruct (reread_ext_spec c0 c X) as (c'' & R' & Le & Lt & Ls & Li & _).
  rewrite R in R'. inversion R'. subst c''. clear R'.
  destruct unit_tables as (U1 & U2 & U3).
  rewrite (reread_trig_lib _ Rt) in Lt.
  rewrite (reread_unit_lib sec_lset (lset_l c) 2 U2 eq_refl Rs) in Ls.
  rewrite (reread_unit_lib sec_linc (linc_l c) 2 U3 eq_refl Ri) in Li.
  unfold fparts. rewrite Lt, Ls, Li.
  destruct (rebuild_ok file_trig_row _ It) as (_ & _ & P1).
  destruct (rebuild_ok (fun k => k) _ Is) as (_ & _ & P2).
  destruct (rebuild_ok (fun k => k) _ Ii) as (_ & _ & P3).
  split.
  { rewrite Le. destruct (nonempty (ext_l c)).
    - rewrite (reread_unit_lib sec_ext (ext_l c) 3 U1 eq_refl (ext_rows_int _ W Ie)). apply rebuild_ids_ok. exact Ie.
    - destruct read_resets_ext_library; [split; constructor|apply F0]. }
  split; [apply rebuild_ids_ok; exact It|]. split; [apply rebuild_ids_ok; exact Is|]. split; [apply rebuild_ids_ok; exact Ii|].
  split; [exact P1|]. split; [exact P2|]. split; [exact P3|].
  split; [|split].
  - unfold trig_rows in *. rewrite (rebuild_data _ _ It). apply Forall_forall. intros x Hx.
    apply in_map_iff in Hx. destruct Hx as (kv & <- & Hin). rewrite Forall_forall in Rt.
    destruct (Rt _ Hin) as (t & ch & d & du & E). exists t, ch, (round_us d), (round_us du).
    destruct kv as [i k]. cbn [snd fst] in *. subst k. reflexivity.
  - unfold int_rows in *. rewrite (rebuild_data _ _ Is). rewrite Forall_forall in *. intros x Hx.
    apply in_map_iff in Hx. destruct Hx as (kv & <- & Hin). cbn [snd]. apply Rs. exact Hin.
  - unfold int_rows in *. rewrite (rebuild_data _ _ Ii). rewrite Forall_forall in *. intros x Hx.
    apply in_map_iff in Hx. destruct Hx as (kv & <- & Hin). cbn [snd]. apply Ri. exact Hin.
Qed.
