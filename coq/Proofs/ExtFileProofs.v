(* Proofs/ExtFileProofs.v — C19, "also after write and read": the extension part of the store survives
   the file (Model/ExtFile.v over the column tables of Gen/GenFile.v).
   A. integer rows come back exactly; trigger rows with delay/duration rounded to whole microseconds;
   B. a library rebuilt by insert(key_id, data) from its own rows;
   C. the numeric id <-> name table through the `extension NAME id` headers;
   D. get_block's chain walk and evaluate_labels on the re-read store. *)
From Coq Require Import List Bool ZArith QArith Qcanon Qround Qabs Lia Lqa Permutation.
From RecordUpdate Require Import RecordSet.
From PV Require Import Base.AList Base.QUtil Gen.GenFile Gen.GenLabels Model.File Model.EventLib Model.Seq Model.Labels
                       Model.LabelEval Model.ExtFile Proofs.SeqSpec Proofs.SeqCache Proofs.FileProofs
                       Proofs.LabelProofs Proofs.ExtProofs Proofs.ExtStore.
Import ListNotations RecordSetNotations.
Open Scope Z_scope.

(* ================================================================================================ *)
(* A. rows                                                                                           *)
(* ================================================================================================ *)
Lemma Q2Qc_this (q : Qc) : Q2Qc (this q) = q.
Proof. apply Qc_is_canon. cbn [this Q2Qc]. apply Qred_correct. Qed.

Lemma Q2Qc_eq (x y : Q) : (x == y)%Q -> Q2Qc x = Q2Qc y.
Proof. intro H. apply Qc_is_canon. cbn [this Q2Qc]. rewrite !Qred_correct. exact H. Qed.

Lemma this_zq z : (this (zq z) == inject_Z z)%Q.
Proof. unfold zq. cbn [this Q2Qc]. apply Qred_correct. Qed.

(* an integer column: what is printed is the value times the multiplier, what is read is the value *)
Lemma int_col_exact rfr (c : col) (x : Q) :
  is_int_col c = true -> is_int (x * c_mult c)%Q -> (rcol c (wcol rfr c x) == x)%Q.
Proof.
  intros I H. pose proof I as I0. unfold is_int_col in I. apply andb_true_iff in I. destruct I as [_ SK].
  destruct (scale_ok_spec c SK) as [MS _].
  rewrite (wcol_int rfr c x I0). unfold rcol. rewrite (rnd_he_int _ H).
  rewrite <- Qmult_assoc, MS. ring.
Qed.

Lemma int_col_half rfr (c : col) (x : Q) :
  is_int_col c = true -> (Qabs (rcol c (wcol rfr c x) - x) <= (1 # 2) * c_scale c)%Q.
Proof.
  intro I. assert (OK : col_ok c = true) by (unfold col_ok; rewrite I; reflexivity).
  pose proof (col_roundtrip rfr c x OK) as H. unfold col_sim, col_target in H.
  unfold is_int_col in I. apply andb_true_iff in I. destruct I as [I _].
  apply andb_true_iff in I. destruct I as [F P]. apply negb_true_iff in P. rewrite P in H.
  assert (F' : (0 <? c_fmt c) = false) by (apply Z.ltb_ge; apply Z.leb_le; exact F). rewrite F' in H.
  exact (proj1 H).
Qed.

Definition is_intQ (x : Q) : Prop := is_int x.

(* the three all-integer sections: every column has multiplier 1 and an integer format *)
Definition unit_cols (cs : list col) : bool :=
  forallb (fun c => is_int_col c && Qeq_bool (c_mult c) 1) cs.

Lemma unit_tables : unit_cols sec_ext = true /\ unit_cols sec_lset = true /\ unit_cols sec_linc = true.
Proof. repeat split; vm_compute; reflexivity. Qed.

Lemma unit_row_exact cs : unit_cols cs = true -> forall r,
  length r = length cs -> Forall is_intQ r ->
  Forall2 Qeq (read_row cs (write_row 1 cs r)) r.
Proof.
  induction cs as [|c cs IH]; intros U r L F.
  - destruct r; [constructor|discriminate].
  - destruct r as [|x r]; [discriminate|]. cbn [unit_cols forallb] in U. apply andb_true_iff in U. destruct U as [Uc Ur].
    apply andb_true_iff in Uc. destruct Uc as [I M]. apply Qeq_bool_iff in M.
    inversion F as [|? ? Fx Fr]. subst. cbn [write_row read_row]. constructor.
    + apply int_col_exact; [exact I|]. destruct Fx as [z Ez]. exists z. rewrite M, Ez. ring.
    + apply IH; [exact Ur|cbn in L; lia|exact Fr].
Qed.

Definition qc_int (q : Qc) : Prop := exists z, q = zq z.

Lemma qc_int_is_int q : qc_int q -> is_intQ (this q).
Proof. intros [z ->]. exists z. apply this_zq. Qed.

(* an all-integer library row [id :: data] read back from its printed form is inserted as itself *)
Lemma insert_unit_row cs (l0 : klib) id (k : key) :
  unit_cols cs = true -> S (length k) = length cs -> Forall qc_int k ->
  insert_row l0 (read_row cs (write_row 1 cs (inject_Z id :: map this k))) = fst (kins l0 id k 0).
Proof.
  intros U L F.
  assert (Fr : Forall is_intQ (inject_Z id :: map this k)).
  { constructor; [exists id; reflexivity|]. clear L. induction F as [|q r Hq _ IH]; cbn [map]; constructor;
      [apply qc_int_is_int; exact Hq|exact IH]. }
  assert (Lr : length (inject_Z id :: map this k) = length cs) by (cbn [length]; rewrite map_length; exact L).
  pose proof (unit_row_exact cs U _ Lr Fr) as H.
  destruct (read_row cs (write_row 1 cs (inject_Z id :: map this k))) as [|i' d']; [inversion H|].
  inversion H as [|? ? ? ? Hi Hd]. subst. cbn [insert_row].
  assert (Ei : Qfloor i' = id) by (rewrite (Qfloor_comp _ _ Hi); apply Qfloor_Z).
  assert (Ed : map Q2Qc d' = k).
  { clear -Hd. revert d' Hd. induction k as [|q k IH]; intros d' Hd; cbn [map] in Hd.
    - inversion Hd. reflexivity.
    - inversion Hd as [|x' ? t' ? Hx Ht]. subst. cbn [map].
      f_equal; [rewrite (Q2Qc_eq _ _ Hx); apply Q2Qc_this|apply IH; exact Ht]. }
  rewrite Ei, Ed. reflexivity.
Qed.

(* trigger rows: type and channel exactly, delay and duration as whole microseconds *)
Lemma trig_tables :
  exists c0 c1 c2 c3 c4, sec_trig = [c0; c1; c2; c3; c4] /\
    is_int_col c0 = true /\ is_int_col c1 = true /\ is_int_col c2 = true /\ is_int_col c3 = true /\ is_int_col c4 = true /\
    (c_mult c0 == 1)%Q /\ (c_mult c1 == 1)%Q /\ (c_mult c2 == 1)%Q /\
    (c_mult c3 == us)%Q /\ (c_mult c4 == us)%Q /\ (c_scale c3 == 1 # 1000000)%Q /\ (c_scale c4 == 1 # 1000000)%Q.
Proof. do 5 eexists. split; [reflexivity|]. repeat split; vm_compute; reflexivity. Qed.

Lemma us_col rfr c (x : Qc) :
  is_int_col c = true -> (c_mult c == us)%Q -> (c_scale c == 1 # 1000000)%Q ->
  Q2Qc (rcol c (wcol rfr c (this x))) = round_us x.
Proof.
  intros I M S. rewrite (wcol_int rfr c _ I). unfold rcol, round_us. apply Q2Qc_eq.
  rewrite (rnd_he_Proper _ _ (Qmult_comp _ _ (Qeq_refl (this x)) _ _ M)). rewrite S. reflexivity.
Qed.

Lemma insert_trig_row (l0 : klib) id t ch (d du : Qc) :
  insert_row l0 (read_row sec_trig (write_row 1 sec_trig (inject_Z id :: map this [zq t; zq ch; d; du])))
  = fst (kins l0 id (file_trig_row [zq t; zq ch; d; du]) 0).
Proof.
  destruct trig_tables as (c0 & c1 & c2 & c3 & c4 & E & I0 & I1 & I2 & I3 & I4 & M0 & M1 & M2 & M3 & M4 & S3 & S4).
  rewrite E. cbn [map write_row read_row insert_row file_trig_row].
  assert (Ei : Qfloor (rcol c0 (wcol 1 c0 (inject_Z id))) = id).
  { rewrite (Qfloor_comp _ (inject_Z id)); [apply Qfloor_Z|].
    apply int_col_exact; [exact I0|]. exists id. rewrite M0. ring. }
  assert (E1 : Q2Qc (rcol c1 (wcol 1 c1 (this (zq t)))) = zq t).
  { rewrite <- (Q2Qc_this (zq t)) at 2. apply Q2Qc_eq. apply int_col_exact; [exact I1|].
    exists t. rewrite M1, this_zq. ring. }
  assert (E2 : Q2Qc (rcol c2 (wcol 1 c2 (this (zq ch)))) = zq ch).
  { rewrite <- (Q2Qc_this (zq ch)) at 2. apply Q2Qc_eq. apply int_col_exact; [exact I2|].
    exists ch. rewrite M2, this_zq. ring. }
  rewrite Ei, E1, E2, (us_col 1 c3 d I3 M3 S3), (us_col 1 c4 du I4 M4 S4). reflexivity.
Qed.

(* the rounding is within half a microsecond and exact on whole microseconds *)
Theorem round_us_spec : forall x : Qc,
  (Qabs (this (round_us x) - this x) <= 1 # 2000000)%Q /\
  (is_int (this x * us)%Q -> round_us x = x).
Proof.
  intro x. split.
  - unfold round_us. cbn [this Q2Qc]. rewrite Qred_correct.
    pose proof (rnd_he_err (this x * us)) as H. unfold Qhalf, us in *.
    set (r := inject_Z (rnd_he (this x * (1000000 # 1)))) in *.
    assert (E : (r * (1 # 1000000) - this x == - ((this x * (1000000 # 1) - r) * (1 # 1000000)))%Q) by ring.
    rewrite E, Qabs_opp, Qabs_Qmult. change (Qabs (1 # 1000000)) with (1 # 1000000)%Q.
    apply Qabs_Qle_condition in H. destruct H as [H1 H2].
    assert (Qabs (this x * (1000000 # 1) - r) <= 1 # 2)%Q by (apply Qabs_Qle_condition; split; assumption).
    nra.
  - intro H. unfold round_us. rewrite <- (Q2Qc_this x) at 2. apply Q2Qc_eq.
    rewrite (rnd_he_int _ H). unfold us. field.
Qed.

(* ================================================================================================ *)
(* B. libraries                                                                                      *)
(* ================================================================================================ *)
Definition rebuild (g : key -> key) (l : klib) : klib :=
  fold_left (fun acc kv => fst (kins acc (fst kv) (g (snd kv)) 0)) (ldata l) lib_empty.

Definition ids_ok (l : klib) : Prop := NoDup (akeys (ldata l)) /\ Forall (fun kv => fst kv <> 0) (ldata l).
Definition int_rows (n : nat) (l : klib) : Prop :=
  Forall (fun kv => length (snd kv) = n /\ Forall qc_int (snd kv)) (ldata l).
Definition trig_rows (l : klib) : Prop :=
  Forall (fun kv => exists t ch d du, snd kv = [zq t; zq ch; d; du]) (ldata l).

Lemma fold_left_map {A B C} (f : A -> B -> A) (h : C -> B) xs a :
  fold_left f (map h xs) a = fold_left (fun a x => f a (h x)) xs a.
Proof. revert a. induction xs as [|x r IH]; intro a; cbn; [reflexivity|apply IH]. Qed.

Lemma fold_left_ext_in {A B} (f f' : A -> B -> A) xs :
  (forall a x, In x xs -> f a x = f' a x) -> forall a, fold_left f xs a = fold_left f' xs a.
Proof.
  induction xs as [|x r IH]; intros H a; cbn; [reflexivity|].
  rewrite (H a x (or_introl eq_refl)). apply IH. intros a' y Hy. apply H. right. exact Hy.
Qed.

Lemma kins_data (l : klib) id k : id <> 0 -> ldata (fst (kins l id k 0)) = aset Z.eqb (ldata l) id k.
Proof. intro N. unfold kins, lib_insert. apply Z.eqb_neq in N. rewrite N. reflexivity. Qed.

Lemma fold_kins_get (g : key -> key) pairs :
  NoDup (map fst pairs) -> Forall (fun kv : Z * key => fst kv <> 0) pairs -> forall (l0 : klib) id,
  lib_get (fold_left (fun acc kv => fst (kins acc (fst kv) (g (snd kv)) 0)) pairs l0) id =
  match aget Z.eqb pairs id with Some k => Some (g k) | None => lib_get l0 id end.
Proof.
  induction pairs as [|[i k] r IH]; intros Nd Nz l0 id; cbn [fold_left aget]; [reflexivity|].
  inversion Nd as [|? ? Hn Hr]. inversion Nz as [|? ? Hz Hzr]. subst. cbn [fst snd] in *.
  rewrite (IH Hr Hzr). destruct (i =? id) eqn:E.
  - apply Z.eqb_eq in E. subst id.
    rewrite (agetZ_notin_None r i Hn). unfold lib_get. rewrite (kins_data _ _ _ Hz). apply agetZ_aset_same.
  - apply Z.eqb_neq in E. destruct (aget Z.eqb r id); [reflexivity|].
    unfold lib_get. rewrite (kins_data _ _ _ Hz). apply agetZ_aset_other. congruence.
Qed.

Theorem rebuild_get : forall g l id, ids_ok l -> lib_get (rebuild g l) id = option_map g (lib_get l id).
Proof.
  intros g l id [Nd Nz]. unfold rebuild. rewrite (fold_kins_get g _ Nd Nz). unfold lib_get at 2.
  destruct (aget Z.eqb (ldata l) id); reflexivity.
Qed.

Lemma reread_unit_lib cs (l : klib) n :
  unit_cols cs = true -> length cs = S n -> int_rows n l ->
  lib_of_rows lib_empty (map (read_row cs) (wrows cs l)) = rebuild (fun k => k) l.
Proof.
  intros U L R. unfold lib_of_rows, wrows, lib_rows, rebuild. rewrite !fold_left_map.
  apply fold_left_ext_in. intros a [id k] Hin. cbn [fst snd].
  unfold int_rows in R. rewrite Forall_forall in R. destruct (R _ Hin) as [Hl Hi]. cbn [snd] in Hl, Hi.
  apply insert_unit_row; [exact U|rewrite L, Hl; reflexivity|exact Hi].
Qed.

Lemma reread_trig_lib (l : klib) :
  trig_rows l -> lib_of_rows lib_empty (map (read_row sec_trig) (wrows sec_trig l)) = rebuild file_trig_row l.
Proof.
  intro R. unfold lib_of_rows, wrows, lib_rows, rebuild. rewrite !fold_left_map.
  apply fold_left_ext_in. intros a [id k] Hin. cbn [fst snd].
  unfold trig_rows in R. rewrite Forall_forall in R. destruct (R _ Hin) as (t & ch & d & du & E). cbn [snd] in E.
  subst k. apply insert_trig_row.
Qed.

Lemma rebuild_empty g (l : klib) : nonempty l = false -> rebuild g l = lib_empty.
Proof. unfold nonempty, rebuild. destruct (ldata l); [reflexivity|discriminate]. Qed.

Lemma empty_get (l : klib) id : nonempty l = false -> lib_get l id = None.
Proof. unfold nonempty, lib_get. destruct (ldata l); [reflexivity|discriminate]. Qed.

(* ================================================================================================ *)
(* C. the extension type table through the headers                                                   *)
(* ================================================================================================ *)
Lemma ext_type_id_libs c s :
  trig_l (fst (ext_type_id c s)) = trig_l c /\ lset_l (fst (ext_type_id c s)) = lset_l c /\
  linc_l (fst (ext_type_id c s)) = linc_l c /\ ext_l (fst (ext_type_id c s)) = ext_l c.
Proof. unfold ext_type_id. destruct (index_of s (ext_str c)); repeat split; reflexivity. Qed.

Lemma ext_type_id_keeps c s id s' :
  ext_type_str c id = Some s' -> ext_type_str (fst (ext_type_id c s)) id = Some s'.
Proof.
  unfold ext_type_id. destruct (index_of s (ext_str c)); cbn [fst]; [tauto|].
  unfold ext_type_str. cbn.
  destruct (index_of id (ext_num c)) as [m|] eqn:E; [|discriminate].
  intro H. rewrite (index_of_app _ _ _ _ E). apply nth_error_app_keep. exact H.
Qed.


Definition sp_name (sp : Z * list col * klib) : Z := fst (fst sp).
Definition sp_cols (sp : Z * list col * klib) : list col := snd (fst sp).
Definition sp_lib (sp : Z * list col * klib) : klib := snd sp.
Definition sp_ne (sp : Z * list col * klib) : bool := nonempty (sp_lib sp).
Definition sec_of (s : xsec) (sp : Z * list col * klib) : Prop :=
  xs_name s = sp_name sp /\ xs_rows s = wrows (sp_cols sp) (sp_lib sp).

Definition wfold (specs : list (Z * list col * klib)) (st : core * list xsec) : core * list xsec :=
  fold_left (fun (acc : core * list xsec) (sp : Z * list col * klib) =>
               write_sec (fst acc) (fst (fst sp)) (snd (fst sp)) (snd sp) (snd acc)) specs st.

(* write(): the sections of the non-empty libraries, in order; every header carries the number the core
   (as write leaves it) maps to that name; numbers known before keep their names *)
Lemma write_secs_spec : forall specs c acc,
  xt_inv c ->
  (forall s, In s acc -> ext_type_str c (xs_id s) = Some (xs_name s)) ->
  let r := wfold specs (c, acc) in
  xt_inv (fst r) /\
  (forall id s, ext_type_str c id = Some s -> ext_type_str (fst r) id = Some s) /\
  (forall s, In s (snd r) -> ext_type_str (fst r) (xs_id s) = Some (xs_name s)) /\
  exists news, snd r = acc ++ news /\ Forall2 sec_of news (filter sp_ne specs).
Proof.
  induction specs as [|[[name cs] l] specs IH]; intros c acc X P; cbv zeta.
  - unfold wfold. cbn [fold_left fst snd filter].
    split; [exact X|]. split; [tauto|]. split; [exact P|]. exists []. split; [rewrite app_nil_r; reflexivity|constructor].
  - change (wfold ((name, cs, l) :: specs) (c, acc)) with (wfold specs (write_sec c name cs l acc)).
    cbn [filter]. unfold sp_ne at 1, sp_lib at 1. cbn [snd].
    destruct (nonempty l) eqn:B.
    + destruct (ext_type_id_spec c name X) as [X' T'].
      destruct (ext_type_id c name) as [c' id] eqn:E. cbn [fst snd] in X', T'.
      assert (Ew : write_sec c name cs l acc = (c', acc ++ [mkXsec name id (wrows cs l)]))
        by (unfold write_sec; rewrite B, E; reflexivity).
      rewrite Ew.
      assert (K : forall i s, ext_type_str c i = Some s -> ext_type_str c' i = Some s).
      { intros i s H. pose proof (ext_type_id_keeps c name i s H) as G. rewrite E in G. exact G. }
      assert (P' : forall s, In s (acc ++ [mkXsec name id (wrows cs l)]) -> ext_type_str c' (xs_id s) = Some (xs_name s)).
      { intros s Hs. apply in_app_or in Hs. destruct Hs as [Hs|[<-|[]]]; [apply K, P, Hs|exact T']. }
      destruct (IH c' _ X' P') as (A1 & A2 & A3 & news & A4 & A5).
      split; [exact A1|]. split; [intros i s H; apply A2, K, H|]. split; [exact A3|].
      exists (mkXsec name id (wrows cs l) :: news). split; [rewrite A4, <- app_assoc; reflexivity|].
      constructor; [split; reflexivity|exact A5].
    + assert (Ew : write_sec c name cs l acc = (c, acc)) by (unfold write_sec; rewrite B; reflexivity).
      rewrite Ew.
      destruct (IH c acc X P) as (A1 & A2 & A3 & news & A4 & A5).
      split; [exact A1|]. split; [exact A2|]. split; [exact A3|]. exists news. split; [exact A4|exact A5].
Qed.

Lemma Forall2_names news sps : Forall2 sec_of news sps -> map xs_name news = map sp_name sps.
Proof. induction 1 as [|s sp r rs [H _] _ IH]; cbn; [reflexivity|]. rewrite H, IH. reflexivity. Qed.

(* read(): the headers in file order, each registered with set_extension_string_ID *)
Definition known_name (n : Z) : Prop := n = XS_TRIGGERS \/ n = XS_LABELSET \/ n = XS_LABELINC.

Definition find_sec (n : Z) (secs : list xsec) : option xsec := find (fun s => xs_name s =? n) secs.

Lemma existsb_eqb_false x l : ~ In x l -> existsb (Z.eqb x) l = false.
Proof.
  intro N. destruct (existsb (Z.eqb x) l) eqn:E; [|reflexivity].
  apply existsb_exists in E. destruct E as (y & Hy & Ey). apply Z.eqb_eq in Ey. subst. contradiction.
Qed.

Lemma find_sec_none n secs : ~ In n (map xs_name secs) -> find_sec n secs = None.
Proof.
  induction secs as [|s r IH]; cbn; intro N; [reflexivity|].
  destruct (xs_name s =? n) eqn:E; [apply Z.eqb_eq in E; exfalso; apply N; left; exact E|].
  apply IH. intro H. apply N. right. exact H.
Qed.

Lemma read_secs_spec : forall secs cs,
  NoDup (map xs_name secs) -> NoDup (map xs_id secs) -> Forall (fun s => known_name (xs_name s)) secs ->
  (forall s, In s secs -> ~ In (xs_name s) (ext_str cs) /\ ~ In (xs_id s) (ext_num cs)) ->
  exists c', fold_left read_sec secs (Some cs) = Some c' /\
    ext_num c' = ext_num cs ++ map xs_id secs /\ ext_str c' = ext_str cs ++ map xs_name secs /\
    ext_l c' = ext_l cs /\
    trig_l c' = match find_sec XS_TRIGGERS secs with
                | Some s => lib_of_rows (trig_l cs) (map (read_row sec_trig) (xs_rows s)) | None => trig_l cs end /\
    lset_l c' = match find_sec XS_LABELSET secs with
                | Some s => lib_of_rows lib_empty (map (read_row sec_lset) (xs_rows s)) | None => lset_l cs end /\
    linc_l c' = match find_sec XS_LABELINC secs with
                | Some s => lib_of_rows lib_empty (map (read_row sec_linc) (xs_rows s)) | None => linc_l cs end.
Proof.
  induction secs as [|s r IH]; intros cs Nn Ni Kn Fr.
  - exists cs. cbn. rewrite !app_nil_r. repeat split; reflexivity.
  - cbn [fold_left map] in *. inversion Nn as [|? ? Hn Nn']. inversion Ni as [|? ? Hi Ni']. inversion Kn as [|? ? Ks Kr]. subst.
    destruct (Fr s (or_introl eq_refl)) as [Fs Fi].
    unfold read_sec at 2. unfold set_ext_string_id.
    rewrite (existsb_eqb_false _ _ Fs), (existsb_eqb_false _ _ Fi). cbn [orb].
    set (c1 := cs <| ext_num := ext_num cs ++ [xs_id s] |> <| ext_str := ext_str cs ++ [xs_name s] |>).
    set (c2 := if xs_name s =? XS_TRIGGERS
               then c1 <| trig_l := lib_of_rows (trig_l c1) (map (read_row (cols_of (xs_name s))) (xs_rows s)) |>
               else if xs_name s =? XS_LABELSET
                    then c1 <| lset_l := lib_of_rows lib_empty (map (read_row (cols_of (xs_name s))) (xs_rows s)) |>
                    else c1 <| linc_l := lib_of_rows lib_empty (map (read_row (cols_of (xs_name s))) (xs_rows s)) |>).
    assert (T2 : ext_num c2 = ext_num cs ++ [xs_id s] /\ ext_str c2 = ext_str cs ++ [xs_name s] /\ ext_l c2 = ext_l cs).
    { unfold c2. destruct (xs_name s =? XS_TRIGGERS); [repeat split|]. destruct (xs_name s =? XS_LABELSET); repeat split. }
    destruct T2 as (T2a & T2b & T2c).
    destruct (IH c2 Nn' Ni' Kr) as (c' & R1 & R2 & R3 & R4 & R5 & R6 & R7).
    { intros s' Hs'. rewrite T2a, T2b. split; intro H; apply in_app_or in H; destruct H as [H|[H|[]]].
      - exact (proj1 (Fr s' (or_intror Hs')) H).
      - apply Hn. rewrite H. apply in_map. exact Hs'.
      - exact (proj2 (Fr s' (or_intror Hs')) H).
      - apply Hi. rewrite H. apply in_map. exact Hs'. }
    exists c'. split; [exact R1|]. rewrite R2, R3, R4, T2a, T2b, T2c, <- !app_assoc. cbn [app].
    split; [reflexivity|]. split; [reflexivity|]. split; [reflexivity|].
    unfold find_sec in *. cbn [find].
    destruct Ks as [Ks|[Ks|Ks]]; rewrite Ks in *.
    + (* TRIGGERS *)
      change (XS_TRIGGERS =? XS_TRIGGERS) with true. change (XS_TRIGGERS =? XS_LABELSET) with false.
      change (XS_TRIGGERS =? XS_LABELINC) with false. cbv iota.
      fold (find_sec XS_TRIGGERS r) in R5. rewrite (find_sec_none _ _ Hn) in R5.
      rewrite R5, R6, R7. unfold c2. rewrite Ks. change (XS_TRIGGERS =? XS_TRIGGERS) with true. cbv iota.
      unfold cols_of. change (XS_TRIGGERS =? XS_TRIGGERS) with true. cbv iota. repeat split.
    + (* LABELSET *)
      change (XS_LABELSET =? XS_TRIGGERS) with false. change (XS_LABELSET =? XS_LABELSET) with true.
      change (XS_LABELSET =? XS_LABELINC) with false. cbv iota.
      fold (find_sec XS_LABELSET r) in R6. rewrite (find_sec_none _ _ Hn) in R6.
      rewrite R5, R6, R7. unfold c2. rewrite Ks. change (XS_LABELSET =? XS_TRIGGERS) with false.
      change (XS_LABELSET =? XS_LABELSET) with true. cbv iota.
      unfold cols_of. change (XS_LABELSET =? XS_TRIGGERS) with false. change (XS_LABELSET =? XS_LABELSET) with true.
      cbv iota. repeat split.
    + (* LABELINC *)
      change (XS_LABELINC =? XS_TRIGGERS) with false. change (XS_LABELINC =? XS_LABELSET) with false.
      change (XS_LABELINC =? XS_LABELINC) with true. cbv iota.
      fold (find_sec XS_LABELINC r) in R7. rewrite (find_sec_none _ _ Hn) in R7.
      rewrite R5, R6, R7. unfold c2. rewrite Ks. change (XS_LABELINC =? XS_TRIGGERS) with false.
      change (XS_LABELINC =? XS_LABELSET) with false. cbv iota.
      unfold cols_of. change (XS_LABELINC =? XS_TRIGGERS) with false. change (XS_LABELINC =? XS_LABELSET) with false.
      cbv iota. repeat split.
Qed.

Lemma NoDup_map_filter {A B} (f : A -> B) (p : A -> bool) l : NoDup (map f l) -> NoDup (map f (filter p l)).
Proof.
  induction l as [|x r IH]; cbn; intro H; [constructor|]. inversion H as [|? ? Hn Hr]. subst.
  destruct (p x); cbn; [constructor|]; [|apply IH; exact Hr|apply IH; exact Hr].
  intro Hin. apply Hn. apply in_map_iff in Hin. destruct Hin as (y & Ey & Hy). apply filter_In in Hy.
  rewrite <- Ey. apply in_map. apply Hy.
Qed.

Lemma ids_nodup (F : Z -> option Z) (l : list xsec) :
  (forall s, In s l -> F (xs_id s) = Some (xs_name s)) -> NoDup (map xs_name l) -> NoDup (map xs_id l).
Proof.
  induction l as [|s r IH]; cbn; intros H Nn; [constructor|]. inversion Nn as [|? ? Hn Nr]. subst.
  constructor; [|apply IH; [intros s' Hs'; apply H; right; exact Hs'|exact Nr]].
  intro Hin. apply in_map_iff in Hin. destruct Hin as (s' & Ei & Hs').
  pose proof (H s (or_introl eq_refl)) as H1. pose proof (H s' (or_intror Hs')) as H2. rewrite Ei in H2.
  apply Hn. assert (xs_name s = xs_name s') by congruence. rewrite H0. apply in_map. exact Hs'.
Qed.

Lemma Forall2_In_l {A B} (R : A -> B -> Prop) l l' x : Forall2 R l l' -> In x l -> exists y, In y l' /\ R x y.
Proof.
  induction 1 as [|a b r r' Hab _ IH]; intro H; [destruct H|].
  destruct H as [<-|H]; [exists b; split; [left; reflexivity|exact Hab]|].
  destruct (IH H) as (y & Hy & Ry). exists y. split; [right; exact Hy|exact Ry].
Qed.

Lemma Forall2_In_r' {A B} (R : A -> B -> Prop) l l' y : Forall2 R l l' -> In y l' -> exists x, In x l /\ R x y.
Proof.
  induction 1 as [|a b r r' Hab _ IH]; intro H; [destruct H|].
  destruct H as [<-|H]; [exists a; split; [left; reflexivity|exact Hab]|].
  destruct (IH H) as (x & Hx & Rx). exists x. split; [right; exact Hx|exact Rx].
Qed.

(* lookup in a table read from headers with pairwise different numbers *)
Lemma table_lookup c' (l : list xsec) sec :
  ext_num c' = map xs_id l -> ext_str c' = map xs_name l -> NoDup (map xs_id l) -> In sec l ->
  ext_type_str c' (xs_id sec) = Some (xs_name sec).
Proof.
  intros En Es Nd Hin. destruct (In_nth_error _ _ Hin) as [n Hn].
  unfold ext_type_str. rewrite En, Es.
  rewrite (index_of_nodup _ Nd n (xs_id sec)); [|apply map_nth_error; exact Hn].
  apply map_nth_error. exact Hn.
Qed.

Definition lib_for (c : core) (s : Z) : bool :=
  if s =? XS_TRIGGERS then nonempty (trig_l c) else if s =? XS_LABELSET then nonempty (lset_l c)
  else if s =? XS_LABELINC then nonempty (linc_l c) else false.

Lemma spec_by_name c sp :
  In sp (sec_specs c) ->
  (sp_name sp = XS_TRIGGERS -> sp = (XS_TRIGGERS, sec_trig, trig_l c)) /\
  (sp_name sp = XS_LABELSET -> sp = (XS_LABELSET, sec_lset, lset_l c)) /\
  (sp_name sp = XS_LABELINC -> sp = (XS_LABELINC, sec_linc, linc_l c)) /\ known_name (sp_name sp).
Proof.
  unfold sec_specs. intros [<-|[<-|[<-|[]]]]; unfold sp_name, known_name; cbn [fst];
    repeat split; try discriminate; auto.
Qed.

Lemma wrows_empty cs (l : klib) : nonempty l = false -> wrows cs l = [].
Proof. unfold nonempty, wrows, lib_rows. destruct (ldata l); [reflexivity|discriminate]. Qed.

(* one library through its section: found -> rebuilt from its own rows; not found -> it was empty *)
Lemma sec_lib_spec c news n cs (l : klib) base :
  Forall2 sec_of news (filter sp_ne (sec_specs c)) -> In (n, cs, l) (sec_specs c) ->
  (forall sp, In sp (sec_specs c) -> sp_name sp = n -> sp = (n, cs, l)) ->
  match find_sec n news with
  | Some s => lib_of_rows lib_empty (map (read_row cs) (xs_rows s))
  | None => base
  end = if nonempty l then lib_of_rows lib_empty (map (read_row cs) (wrows cs l)) else base.
Proof.
  intros F Hin Uq. destruct (find_sec n news) as [s|] eqn:E.
  - unfold find_sec in E. apply find_some in E. destruct E as [Hs En]. apply Z.eqb_eq in En.
    destruct (Forall2_In_l _ _ _ _ F Hs) as (sp & Hsp & [Hn Hr]).
    apply filter_In in Hsp. destruct Hsp as [Hsp Hne].
    assert (sp = (n, cs, l)) by (apply Uq; [exact Hsp|congruence]). subst sp.
    unfold sp_ne, sp_lib in Hne. cbn [snd] in Hne. rewrite Hne. rewrite Hr. reflexivity.
  - destruct (nonempty l) eqn:B; [|reflexivity]. exfalso.
    assert (Hf : In (n, cs, l) (filter sp_ne (sec_specs c))) by (apply filter_In; split; [exact Hin|exact B]).
    destruct (Forall2_In_r' _ _ _ _ F Hf) as (s & Hs & [Hn _]).
    unfold find_sec in E. pose proof (find_none _ _ E s Hs) as X. cbn in X. unfold sp_name in Hn. cbn [fst] in Hn.
    rewrite Hn, Z.eqb_refl in X. discriminate.
Qed.

(* ---- the store after write + read of its extension part ------------------------------------------------ *)
Theorem reread_ext_spec : forall c0 c, xt_inv c ->
  exists c', reread_ext c0 c = Some c' /\
    ext_l c' = (if nonempty (ext_l c) then lib_of_rows lib_empty (map (read_row sec_ext) (wrows sec_ext (ext_l c)))
                else if read_resets_ext_library then lib_empty else ext_l c0) /\
    trig_l c' = lib_of_rows lib_empty (map (read_row sec_trig) (wrows sec_trig (trig_l c))) /\
    lset_l c' = lib_of_rows lib_empty (map (read_row sec_lset) (wrows sec_lset (lset_l c))) /\
    linc_l c' = lib_of_rows lib_empty (map (read_row sec_linc) (wrows sec_linc (linc_l c))) /\
    (forall ty s, ext_type_str c ty = Some s -> lib_for c s = true -> ext_type_str c' ty = Some s) /\
    NoDup (ext_num c') /\ NoDup (ext_str c') /\ length (ext_num c') = length (ext_str c').
Proof.
  intros c0 c X. unfold reread_ext, write_ext. cbn [snd fst].
  fold (wfold (sec_specs c) (c, [])).
  destruct (write_secs_spec (sec_specs c) c [] X) as (Xw & Kw & Pw & news & En & F); [intros s []|].
  cbn [app] in En. set (r := wfold (sec_specs c) (c, [])) in *. rewrite En in *. clear En.
  unfold read_ext, read_ext_gen. cbn [x_ext x_secs].
  set (c1 := c0 <| trig_l := lib_empty |> <| lset_l := lib_empty |> <| linc_l := lib_empty |>
                <| ext_num := [] |> <| ext_str := [] |>).
  set (c1' := if read_resets_ext_library then c1 <| ext_l := lib_empty |> else c1).
  set (c2 := match (if nonempty (ext_l c) then Some (wrows sec_ext (ext_l c)) else None) with
             | Some rows => c1' <| ext_l := lib_of_rows lib_empty (map (read_row sec_ext) rows) |>
             | None => c1' end).
  assert (C2 : ext_num c2 = [] /\ ext_str c2 = [] /\ trig_l c2 = lib_empty /\ lset_l c2 = lib_empty /\
               linc_l c2 = lib_empty /\
               ext_l c2 = (if nonempty (ext_l c) then lib_of_rows lib_empty (map (read_row sec_ext) (wrows sec_ext (ext_l c)))
                           else if read_resets_ext_library then lib_empty else ext_l c0)).
  { unfold c2, c1'. destruct (nonempty (ext_l c)); destruct read_resets_ext_library; repeat split. }
  destruct C2 as (C2a & C2b & C2c & C2d & C2e & C2f).
  pose proof (Forall2_names _ _ F) as Nm.
  assert (NdS : NoDup (map sp_name (sec_specs c))) by (unfold sec_specs, sp_name; cbn; repeat constructor; cbn; intuition discriminate).
  assert (Nn : NoDup (map xs_name news)) by (rewrite Nm; apply NoDup_map_filter; exact NdS).
  assert (Ni : NoDup (map xs_id news)) by (apply (ids_nodup (ext_type_str (fst r))); [exact Pw|exact Nn]).
  assert (Kn : Forall (fun s => known_name (xs_name s)) news).
  { apply Forall_forall. intros s Hs. destruct (Forall2_In_l _ _ _ _ F Hs) as (sp & Hsp & [Hn _]).
    apply filter_In in Hsp. rewrite Hn. apply (spec_by_name c sp (proj1 Hsp)). }
  destruct (read_secs_spec news c2 Nn Ni Kn) as (c' & R1 & R2 & R3 & R4 & R5 & R6 & R7).
  { intros s _. rewrite C2a, C2b. split; intros []. }
  rewrite C2a in R2. rewrite C2b in R3. cbn [app] in R2, R3.
  exists c'. split; [exact R1|]. split; [rewrite R4; exact C2f|].
  assert (InT : In (XS_TRIGGERS, sec_trig, trig_l c) (sec_specs c)) by (left; reflexivity).
  assert (InS : In (XS_LABELSET, sec_lset, lset_l c) (sec_specs c)) by (right; left; reflexivity).
  assert (InI : In (XS_LABELINC, sec_linc, linc_l c) (sec_specs c)) by (right; right; left; reflexivity).
  split; [|split; [|split]].
  - rewrite R5, C2c.
    rewrite (sec_lib_spec c news XS_TRIGGERS sec_trig (trig_l c) lib_empty F InT); [|intros sp Hs Hn; apply (spec_by_name c sp Hs); exact Hn].
    destruct (nonempty (trig_l c)) eqn:B; [reflexivity|]. rewrite (wrows_empty _ _ B). reflexivity.
  - rewrite R6, C2d.
    rewrite (sec_lib_spec c news XS_LABELSET sec_lset (lset_l c) lib_empty F InS); [|intros sp Hs Hn; apply (spec_by_name c sp Hs); exact Hn].
    destruct (nonempty (lset_l c)) eqn:B; [reflexivity|]. rewrite (wrows_empty _ _ B). reflexivity.
  - rewrite R7, C2e.
    rewrite (sec_lib_spec c news XS_LABELINC sec_linc (linc_l c) lib_empty F InI); [|intros sp Hs Hn; apply (spec_by_name c sp Hs); exact Hn].
    destruct (nonempty (linc_l c)) eqn:B; [reflexivity|]. rewrite (wrows_empty _ _ B). reflexivity.
  - split; [|split; [rewrite R2; exact Ni|split; [rewrite R3; exact Nn|rewrite R2, R3, !map_length; reflexivity]]].
    intros ty s Hty Hl.
    (* the spec of s is among the written ones *)
    assert (Hsp : exists sp, In sp (filter sp_ne (sec_specs c)) /\ sp_name sp = s).
    { unfold lib_for in Hl.
      destruct (s =? XS_TRIGGERS) eqn:E1; [apply Z.eqb_eq in E1; subst; eexists; split; [apply filter_In; split; [exact InT|exact Hl]|reflexivity]|].
      destruct (s =? XS_LABELSET) eqn:E2; [apply Z.eqb_eq in E2; subst; eexists; split; [apply filter_In; split; [exact InS|exact Hl]|reflexivity]|].
      destruct (s =? XS_LABELINC) eqn:E3; [apply Z.eqb_eq in E3; subst; eexists; split; [apply filter_In; split; [exact InI|exact Hl]|reflexivity]|discriminate]. }
    destruct Hsp as (sp & Hsp & Hn).
    destruct (Forall2_In_r' _ _ _ _ F Hsp) as (sec & Hsec & [Hsn _]).
    pose proof (Pw sec Hsec) as P1. rewrite Hsn, Hn in P1.
    pose proof (Kw ty s Hty) as P2.
    pose proof (ext_type_id_known (fst r) _ _ Xw P1) as Q1. pose proof (ext_type_id_known (fst r) _ _ Xw P2) as Q2.
    assert (Eid : xs_id sec = ty) by congruence.
    pose proof (table_lookup c' news sec R2 R3 Ni Hsec) as T. rewrite Eid, Hsn, Hn in T. exact T.
Qed.

(* ================================================================================================ *)
(* D. get_block and evaluate_labels on the re-read store                                             *)
(* ================================================================================================ *)
(* what write() needs of the store: ids unique and non-zero, extension rows well formed, trigger rows
   (type, channel, delay, duration) with integer codes, label rows (integer value, label id) *)
Definition file_ready (c : core) : Prop :=
  xt_inv c /\ ext_wf (ext_l c) /\ ids_ok (ext_l c) /\ ids_ok (trig_l c) /\ ids_ok (lset_l c) /\ ids_ok (linc_l c) /\
  trig_rows (trig_l c) /\ int_rows 2 (lset_l c) /\ int_rows 2 (linc_l c).

Lemma In_aget_nodup {V} (l : list (Z * V)) id v : NoDup (akeys l) -> In (id, v) l -> aget Z.eqb l id = Some v.
Proof.
  induction l as [|[i w] r IH]; cbn; intros Nd H; [destruct H|]. inversion Nd as [|? ? Hn Hr]. subst.
  destruct H as [H|H].
  - inversion H. subst. rewrite Z.eqb_refl. reflexivity.
  - destruct (i =? id) eqn:E; [|apply IH; assumption].
    apply Z.eqb_eq in E. subst. exfalso. apply Hn. apply (in_map fst) in H. exact H.
Qed.

Lemma ext_rows_int (l : klib) : ext_wf l -> ids_ok l -> int_rows 3 l.
Proof.
  intros (_ & W1 & _) [Nd _]. unfold int_rows. apply Forall_forall. intros [id k] Hin. cbn [snd].
  pose proof (In_aget_nodup _ _ _ Nd Hin) as G. destruct (W1 id k G) as (_ & ty & ref & nx & -> & _).
  split; [reflexivity|]. unfold ext_row. repeat constructor; eexists; reflexivity.
Qed.

Lemma option_map_id {A} (o : option A) : option_map (fun k => k) o = o.
Proof. destruct o; reflexivity. Qed.

(* file_roundtrip_ext: reading what was written gives back the same extension rows, the same label rows,
   the trigger rows with delay/duration in whole microseconds, and the same number <-> name mapping for every
   extension kind that has events *)
Theorem file_roundtrip_ext : forall c0 c, file_ready c -> (read_resets_ext_library = false -> ext_l c0 = lib_empty) ->
  exists c', reread_ext c0 c = Some c' /\
    (forall id, lib_get (ext_l c') id = lib_get (ext_l c) id) /\
    (forall id, lib_get (lset_l c') id = lib_get (lset_l c) id) /\
    (forall id, lib_get (linc_l c') id = lib_get (linc_l c) id) /\
    (forall id, lib_get (trig_l c') id = option_map file_trig_row (lib_get (trig_l c) id)) /\
    (forall ty s, ext_type_str c ty = Some s -> lib_for c s = true -> ext_type_str c' ty = Some s) /\
    xt_inv c'.
Proof.
  intros c0 c (X & W & Ie & It & Is & Ii & Rt & Rs & Ri) E0.
  destruct (reread_ext_spec c0 c X) as (c' & R & Le & Lt & Ls & Li & Ty & N1 & N2 & N3).
  destruct unit_tables as (U1 & U2 & U3).
  exists c'. split; [exact R|]. split; [|split; [|split; [|split; [|split]]]].
  - intro id. rewrite Le. destruct (nonempty (ext_l c)) eqn:B.
    + rewrite (reread_unit_lib sec_ext (ext_l c) 3 U1 eq_refl (ext_rows_int _ W Ie)).
      rewrite (rebuild_get _ _ _ Ie). apply option_map_id.
    + rewrite (empty_get _ id B). destruct read_resets_ext_library; [reflexivity|rewrite (E0 eq_refl); reflexivity].
  - intro id. rewrite Ls, (reread_unit_lib sec_lset (lset_l c) 2 U2 eq_refl Rs), (rebuild_get _ _ _ Is).
    apply option_map_id.
  - intro id. rewrite Li, (reread_unit_lib sec_linc (linc_l c) 2 U3 eq_refl Ri), (rebuild_get _ _ _ Ii).
    apply option_map_id.
  - intro id. rewrite Lt, (reread_trig_lib _ Rt). apply rebuild_get. exact It.
  - exact Ty.
  - split; [exact N1|split; [exact N3|exact N2]].
Qed.

Lemma ext_list_ext (l l' : klib) : (forall id, lib_get l' id = lib_get l id) ->
  forall f eid, ext_list l' f eid = ext_list l f eid.
Proof.
  intro H. induction f as [|f IH]; intro eid; rewrite !ext_list_unfold; [reflexivity|].
  destruct (eid =? 0); [reflexivity|]. rewrite H. destruct (lib_get l eid); [|reflexivity]. rewrite IH. reflexivity.
Qed.

Lemma map_opt_map {A B} (f g : A -> option B) (h : B -> B) l :
  (forall x y, f x = Some y -> g x = Some (h y)) ->
  forall r, map_opt f l = Some r -> map_opt g l = Some (map h r).
Proof.
  intro M. induction l as [|x t IH]; cbn; intros r H; [inversion H; reflexivity|].
  destruct (f x) as [y|] eqn:E; [|discriminate]. rewrite (M _ _ E).
  destruct (map_opt f t) as [s|]; [|discriminate]. rewrite (IH s eq_refl). inversion H. reflexivity.
Qed.

Lemma get_nonempty (l : klib) id k : lib_get l id = Some k -> nonempty l = true.
Proof. unfold lib_get, nonempty. destruct (ldata l); [discriminate|reflexivity]. Qed.

(* get_block's chain walk on the re-read store returns the same entries, triggers in whole microseconds *)
Theorem dec_ext_reread : forall c0 c c', file_ready c -> (read_resets_ext_library = false -> ext_l c0 = lib_empty) ->
  reread_ext c0 c = Some c' ->
  forall f eid r, dec_ext c f eid = Some r -> dec_ext c' f eid = Some (map file_payload r).
Proof.
  intros c0 c c' FR E0 R f eid r H.
  destruct (file_roundtrip_ext c0 c FR E0) as (c'' & R' & Ge & Gs & Gi & Gt & Ty & _).
  rewrite R in R'. inversion R'. subst c''. clear R'.
  rewrite dec_ext_via_list in *. rewrite (ext_list_ext _ _ Ge).
  destruct (ext_list (ext_l c) f eid) as [xs|]; [|discriminate].
  apply (map_opt_map (ext_payload c) (ext_payload c') file_payload); [|exact H].
  intros [ty ref] [s p] Hx. unfold ext_payload in *. cbn [fst snd] in *.
  destruct (ext_type_str c ty) as [s'|] eqn:Es; [|discriminate].
  unfold file_payload. cbn [fst snd].
  destruct (s' =? XS_TRIGGERS) eqn:E1.
  - destruct (lib_get (trig_l c) ref) as [q|] eqn:G; [|discriminate]. inversion Hx. subst s p.
    rewrite (Ty ty s' Es); [|unfold lib_for; rewrite E1; exact (get_nonempty _ _ _ G)].
    rewrite E1, Gt, G. reflexivity.
  - destruct (s' =? XS_LABELSET) eqn:E2.
    + destruct (lib_get (lset_l c) ref) as [q|] eqn:G; [|discriminate]. inversion Hx. subst s p.
      rewrite (Ty ty s' Es); [|unfold lib_for; rewrite E1, E2; exact (get_nonempty _ _ _ G)].
      rewrite E1, E2, Gs, G. reflexivity.
    + destruct (s' =? XS_LABELINC) eqn:E3; [|discriminate].
      destruct (lib_get (linc_l c) ref) as [q|] eqn:G; [|discriminate]. inversion Hx. subst s p.
      rewrite (Ty ty s' Es); [|unfold lib_for; rewrite E1, E2, E3; exact (get_nonempty _ _ _ G)].
      rewrite E1, E2, E3, Gi, G. reflexivity.
Qed.

Lemma labels_file_payload r : labels_of_ext (map file_payload r) = labels_of_ext r.
Proof.
  unfold labels_of_ext. f_equal. induction r as [|[s p] t IH]; [reflexivity|]. cbn [map filter_map].
  rewrite IH. unfold file_payload, lop_of_ext. cbn [fst snd].
  destruct (s =? XS_TRIGGERS) eqn:E; [|reflexivity]. apply Z.eqb_eq in E. subst s. reflexivity.
Qed.

Lemma trigs_file_payload r : trigs_of_ext (map file_payload r) = map file_trig_row (trigs_of_ext r).
Proof.
  unfold trigs_of_ext. induction r as [|[s p] t IH]; [reflexivity|]. cbn [map filter_map].
  assert (Ef : fst (file_payload (s, p)) = s) by (unfold file_payload; cbn [fst]; destruct (s =? XS_TRIGGERS); reflexivity).
  rewrite Ef. cbn [fst snd]. destruct (s =? XS_TRIGGERS) eqn:E.
  - cbn [map]. rewrite IH. f_equal. unfold file_payload. cbn [fst snd]. rewrite E. reflexivity.
  - exact IH.
Qed.

(* any successful walk also succeeds with the standard fuel *)
Lemma dec_ext_std c f eid r :
  dec_ext c f eid = Some r -> dec_ext c (S (length (ldata (ext_l c)))) eid = Some r.
Proof.
  intro H. pose proof (dec_ext_bound c c f eid r (core_le_refl c) H) as Hb.
  eapply (dec_ext_mono c c (core_le_refl c)); [|apply (dec_ext_len c _ _ _ H)]. lia.
Qed.

(* the label program evaluate_labels runs over, read off the block table: labels of each block in
   get_block order and whether the block has an ADC *)
Definition row_lblock (c : core) (i : Z) : option lblock :=
  match aget Z.eqb (blocks c) i, stored_ext c i with
  | Some row, Some ext => Some (mkLBlock (labels_of_ext ext) (0 <? nth 5 row 0))
  | _, _ => None
  end.
Definition table_lblocks (c : core) : option (list lblock) := map_opt (row_lblock c) (akeys (blocks c)).

Lemma decode_row_lblock c i b : decode c i = Some b -> row_lblock c i = Some (lblock_of b).
Proof.
  intro H. unfold row_lblock. rewrite (decode_ext_is_stored c i b H).
  unfold decode in H. destruct (aget Z.eqb (blocks c) i) as [ev|]; cbn [opt_bind] in H; [|discriminate].
  destruct (dec_rf c (nth 1 ev 0)) as [rf|]; cbn [opt_bind] in H; [|discriminate].
  destruct (dec_grad c (nth 2 ev 0)) as [gx|]; cbn [opt_bind] in H; [|discriminate].
  destruct (dec_grad c (nth 3 ev 0)) as [gy|]; cbn [opt_bind] in H; [|discriminate].
  destruct (dec_grad c (nth 4 ev 0)) as [gz|]; cbn [opt_bind] in H; [|discriminate].
  destruct (dec_adc c (nth 5 ev 0)) as [adc|] eqn:Ea; cbn [opt_bind] in H; [|discriminate].
  destruct (if 0 <? nth 6 ev 0 then dec_ext c (S (length (ldata (ext_l c)))) (nth 6 ev 0) else Some []) as [ext|];
    cbn [opt_bind] in H; [|discriminate].
  destruct (aget Z.eqb (durs c) i) as [d|]; cbn [opt_bind] in H; [|discriminate].
  inversion H. subst b. unfold lblock_of. cbn [d_ext d_adc]. f_equal. f_equal.
  unfold dec_adc in Ea. destruct (nth 5 ev 0 <=? 0) eqn:E.
  - inversion Ea. apply Z.leb_le in E. destruct (0 <? nth 5 ev 0) eqn:L; [apply Z.ltb_lt in L; lia|reflexivity].
  - destruct (lib_get (adc_l c) (nth 5 ev 0)); cbn [opt_bind] in Ea; [|discriminate]. inversion Ea.
    apply Z.leb_gt in E. destruct (0 <? nth 5 ev 0) eqn:L; [reflexivity|apply Z.ltb_ge in L; lia].
Qed.

Theorem store_table_lblocks : forall c bs, store_lblocks c = Some bs -> table_lblocks c = Some bs.
Proof.
  intros c. unfold store_lblocks, table_lblocks. generalize (akeys (blocks c)) as ks.
  induction ks as [|i r IH]; cbn [map_opt]; intros bs H; [exact H|].
  destruct (decode c i) as [b|] eqn:D; cbn [option_map] in H; [|discriminate].
  rewrite (decode_row_lblock c i b D).
  destruct (map_opt (fun i0 => option_map lblock_of (decode c i0)) r) as [s|]; [|discriminate].
  rewrite (IH s eq_refl). exact H.
Qed.

(* the same label program after write + read (the [BLOCKS] rows are integers and come back as they are:
   C01): evaluate_labels of the re-read sequence sees exactly the blocks it saw before *)
Theorem table_lblocks_reread : forall c0 c c' bs,
  file_ready c -> (read_resets_ext_library = false -> ext_l c0 = lib_empty) -> reread_ext c0 c = Some c' ->
  table_lblocks c = Some bs -> blocks c' = blocks c -> table_lblocks c' = Some bs.
Proof.
  intros c0 c c' bs FR E0 R H Eb. unfold table_lblocks in *. rewrite Eb.
  revert bs H. generalize (akeys (blocks c)) as ks. induction ks as [|i r IH]; cbn [map_opt]; intros bs H; [exact H|].
  destruct (row_lblock c i) as [b|] eqn:Rb; [|discriminate].
  assert (Rb' : row_lblock c' i = Some b).
  { unfold row_lblock, stored_ext in *. rewrite Eb. destruct (aget Z.eqb (blocks c) i) as [row|]; [|discriminate].
    destruct (0 <? nth 6 row 0); [|exact Rb].
    destruct (dec_ext c (S (length (ldata (ext_l c)))) (nth 6 row 0)) as [ext|] eqn:D; [|discriminate].
    pose proof (dec_ext_reread c0 c c' FR E0 R _ _ _ D) as D'.
    rewrite (dec_ext_std c' _ _ _ D'). rewrite labels_file_payload. exact Rb. }
  rewrite Rb'. destruct (map_opt (row_lblock c) r) as [s|]; [|discriminate]. rewrite (IH s eq_refl). exact H.
Qed.

(* evaluate_labels over the block table; equal to the evaluation through get_block whenever every
   get_block succeeds, and unchanged by write + read *)
Definition eval_table (c : core) (init : env) (m : emode) : option (list (Z * list Z) * bool) :=
  option_map (evaluate_labels init m) (table_lblocks c).

Theorem eval_store_is_eval_table : forall c init m x, eval_store c init m = Some x -> eval_table c init m = Some x.
Proof.
  intros c init m x H. unfold eval_store, eval_table in *.
  destruct (store_lblocks c) as [bs|] eqn:E; [|discriminate]. rewrite (store_table_lblocks c bs E). exact H.
Qed.

Theorem eval_labels_reread : forall c0 c c' init m x,
  file_ready c -> (read_resets_ext_library = false -> ext_l c0 = lib_empty) -> reread_ext c0 c = Some c' ->
  blocks c' = blocks c ->
  eval_table c init m = Some x -> eval_table c' init m = Some x.
Proof.
  intros c0 c c' init m x FR E0 R Eb H. unfold eval_table in *.
  destruct (table_lblocks c) as [bs|] eqn:E; [|discriminate].
  rewrite (table_lblocks_reread c0 c c' bs FR E0 R E Eb). exact H.
Qed.
