(* Proofs/AddGradLimits.v — limit tests and duration of add_gradients:
   * extended-trapezoid path: for inputs a block can hold, the call raises EXACTLY when the sum
     (the corner list on the common grid) exceeds max_grad + eps at a corner or max_slew (1 + eps)
     on a segment; when it returns, the result is within these limits at EVERY time;
   * duration = longest input duration on all three paths. *)
From Coq Require Import ZArith QArith Qabs List Bool Lia Lqa Setoid Morphisms Arith.
From PV Require Import Base.QUtil Base.PWL Gen.GenAddGrad Model.AddGrad Proofs.AddGradProofs
                       Proofs.AddGradRaster Proofs.AddGradLegal.
Import ListNotations.
Open Scope Q_scope.

(* ---------- max_absl ---------- *)
Lemma max_absl_le_iff l c : 0 <= c -> (max_absl l <= c <-> Forall (fun x => Qabs x <= c) l).
Proof.
  intro Hc. induction l as [|x l IH]; cbn [max_absl fold_right].
  - split; [constructor|intros _; exact Hc].
  - fold (max_absl l). rewrite Qmax_le_iff, IH. split.
    + intros [H1 H2]. constructor; assumption.
    + intro H. inversion H; subst. split; assumption.
Qed.

Lemma values_cons t v (p : pwl) : values ((t, v) :: p) = v :: values p.
Proof. reflexivity. Qed.

Lemma corner_bound_values G (p : pwl) : Forall (fun x => Qabs x <= G) (values p) <-> corner_bound G p.
Proof.
  unfold corner_bound. induction p as [|[t v] p IH]; [split; constructor|].
  rewrite values_cons. split; intro H; inversion H; subst; constructor; cbn [snd] in *; try assumption;
    apply IH; assumption.
Qed.

Lemma Qabs_div_pos' a b : 0 < b -> Qabs (a / b) == Qabs a / b.
Proof.
  intro H. unfold Qdiv. rewrite Qabs_Qmult. rewrite (Qabs_pos (/ b)); [reflexivity|].
  apply Qlt_le_weak. apply Qinv_lt_0_compat. exact H.
Qed.

Lemma div_le_iff a b S : 0 < b -> (Qabs (a / b) <= S <-> Qabs a <= S * b).
Proof.
  intro H. rewrite (Qabs_div_pos' a b H). split; intro H1.
  - assert (E : Qabs a == Qabs a / b * b) by (field; lra). rewrite E.
    apply Qmult_le_compat_r; lra.
  - apply Qle_shift_div_r; assumption.
Qed.

(* the slew list computed by make_extended_trapezoid (on tt = times - delay) against seg_bound *)
Lemma slew_forall S d (p : pwl) : sorted_strict (times p) ->
  (Forall (fun x => Qabs x <= S)
          (div_lists (diffs (values p)) (diffs (map (fun t => t - d) (times p)))) <-> seg_bound S p).
Proof.
  induction p as [|[t0 v0] r IH]; intro Hs; [split; [intros _; exact I|constructor]|].
  destruct r as [|[t1 v1] r]; [split; [intros _; exact I|constructor]|].
  pose proof Hs as Hs'. destruct Hs' as [H01 Hst]. cbn [fst] in H01.
  change (values ((t0, v0) :: (t1, v1) :: r)) with (v0 :: values ((t1, v1) :: r)).
  change (values ((t1, v1) :: r)) with (v1 :: values r) at 1.
  change (times ((t0, v0) :: (t1, v1) :: r)) with (t0 :: times ((t1, v1) :: r)).
  change (times ((t1, v1) :: r)) with (t1 :: times r) at 1.
  cbn [map diffs div_lists].
  change (v1 :: values r) with (values ((t1, v1) :: r)).
  change ((t1 - d) :: map (fun t => t - d) (times r)) with (map (fun t => t - d) (times ((t1, v1) :: r))).
  rewrite seg_bound_cons2, <- (IH Hst).
  assert (E : t1 - d - (t0 - d) == t1 - t0) by ring.
  split.
  - intro H. inversion H as [|x l Hx Hl]; subst. split; [|exact Hl].
    apply (div_le_iff _ (t1 - d - (t0 - d))) in Hx; [|lra]. rewrite E in Hx. exact Hx.
  - intros [Hx Hl]. constructor; [|exact Hl].
    apply (div_le_iff _ (t1 - d - (t0 - d))); [lra|]. rewrite E. exact Hx.
Qed.

Lemma div_lists_nonempty (p : pwl) d : (2 <= length p)%nat ->
  div_lists (diffs (values p)) (diffs (map (fun t => t - d) (times p))) <> [].
Proof. destruct p as [|[t0 v0] [|[t1 v1] r]]; cbn; try lia; discriminate. Qed.

Lemma corner_bound_dec G (p : pwl) : corner_bound G p \/ ~ corner_bound G p.
Proof.
  unfold corner_bound. induction p as [|[t v] p IH]; [left; constructor|].
  destruct (Qlt_le_dec G (Qabs v)) as [H|H].
  - right. intro Hc. inversion Hc; subst. cbn [snd] in *. lra.
  - destruct IH as [IH|IH]; [left; constructor; assumption|right].
    intro Hc. inversion Hc; subst. contradiction.
Qed.

Lemma seg_bound_dec S (p : pwl) : seg_bound S p \/ ~ seg_bound S p.
Proof.
  induction p as [|[t0 v0] r IH]; [left; exact I|].
  destruct r as [|[t1 v1] r]; [left; exact I|].
  rewrite seg_bound_cons2.
  destruct (Qlt_le_dec (S * (t1 - t0)) (Qabs (v1 - v0))) as [H|H]; [right; intros [H1 _]; lra|].
  destruct IH as [IH|IH]; [left; split; assumption|right; intros [_ H2]; contradiction].
Qed.

(* structural preconditions of make_extended_trapezoid other than the limits *)
Record Structural (s : sys) (p : pwl) : Prop := {
  st_len : (2 <= length p)%nat;
  st_sorted : sorted_strict (times p);
  st_raster : 0 < s_raster s;
  st_on : forall t, In t (times p) -> exists k : Z, t == inject_Z k * s_raster s;
  st_first : 0 < tfirst p -> vfirst p == 0 }.

Lemma on_raster_exact r t : 0 < r -> (exists k : Z, t == inject_Z k * r) -> on_raster r t = true.
Proof.
  intros Hr (k & Hk). unfold on_raster, Qgtb. rewrite (rnd_on_raster r t k Hr Hk).
  assert (E : inject_Z k * r - t == 0) by lra. rewrite E. reflexivity.
Qed.

Lemma sorted_diffs_pos l : sorted_strict l -> existsb (fun d => Qle_bool d 0) (diffs l) = false.
Proof.
  induction l as [|a l IH]; intro H; [reflexivity|]. destruct l as [|b l]; [reflexivity|].
  destruct H as [Hab Hs]. change (diffs (a :: b :: l)) with ((b - a) :: diffs (b :: l)).
  cbn [existsb]. rewrite (IH Hs), orb_false_r. apply Qleb_gt. lra.
Qed.

Lemma sorted_not_all_zero l : sorted_strict l -> (2 <= length l)%nat ->
  forallb (fun t => Qeq_bool t 0) l = false.
Proof.
  destruct l as [|a [|b l]]; cbn [length]; try lia. intros [Hab _] _. cbn [forallb].
  case_eqb a 0 Ea; [|reflexivity]. case_eqb b 0 Eb; [lra|reflexivity].
Qed.

Theorem make_ext_trap_raises_iff s mg ms p : Structural s p -> 0 <= mg -> 0 <= ms ->
  ((exists e, make_ext_trap s mg ms p = Err e) <->
   ~ (corner_bound (mg + eps) p /\ seg_bound (ms * (1 + eps)) p)).
Proof.
  intros Hst Hmg Hms. destruct Hst as [Hlen Hs Hr Hon Hfirst]. pose proof eps_pos as He.
  unfold make_ext_trap.
  rewrite (sorted_not_all_zero _ Hs) by (unfold times; rewrite map_length; exact Hlen).
  rewrite (sorted_diffs_pos _ Hs).
  assert (Hne : times p <> []) by (destruct p; [cbn in Hlen; lia|discriminate]).
  rewrite (on_raster_exact _ _ Hr (Hon _ (last_in _ 0 Hne))). cbn [negb].
  assert (Hchk : Qgtb (hd 0 (times p)) 0 && negb (Qeq_bool (hd 0 (values p)) 0) = false).
  { rewrite <- tfirst_times. replace (hd 0 (values p)) with (vfirst p) by (destruct p as [|[t v] p']; reflexivity).
    unfold Qgtb. case_ltb 0 (tfirst p) E; [|reflexivity].
    specialize (Hfirst E). apply Qeq_bool_iff in Hfirst. rewrite Hfirst. reflexivity. }
  rewrite Hchk.
  assert (Hall : forallb (on_raster (s_raster s)) (times p) = true).
  { apply forallb_forall. intros t Ht. apply on_raster_exact; [exact Hr|apply Hon; exact Ht]. }
  rewrite Hall. cbn [negb].
  set (delay := inject_Z (rnd_he (hd 0 (times p) / s_raster s)) * s_raster s).
  pose proof (div_lists_nonempty p delay Hlen) as Hd.
  destruct (div_lists (diffs (values p)) (diffs (map (fun t => t - delay) (times p)))) as [|x sl] eqn:Esl;
    [congruence|].
  assert (HS : 0 <= ms * (1 + eps)) by (apply Qmult_le_0_compat; lra).
  assert (HG : 0 <= mg + eps) by lra.
  pose proof (slew_forall (ms * (1 + eps)) delay p Hs) as Hsl. rewrite Esl in Hsl.
  pose proof (max_absl_le_iff (x :: sl) _ HS) as M1.
  pose proof (max_absl_le_iff (values p) _ HG) as M2.
  rewrite corner_bound_values in M2.
  unfold Qgtb.
  case_ltb (ms * (1 + eps)) (max_absl (x :: sl)) A1.
  { split; [|intros _; eexists; reflexivity]. intros _ [_ Hb].
    apply Hsl in Hb. apply M1 in Hb. lra. }
  case_ltb (mg + eps) (max_absl (values p)) A2.
  { split; [|intros _; eexists; reflexivity]. intros _ [Hc _]. apply M2 in Hc. lra. }
  split; [intros (e & He'); discriminate|].
  intro Hn. exfalso. apply Hn. split; [apply M2; exact A2|apply Hsl, M1; exact A1].
Qed.

(* when make_extended_trapezoid returns, its result is within the limits at every time *)
Theorem make_ext_trap_within_everywhere s mg ms p g : Structural s p -> 0 <= mg -> 0 <= ms ->
  make_ext_trap s mg ms p = OK g ->
  (forall t, Qabs (eval p t) <= mg + eps) /\
  (forall t u, inside p t -> inside p u -> Qabs (eval p t - eval p u) <= ms * (1 + eps) * Qabs (t - u)).
Proof.
  intros Hst Hmg Hms H. pose proof eps_pos as He.
  assert (Hn : ~ exists e, make_ext_trap s mg ms p = Err e) by (intros (e & E); congruence).
  rewrite (make_ext_trap_raises_iff s mg ms p Hst Hmg Hms) in Hn.
  assert (Hb : corner_bound (mg + eps) p /\ seg_bound (ms * (1 + eps)) p).
  { destruct (corner_bound_dec (mg + eps) p) as [A|A]; destruct (seg_bound_dec (ms * (1 + eps)) p) as [B|B];
      try (split; assumption); exfalso; apply Hn; tauto. }
  destruct Hb as [Hc Hsg].
  apply within_corners_implies_everywhere; [lra|apply (st_sorted _ _ Hst)|exact Hc|exact Hsg].
Qed.

(* ---------- extended-trapezoid path of add_gradients, inputs a block can hold ---------- *)
Lemma sum_eval_all_zero ps t : (forall p, In p ps -> eval p t == 0) -> sum_eval ps t == 0.
Proof.
  induction ps as [|p ps IH]; intro H; [reflexivity|].
  cbn [sum_eval fold_right]. fold (sum_eval ps t).
  rewrite (H p (or_introl eq_refl)), IH; [ring|]. intros q Hq. apply H. right. exact Hq.
Qed.

Lemma T0_in grads c : In c (T0 grads) -> exists g, In g grads /\ In c (grad_times g).
Proof. intro Hc. apply sort_uniq_in in Hc. apply in_flat_map in Hc. exact Hc. Qed.

Lemma to_pwl_sorted g : WF g -> sorted_strict (times (to_pwl g)).
Proof.
  intro H. apply (pwl_eq_sorted _ _ (pwl_eq_sym _ _ (to_pwl_corners g H))). apply corners_sorted. exact H.
Qed.

Lemma delay_in_T0 grads g : In g grads -> WF g -> InQ (g_delay g) (T0 grads).
Proof.
  intros Hg Hw.
  assert (H : InQ (g_delay g) (grad_times g)).
  { destruct g as [t|e]; cbn [g_delay grad_times].
    - exists (tr_delay t). split; [left; reflexivity|reflexivity].
    - destruct Hw as (_ & Hne & H0 & _). destruct (eg_tt e) as [|a l]; [congruence|].
      exists (eg_delay e + a). split; [left; reflexivity|]. cbn [hd] in H0. lra. }
  destruct H as (b & Hb & E).
  assert (Hb' : In b (flat_map grad_times grads)) by (apply in_flat_map; exists g; split; assumption).
  destruct (sort_uniq_InQ _ b Hb') as (b' & Hb'' & E'). exists b'. split; [exact Hb''|lra].
Qed.

Lemma legal_structural s D grads : C05Legal s D grads -> (2 <= length (T0 grads))%nat ->
  Structural s (ext_sum grads).
Proof.
  intros H Hlen. pose proof (c05_legal_inputs_ok s D grads H) as Hok.
  pose proof eps_pos as He. pose proof (cl_raster _ _ _ H) as Hr.
  assert (Ht : times (ext_sum grads) = T0 grads).
  { unfold ext_sum. rewrite times_psum_on. apply (ext_times_T0 s). exact Hok. }
  assert (Hs : sorted_strict (times (ext_sum grads))) by (rewrite Ht; apply sort_uniq_sorted).
  constructor.
  - rewrite <- Ht in Hlen. unfold times in Hlen. rewrite map_length in Hlen. exact Hlen.
  - exact Hs.
  - lra.
  - intros t Hin. rewrite Ht in Hin. destruct (T0_in _ _ Hin) as (g & Hg & Hc).
    apply (cl_on_raster _ _ _ H g t Hg Hc).
  - intro Hpos. rewrite <- (eval_at_first _ Hs). rewrite (ext_sum_eval s grads Hok).
    apply sum_eval_all_zero. intros p Hp. apply in_map_iff in Hp. destruct Hp as (g & <- & Hg).
    destruct (cl_wf _ _ _ H g Hg) as [Hw Hf].
    destruct (to_pwl_facts g Hw Hf) as (F1 & F2 & _ & _).
    set (t0 := tfirst (ext_sum grads)) in *.
    assert (Hle : t0 <= g_delay g).
    { destruct (delay_in_T0 grads g Hg Hw) as (b & Hb & E).
      pose proof (sorted_hd_le _ (sort_uniq_sorted _) b Hb) as Hh.
      unfold t0. rewrite tfirst_times, Ht. unfold T0 in *. lra. }
    destruct (Qlt_le_dec t0 (g_delay g)) as [Hlt|Hge].
    + apply eval_outside_left. lra.
    + assert (Et : t0 == tfirst (to_pwl g)) by lra. rewrite Et.
      rewrite (eval_at_first _ (to_pwl_sorted g Hw)). rewrite F1.
      destruct (Qeq_dec (g_first g) 0) as [E|E]; [exact E|].
      pose proof (cl_start _ _ _ H g Hg E). lra.
Qed.

(* the limits the code uses on this path (ag_ext_passes_limits is read from the source) *)
Definition ext_max_grad (s : sys) (mga : Q) : Q :=
  if ag_ext_passes_limits then (if Qle_bool mga 0 then s_max_grad s else mga) else s_max_grad s.
Definition ext_max_slew (s : sys) (msa : Q) : Q :=
  if ag_ext_passes_limits then (if Qle_bool msa 0 then s_max_slew s else msa) else s_max_slew s.

Lemma add_gradients_ext_path s mga msa grads :
  (2 <= length grads)%nat -> same_timing grads = false ->
  forallb (fun g => is_trap g || negb (is_arb s g)) grads = true ->
  add_gradients s mga msa grads =
  match make_ext_trap s (ext_max_grad s mga) (ext_max_slew s msa) (ext_sum grads) with
  | OK g => OK (P_ext, g) | Err e => Err e end.
Proof.
  intros Hlen Hst Hfa. unfold add_gradients, ext_max_grad, ext_max_slew.
  destruct grads as [|g0 [|g1 rest]]; [cbn in Hlen; lia|cbn in Hlen; lia|].
  cbv beta iota zeta. rewrite Hst, Hfa. reflexivity.
Qed.

(* add_gradients raises exactly when the sum exceeds the limits *)
Theorem add_ext_raises_iff_over_limit s D mga msa grads :
  C05Legal s D grads -> (2 <= length (T0 grads))%nat ->
  (2 <= length grads)%nat -> same_timing grads = false ->
  forallb (fun g => is_trap g || negb (is_arb s g)) grads = true ->
  0 <= ext_max_grad s mga -> 0 <= ext_max_slew s msa ->
  ((exists e, add_gradients s mga msa grads = Err e) <->
   ~ (corner_bound (ext_max_grad s mga + eps) (ext_sum grads) /\
      seg_bound (ext_max_slew s msa * (1 + eps)) (ext_sum grads))).
Proof.
  intros Hl HT Hlen Hst Hfa Hmg Hms.
  rewrite (add_gradients_ext_path s mga msa grads Hlen Hst Hfa).
  rewrite <- (make_ext_trap_raises_iff s _ _ _ (legal_structural s D grads Hl HT) Hmg Hms).
  destruct (make_ext_trap _ _ _ _) eqn:E.
  - split; intros (e & He); discriminate.
  - split; intros _; eexists; reflexivity.
Qed.

(* ... and when it returns, the SUM OF THE INPUTS is within the limits at every time *)
Theorem add_ext_sum_within_everywhere s D mga msa grads g :
  C05Legal s D grads -> (2 <= length (T0 grads))%nat ->
  (2 <= length grads)%nat -> same_timing grads = false ->
  forallb (fun g => is_trap g || negb (is_arb s g)) grads = true ->
  0 <= ext_max_grad s mga -> 0 <= ext_max_slew s msa ->
  add_gradients s mga msa grads = OK (P_ext, g) ->
  (forall t, Qabs (sum_eval (map to_pwl grads) t) <= ext_max_grad s mga + eps) /\
  (forall t u, hd 0 (T0 grads) <= t <= last (T0 grads) 0 -> hd 0 (T0 grads) <= u <= last (T0 grads) 0 ->
     Qabs (sum_eval (map to_pwl grads) t - sum_eval (map to_pwl grads) u)
     <= ext_max_slew s msa * (1 + eps) * Qabs (t - u)).
Proof.
  intros Hl HT Hlen Hst Hfa Hmg Hms H.
  rewrite (add_gradients_ext_path s mga msa grads Hlen Hst Hfa) in H.
  destruct (make_ext_trap _ _ _ _) eqn:E; [|discriminate].
  pose proof (c05_legal_inputs_ok s D grads Hl) as Hok.
  destruct (make_ext_trap_within_everywhere s _ _ _ _ (legal_structural s D grads Hl HT) Hmg Hms E)
    as [B1 B2].
  assert (Ht : times (ext_sum grads) = T0 grads).
  { unfold ext_sum. rewrite times_psum_on. apply (ext_times_T0 s). exact Hok. }
  split.
  - intro t. rewrite <- (ext_sum_eval s grads Hok). apply B1.
  - intros t u Ht' Hu'. rewrite <- !(ext_sum_eval s grads Hok). apply B2.
    + unfold inside. rewrite tfirst_times, tlast_times, Ht. exact Ht'.
    + unfold inside. rewrite tfirst_times, tlast_times, Ht. exact Hu'.
Qed.

(* ---------- duration = longest input duration ---------- *)
Theorem add_duration_is_max_trap s mg ms grads g :
  add_gradients s mg ms grads = OK (P_trap, g) -> (forall x, In x grads -> WF x) ->
  g_dur g == maxl (map g_dur grads).
Proof.
  intros H Hwf. destruct (add_trap_duration_first_last _ _ _ _ _ H Hwf) as (_ & _ & Hall).
  assert (Hne : map g_dur grads <> []).
  { destruct grads as [|x l]; [discriminate H|discriminate]. }
  pose proof (maxl_in _ Hne) as Hin. apply in_map_iff in Hin. destruct Hin as (x & Hx & Hxin).
  destruct (Hall x Hxin) as [Hd _]. rewrite <- Hx. symmetry. exact Hd.
Qed.

Lemma dur_in_T0 grads g : In g grads -> WF g -> FieldsOk g -> InQ (g_dur g) (T0 grads).
Proof.
  intros Hg Hw Hf.
  assert (H : InQ (g_dur g) (grad_times g)).
  { destruct g as [t|e]; cbn [g_dur grad_times].
    - eexists. split; [right; right; right; left; reflexivity|reflexivity].
    - destruct Hw as (_ & Hne & _ & _). destruct Hf as (_ & _ & F3).
      exists (eg_delay e + last (eg_tt e) 0). split; [|lra].
      apply (in_map (fun x => eg_delay e + x)). apply last_in. exact Hne. }
  destruct H as (b & Hb & E).
  assert (Hb' : In b (flat_map grad_times grads)) by (apply in_flat_map; exists g; split; assumption).
  destruct (sort_uniq_InQ _ b Hb') as (b' & Hb'' & E'). exists b'. split; [exact Hb''|lra].
Qed.

Theorem add_duration_is_max_ext s D mg ms grads g :
  add_gradients s mg ms grads = OK (P_ext, g) -> C05Legal s D grads ->
  g_dur g == maxl (map g_dur grads).
Proof.
  intros H Hl. pose proof (c05_legal_inputs_ok s D grads Hl) as Hok.
  destruct (add_ext_first_last_duration _ _ _ _ _ H Hok) as (_ & _ & Hd). rewrite Hd.
  assert (Hne : map g_dur grads <> []).
  { pose proof (cl_nonempty _ _ _ Hl). destruct grads; [congruence|discriminate]. }
  assert (HTs : sorted_strict (T0 grads)) by apply sort_uniq_sorted.
  apply Qle_antisym.
  - (* the last corner time belongs to some input and is at most its duration *)
    pose proof (maxl_in _ Hne) as Hin. apply in_map_iff in Hin. destruct Hin as (x & Hx & Hxin).
    destruct (cl_wf _ _ _ Hl x Hxin) as [Hw Hf].
    destruct (dur_in_T0 grads x Hxin Hw Hf) as (b & Hb & E).
    assert (HTne : T0 grads <> []) by (intro E0; rewrite E0 in Hb; destruct Hb).
    destruct (T0_in _ _ (last_in _ 0 HTne)) as (g' & Hg' & Hc').
    destruct (cl_wf _ _ _ Hl g' Hg') as [Hw' Hf'].
    destruct (grad_times_bounds g' Hw' Hf') as [_ Hb']. destruct (Hb' _ Hc') as [_ Hb2].
    pose proof (maxl_ge (map g_dur grads) (g_dur g') (in_map g_dur _ _ Hg')). lra.
  - pose proof (maxl_in _ Hne) as Hin. apply in_map_iff in Hin. destruct Hin as (x & Hx & Hxin).
    destruct (cl_wf _ _ _ Hl x Hxin) as [Hw Hf].
    destruct (dur_in_T0 grads x Hxin Hw Hf) as (b & Hb & E).
    pose proof (sorted_le_last _ HTs b Hb). rewrite <- Hx. lra.
Qed.

(* raster path: the number of returned samples times the raster is the longest duration - cd *)
Lemma length_vadd a : forall b, length (vadd a b) = Nat.max (length a) (length b).
Proof.
  induction a as [|x a IH]; intros [|y b]; cbn [vadd length]; try reflexivity; try lia.
  rewrite IH. reflexivity.
Qed.

Lemma fold_vadd_length ws : forall acc,
  let L := length (fold_left vadd ws acc) in
  (length acc <= L)%nat /\ (forall w, In w ws -> (length w <= L)%nat) /\
  (L = length acc \/ exists w, In w ws /\ L = length w).
Proof.
  induction ws as [|w ws IH]; intros acc; cbn [fold_left].
  - split; [lia|]. split; [intros w []|left; reflexivity].
  - destruct (IH (vadd acc w)) as (H1 & H2 & H3). rewrite length_vadd in H1, H3.
    split; [lia|]. split.
    + intros w' [<-|Hw']; [lia|apply H2; exact Hw'].
    + destruct H3 as [H3|(w' & Hw' & E)].
      * destruct (Nat.max_spec (length acc) (length w)) as [[_ E]|[_ E]]; rewrite E in H3.
        -- right. exists w. split; [left; reflexivity|exact H3].
        -- left. exact H3.
      * right. exists w'. split; [right; exact Hw'|exact E].
Qed.

Lemma zrange_length n : forall k, length (zrange k n) = n.
Proof. induction n as [|n IH]; intro k; [reflexivity|]. cbn. rewrite IH. reflexivity. Qed.

Lemma p2w_length r (p : pwl) (k0 N : Z) : 0 < r -> p <> [] -> sorted_strict (times p) ->
  tfirst p == inject_Z k0 * r -> tlast p == inject_Z (k0 + N) * r ->
  length (p2w r p) = Z.to_nat N.
Proof.
  intros Hr Hne Hs Hf Hl. destruct p as [|a p']; [congruence|].
  set (p := a :: p') in *. unfold p2w. fold p.
  change (match p with [] => [0] | _ :: _ =>
            map (fun k => interp_clamp p (inject_Z k * r + r / 2))
              (zrange (rnd_he (minl (times p) / r)) (Z.to_nat (rnd_he (maxl (times p) / r) - rnd_he (minl (times p) / r))))
          end)
    with (map (fun k => interp_clamp p (inject_Z k * r + r / 2))
              (zrange (rnd_he (minl (times p) / r)) (Z.to_nat (rnd_he (maxl (times p) / r) - rnd_he (minl (times p) / r))))).
  rewrite map_length, zrange_length.
  rewrite (minl_sorted _ Hs), (maxl_sorted _ Hs), <- tfirst_times, <- tlast_times.
  rewrite (rnd_on_raster r (tfirst p) k0 Hr Hf), (rnd_on_raster r (tlast p) (k0 + N) Hr Hl).
  f_equal. lia.
Qed.

Lemma pad_length s cd g (w : list Q) (m : Z) :
  0 < s_raster s -> (0 <= m)%Z -> g_delay g - cd == inject_Z m * s_raster s ->
  length (if Qgtb (g_delay g - cd) 0
          then repeat 0 (Z.to_nat (rnd_he ((g_delay g - cd) / s_raster s))) ++ w else w)
  = (Z.to_nat m + length w)%nat.
Proof.
  intros Hr Hm Hd. unfold Qgtb. case_ltb 0 (g_delay g - cd) E.
  - rewrite (rnd_on_raster _ _ m Hr Hd), app_length, repeat_length. reflexivity.
  - assert (m = 0%Z) by (apply (nonneg_raster_zero (s_raster s)); [exact Hr|exact Hm|lra]).
    subst m. reflexivity.
Qed.

Lemma inject_nat_sum r (m N : Z) : (0 <= m)%Z -> (0 <= N)%Z ->
  inject_Z (Z.of_nat (Z.to_nat m + Z.to_nat N)) * r == inject_Z m * r + inject_Z N * r.
Proof.
  intros Hm HN. rewrite Nat2Z.inj_add, !Z2Nat.id by assumption. rewrite inject_Z_plus. ring.
Qed.

(* the samples of one input cover exactly  [cd, end of the input) *)
Lemma input_samples_length s grads g : RasterInputsOk s grads -> In g grads -> FieldsOk g ->
  inject_Z (Z.of_nat (length (raster_samples s (minl (map g_delay grads)) g))) * s_raster s
  == g_dur g - minl (map g_delay grads).
Proof.
  intros H Hg Hfo. pose proof (rio_raster _ _ H) as Hr.
  destruct (delay_offset s grads g H Hg) as (m & Hm & Hd).
  destruct (rio_in _ _ H g Hg) as [_ Hk].
  set (cd := minl (map g_delay grads)) in *.
  destruct g as [t|e].
  - destruct Hk as [(H1 & H2 & H3) (N & HN)]. cbn [g_delay] in Hd.
    set (p := trap_pwl (tr_amp t) (tr_rise t) (tr_flat t) (tr_fall t) (tr_delay t - cd)).
    destruct (trap_pwl_ends (tr_amp t) (tr_rise t) (tr_flat t) (tr_fall t) (tr_delay t - cd) H2)
      as (Hne & Hf & Hl). fold p in Hne, Hf, Hl.
    assert (Hs : sorted_strict (times p)) by (apply trap_pwl_sorted; assumption).
    assert (HN0 : (0 <= N)%Z) by (apply (inject_Z_le_0 N (s_raster s) Hr); lra).
    assert (Hf' : tfirst p == inject_Z m * (s_raster s)) by (rewrite Hf; exact Hd).
    assert (Hl' : tlast p == inject_Z (m + N) * (s_raster s)) by (rewrite Hl, inject_Z_plus; lra).
    unfold raster_samples. fold p.
    rewrite (pad_length s cd (GTrap t) (p2w (s_raster s) p) m Hr Hm Hd).
    rewrite (p2w_length (s_raster s) p m N Hr Hne Hs Hf' Hl').
    rewrite (inject_nat_sum (s_raster s) m N Hm HN0). cbn [g_dur g_delay] in *. lra.
  - destruct (is_arb s (GExt e)) eqn:Ea.
    + destruct Hk as (Hlen & Hn & Htt & Hsd).
      unfold raster_samples. rewrite Ea.
      rewrite (pad_length s cd (GExt e) (eg_wf e) m Hr Hm Hd).
      rewrite Nat2Z.inj_add, Z2Nat.id, inject_Z_plus by exact Hm.
      cbn [g_dur g_delay] in *. rewrite Hsd. lra.
    + destruct Hk as [(H1 & H2 & H3 & H4) (N & HN)]. destruct Hfo as (_ & _ & F3).
      set (p := combine (eg_tt e) (eg_wf e)).
      assert (Ht : times p = eg_tt e) by (apply times_combine; exact H4).
      assert (Hne : p <> []).
      { unfold p. destruct (eg_tt e) as [|a l]; [congruence|]. destruct (eg_wf e); discriminate. }
      assert (Hs : sorted_strict (times p)) by (rewrite Ht; exact H1).
      assert (Hf' : tfirst p == inject_Z 0 * (s_raster s)).
      { unfold p. rewrite tfirst_combine by exact H4. rewrite H3. change (inject_Z 0) with 0. ring. }
      assert (Hl' : tlast p == inject_Z (0 + N) * (s_raster s)) by (rewrite tlast_times, Ht; exact HN).
      assert (HN0 : (0 <= N)%Z).
      { apply (inject_Z_le_0 N (s_raster s) Hr). rewrite <- HN.
        pose proof (sorted_le_last _ H1 (hd 0 (eg_tt e))) as HH.
        assert (In (hd 0 (eg_tt e)) (eg_tt e)) by (destruct (eg_tt e); [congruence|left; reflexivity]).
        specialize (HH H0). lra. }
      unfold raster_samples. rewrite Ea. fold p.
      rewrite (pad_length s cd (GExt e) (p2w (s_raster s) p) m Hr Hm Hd).
      rewrite (p2w_length (s_raster s) p 0 N Hr Hne Hs Hf' Hl').
      rewrite (inject_nat_sum (s_raster s) m N Hm HN0). cbn [g_dur g_delay] in *. lra.
Qed.

Theorem add_duration_is_max_raster s mg ms grads g :
  add_gradients s mg ms grads = OK (P_raster, g) -> RasterInputsOk s grads ->
  (forall x, In x grads -> FieldsOk x) ->
  g_dur g == maxl (map g_dur grads).
Proof.
  intros H Hok Hfo. pose proof (rio_raster _ _ Hok) as Hr.
  destruct (add_gradients_raster_inv _ _ _ _ _ H) as (mg' & ms' & Hm).
  destruct (make_arb_ArbOk _ _ _ _ _ _ _ _ Hm) as (e & -> & Hd & Hw & (_ & _ & _ & Hsd)).
  set (cd := minl (map g_delay grads)) in *. set (r := s_raster s) in *.
  cbn [g_dur]. rewrite Hd, Hsd, Hw. unfold raster_sum. fold cd.
  destruct (fold_vadd_length (map (raster_samples s cd) grads) []) as (_ & Hall & Hex).
  set (L := length (fold_left vadd (map (raster_samples s cd) grads) [])) in *.
  assert (Hne : grads <> []) by apply (rio_nonempty _ _ Hok).
  assert (Hne' : map g_dur grads <> []) by (destruct grads; [congruence|discriminate]).
  (* every input ends at or before cd + L r *)
  assert (Hub : forall x, In x grads -> g_dur x <= cd + inject_Z (Z.of_nat L) * r).
  { intros x Hx. pose proof (input_samples_length s grads x Hok Hx (Hfo x Hx)) as E. fold cd r in E.
    pose proof (Hall _ (in_map (raster_samples s cd) _ _ Hx)) as Hle.
    assert (inject_Z (Z.of_nat (length (raster_samples s cd x))) <= inject_Z (Z.of_nat L))
      by (rewrite <- Zle_Qle; lia).
    assert (inject_Z (Z.of_nat (length (raster_samples s cd x))) * r <= inject_Z (Z.of_nat L) * r)
      by (apply Qmult_le_compat_r; lra). lra. }
  (* and some input ends exactly there *)
  assert (Hex' : exists x, In x grads /\ g_dur x == cd + inject_Z (Z.of_nat L) * r).
  { destruct Hex as [E0|(w & Hw' & E)].
    - (* L = 0: every sample list is empty *)
      destruct grads as [|x l]; [congruence|]. exists x. split; [left; reflexivity|].
      pose proof (input_samples_length s (x :: l) x Hok (or_introl eq_refl) (Hfo x (or_introl eq_refl))) as E.
      fold cd r in E.
      pose proof (Hall _ (in_map (raster_samples s cd) (x :: l) x (or_introl eq_refl))) as Hle.
      assert (HL : L = 0%nat) by exact E0.
      assert (Hz : length (raster_samples s cd x) = 0%nat) by lia.
      rewrite Hz in E. rewrite HL. change (inject_Z (Z.of_nat 0)) with 0 in *. lra.
    - apply in_map_iff in Hw'. destruct Hw' as (x & <- & Hx). exists x. split; [exact Hx|].
      pose proof (input_samples_length s grads x Hok Hx (Hfo x Hx)) as E'. fold cd r in E'.
      rewrite <- E in E'. lra. }
  destruct Hex' as (x & Hx & Ex).
  apply Qle_antisym.
  - rewrite <- Ex. apply maxl_ge. apply in_map. exact Hx.
  - pose proof (maxl_in _ Hne') as Hin. apply in_map_iff in Hin. destruct Hin as (y & Hy & Hyin).
    rewrite <- Hy. apply Hub. exact Hyin.
Qed.

(* ---------- equal-timing path: add_gradients raises exactly over the limits ---------- *)
Definition trap_max_grad (s : sys) (mga : Q) : Q :=
  if ag_trap_passes_limits then (if Qle_bool mga 0 then s_max_grad s else mga) else s_max_grad s.
Definition trap_max_slew (s : sys) (msa : Q) : Q :=
  if ag_trap_passes_limits then (if Qle_bool msa 0 then s_max_slew s else msa) else s_max_slew s.

Theorem add_trap_raises_iff_over_limit s mga msa t0 rest :
  (1 <= length rest)%nat -> same_timing (GTrap t0 :: rest) = true ->
  ~ tr_rise t0 == 0 -> ~ tr_fall t0 == 0 ->
  let A := sumQ (map amp_of (GTrap t0 :: rest)) + eps in
  ((exists e, add_gradients s mga msa (GTrap t0 :: rest) = Err e) <->
   (trap_max_grad s mga + eps < Qabs A \/
    trap_max_slew s msa * (1 + eps) < Qabs A / tr_rise t0 \/
    trap_max_slew s msa * (1 + eps) < Qabs A / tr_fall t0)).
Proof.
  intros Hlen Hst Hr Hf A.
  rewrite <- (make_trap_amp_raises_iff (trap_max_grad s mga) (trap_max_slew s msa) A
                (tr_rise t0) (tr_flat t0) (tr_fall t0) (tr_delay t0) Hr Hf).
  unfold add_gradients, trap_max_grad, trap_max_slew, A.
  destruct rest as [|g1 rest]; [cbn in Hlen; lia|]. cbv beta iota zeta. rewrite Hst.
  destruct (make_trap_amp _ _ _ _ _ _ _) eqn:E.
  - split; intros (e & He); discriminate.
  - split; intros _; eexists; reflexivity.
Qed.
