(* Proofs/TimingSpec.v — declarative statements of C10 and C07, written from the property texts
   (properties.jsonl) and NOT from the generated tables: tolerances are literals here, the raster
   of each field and the end time of each event kind are spelled out.  The theorems of
   Proofs/TimingProofs.v connect the executable model (Model/Timing.v, driven by the tables read
   from the source, Gen/GenTiming.v) to these predicates; a source change that alters a tolerance,
   a raster choice, a checked field, a comparison or an end-time expression makes them fail. *)
From Coq Require Import ZArith QArith Qround Qabs List Bool.
From PV Require Import Base.QUtil Model.TimingSyntax Model.Timing.
Import ListNotations.
Open Scope Q_scope.

Definition spec_tol : Q := 1 # 1000000.        (* "to 1e-6 of a raster" *)
Definition spec_eps : Q := 1 # 1000000000.     (* absolute slack of every comparison: 1 ns *)

(* t is an integer multiple of the raster, to 1e-6 of a raster *)
Definition OnRaster (t raster : Q) : Prop :=
  exists k : Z, Qabs (t / raster - inject_Z k) < spec_tol.
Definition NonNeg (t : Q) : Prop := - spec_eps <= t.
Definition AtLeast (t lo : Q) : Prop := lo - spec_eps <= t.
Definition Fits (t avail : Q) : Prop := t <= avail + spec_eps.

(* C07: "latest end time over its events (delay plus length, plus ring-down time for RF and dead
   time for ADC, or an explicit delay)" *)
Definition ev_end (e : event) : option Q :=
  match e_kind e with
  | KRf => Some (e_delay e + e_shape_dur e + e_ring e)
  | KGrad => Some (e_delay e + e_shape_dur e)
  | KTrap => Some (e_delay e + e_rise e + e_flat e + e_fall e)
  | KAdc => Some (e_delay e + inject_Z (e_nsamp e) * e_dwell e + e_dead e)
  | KDelay => Some (e_delay e)
  | KTrig => Some (e_delay e + e_duration e)
  | KLabel => None
  end.

Definition block_events (b : block) : list event := map snd (block_slots b) ++ b_ext b.

(* D is the duration of the decoded block: the larger of the stored duration and the latest event end *)
Definition IsBlockDuration (b : block) (D : Q) : Prop :=
  b_stored b <= D /\
  (forall e t, In e (block_events b) -> ev_end e = Some t -> t <= D) /\
  (D == b_stored b \/ exists e t, In e (block_events b) /\ ev_end e = Some t /\ D == t).

(* which fields of an event of a given kind must lie on which raster
   ("RF/gradient/ADC delay, trapezoid rise/flat/fall time and ADC dwell"; ADC start on the RF raster) *)
Definition raster_fields (sys : system) (k : ekind) : list (attr * Q) :=
  match k with
  | KRf => [(A_delay, s_rf_raster sys)]
  | KAdc => [(A_delay, s_rf_raster sys); (A_dwell, s_adc_raster sys)]
  | KTrap => [(A_delay, s_grad_raster sys); (A_rise_time, s_grad_raster sys);
              (A_flat_time, s_grad_raster sys); (A_fall_time, s_grad_raster sys)]
  | KGrad => [(A_delay, s_grad_raster sys)]
  (* kinds that get_block never puts into the rf/gx/gy/gz/adc attributes; what the code would do *)
  | KDelay => [(A_delay, s_grad_raster sys)]
  | KTrig => [(A_delay, s_grad_raster sys); (A_duration, s_grad_raster sys)]
  | KLabel => []
  end.
Definition has_delay (k : ekind) : bool := match k with KLabel => false | _ => true end.

Definition EventValid (sys : system) (e : event) : Prop :=
  (has_delay (e_kind e) = true -> NonNeg (e_delay e)) /\
  (forall a r, In (a, r) (raster_fields sys (e_kind e)) -> OnRaster (attr_val e a) r).

(* the stored duration does not cover the content of the block *)
Definition Mismatch (b : block) : Prop := spec_eps < block_duration b - b_stored b.
(* duration against which the dead-time clauses are evaluated: the stored one when it is too short *)
Definition avail (b : block) : Q :=
  if Qlt_le_dec spec_eps (block_duration b - b_stored b) then b_stored b else block_duration b.

Definition adc_end (sys : system) (a : event) : Q :=
  e_delay a + inject_Z (e_nsamp a) * e_dwell a + s_adc_dead sys.
Definition rf_last (r : event) : Q := e_delay r + e_tlast r + e_ring r.   (* last RF sample + ring-down *)

(* "every block duration ... is an integer multiple of its raster": the duration of the decoded
   block (v = false: the source as it is) or the stored duration (v = true: the repaired source,
   which tests the value that write() puts into the [BLOCKS] column) *)
Definition dur_on_raster (v : bool) (b : block) : Q :=
  if v then b_stored b else block_duration b.

Definition BlockValid (v : bool) (sys : system) (b : block) : Prop :=
  OnRaster (dur_on_raster v b) (s_block_raster sys) /\
  block_duration b - b_stored b <= spec_eps /\
  (forall sl e, In (sl, e) (block_slots b) -> EventValid sys e) /\
  (forall r, b_rf b = Some r ->
     AtLeast (e_delay r) (e_dead r) /\ Fits (rf_last r) (block_duration b)) /\
  (forall a, b_adc b = Some a ->
     AtLeast (e_delay a) (s_adc_dead sys) /\ Fits (adc_end sys a) (block_duration b)).

Definition TimingValid (v : bool) (sys : system) (bs : list block) : Prop := Forall (BlockValid v sys) bs.

(* the property-text reading of the RF clause: RF end (delay + shape duration) plus ring-down fits
   in the stored block duration *)
Definition BlockValid_text (v : bool) (sys : system) (b : block) : Prop :=
  OnRaster (dur_on_raster v b) (s_block_raster sys) /\
  block_duration b - b_stored b <= spec_eps /\
  (forall sl e, In (sl, e) (block_slots b) -> EventValid sys e) /\
  (forall r, b_rf b = Some r ->
     AtLeast (e_delay r) (e_dead r) /\
     Fits (e_delay r + e_shape_dur r + e_ring r) (b_stored b)) /\
  (forall a, b_adc b = Some a ->
     AtLeast (e_delay a) (s_adc_dead sys) /\ Fits (adc_end sys a) (block_duration b)).
Definition TimingValid_text (v : bool) (sys : system) (bs : list block) : Prop :=
  Forall (BlockValid_text v sys) bs.

(* one report entry = one violated clause *)
Inductive BlockViolates (v : bool) (sys : system) (b : block) : err -> Prop :=
| V_block_raster :
    ~ OnRaster (dur_on_raster v b) (s_block_raster sys) ->
    BlockViolates v sys b (b_id b, SBlock, A_duration, RASTER)
| V_mismatch :
    Mismatch b -> BlockViolates v sys b (b_id b, SBlock, A_duration, BLOCK_DURATION_MISMATCH)
| V_negative sl e :
    In (sl, e) (block_slots b) -> has_delay (e_kind e) = true -> e_delay e < - spec_eps ->
    BlockViolates v sys b (b_id b, sl, A_delay, NEGATIVE_DELAY)
| V_field sl e a r :
    In (sl, e) (block_slots b) -> In (a, r) (raster_fields sys (e_kind e)) ->
    ~ OnRaster (attr_val e a) r ->
    BlockViolates v sys b (b_id b, sl, a, RASTER)
| V_rf_dead r :
    b_rf b = Some r -> e_delay r < e_dead r - spec_eps ->
    BlockViolates v sys b (b_id b, SRf, A_delay, RF_DEAD_TIME)
| V_rf_ring r :
    b_rf b = Some r -> avail b + spec_eps < rf_last r ->
    BlockViolates v sys b (b_id b, SRf, A_duration, RF_RINGDOWN_TIME)
| V_adc_dead a :
    b_adc b = Some a -> e_delay a < s_adc_dead sys - spec_eps ->
    BlockViolates v sys b (b_id b, SAdc, A_delay, ADC_DEAD_TIME)
| V_adc_post a :
    b_adc b = Some a -> avail b + spec_eps < adc_end sys a ->
    BlockViolates v sys b (b_id b, SAdc, A_duration, POST_ADC_DEAD_TIME).

Definition Violates (v : bool) (sys : system) (bs : list block) (e : err) : Prop :=
  exists b, In b bs /\ BlockViolates v sys b e.

(* ------------------------------------------------------------------------------- C07 -------- *)
(* running sum of the stored durations: start time of block number i (0-based) *)
Definition prefix_sum (bs : list block) (i : nat) : Q := sumQ (map b_stored (firstn i bs)).

(* an argument list of set_block: events and plain floats *)
Definition arg_end (a : arg) : option Q :=
  match a with ADur d => Some d | AEv e => ev_end e end.

(* "events designed for the sequence's own system" as far as durations are concerned:
   arbitrary / extended gradients end on the gradient raster and their last time point lies in the
   last raster interval (set_block rounds tt[-1] up to the raster, calc_duration uses shape_dur) *)
Definition GradOwn (graster : Q) (e : event) : Prop :=
  e_kind e = KGrad ->
  exists k : Z, e_shape_dur e == inject_Z k * graster /\
                inject_Z (k - 1) < e_tlast e / graster - (1 # 10000000000) /\
                e_tlast e / graster - (1 # 10000000000) <= inject_Z k.
Definition OwnArgs (graster : Q) (l : list arg) : Prop :=
  forall e, In (AEv e) l -> GradOwn graster e.
