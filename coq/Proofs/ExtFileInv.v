(* Proofs/ExtFileInv.v — C19: the hypothesis of the file theorems, [file_ready], holds in every state
   reachable by histories whose blocks pass label / trigger events by value with integer label values. *)
From Coq Require Import List Bool ZArith QArith Qcanon Lia Permutation.
From RecordUpdate Require Import RecordSet.
From PV Require Import Base.AList Base.QUtil Model.EventLib Model.Seq Model.Labels Model.LabelEval Model.ExtFile
                       Proofs.SeqSpec Proofs.SeqCache Proofs.SeqCont Proofs.ExtProofs Proofs.ExtStore
                       Proofs.ExtFileProofs.
Import ListNotations RecordSetNotations.
Open Scope Z_scope.

Definition fparts (c : core) : Prop :=
  ids_ok (ext_l c) /\ ids_ok (trig_l c) /\ ids_ok (lset_l c) /\ ids_ok (linc_l c) /\
  0 < lnext (trig_l c) /\ 0 < lnext (lset_l c) /\ 0 < lnext (linc_l c) /\
  trig_rows (trig_l c) /\ int_rows 2 (lset_l c) /\ int_rows 2 (linc_l c).

Definition fr_inv (c : core) : Prop := lab_inv c /\ fparts c.

Theorem fr_inv_file_ready : forall c, fr_inv c -> file_ready c.
Proof.
  intros c ((_ & W & _ & _ & _ & X) & (I1 & I2 & I3 & I4 & _ & _ & _ & R1 & R2 & R3)).
  unfold file_ready. repeat (split; try assumption).
Qed.

Lemma fparts_transfer c c' : ext_l c' = ext_l c -> lpart c' = lpart c -> fparts c -> fparts c'.
Proof.
  intros E P H. unfold lpart in P. inversion P as [[P1 P2 P3 P4 P5]]. unfold fparts in *.
  rewrite E, P1, P2, P3. exact H.
Qed.

Lemma aset_new {V} (l : list (Z * V)) k v : aget Z.eqb l k = None -> aset Z.eqb l k v = l ++ [(k, v)].
Proof.
  induction l as [|[k' v'] r IH]; cbn; intro H; [reflexivity|].
  destruct (k' =? k); [discriminate|]. rewrite (IH H). reflexivity.
Qed.

Lemma fresh_next (l : klib) : lib_inv l -> aget Z.eqb (ldata l) (lnext l) = None /\ ~ In (lnext l) (akeys (ldata l)).
Proof.
  intros [Hd _].
  assert (N : ~ In (lnext l) (akeys (ldata l))).
  { intro H. apply in_map_iff in H. destruct H as ([i k] & E & Hin). cbn in E. subst i. specialize (Hd _ _ Hin). lia. }
  split; [apply agetZ_notin_None; exact N|exact N].
Qed.

(* one row appended at the next free id *)
Lemma append_parts (Q : Z * key -> Prop) (l : klib) k :
  lib_inv l -> ids_ok l -> 0 < lnext l -> Forall Q (ldata l) -> Q (lnext l, k) ->
  let d := aset Z.eqb (ldata l) (lnext l) k in
  NoDup (akeys d) /\ Forall (fun kv : Z * key => fst kv <> 0) d /\ Forall Q d.
Proof.
  intros I [Nd Nz] Hp F Hq. cbv zeta. destruct (fresh_next l I) as [G N].
  rewrite (aset_new _ _ _ G). unfold akeys. rewrite map_app. cbn [map fst].
  split; [apply NoDup_snoc; assumption|]. split; apply Forall_app; split; try assumption; constructor; try constructor; cbn; try lia; exact Hq.
Qed.

Lemma kfoi_parts (Q : Z * key -> Prop) (l : klib) k ty :
  lib_inv l -> ids_ok l -> 0 < lnext l -> Forall Q (ldata l) -> (forall id, Q (id, k)) ->
  let l' := fst (fst (kfoi l k ty)) in ids_ok l' /\ 0 < lnext l' /\ Forall Q (ldata l').
Proof.
  intros I Io Hp F Hq. cbv zeta. unfold kfoi, lib_find_or_insert.
  destruct (aget key_eqb (lkeymap l) k); cbn [fst]; [repeat split; try assumption; apply Io|].
  cbn [ldata lnext]. destruct (append_parts Q l k I Io Hp F (Hq _)) as (A & B & C).
  split; [split; assumption|]. split; [lia|exact C].
Qed.

Lemma kins_next_parts (l : klib) k :
  lib_inv l -> ids_ok l -> 0 < lnext l ->
  let l' := fst (kins l (lnext l) k 0) in ids_ok l' /\ 0 < lnext l'.
Proof.
  intros I Io Hp. cbv zeta. unfold kins, lib_insert. cbn [fst].
  assert (Hid : (if lnext l =? 0 then lnext l else lnext l) = lnext l) by (destruct (lnext l =? 0); reflexivity).
  rewrite Hid, Z.leb_refl. cbn [ldata lnext].
  destruct (append_parts (fun _ => True) l k I Io Hp) as (A & B & _); [apply Forall_forall; auto|exact Logic.I|].
  split; [split; assumption|lia].
Qed.

Lemma ext_add_ids_ok exts : forall (l : klib) eid,
  lib_inv l -> ids_ok l -> 0 < lnext l -> ids_ok (fst (ext_add l exts eid)).
Proof.
  induction exts as [|[ty ref] r IH]; intros l eid I Io Hp; cbn [ext_add]; [exact Io|].
  unfold kfind, lib_find. destruct (aget key_eqb (lkeymap l) [zq ty; zq ref; zq eid]); [apply IH; assumption|].
  destruct (kins_next_parts l [zq ty; zq ref; zq eid] I Io Hp) as [A B].
  apply IH; [apply kins_inv; exact I|exact A|exact B].
Qed.

Lemma ext_register_ids_ok hint (l : klib) exts :
  lib_inv l -> ext_wf l -> ids_ok l -> ids_ok (fst (ext_register hint l exts)).
Proof.
  intros I W Io. unfold ext_register. destruct (ext_probe l (sort_exts hint exts) 0) as [id af].
  destruct af; [exact Io|]. apply ext_add_ids_ok; [exact I|exact Io|apply W].
Qed.

(* label values handed over are integers (make_label coerces with int()) *)
Definition ev_file_ok (e : mevent) : Prop :=
  match e with MLabel _ _ v _ => qc_int v | _ => True end.

Lemma core_inv_libs c : core_inv c -> lib_inv (trig_l c) /\ lib_inv (lset_l c) /\ lib_inv (linc_l c) /\ lib_inv (ext_l c).
Proof. intros (I1 & I2 & I3 & I4 & I5 & I6 & I7 & I8). split; [exact I4|split; [exact I5|split; [exact I6|exact I7]]]. Qed.

Lemma ev_step_fparts a e a' :
  core_inv (a_core a) -> fparts (a_core a) -> ext_by_value e -> ev_file_ok e -> ev_step a e = inl a' ->
  fparts (a_core a').
Proof.
  intros I F Bv Fo H. pose proof (ev_step_ext a e a' H) as Ex.
  destruct (core_inv_libs _ I) as (It & Is & Ii & Ie).
  destruct e; cbn [ev_step ext_by_value ev_file_ok] in *.
  - destruct (negb (nth 1 (a_blk a) 0 =? 0)); [discriminate|]. destruct id as [i|].
    + inversion H. exact F.
    + pose proof (register_rf_lpart (a_core a) sids amp mag phase tshape delay freq phoff use) as P.
      destruct (register_rf (a_core a) sids amp mag phase tshape delay freq phoff use) as [[[c1 i] ids] clr].
      inversion H. subst a'. cbn in *. apply (fparts_transfer (a_core a)); assumption.
  - destruct (negb (nth (2 + ch) (a_blk a) 0 =? 0)); [discriminate|]. destruct id as [i|].
    + inversion H. exact F.
    + pose proof (register_grad_lpart (a_core a) sids amp wshape tshape delay first last) as P.
      destruct (register_grad (a_core a) sids amp wshape tshape delay first last) as [[[c1 i] ids] clr].
      inversion H. subst a'. cbn in *. apply (fparts_transfer (a_core a)); assumption.
  - destruct (negb (nth (2 + ch) (a_blk a) 0 =? 0)); [discriminate|]. destruct id as [i|].
    + inversion H. exact F.
    + pose proof (register_trap_lpart (a_core a) amp rise flat fall delay) as P.
      destruct (register_trap (a_core a) amp rise flat fall delay) as [[c1 i] clr].
      inversion H. subst a'. cbn in *. apply (fparts_transfer (a_core a)); assumption.
  - destruct (negb (nth 5 (a_blk a) 0 =? 0)); [discriminate|]. destruct id as [i|].
    + inversion H. exact F.
    + pose proof (register_adc_lpart (a_core a) num dwell delay freq phoff dead) as P.
      destruct (register_adc (a_core a) num dwell delay freq phoff dead) as [[c1 i] clr].
      inversion H. subst a'. cbn in *. apply (fparts_transfer (a_core a)); assumption.
  - inversion H. exact F.
  - destruct id as [i|]; [contradiction|].
    destruct F as (F1 & F2 & F3 & F4 & P2 & P3 & P4 & R2 & R3 & R4).
    pose proof (kfoi_parts (fun kv => exists t ch d du, snd kv = [zq t; zq ch; d; du]) (trig_l (a_core a))
                  [zq typ; zq chan; delay; dur] 0 It F2 P2 R2) as K.
    unfold register_ctl in H.
    destruct (kfoi (trig_l (a_core a)) [zq typ; zq chan; delay; dur] 0) as [[tl eid] found]. cbn [fst] in K.
    destruct K as (K1 & K2 & K3); [intro; cbn; eauto|].
    pose proof (ext_type_id_libs (a_core a <| trig_l := tl |>) XS_TRIGGERS) as (L1 & L2 & L3 & L4).
    destruct (ext_type_id (a_core a <| trig_l := tl |>) XS_TRIGGERS) as [c2 tid]. cbn [fst] in *.
    inversion H. subst a'. cbn -[set_nth] in *. unfold fparts. rewrite L1, L2, L3, L4.
    repeat (split; try assumption).
  - destruct id as [i|]; [contradiction|].
    destruct F as (F1 & F2 & F3 & F4 & P2 & P3 & P4 & R2 & R3 & R4).
    unfold register_label in H. destruct is_set.
    + pose proof (kfoi_parts (fun kv => length (snd kv) = 2%nat /\ Forall qc_int (snd kv)) (lset_l (a_core a))
                    [value; zq lbl] 0 Is F3 P3 R3) as K.
      destruct (kfoi (lset_l (a_core a)) [value; zq lbl] 0) as [[tl eid] found]. cbn [fst] in K.
      destruct K as (K1 & K2 & K3); [intro; cbn; split; [reflexivity|repeat constructor; [exact Fo|eexists; reflexivity]]|].
      pose proof (ext_type_id_libs (a_core a <| lset_l := tl |>) XS_LABELSET) as (L1 & L2 & L3 & L4).
      destruct (ext_type_id (a_core a <| lset_l := tl |>) XS_LABELSET) as [c2 tid]. cbn [fst] in *.
      inversion H. subst a'. cbn -[set_nth] in *. unfold fparts. rewrite L1, L2, L3, L4.
      repeat (split; try assumption).
    + pose proof (kfoi_parts (fun kv => length (snd kv) = 2%nat /\ Forall qc_int (snd kv)) (linc_l (a_core a))
                    [value; zq lbl] 0 Ii F4 P4 R4) as K.
      destruct (kfoi (linc_l (a_core a)) [value; zq lbl] 0) as [[tl eid] found]. cbn [fst] in K.
      destruct K as (K1 & K2 & K3); [intro; cbn; split; [reflexivity|repeat constructor; [exact Fo|eexists; reflexivity]]|].
      pose proof (ext_type_id_libs (a_core a <| linc_l := tl |>) XS_LABELINC) as (L1 & L2 & L3 & L4).
      destruct (ext_type_id (a_core a <| linc_l := tl |>) XS_LABELINC) as [c2 tid]. cbn [fst] in *.
      inversion H. subst a'. cbn -[set_nth] in *. unfold fparts. rewrite L1, L2, L3, L4.
      repeat (split; try assumption).
  - inversion H. exact F.
Qed.

Lemma ev_loop_fparts evs : forall a,
  lab_inv (a_core a) -> fparts (a_core a) ->
  Forall ev_ok evs -> Forall ext_by_value evs -> Forall ev_file_ok evs ->
  fparts (a_core (fst (ev_loop a evs))).
Proof.
  induction evs as [|e r IH]; intros a L F Ok Bv Fo; cbn [ev_loop]; [exact F|].
  inversion Ok as [|? ? Oe Or]. inversion Bv as [|? ? Be Br]. inversion Fo as [|? ? Fe Fr]. subst.
  destruct (ev_step a e) as [a1|x] eqn:E; [|exact F].
  destruct (ev_step_lab a e a1 L Oe Be E) as (L1 & _).
  apply IH; [exact L1|exact (ev_step_fparts a e a1 (proj1 L) F Be Fe E)|exact Or|exact Br|exact Fr].
Qed.

Lemma sbc_fparts abs_fix c i evs hint :
  fr_inv c -> Forall ev_ok evs -> Forall ext_by_value evs -> Forall ev_file_ok evs ->
  fparts (fst (fst (set_block_core abs_fix c i evs hint))).
Proof.
  intros [L F] Ok Bv Fo. unfold set_block_core.
  set (a0 := mkAcc c false [0; 0; 0; 0; 0; 0; 0] qc0 [chk0; chk0; chk0] []).
  assert (B0 : blk_ok a0) by (split; reflexivity).
  pose proof (ev_loop_fparts evs a0 L F Ok Bv Fo) as Fa.
  destruct (ev_loop_lab_inv evs a0 L B0 Ok Bv) as [La _].
  destruct (ev_loop a0 evs) as [a eo]. cbn [fst] in *.
  destruct eo as [x|]; [exact Fa|].
  destruct (a_exts a) as [|x xs].
  - destruct (check_channels abs_fix (a_core a) i (a_dur a) 0 (a_chk a)); cbn [fst];
      [exact Fa|apply (fparts_transfer (a_core a)); [reflexivity|reflexivity|exact Fa]].
  - destruct La as (Ia & Wa & _).
    pose proof (ext_register_ids_ok hint (ext_l (a_core a)) (x :: xs) (proj2 (proj2 (proj2 (core_inv_libs _ Ia)))) Wa (proj1 Fa)) as Io.
    destruct (ext_register hint (ext_l (a_core a)) (x :: xs)) as [el eid]. cbn [fst] in Io.
    destruct Fa as (_ & F2).
    assert (F' : fparts (a_core a <| ext_l := el |>)) by (split; [exact Io|exact F2]).
    destruct (check_channels abs_fix (a_core a <| ext_l := el |>) i (a_dur a) 0 (a_chk a)); cbn [fst];
      [exact F'|apply (fparts_transfer (a_core a <| ext_l := el |>)); [reflexivity|reflexivity|exact F']].
Qed.

Definition op_file_ok (o : op) : Prop :=
  match o with
  | AddBlock evs _ | SetBlock _ evs _ => Forall ev_ok evs /\ Forall ext_by_value evs /\ Forall ev_file_ok evs
  | RegLabel _ v _ => qc_int v
  | Load c => fr_inv c
  | _ => True
  end.

Lemma op_file_lab_ok o : op_file_ok o -> op_lab_ok o.
Proof. destruct o; cbn; try tauto. intros [H _]. exact H. Qed.

Theorem step_fr_inv : forall cache_on abs_fix r1 r2 r3 r4 s o,
  fr_inv (st_core s) -> op_file_ok o ->
  fr_inv (st_core (fst (step cache_on abs_fix r1 r2 r3 r4 s o))).
Proof.
  intros cache_on abs_fix r1 r2 r3 r4 s o FI Ok.
  pose proof (step_lab_inv cache_on abs_fix r1 r2 r3 r4 s o (proj1 FI) (op_file_lab_ok o Ok)) as L'.
  split; [exact L'|]. clear L'. destruct FI as [L F]. destruct o; cbn [step op_file_ok] in *.
  - destruct Ok as (O1 & O2 & O3).
    pose proof (sbc_fparts abs_fix (st_core s) (next_block (st_core s)) evs hint (conj L F) O1 O2 O3) as H.
    destruct (set_block_core abs_fix (st_core s) (next_block (st_core s)) evs hint) as [[c' clr] e].
    cbn [fst] in H. destruct e; cbn [fst st_core]; [exact H|].
    apply (fparts_transfer c'); [reflexivity|reflexivity|exact H].
  - destruct Ok as (O1 & O2 & O3).
    pose proof (sbc_fparts abs_fix (st_core s) i evs hint (conj L F) O1 O2 O3) as H.
    destruct (set_block_core abs_fix (st_core s) i evs hint) as [[c' clr] e].
    cbn [fst] in H. destruct e; cbn [fst st_core]; [exact H|].
    apply (fparts_transfer c'); [reflexivity|reflexivity|exact H].
  - pose proof (do_get_core cache_on s i) as H.
    destruct (do_get cache_on s i) as [s' b]. cbn [fst] in *. rewrite H. exact F.
  - pose proof (register_rf_lpart (st_core s) sids amp mag phase tshape delay freq phoff use) as P.
    pose proof (register_rf_ext (st_core s) sids amp mag phase tshape delay freq phoff use) as E.
    destruct (register_rf (st_core s) sids amp mag phase tshape delay freq phoff use) as [[[c' id] ids] clr].
    cbn [fst st_core] in *. apply (fparts_transfer (st_core s)); assumption.
  - pose proof (register_grad_lpart (st_core s) sids amp wshape tshape delay first last) as P.
    pose proof (register_grad_ext (st_core s) sids amp wshape tshape delay first last) as E.
    destruct (register_grad (st_core s) sids amp wshape tshape delay first last) as [[[c' id] ids] clr].
    cbn [fst st_core] in *. apply (fparts_transfer (st_core s)); assumption.
  - pose proof (register_trap_lpart (st_core s) amp rise flat fall delay) as P.
    pose proof (register_trap_ext (st_core s) amp rise flat fall delay) as E.
    destruct (register_trap (st_core s) amp rise flat fall delay) as [[c' id] clr].
    cbn [fst st_core] in *. apply (fparts_transfer (st_core s)); assumption.
  - pose proof (register_adc_lpart (st_core s) num dwell delay freq phoff dead) as P.
    pose proof (register_adc_ext (st_core s) num dwell delay freq phoff dead) as E.
    destruct (register_adc (st_core s) num dwell delay freq phoff dead) as [[c' id] clr].
    cbn [fst st_core] in *. apply (fparts_transfer (st_core s)); assumption.
  - (* RegLabel *)
    destruct (core_inv_libs _ (proj1 L)) as (It & Is & Ii & Ie).
    destruct F as (F1 & F2 & F3 & F4 & P2 & P3 & P4 & R2 & R3 & R4).
    unfold register_label. destruct is_set.
    + pose proof (kfoi_parts (fun kv => length (snd kv) = 2%nat /\ Forall qc_int (snd kv)) (lset_l (st_core s))
                    [value; zq lbl] 0 Is F3 P3 R3) as K.
      destruct (kfoi (lset_l (st_core s)) [value; zq lbl] 0) as [[tl id] found]. cbn [fst] in K.
      destruct K as (K1 & K2 & K3); [intro; cbn; split; [reflexivity|repeat constructor; [exact Ok|eexists; reflexivity]]|].
      cbn [fst st_core]. unfold fparts. cbn. repeat (split; try assumption).
    + pose proof (kfoi_parts (fun kv => length (snd kv) = 2%nat /\ Forall qc_int (snd kv)) (linc_l (st_core s))
                    [value; zq lbl] 0 Ii F4 P4 R4) as K.
      destruct (kfoi (linc_l (st_core s)) [value; zq lbl] 0) as [[tl id] found]. cbn [fst] in K.
      destruct K as (K1 & K2 & K3); [intro; cbn; split; [reflexivity|repeat constructor; [exact Ok|eexists; reflexivity]]|].
      cbn [fst st_core]. unfold fparts. cbn. repeat (split; try assumption).
  - destruct (dedup_core r1 r2 r3 r4 (st_core s)) as [c'|] eqn:E; cbn [fst st_core]; [|exact F].
    apply (fparts_transfer (st_core s)); [exact (dedup_core_ext _ _ _ _ _ _ E)|exact (dedup_core_lpart _ _ _ _ _ _ E)|exact F].
  - cbn [fst]. exact F.
  - cbn [fst]. rewrite touch_core. exact F.
  - cbn [fst st_core]. exact (proj2 Ok).
Qed.

Lemma run_fr_inv_gen cache_on abs_fix r1 r2 r3 r4 ops : forall s acc,
  fr_inv (st_core s) -> Forall op_file_ok ops ->
  fr_inv (st_core (fst (fold_left (fun (acc : state * list out) o =>
               let '(s', x) := step cache_on abs_fix r1 r2 r3 r4 (fst acc) o in (s', snd acc ++ [x]))
               ops (s, acc)))).
Proof.
  induction ops as [|o r IH]; intros s acc L Ok; cbn [fold_left]; [exact L|].
  inversion Ok as [|? ? Oo Or]. subst. cbn [fst snd].
  pose proof (step_fr_inv cache_on abs_fix r1 r2 r3 r4 s o L Oo) as L'.
  destruct (step cache_on abs_fix r1 r2 r3 r4 s o) as [s1 x1]. cbn [fst] in L'.
  apply IH; assumption.
Qed.

Lemma fr_inv_init g s sl e : fr_inv (core_init g s sl e).
Proof.
  split; [apply lab_inv_init|]. unfold fparts, ids_ok, trig_rows, int_rows. cbn.
  repeat split; try constructor; try reflexivity.
Qed.

(* every state reachable from the empty Sequence is ready for the file theorems *)
Theorem run_file_ready : forall cache_on abs_fix r1 r2 r3 r4 ops g s sl e,
  Forall op_file_ok ops ->
  file_ready (st_core (fst (run cache_on abs_fix r1 r2 r3 r4 (mkState (core_init g s sl e) []) ops))).
Proof.
  intros. apply fr_inv_file_ready. unfold run. apply run_fr_inv_gen; [apply fr_inv_init|assumption].
Qed.
