(* Proofs/TimingProofs.v — lemmas about Model/Timing.v (C10, C07) *)
From Coq Require Import ZArith QArith Qround Qabs List Bool Lia Lqa.
From PV Require Import Base.QUtil Model.TimingSyntax Gen.GenTiming Model.Timing.
Import ListNotations.
Open Scope Q_scope.

Lemma check_timing_nil sys : check_timing sys [] = [].
Proof. reflexivity. Qed.
