(* Proofs/TimingProofs.v — lemmas about Model/Timing.v (C10, C07) *)
From Coq Require Import ZArith QArith Qround Qabs List Bool Lia Lqa Setoid Morphisms.
From PV Require Import Base.QUtil Model.TimingSyntax Gen.GenTiming Model.Timing Proofs.TimingSpec.
Import ListNotations.
Open Scope Q_scope.

(* ------------------------------------------------------------------ rounding / div_check ---- *)
Lemma inject_Z_pred (z : Z) : inject_Z (z - 1) == inject_Z z - 1.
Proof. unfold Z.sub. rewrite inject_Z_plus. unfold inject_Z. simpl. ring. Qed.

Lemma rnd_he_unique (q : Q) (z : Z) : Qabs (q - inject_Z z) < 1 # 2 -> rnd_he q = z.
Proof.
  intro H. apply Qabs_Qlt_condition in H. destruct H as [Hl Hu].
  unfold rnd_he.
  destruct (Qlt_le_dec q (inject_Z z)) as [Hlt|Hge].
  - assert (F : Qfloor q = (z - 1)%Z).
    { apply Qfloor_unique; rewrite inject_Z_pred; lra. }
    rewrite F. unfold Qhalf.
    destruct (Qcompare (q - inject_Z (z - 1)) (1 # 2)) eqn:E.
    + apply Qeq_alt in E. rewrite inject_Z_pred in E. lra.
    + apply Qlt_alt in E. rewrite inject_Z_pred in E. lra.
    + lia.
  - assert (F : Qfloor q = z) by (apply Qfloor_unique; lra).
    rewrite F. unfold Qhalf.
    destruct (Qcompare (q - inject_Z z) (1 # 2)) eqn:E.
    + apply Qeq_alt in E. lra.
    + reflexivity.
    + apply Qgt_alt in E. lra.
Qed.

Lemma div_tol_spec : div_tol = spec_tol.
Proof. reflexivity. Qed.
Lemma timing_eps_spec : timing_eps = spec_eps.
Proof. reflexivity. Qed.

(* C10 div_check_spec: the code's test (round, compare) accepts exactly the values within 1e-6
   raster of SOME integer multiple *)
Lemma div_check_spec (t r : Q) : div_ok t r = true <-> OnRaster t r.
Proof.
  unfold div_ok, OnRaster. change div_cmp with CLt. cbn [cmp_holds]. rewrite Qltb_lt, div_tol_spec.
  split.
  - intro H. exists (rnd_he (t / r)). exact H.
  - intros [k Hk].
    assert (E : rnd_he (t / r) = k).
    { apply rnd_he_unique. unfold spec_tol in Hk. lra. }
    rewrite E. exact Hk.
Qed.

Lemma OnRaster_dec t r : {OnRaster t r} + {~ OnRaster t r}.
Proof.
  destruct (div_ok t r) eqn:E.
  - left. apply div_check_spec. exact E.
  - right. intro H. apply div_check_spec in H. congruence.
Qed.

(* the same in absolute terms, for a positive raster: |t - k*raster| < 1e-6 * raster *)
Lemma div_check_spec_abs (t r : Q) : 0 < r ->
  (div_ok t r = true <-> exists k : Z, Qabs (t - inject_Z k * r) < spec_tol * r).
Proof.
  intro Hr. rewrite div_check_spec. unfold OnRaster.
  split; intros [k Hk]; exists k.
  - assert (E : t - inject_Z k * r == (t / r - inject_Z k) * r) by (field; lra).
    rewrite E, Qabs_Qmult, (Qabs_pos r) by lra.
    apply Qmult_lt_r; [exact Hr|exact Hk].
  - assert (E : t - inject_Z k * r == (t / r - inject_Z k) * r) by (field; lra).
    rewrite E, Qabs_Qmult, (Qabs_pos r) in Hk by lra.
    apply Qmult_lt_r in Hk; [exact Hk|exact Hr].
Qed.

Lemma div_ok_multiple (k : Z) (r : Q) : 0 < r -> div_ok (inject_Z k * r) r = true.
Proof.
  intro Hr. apply div_check_spec. exists k.
  assert (E : inject_Z k * r / r - inject_Z k == 0) by (field; lra).
  rewrite E. reflexivity.
Qed.

Global Instance OnRaster_Proper : Proper (Qeq ==> Qeq ==> iff) OnRaster.
Proof.
  intros a b H r s K. unfold OnRaster.
  split; intros [k Hk]; exists k.
  - rewrite <- H, <- K. exact Hk.
  - rewrite H, K. exact Hk.
Qed.

(* ------------------------------------------------------------------------ calc_duration ----- *)
Lemma cd_fold_ge (l : list event) (acc : Q) : acc <= fold_left cd_step (map AEv l) acc.
Proof.
  revert acc. induction l as [|e l IH]; intro acc; cbn [map fold_left]; [lra|].
  eapply Qle_trans; [|apply IH]. unfold cd_step.
  destruct (end_time cd_end e); [apply Qmax_ub_l|lra].
Qed.

Lemma cd_fold_ub (l : list event) (acc : Q) (e : event) (t : Q) :
  In e l -> end_time cd_end e = Some t -> t <= fold_left cd_step (map AEv l) acc.
Proof.
  revert acc. induction l as [|a l IH]; intros acc Hin He; [destruct Hin|].
  cbn [map fold_left]. destruct Hin as [->|Hin].
  - eapply Qle_trans; [|apply cd_fold_ge]. unfold cd_step. rewrite He. apply Qmax_ub_r.
  - apply IH; assumption.
Qed.

Lemma cd_fold_attained (l : list event) (acc : Q) :
  fold_left cd_step (map AEv l) acc = acc \/
  exists e t, In e l /\ end_time cd_end e = Some t /\ fold_left cd_step (map AEv l) acc = t.
Proof.
  revert acc. induction l as [|a l IH]; intro acc; cbn [map fold_left]; [left; reflexivity|].
  destruct (IH (cd_step acc (AEv a))) as [E|(e & t & Hin & He & E)].
  - rewrite E. unfold cd_step. destruct (end_time cd_end a) as [q|] eqn:Ha; [|left; reflexivity].
    destruct (Qmax_case acc q) as [M|M]; rewrite M; [left; reflexivity|].
    right. exists a, q. split; [left; reflexivity|]. split; [exact Ha|reflexivity].
  - right. exists e, t. split; [right; exact Hin|]. split; assumption.
Qed.

(* the generated end-time table of calc_duration.py agrees with the property text *)
Lemma end_time_cd_some (e : event) (t : Q) :
  end_time cd_end e = Some t -> exists t', ev_end e = Some t' /\ t == t'.
Proof.
  unfold end_time, ev_end, cd_end. destruct (e_kind e); cbn [map sumQ attr_val]; intro H;
    inversion H; subst; eexists; (split; [reflexivity|ring]).
Qed.
Lemma ev_end_cd_some (e : event) (t' : Q) :
  ev_end e = Some t' -> exists t, end_time cd_end e = Some t /\ t == t'.
Proof.
  unfold end_time, ev_end, cd_end. destruct (e_kind e); cbn [map sumQ attr_val]; intro H;
    inversion H; subst; eexists; (split; [reflexivity|ring]).
Qed.

Lemma block_duration_unfold (b : block) :
  block_duration b = fold_left cd_step (map AEv (block_events b)) (b_stored b).
Proof. reflexivity. Qed.

Lemma stored_le_block_duration (b : block) : b_stored b <= block_duration b.
Proof. rewrite block_duration_unfold. apply cd_fold_ge. Qed.

Lemma block_duration_spec (b : block) : IsBlockDuration b (block_duration b).
Proof.
  unfold IsBlockDuration. split; [apply stored_le_block_duration|]. split.
  - intros e t Hin He. destruct (ev_end_cd_some e t He) as (t0 & H0 & Eq).
    rewrite <- Eq. rewrite block_duration_unfold. eapply cd_fold_ub; eassumption.
  - rewrite block_duration_unfold.
    destruct (cd_fold_attained (block_events b) (b_stored b)) as [E|(e & t & Hin & He & E)].
    + left. rewrite E. reflexivity.
    + right. destruct (end_time_cd_some e t He) as (t' & H' & Eq).
      exists e, t'. split; [exact Hin|]. split; [exact H'|]. rewrite E. exact Eq.
Qed.

(* ------------------------------------------------------------------ report membership ------- *)
Lemma In_div_errs (x : err) bid sl a t r :
  In x (div_errs bid sl a t r) <-> x = (bid, sl, a, RASTER) /\ ~ OnRaster t r.
Proof.
  unfold div_errs. destruct (div_ok t r) eqn:E.
  - split; [intros []|]. intros [_ H]. exfalso. apply H. apply div_check_spec. exact E.
  - split.
    + intros [<-|[]]. split; [reflexivity|]. intro H. apply div_check_spec in H. congruence.
    + intros [-> _]. left. reflexivity.
Qed.

Lemma In_if (c : bool) (y x : err) : In x (if c then [y] else []) <-> c = true /\ x = y.
Proof.
  destruct c; cbn [In].
  - split; [intros [<-|[]]; auto|intros [_ ->]; auto].
  - split; [intros []|intros [H _]; discriminate].
Qed.

Fixpoint any_field (P : attr -> Q -> Prop) (l : list (attr * Q)) : Prop :=
  match l with [] => False | (a, r) :: t => P a r \/ any_field P t end.
Lemma any_field_iff P l : any_field P l <-> exists a r, In (a, r) l /\ P a r.
Proof.
  induction l as [|[a r] l IH]; cbn [any_field In].
  - split; [intros []|intros (a & r & [] & _)].
  - rewrite IH. split.
    + intros [H|(a' & r' & Hin & H)]; [exists a, r; auto|exists a', r'; auto].
    + intros (a' & r' & [E|Hin] & H); [inversion E; subst; auto|right; exists a', r'; auto].
Qed.

Lemma slot_errs_spec sys bid sl e (x : err) :
  In x (slot_errs sys bid (sl, e)) <->
  (has_delay (e_kind e) = true /\ e_delay e < - spec_eps /\ x = (bid, sl, A_delay, NEGATIVE_DELAY)) \/
  (exists a r, In (a, r) (raster_fields sys (e_kind e)) /\
               ~ OnRaster (attr_val e a) r /\ x = (bid, sl, a, RASTER)).
Proof.
  rewrite <- (any_field_iff (fun a r => ~ OnRaster (attr_val e a) r /\ x = (bid, sl, a, RASTER))).
  unfold slot_errs, ct_groups, group_errs.
  assert (N : forall d, Qltb (d + 0) (- timing_eps + 0) = true <-> d < - spec_eps).
  { intro d. rewrite Qltb_lt, timing_eps_spec. split; intro; lra. }
  destruct (e_kind e) eqn:K;
    cbn [flat_map app fst snd guard_holds has_attr ekind_eqb echeck_errs lintest_holds lin_val
         term_val lt_abs lt_lhs lt_cmp lt_rhs cmp_holds v_ev v_dur v_stored v_sys raster_of
         ct_kind_raster raster_fields has_delay any_field];
    rewrite ?K;
    cbn [flat_map app fst snd guard_holds has_attr ekind_eqb echeck_errs lintest_holds lin_val
         term_val lt_abs lt_lhs lt_cmp lt_rhs cmp_holds v_ev v_dur v_stored v_sys raster_of
         ct_kind_raster raster_fields has_delay any_field attr_val];
    rewrite ?in_app_iff, ?In_div_errs, ?In_if, ?N; cbn [In]; intuition congruence.
Qed.

(* ------------------------------------------------------------------ one block --------------- *)
Lemma mismatch_spec sys b : mismatch sys b = true <-> Mismatch b.
Proof.
  unfold mismatch, Mismatch, ct_mismatch.
  cbn [lintest_holds lin_val term_val lt_abs lt_lhs lt_cmp lt_rhs cmp_holds v_ev v_dur v_stored v_sys].
  rewrite Qltb_lt, timing_eps_spec. pose proof (stored_le_block_duration b) as L.
  rewrite Qabs_pos by lra. split; intro; lra.
Qed.

Lemma eff_avail sys b : eff_duration sys b = avail b.
Proof.
  unfold eff_duration, avail.
  destruct (mismatch sys b) eqn:M; destruct (Qlt_le_dec spec_eps (block_duration b - b_stored b)) as [H|H];
    try reflexivity.
  - apply mismatch_spec in M. unfold Mismatch in M. lra.
  - assert (M' : mismatch sys b = true) by (apply mismatch_spec; exact H). congruence.
Qed.

Lemma rf_errs_spec sys b r (x : err) :
  In x (dead_errs sys (b_id b) SRf r (avail b) (b_stored b) ct_rf_tests) <->
  (e_delay r < e_dead r - spec_eps /\ x = (b_id b, SRf, A_delay, RF_DEAD_TIME)) \/
  (avail b + spec_eps < rf_last r /\ x = (b_id b, SRf, A_duration, RF_RINGDOWN_TIME)).
Proof.
  unfold dead_errs, ct_rf_tests, rf_last.
  cbn [flat_map app fst snd lintest_holds lin_val term_val lt_abs lt_lhs lt_cmp lt_rhs cmp_holds
       v_ev v_dur v_stored v_sys attr_val].
  rewrite ?in_app_iff, ?In_if, ?Qltb_lt, timing_eps_spec. cbn [In].
  split.
  - intros [[H ->]|[[H ->]|[]]]; [left|right]; (split; [lra|reflexivity]).
  - intros [[H ->]|[H ->]]; [left|right; left]; (split; [lra|reflexivity]).
Qed.

Lemma adc_errs_spec sys b a (x : err) :
  In x (dead_errs sys (b_id b) SAdc a (avail b) (b_stored b) ct_adc_tests) <->
  (e_delay a < s_adc_dead sys - spec_eps /\ x = (b_id b, SAdc, A_delay, ADC_DEAD_TIME)) \/
  (avail b + spec_eps < adc_end sys a /\ x = (b_id b, SAdc, A_duration, POST_ADC_DEAD_TIME)).
Proof.
  unfold dead_errs, ct_adc_tests, adc_end.
  cbn [flat_map app fst snd lintest_holds lin_val term_val lt_abs lt_lhs lt_cmp lt_rhs cmp_holds
       v_ev v_dur v_stored v_sys attr_val].
  rewrite ?in_app_iff, ?In_if, ?Qltb_lt, timing_eps_spec. cbn [In].
  split.
  - intros [[H ->]|[[H ->]|[]]]; [left|right]; (split; [lra|reflexivity]).
  - intros [[H ->]|[H ->]]; [left|right; left]; (split; [lra|reflexivity]).
Qed.

(* which variant of the source is being verified: does check_timing.py test the stored duration
   against the block raster (repaired source) or calc_duration(block) (source as it is)? *)
Definition raster_on_stored : bool :=
  match ct_block_dur_term with TStored => true | _ => false end.
Lemma checked_duration_spec b : checked_duration b = dur_on_raster raster_on_stored b.
Proof. unfold checked_duration, dur_on_raster, raster_on_stored. destruct ct_block_dur_term; reflexivity. Qed.

(* soundness and completeness of the report of one block *)
Lemma check_block_spec sys b (x : err) :
  In x (check_block sys b) <-> BlockViolates raster_on_stored sys b x.
Proof.
  unfold check_block. rewrite eff_avail, checked_duration_spec.
  change (raster_of sys ct_block_raster) with (s_block_raster sys).
  rewrite !in_app_iff, In_div_errs, In_if, mismatch_spec, in_flat_map.
  split.
  - intros [[-> H]|[[H ->]|[(se & Hin & Hx)|[H|H]]]].
    + apply V_block_raster. exact H.
    + apply V_mismatch. exact H.
    + destruct se as [sl e]. apply slot_errs_spec in Hx.
      destruct Hx as [(Hd & Hn & ->)|(a & r & Hf & Ho & ->)].
      * eapply V_negative; eassumption.
      * eapply V_field; eassumption.
    + destruct (b_rf b) as [r|] eqn:R; [|destruct H].
      apply rf_errs_spec in H. destruct H as [[H ->]|[H ->]].
      * eapply V_rf_dead; [exact R|exact H].
      * eapply V_rf_ring; [exact R|exact H].
    + destruct (b_adc b) as [a|] eqn:A; [|destruct H].
      apply adc_errs_spec in H. destruct H as [[H ->]|[H ->]].
      * eapply V_adc_dead; [exact A|exact H].
      * eapply V_adc_post; [exact A|exact H].
  - intro V. destruct V as [H|H|sl e Hin Hd Hn|sl e a r Hin Hf Ho|r R H|r R H|a A H|a A H].
    + left. split; [reflexivity|exact H].
    + right; left. split; [exact H|reflexivity].
    + right; right; left. exists (sl, e). split; [exact Hin|].
      apply slot_errs_spec. left. auto.
    + right; right; left. exists (sl, e). split; [exact Hin|].
      apply slot_errs_spec. right. exists a, r. auto.
    + right; right; right; left. rewrite R. apply rf_errs_spec. left. auto.
    + right; right; right; left. rewrite R. apply rf_errs_spec. right. auto.
    + right; right; right; right. rewrite A. apply adc_errs_spec. left. auto.
    + right; right; right; right. rewrite A. apply adc_errs_spec. right. auto.
Qed.

(* C10 report_complete_sound *)
Theorem report_complete_sound sys bs (x : err) :
  In x (check_timing sys bs) <-> Violates raster_on_stored sys bs x.
Proof.
  unfold check_timing, Violates. rewrite in_flat_map.
  split; intros (b & Hin & H); exists b; (split; [exact Hin|]); apply check_block_spec; exact H.
Qed.

Lemma nil_iff_no_member {A} (l : list A) : l = [] <-> forall x, ~ In x l.
Proof.
  split; [intros -> x []|]. destruct l as [|a l]; [reflexivity|].
  intro H. exfalso. apply (H a). left. reflexivity.
Qed.

Lemma avail_no_mismatch b : block_duration b - b_stored b <= spec_eps -> avail b = block_duration b.
Proof. intro H. unfold avail. destruct (Qlt_le_dec spec_eps (block_duration b - b_stored b)); [lra|reflexivity]. Qed.

Lemma block_valid_iff v sys b : BlockValid v sys b <-> forall x, ~ BlockViolates v sys b x.
Proof.
  split.
  - intros (HR & HM & HE & HRf & HAdc) x V.
    destruct V as [H|H|sl e Hin Hd Hn|sl e a r Hin Hf Ho|r R H|r R H|a A H|a A H].
    + exact (H HR).
    + unfold Mismatch in H. lra.
    + destruct (HE sl e Hin) as [N _]. specialize (N Hd). unfold NonNeg in N. lra.
    + destruct (HE sl e Hin) as [_ Fd]. exact (Ho (Fd a r Hf)).
    + destruct (HRf r R) as [D _]. unfold AtLeast in D. lra.
    + destruct (HRf r R) as [_ D]. unfold Fits in D. rewrite (avail_no_mismatch b HM) in H. lra.
    + destruct (HAdc a A) as [D _]. unfold AtLeast in D. lra.
    + destruct (HAdc a A) as [_ D]. unfold Fits in D. rewrite (avail_no_mismatch b HM) in H. lra.
  - intro NV.
    assert (HM : block_duration b - b_stored b <= spec_eps).
    { destruct (Qlt_le_dec spec_eps (block_duration b - b_stored b)) as [H|H]; [|exact H].
      exfalso. exact (NV _ (V_mismatch v sys b H)). }
    unfold BlockValid. split; [|split; [exact HM|split; [|split]]].
    + destruct (OnRaster_dec (dur_on_raster v b) (s_block_raster sys)) as [H|H]; [exact H|].
      exfalso. exact (NV _ (V_block_raster v sys b H)).
    + intros sl e Hin. split.
      * intro Hd. unfold NonNeg. destruct (Qlt_le_dec (e_delay e) (- spec_eps)) as [H|H]; [|exact H].
        exfalso. exact (NV _ (V_negative v sys b sl e Hin Hd H)).
      * intros a r Hf. destruct (OnRaster_dec (attr_val e a) r) as [H|H]; [exact H|].
        exfalso. exact (NV _ (V_field v sys b sl e a r Hin Hf H)).
    + intros r R. split.
      * unfold AtLeast. destruct (Qlt_le_dec (e_delay r) (e_dead r - spec_eps)) as [H|H]; [|exact H].
        exfalso. exact (NV _ (V_rf_dead v sys b r R H)).
      * unfold Fits. destruct (Qlt_le_dec (block_duration b + spec_eps) (rf_last r)) as [H|H]; [|exact H].
        exfalso. rewrite <- (avail_no_mismatch b HM) in H. exact (NV _ (V_rf_ring v sys b r R H)).
    + intros a A. split.
      * unfold AtLeast. destruct (Qlt_le_dec (e_delay a) (s_adc_dead sys - spec_eps)) as [H|H]; [|exact H].
        exfalso. exact (NV _ (V_adc_dead v sys b a A H)).
      * unfold Fits. destruct (Qlt_le_dec (block_duration b + spec_eps) (adc_end sys a)) as [H|H]; [|exact H].
        exfalso. rewrite <- (avail_no_mismatch b HM) in H. exact (NV _ (V_adc_post v sys b a A H)).
Qed.

(* C10 check_ok_iff *)
Theorem check_ok_iff sys bs : check_timing sys bs = [] <-> TimingValid raster_on_stored sys bs.
Proof.
  rewrite nil_iff_no_member. unfold TimingValid. rewrite Forall_forall.
  split.
  - intros H b Hin. apply block_valid_iff. intros x V.
    apply (H x). apply report_complete_sound. exists b. auto.
  - intros H x Hx. apply report_complete_sound in Hx. destruct Hx as (b & Hin & V).
    exact (proj1 (block_valid_iff _ sys b) (H b Hin) x V).
Qed.

Lemma check_ok_true_iff sys bs : check_ok sys bs = true <-> TimingValid raster_on_stored sys bs.
Proof.
  rewrite <- check_ok_iff. unfold check_ok. destruct (check_timing sys bs); split; intro; congruence.
Qed.

(* the table-driven clause, spelled out for the kinds get_block produces *)
Lemma EventValid_rf sys e : e_kind e = KRf ->
  (EventValid sys e <-> NonNeg (e_delay e) /\ OnRaster (e_delay e) (s_rf_raster sys)).
Proof.
  intro K. unfold EventValid. rewrite K. cbn [has_delay raster_fields]. split.
  - intros [N Fd]. split; [auto|]. apply (Fd A_delay). left. reflexivity.
  - intros [N D]. split; [auto|]. intros a r [E|[]]. inversion E; subst. exact D.
Qed.
Lemma EventValid_adc sys e : e_kind e = KAdc ->
  (EventValid sys e <-> NonNeg (e_delay e) /\ OnRaster (e_delay e) (s_rf_raster sys) /\
                        OnRaster (e_dwell e) (s_adc_raster sys)).
Proof.
  intro K. unfold EventValid. rewrite K. cbn [has_delay raster_fields]. split.
  - intros [N Fd]. split; [auto|]. split; [apply (Fd A_delay)|apply (Fd A_dwell)]; cbn [In]; auto.
  - intros (N & D & W). split; [auto|]. intros a r [E|[E|[]]]; inversion E; subst; assumption.
Qed.
Lemma EventValid_trap sys e : e_kind e = KTrap ->
  (EventValid sys e <-> NonNeg (e_delay e) /\ OnRaster (e_delay e) (s_grad_raster sys) /\
     OnRaster (e_rise e) (s_grad_raster sys) /\ OnRaster (e_flat e) (s_grad_raster sys) /\
     OnRaster (e_fall e) (s_grad_raster sys)).
Proof.
  intro K. unfold EventValid. rewrite K. cbn [has_delay raster_fields]. split.
  - intros [N Fd]. split; [auto|].
    repeat split; [apply (Fd A_delay)|apply (Fd A_rise_time)|apply (Fd A_flat_time)|apply (Fd A_fall_time)];
      cbn [In]; auto.
  - intros (N & D & R & Fl & Fa). split; [auto|].
    intros a r [E|[E|[E|[E|[]]]]]; inversion E; subst; assumption.
Qed.
Lemma EventValid_grad sys e : e_kind e = KGrad ->
  (EventValid sys e <-> NonNeg (e_delay e) /\ OnRaster (e_delay e) (s_grad_raster sys)).
Proof.
  intro K. unfold EventValid. rewrite K. cbn [has_delay raster_fields]. split.
  - intros [N Fd]. split; [auto|]. apply (Fd A_delay). left. reflexivity.
  - intros [N D]. split; [auto|]. intros a r [E|[]]. inversion E; subst. exact D.
Qed.

(* ------------------------------------------- ring-down test vs. duration mismatch ----------- *)
Lemma rf_end_le_block_duration b r :
  b_rf b = Some r -> e_kind r = KRf -> e_delay r + e_shape_dur r + e_ring r <= block_duration b.
Proof.
  intros R K. destruct (block_duration_spec b) as (_ & U & _).
  apply (U r).
  - unfold block_events, block_slots. rewrite R. cbn [opt_slot app map snd]. left. reflexivity.
  - unfold ev_end. rewrite K. reflexivity.
Qed.

(* the explicit RF_RINGDOWN_TIME test (last sample t[-1]) can only fire together with
   BLOCK_DURATION_MISMATCH when the decoded RF satisfies t[-1] <= shape_dur *)
Lemma ringdown_error_implies_mismatch sys b r :
  b_rf b = Some r -> e_kind r = KRf -> e_tlast r <= e_shape_dur r + spec_eps ->
  In (b_id b, SRf, A_duration, RF_RINGDOWN_TIME) (check_block sys b) ->
  In (b_id b, SBlock, A_duration, BLOCK_DURATION_MISMATCH) (check_block sys b).
Proof.
  intros R K T H. apply check_block_spec in H. apply check_block_spec.
  apply V_mismatch. unfold Mismatch.
  inversion H as [| | | | |r' R' H'| |]; subst.
  rewrite R in R'. inversion R'; subst r'.
  pose proof (rf_end_le_block_duration b r R K) as L.
  unfold rf_last in H'. unfold avail in H'.
  destruct (Qlt_le_dec spec_eps (block_duration b - b_stored b)) as [M|M]; [exact M|].
  exfalso. unfold spec_eps in *. lra.
Qed.

Definition DecodedRf (bs : list block) : Prop :=
  forall b r, In b bs -> b_rf b = Some r -> e_kind r = KRf /\ e_tlast r <= e_shape_dur r + spec_eps.

Lemma block_valid_text_iff v sys b :
  (forall r, b_rf b = Some r -> e_kind r = KRf /\ e_tlast r <= e_shape_dur r + spec_eps) ->
  (BlockValid v sys b <-> BlockValid_text v sys b).
Proof.
  intro Dec. unfold BlockValid, BlockValid_text. split.
  - intros (HR & HM & HE & HRf & HA). split; [exact HR|]. split; [exact HM|]. split; [exact HE|].
    split; [|exact HA]. intros r R. destruct (HRf r R) as [D1 D2]. split; [exact D1|].
    destruct (Dec r R) as [K T]. pose proof (rf_end_le_block_duration b r R K). unfold Fits. lra.
  - intros (HR & HM & HE & HRf & HA). split; [exact HR|]. split; [exact HM|]. split; [exact HE|].
    split; [|exact HA]. intros r R. destruct (HRf r R) as [D1 D2]. split; [exact D1|].
    destruct (Dec r R) as [K T]. pose proof (rf_end_le_block_duration b r R K). unfold Fits, rf_last.
    unfold spec_eps in *. lra.
Qed.

Theorem check_ok_iff_text sys bs : DecodedRf bs ->
  (check_timing sys bs = [] <-> TimingValid_text raster_on_stored sys bs).
Proof.
  intro Dec. rewrite check_ok_iff. unfold TimingValid, TimingValid_text. rewrite !Forall_forall.
  split; intros H b Hin; apply (block_valid_text_iff _ sys b (fun r => Dec b r Hin)); auto.
Qed.

(* ------------------------------------------------ ok implies the write-time assertion -------- *)
Lemma write_assert_spec sys b : write_assert_ok sys b = true <-> OnRaster (b_stored b) (s_block_raster sys).
Proof.
  rewrite <- div_check_spec. unfold write_assert_ok, div_ok.
  change write_cmp with CLt. change div_cmp with CLt. cbn [cmp_holds].
  assert (E : write_tol = div_tol) by reflexivity. rewrite E.
  set (c := b_stored b / s_block_raster sys).
  rewrite !Qltb_lt.
  assert (A : Qabs (inject_Z (rnd_he c) - c) == Qabs (c - inject_Z (rnd_he c))).
  { rewrite <- Qabs_opp. apply Qabs_wd. ring. }
  rewrite A. reflexivity.
Qed.

Theorem ok_implies_write_clean sys bs :
  check_timing sys bs = [] ->
  (* the stored duration covers the content; not needed when the source tests the stored duration *)
  (raster_on_stored = true \/ Forall (fun b => block_duration b <= b_stored b) bs) ->
  Forall (fun b => write_assert_ok sys b = true) bs.
Proof.
  intros Hok Hc. apply check_ok_iff in Hok. unfold TimingValid in Hok.
  rewrite Forall_forall in Hok. apply Forall_forall. intros b Hin. apply write_assert_spec.
  destruct (Hok b Hin) as (HR & _). unfold dur_on_raster in HR.
  destruct raster_on_stored eqn:V; [exact HR|].
  destruct Hc as [Hc|Hc]; [discriminate Hc|].
  rewrite Forall_forall in Hc. pose proof (stored_le_block_duration b) as L.
  specialize (Hc b Hin). cbv beta in Hc.
  assert (E : b_stored b == block_duration b) by lra.
  rewrite E. exact HR.
Qed.

(* without that hypothesis the statement is false at the sub-eps scale: stored 0.5 ns short of an
   on-raster content passes check_timing (mismatch tolerance eps = 1 ns) but not the writer's
   1e-6-raster assertion *)
Definition cex_sys : system :=
  {| s_block_raster := 1 # 100000; s_rf_raster := 1 # 1000000; s_grad_raster := 1 # 100000;
     s_adc_raster := 1 # 10000000; s_adc_dead := 0; s_rf_dead := 0; s_rf_ring := 0 |}.
Definition cex_rf : event :=
  {| e_kind := KRf; e_delay := 0; e_shape_dur := 1 # 1000; e_ring := 0; e_dead := 0; e_rise := 0;
     e_flat := 0; e_fall := 0; e_duration := 0; e_dwell := 0; e_nsamp := 0%Z; e_tlast := 1 # 1000;
     e_tfirst := 0; e_center := 1 # 2000; e_use := 0%Z; e_regular := false |}.
Definition cex_block : block :=
  {| b_id := 1%Z; b_stored := (1 # 1000) - (1 # 2000000000); b_rf := Some cex_rf; b_gx := None;
     b_gy := None; b_gz := None; b_adc := None; b_ext := [] |}.
Lemma ok_write_clean_refuted : raster_on_stored = false ->
  exists sys bs, check_timing sys bs = [] /\ exists b, In b bs /\ write_assert_ok sys b = false.
Proof.
  intro V. exists cex_sys, [cex_block]. split.
  - (* evaluated on the real tables; in the repaired variant the premise V is absurd *)
    revert V. unfold raster_on_stored. destruct ct_block_dur_term eqn:T; intro V; try discriminate V;
      first [discriminate T | vm_compute; reflexivity].
  - exists cex_block. split; [left; reflexivity|vm_compute; reflexivity].
Qed.

(* non-vacuity: a valid block and a faulty one *)
Definition ex_trap : event :=
  {| e_kind := KTrap; e_delay := 0; e_shape_dur := 0; e_ring := 0; e_dead := 0; e_rise := 1 # 10000;
     e_flat := 8 # 10000; e_fall := 1 # 10000; e_duration := 0; e_dwell := 0; e_nsamp := 0%Z;
     e_tlast := 0; e_tfirst := 0; e_center := 0; e_use := 0%Z; e_regular := false |}.
Definition ex_block_ok : block :=
  {| b_id := 1%Z; b_stored := 1 # 1000; b_rf := None; b_gx := Some ex_trap; b_gy := None;
     b_gz := None; b_adc := None; b_ext := [] |}.
Definition ex_trap_bad : event :=
  {| e_kind := KTrap; e_delay := 0; e_shape_dur := 0; e_ring := 0; e_dead := 0; e_rise := 123 # 1000000;
     e_flat := 8 # 10000; e_fall := 1 # 10000; e_duration := 0; e_dwell := 0; e_nsamp := 0%Z;
     e_tlast := 0; e_tfirst := 0; e_center := 0; e_use := 0%Z; e_regular := false |}.
Definition ex_block_bad : block :=
  {| b_id := 2%Z; b_stored := 1023 # 1000000; b_rf := None; b_gx := Some ex_trap_bad; b_gy := None;
     b_gz := None; b_adc := None; b_ext := [] |}.
Lemma timing_examples :
  TimingValid raster_on_stored cex_sys [ex_block_ok] /\
  check_timing cex_sys [ex_block_ok; ex_block_bad] =
    [(2%Z, SBlock, A_duration, RASTER); (2%Z, SGx, A_rise_time, RASTER)].
Proof.
  split; [apply check_ok_iff; vm_compute; reflexivity|vm_compute; reflexivity].
Qed.

(* =============================================================================== C07 ======== *)
Lemma Qmax_compat a b a' b' : a == a' -> b == b' -> Qmax a b == Qmax a' b'.
Proof.
  intros Ha Hb. unfold Qmax.
  destruct (Qle_bool a b) eqn:E; destruct (Qle_bool a' b') eqn:E'; try assumption.
  - apply Qle_bool_iff in E. assert (N : ~ a' <= b') by (intro H; apply Qle_bool_iff in H; congruence). lra.
  - apply Qle_bool_iff in E'. assert (N : ~ a <= b) by (intro H; apply Qle_bool_iff in H; congruence). lra.
Qed.
Lemma Qmax_lub a b u : a <= u -> b <= u -> Qmax a b <= u.
Proof. intros. destruct (Qmax_case a b) as [E|E]; rewrite E; assumption. Qed.

Lemma Qceiling_unique (x : Q) (k : Z) : inject_Z (k - 1) < x -> x <= inject_Z k -> Qceiling x = k.
Proof.
  intros H1 H2. unfold Qceiling. rewrite inject_Z_pred in H1.
  assert (F : Qfloor (- x) = (- k)%Z).
  { apply Qfloor_unique; rewrite inject_Z_opp; lra. }
  rewrite F. lia.
Qed.

(* end time that set_block accumulates for one argument (block.py:55-155) *)
Definition sb_arg_end (g : Q) (a : arg) : option Q :=
  match a with
  | ADur d => Some d
  | AEv e => match e_kind e with KGrad => Some (grad_end_sb g e) | _ => end_time sb_end e end
  end.
Lemma sb_step_eq g acc a :
  sb_step g acc a = match sb_arg_end g a with Some t => Qmax acc t | None => acc end.
Proof. destruct a as [e|d]; cbn [sb_step sb_arg_end]; [destruct (e_kind e)|]; reflexivity. Qed.

Lemma sb_fold_ge g l acc : acc <= fold_left (sb_step g) l acc.
Proof.
  revert acc. induction l as [|a l IH]; intro acc; cbn [fold_left]; [lra|].
  eapply Qle_trans; [|apply IH]. rewrite sb_step_eq. destruct (sb_arg_end g a); [apply Qmax_ub_l|lra].
Qed.
Lemma sb_fold_ub g l acc a t :
  In a l -> sb_arg_end g a = Some t -> t <= fold_left (sb_step g) l acc.
Proof.
  revert acc. induction l as [|a0 l IH]; intros acc Hin He; [destruct Hin|].
  cbn [fold_left]. destruct Hin as [->|Hin].
  - eapply Qle_trans; [|apply sb_fold_ge]. rewrite sb_step_eq, He. apply Qmax_ub_r.
  - apply IH; assumption.
Qed.
Lemma sb_fold_attained g l acc :
  fold_left (sb_step g) l acc = acc \/
  exists a t, In a l /\ sb_arg_end g a = Some t /\ fold_left (sb_step g) l acc = t.
Proof.
  revert acc. induction l as [|a0 l IH]; intro acc; cbn [fold_left]; [left; reflexivity|].
  destruct (IH (sb_step g acc a0)) as [E|(a & t & Hin & He & E)].
  - rewrite E, sb_step_eq. destruct (sb_arg_end g a0) as [q|] eqn:Ha; [|left; reflexivity].
    destruct (Qmax_case acc q) as [M|M]; rewrite M; [left; reflexivity|].
    right. exists a0, q. split; [left; reflexivity|]. split; [exact Ha|reflexivity].
  - right. exists a, t. split; [right; exact Hin|]. split; assumption.
Qed.

Lemma grad_end_own g e : 0 < g -> e_kind e = KGrad -> GradOwn g e ->
  grad_end_sb g e == e_delay e + e_shape_dur e.
Proof.
  intros Hg K Own. destruct (Own K) as (k & Hs & H1 & H2).
  unfold grad_end_sb. change sb_ceil_guard with (1 # 10000000000).
  rewrite (Qceiling_unique _ k H1 H2), Hs. reflexivity.
Qed.

(* set_block's per-argument end time is the one of the property text (own-system events) *)
Lemma sb_arg_end_spec g a : 0 < g -> (forall e, a = AEv e -> GradOwn g e) ->
  match sb_arg_end g a, arg_end a with
  | Some t, Some t' => t == t'
  | None, None => True
  | _, _ => False
  end.
Proof.
  intros Hg Own. destruct a as [e|d]; cbn [sb_arg_end arg_end]; [|reflexivity].
  destruct (e_kind e) eqn:K; unfold ev_end, end_time, sb_end; rewrite K; cbn [map sumQ attr_val];
    try ring; try exact I.
  rewrite (grad_end_own g e Hg K (Own e eq_refl)). reflexivity.
Qed.

Definition IsMaxEnd (l : list arg) (D : Q) : Prop :=
  0 <= D /\
  (forall a t, In a l -> arg_end a = Some t -> t <= D) /\
  (D == 0 \/ exists a t, In a l /\ arg_end a = Some t /\ D == t).

(* C07 stored_is_max_end *)
Theorem stored_is_max_end g l : 0 < g -> OwnArgs g l -> IsMaxEnd l (set_block_duration g l).
Proof.
  intros Hg Own. unfold IsMaxEnd, set_block_duration.
  assert (S : forall a, In a l -> forall e, a = AEv e -> GradOwn g e).
  { intros a Hin e ->. apply Own. exact Hin. }
  split; [apply sb_fold_ge|]. split.
  - intros a t Hin He. pose proof (sb_arg_end_spec g a Hg (S a Hin)) as R. rewrite He in R.
    destruct (sb_arg_end g a) as [t0|] eqn:E0; [|destruct R].
    rewrite <- R. eapply sb_fold_ub; eassumption.
  - destruct (sb_fold_attained g l 0) as [E|(a & t & Hin & He & E)].
    + left. rewrite E. reflexivity.
    + right. pose proof (sb_arg_end_spec g a Hg (S a Hin)) as R. rewrite He in R.
      destruct (arg_end a) as [t'|] eqn:E'; [|destruct R].
      exists a, t'. split; [exact Hin|]. split; [exact E'|]. rewrite E. exact R.
Qed.

(* set_block and calc_duration accumulate the same value over the same events *)
Lemma sb_cd_step g acc acc' e : 0 < g -> GradOwn g e -> acc == acc' ->
  sb_step g acc (AEv e) == cd_step acc' (AEv e).
Proof.
  intros Hg Own Ha. cbn [sb_step cd_step].
  destruct (e_kind e) eqn:K; unfold end_time, sb_end, cd_end; rewrite ?K; cbn [map sumQ attr_val];
    try (apply Qmax_compat; [exact Ha|ring]); try exact Ha.
  apply Qmax_compat; [exact Ha|]. rewrite (grad_end_own g e Hg K Own). ring.
Qed.

Lemma sb_cd_fold g evs acc acc' : 0 < g -> (forall e, In e evs -> GradOwn g e) -> acc == acc' ->
  fold_left (sb_step g) (map AEv evs) acc == fold_left cd_step (map AEv evs) acc'.
Proof.
  intros Hg. revert acc acc'. induction evs as [|e evs IH]; intros acc acc' Own Ha; cbn [map fold_left];
    [exact Ha|].
  apply IH; [intros e' H; apply Own; right; exact H|].
  apply sb_cd_step; [exact Hg|apply Own; left; reflexivity|exact Ha].
Qed.

Lemma cd_fold_lub l acc u :
  acc <= u -> (forall e t, In e l -> end_time cd_end e = Some t -> t <= u) ->
  fold_left cd_step (map AEv l) acc <= u.
Proof.
  revert acc. induction l as [|e l IH]; intros acc Ha Hu; cbn [map fold_left]; [exact Ha|].
  apply IH; [|intros e' t H; apply Hu; right; exact H].
  unfold cd_step. destruct (end_time cd_end e) as [t|] eqn:E; [|exact Ha].
  apply Qmax_lub; [exact Ha|]. apply (Hu e t); [left; reflexivity|exact E].
Qed.

Lemma In_map_AEv e evs : In (AEv e) (map AEv evs) -> In e evs.
Proof. intro H. apply in_map_iff in H. destruct H as (e' & E & Hin). inversion E; subst. exact Hin. Qed.

(* C07 stored_eq_calc_duration: the duration stored by set_block for own-system events equals
   calc_duration of the same events, and calc_duration of the decoded block (which starts from the
   stored duration) returns it unchanged *)
Theorem stored_eq_calc_duration g evs : 0 < g -> OwnArgs g (map AEv evs) ->
  set_block_duration g (map AEv evs) == calc_duration (map AEv evs) /\
  forall s, s == set_block_duration g (map AEv evs) -> calc_duration (ADur s :: map AEv evs) == s.
Proof.
  intros Hg Own.
  assert (Own' : forall e, In e evs -> GradOwn g e).
  { intros e Hin. apply Own. apply in_map. exact Hin. }
  assert (E1 : set_block_duration g (map AEv evs) == calc_duration (map AEv evs)).
  { unfold set_block_duration, calc_duration. apply sb_cd_fold; [exact Hg|exact Own'|reflexivity]. }
  split; [exact E1|].
  intros s Hs. unfold calc_duration. cbn [fold_left cd_step].
  apply Qle_antisym; [|apply cd_fold_ge].
  apply cd_fold_lub; [lra|].
  intros e t Hin He. rewrite Hs, E1. unfold calc_duration. eapply cd_fold_ub; eassumption.
Qed.

(* ---------------------------------------------------------------------- the timeline -------- *)
Lemma prefix_sum_S b bs i : prefix_sum (b :: bs) (S i) == b_stored b + prefix_sum bs i.
Proof. unfold prefix_sum. cbn [firstn map sumQ]. reflexivity. Qed.

Lemma advance_eq cur b : advance cur b == cur + b_stored b.
Proof. unfold advance. apply Qred_correct. Qed.

Lemma starts_go_nth cur bs i : (i < length bs)%nat ->
  nth i (starts_go cur bs) 0 == cur + prefix_sum bs i.
Proof.
  revert cur i. induction bs as [|b bs IH]; intros cur i Hi; [inversion Hi|].
  destruct i as [|i]; cbn [starts_go nth].
  - unfold prefix_sum. cbn [firstn map sumQ]. ring.
  - rewrite IH by (cbn [length] in Hi; lia). rewrite prefix_sum_S, advance_eq. ring.
Qed.

Theorem starts_are_prefix_sums bs i : (i < length bs)%nat -> nth i (starts bs) 0 == prefix_sum bs i.
Proof. intro Hi. unfold starts. rewrite starts_go_nth by exact Hi. ring. Qed.

Lemma starts_length cur bs : length (starts_go cur bs) = length bs.
Proof. revert cur. induction bs as [|b bs IH]; intro cur; cbn [starts_go length]; [reflexivity|]. rewrite IH. reflexivity. Qed.

(* every consumer evaluates its per-block part at the block start of [starts] *)
Definition at_starts {A} (f : Q -> block -> list A) (cur : Q) (bs : list block) : list A :=
  flat_map (fun p => f (fst p) (snd p)) (combine (starts_go cur bs) bs).

Lemma adc_times_at_starts cur bs : adc_times_go cur bs = at_starts adc_local cur bs.
Proof.
  unfold at_starts. revert cur. induction bs as [|b bs IH]; intro cur; cbn [adc_times_go starts_go combine flat_map fst snd];
    [reflexivity|]. rewrite IH. reflexivity.
Qed.
Lemma rf_times_at_starts cur bs : rf_times_go cur bs = at_starts rf_local cur bs.
Proof.
  unfold at_starts. revert cur. induction bs as [|b bs IH]; intro cur; cbn [rf_times_go starts_go combine flat_map fst snd];
    [reflexivity|]. rewrite IH. reflexivity.
Qed.
Lemma wave_at_starts g ch cur bs : wave_go g ch cur bs = at_starts (wave_local g ch) cur bs.
Proof.
  unfold at_starts. revert cur. induction bs as [|b bs IH]; intro cur; cbn [wave_go starts_go combine flat_map fst snd];
    [reflexivity|]. rewrite IH. reflexivity.
Qed.

Theorem starts_adc bs : adc_times bs = at_starts adc_local 0 bs.
Proof. apply adc_times_at_starts. Qed.
Theorem starts_rf bs : rf_times bs = at_starts rf_local 0 bs.
Proof. apply rf_times_at_starts. Qed.
Theorem starts_wave g ch bs : wave_pieces g ch bs = at_starts (wave_local g ch) 0 bs.
Proof. apply wave_at_starts. Qed.

Lemma duration_go_sum acc bs : duration_go acc bs == acc + sumQ (map b_stored bs).
Proof.
  revert acc. induction bs as [|b bs IH]; intro acc; cbn [duration_go map sumQ]; [ring|].
  rewrite IH, advance_eq. ring.
Qed.
Lemma fold_plus_sum acc l : fold_left Qplus l acc == acc + sumQ l.
Proof.
  revert acc. induction l as [|x l IH]; intro acc; cbn [fold_left sumQ]; [ring|]. rewrite IH. ring.
Qed.
Lemma prefix_sum_all bs : prefix_sum bs (length bs) == sumQ (map b_stored bs).
Proof. unfold prefix_sum. rewrite firstn_all. reflexivity. Qed.

(* C07 total_duration_agree: duration(), TotalDuration / calculate_kspace's total and the running
   sum after the last block are the same number *)
Theorem total_duration_agree bs :
  seq_duration bs == total_duration bs /\ total_duration bs == prefix_sum bs (length bs).
Proof.
  unfold seq_duration, total_duration. rewrite duration_go_sum, fold_plus_sum, prefix_sum_all.
  split; ring.
Qed.

(* the start of the block after the last one (= total) continues the same running sum *)
Lemma duration_go_app acc bs b : duration_go acc (bs ++ [b]) == duration_go acc bs + b_stored b.
Proof. rewrite !duration_go_sum, map_app. cbn [map]. 
  assert (E : forall l x, sumQ (l ++ [x]) == sumQ l + x).
  { induction l as [|y l IH]; intro x; cbn [app sumQ]; [ring|]. rewrite IH. ring. }
  rewrite E. ring.
Qed.

(* time_range variants (cumsum minus own duration) *)
Lemma cumsum_go_nth acc l i : (i < length l)%nat ->
  nth i (cumsum_go acc l) 0 == acc + sumQ (firstn (S i) l).
Proof.
  revert acc i. induction l as [|x l IH]; intros acc i Hi; [inversion Hi|].
  destruct i as [|i]; cbn [cumsum_go nth].
  - cbn [firstn sumQ]. rewrite Qred_correct. ring.
  - rewrite IH by (cbn [length] in Hi; lia). cbn [firstn sumQ]. rewrite Qred_correct. ring.
Qed.
Lemma sumQ_firstn_S (l : list Q) i : (i < length l)%nat ->
  sumQ (firstn (S i) l) == sumQ (firstn i l) + nth i l 0.
Proof.
  revert i. induction l as [|x l IH]; intros i Hi; [inversion Hi|].
  destruct i as [|i].
  - cbn [firstn sumQ nth]. ring.
  - change (firstn (S (S i)) (x :: l)) with (x :: firstn (S i) l).
    change (firstn (S i) (x :: l)) with (x :: firstn i l).
    cbn [sumQ nth]. rewrite IH by (cbn [length] in Hi; lia). ring.
Qed.
Theorem time_range_start_agree bs i : (i < length bs)%nat -> tr_start bs i == prefix_sum bs i.
Proof.
  intro Hi. unfold tr_start, prefix_sum.
  rewrite cumsum_go_nth by (rewrite map_length; exact Hi).
  rewrite sumQ_firstn_S by (rewrite map_length; exact Hi).
  rewrite firstn_map. ring.
Qed.

(* C07 blocks_column_agree: a stored duration on the block raster is reproduced exactly by the
   integer written in the [BLOCKS] section (and hence by a reader that multiplies it back) *)
Theorem blocks_column_agree sys b (k : Z) : 0 < s_block_raster sys ->
  b_stored b == inject_Z k * s_block_raster sys ->
  blocks_column sys b = k /\ inject_Z (blocks_column sys b) * s_block_raster sys == b_stored b.
Proof.
  intros Hr Hk. unfold blocks_column.
  assert (E : b_stored b / s_block_raster sys == inject_Z k) by (rewrite Hk; field; lra).
  rewrite E, rnd_he_inject. split; [reflexivity|]. rewrite Hk. reflexivity.
Qed.

Lemma c07_example :
  OwnArgs (1 # 100000) [AEv ex_trap; ADur (3 # 10000)] /\
  set_block_duration (1 # 100000) [AEv ex_trap; ADur (3 # 10000)] == 1 # 1000.
Proof.
  split; [|vm_compute; reflexivity].
  intros e [E|[E|[]]]; [|discriminate E]. inversion E; subst. intro K. discriminate K.
Qed.

(* =================================================== the report has no duplicate entries ===== *)
Inductive subseq {A : Type} : list A -> list A -> Prop :=
| ss_nil : subseq [] []
| ss_skip x l1 l2 : subseq l1 l2 -> subseq l1 (x :: l2)
| ss_take x l1 l2 : subseq l1 l2 -> subseq (x :: l1) (x :: l2).

Lemma subseq_nil_l {A} (l : list A) : subseq [] l.
Proof. induction l; [apply ss_nil|apply ss_skip; assumption]. Qed.
Lemma subseq_refl {A} (l : list A) : subseq l l.
Proof. induction l; [apply ss_nil|apply ss_take; assumption]. Qed.
Lemma subseq_app {A} (a a' b b' : list A) : subseq a a' -> subseq b b' -> subseq (a ++ b) (a' ++ b').
Proof.
  intros H K. induction H; cbn [app]; [exact K|apply ss_skip; assumption|apply ss_take; assumption].
Qed.
Lemma subseq_In {A} (l l' : list A) x : subseq l l' -> In x l -> In x l'.
Proof.
  intro H. induction H; intro Hin; [destruct Hin|right; auto|].
  destruct Hin as [->|Hin]; [left; reflexivity|right; auto].
Qed.
Lemma subseq_NoDup {A} (l l' : list A) : subseq l l' -> NoDup l' -> NoDup l.
Proof.
  intro H. induction H; intro N; [constructor|inversion N; subst; auto|].
  inversion N; subst. constructor; [|auto]. intro Hin. apply H2. eapply subseq_In; eassumption.
Qed.
Lemma subseq_if {A} (c : bool) (x : A) : subseq (if c then [x] else []) [x].
Proof. destruct c; [apply subseq_refl|apply subseq_nil_l]. Qed.
Lemma subseq_div bid sl a t r : subseq (div_errs bid sl a t r) [(bid, sl, a, RASTER)].
Proof. unfold div_errs. destruct (div_ok t r); [apply subseq_nil_l|apply subseq_refl]. Qed.

(* every entry that can ever be reported for one attribute slot / one block, in report order *)
Definition slot_full (bid : Z) (sl : slot) : list err :=
  [(bid, sl, A_delay, NEGATIVE_DELAY); (bid, sl, A_delay, RASTER); (bid, sl, A_duration, RASTER);
   (bid, sl, A_dwell, RASTER); (bid, sl, A_rise_time, RASTER); (bid, sl, A_flat_time, RASTER);
   (bid, sl, A_fall_time, RASTER)].
Definition block_full (bid : Z) : list err :=
  [(bid, SBlock, A_duration, RASTER); (bid, SBlock, A_duration, BLOCK_DURATION_MISMATCH)]
  ++ slot_full bid SRf ++ slot_full bid SGx ++ slot_full bid SGy ++ slot_full bid SGz
  ++ slot_full bid SAdc
  ++ [(bid, SRf, A_delay, RF_DEAD_TIME); (bid, SRf, A_duration, RF_RINGDOWN_TIME)]
  ++ [(bid, SAdc, A_delay, ADC_DEAD_TIME); (bid, SAdc, A_duration, POST_ADC_DEAD_TIME)].

Lemma subseq_opt_cons {A} (a : list A) x rest l :
  subseq a [x] -> subseq rest l -> subseq (a ++ rest) (x :: l).
Proof. intros H K. apply (subseq_app a [x] rest l H K). Qed.
Lemma subseq_opt_last {A} (a : list A) x l : subseq a [x] -> subseq a (x :: l).
Proof.
  intro H. rewrite <- (app_nil_r a). apply (subseq_app a [x] [] l H). apply subseq_nil_l.
Qed.

Ltac subseq_solve :=
  repeat first
    [ apply subseq_nil_l
    | apply subseq_opt_cons; [first [apply subseq_if | apply subseq_div]|]
    | apply subseq_opt_last; first [apply subseq_if | apply subseq_div]
    | apply ss_skip ].

Lemma slot_errs_subseq sys bid sl e : subseq (slot_errs sys bid (sl, e)) (slot_full bid sl).
Proof.
  unfold slot_errs, ct_groups, group_errs, slot_full.
  destruct (e_kind e) eqn:K;
    cbn [flat_map app fst snd guard_holds has_attr ekind_eqb echeck_errs];
    rewrite ?K; cbn [flat_map app fst snd guard_holds has_attr ekind_eqb echeck_errs];
    rewrite ?app_nil_r, <- ?app_assoc; subseq_solve.
Qed.

Lemma slots_subseq sys bid sl o :
  subseq (flat_map (slot_errs sys bid) (opt_slot sl o)) (slot_full bid sl).
Proof.
  destruct o as [e|]; cbn [opt_slot flat_map]; [|apply subseq_nil_l].
  rewrite app_nil_r. apply slot_errs_subseq.
Qed.

Lemma dead_errs_subseq2 sys bid sl e d st t1 a1 k1 t2 a2 k2 :
  subseq (dead_errs sys bid sl e d st [(t1, a1, k1); (t2, a2, k2)]) [(bid, sl, a1, k1); (bid, sl, a2, k2)].
Proof. unfold dead_errs. cbn [flat_map fst snd]. rewrite app_nil_r. subseq_solve. Qed.

Lemma check_block_subseq sys b : subseq (check_block sys b) (block_full (b_id b)).
Proof.
  unfold check_block, block_full, block_slots. rewrite !flat_map_app.
  change (raster_of sys ct_block_raster) with (s_block_raster sys).
  apply (subseq_app _ [(b_id b, SBlock, A_duration, RASTER)]); [apply subseq_div|].
  apply (subseq_app _ [(b_id b, SBlock, A_duration, BLOCK_DURATION_MISMATCH)]); [apply subseq_if|].
  rewrite <- !app_assoc.
  repeat (apply subseq_app; [apply slots_subseq|]).
  apply subseq_app.
  - destruct (b_rf b); [apply dead_errs_subseq2|apply subseq_nil_l].
  - destruct (b_adc b); [apply dead_errs_subseq2|apply subseq_nil_l].
Qed.

Definition err_key (x : err) : slot * attr * errkind := (snd (fst (fst x)), snd (fst x), snd x).
Lemma block_full_NoDup bid : NoDup (block_full bid).
Proof.
  apply (NoDup_map_inv err_key). unfold block_full, slot_full. cbn [app map err_key fst snd].
  repeat (constructor; [cbn [In]; intuition discriminate|]). constructor.
Qed.

Lemma check_block_NoDup sys b : NoDup (check_block sys b).
Proof. eapply subseq_NoDup; [apply check_block_subseq|apply block_full_NoDup]. Qed.

Lemma check_block_id sys b x : In x (check_block sys b) -> fst (fst (fst x)) = b_id b.
Proof.
  intro H. apply (subseq_In _ _ _ (check_block_subseq sys b)) in H.
  unfold block_full, slot_full in H. cbn [app In] in H.
  repeat (destruct H as [<-|H]; [reflexivity|]). destruct H.
Qed.

(* C10: every violated clause is reported ONCE (block ids are the keys of seq.block_events) *)
Theorem report_no_dup sys bs : NoDup (map b_id bs) -> NoDup (check_timing sys bs).
Proof.
  unfold check_timing. induction bs as [|b bs IH]; intro N; cbn [flat_map map] in *; [constructor|].
  inversion N as [|? ? Hnot N']; subst.
  assert (D : forall x, In x (check_block sys b) -> ~ In x (flat_map (check_block sys) bs)).
  { intros x Hx Hy. apply in_flat_map in Hy. destruct Hy as (b' & Hin & Hx').
    apply check_block_id in Hx. apply check_block_id in Hx'.
    apply Hnot. rewrite <- Hx, Hx'. apply in_map. exact Hin. }
  pose proof (check_block_NoDup sys b) as Nb. specialize (IH N').
  revert Nb D. generalize (check_block sys b) as l. induction l as [|x l IHl]; intros Nb D; cbn [app]; [exact IH|].
  inversion Nb; subst. constructor.
  - rewrite in_app_iff. intros [H|H]; [contradiction|]. exact (D x (or_introl eq_refl) H).
  - apply IHl; [assumption|]. intros y Hy. apply D. right. exact Hy.
Qed.

(* ============================================================ round 2 ======================== *)
(* ---- the decoded-RF hypothesis follows from the decoding itself (sequence.py:1210-1219) ----- *)
Lemma decoded_rf_invariant (raster : Q) (sh : rf_time_shape) : 0 < raster ->
  decode_rf_tlast raster sh <= decode_rf_shape_dur raster sh + spec_eps.
Proof.
  intro Hr. destruct sh as [n|tl]; cbn [decode_rf_tlast decode_rf_shape_dur].
  - unfold spec_eps. nra.
  - rewrite timing_eps_spec.
    set (x := (tl * raster - spec_eps) / raster).
    pose proof (Qle_ceiling x) as C.
    assert (E : x * raster == tl * raster - spec_eps) by (unfold x; field; lra).
    assert (M : x * raster <= inject_Z (Qceiling x) * raster).
    { apply Qmult_le_compat_r; [exact C|lra]. }
    lra.
Qed.

(* blocks whose RF events carry the time axis produced by get_block *)
Definition DecodedBy (sys : system) (bs : list block) : Prop :=
  forall b r, In b bs -> b_rf b = Some r ->
    e_kind r = KRf /\
    exists sh, e_tlast r = decode_rf_tlast (s_rf_raster sys) sh /\
               e_shape_dur r = decode_rf_shape_dur (s_rf_raster sys) sh.

Lemma decoded_by_decoded_rf sys bs : 0 < s_rf_raster sys -> DecodedBy sys bs -> DecodedRf bs.
Proof.
  intros Hr Dec b r Hin R. destruct (Dec b r Hin R) as (K & sh & E1 & E2).
  split; [exact K|]. rewrite E1, E2. apply decoded_rf_invariant. exact Hr.
Qed.

Theorem check_ok_iff_text_decoded sys bs : 0 < s_rf_raster sys -> DecodedBy sys bs ->
  (check_timing sys bs = [] <-> TimingValid_text raster_on_stored sys bs).
Proof. intros Hr Dec. apply check_ok_iff_text. apply (decoded_by_decoded_rf sys); assumption. Qed.

(* the same fact for an RF event as the makers build it (Props/C13.v: C13_sample_times_centres gives
   t_last == shape_dur - dwell/2, C13_shape_dur_is_n_dwell gives shape_dur == N * dwell) *)
Lemma rf_maker_grid_invariant (tlast shape_dur dwell : Q) :
  0 <= dwell -> tlast == shape_dur - dwell / (2 # 1) -> tlast <= shape_dur + spec_eps.
Proof. intros Hd E. rewrite E. unfold spec_eps. assert (0 <= dwell / (2#1)) by (apply Qle_shift_div_l; lra). lra. Qed.

(* ---- OwnArgs from what the gradient constructors guarantee -------------------------------- *)
(* make_arbitrary_grad: tt = (arange(n) + 0.5) * raster, shape_dur = n * raster (n >= 1; Props/C04.v
   C04_arb_interior_safe: 2 <= length wave) *)
Lemma grad_own_arbitrary g e (n : Z) : 0 < g ->
  e_shape_dur e == inject_Z n * g -> e_tlast e == (inject_Z n - (1 # 2)) * g -> GradOwn g e.
Proof.
  intros Hg Hs Ht _. exists n. split; [exact Hs|].
  assert (E : e_tlast e / g == inject_Z n - (1 # 2)) by (rewrite Ht; field; lra).
  rewrite E, inject_Z_pred. split; lra.
Qed.
(* make_extended_trapezoid: shape_dur = tt[-1], and the last time point is on the gradient raster
   (the constructor raises otherwise; Props/C04.v C04_ext_trap_safe covers the accepted calls) *)
Lemma grad_own_ext_trap g e (k : Z) : 0 < g ->
  e_shape_dur e == inject_Z k * g -> e_tlast e == e_shape_dur e -> GradOwn g e.
Proof.
  intros Hg Hs Ht _. exists k. split; [exact Hs|].
  assert (E : e_tlast e / g == inject_Z k) by (rewrite Ht, Hs; field; lra).
  rewrite E, inject_Z_pred. split; lra.
Qed.
(* trapezoids (Props/C11.v trap_chosen_on_raster_positive, trap_flat_nonneg), RF, ADC, delays,
   triggers need no side condition at all: only arbitrary / extended gradients are rounded by set_block *)
Lemma own_args_from_constructors g (l : list arg) : 0 < g ->
  (forall e, In (AEv e) l -> e_kind e = KGrad ->
     (exists n, e_shape_dur e == inject_Z n * g /\ e_tlast e == (inject_Z n - (1 # 2)) * g) \/
     (exists k, e_shape_dur e == inject_Z k * g /\ e_tlast e == e_shape_dur e)) ->
  OwnArgs g l.
Proof.
  intros Hg H e Hin K. destruct (H e Hin K) as [(n & A & B)|(k & A & B)].
  - exact (grad_own_arbitrary g e n Hg A B K).
  - exact (grad_own_ext_trap g e k Hg A B K).
Qed.

(* ---- every consumer is the same walk; time_range variants ------------------------------------ *)
Lemma adc_times_walk cur bs : adc_times_go cur bs = walk adc_local cur bs.
Proof. revert cur. induction bs as [|b bs IH]; intro cur; cbn [adc_times_go walk]; [reflexivity|]. rewrite IH. reflexivity. Qed.
Lemma rf_times_walk cur bs : rf_times_go cur bs = walk rf_local cur bs.
Proof. revert cur. induction bs as [|b bs IH]; intro cur; cbn [rf_times_go walk]; [reflexivity|]. rewrite IH. reflexivity. Qed.
Lemma wave_walk g ch cur bs : wave_go g ch cur bs = walk (wave_local g ch) cur bs.
Proof. revert cur. induction bs as [|b bs IH]; intro cur; cbn [wave_go walk]; [reflexivity|]. rewrite IH. reflexivity. Qed.

Lemma walk_app {A} (f : Q -> block -> list A) cur l1 l2 :
  walk f cur (l1 ++ l2) = walk f cur l1 ++ walk f (duration_go cur l1) l2.
Proof.
  revert cur. induction l1 as [|b l1 IH]; intro cur; cbn [app walk duration_go]; [reflexivity|].
  rewrite IH, app_assoc. reflexivity.
Qed.

Section WalkCompat.
  Context {A : Type} (R : A -> A -> Prop) (f : Q -> block -> list A).
  Hypothesis f_compat : forall c c' b, c == c' -> Forall2 R (f c b) (f c' b).
  Lemma walk_compat c c' bs : c == c' -> Forall2 R (walk f c bs) (walk f c' bs).
  Proof.
    revert c c'. induction bs as [|b bs IH]; intros c c' H; cbn [walk]; [constructor|].
    apply Forall2_app; [apply f_compat; exact H|]. apply IH. rewrite !advance_eq, H. reflexivity.
  Qed.

  (* a time_range call returns, up to Qeq of the times, a contiguous segment of the full result:
     the blocks [b, e) evaluated at the SAME block starts as in the call without time_range *)
  Lemma walk_time_range bs (b e : nat) : (b < length bs)%nat ->
    exists pre mid post, walk f 0 bs = pre ++ mid ++ post /\
      mid = walk f (duration_go 0 (firstn b bs)) (slice b e bs) /\
      duration_go 0 (firstn b bs) == prefix_sum bs b /\
      Forall2 R (walk f (tr_start bs b) (slice b e bs)) mid.
  Proof.
    intro Hb.
    exists (walk f 0 (firstn b bs)), (walk f (duration_go 0 (firstn b bs)) (slice b e bs)),
           (walk f (duration_go (duration_go 0 (firstn b bs)) (slice b e bs)) (skipn (e - b) (skipn b bs))).
    split; [|split; [reflexivity|split]].
    - rewrite <- walk_app, <- walk_app. unfold slice. rewrite firstn_skipn, firstn_skipn. reflexivity.
    - rewrite duration_go_sum. unfold prefix_sum. ring.
    - apply walk_compat. rewrite (time_range_start_agree bs b Hb), duration_go_sum. unfold prefix_sum. ring.
  Qed.
End WalkCompat.

Definition Rq : Q -> Q -> Prop := Qeq.
Definition Rzq (x y : Z * Q) : Prop := fst x = fst y /\ snd x == snd y.
Definition Rqq (x y : Q * Q) : Prop := fst x == fst y /\ snd x == snd y.

Lemma adc_local_compat c c' b : c == c' -> Forall2 Rq (adc_local c b) (adc_local c' b).
Proof.
  intro H. unfold adc_local. destruct (b_adc b) as [a|]; [|constructor].
  induction (zrange (e_nsamp a)) as [|k l IH]; cbn [map]; constructor; [|exact IH].
  unfold Rq. rewrite H. reflexivity.
Qed.
Lemma rf_local_compat c c' b : c == c' -> Forall2 Rzq (rf_local c b) (rf_local c' b).
Proof.
  intro H. unfold rf_local. destruct (b_rf b) as [r|]; [|constructor].
  destruct (e_use r <? 2)%Z; [|constructor]. constructor; [|constructor].
  split; cbn [fst snd]; [reflexivity|rewrite H; reflexivity].
Qed.
Lemma Rqq_single a b a' b' : a == a' -> b == b' -> Forall2 Rqq [(a, b)] [(a', b')].
Proof. intros H K. constructor; [split; assumption|constructor]. Qed.
Lemma wave_local_compat g ch c c' b : c == c' -> Forall2 Rqq (wave_local g ch c b) (wave_local g ch c' b).
Proof.
  intro H. unfold wave_local. destruct (grad_of ch b) as [e|]; [|constructor].
  unfold wave_piece. destruct (e_kind e); try (apply Forall2_nil).
  - destruct (e_regular e); apply Rqq_single; rewrite H; reflexivity.
  - destruct (Qltb timing_eps (Qabs (e_flat e))); [apply Rqq_single; rewrite H; reflexivity|].
    destruct (Qltb timing_eps (Qabs (e_rise e)) && Qltb timing_eps (Qabs (e_fall e))); [|apply Forall2_nil].
    apply Rqq_single; rewrite H; reflexivity.
Qed.

(* C07: the time_range variants of adc_times / rf_times / waveforms use the block starts of the full timeline *)
Theorem adc_times_time_range bs lo hi : (begin_block bs lo < length bs)%nat ->
  exists pre mid post, adc_times bs = pre ++ mid ++ post /\ Forall2 Rq (adc_times_tr bs lo hi) mid.
Proof.
  intro Hb. unfold adc_times, adc_times_tr, tr_blocks. rewrite !adc_times_walk.
  destruct (walk_time_range Rq adc_local adc_local_compat bs _ (end_block bs hi) Hb) as (pre & mid & post & E & _ & _ & F).
  exists pre, mid, post. split; assumption.
Qed.
Theorem rf_times_time_range bs lo hi : (begin_block bs lo < length bs)%nat ->
  exists pre mid post, rf_times bs = pre ++ mid ++ post /\ Forall2 Rzq (rf_times_tr bs lo hi) mid.
Proof.
  intro Hb. unfold rf_times, rf_times_tr, tr_blocks. rewrite !rf_times_walk.
  destruct (walk_time_range Rzq rf_local rf_local_compat bs _ (end_block bs hi) Hb) as (pre & mid & post & E & _ & _ & F).
  exists pre, mid, post. split; assumption.
Qed.
Theorem waveforms_time_range g ch bs lo hi : (begin_block bs lo < length bs)%nat ->
  exists pre mid post, wave_pieces g ch bs = pre ++ mid ++ post /\ Forall2 Rqq (wave_pieces_tr g ch bs lo hi) mid.
Proof.
  intro Hb. unfold wave_pieces, wave_pieces_tr, tr_blocks. rewrite !wave_walk.
  destruct (walk_time_range Rqq (wave_local g ch) (wave_local_compat g ch) bs _ (end_block bs hi) Hb)
    as (pre & mid & post & E & _ & _ & F).
  exists pre, mid, post. split; assumption.
Qed.

(* ---- sequences read back from a file -------------------------------------------------------- *)
Lemma prefix_sum_ext (bs bs' : list block) :
  Forall2 (fun a b => b_stored a == b_stored b) bs bs' -> forall i, prefix_sum bs i == prefix_sum bs' i.
Proof.
  intro H. induction H as [|a b l l' Hab Hl IH]; intro i.
  - reflexivity.
  - destruct i as [|i]; [reflexivity|]. rewrite !prefix_sum_S, Hab, IH. reflexivity.
Qed.

(* C07: durations written as integers x block raster and read back give the same running sums (hence
   the same block starts for every consumer and the same total), when they were on the block raster *)
Theorem reread_same_timeline sys bs : 0 < s_block_raster sys ->
  (forall b, In b bs -> exists k : Z, b_stored b == inject_Z k * s_block_raster sys) ->
  (forall i, prefix_sum (map (reread_block sys) bs) i == prefix_sum bs i) /\
  total_duration (map (reread_block sys) bs) == total_duration bs.
Proof.
  intros Hr On.
  assert (F : Forall2 (fun a b => b_stored a == b_stored b) (map (reread_block sys) bs) bs).
  { induction bs as [|b bs IH]; cbn [map]; constructor.
    - destruct (On b (or_introl eq_refl)) as (k & Hk).
      unfold reread_block, with_stored. cbn [b_stored].
      exact (proj2 (blocks_column_agree sys b k Hr Hk)).
    - apply IH. intros b' Hin. apply On. right. exact Hin. }
  split; [apply prefix_sum_ext; exact F|].
  destruct (total_duration_agree (map (reread_block sys) bs)) as [_ T1].
  destruct (total_duration_agree bs) as [_ T2].
  rewrite T1, T2, map_length. apply prefix_sum_ext. exact F.
Qed.

(* duration(): the event counters never exceed the number of blocks *)
Lemma filter_len_le {A} (g : A -> bool) (l : list A) : (length (filter g l) <= length l)%nat.
Proof. induction l as [|a l IH]; cbn [filter length]; [lia|]. destruct (g a); cbn [length]; lia. Qed.
Lemma count_some_bounds g bs : (0 <= count_some g bs <= Z.of_nat (length bs))%Z.
Proof. unfold count_some. pose proof (filter_len_le g bs). lia. Qed.
Lemma event_count_le bs : Forall (fun c => (0 <= c <= Z.of_nat (length bs))%Z) (event_count bs).
Proof.
  unfold event_count. constructor; [lia|].
  repeat (constructor; [apply count_some_bounds|]). constructor.
Qed.

(* ======================================================= round 4: the two block tables ======== *)
Definition TlInv (st : tl_state) : Prop := map fst (tl_durs st) = tl_keys st /\ NoDup (tl_keys st).

Lemma keys_set_In k ks x : In x (keys_set k ks) <-> x = k \/ In x ks.
Proof.
  induction ks as [|k' r IH]; cbn [keys_set In]; [intuition|].
  destruct (Z.eqb_spec k k') as [->|N]; cbn [In]; [intuition|]. rewrite IH. intuition.
Qed.
Lemma keys_set_NoDup k ks : NoDup ks -> NoDup (keys_set k ks).
Proof.
  induction ks as [|k' r IH]; intro N; cbn [keys_set]; [constructor; [intros []|constructor]|].
  destruct (Z.eqb_spec k k') as [->|Ne]; [exact N|].
  inversion N; subst. constructor; [|auto].
  rewrite keys_set_In. intros [E|H]; [congruence|contradiction].
Qed.
Lemma tbl_set_keys k v t : map fst (tbl_set k v t) = keys_set k (map fst t).
Proof.
  induction t as [|[k' v'] r IH]; cbn [tbl_set map fst keys_set]; [reflexivity|].
  destruct (Z.eqb_spec k k') as [->|Ne]; cbn [map fst]; [reflexivity|]. rewrite IH. reflexivity.
Qed.

Lemma tl_inv_empty : TlInv tl_empty.
Proof. split; [reflexivity|constructor]. Qed.
Lemma tl_inv_set_block k d st : TlInv st -> TlInv (tl_set_block k d st).
Proof.
  intros [E N]. split; cbn [tl_set_block tl_keys tl_durs].
  - rewrite tbl_set_keys, E. reflexivity.
  - apply keys_set_NoDup. exact N.
Qed.
Lemma tl_inv_read file st : NoDup (map fst file) -> TlInv (tl_read file st).
Proof. intro N. split; [reflexivity|exact N]. Qed.

Definition op_ok (o : tl_op) : Prop := match o with OpSet _ _ => True | OpRead f => NoDup (map fst f) end.
Lemma tl_inv_run_from ops st : TlInv st -> Forall op_ok ops -> TlInv (fold_left tl_step ops st).
Proof.
  revert st. induction ops as [|o ops IH]; intros st I F; cbn [fold_left]; [exact I|].
  inversion F; subst. apply IH; [|assumption].
  destruct o as [k d|f]; cbn [tl_step]; [apply tl_inv_set_block; exact I|apply tl_inv_read; assumption].
Qed.

Lemma tbl_lookup_app_notin k pre suf : ~ In k (map fst pre) -> tbl_lookup k (pre ++ suf) = tbl_lookup k suf.
Proof.
  induction pre as [|[k' v'] r IH]; intro H; cbn [app tbl_lookup]; [reflexivity|].
  cbn [map fst In] in H. destruct (Z.eqb_spec k k') as [->|Ne]; [exfalso; apply H; left; reflexivity|].
  apply IH. intro. apply H. right. assumption.
Qed.

Lemma tl_duration_go_suffix pre suf acc : NoDup (map fst (pre ++ suf)) ->
  tl_duration_go (map fst suf) (pre ++ suf) acc = Some (fold_left Qplus (map snd suf) acc).
Proof.
  revert pre acc. induction suf as [|[k v] r IH]; intros pre acc N; cbn [map fst snd tl_duration_go fold_left]; [reflexivity|].
  assert (Hk : ~ In k (map fst pre)).
  { rewrite map_app in N. cbn [map fst] in N. apply NoDup_remove_2 in N. intro H. apply N. apply in_or_app. left. exact H. }
  rewrite (tbl_lookup_app_notin k pre ((k, v) :: r) Hk). cbn [tbl_lookup]. rewrite Z.eqb_refl.
  replace (pre ++ (k, v) :: r) with ((pre ++ [(k, v)]) ++ r) by (rewrite <- app_assoc; reflexivity).
  apply IH. rewrite <- app_assoc. exact N.
Qed.

(* C07 (round 4): while the two tables carry the same keys in the same order, duration() and
   sum(block_durations.values()) are the same number, for every history of set_block / add_block and read *)
Theorem tl_totals_agree st : TlInv st -> tl_duration st = Some (tl_sum st).
Proof.
  intros [E N]. unfold tl_duration, tl_sum. rewrite <- E.
  apply (tl_duration_go_suffix [] (tl_durs st) 0). cbn [app]. rewrite E. exact N.
Qed.
Theorem tl_history_totals_agree ops : Forall op_ok ops ->
  TlInv (tl_run ops) /\ tl_duration (tl_run ops) = Some (tl_sum (tl_run ops)).
Proof.
  intro F. assert (I : TlInv (tl_run ops)) by (apply tl_inv_run_from; [apply tl_inv_empty|exact F]).
  split; [exact I|apply tl_totals_agree; exact I].
Qed.

(* a read that merges the file into the old duration table (instead of replacing it) breaks this *)
Lemma tl_merging_read_disagrees :
  exists st file, TlInv st /\ NoDup (map fst file) /\
    tl_duration (tl_read_merging file st) = Some (1 # 1000) /\ tl_sum (tl_read_merging file st) == 3 # 1000.
Proof.
  exists (tl_run [OpSet 1 (1 # 1000); OpSet 2 (2 # 1000)]), [(1%Z, 1 # 1000)].
  split; [apply tl_inv_run_from; [apply tl_inv_empty|repeat constructor]|].
  split; [repeat constructor; intros []|]. split; vm_compute; reflexivity.
Qed.
