(* Proofs/KSpaceFinal.v — C09: prim of a restriction, prim of the padded export, final k without RF. *)
From Coq Require Import ZArith QArith Qabs Lia Lqa List Bool Arith Setoid Morphisms.
From PV Require Import Base.QUtil Base.PWL Gen.GenExport Model.Export Model.KSpace
  Proofs.ExportProofs Proofs.ExportArea Proofs.KSpaceProofs Proofs.PrimProofs.
Import ListNotations.
Open Scope Q_scope.

(* cutting p at b does not change the antiderivative at any a <= b *)
Lemma prim_cut_left : forall p a b, sorted_strict (times p) -> a <= b ->
  prim (cut_left b p) a == prim p a.
Proof.
  induction p as [|[t0 v0] r IH]; intros a b Hs Hab; [reflexivity|].
  destruct r as [|[t1 v1] r].
  - cbn [cut_left prim]. qb; reflexivity.
  - pose proof Hs as Hs'. apply sorted_cons2 in Hs'. destruct Hs' as [H01 Hs1]. cbn [times map fst] in H01.
    rewrite cut_left_cons2.
    case_ltb b t0 E0.
    { rewrite prim_cons2. cbn [prim]. qb; try reflexivity; lra. }
    case_eqb b t0 E1.
    { rewrite prim_cons2. cbn [prim]. qb; try reflexivity; lra. }
    case_leb t1 b E2.
    { destruct (cut_left_head b t1 v1 r E2) as [s Es]. rewrite Es, !prim_cons2.
      qb; try lra; try reflexivity.
      rewrite !Qred_correct, <- Es, (IH a b Hs1 Hab). reflexivity. }
    rewrite !prim_cons2. qb; try lra; try reflexivity.
    rewrite (interp_cut_l t0 v0 t1 v1 b a) by lra. reflexivity.
Qed.

(* prim_is_integral in the composed form: the difference of the antiderivative between a <= b is the area of
   p restricted to [a, b] (cut at b on the right, then at a on the left) *)
Theorem prim_is_integral_restricted p a b : sorted_strict (times p) -> a <= b ->
  prim p b - prim p a == area (cut_right a (cut_left b p)).
Proof.
  intros Hs Hab. pose proof (sorted_cut_left b p Hs) as Sq.
  pose proof (area_cut a (cut_left b p) Sq) as H.
  rewrite <- (prim_cut (cut_left b p) a Sq) in H. rewrite (prim_cut_left p a b Hs Hab) in H.
  rewrite (prim_cut p b Hs). lra.
Qed.

(* the moment of the padded export: zero up to the first corner when the waveform starts at zero *)
Lemma prim_padded_before w t : w <> [] -> vfirst w == 0 -> t <= tfirst w -> prim (padded w) t == 0.
Proof.
  pose proof teps_pos as Ht. intros Hn Hv Hle. destruct w as [|[t0 v0] w']; [congruence|].
  cbn [vfirst tfirst] in *. rewrite padded_cons. cbn [app]. rewrite !prim_cons2.
  qb; try reflexivity; try lra.
  all: rewrite ?Qred_correct; unfold interp, slope; rewrite ?Hv; ring.
Qed.

Theorem moment_total w T : w <> [] -> sorted_strict (times w) -> vfirst w == 0 -> vlast w == 0 ->
  0 <= tfirst w -> tlast w + 2 * teps <= T ->
  moment w T - moment w 0 == area w.
Proof.
  intros Hn Hs Hf Hl H0 HT. unfold moment. destruct w as [|x w'] eqn:Ew; [congruence|]. rewrite <- Ew in *.
  rewrite (prim_total (padded w) T (sorted_padded w Hn Hs)) by (rewrite tlast_padded by exact Hn; exact HT).
  rewrite (prim_padded_before w 0 Hn Hf H0). rewrite (area_padded w Hn), Hf, Hl. ring.
Qed.

(* C09, last clause: for a sequence without excitation / refocusing pulses the final k-space position is the
   sum of the areas of all gradient pieces of the channel *)
Theorem no_rf_final_is_sum_of_areas ps evs T : EdgeConsistent ps -> ps <> [] ->
  filter is_pulse evs = [] ->
  vfirst (hd [] ps) == 0 -> vlast (last ps []) == 0 -> 0 <= tfirst (hd [] ps) ->
  tlast (last ps []) + 2 * teps <= T ->
  k_at (moment (join ps)) evs T == sum_areas ps.
Proof.
  intros Hec Hn Hev Hf Hl H0 HT.
  rewrite <- other_uses_ignored, Hev.
  unfold k_at, impl_k, impl_dk, upto. cbn [filter fold_left].
  destruct (join_last ps Hec Hn) as [Etl Evl].
  destruct ps as [|p r]; [congruence|]. cbn [hd] in *.
  assert (Np : p <> []).
  { destruct Hec as [Hok _]. inversion Hok; subst. apply piece_ok_nonempty. assumption. }
  destruct (join_first p r Np) as [Etf Evf].
  assert (Nj : join (p :: r) <> []) by (cbn [join]; destruct p; [congruence|discriminate]).
  rewrite <- (area_join (p :: r) Hec).
  rewrite <- (moment_total (join (p :: r)) T Nj).
  - ring.
  - apply (join_times_strict _ Hec).
  - rewrite Evf. exact Hf.
  - rewrite Evl. exact Hl.
  - rewrite Etf. exact H0.
  - rewrite Etl. exact HT.
Qed.

(* area of a trapezoid piece: amplitude * (rise/2 + flat + fall/2) *)
Theorem area_trap_piece raster start amp rise flat fall delay p :
  piece raster start (Trap amp rise flat fall delay) = Some p -> (flat == 0 \/ eps < flat) ->
  area p == amp * (rise * (1 # 2) + flat + fall * (1 # 2)).
Proof.
  intros Hp Hfl. cbn [piece] in Hp. pose proof eps_pos as He.
  destruct (Qltb eps (Qabs flat)) eqn:E.
  - injection Hp as <-. unfold cumsum4. cbn [combine area]. ring.
  - destruct (Qltb eps (Qabs rise) && Qltb eps (Qabs fall)); [|discriminate]. injection Hp as <-.
    apply Qltb_ge in E.
    assert (Hz : flat == 0).
    { destruct Hfl as [H|H]; [exact H|]. pose proof (Qle_Qabs flat). lra. }
    unfold cumsum3. cbn [combine area]. rewrite Hz. ring.
Qed.
