(* Proofs/ExportProofs.v — lemmas about Model/Export.v (C08). *)
From Coq Require Import ZArith QArith Qabs Lia Lqa List Bool Arith Setoid Morphisms.
From PV Require Import Base.QUtil Base.PWL Gen.GenExport Model.Export.
Import ListNotations.
Open Scope Q_scope.

(* ------------------------------------------------------------------------------------------ *)
(* specification predicates *)

(* consecutive times at least eps apart: exactly what the code's monotonicity check accepts *)
Definition spaced (l : list Q) : Prop := all_consec (fun a b => a + eps <= b) l.

Definition piece_ok (p : pwl) : Prop := spaced (times p) /\ (2 <= length p)%nat.

(* two consecutive pieces of one channel: either they touch and agree in value at the shared time
   (the invariant add_block enforces, C05), or they are more than eps apart and both are zero at
   the facing ends *)
Definition link (p c : pwl) : Prop :=
  (tlast p == tfirst c /\ vlast p == vfirst c) \/
  (tlast p + eps < tfirst c /\ vlast p == 0 /\ vfirst c == 0).

Fixpoint chain (prev : pwl) (rest : list pwl) : Prop :=
  match rest with
  | [] => True
  | c :: r => link prev c /\ chain c r
  end.

Definition EdgeConsistent (ps : list pwl) : Prop :=
  Forall piece_ok ps /\ match ps with [] => True | p :: r => chain p r end.

Lemma eps_pos : 0 < eps.
Proof. unfold eps. reflexivity. Qed.

(* ------------------------------------------------------------------------------------------ *)
(* generic facts on all_consec / last *)

Lemma spaced_sorted l : spaced l -> sorted_strict l.
Proof.
  unfold spaced, sorted_strict. apply all_consec_impl. intros a b H. pose proof eps_pos. lra.
Qed.

Lemma all_consec_tail R a l : all_consec R (a :: l) -> all_consec R l.
Proof. destruct l; [intros; exact I|]. intros [_ H]. exact H. Qed.

Lemma all_consec_glue R l1 : forall a l2,
  all_consec R (l1 ++ [a]) -> all_consec R (a :: l2) -> all_consec R (l1 ++ a :: l2).
Proof.
  induction l1 as [|x l1 IH]; intros a l2 H1 H2; [exact H2|].
  destruct l1 as [|y l1].
  - cbn [app] in *. destruct H1 as [Hxa _]. split; [exact Hxa|exact H2].
  - change ((x :: y :: l1) ++ a :: l2) with (x :: y :: (l1 ++ a :: l2)).
    change ((x :: y :: l1) ++ [a]) with (x :: y :: (l1 ++ [a])) in H1.
    destruct H1 as [Hxy H1]. split; [exact Hxy|].
    change (y :: l1 ++ a :: l2) with ((y :: l1) ++ a :: l2). apply IH; assumption.
Qed.

Lemma all_consec_app R l1 : forall b l2,
  l1 <> [] -> all_consec R l1 -> all_consec R (b :: l2) -> R (last l1 0) b ->
  all_consec R (l1 ++ b :: l2).
Proof.
  induction l1 as [|x l1 IH]; intros b l2 Hn H1 H2 HR; [congruence|].
  destruct l1 as [|y l1].
  - cbn [app last] in *. split; assumption.
  - change ((x :: y :: l1) ++ b :: l2) with (x :: y :: (l1 ++ b :: l2)).
    destruct H1 as [Hxy H1]. split; [exact Hxy|].
    change (y :: l1 ++ b :: l2) with ((y :: l1) ++ b :: l2). apply IH; try assumption; discriminate.
Qed.

Lemma times_app (p q : pwl) : times (p ++ q) = times p ++ times q.
Proof. unfold times. apply map_app. Qed.

Lemma split_last (p : pwl) : p <> [] -> exists p0, p = p0 ++ [(tlast p, vlast p)].
Proof.
  intro Hn. destruct (exists_last Hn) as [p0 [x E]]. exists p0. rewrite E.
  unfold tlast, vlast. rewrite last_last. destruct x; reflexivity.
Qed.

Lemma tlast_app_single (p0 : pwl) a v : tlast (p0 ++ [(a, v)]) = a.
Proof. unfold tlast. rewrite last_last. reflexivity. Qed.

Lemma tfirst_app (p q : pwl) : p <> [] -> tfirst (p ++ q) = tfirst p.
Proof. destruct p; [congruence|reflexivity]. Qed.

Lemma piece_ok_sorted p : piece_ok p -> sorted_strict (times p).
Proof. intros [H _]. apply spaced_sorted. exact H. Qed.

Lemma piece_ok_nonempty p : piece_ok p -> p <> [].
Proof. intros [_ H] E. subst p. cbn in H. lia. Qed.

Lemma spaced_head_eq a b l : a == b -> spaced (a :: l) -> spaced (b :: l).
Proof.
  intros E H. destruct l as [|c l]; [exact I|]. destruct H as [H1 H2]. split; [lra|exact H2].
Qed.

(* ------------------------------------------------------------------------------------------ *)
(* order of the pieces of a chain *)

Lemma link_le p c : link p c -> tlast p <= tfirst c.
Proof. pose proof eps_pos as He. intros [[H1 _]|[H1 _]]; lra. Qed.

Lemma chain_order : forall r p, Forall piece_ok r -> chain p r ->
  forall q, In q r -> tlast p <= tfirst q.
Proof.
  induction r as [|c r IH]; intros p Hok Hch q Hin; [contradiction|].
  destruct Hch as [Hl Hch]. inversion Hok as [|? ? Hc Hr]; subst.
  destruct Hin as [E|Hin].
  - subst q. apply link_le. exact Hl.
  - pose proof (IH c Hr Hch q Hin) as H1. pose proof (link_le _ _ Hl) as H2.
    pose proof (tfirst_le_tlast c (piece_ok_sorted _ Hc)). lra.
Qed.

(* ------------------------------------------------------------------------------------------ *)
(* the joined corner list *)

Lemma join_cons2 p c r : join (p :: c :: r) = p ++ join_step p c ++ join_from c r.
Proof. reflexivity. Qed.

Lemma join_step_touch p c : tlast p == tfirst c -> join_step p c = tl c.
Proof.
  intro H. unfold join_step. pose proof eps_pos.
  destruct (Qltb (tlast p + eps) (tfirst c)) eqn:E; [apply Qltb_lt in E; lra|reflexivity].
Qed.

Lemma join_step_gap p c : tlast p + eps < tfirst c -> join_step p c = c.
Proof. intro H. unfold join_step. apply Qltb_lt in H. rewrite H. reflexivity. Qed.

(* the invariant carried along the list of pieces *)
Record join_inv (p : pwl) (r : list pwl) : Prop := {
  ji_spaced : spaced (times (join (p :: r)));
  ji_inside : forall q, In q (p :: r) -> forall t, inside q t -> eval (join (p :: r)) t == eval q t;
  ji_outside : forall t, (forall q, In q (p :: r) -> ~ inside q t) -> eval (join (p :: r)) t == 0
}.

Lemma join_head p r : exists X, join (p :: r) = p ++ X.
Proof. exists (join_from p r). reflexivity. Qed.

Lemma join_invariant : forall r p, piece_ok p -> Forall piece_ok r -> chain p r -> join_inv p r.
Proof.
  induction r as [|c r IH]; intros p Hp Hr Hch.
  - (* a single piece *)
    assert (E : join [p] = p) by (cbn [join join_from]; apply app_nil_r).
    split; rewrite E.
    + apply Hp.
    + intros q [Hq|[]] t _. subst q. reflexivity.
    + intros t H. apply eval_outside; [apply piece_ok_sorted; exact Hp|]. apply H. left. reflexivity.
  - destruct Hch as [Hl Hch]. inversion Hr as [|? ? Hc Hr']; subst.
    pose proof (IH c Hc Hr' Hch) as [Is Ii Io].
    pose proof (piece_ok_sorted _ Hp) as Sp. pose proof (piece_ok_sorted _ Hc) as Sc.
    pose proof (piece_ok_nonempty _ Hp) as Np. pose proof (piece_ok_nonempty _ Hc) as Nc.
    pose proof (spaced_sorted _ Is) as SW'.
    pose proof (chain_order r c Hr' Hch) as Ord.
    set (W' := join (c :: r)) in *.
    assert (HW' : W' = c ++ join_from c r) by reflexivity.
    assert (Fc : tfirst W' = tfirst c) by (rewrite HW'; apply tfirst_app; exact Nc).
    assert (Vc : vfirst W' = vfirst c) by (rewrite HW'; destruct c; [congruence|reflexivity]).
    assert (NW' : W' <> []) by (rewrite HW'; destruct c; [congruence|discriminate]).
    (* later pieces start at or after the start of c *)
    assert (Ord' : forall q, In q (c :: r) -> tfirst c <= tfirst q).
    { intros q [E|Hq]; [subst; lra|]. pose proof (Ord q Hq). pose proof (tfirst_le_tlast c Sc). lra. }
    destruct Hl as [[Ht Hv]|[Hg [Hv0 Hv1]]].
    + (* touching pieces: the first sample of c is dropped *)
      pose proof (join_cons2 p c r) as EJ. rewrite (join_step_touch p c Ht) in EJ.
      destruct c as [|[tc vc] c1]; [congruence|]. cbn [tl tfirst vfirst] in *.
      destruct (split_last p Np) as [p0 Ep].
      set (a := tlast p) in *. set (v := vlast p) in *.
      set (T := c1 ++ join_from ((tc, vc) :: c1) r) in *.
      assert (EW' : W' = (tc, vc) :: T) by reflexivity.
      assert (EW : p ++ T = p0 ++ (a, v) :: T).
      { rewrite Ep at 1. rewrite <- app_assoc. reflexivity. }
      rewrite EW in EJ.
      assert (SaT : spaced (times ((a, v) :: T))).
      { rewrite times_cons. apply (spaced_head_eq tc a); [lra|]. rewrite <- (times_cons tc vc T), <- EW'. exact Is. }
      assert (SW : spaced (times (p0 ++ (a, v) :: T))).
      { rewrite times_app, times_cons. apply all_consec_glue.
        - change [a] with (times [(a, v)]). rewrite <- times_app, <- Ep. apply Hp.
        - rewrite <- (times_cons a v T). exact SaT. }
      pose proof (spaced_sorted _ SW) as SsW.
      assert (Peq : forall t, eval ((a, v) :: T) t == eval W' t).
      { intro t. rewrite EW'. apply eval_pwl_eq. constructor; [cbn [fst snd]; split; lra|apply pwl_eq_refl]. }
      assert (Left : forall t, t <= a -> eval (p0 ++ (a, v) :: T) t == eval p t).
      { intros t Hle. rewrite (eval_concat_left p0 a v T t SsW Hle). rewrite <- Ep. reflexivity. }
      assert (Right : forall t, a <= t -> eval (p0 ++ (a, v) :: T) t == eval W' t).
      { intros t Hle. rewrite (eval_concat_right p0 a v T t SsW Hle). apply Peq. }
      split; rewrite EJ.
      * exact SW.
      * intros q [E|Hq] t Hin.
        -- subst q. apply Left. destruct Hin as [_ H]. exact H.
        -- rewrite Right; [apply Ii; assumption|].
           destruct Hin as [H _]. pose proof (Ord' q Hq). cbn [tfirst] in *. lra.
      * intros t Hout.
        destruct (Qlt_le_dec t (tfirst p)) as [H1|H1].
        -- apply eval_outside_left. rewrite <- EW. rewrite tfirst_app by exact Np. exact H1.
        -- assert (H2 : a < t).
           { apply Qnot_le_lt. intro H. apply (Hout p (or_introl eq_refl)). split; assumption. }
           rewrite Right by lra. apply Io. intros q Hq. apply Hout. right. exact Hq.
    + (* a gap: both pieces kept whole, zero in between *)
      pose proof (join_cons2 p c r) as EJ. rewrite (join_step_gap p c Hg) in EJ.
      change (c ++ join_from c r) with W' in EJ.
      assert (Gap : tlast p < tfirst W') by (pose proof eps_pos; rewrite Fc; lra).
      assert (Sum : forall t, eval (p ++ W') t == eval p t + eval W' t).
      { intro t. apply eval_concat_gap; try assumption. rewrite Vc. exact Hv1. }
      split; rewrite EJ.
      * destruct W' as [|[b w] T] eqn:EW'; [congruence|].
        rewrite times_app, times_cons. apply all_consec_app.
        -- destruct p; [congruence|discriminate].
        -- apply Hp.
        -- rewrite <- (times_cons b w T). exact Is.
        -- rewrite <- tlast_times. cbn [tfirst] in Fc. rewrite Fc. lra.
      * intros q [E|Hq] t Hin.
        -- subst q. rewrite Sum. rewrite (eval_outside_left W' t); [ring|].
           destruct Hin as [_ H]. lra.
        -- rewrite Sum. rewrite (eval_outside_right p Sp t).
           ++ rewrite (Ii q Hq t Hin). ring.
           ++ destruct Hin as [H _]. pose proof (Ord' q Hq). rewrite Fc in Gap. lra.
      * intros t Hout. rewrite Sum.
        rewrite (eval_outside p t Sp (Hout p (or_introl eq_refl))).
        rewrite Io; [ring|]. intros q Hq. apply Hout. right. exact Hq.
Qed.

(* ------------------------------------------------------------------------------------------ *)
(* statements at the level of the list of pieces *)

Theorem join_is_rendering ps : EdgeConsistent ps ->
  (forall q, In q ps -> forall t, inside q t -> eval (join ps) t == eval q t) /\
  (forall t, (forall q, In q ps -> ~ inside q t) -> eval (join ps) t == 0).
Proof.
  intros [Hok Hch]. destruct ps as [|p r].
  - split; [intros q []|intros; reflexivity].
  - inversion Hok; subst. destruct (join_invariant r p) as [_ Hi Ho]; try assumption. split; assumption.
Qed.

Lemma mono_ok_cons2 a b l : mono_ok (a :: b :: l) = negb (Qltb (b - a) eps) && mono_ok (b :: l).
Proof. reflexivity. Qed.

Lemma mono_ok_spaced l : spaced l -> mono_ok l = true.
Proof.
  induction l as [|a l IH]; [reflexivity|]. destruct l as [|b l]; [reflexivity|].
  intros [Hab H]. rewrite mono_ok_cons2. rewrite (IH H), andb_true_r.
  destruct (Qltb (b - a) eps) eqn:E; [apply Qltb_lt in E; lra|reflexivity].
Qed.

Lemma spaced_mono_ok l : mono_ok l = true -> spaced l.
Proof.
  induction l as [|a l IH]; [intros; exact I|]. destruct l as [|b l]; [intros; exact I|].
  rewrite mono_ok_cons2. intro H. apply andb_true_iff in H. destruct H as [H1 H2]. split; [|apply IH; exact H2].
  destruct (Qltb (b - a) eps) eqn:E; [discriminate|]. apply Qltb_ge in E. lra.
Qed.

Theorem join_times_strict ps : EdgeConsistent ps ->
  mono_ok (times (join ps)) = true /\ sorted_strict (times (join ps)).
Proof.
  intros [Hok Hch]. destruct ps as [|p r]; [split; [reflexivity|exact I]|].
  inversion Hok; subst. destruct (join_invariant r p) as [Hs _ _]; try assumption.
  split; [apply mono_ok_spaced|apply spaced_sorted]; exact Hs.
Qed.

(* ------------------------------------------------------------------------------------------ *)
(* one piece is the rendering of its event *)

Lemma combine_shift (start delay : Q) : forall (L V : list Q),
  pwl_eq (combine (map (fun x => start + delay + x) L) V)
         (shift start (combine (map (fun x => delay + x) L) V)).
Proof.
  induction L as [|x L IH]; intros V; [constructor|]. destruct V as [|v V]; [constructor|].
  cbn [map combine shift]. constructor; [cbn [fst snd]; split; ring|apply IH].
Qed.

Definition grad_wf (g : grad) : Prop :=
  match g with
  | Trap amp rise flat fall delay => 0 < rise /\ 0 < fall /\ (flat == 0 \/ eps < flat)
  | Corners _ _ _ _ _ => True
  end.

Lemma trap4_eval amp rise flat fall delay start t : 0 < rise -> 0 < flat -> 0 < fall ->
  eval (combine (cumsum4 (start + delay) rise flat fall) [amp * 0; amp * 1; amp * 1; amp * 0]) t
  == render_trap amp rise flat fall delay (t - start).
Proof.
  intros Hr Hf Hfa. unfold cumsum4. cbn [combine]. rewrite !eval_cons2, eval_single. unfold render_trap.
  qb; unfold interp, slope; try lra; try (field; lra).
Qed.

Lemma trap3_eval amp rise flat fall delay start t : 0 < rise -> flat == 0 -> 0 < fall ->
  eval (combine (cumsum3 (start + delay) rise fall) [amp * 0; amp * 1; amp * 0]) t
  == render_trap amp rise flat fall delay (t - start).
Proof.
  intros Hr Hf Hfa. unfold cumsum3. cbn [combine]. rewrite !eval_cons2, eval_single. unfold render_trap.
  qb; unfold interp, slope; try lra; try (field; lra); try (rewrite Hf; field; lra).
Qed.

Theorem piece_is_rendering raster start g p : piece raster start g = Some p -> grad_wf g ->
  forall t, eval p t == render raster g (t - start).
Proof.
  intros Hp Hwf t. destruct g as [amp rise flat fall delay|delay ts wf first last]; cbn [piece render] in *.
  - destruct Hwf as [Hr [Hfa Hfl]]. pose proof eps_pos as He.
    destruct (Qltb eps (Qabs flat)) eqn:E.
    + injection Hp as <-. apply Qltb_lt in E.
      assert (0 < flat).
      { destruct Hfl as [H0|H0]; [|lra]. rewrite H0 in E. change (Qabs 0) with 0 in E. lra. }
      apply trap4_eval; assumption.
    + apply Qltb_ge in E.
      assert (flat == 0).
      { destruct Hfl as [H0|H0]; [exact H0|]. pose proof (Qle_Qabs flat). lra. }
      destruct (Qltb eps (Qabs rise) && Qltb eps (Qabs fall)); [|discriminate].
      injection Hp as <-. apply trap3_eval; assumption.
  - unfold corner_list. destruct (is_arb raster ts); injection Hp as <-.
    + etransitivity; [|apply eval_shift]. apply eval_pwl_eq.
      exact (combine_shift start delay ([0] ++ ts ++ [qlast ts + raster / 2]) ([first] ++ wf ++ [last])).
    + etransitivity; [|apply eval_shift]. apply eval_pwl_eq.
      exact (combine_shift start delay ts wf).
Qed.
