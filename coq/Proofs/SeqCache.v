(* Proofs/SeqCache.v — the block cache of Model/Seq.v is invisible: library invariants, monotonicity
   of decoding under library growth, the cache invariant, and cache-on/cache-off equivalence. *)
From Coq Require Import List Bool ZArith QArith Qcanon Lia.
From RecordUpdate Require Import RecordSet.
From PV Require Import Base.AList Base.QUtil Model.EventLib Model.Seq Proofs.SeqSpec.
Import ListNotations RecordSetNotations.
Open Scope Z_scope.

(* ================================================================================================ *)
(* A. association lists keyed by Z                                                                   *)
(* ================================================================================================ *)
Lemma Zeqb_spec : forall a b : Z, Z.eqb a b = true <-> a = b.
Proof. intros a b. apply Z.eqb_eq. Qed.

Lemma In_aset_Z {V} (l : list (Z * V)) k v a b :
  In (a, b) (aset Z.eqb l k v) -> In (a, b) l \/ (a = k /\ b = v).
Proof.
  induction l as [|[k' v'] r IH]; cbn.
  - intros [H|[]]. inversion H. right. split; reflexivity.
  - destruct (k' =? k) eqn:E; cbn.
    + apply Z.eqb_eq in E. subst k'. intros [H|H].
      * inversion H. right. split; reflexivity.
      * left. right. exact H.
    + intros [H|H].
      * left. left. exact H.
      * destruct (IH H) as [H1|H1]; [left; right; exact H1|right; exact H1].
Qed.

Lemma agetZ_aset_same {V} (l : list (Z * V)) k v : aget Z.eqb (aset Z.eqb l k v) k = Some v.
Proof. apply aget_aset_same. exact Zeqb_spec. Qed.
Lemma agetZ_aset_other {V} (l : list (Z * V)) k v k2 :
  k2 <> k -> aget Z.eqb (aset Z.eqb l k v) k2 = aget Z.eqb l k2.
Proof. apply aget_aset_other. exact Zeqb_spec. Qed.
Lemma agetZ_adel_other {V} (l : list (Z * V)) k k2 :
  k2 <> k -> aget Z.eqb (adel Z.eqb l k) k2 = aget Z.eqb l k2.
Proof. apply aget_adel_other. exact Zeqb_spec. Qed.
Lemma agetZ_In {V} (l : list (Z * V)) k v : aget Z.eqb l k = Some v -> In (k, v) l.
Proof. apply aget_In. exact Zeqb_spec. Qed.

Lemma agetZ_notin_None {V} (l : list (Z * V)) k : ~ In k (akeys l) -> aget Z.eqb l k = None.
Proof.
  intro N. destruct (aget Z.eqb l k) as [v|] eqn:E; [|reflexivity].
  exfalso. apply N. eapply aget_Some_in; [exact Zeqb_spec|exact E].
Qed.

(* ================================================================================================ *)
(* B. lib_inv is kept by every library operation                                                     *)
(* ================================================================================================ *)
Lemma lib_inv_empty : lib_inv lib_empty.
Proof. split; cbn; intros; contradiction. Qed.

Lemma In_set_type t id ty a b :
  In (a, b) (set_type t id ty) -> In (a, b) t \/ a = id.
Proof.
  unfold set_type. destruct (ty =? 0); [auto|].
  intro H. apply In_aset_Z in H. destruct H as [H|[H _]]; auto.
Qed.

Lemma lib_inv_mk (l : klib) id k ty nx :
  lib_inv l -> lnext l <= nx -> id < nx ->
  lib_inv (mkLib (aset Z.eqb (ldata l) id k) (set_type (ltype l) id ty) (aset key_eqb (lkeymap l) k id) nx).
Proof.
  intros [Hd Ht] Hn Hi. split; cbn.
  - intros a b H. apply In_aset_Z in H. destruct H as [H|[H _]].
    + apply Hd in H. lia.
    + lia.
  - intros a b H. apply In_set_type in H. destruct H as [H|H].
    + apply Ht in H. lia.
    + lia.
Qed.

Lemma kfoi_inv (l : klib) k ty : lib_inv l -> lib_inv (fst (fst (kfoi l k ty))).
Proof.
  intro I. unfold kfoi, lib_find_or_insert.
  destruct (aget key_eqb (lkeymap l) k); cbn [fst]; [exact I|].
  apply lib_inv_mk; [exact I|lia|lia].
Qed.

Lemma lib_insert_inv_gen (l : klib) (km : list (key * Z)) id0 k ty :
  lib_inv l -> lib_inv (fst (lib_insert key_eqb (mkLib (ldata l) (ltype l) km (lnext l)) id0 k ty)).
Proof.
  intros [Hd Ht]. unfold lib_insert. cbn [fst ldata ltype lkeymap lnext].
  set (id := if id0 =? 0 then lnext l else id0).
  assert (Hn : lnext l <= (if lnext l <=? id then id + 1 else lnext l) /\
               id < (if lnext l <=? id then id + 1 else lnext l)).
  { destruct (lnext l <=? id) eqn:E; [apply Z.leb_le in E|apply Z.leb_gt in E]; lia. }
  destruct Hn as [Hn1 Hn2]. split; cbn.
  - intros a b H. apply In_aset_Z in H. destruct H as [H|[H _]].
    + apply Hd in H. lia.
    + lia.
  - intros a b H. apply In_set_type in H. destruct H as [H|H].
    + apply Ht in H. lia.
    + lia.
Qed.

Lemma kins_inv (l : klib) id0 k ty : lib_inv l -> lib_inv (fst (kins l id0 k ty)).
Proof.
  intro I. unfold kins. pose proof (lib_insert_inv_gen l (lkeymap l) id0 k ty I) as H.
  destruct l; exact H.
Qed.

Lemma kupd_inv (l : klib) id k ty : lib_inv l -> lib_inv (kupd l id k ty).
Proof.
  intro I. unfold kupd, lib_update. apply lib_insert_inv_gen. exact I.
Qed.

Lemma lrd_inv (rnd : key -> key) (l : klib) :
  lib_inv (fst (lib_remove_duplicates key_eqb rnd l)).
Proof.
  unfold lib_remove_duplicates.
  generalize (sort_by_id (ldata l)). intro rows.
  assert (G : forall (acc : klib * list (Z * Z)), lib_inv (fst acc) ->
     lib_inv (fst (fold_left
       (fun (acc : klib * list (Z * Z)) (kv : Z * key) =>
          let '(nl, mp) := acc in
          let ty := match lib_type l (fst kv) with Some t => t | None => 0 end in
          let '(nl', id, _) := lib_find_or_insert key_eqb nl (rnd (snd kv)) ty in
          (nl', aset Z.eqb mp (fst kv) id)) rows acc))).
  { induction rows as [|kv r IH]; intros acc Hacc; cbn [fold_left]; [exact Hacc|].
    apply IH. destruct acc as [nl mp]. cbn [fst] in Hacc.
    pose proof (kfoi_inv nl (rnd (snd kv))
                 (match lib_type l (fst kv) with Some t => t | None => 0 end) Hacc) as H.
    unfold kfoi in H.
    destruct (lib_find_or_insert key_eqb nl (rnd (snd kv))
               (match lib_type l (fst kv) with Some t => t | None => 0 end)) as [[nl' id] f].
    exact H. }
  apply G. exact lib_inv_empty.
Qed.

(* ================================================================================================ *)
(* C. growth of a library: ids already present keep their data and type                              *)
(* ================================================================================================ *)
Definition lib_le (l l' : klib) : Prop :=
  forall id, lib_get l id <> None ->
             lib_get l' id = lib_get l id /\ lib_type l' id = lib_type l id.

Lemma lib_le_refl l : lib_le l l.
Proof. intros id H; split; reflexivity. Qed.

Lemma lib_le_trans l1 l2 l3 : lib_le l1 l2 -> lib_le l2 l3 -> lib_le l1 l3.
Proof.
  intros A1 B1.
  intros id H. destruct (A1 id H) as [G1 T1].
  assert (H2 : lib_get l2 id <> None) by (rewrite G1; exact H).
  destruct (B1 id H2) as [G2 T2]. split; congruence.
Qed.

Lemma lib_le_get l l' id k : lib_le l l' -> lib_get l id = Some k -> lib_get l' id = Some k.
Proof. intros A H. destruct (A id) as [G _]; congruence. Qed.

Lemma lib_le_type l l' id k : lib_le l l' -> lib_get l id = Some k -> lib_type l' id = lib_type l id.
Proof. intros A H. destruct (A id) as [_ T]; congruence. Qed.

Lemma lib_get_lt (l : klib) id : lib_inv l -> lib_get l id <> None -> id < lnext l.
Proof.
  intros [Hd _] H. unfold lib_get in H.
  destruct (aget Z.eqb (ldata l) id) as [v|] eqn:E; [|congruence].
  apply agetZ_In in E. eapply Hd. exact E.
Qed.

Lemma lib_type_lt (l : klib) id : lib_inv l -> lib_type l id <> None -> id < lnext l.
Proof.
  intros [_ Ht] H. unfold lib_type in H.
  destruct (aget Z.eqb (ltype l) id) as [v|] eqn:E; [|congruence].
  apply agetZ_In in E. eapply Ht. exact E.
Qed.

Lemma lib_le_mk (l : klib) k ty km nx :
  lib_inv l ->
  lib_le l (mkLib (aset Z.eqb (ldata l) (lnext l) k) (set_type (ltype l) (lnext l) ty) km nx).
Proof.
  intro I. intros id H. pose proof (lib_get_lt l id I H) as Hlt.
  unfold lib_get, lib_type. cbn [ldata ltype]. split.
  - apply agetZ_aset_other. lia.
  - unfold set_type. destruct (ty =? 0); [reflexivity|]. apply agetZ_aset_other. lia.
Qed.

Lemma kfoi_grow (l : klib) k ty l' id f :
  lib_inv l -> kfoi l k ty = (l', id, f) -> lib_inv l' /\ lib_le l l'.
Proof.
  intros I E. split.
  - pose proof (kfoi_inv l k ty I) as H. rewrite E in H. exact H.
  - unfold kfoi, lib_find_or_insert in E.
    destruct (aget key_eqb (lkeymap l) k).
    + inversion E. subst. apply lib_le_refl.
    + inversion E. subst. apply lib_le_mk. exact I.
Qed.

Lemma kins_fresh_grow (l : klib) id0 k ty l' id :
  lib_inv l -> id0 = 0 \/ id0 = lnext l -> kins l id0 k ty = (l', id) -> lib_inv l' /\ lib_le l l'.
Proof.
  intros I Hid E. split.
  - pose proof (kins_inv l id0 k ty I) as H. rewrite E in H. exact H.
  - unfold kins, lib_insert in E.
    assert (Hx : (if id0 =? 0 then lnext l else id0) = lnext l).
    { destruct Hid as [->| ->]; [reflexivity|]. destruct (lnext l =? 0) eqn:E0; reflexivity. }
    rewrite Hx in E. inversion E. subst. apply lib_le_mk. exact I.
Qed.

(* ================================================================================================ *)
(* D. growth of the core                                                                             *)
(* ================================================================================================ *)
Definition core_le (c c' : core) : Prop :=
  lib_le (rf_l c) (rf_l c') /\ lib_le (grad_l c) (grad_l c') /\ lib_le (adc_l c) (adc_l c') /\
  lib_le (trig_l c) (trig_l c') /\ lib_le (lset_l c) (lset_l c') /\ lib_le (linc_l c) (linc_l c') /\
  lib_le (ext_l c) (ext_l c') /\ lib_le (shape_l c) (shape_l c') /\
  (forall id s, ext_type_str c id = Some s -> ext_type_str c' id = Some s) /\
  blocks c' = blocks c /\ durs c' = durs c.

Lemma core_le_refl c : core_le c c.
Proof. unfold core_le. repeat split; try apply lib_le_refl. intros id s H. exact H. Qed.

Lemma core_le_trans c1 c2 c3 : core_le c1 c2 -> core_le c2 c3 -> core_le c1 c3.
Proof.
  intros (A1 & A2 & A3 & A4 & A5 & A6 & A7 & A8 & A9 & A10 & A11)
         (B1 & B2 & B3 & B4 & B5 & B6 & B7 & B8 & B9 & B10 & B11).
  unfold core_le. repeat split; try (eapply lib_le_trans; eassumption); try congruence.
  intros id s H. apply B9. apply A9. exact H.
Qed.

(* invariant kept and old ids preserved *)
Definition grows (c c' : core) : Prop := core_inv c' /\ core_le c c'.

Lemma grows_refl c : core_inv c -> grows c c.
Proof. intro I. split; [exact I|apply core_le_refl]. Qed.

Lemma grows_trans c1 c2 c3 : grows c1 c2 -> grows c2 c3 -> grows c1 c3.
Proof. intros [_ A] [I B]. split; [exact I|eapply core_le_trans; eassumption]. Qed.

Ltac grows_set_tac :=
  let I := fresh "I" in let Il := fresh "Il" in let L := fresh "L" in
  intros I Il L;
  destruct I as (I1 & I2 & I3 & I4 & I5 & I6 & I7 & I8);
  split;
  [unfold core_inv; cbn; repeat (split; [assumption|]); assumption
  |unfold core_le; cbn; repeat (split; [first [assumption|apply lib_le_refl]|]);
   split; [intros id s H; exact H|split; reflexivity]].

Lemma grows_set_rf c l : core_inv c -> lib_inv l -> lib_le (rf_l c) l -> grows c (c <| rf_l := l |>).
Proof. grows_set_tac. Qed.
Lemma grows_set_grad c l : core_inv c -> lib_inv l -> lib_le (grad_l c) l -> grows c (c <| grad_l := l |>).
Proof. grows_set_tac. Qed.
Lemma grows_set_adc c l : core_inv c -> lib_inv l -> lib_le (adc_l c) l -> grows c (c <| adc_l := l |>).
Proof. grows_set_tac. Qed.
Lemma grows_set_trig c l : core_inv c -> lib_inv l -> lib_le (trig_l c) l -> grows c (c <| trig_l := l |>).
Proof. grows_set_tac. Qed.
Lemma grows_set_lset c l : core_inv c -> lib_inv l -> lib_le (lset_l c) l -> grows c (c <| lset_l := l |>).
Proof. grows_set_tac. Qed.
Lemma grows_set_linc c l : core_inv c -> lib_inv l -> lib_le (linc_l c) l -> grows c (c <| linc_l := l |>).
Proof. grows_set_tac. Qed.
Lemma grows_set_ext c l : core_inv c -> lib_inv l -> lib_le (ext_l c) l -> grows c (c <| ext_l := l |>).
Proof. grows_set_tac. Qed.
Lemma grows_set_shape c l : core_inv c -> lib_inv l -> lib_le (shape_l c) l -> grows c (c <| shape_l := l |>).
Proof. grows_set_tac. Qed.

(* ---- register_* ---------------------------------------------------------------------------------- *)
Lemma register_adc_grows c n dw de fr ph dd :
  core_inv c -> grows c (fst (fst (register_adc c n dw de fr ph dd))).
Proof.
  intro I. unfold register_adc.
  destruct (kfoi (adc_l c) [n; dw; de; fr; ph; dd] 0) as [[l id] f] eqn:E. cbn [fst].
  destruct (kfoi_grow _ _ _ _ _ _ (proj1 (proj2 (proj2 I))) E) as [Il L].
  apply grows_set_adc; assumption.
Qed.

Lemma register_ctl_grows c ty ch de du :
  core_inv c -> grows c (fst (fst (register_ctl c ty ch de du))).
Proof.
  intro I. unfold register_ctl.
  destruct (kfoi (trig_l c) [zq ty; zq ch; de; du] 0) as [[l id] f] eqn:E. cbn [fst].
  destruct (kfoi_grow _ _ _ _ _ _ (proj1 (proj2 (proj2 (proj2 I)))) E) as [Il L].
  apply grows_set_trig; assumption.
Qed.

Lemma register_label_grows c is_set v lbl :
  core_inv c -> grows c (fst (fst (register_label c is_set v lbl))).
Proof.
  intro I. unfold register_label. destruct is_set.
  - destruct (kfoi (lset_l c) [v; zq lbl] 0) as [[l id] f] eqn:E. cbn [fst].
    destruct (kfoi_grow _ _ _ _ _ _ (proj1 (proj2 (proj2 (proj2 (proj2 I))))) E) as [Il L].
    apply grows_set_lset; assumption.
  - destruct (kfoi (linc_l c) [v; zq lbl] 0) as [[l id] f] eqn:E. cbn [fst].
    destruct (kfoi_grow _ _ _ _ _ _ (proj1 (proj2 (proj2 (proj2 (proj2 (proj2 I)))))) E) as [Il L].
    apply grows_set_linc; assumption.
Qed.

Lemma register_trap_grows c a r f fl d :
  core_inv c -> grows c (fst (fst (register_trap c a r f fl d))).
Proof.
  intro I. unfold register_trap.
  destruct (kfoi (grad_l c) [a; r; f; fl; d] tag_t) as [[l id] fd] eqn:E. cbn [fst].
  destruct (kfoi_grow _ _ _ _ _ _ (proj1 (proj2 I)) E) as [Il L].
  apply grows_set_grad; assumption.
Qed.

Lemma core_inv_shape c : core_inv c -> lib_inv (shape_l c).
Proof. intro I. apply I. Qed.
Lemma core_inv_grad c : core_inv c -> lib_inv (grad_l c).
Proof. intro I. apply I. Qed.
Lemma core_inv_rf c : core_inv c -> lib_inv (rf_l c).
Proof. intro I. apply I. Qed.
Lemma core_inv_ext c : core_inv c -> lib_inv (ext_l c).
Proof. intro I. apply I. Qed.

(* shape then gradient library: two successive growth steps *)
Lemma grows_shape_grad c sl gl :
  core_inv c -> lib_inv sl -> lib_le (shape_l c) sl -> lib_inv gl -> lib_le (grad_l c) gl ->
  grows c (c <| shape_l := sl |> <| grad_l := gl |>).
Proof.
  intros I Is Ls Ig Lg.
  pose proof (grows_set_shape c sl I Is Ls) as G1.
  eapply grows_trans; [exact G1|].
  apply grows_set_grad; [exact (proj1 G1)|exact Ig|cbn; exact Lg].
Qed.

Lemma grows_shape_rf c sl rl :
  core_inv c -> lib_inv sl -> lib_le (shape_l c) sl -> lib_inv rl -> lib_le (rf_l c) rl ->
  grows c (c <| shape_l := sl |> <| rf_l := rl |>).
Proof.
  intros I Is Ls Ir Lr.
  pose proof (grows_set_shape c sl I Is Ls) as G1.
  eapply grows_trans; [exact G1|].
  apply grows_set_rf; [exact (proj1 G1)|exact Ir|cbn; exact Lr].
Qed.

Lemma register_grad_tail c sl ids may_exist any_changed amp delay first last :
  core_inv c -> lib_inv sl -> lib_le (shape_l c) sl ->
  grows c (fst (fst (fst (
    let data := [amp] ++ map zq ids ++ [delay; first; last] in
    if (may_exist : bool) then
      let '(gl, gid, found) := kfoi (grad_l c) data tag_g in
      (c <| shape_l := sl |> <| grad_l := gl |>, gid, ids, (any_changed : bool) || found)
    else
      let '(gl, gid) := kins (grad_l c) 0 data tag_g in
      (c <| shape_l := sl |> <| grad_l := gl |>, gid, ids, any_changed))))).
Proof.
  intros I Is Ls. cbv zeta. destruct may_exist.
  - destruct (kfoi (grad_l c) ([amp] ++ map zq ids ++ [delay; first; last]) tag_g)
      as [[gl gid] found] eqn:E. cbn [fst].
    destruct (kfoi_grow _ _ _ _ _ _ (core_inv_grad c I) E) as [Ig Lg].
    apply grows_shape_grad; assumption.
  - destruct (kins (grad_l c) 0 ([amp] ++ map zq ids ++ [delay; first; last]) tag_g)
      as [gl gid] eqn:E. cbn [fst].
    destruct (kins_fresh_grow _ _ _ _ _ _ (core_inv_grad c I) (or_introl eq_refl) E) as [Ig Lg].
    apply grows_shape_grad; assumption.
Qed.

Lemma register_grad_grows c sids amp ws ts delay first last :
  core_inv c -> grows c (fst (fst (fst (register_grad c sids amp ws ts delay first last)))).
Proof.
  intro I. unfold register_grad.
  destruct sids as [ids|].
  - apply (register_grad_tail c (shape_l c) ids true false amp delay first last);
      [exact I|exact (core_inv_shape c I)|apply lib_le_refl].
  - destruct (kfoi (shape_l c) ws 0) as [[sl1 id1] f1] eqn:E1.
    destruct (kfoi_grow _ _ _ _ _ _ (core_inv_shape c I) E1) as [I1 L1].
    destruct ts as [ts|].
    + destruct (kfoi sl1 ts 0) as [[sl2 id2] f2] eqn:E2.
      destruct (kfoi_grow _ _ _ _ _ _ I1 E2) as [I2 L2].
      apply (register_grad_tail c sl2 [id1; id2] (f1 && f2) (f1 || f2) amp delay first last);
        [exact I|exact I2|eapply lib_le_trans; eassumption].
    + apply (register_grad_tail c sl1 [id1; 0] f1 f1 amp delay first last);
        [exact I|exact I1|exact L1].
Qed.

Lemma register_rf_tail c sl ids may_exist amp delay freq phoff use :
  core_inv c -> lib_inv sl -> lib_le (shape_l c) sl ->
  grows c (fst (fst (fst (
    let data := [amp] ++ map zq ids ++ [delay; freq; phoff] in
    if (may_exist : bool) then
      let '(rl, rid, found) := kfoi (rf_l c) data use in
      (c <| shape_l := sl |> <| rf_l := rl |>, rid, ids, found)
    else
      let '(rl, rid) := kins (rf_l c) 0 data use in
      (c <| shape_l := sl |> <| rf_l := rl |>, rid, ids, false))))).
Proof.
  intros I Is Ls. cbv zeta. destruct may_exist.
  - destruct (kfoi (rf_l c) ([amp] ++ map zq ids ++ [delay; freq; phoff]) use)
      as [[rl rid] found] eqn:E. cbn [fst].
    destruct (kfoi_grow _ _ _ _ _ _ (core_inv_rf c I) E) as [Ir Lr].
    apply grows_shape_rf; assumption.
  - destruct (kins (rf_l c) 0 ([amp] ++ map zq ids ++ [delay; freq; phoff]) use)
      as [rl rid] eqn:E. cbn [fst].
    destruct (kins_fresh_grow _ _ _ _ _ _ (core_inv_rf c I) (or_introl eq_refl) E) as [Ir Lr].
    apply grows_shape_rf; assumption.
Qed.

Lemma register_rf_grows c sids amp mag ph ts delay freq phoff use :
  core_inv c -> grows c (fst (fst (fst (register_rf c sids amp mag ph ts delay freq phoff use)))).
Proof.
  intro I. unfold register_rf.
  destruct sids as [ids|].
  - apply (register_rf_tail c (shape_l c) ids true amp delay freq phoff use);
      [exact I|exact (core_inv_shape c I)|apply lib_le_refl].
  - destruct (kfoi (shape_l c) mag 0) as [[sl1 id1] f1] eqn:E1.
    destruct (kfoi_grow _ _ _ _ _ _ (core_inv_shape c I) E1) as [I1 L1].
    destruct (kfoi sl1 ph 0) as [[sl2 id2] f2] eqn:E2.
    destruct (kfoi_grow _ _ _ _ _ _ I1 E2) as [I2 L2].
    destruct ts as [ts|].
    + destruct (kfoi sl2 ts 0) as [[sl3 id3] f3] eqn:E3.
      destruct (kfoi_grow _ _ _ _ _ _ I2 E3) as [I3 L3].
      apply (register_rf_tail c sl3 [id1; id2; id3] (f1 && f2 && f3) amp delay freq phoff use);
        [exact I|exact I3|].
      eapply lib_le_trans; [exact L1|]. eapply lib_le_trans; eassumption.
    + apply (register_rf_tail c sl2 [id1; id2; 0] (f1 && f2) amp delay freq phoff use);
        [exact I|exact I2|eapply lib_le_trans; eassumption].
Qed.

(* ---- extension type table ------------------------------------------------------------------------ *)
Lemma index_of_app x l y n : index_of x l = Some n -> index_of x (l ++ [y]) = Some n.
Proof.
  revert n. induction l as [|z r IH]; cbn; intros n H; [discriminate|].
  destruct (x =? z); [exact H|].
  destruct (index_of x r) as [m|]; cbn in H; [|discriminate].
  rewrite (IH m eq_refl). exact H.
Qed.

Lemma nth_error_app_keep {A} (l : list A) y n s :
  nth_error l n = Some s -> nth_error (l ++ [y]) n = Some s.
Proof.
  intro H. rewrite nth_error_app1; [exact H|].
  apply nth_error_Some. congruence.
Qed.

Lemma ext_type_id_grows c s : core_inv c -> grows c (fst (ext_type_id c s)).
Proof.
  intro I. unfold ext_type_id.
  destruct (index_of s (ext_str c)) as [n|]; cbn [fst]; [apply grows_refl; exact I|].
  split.
  - exact I.
  - unfold core_le. cbn. repeat (split; [apply lib_le_refl|]).
    split; [|split; reflexivity].
    intros id s0. unfold ext_type_str. cbn.
    destruct (index_of id (ext_num c)) as [m|] eqn:E; [|discriminate].
    intro H. rewrite (index_of_app _ _ _ _ E). apply nth_error_app_keep. exact H.
Qed.

(* ---- extension library --------------------------------------------------------------------------- *)
Lemma ext_add_grow exts : forall (l : klib) eid,
  lib_inv l -> lib_inv (fst (ext_add l exts eid)) /\ lib_le l (fst (ext_add l exts eid)).
Proof.
  induction exts as [|[ty ref] r IH]; intros l eid I; cbn [ext_add].
  - cbn [fst]. split; [exact I|apply lib_le_refl].
  - unfold kfind, lib_find.
    destruct (aget key_eqb (lkeymap l) [zq ty; zq ref; zq eid]) as [id|].
    + apply IH. exact I.
    + destruct (kins l (lnext l) [zq ty; zq ref; zq eid] 0) as [l1 id1] eqn:E. cbn [fst].
      destruct (kins_fresh_grow _ _ _ _ _ _ I (or_intror eq_refl) E) as [I1 L1].
      destruct (IH l1 (lnext l) I1) as [I2 L2].
      split; [exact I2|eapply lib_le_trans; eassumption].
Qed.

Lemma ext_register_grow hint (l : klib) exts :
  lib_inv l -> lib_inv (fst (ext_register hint l exts)) /\ lib_le l (fst (ext_register hint l exts)).
Proof.
  intro I. unfold ext_register.
  destruct (ext_probe l (sort_exts hint exts) 0) as [id af].
  destruct af; [cbn [fst]; split; [exact I|apply lib_le_refl]|].
  apply ext_add_grow. exact I.
Qed.

(* ---- the event loop ------------------------------------------------------------------------------ *)
Lemma ev_step_grows a e a' :
  core_inv (a_core a) -> ev_step a e = inl a' -> grows (a_core a) (a_core a').
Proof.
  intros I H. destruct e; cbn [ev_step] in H.
  - (* MRf *)
    destruct (negb (nth 1 (a_blk a) 0 =? 0)); [discriminate|].
    destruct id as [i|].
    + inversion H. cbn. apply grows_refl. exact I.
    + pose proof (register_rf_grows (a_core a) sids amp mag phase tshape delay freq phoff use I) as G.
      destruct (register_rf (a_core a) sids amp mag phase tshape delay freq phoff use)
        as [[[c1 i] ids] clr].
      inversion H. cbn. exact G.
  - (* MGrad *)
    destruct (negb (nth (2 + ch) (a_blk a) 0 =? 0)); [discriminate|].
    destruct id as [i|].
    + inversion H. cbn. apply grows_refl. exact I.
    + pose proof (register_grad_grows (a_core a) sids amp wshape tshape delay first last I) as G.
      destruct (register_grad (a_core a) sids amp wshape tshape delay first last)
        as [[[c1 i] ids] clr].
      inversion H. cbn. exact G.
  - (* MTrap *)
    destruct (negb (nth (2 + ch) (a_blk a) 0 =? 0)); [discriminate|].
    destruct id as [i|].
    + inversion H. cbn. apply grows_refl. exact I.
    + pose proof (register_trap_grows (a_core a) amp rise flat fall delay I) as G.
      destruct (register_trap (a_core a) amp rise flat fall delay) as [[c1 i] clr].
      inversion H. cbn. exact G.
  - (* MAdc *)
    destruct (negb (nth 5 (a_blk a) 0 =? 0)); [discriminate|].
    destruct id as [i|].
    + inversion H. cbn. apply grows_refl. exact I.
    + pose proof (register_adc_grows (a_core a) num dwell delay freq phoff dead I) as G.
      destruct (register_adc (a_core a) num dwell delay freq phoff dead) as [[c1 i] clr].
      inversion H. cbn. exact G.
  - (* MDelay *) inversion H. cbn. apply grows_refl. exact I.
  - (* MCtl *)
    destruct id as [i|].
    + pose proof (ext_type_id_grows (a_core a) XS_TRIGGERS I) as G.
      destruct (ext_type_id (a_core a) XS_TRIGGERS) as [c2 tid].
      inversion H. cbn. exact G.
    + pose proof (register_ctl_grows (a_core a) typ chan delay dur I) as G1.
      destruct (register_ctl (a_core a) typ chan delay dur) as [[c1 i] clr]. cbn [fst] in G1.
      pose proof (ext_type_id_grows c1 XS_TRIGGERS (proj1 G1)) as G2.
      destruct (ext_type_id c1 XS_TRIGGERS) as [c2 tid].
      inversion H. cbn. eapply grows_trans; eassumption.
  - (* MLabel *)
    destruct id as [i|].
    + pose proof (ext_type_id_grows (a_core a) (if is_set then XS_LABELSET else XS_LABELINC) I) as G.
      destruct (ext_type_id (a_core a) (if is_set then XS_LABELSET else XS_LABELINC)) as [c2 tid].
      inversion H. cbn. exact G.
    + pose proof (register_label_grows (a_core a) is_set value lbl I) as G1.
      destruct (register_label (a_core a) is_set value lbl) as [[c1 i] clr]. cbn [fst] in G1.
      pose proof (ext_type_id_grows c1 (if is_set then XS_LABELSET else XS_LABELINC) (proj1 G1)) as G2.
      destruct (ext_type_id c1 (if is_set then XS_LABELSET else XS_LABELINC)) as [c2 tid].
      inversion H. cbn. eapply grows_trans; eassumption.
  - (* MDur *) inversion H. cbn. apply grows_refl. exact I.
Qed.

Lemma ev_loop_grows evs : forall a,
  core_inv (a_core a) -> grows (a_core a) (a_core (fst (ev_loop a evs))).
Proof.
  induction evs as [|e r IH]; intros a I; cbn [ev_loop].
  - cbn [fst]. apply grows_refl. exact I.
  - destruct (ev_step a e) as [a'|x] eqn:E.
    + pose proof (ev_step_grows a e a' I E) as G1.
      eapply grows_trans; [exact G1|]. apply IH. exact (proj1 G1).
    + cbn [fst]. apply grows_refl. exact I.
Qed.

(* ---- set_block as a whole ------------------------------------------------------------------------ *)
Lemma sbc_spec abs_fix c i evs hint c' clr e :
  core_inv c -> set_block_core abs_fix c i evs hint = (c', clr, e) ->
  exists c2, grows c c2 /\
    match e with
    | Some _ => c' = c2
    | None => exists blk dur,
        c' = c2 <| blocks := aset Z.eqb (blocks c2) i blk |> <| durs := aset Z.eqb (durs c2) i dur |>
    end.
Proof.
  intros I H. unfold set_block_core in H.
  pose proof (ev_loop_grows evs (mkAcc c false [0; 0; 0; 0; 0; 0; 0] qc0 [chk0; chk0; chk0] []) I) as G.
  cbn [a_core] in G.
  destruct (ev_loop (mkAcc c false [0; 0; 0; 0; 0; 0; 0] qc0 [chk0; chk0; chk0] []) evs) as [a eo].
  cbn [fst] in G.
  destruct eo as [x|].
  - inversion H. subst. exists (a_core a). split; [exact G|reflexivity].
  - destruct (a_exts a) as [|x xs].
    + destruct (check_channels abs_fix (a_core a) i (a_dur a) 0 (a_chk a)) as [y|].
      * inversion H. subst. exists (a_core a). split; [exact G|reflexivity].
      * inversion H. subst. exists (a_core a). split; [exact G|].
        exists (a_blk a), (a_dur a). reflexivity.
    + destruct (ext_register_grow hint (ext_l (a_core a)) (x :: xs) (core_inv_ext _ (proj1 G)))
        as [Ie Le].
      destruct (ext_register hint (ext_l (a_core a)) (x :: xs)) as [el eid]. cbn [fst] in Ie, Le.
      assert (G2 : grows c (a_core a <| ext_l := el |>)).
      { eapply grows_trans; [exact G|]. apply grows_set_ext; [exact (proj1 G)|exact Ie|exact Le]. }
      destruct (check_channels abs_fix (a_core a <| ext_l := el |>) i (a_dur a) 0 (a_chk a)) as [y|].
      * inversion H. subst. exists (a_core a <| ext_l := el |>). split; [exact G2|reflexivity].
      * inversion H. subst. exists (a_core a <| ext_l := el |>). split; [exact G2|].
        exists (set_nth 6 eid (a_blk a)), (a_dur a). reflexivity.
Qed.

Lemma core_inv_set_blocks c b d n :
  core_inv c -> core_inv (c <| blocks := b |> <| durs := d |> <| next_block := n |>).
Proof. intro I. exact I. Qed.

Lemma core_inv_set_blocks2 c b d :
  core_inv c -> core_inv (c <| blocks := b |> <| durs := d |>).
Proof. intro I. exact I. Qed.

Lemma core_inv_set_next c n : core_inv c -> core_inv (c <| next_block := n |>).
Proof. intro I. exact I. Qed.

Lemma sbc_core_inv abs_fix c i evs hint :
  core_inv c -> core_inv (fst (fst (set_block_core abs_fix c i evs hint))).
Proof.
  intro I. destruct (set_block_core abs_fix c i evs hint) as [[c' clr] e] eqn:E. cbn [fst].
  destruct (sbc_spec _ _ _ _ _ _ _ _ I E) as (c2 & G & H).
  destruct e as [x|].
  - subst. exact (proj1 G).
  - destruct H as (blk & dur & ->). apply core_inv_set_blocks2. exact (proj1 G).
Qed.

(* ---- remove_duplicates ---------------------------------------------------------------------------- *)
Lemma dedup_core_inv r1 r2 r3 r4 c c' :
  core_inv c -> dedup_core r1 r2 r3 r4 c = Some c' -> core_inv c'.
Proof.
  intros I H. unfold dedup_core in H.
  pose proof (lrd_inv r1 (shape_l c)) as Is.
  destruct (lib_remove_duplicates key_eqb r1 (shape_l c)) as [sl smap]. cbn [fst] in Is.
  destruct (remap_rows (ldata (grad_l c)) (grad_l c)
              (fun id => match lib_type (grad_l c) id with Some t => t =? tag_g | None => false end)
              (remap_grad_row smap)) as [gl1|]; cbn [opt_bind] in H; [|discriminate].
  destruct (remap_rows (ldata (rf_l c)) (rf_l c) (fun _ => true) (remap_rf_row smap)) as [rl1|];
    cbn [opt_bind] in H; [|discriminate].
  pose proof (lrd_inv r2 gl1) as Ig.
  destruct (lib_remove_duplicates key_eqb r2 gl1) as [gl2 gmap]. cbn [fst] in Ig.
  destruct (remap_blocks (blocks c) [2%nat; 3%nat; 4%nat] gmap) as [b1|]; cbn [opt_bind] in H; [|discriminate].
  pose proof (lrd_inv r3 rl1) as Ir.
  destruct (lib_remove_duplicates key_eqb r3 rl1) as [rl2 rmap]. cbn [fst] in Ir.
  destruct (remap_blocks b1 [1%nat] rmap) as [b2|]; cbn [opt_bind] in H; [|discriminate].
  pose proof (lrd_inv r4 (adc_l c)) as Ia.
  destruct (lib_remove_duplicates key_eqb r4 (adc_l c)) as [al2 amap]. cbn [fst] in Ia.
  destruct (remap_blocks b2 [5%nat] amap) as [b3|]; cbn [opt_bind] in H; [|discriminate].
  inversion H. subst c'.
  destruct I as (I1 & I2 & I3 & I4 & I5 & I6 & I7 & I8).
  unfold core_inv. cbn. repeat (split; [assumption|]). assumption.
Qed.

(* ---- get_block never touches the core -------------------------------------------------------------- *)
Lemma do_get_core cache_on s i : st_core (fst (do_get cache_on s i)) = st_core s.
Proof.
  unfold do_get.
  destruct (if cache_on then aget Z.eqb (st_cache s) i else None) as [b|]; [reflexivity|].
  destruct (decode (st_core s) i) as [b|]; [|reflexivity].
  destruct cache_on; reflexivity.
Qed.

Lemma touch_core cache_on ks : forall s,
  st_core (fold_left (fun st i => fst (do_get cache_on st i)) ks s) = st_core s.
Proof.
  induction ks as [|k r IH]; intro s; cbn [fold_left]; [reflexivity|].
  rewrite IH. apply do_get_core.
Qed.

(* ================================================================================================ *)
(* 1, 2. the library invariant                                                                       *)
(* ================================================================================================ *)
Theorem core_inv_init : forall g s sl e, core_inv (core_init g s sl e).
Proof.
  intros g s sl e. unfold core_inv, core_init. cbn.
  repeat (split; [exact lib_inv_empty|]). exact lib_inv_empty.
Qed.
Print Assumptions core_inv_init.

Theorem step_core_inv : forall cache_on abs_fix r1 r2 r3 r4 s o,
  core_inv (st_core s) -> ops_wf [o] ->
  core_inv (st_core (fst (step cache_on abs_fix r1 r2 r3 r4 s o))).
Proof.
  intros cache_on abs_fix r1 r2 r3 r4 s o I W. destruct o; cbn [step].
  - (* AddBlock *)
    pose proof (sbc_core_inv abs_fix (st_core s) (next_block (st_core s)) evs hint I) as H.
    destruct (set_block_core abs_fix (st_core s) (next_block (st_core s)) evs hint) as [[c' clr] e].
    cbn [fst] in H. destruct e; cbn [fst st_core]; [exact H|]. apply core_inv_set_next. exact H.
  - (* SetBlock *)
    pose proof (sbc_core_inv abs_fix (st_core s) i evs hint I) as H.
    destruct (set_block_core abs_fix (st_core s) i evs hint) as [[c' clr] e].
    cbn [fst] in H. destruct e; cbn [fst st_core]; [exact H|]. apply core_inv_set_next. exact H.
  - (* GetBlock *)
    pose proof (do_get_core cache_on s i) as H.
    destruct (do_get cache_on s i) as [s' b]. cbn [fst] in *. rewrite H. exact I.
  - (* RegRf *)
    pose proof (register_rf_grows (st_core s) sids amp mag phase tshape delay freq phoff use I) as H.
    destruct (register_rf (st_core s) sids amp mag phase tshape delay freq phoff use) as [[[c' id] ids] clr].
    cbn [fst st_core] in *. exact (proj1 H).
  - (* RegGrad *)
    pose proof (register_grad_grows (st_core s) sids amp wshape tshape delay first last I) as H.
    destruct (register_grad (st_core s) sids amp wshape tshape delay first last) as [[[c' id] ids] clr].
    cbn [fst st_core] in *. exact (proj1 H).
  - (* RegTrap *)
    pose proof (register_trap_grows (st_core s) amp rise flat fall delay I) as H.
    destruct (register_trap (st_core s) amp rise flat fall delay) as [[c' id] clr].
    cbn [fst st_core] in *. exact (proj1 H).
  - (* RegAdc *)
    pose proof (register_adc_grows (st_core s) num dwell delay freq phoff dead I) as H.
    destruct (register_adc (st_core s) num dwell delay freq phoff dead) as [[c' id] clr].
    cbn [fst st_core] in *. exact (proj1 H).
  - (* RegLabel *)
    pose proof (register_label_grows (st_core s) is_set value lbl I) as H.
    destruct (register_label (st_core s) is_set value lbl) as [[c' id] clr].
    cbn [fst st_core] in *. exact (proj1 H).
  - (* DedupInPlace *)
    destruct (dedup_core r1 r2 r3 r4 (st_core s)) as [c'|] eqn:E; cbn [fst st_core].
    + eapply dedup_core_inv; eassumption.
    + exact I.
  - (* DedupCopy *) cbn [fst]. exact I.
  - (* TouchAll *) cbn [fst]. rewrite touch_core. exact I.
  - (* Load *) cbn [fst st_core]. cbn in W. exact (proj1 W).
Qed.
Print Assumptions step_core_inv.

 (* summary of the growth lemmas above:
    register_adc_grows, register_ctl_grows, register_label_grows, register_trap_grows,
    register_grad_grows, register_rf_grows, ext_type_id_grows : core_inv c -> grows c (result core);
    ext_add_grow, ext_register_grow : lib_inv / lib_le for the extension library;
    ev_step_grows, ev_loop_grows; sbc_spec : the registration part of set_block_core grows the core,
    success then overwrites blocks/durs at index i only. *)

(* ================================================================================================ *)
(* 3. decoding is monotone under growth                                                              *)
(* ================================================================================================ *)
Lemma le_rf c c' : core_le c c' -> lib_le (rf_l c) (rf_l c').       Proof. intro L. apply L. Qed.
Lemma le_grad c c' : core_le c c' -> lib_le (grad_l c) (grad_l c'). Proof. intro L. apply L. Qed.
Lemma le_adc c c' : core_le c c' -> lib_le (adc_l c) (adc_l c').    Proof. intro L. apply L. Qed.
Lemma le_trig c c' : core_le c c' -> lib_le (trig_l c) (trig_l c'). Proof. intro L. apply L. Qed.
Lemma le_lset c c' : core_le c c' -> lib_le (lset_l c) (lset_l c'). Proof. intro L. apply L. Qed.
Lemma le_linc c c' : core_le c c' -> lib_le (linc_l c) (linc_l c'). Proof. intro L. apply L. Qed.
Lemma le_ext c c' : core_le c c' -> lib_le (ext_l c) (ext_l c').    Proof. intro L. apply L. Qed.
Lemma le_shape c c' : core_le c c' -> lib_le (shape_l c) (shape_l c'). Proof. intro L. apply L. Qed.
Lemma le_xstr c c' : core_le c c' ->
  forall id s, ext_type_str c id = Some s -> ext_type_str c' id = Some s.
Proof. intro L. apply L. Qed.
Lemma le_blocks c c' : core_le c c' -> blocks c' = blocks c. Proof. intro L. apply L. Qed.
Lemma le_durs c c' : core_le c c' -> durs c' = durs c.       Proof. intro L. apply L. Qed.

Lemma get_shape_mono c c' sid k : core_le c c' -> get_shape c sid = Some k -> get_shape c' sid = Some k.
Proof. intros L H. unfold get_shape in *. eapply lib_le_get; [exact (le_shape _ _ L)|exact H]. Qed.

Lemma dec_rf_mono c c' id r : core_le c c' -> dec_rf c id = Some r -> dec_rf c' id = Some r.
Proof.
  intros L. unfold dec_rf. destruct (id <=? 0); [auto|].
  destruct (lib_get (rf_l c) id) as [data|] eqn:E1; cbn [opt_bind]; [|discriminate].
  rewrite (lib_le_get _ _ _ _ (le_rf _ _ L) E1), (lib_le_type _ _ _ _ (le_rf _ _ L) E1).
  cbn [opt_bind].
  destruct (get_shape c (qz (knth data 1))) as [mag|] eqn:E2; cbn [opt_bind]; [|discriminate].
  rewrite (get_shape_mono _ _ _ _ L E2). cbn [opt_bind].
  destruct (get_shape c (qz (knth data 2))) as [ph|] eqn:E3; cbn [opt_bind]; [|discriminate].
  rewrite (get_shape_mono _ _ _ _ L E3). cbn [opt_bind].
  destruct (0 <? qz (knth data 3)); [|auto].
  destruct (get_shape c (qz (knth data 3))) as [ts|] eqn:E4; cbn [opt_bind]; [|discriminate].
  rewrite (get_shape_mono _ _ _ _ L E4). cbn [opt_bind]. auto.
Qed.

Lemma dec_grad_mono c c' id r : core_le c c' -> dec_grad c id = Some r -> dec_grad c' id = Some r.
Proof.
  intros L. unfold dec_grad. destruct (id <=? 0); [auto|].
  destruct (lib_type (grad_l c) id) as [ty|] eqn:E0; cbn [opt_bind]; [|discriminate].
  destruct (lib_get (grad_l c) id) as [data|] eqn:E1; cbn [opt_bind]; [|discriminate].
  rewrite (lib_le_type _ _ _ _ (le_grad _ _ L) E1), E0.
  rewrite (lib_le_get _ _ _ _ (le_grad _ _ L) E1).
  cbn [opt_bind].
  destruct (ty =? tag_t); [auto|].
  destruct (get_shape c (qz (knth data 1))) as [ws|] eqn:E2; cbn [opt_bind]; [|discriminate].
  rewrite (get_shape_mono _ _ _ _ L E2). cbn [opt_bind].
  destruct (qz (knth data 2) =? 0); [auto|].
  destruct (get_shape c (qz (knth data 2))) as [ts|] eqn:E4; cbn [opt_bind]; [|discriminate].
  rewrite (get_shape_mono _ _ _ _ L E4). cbn [opt_bind]. auto.
Qed.

Lemma dec_adc_mono c c' id r : core_le c c' -> dec_adc c id = Some r -> dec_adc c' id = Some r.
Proof.
  intros L. unfold dec_adc. destruct (id <=? 0); [auto|].
  destruct (lib_get (adc_l c) id) as [data|] eqn:E1; cbn [opt_bind]; [|discriminate].
  rewrite (lib_le_get _ _ _ _ (le_adc _ _ L) E1). cbn [opt_bind]. auto.
Qed.

Lemma dec_ext_unfold c f eid :
  dec_ext c f eid =
  if eid =? 0 then Some [] else
  match f with
  | O => None
  | S f =>
    opt_bind (lib_get (ext_l c) eid) (fun ed =>
    opt_bind (ext_type_str c (qz (knth ed 0))) (fun s =>
    let ref := qz (knth ed 1) in
    let payload :=
      if s =? XS_TRIGGERS then lib_get (trig_l c) ref
      else if s =? XS_LABELSET then lib_get (lset_l c) ref
      else if s =? XS_LABELINC then lib_get (linc_l c) ref
      else None in
    opt_bind payload (fun p =>
    opt_bind (dec_ext c f (qz (knth ed 2))) (fun rest => Some ((s, p) :: rest)))))
  end.
Proof. destruct f; reflexivity. Qed.

Lemma dec_ext_mono c c' : core_le c c' ->
  forall f f' eid r, (f <= f')%nat -> dec_ext c f eid = Some r -> dec_ext c' f' eid = Some r.
Proof.
  intro L. induction f as [|f IH]; intros f' eid r Hf; rewrite (dec_ext_unfold c), (dec_ext_unfold c').
  - destruct (eid =? 0); [auto|discriminate].
  - destruct (eid =? 0); [auto|].
    destruct f' as [|f']; [lia|].
    destruct (lib_get (ext_l c) eid) as [ed|] eqn:E1; cbn [opt_bind]; [|discriminate].
    rewrite (lib_le_get _ _ _ _ (le_ext _ _ L) E1). cbn [opt_bind].
    destruct (ext_type_str c (qz (knth ed 0))) as [s|] eqn:E2; cbn [opt_bind]; [|discriminate].
    rewrite (le_xstr _ _ L _ _ E2). cbn [opt_bind]. cbv zeta.
    set (p := if s =? XS_TRIGGERS then lib_get (trig_l c) (qz (knth ed 1))
              else if s =? XS_LABELSET then lib_get (lset_l c) (qz (knth ed 1))
              else if s =? XS_LABELINC then lib_get (linc_l c) (qz (knth ed 1)) else None).
    set (p' := if s =? XS_TRIGGERS then lib_get (trig_l c') (qz (knth ed 1))
              else if s =? XS_LABELSET then lib_get (lset_l c') (qz (knth ed 1))
              else if s =? XS_LABELINC then lib_get (linc_l c') (qz (knth ed 1)) else None).
    destruct p as [pl|] eqn:E3; cbn [opt_bind]; [|discriminate].
    assert (E3' : p' = Some pl).
    { subst p p'. destruct (s =? XS_TRIGGERS).
      - eapply lib_le_get; [exact (le_trig _ _ L)|exact E3].
      - destruct (s =? XS_LABELSET).
        + eapply lib_le_get; [exact (le_lset _ _ L)|exact E3].
        + destruct (s =? XS_LABELINC); [|discriminate].
          eapply lib_le_get; [exact (le_linc _ _ L)|exact E3]. }
    rewrite E3'. cbn [opt_bind].
    destruct (dec_ext c f (qz (knth ed 2))) as [rest|] eqn:E4; cbn [opt_bind]; [|discriminate].
    rewrite (IH f' _ rest); [cbn [opt_bind]; auto|lia|exact E4].
Qed.

(* the extension chain of a successful walk never revisits an id, so it is no longer than the
   number of entries of any library that contains all its ids: the fuel of the larger core suffices *)
Lemma dec_ext_len c : forall f eid r,
  dec_ext c f eid = Some r -> dec_ext c (length r) eid = Some r.
Proof.
  induction f as [|f IH]; intros eid r H; rewrite (dec_ext_unfold c) in H.
  - destruct (eid =? 0) eqn:E0; [|discriminate]. inversion H. cbn [length].
    rewrite (dec_ext_unfold c), E0. reflexivity.
  - destruct (eid =? 0) eqn:E0.
    { inversion H. cbn [length]. rewrite (dec_ext_unfold c), E0. reflexivity. }
    destruct (lib_get (ext_l c) eid) as [ed|] eqn:E1; cbn [opt_bind] in H; [|discriminate].
    destruct (ext_type_str c (qz (knth ed 0))) as [s|] eqn:E2; cbn [opt_bind] in H; [|discriminate].
    cbv zeta in H.
    destruct (if s =? XS_TRIGGERS then lib_get (trig_l c) (qz (knth ed 1))
              else if s =? XS_LABELSET then lib_get (lset_l c) (qz (knth ed 1))
              else if s =? XS_LABELINC then lib_get (linc_l c) (qz (knth ed 1)) else None)
      as [pl|] eqn:E3; cbn [opt_bind] in H; [|discriminate].
    destruct (dec_ext c f (qz (knth ed 2))) as [rest|] eqn:E4; cbn [opt_bind] in H; [|discriminate].
    inversion H. subst r. cbn [length].
    rewrite (dec_ext_unfold c (S (length rest))), E0, E1. cbn [opt_bind].
    rewrite E2. cbn [opt_bind]. cbv zeta. rewrite E3. cbn [opt_bind].
    rewrite (IH _ _ E4). reflexivity.
Qed.

Lemma dec_ext_det c f1 f2 eid r1 r2 :
  dec_ext c f1 eid = Some r1 -> dec_ext c f2 eid = Some r2 -> r1 = r2.
Proof.
  intros H1 H2.
  pose proof (dec_ext_mono c c (core_le_refl c) f1 (Nat.max f1 f2) eid r1 (Nat.le_max_l _ _) H1) as A.
  pose proof (dec_ext_mono c c (core_le_refl c) f2 (Nat.max f1 f2) eid r2 (Nat.le_max_r _ _) H2) as B.
  congruence.
Qed.

Lemma dec_ext_chain c : forall f eid r,
  dec_ext c f eid = Some r ->
  exists ids, length ids = length r /\ NoDup ids /\
    forall x, In x ids ->
      lib_get (ext_l c) x <> None /\
      exists f' r', dec_ext c f' x = Some r' /\ r' <> [] /\ (length r' <= length r)%nat.
Proof.
  induction f as [|f IH]; intros eid r H; pose proof H as H0; rewrite (dec_ext_unfold c) in H.
  - destruct (eid =? 0); [|discriminate]. inversion H. exists []. split; [reflexivity|].
    split; [constructor|]. intros x [].
  - destruct (eid =? 0).
    { inversion H. exists []. split; [reflexivity|]. split; [constructor|]. intros x []. }
    destruct (lib_get (ext_l c) eid) as [ed|] eqn:E1; cbn [opt_bind] in H; [|discriminate].
    destruct (ext_type_str c (qz (knth ed 0))) as [s|]; cbn [opt_bind] in H; [|discriminate].
    cbv zeta in H.
    destruct (if s =? XS_TRIGGERS then lib_get (trig_l c) (qz (knth ed 1))
              else if s =? XS_LABELSET then lib_get (lset_l c) (qz (knth ed 1))
              else if s =? XS_LABELINC then lib_get (linc_l c) (qz (knth ed 1)) else None)
      as [pl|]; cbn [opt_bind] in H; [|discriminate].
    destruct (dec_ext c f (qz (knth ed 2))) as [rest|] eqn:E4; cbn [opt_bind] in H; [|discriminate].
    inversion H. subst r. clear H.
    destruct (IH _ _ E4) as (ids & Hl & Hn & Hx).
    exists (eid :: ids). split; [cbn; lia|]. split.
    + constructor; [|exact Hn]. intro Hin.
      destruct (Hx eid Hin) as (_ & f' & r' & D & _ & Hle).
      pose proof (dec_ext_det c _ _ _ _ _ D H0) as X. subst r'. cbn in Hle. lia.
    + intros x [Hx0|Hin].
      * subst x. split; [congruence|].
        exists (S f), ((s, pl) :: rest). split; [exact H0|]. split; [discriminate|lia].
      * destruct (Hx x Hin) as (G & f' & r' & D & Hne & Hle).
        split; [exact G|]. exists f', r'. split; [exact D|]. split; [exact Hne|]. cbn. lia.
Qed.

Lemma dec_ext_bound c c' f eid r :
  core_le c c' -> dec_ext c f eid = Some r -> (length r <= length (ldata (ext_l c')))%nat.
Proof.
  intros L H. destruct (dec_ext_chain c f eid r H) as (ids & Hl & Hn & Hx).
  rewrite <- Hl. rewrite <- (map_length fst (ldata (ext_l c'))).
  apply NoDup_incl_length; [exact Hn|].
  intros x Hin. destruct (Hx x Hin) as (G & _).
  destruct (lib_get (ext_l c) x) as [k|] eqn:E; [|congruence].
  pose proof (lib_le_get _ _ _ _ (le_ext _ _ L) E) as G'.
  unfold lib_get in G'. eapply aget_Some_in; [exact Zeqb_spec|exact G'].
Qed.

Lemma decode_mono : forall c c' i b, core_le c c' -> decode c i = Some b -> decode c' i = Some b.
Proof.
  intros c c' i b L. unfold decode.
  rewrite (le_blocks _ _ L), (le_durs _ _ L).
  destruct (aget Z.eqb (blocks c) i) as [ev|]; cbn [opt_bind]; [|discriminate].
  destruct (dec_rf c (nth 1 ev 0)) as [rf|] eqn:E1; cbn [opt_bind]; [|discriminate].
  rewrite (dec_rf_mono _ _ _ _ L E1). cbn [opt_bind].
  destruct (dec_grad c (nth 2 ev 0)) as [gx|] eqn:E2; cbn [opt_bind]; [|discriminate].
  rewrite (dec_grad_mono _ _ _ _ L E2). cbn [opt_bind].
  destruct (dec_grad c (nth 3 ev 0)) as [gy|] eqn:E3; cbn [opt_bind]; [|discriminate].
  rewrite (dec_grad_mono _ _ _ _ L E3). cbn [opt_bind].
  destruct (dec_grad c (nth 4 ev 0)) as [gz|] eqn:E4; cbn [opt_bind]; [|discriminate].
  rewrite (dec_grad_mono _ _ _ _ L E4). cbn [opt_bind].
  destruct (dec_adc c (nth 5 ev 0)) as [adc|] eqn:E5; cbn [opt_bind]; [|discriminate].
  rewrite (dec_adc_mono _ _ _ _ L E5). cbn [opt_bind].
  destruct (0 <? nth 6 ev 0).
  - destruct (dec_ext c (S (length (ldata (ext_l c)))) (nth 6 ev 0)) as [ext|] eqn:E6;
      cbn [opt_bind]; [|discriminate].
    assert (Hlen : (length ext <= S (length (ldata (ext_l c'))))%nat).
    { pose proof (dec_ext_bound c c' _ _ _ L E6) as Hl. lia. }
    rewrite (dec_ext_mono c c' L _ _ _ _ Hlen (dec_ext_len c _ _ _ E6)).
    cbn [opt_bind]. auto.
  - auto.
Qed.

Lemma opt_bind_ext {A B} (o : option A) (f g : A -> option B) :
  (forall a, f a = g a) -> opt_bind o f = opt_bind o g.
Proof. intro H. destruct o; cbn; [apply H|reflexivity]. Qed.

Definition same_libs (c c' : core) : Prop :=
  rf_l c' = rf_l c /\ grad_l c' = grad_l c /\ adc_l c' = adc_l c /\ trig_l c' = trig_l c /\
  lset_l c' = lset_l c /\ linc_l c' = linc_l c /\ ext_l c' = ext_l c /\ shape_l c' = shape_l c /\
  ext_num c' = ext_num c /\ ext_str c' = ext_str c.

Lemma dec_ext_cong c c' : same_libs c c' ->
  forall f eid, dec_ext c' f eid = dec_ext c f eid.
Proof.
  intros (H1 & H2 & H3 & H4 & H5 & H6 & H7 & H8 & H9 & H10).
  induction f as [|f IH]; intro eid; rewrite (dec_ext_unfold c), (dec_ext_unfold c').
  - reflexivity.
  - destruct (eid =? 0); [reflexivity|].
    unfold ext_type_str. rewrite H4, H5, H6, H7, H9, H10.
    apply opt_bind_ext; intro ed. apply opt_bind_ext; intro s. cbv zeta.
    apply opt_bind_ext; intro p. rewrite IH. reflexivity.
Qed.

Print Assumptions decode_mono.

(* decoding block j reads the block table and the durations only at j *)
Lemma decode_cong c c' j : same_libs c c' ->
  aget Z.eqb (blocks c') j = aget Z.eqb (blocks c) j ->
  aget Z.eqb (durs c') j = aget Z.eqb (durs c) j ->
  decode c' j = decode c j.
Proof.
  intros S HB HD. pose proof (dec_ext_cong c c' S) as HX.
  destruct S as (H1 & H2 & H3 & H4 & H5 & H6 & H7 & H8 & H9 & H10).
  unfold decode, dec_rf, dec_grad, dec_adc, get_shape.
  rewrite HB, HD, H1, H2, H3, H7, H8.
  apply opt_bind_ext; intro ev. apply opt_bind_ext; intro rf. apply opt_bind_ext; intro gx.
  apply opt_bind_ext; intro gy. apply opt_bind_ext; intro gz. apply opt_bind_ext; intro adc.
  rewrite HX. reflexivity.
Qed.

Lemma decode_set_other c B D j :
  aget Z.eqb B j = aget Z.eqb (blocks c) j -> aget Z.eqb D j = aget Z.eqb (durs c) j ->
  decode (c <| blocks := B |> <| durs := D |>) j = decode c j.
Proof.
  intros HB HD. apply decode_cong; [|exact HB|exact HD].
  unfold same_libs. cbn. repeat split.
Qed.

Lemma decode_set_next c n j : decode (c <| next_block := n |>) j = decode c j.
Proof.
  apply decode_cong; [|reflexivity|reflexivity]. unfold same_libs. cbn. repeat split.
Qed.

(* ================================================================================================ *)
(* 4. the cache invariant                                                                            *)
(* ================================================================================================ *)
(* [adel] removes the FIRST entry for a key only, so "every cached block is current" survives a block
   overwrite only if the cache has no duplicate keys; the cache is built by [aset]/[adel] from [],
   so this always holds for reachable states. *)
Definition cache_wf (c : core) (ch : list (Z * dblock)) : Prop :=
  cache_ok c ch /\ NoDup (akeys ch).

Lemma cache_wf_nil c : cache_wf c [].
Proof. split; [intros i b H; discriminate|constructor]. Qed.

Lemma akeys_adel_incl {V} (l : list (Z * V)) k x : In x (akeys (adel Z.eqb l k)) -> In x (akeys l).
Proof.
  induction l as [|[k' v'] r IH]; cbn; [tauto|].
  destruct (k' =? k); cbn; [tauto|]. intros [H|H]; [left; exact H|right; exact (IH H)].
Qed.

Lemma NoDup_adel {V} (l : list (Z * V)) k : NoDup (akeys l) -> NoDup (akeys (adel Z.eqb l k)).
Proof.
  induction l as [|[k' v'] r IH]; cbn; intro H; [constructor|].
  inversion H as [|x xs Hx Hr]; subst.
  destruct (k' =? k); cbn; [exact Hr|].
  constructor; [|exact (IH Hr)]. intro Hin. apply Hx. eapply akeys_adel_incl. exact Hin.
Qed.

Lemma aget_adel_same_nodup {V} (l : list (Z * V)) k :
  NoDup (akeys l) -> aget Z.eqb (adel Z.eqb l k) k = None.
Proof.
  induction l as [|[k' v'] r IH]; cbn; intro H; [reflexivity|].
  inversion H as [|x xs Hx Hr]; subst.
  destruct (k' =? k) eqn:E; cbn.
  - apply Z.eqb_eq in E. subst k'. apply agetZ_notin_None. exact Hx.
  - rewrite E. exact (IH Hr).
Qed.

Lemma NoDup_aset {V} (l : list (Z * V)) k v : NoDup (akeys l) -> NoDup (akeys (aset Z.eqb l k v)).
Proof.
  intro H. destruct (aget Z.eqb l k) as [w|] eqn:E.
  - rewrite (akeys_aset_in Z.eqb); [exact H|congruence].
  - rewrite (akeys_aset_new Z.eqb); [|exact E].
    apply NoDup_incl_NoDup with (l := k :: akeys l).
    + constructor; [|exact H]. eapply aget_None_notin; [exact Zeqb_spec|exact E].
    + rewrite app_length. cbn. lia.
    + intros x [Hx|Hx]; apply in_or_app; [right; left; exact Hx|left; exact Hx].
Qed.

Lemma cache_wf_mono c c' ch : core_le c c' -> cache_wf c ch -> cache_wf c' ch.
Proof.
  intros L [H N]. split; [|exact N]. intros i b Hi. eapply decode_mono; [exact L|]. apply H. exact Hi.
Qed.

Lemma cache_wf_clear c clr ch : cache_wf c ch -> cache_wf c (apply_clear true clr ch).
Proof. intro H. unfold apply_clear. destruct clr; cbn; [apply cache_wf_nil|exact H]. Qed.

Lemma cache_wf_set_block c2 ch i blk dur n :
  cache_wf c2 ch ->
  cache_wf (c2 <| blocks := aset Z.eqb (blocks c2) i blk |> <| durs := aset Z.eqb (durs c2) i dur |>
               <| next_block := n |>)
           (adel Z.eqb ch i).
Proof.
  intros [H N]. split; [|apply NoDup_adel; exact N].
  intros j b Hj. destruct (Z.eq_dec j i) as [->|Hne].
  - rewrite (aget_adel_same_nodup _ _ N) in Hj. discriminate.
  - rewrite (agetZ_adel_other _ _ _ Hne) in Hj.
    rewrite decode_set_next, decode_set_other.
    + apply H. exact Hj.
    + apply agetZ_aset_other. exact Hne.
    + apply agetZ_aset_other. exact Hne.
Qed.

Lemma do_get_wf s i :
  cache_wf (st_core s) (st_cache s) ->
  cache_wf (st_core (fst (do_get true s i))) (st_cache (fst (do_get true s i))).
Proof.
  intros [H N]. unfold do_get.
  destruct (aget Z.eqb (st_cache s) i) as [b|] eqn:E; cbn [fst]; [split; assumption|].
  destruct (decode (st_core s) i) as [b|] eqn:D; cbn [fst st_core st_cache]; [|split; assumption].
  split; [|apply NoDup_aset; exact N].
  intros j b' Hj. destruct (Z.eq_dec j i) as [->|Hne].
  - rewrite agetZ_aset_same in Hj. congruence.
  - rewrite (agetZ_aset_other _ _ _ _ Hne) in Hj. apply H. exact Hj.
Qed.

Lemma touch_wf ks : forall s,
  cache_wf (st_core s) (st_cache s) ->
  cache_wf (st_core (fold_left (fun st i => fst (do_get true st i)) ks s))
           (st_cache (fold_left (fun st i => fst (do_get true st i)) ks s)).
Proof.
  induction ks as [|k r IH]; intros s H; cbn [fold_left]; [exact H|].
  apply IH. apply do_get_wf. exact H.
Qed.

Lemma sbc_cache_wf abs_fix c i evs hint ch c' clr e n :
  core_inv c -> cache_wf c ch -> set_block_core abs_fix c i evs hint = (c', clr, e) ->
  match e with
  | Some _ => cache_wf c' (apply_clear true clr ch)
  | None => cache_wf (c' <| next_block := n |>) (adel Z.eqb (apply_clear true clr ch) i)
  end.
Proof.
  intros I W E. destruct (sbc_spec _ _ _ _ _ _ _ _ I E) as (c2 & G & H).
  assert (W2 : cache_wf c2 (apply_clear true clr ch)).
  { apply cache_wf_clear. eapply cache_wf_mono; [exact (proj2 G)|exact W]. }
  destruct e as [x|].
  - subst c'. exact W2.
  - destruct H as (blk & dur & ->). apply cache_wf_set_block. exact W2.
Qed.

(* The statement asked for (cache_ok alone) is false for caches with duplicate keys, see
   [step_cache_ok_counterexample] below; this is the strongest true variant. *)
Theorem step_cache_ok_partial : forall abs_fix r1 r2 r3 r4 s o,
  core_inv (st_core s) -> ops_wf [o] ->
  cache_ok (st_core s) (st_cache s) -> NoDup (akeys (st_cache s)) ->
  let s' := fst (step true abs_fix r1 r2 r3 r4 s o) in
  cache_ok (st_core s') (st_cache s') /\ NoDup (akeys (st_cache s')).
Proof.
  intros abs_fix r1 r2 r3 r4 s o I Wf Hok Hnd.
  assert (W : cache_wf (st_core s) (st_cache s)) by (split; assumption).
  clear Hok Hnd. change (cache_wf (st_core (fst (step true abs_fix r1 r2 r3 r4 s o)))
                                  (st_cache (fst (step true abs_fix r1 r2 r3 r4 s o)))).
  destruct o; cbn [step].
  - (* AddBlock *)
    destruct (set_block_core abs_fix (st_core s) (next_block (st_core s)) evs hint) as [[c' clr] e] eqn:E.
    pose proof (sbc_cache_wf _ _ _ _ _ _ _ _ _ (next_block c' + 1) I W E) as H.
    destruct e; cbn [fst st_core st_cache]; exact H.
  - (* SetBlock *)
    destruct (set_block_core abs_fix (st_core s) i evs hint) as [[c' clr] e] eqn:E.
    pose proof (sbc_cache_wf _ _ _ _ _ _ _ _ _ (if next_block c' <=? i then i + 1 else next_block c') I W E) as H.
    destruct e; cbn [fst st_core st_cache]; exact H.
  - (* GetBlock *)
    pose proof (do_get_wf s i W) as H.
    destruct (do_get true s i) as [s' b]. cbn [fst] in *. exact H.
  - (* RegRf *)
    pose proof (register_rf_grows (st_core s) sids amp mag phase tshape delay freq phoff use I) as H.
    destruct (register_rf (st_core s) sids amp mag phase tshape delay freq phoff use) as [[[c' id] ids] clr].
    cbn [fst st_core st_cache] in *. apply cache_wf_clear. eapply cache_wf_mono; [exact (proj2 H)|exact W].
  - (* RegGrad *)
    pose proof (register_grad_grows (st_core s) sids amp wshape tshape delay first last I) as H.
    destruct (register_grad (st_core s) sids amp wshape tshape delay first last) as [[[c' id] ids] clr].
    cbn [fst st_core st_cache] in *. apply cache_wf_clear. eapply cache_wf_mono; [exact (proj2 H)|exact W].
  - (* RegTrap *)
    pose proof (register_trap_grows (st_core s) amp rise flat fall delay I) as H.
    destruct (register_trap (st_core s) amp rise flat fall delay) as [[c' id] clr].
    cbn [fst st_core st_cache] in *. apply cache_wf_clear. eapply cache_wf_mono; [exact (proj2 H)|exact W].
  - (* RegAdc *)
    pose proof (register_adc_grows (st_core s) num dwell delay freq phoff dead I) as H.
    destruct (register_adc (st_core s) num dwell delay freq phoff dead) as [[c' id] clr].
    cbn [fst st_core st_cache] in *. apply cache_wf_clear. eapply cache_wf_mono; [exact (proj2 H)|exact W].
  - (* RegLabel *)
    pose proof (register_label_grows (st_core s) is_set value lbl I) as H.
    destruct (register_label (st_core s) is_set value lbl) as [[c' id] clr].
    cbn [fst st_core st_cache] in *. apply cache_wf_clear. eapply cache_wf_mono; [exact (proj2 H)|exact W].
  - (* DedupInPlace *)
    destruct (dedup_core r1 r2 r3 r4 (st_core s)) as [c'|]; cbn [fst st_core st_cache].
    + apply cache_wf_nil.
    + exact W.
  - (* DedupCopy *) cbn [fst]. exact W.
  - (* TouchAll *) cbn [fst]. apply touch_wf. exact W.
  - (* Load *) cbn [fst st_core st_cache]. apply cache_wf_nil.
Qed.
Print Assumptions step_cache_ok_partial.

(* ================================================================================================ *)
(* 5. the cache is invisible                                                                         *)
(* ================================================================================================ *)
Lemma ops_wf_cons o r : ops_wf (o :: r) -> ops_wf [o] /\ ops_wf r.
Proof. destruct o; cbn; tauto. Qed.

Lemma do_get_sim s1 s2 i :
  st_core s1 = st_core s2 -> cache_ok (st_core s1) (st_cache s1) ->
  st_core (fst (do_get true s1 i)) = st_core (fst (do_get false s2 i)) /\
  snd (do_get true s1 i) = snd (do_get false s2 i).
Proof.
  intros Hc Hok. unfold do_get. rewrite <- Hc.
  destruct (aget Z.eqb (st_cache s1) i) as [b|] eqn:E.
  - rewrite (Hok i b E). cbn. split; [exact Hc|reflexivity].
  - destruct (decode (st_core s1) i) as [b|]; cbn; split; auto.
Qed.

(* the core computed by a step depends neither on the cache switch nor on the cache; the outputs agree
   when the cache is consistent *)
Lemma step_sim abs_fix r1 r2 r3 r4 s1 s2 o :
  st_core s1 = st_core s2 -> cache_ok (st_core s1) (st_cache s1) ->
  st_core (fst (step true abs_fix r1 r2 r3 r4 s1 o)) = st_core (fst (step false abs_fix r1 r2 r3 r4 s2 o)) /\
  snd (step true abs_fix r1 r2 r3 r4 s1 o) = snd (step false abs_fix r1 r2 r3 r4 s2 o).
Proof.
  intros Hc Hok. destruct o; cbn [step]; try rewrite <- Hc.
  - destruct (set_block_core abs_fix (st_core s1) (next_block (st_core s1)) evs hint) as [[c' clr] e].
    destruct e; cbn; split; reflexivity.
  - destruct (set_block_core abs_fix (st_core s1) i evs hint) as [[c' clr] e].
    destruct e; cbn; split; reflexivity.
  - destruct (do_get_sim s1 s2 i Hc Hok) as [A B].
    destruct (do_get true s1 i) as [s1' b1]. destruct (do_get false s2 i) as [s2' b2].
    cbn [fst snd] in *. split; [exact A|congruence].
  - destruct (register_rf (st_core s1) sids amp mag phase tshape delay freq phoff use) as [[[c' id] ids] clr].
    cbn. split; reflexivity.
  - destruct (register_grad (st_core s1) sids amp wshape tshape delay first last) as [[[c' id] ids] clr].
    cbn. split; reflexivity.
  - destruct (register_trap (st_core s1) amp rise flat fall delay) as [[c' id] clr].
    cbn. split; reflexivity.
  - destruct (register_adc (st_core s1) num dwell delay freq phoff dead) as [[c' id] clr].
    cbn. split; reflexivity.
  - destruct (register_label (st_core s1) is_set value lbl) as [[c' id] clr].
    cbn. split; reflexivity.
  - destruct (dedup_core r1 r2 r3 r4 (st_core s1)) as [c'|]; cbn; split; auto.
  - cbn. split; [exact Hc|reflexivity].
  - cbn [fst snd]. rewrite !touch_core. split; [exact Hc|reflexivity].
  - cbn. split; reflexivity.
Qed.

Lemma run_sim abs_fix r1 r2 r3 r4 ops : forall s1 s2 acc,
  st_core s1 = st_core s2 -> core_inv (st_core s1) -> ops_wf ops ->
  cache_wf (st_core s1) (st_cache s1) ->
  let F := fun b (acc : state * list out) o =>
             let '(s', x) := step b abs_fix r1 r2 r3 r4 (fst acc) o in (s', snd acc ++ [x]) in
  snd (fold_left (F true) ops (s1, acc)) = snd (fold_left (F false) ops (s2, acc)) /\
  st_core (fst (fold_left (F true) ops (s1, acc))) = st_core (fst (fold_left (F false) ops (s2, acc))).
Proof.
  induction ops as [|o r IH]; intros s1 s2 acc Hc I Wf W F.
  - cbn. split; [reflexivity|exact Hc].
  - cbn [fold_left]. destruct (ops_wf_cons _ _ Wf) as [Wo Wr].
    unfold F at 2 4 6 8. cbn [fst snd].
    destruct (step_sim abs_fix r1 r2 r3 r4 s1 s2 o Hc (proj1 W)) as [A B].
    pose proof (step_core_inv true abs_fix r1 r2 r3 r4 s1 o I Wo) as I'.
    pose proof (step_cache_ok_partial abs_fix r1 r2 r3 r4 s1 o I Wo (proj1 W) (proj2 W)) as W'.
    cbv zeta in W'.
    destruct (step true abs_fix r1 r2 r3 r4 s1 o) as [s1' x1].
    destruct (step false abs_fix r1 r2 r3 r4 s2 o) as [s2' x2].
    cbn [fst snd] in *. subst x2.
    apply IH; assumption.
Qed.

Theorem cache_invisible : forall abs_fix r1 r2 r3 r4 ops c0,
  core_inv c0 -> ops_wf ops ->
  let on := run true abs_fix r1 r2 r3 r4 (mkState c0 []) ops in
  let off := run false abs_fix r1 r2 r3 r4 (mkState c0 []) ops in
  snd on = snd off /\ st_core (fst on) = st_core (fst off).
Proof.
  intros abs_fix r1 r2 r3 r4 ops c0 I Wf. cbv zeta. unfold run.
  apply (run_sim abs_fix r1 r2 r3 r4 ops (mkState c0 []) (mkState c0 []) []);
    [reflexivity|exact I|exact Wf|apply cache_wf_nil].
Qed.
Print Assumptions cache_invisible.

(* ================================================================================================ *)
(* 6. get_block returns the decoding of the stored block                                             *)
(* ================================================================================================ *)
Lemma run_inv abs_fix r1 r2 r3 r4 ops : forall s acc,
  core_inv (st_core s) -> ops_wf ops -> cache_wf (st_core s) (st_cache s) ->
  let s' := fst (fold_left (fun (acc : state * list out) o =>
               let '(s', x) := step true abs_fix r1 r2 r3 r4 (fst acc) o in (s', snd acc ++ [x]))
               ops (s, acc)) in
  core_inv (st_core s') /\ cache_wf (st_core s') (st_cache s').
Proof.
  induction ops as [|o r IH]; intros s acc I Wf W.
  - cbn. split; assumption.
  - cbn [fold_left]. destruct (ops_wf_cons _ _ Wf) as [Wo Wr]. cbn [fst snd].
    pose proof (step_core_inv true abs_fix r1 r2 r3 r4 s o I Wo) as I'.
    pose proof (step_cache_ok_partial abs_fix r1 r2 r3 r4 s o I Wo (proj1 W) (proj2 W)) as W'.
    cbv zeta in W'.
    destruct (step true abs_fix r1 r2 r3 r4 s o) as [s1 x1]. cbn [fst snd] in *.
    apply IH; assumption.
Qed.

Theorem run_cache_ok : forall abs_fix r1 r2 r3 r4 ops c0,
  core_inv c0 -> ops_wf ops ->
  let s := fst (run true abs_fix r1 r2 r3 r4 (mkState c0 []) ops) in
  core_inv (st_core s) /\ cache_ok (st_core s) (st_cache s) /\ NoDup (akeys (st_cache s)).
Proof.
  intros abs_fix r1 r2 r3 r4 ops c0 I Wf. cbv zeta. unfold run.
  destruct (run_inv abs_fix r1 r2 r3 r4 ops (mkState c0 []) [] I Wf (cache_wf_nil c0)) as [A [B C]].
  split; [exact A|split; [exact B|exact C]].
Qed.
Print Assumptions run_cache_ok.

Theorem get_block_is_decode : forall abs_fix r1 r2 r3 r4 ops c0 i,
  core_inv c0 -> ops_wf ops ->
  let s := fst (run true abs_fix r1 r2 r3 r4 (mkState c0 []) ops) in
  snd (step true abs_fix r1 r2 r3 r4 s (GetBlock i)) = OBlock (decode (st_core s) i).
Proof.
  intros abs_fix r1 r2 r3 r4 ops c0 i I Wf.
  destruct (run_cache_ok abs_fix r1 r2 r3 r4 ops c0 I Wf) as (_ & Hok & _).
  cbv zeta in *. set (s := fst (run true abs_fix r1 r2 r3 r4 (mkState c0 []) ops)) in *.
  cbn [step]. unfold do_get.
  destruct (aget Z.eqb (st_cache s) i) as [b|] eqn:E.
  - rewrite (Hok i b E). reflexivity.
  - destruct (decode (st_core s) i) as [b|]; reflexivity.
Qed.
Print Assumptions get_block_is_decode.

(* ================================================================================================ *)
(* 7, 8. keys, sharing of equal events, by value = by id                                             *)
(* ================================================================================================ *)
Lemma qc_eqb_spec : forall a b, qc_eqb a b = true <-> a = b.
Proof.
  intros a b. unfold qc_eqb. split.
  - intro H. apply andb_true_iff in H. destruct H as [Hn Hd].
    apply Z.eqb_eq in Hn. apply Pos.eqb_eq in Hd.
    apply Qc_is_canon. destruct a as [[an ad] ca], b as [[bn bd] cb]. cbn in *. subst. reflexivity.
  - intros ->. rewrite Z.eqb_refl, Pos.eqb_refl. reflexivity.
Qed.

Lemma key_eqb_spec : forall a b, key_eqb a b = true <-> a = b.
Proof.
  induction a as [|x r IH]; intros [|y s]; cbn; split; intro H; try reflexivity; try discriminate.
  - apply andb_true_iff in H. destruct H as [H1 H2].
    apply qc_eqb_spec in H1. apply IH in H2. subst. reflexivity.
  - inversion H. subst. apply andb_true_iff. split; [apply qc_eqb_spec|apply IH]; reflexivity.
Qed.

Print Assumptions key_eqb_spec.

Theorem kfoi_idempotent : forall (l : klib) k ty,
  let '(l1, id1, _) := kfoi l k ty in kfoi l1 k ty = (l1, id1, true).
Proof.
  intros l k ty. unfold kfoi, lib_find_or_insert.
  destruct (aget key_eqb (lkeymap l) k) as [id|] eqn:E.
  - rewrite E. reflexivity.
  - cbn [lkeymap]. rewrite (aget_aset_same key_eqb key_eqb_spec). reflexivity.
Qed.
Print Assumptions kfoi_idempotent.

(* keymap -> data consistency *)
Definition keymap_consistent (l : klib) : Prop :=
  forall k id, aget key_eqb (lkeymap l) k = Some id -> lib_get l id = Some k.

Theorem kfoi_keymap_consistent : forall (l : klib) k ty,
  lib_inv l -> keymap_consistent l ->
  lib_inv (fst (fst (kfoi l k ty))) /\ keymap_consistent (fst (fst (kfoi l k ty))).
Proof.
  intros l k ty I C. split; [apply kfoi_inv; exact I|].
  unfold kfoi, lib_find_or_insert.
  destruct (aget key_eqb (lkeymap l) k) as [id|] eqn:E; cbn [fst]; [exact C|].
  intros k' id' H. cbn [lkeymap] in H. unfold lib_get. cbn [ldata].
  destruct (key_eqb k' k) eqn:Ek.
  - apply key_eqb_spec in Ek. subst k'.
    rewrite (aget_aset_same key_eqb key_eqb_spec) in H. inversion H. subst id'.
    apply agetZ_aset_same.
  - assert (Hne : k' <> k) by (intro X; subst; rewrite (proj2 (key_eqb_spec k k) eq_refl) in Ek; discriminate).
    rewrite (aget_aset_other key_eqb key_eqb_spec _ _ _ _ Hne) in H.
    pose proof (C k' id' H) as G.
    assert (Hlt : id' < lnext l) by (apply lib_get_lt; [exact I|congruence]).
    rewrite agetZ_aset_other; [exact G|lia].
Qed.
Print Assumptions kfoi_keymap_consistent.

Theorem kfoi_distinct : forall (l : klib) k1 k2 ty1 ty2,
  lib_inv l ->
  (forall k id, aget key_eqb (lkeymap l) k = Some id -> lib_get l id = Some k) ->
  k1 <> k2 ->
  let '(l1, id1, _) := kfoi l k1 ty1 in
  let '(l2, id2, _) := kfoi l1 k2 ty2 in
  id1 <> id2.
Proof.
  intros l k1 k2 ty1 ty2 I C Hne. unfold kfoi, lib_find_or_insert.
  destruct (aget key_eqb (lkeymap l) k1) as [id1|] eqn:E1.
  - pose proof (C k1 id1 E1) as G1.
    destruct (aget key_eqb (lkeymap l) k2) as [id2|] eqn:E2.
    + pose proof (C k2 id2 E2) as G2. intro X. subst. congruence.
    + assert (Hlt : id1 < lnext l) by (apply lib_get_lt; [exact I|congruence]). lia.
  - cbn [lkeymap lnext].
    rewrite (aget_aset_other key_eqb key_eqb_spec); [|congruence].
    destruct (aget key_eqb (lkeymap l) k2) as [id2|] eqn:E2.
    + pose proof (C k2 id2 E2) as G2.
      assert (Hlt : id2 < lnext l) by (apply lib_get_lt; [exact I|congruence]). lia.
    + lia.
Qed.
Print Assumptions kfoi_distinct.

(* ---- by value = by id ---------------------------------------------------------------------------- *)
Lemma nth_zeros7 n : nth n [0; 0; 0; 0; 0; 0; 0] 0 = 0.
Proof. do 7 (destruct n as [|n]; [reflexivity|]). destruct n; reflexivity. Qed.

Theorem trap_by_value_eq_by_id : forall abs_fix c i ch a r f fl d hint,
  let '(c1, id, _) := register_trap c a r f fl d in
  fst (fst (set_block_core abs_fix c i [MTrap ch None a r f fl d] hint)) =
  fst (fst (set_block_core abs_fix c1 i [MTrap ch (Some id) a r f fl d] hint)).
Proof.
  intros abs_fix c i ch a r f fl d hint.
  unfold set_block_core. cbn [ev_loop ev_step a_core a_blk].
  destruct (register_trap c a r f fl d) as [[c1 id] clr].
  rewrite nth_zeros7. cbn -[check_channels Qcmax Qcplus Qcmult].
  match goal with
  | |- context [check_channels ?x1 ?x2 ?x3 ?x4 ?x5 ?x6] =>
    destruct (check_channels x1 x2 x3 x4 x5 x6); reflexivity
  end.
Qed.
Print Assumptions trap_by_value_eq_by_id.

Theorem adc_by_value_eq_by_id : forall abs_fix c i n dw de fr ph dd hint,
  let '(c1, id, _) := register_adc c n dw de fr ph dd in
  fst (fst (set_block_core abs_fix c i [MAdc None n dw de fr ph dd] hint)) =
  fst (fst (set_block_core abs_fix c1 i [MAdc (Some id) n dw de fr ph dd] hint)).
Proof.
  intros abs_fix c i n dw de fr ph dd hint.
  unfold set_block_core. cbn [ev_loop ev_step a_core a_blk].
  destruct (register_adc c n dw de fr ph dd) as [[c1 id] clr].
  cbn -[check_channels Qcmax Qcplus Qcmult].
  match goal with
  | |- context [check_channels ?x1 ?x2 ?x3 ?x4 ?x5 ?x6] =>
    destruct (check_channels x1 x2 x3 x4 x5 x6); reflexivity
  end.
Qed.
Print Assumptions adc_by_value_eq_by_id.

(* ================================================================================================ *)
(* Why 4 needs the no-duplicate-keys hypothesis: a concrete state where [cache_ok] alone is lost     *)
(* ================================================================================================ *)
Definition cx_id : key -> key := fun k => k.
Definition cx_c0 : core := core_init qc0 qc0 qc0 qc0.
Definition cx_c : core :=
  st_core (fst (step true false cx_id cx_id cx_id cx_id (mkState cx_c0 []) (AddBlock [MDelay (zq 1)] []))).
Definition cx_b1 : dblock := mkDBlock (zq 1) None [None; None; None] None [].
Definition cx_b2 : dblock := mkDBlock (zq 7) None [] None [].
(* block 1 is cached twice: the first entry is current, the second is stale *)
Definition cx_s : state := mkState cx_c [(1, cx_b1); (1, cx_b2)].
Definition cx_o : op := SetBlock 1 [MDelay (zq 2)] [].

Lemma cx_decode : decode cx_c 1 = Some cx_b1.
Proof. vm_compute. reflexivity. Qed.

Lemma cx_after :
  st_cache (fst (step true false cx_id cx_id cx_id cx_id cx_s cx_o)) = [(1, cx_b2)] /\
  option_map (fun b => length (d_g b))
    (decode (st_core (fst (step true false cx_id cx_id cx_id cx_id cx_s cx_o))) 1) = Some 3%nat.
Proof. vm_compute. split; reflexivity. Qed.

Theorem step_cache_ok_counterexample :
  exists abs_fix r1 r2 r3 r4 s o,
    core_inv (st_core s) /\ ops_wf [o] /\ cache_ok (st_core s) (st_cache s) /\
    ~ (let s' := fst (step true abs_fix r1 r2 r3 r4 s o) in cache_ok (st_core s') (st_cache s')).
Proof.
  exists false, cx_id, cx_id, cx_id, cx_id, cx_s, cx_o.
  split; [|split; [|split]].
  - change (st_core cx_s) with cx_c. unfold cx_c. apply step_core_inv; [|exact I].
    apply core_inv_init.
  - exact I.
  - intros i b H. change (st_core cx_s) with cx_c.
    change (st_cache cx_s) with [(1, cx_b1); (1, cx_b2)] in H. cbn [aget] in H.
    destruct (1 =? i) eqn:E; [|discriminate].
    apply Z.eqb_eq in E. subst i. inversion H. subst b. exact cx_decode.
  - cbv zeta. intro Hok. destruct cx_after as [Hc Hd].
    assert (Hg : aget Z.eqb (st_cache (fst (step true false cx_id cx_id cx_id cx_id cx_s cx_o))) 1
                 = Some cx_b2) by (rewrite Hc; reflexivity).
    apply Hok in Hg. rewrite Hg in Hd. cbn in Hd. discriminate.
Qed.
Print Assumptions step_cache_ok_counterexample.
