(* Proofs/RoundVsPrint.v — duplicate removal's significant-digit rounding (Base/Round.v: round_spec
   with the code's 1e-12 offset inside the logarithm) against the value printed by '{:g}' / '{:.9g}'
   (Model/File.v: fmt_sig).  For 10^(dig-12) <= |x| (and within the exponent search range) the two
   are the SAME function, so values identified by duplicate removal print identically and vice
   versa; below that magnitude the offset makes duplicate removal coarser than the printer
   (kernel-checked counterexamples). *)
From Coq Require Import List Bool ZArith QArith Qpower Qround Qabs Qreduction Lia Lqa.
From PV Require Import Base.QUtil Base.Round Gen.GenFile Model.File Proofs.FileProofs Proofs.RoundProofs.
Import ListNotations.
Open Scope Q_scope.

Lemma pow10_p10 (z : Z) : pow10 z == p10 z.
Proof. unfold p10, ten. apply pow10_Qpower. Qed.

Lemma rnd_he_near (a : Z) (q : Q) : Qabs (q - inject_Z a) < 1 # 2 -> rnd_he q = a.
Proof.
  intro H. pose proof (rnd_he_err q) as E. unfold Qhalf in E.
  apply Qabs_Qle_condition in E. destruct E as [E1 E2].
  assert (H' : - (1 # 2) < q - inject_Z a /\ q - inject_Z a < 1 # 2).
  { destruct (Qlt_le_dec (q - inject_Z a) 0) as [N|P].
    - rewrite (Qabs_neg (q - inject_Z a)) in H by lra. lra.
    - rewrite (Qabs_pos (q - inject_Z a)) in H by lra. lra. }
  destruct H' as [H1 H2].
  assert (L1 : inject_Z (rnd_he q) < inject_Z a + 1) by lra.
  assert (L2 : inject_Z a - 1 < inject_Z (rnd_he q)) by lra.
  change 1 with (inject_Z 1) in L1, L2. unfold Qminus in L2.
  rewrite <- inject_Z_plus in L1. rewrite <- inject_Z_opp, <- inject_Z_plus in L2.
  rewrite <- Zlt_Qlt in L1, L2. lia.
Qed.

Lemma Qeq_bool_false_of (a b : Q) : ~ a == b -> Qeq_bool a b = false.
Proof. intro H. destruct (Qeq_bool a b) eqn:E; [apply Qeq_bool_iff in E; contradiction|reflexivity]. Qed.

(* the magnitudes on which the two roundings coincide *)
Definition sig_range (dig : Z) (x : Q) : Prop :=
  x == 0 \/ (pow10 (dig - 12) <= Qabs x /\ Qabs x + log_offset <= pow10 387).

Lemma neg_zero_tiny : Qabs neg_zero < pow10 (-11).
Proof. vm_compute. reflexivity. Qed.

Lemma round_spec_zero (dig : Z) (x : Q) : (0 < dig)%Z -> x == 0 -> round_spec dig x = 0.
Proof.
  intros Hd Hx0.
  assert (G : Qeq_bool x neg_zero = false).
  { destruct (Qeq_bool x neg_zero) eqn:G; [|reflexivity]. apply Qeq_bool_iff in G.
    assert (X : 0 == neg_zero) by (transitivity x; [symmetry; exact Hx0|exact G]). discriminate X. }
  rewrite (round_spec_sig_eq dig x G Hd). unfold round_dec.
  transitivity (Qred 0); [|reflexivity]. apply Qred_complete.
  assert (E : x * pow10 (dig - sig_exp x) == inject_Z 0).
  { transitivity (0 * pow10 (dig - sig_exp x)); [apply Qmult_comp; [exact Hx0|reflexivity]|unfold inject_Z; ring]. }
  rewrite (rnd_he_Proper _ _ E), rnd_he_inject. unfold inject_Z. ring.
Qed.

(* in the carry zone just below a power of ten: P - 1e-12 < |x| < P = 10^(ef+1).  Rounding to k
   decimals with 10^-k >= 1e-11 gives exactly +-P. *)
Lemma round_below_power (x : Q) (p k : Z) :
  (-11 <= - k)%Z -> (0 <= p + k)%Z ->
  pow10 p - log_offset < Qabs x -> Qabs x < pow10 p ->
  inject_Z (rnd_he (x * pow10 k)) * pow10 (- k) == (if Qlt_le_dec x 0 then - pow10 p else pow10 p).
Proof.
  intros Hk Hpk L U.
  pose proof (pow10_pos k) as Pk. pose proof (pow10_pos (- k)) as Pk'.
  assert (PK : pow10 p * pow10 k == inject_Z (10 ^ (p + k))) by (rewrite <- pow10_plus; rewrite pow10_nonneg_int by lia; reflexivity).
  assert (OK : log_offset * pow10 k <= 1 # 10).
  { rewrite log_offset_pow, <- pow10_plus. change (1 # 10) with (pow10 (-1)). apply pow10_mono. lia. }
  assert (INV : pow10 k * pow10 (- k) == 1) by apply pow10_inv.
  assert (PP : inject_Z (10 ^ (p + k)) * pow10 (- k) == pow10 p).
  { rewrite <- PK. setoid_replace (pow10 p * pow10 k * pow10 (- k)) with (pow10 p * (pow10 k * pow10 (- k))) by ring.
    rewrite INV. ring. }
  destruct (Qlt_le_dec x 0) as [Neg|Pos].
  - rewrite (Qabs_neg x) in L, U by lra.
    assert (R : rnd_he (x * pow10 k) = (- 10 ^ (p + k))%Z).
    { apply rnd_he_near. rewrite inject_Z_opp, <- PK.
      assert (A1 : 0 < x * pow10 k + pow10 p * pow10 k) by nra.
      assert (A2 : x * pow10 k + pow10 p * pow10 k < log_offset * pow10 k) by nra.
      setoid_replace (x * pow10 k - - (pow10 p * pow10 k)) with (x * pow10 k + pow10 p * pow10 k) by ring.
      rewrite Qabs_pos by lra. lra. }
    rewrite R, inject_Z_opp. setoid_replace (- inject_Z (10 ^ (p + k)) * pow10 (- k)) with (- (inject_Z (10 ^ (p + k)) * pow10 (- k))) by ring.
    rewrite PP. reflexivity.
  - rewrite (Qabs_pos x) in L, U by lra.
    assert (R : rnd_he (x * pow10 k) = (10 ^ (p + k))%Z).
    { apply rnd_he_near. rewrite <- PK.
      assert (A1 : x * pow10 k - pow10 p * pow10 k < 0) by nra.
      assert (A2 : - (log_offset * pow10 k) < x * pow10 k - pow10 p * pow10 k) by nra.
      rewrite Qabs_neg by lra. lra. }
    rewrite R. exact PP.
Qed.

Theorem round_spec_eq_fmt_sig (dig : Z) (x : Q) :
  (1 <= dig)%Z -> sig_range dig x -> round_spec dig x = fmt_sig dig x.
Proof.
  intros Hd [Z0|[Lo Hi]].
  - rewrite (round_spec_zero dig x ltac:(lia) Z0), (fmt_sig_zero dig x Z0). reflexivity.
  - pose proof (pow10_pos (dig - 12)) as Pd.
    assert (NZ : ~ x == 0).
    { intro Z0. assert (A : Qabs x == 0) by (rewrite Z0; reflexivity). lra. }
    assert (G : Qeq_bool x neg_zero = false).
    { destruct (Qeq_bool x neg_zero) eqn:G; [|reflexivity]. apply Qeq_bool_iff in G.
      assert (A : Qabs x == Qabs neg_zero) by (rewrite G; reflexivity).
      pose proof neg_zero_tiny as T. pose proof (pow10_mono (-11) (dig - 12) ltac:(lia)). lra. }
    rewrite (round_spec_sig_eq dig x G ltac:(lia)).
    destruct (decade_of x NZ) as [A B]. remember (flog10 (Qabs x)) as ef eqn:Hef.
    rewrite <- !pow10_p10 in A, B.
    destruct (ceil_log10_spec (Qabs x + log_offset)) as (Bc & Lc & Uc).
    change (ceil_log10 (Qabs x + log_offset)) with (sig_exp x) in Bc, Lc, Uc.
    remember (sig_exp x) as ec eqn:Hec.
    assert (Oo : 0 < log_offset) by reflexivity.
    assert (EF : (dig - 12 <= ef)%Z).
    { destruct (Z_le_gt_dec (dig - 12) ef) as [L|L]; [exact L|exfalso].
      pose proof (pow10_mono (ef + 1) (dig - 12) ltac:(lia)). lra. }
    assert (EC387 : (ec <= 387)%Z).
    { destruct (Z_le_gt_dec ec 387) as [L|L]; [exact L|exfalso]. destruct Lc as [Lc|Lc]; [lia|].
      pose proof (pow10_mono 387 (ec - 1) ltac:(lia)). lra. }
    assert (U : Qabs x + log_offset <= pow10 ec) by (apply Uc; lia).
    assert (EC1 : (ef + 1 <= ec)%Z).
    { destruct (Z_le_gt_dec (ef + 1) ec) as [L|L]; [exact L|exfalso].
      pose proof (pow10_mono ec ef ltac:(lia)). lra. }
    assert (EC2 : (ec <= ef + 2)%Z).
    { destruct Lc as [Lc|Lc]; [lia|].
      assert (O : log_offset <= pow10 (ef + 1)) by (rewrite log_offset_pow; apply pow10_mono; lia).
      assert (T : pow10 (ec - 1) < pow10 (ef + 2)).
      { replace (ef + 2)%Z with ((ef + 1) + 1)%Z by lia. rewrite pow10_succ. pose proof (pow10_pos (ef + 1)). lra. }
      destruct (Z_le_gt_dec ec (ef + 2)) as [L|L]; [exact L|exfalso].
      pose proof (pow10_mono (ef + 2) (ec - 1) ltac:(lia)). lra. }
    assert (C : ec = (ef + 1)%Z \/ ec = (ef + 2)%Z) by lia.
    destruct C as [C|C].
    + (* same number of decimals on both sides *)
      unfold round_dec, fmt_sig. rewrite (Qeq_bool_false_of x 0 NZ). cbv zeta. rewrite <- Hef.
      apply Qred_complete. replace (dig - ec)%Z with (dig - 1 - ef)%Z by lia.
      assert (E : x * pow10 (dig - 1 - ef) == x * p10 (dig - 1 - ef)) by (rewrite pow10_p10; reflexivity).
      rewrite (rnd_he_Proper _ _ E), pow10_p10. reflexivity.
    + (* the offset pushed the exponent one further: both sides are +-10^(ef+1) *)
      assert (L' : pow10 (ef + 1) - log_offset < Qabs x).
      { destruct Lc as [Lc|Lc]; [lia|]. replace (ec - 1)%Z with (ef + 1)%Z in Lc by lia. lra. }
      pose proof (round_below_power x (ef + 1) (dig - ec) ltac:(lia) ltac:(lia) L' B) as RC.
      pose proof (round_below_power x (ef + 1) (dig - 1 - ef) ltac:(lia) ltac:(lia) L' B) as RF.
      unfold round_dec, fmt_sig. rewrite (Qeq_bool_false_of x 0 NZ). cbv zeta. rewrite <- Hef.
      apply Qred_complete. rewrite RC.
      assert (E : x * p10 (dig - 1 - ef) == x * pow10 (dig - 1 - ef)) by (rewrite pow10_p10; reflexivity).
      rewrite (rnd_he_Proper _ _ E), <- pow10_p10, RF. reflexivity.
Qed.

(* values identified by duplicate removal print identically, and conversely, on the common range *)
Theorem dedup_classes_refine_print_classes_sig (dig : Z) (x y : Q) :
  (1 <= dig)%Z -> sig_range dig x -> sig_range dig y ->
  (round_spec dig x = round_spec dig y <-> fmt_sig dig x = fmt_sig dig y).
Proof.
  intros Hd Rx Ry. rewrite (round_spec_eq_fmt_sig dig x Hd Rx), (round_spec_eq_fmt_sig dig y Hd Ry). tauto.
Qed.

(* below 10^(dig-12) the statement is FALSE: the 1e-12 offset inside the logarithm makes duplicate
   removal round to fewer digits than the printer.  Just below a power of ten ... *)
Theorem dedup_classes_refine_print_classes_sig_refuted :
  (exists x y, Qabs x < pow10 (6 - 12) /\ round_spec 6 x = round_spec 6 y /\ fmt_sig 6 x <> fmt_sig 6 y) /\
  (exists x y, Qabs x < pow10 (9 - 12) /\ round_spec 9 x = round_spec 9 y /\ fmt_sig 9 x <> fmt_sig 9 y) /\
  (* ... and everywhere below 1e-12: all tiny values collapse to 0 *)
  (exists x y, round_spec 6 x = round_spec 6 y /\ fmt_sig 6 x <> fmt_sig 6 y /\ Qabs x < log_offset /\ Qabs y < log_offset).
Proof.
  split; [|split].
  - exists ((1 # 10000000) - (4 # 10000000000000)), (1 # 10000000).
    split; [vm_compute; reflexivity|]. split; [vm_compute; reflexivity|]. vm_compute. discriminate.
  - exists ((1 # 10000) - (4 # 10000000000000)), (1 # 10000).
    split; [vm_compute; reflexivity|]. split; [vm_compute; reflexivity|]. vm_compute. discriminate.
  - exists (1 # 100000000000000000000), (2 # 100000000000000000000).
    split; [vm_compute; reflexivity|]. split; [vm_compute; discriminate|]. split; vm_compute; reflexivity.
Qed.
