(* Proofs/KSpaceBridge.v — C09: the two-list / two-pointer period loop of calculate_kspace equals the fold over
   the time-sorted pulse list (hence, by kspace_recurrence, the specification). *)
From Coq Require Import ZArith QArith Qabs Lia Lqa List Bool Arith Setoid Morphisms.
From PV Require Import Base.QUtil Base.PWL Gen.GenExport Model.Export Model.KSpace Proofs.KSpaceProofs.
Import ListNotations.
Open Scope Q_scope.

Fixpoint ev_sorted_strict (evs : list ev) : Prop :=
  match evs with
  | [] => True
  | e :: r => Forall (fun x => fst e < fst x) r /\ ev_sorted_strict r
  end.

(* the pointer list is the true remaining list, or — after the last element was consumed — a stale
   singleton that lies at or before the current time *)
Definition ptr_ok (lo : Q) (ptr rem : list Q) : Prop :=
  ptr = rem \/ (rem = [] /\ exists x, ptr = [x] /\ x <= lo).

Lemma times_of_forall k (P : Q -> Prop) evs : Forall (fun e : ev => P (fst e)) evs -> Forall P (times_of k evs).
Proof.
  unfold times_of. induction 1 as [|e r He _ IH]; [constructor|].
  cbn [filter]. destruct (match snd e, k with Exc, Exc => true | Ref, Ref => true | _, _ => false end);
    [cbn [map]; constructor; assumption|exact IH].
Qed.

Lemma hd_is_false_gt l tp : Forall (fun x => tp < x) l -> hd_is l tp = false.
Proof.
  destruct l as [|x l]; [reflexivity|]. intro H. inversion H; subst. cbn [hd_is].
  destruct (Qeq_bool x tp) eqn:E; [apply Qeq_bool_iff in E; lra|reflexivity].
Qed.

Lemma hd_is_false_ptr lo ptr rem tp : ptr_ok lo ptr rem -> lo < tp -> Forall (fun x => tp < x) rem ->
  hd_is ptr tp = false.
Proof.
  intros [E|[E [x [Ex Hx]]]] Hlo Hall.
  - subst ptr. apply hd_is_false_gt. exact Hall.
  - subst ptr. cbn [hd_is]. destruct (Qeq_bool x tp) eqn:E'; [apply Qeq_bool_iff in E'; lra|reflexivity].
Qed.

Lemma hd_is_self x l : hd_is (x :: l) x = true.
Proof. cbn [hd_is]. apply Qeq_bool_iff. reflexivity. Qed.

Lemma ptr_ok_adv x l : ptr_ok x (adv (x :: l)) l.
Proof. destruct l as [|y l]; [right; split; [reflexivity|exists x; split; [reflexivity|lra]]|left; reflexivity]. Qed.

Lemma ptr_ok_mono lo lo' ptr rem : ptr_ok lo ptr rem -> lo <= lo' -> ptr_ok lo' ptr rem.
Proof. intros [E|[E [x [Ex Hx]]]] H; [left; exact E|right; split; [exact E|exists x; split; [exact Ex|lra]]]. Qed.

Lemma ptr_ok_cons lo ptr x l : ptr_ok lo ptr (x :: l) -> ptr = x :: l.
Proof. intros [E|[E _]]; [exact E|discriminate]. Qed.

Lemma times_of_cons_exc t r : times_of Exc ((t, Exc) :: r) = t :: times_of Exc r.
Proof. reflexivity. Qed.
Lemma times_of_cons_ref t r : times_of Ref ((t, Ref) :: r) = t :: times_of Ref r.
Proof. reflexivity. Qed.

Lemma ploop_pulses (M : Q -> Q) : forall evs lo pe pr dk,
  ev_sorted_strict evs -> Forall (fun e => lo < fst e) evs ->
  ptr_ok lo pe (times_of Exc evs) -> ptr_ok lo pr (times_of Ref evs) ->
  ploop M (pulse_times evs) pe pr dk = dk_scan M dk (filter is_pulse evs).
Proof.
  induction evs as [|[te k] r IH]; intros lo pe pr dk Hs Hlo Hpe Hpr; [reflexivity|].
  destruct Hs as [Hall Hs]. inversion Hlo as [|? ? Hte Hlo']; subst. cbn [fst] in *.
  assert (Hr : Forall (fun e : ev => te < fst e) r) by exact Hall.
  destruct k.
  - (* excitation *)
    change (pulse_times ((te, Exc) :: r)) with (te :: pulse_times r).
    change (filter is_pulse ((te, Exc) :: r)) with ((te, Exc) :: filter is_pulse r).
    rewrite times_of_cons_exc in Hpe. apply ptr_ok_cons in Hpe. subst pe.
    change (times_of Ref ((te, Exc) :: r)) with (times_of Ref r) in Hpr.
    cbn [ploop dk_scan]. rewrite hd_is_self. unfold upd at 1. cbn [fst snd]. f_equal.
    apply (IH te); try assumption.
    + apply ptr_ok_adv.
    + apply (ptr_ok_mono lo); [exact Hpr|lra].
  - (* refocusing *)
    change (pulse_times ((te, Ref) :: r)) with (te :: pulse_times r).
    change (filter is_pulse ((te, Ref) :: r)) with ((te, Ref) :: filter is_pulse r).
    rewrite times_of_cons_ref in Hpr. apply ptr_ok_cons in Hpr. subst pr.
    change (times_of Exc ((te, Ref) :: r)) with (times_of Exc r) in Hpe.
    cbn [ploop dk_scan].
    rewrite (hd_is_false_ptr lo pe (times_of Exc r) te Hpe Hte (times_of_forall Exc (fun x => te < x) r Hr)).
    rewrite hd_is_self. unfold upd at 1. cbn [fst snd]. f_equal.
    apply (IH te); try assumption.
    + apply (ptr_ok_mono lo); [exact Hpe|lra].
    + apply ptr_ok_adv.
  - (* any other use: the pulse is in neither list and starts no period *)
    change (pulse_times ((te, Other) :: r)) with (pulse_times r).
    change (filter is_pulse ((te, Other) :: r)) with (filter is_pulse r).
    change (times_of Exc ((te, Other) :: r)) with (times_of Exc r) in Hpe.
    change (times_of Ref ((te, Other) :: r)) with (times_of Ref r) in Hpr.
    apply (IH te); try assumption.
    + apply (ptr_ok_mono lo); [exact Hpe|lra].
    + apply (ptr_ok_mono lo); [exact Hpr|lra].
Qed.

Lemma ev_sorted_of_strict evs : ev_sorted_strict evs -> ev_sorted evs.
Proof.
  induction evs as [|e r IH]; [trivial|]. intros [H Hs]. split; [|apply IH; exact Hs].
  eapply Forall_impl; [|exact H]. cbn beta. intros x Hx. lra.
Qed.

Lemma ev_sorted_filter evs : ev_sorted evs -> ev_sorted (filter is_pulse evs).
Proof.
  induction evs as [|e r IH]; [trivial|]. intros [H Hs]. cbn [filter].
  destruct (is_pulse e); [|apply IH; exact Hs]. split; [|apply IH; exact Hs].
  apply Forall_forall. intros x Hx. apply filter_In in Hx. destruct Hx as [Hx _].
  rewrite Forall_forall in H. apply H. exact Hx.
Qed.

(* the literal loop = the fold over the pulses at or before t = (kspace_recurrence) the specification *)
Theorem k_loop_is_k_at M evs t : ev_sorted_strict evs -> Forall (fun e => 0 < fst e) evs ->
  k_loop M evs t = k_at M evs t.
Proof.
  intros Hs Hpos. unfold k_loop, loop_table.
  assert (Hex : hd_is (times_of Exc evs) 0 = false).
  { apply hd_is_false_gt. apply (times_of_forall Exc (fun x => 0 < x)). exact Hpos. }
  assert (Hre : hd_is (times_of Ref evs) 0 = false).
  { apply hd_is_false_gt. apply (times_of_forall Ref (fun x => 0 < x)). exact Hpos. }
  cbn [ploop]. rewrite Hex, Hre.
  rewrite (ploop_pulses M evs 0 _ _ (- M 0) Hs Hpos (or_introl eq_refl) (or_introl eq_refl)).
  rewrite <- other_uses_ignored.
  rewrite <- (k_tab_is_k_at M (filter is_pulse evs) t (ev_sorted_filter evs (ev_sorted_of_strict evs Hs))).
  unfold k_tab. f_equal. cbn [dk_lookup].
  destruct (Qle_bool 0 t) eqn:E; [reflexivity|]. apply Qleb_gt in E.
  (* t < 0: every pulse is later, both lookups give the initial dk *)
  destruct (filter is_pulse evs) as [|e r] eqn:Ef; [reflexivity|].
  cbn [dk_scan dk_lookup].
  assert (He : 0 < fst e).
  { assert (Hin : In e (filter is_pulse evs)) by (rewrite Ef; left; reflexivity).
    apply filter_In in Hin. destruct Hin as [Hin _]. rewrite Forall_forall in Hpos. apply Hpos. exact Hin. }
  destruct (Qle_bool (fst e) t) eqn:E2; [apply Qle_bool_iff in E2; lra|reflexivity].
Qed.

Theorem k_loop_is_spec M evs t : ev_sorted_strict evs -> Forall (fun e => 0 < fst e) evs ->
  k_loop M evs t == spec_k M (upto t evs) t.
Proof.
  intros Hs Hpos. rewrite (k_loop_is_k_at M evs t Hs Hpos). unfold k_at. apply kspace_recurrence.
Qed.
