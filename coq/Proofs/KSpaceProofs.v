(* Proofs/KSpaceProofs.v — lemmas about Model/KSpace.v (C09). *)
From Coq Require Import ZArith QArith Qabs Lia Lqa List Bool Arith Setoid Morphisms.
From PV Require Import Base.QUtil Base.PWL Gen.GenExport Model.Export Model.KSpace.
Import ListNotations.
Open Scope Q_scope.

(* ------------------------------------------------------------------------------------------ *)
(* the dk recurrence is "integral since the last excitation, negated at each refocusing" *)

Lemma fold_rel (M : Q -> Q) : forall evs s dk,
  snd s - M (fst s) == dk ->
  snd (fold_left (spec_step M) evs s) - M (fst (fold_left (spec_step M) evs s))
  == fold_left (upd M) evs dk.
Proof.
  induction evs as [|e evs IH]; intros s dk H; [exact H|].
  cbn [fold_left]. apply IH.
  unfold spec_step, upd. cbn [fst snd]. destruct (snd e); lra.
Qed.

Theorem kspace_recurrence (M : Q -> Q) (evs : list ev) (t : Q) : impl_k M evs t == spec_k M evs t.
Proof.
  unfold impl_k, impl_dk, spec_k, spec_state.
  pose proof (fold_rel M evs (0, 0) (- M 0)) as H. cbn [fst snd] in H.
  assert (H0 : 0 - M 0 == - M 0) by ring. specialize (H H0). lra.
Qed.

(* reading of the specification fold *)
Lemma spec_state_app M evs e : spec_state M (evs ++ [e]) = spec_step M (spec_state M evs) e.
Proof. unfold spec_state. rewrite fold_left_app. reflexivity. Qed.

Theorem spec_no_pulse M t : spec_k M [] t == M t - M 0.
Proof. unfold spec_k, spec_state. cbn. ring. Qed.

Theorem spec_after_excitation M evs te t : spec_k M (evs ++ [(te, Exc)]) t == M t - M te.
Proof. unfold spec_k. rewrite spec_state_app. unfold spec_step. cbn [fst snd]. ring. Qed.

Theorem spec_after_refocusing M evs tr t :
  spec_k M (evs ++ [(tr, Ref)]) t == - spec_k M evs tr + (M t - M tr).
Proof. unfold spec_k. rewrite spec_state_app. unfold spec_step. cbn [fst snd]. ring. Qed.

Theorem spec_after_other M evs to t : spec_k M (evs ++ [(to, Other)]) t == spec_k M evs t.
Proof. unfold spec_k. rewrite spec_state_app. unfold spec_step. cbn [fst snd]. ring. Qed.

(* ------------------------------------------------------------------------------------------ *)
(* pulses of any other use are ignored *)

Definition is_pulse (e : ev) : bool := match snd e with Other => false | _ => true end.

Lemma fold_upd_filter M : forall evs dk,
  fold_left (upd M) (filter is_pulse evs) dk = fold_left (upd M) evs dk.
Proof.
  induction evs as [|e evs IH]; intro dk; [reflexivity|].
  cbn [filter fold_left]. unfold is_pulse at 1. destruct e as [te k]. destruct k; cbn [snd fold_left]; apply IH.
Qed.

Lemma upto_filter t evs : upto t (filter is_pulse evs) = filter is_pulse (upto t evs).
Proof.
  unfold upto. induction evs as [|e evs IH]; [reflexivity|].
  cbn [filter]. destruct (is_pulse e) eqn:E1; destruct (Qle_bool (fst e) t) eqn:E2; cbn [filter];
    rewrite ?E1, ?E2, IH; reflexivity.
Qed.

Theorem other_uses_ignored M evs t : k_at M (filter is_pulse evs) t = k_at M evs t.
Proof.
  unfold k_at, impl_k, impl_dk. rewrite upto_filter, fold_upd_filter. reflexivity.
Qed.

(* ------------------------------------------------------------------------------------------ *)
(* the table organisation of the code equals the fold *)

Fixpoint ev_sorted (evs : list ev) : Prop :=
  match evs with
  | [] => True
  | e :: r => Forall (fun x => fst e <= fst x) r /\ ev_sorted r
  end.

Lemma upto_nil t r : Forall (fun x : ev => t < fst x) r -> upto t r = [].
Proof.
  unfold upto. induction 1 as [|x r Hx _ IH]; [reflexivity|].
  cbn [filter]. destruct (Qle_bool (fst x) t) eqn:E; [apply Qle_bool_iff in E; lra|exact IH].
Qed.

Lemma lookup_fold M t : forall evs dk, ev_sorted evs ->
  dk_lookup (dk_scan M dk evs) dk t = fold_left (upd M) (upto t evs) dk.
Proof.
  induction evs as [|e evs IH]; intros dk Hs; [reflexivity|].
  destruct Hs as [Hall Hs]. cbn [dk_scan dk_lookup]. unfold upto. cbn [filter]. fold (upto t evs).
  destruct (Qle_bool (fst e) t) eqn:E.
  - cbn [fold_left]. apply IH. exact Hs.
  - rewrite upto_nil; [reflexivity|]. apply Qleb_gt in E.
    eapply Forall_impl; [|exact Hall]. cbn beta. intros x Hx. lra.
Qed.

Theorem k_tab_is_k_at M evs t : ev_sorted evs -> k_tab M evs t = k_at M evs t.
Proof. intro Hs. unfold k_tab, k_at, impl_k, impl_dk. rewrite lookup_fold by exact Hs. reflexivity. Qed.

(* ------------------------------------------------------------------------------------------ *)
(* ADC sample times *)

Theorem adc_times_formula start a i : (i < adc_n a)%nat ->
  length (adc_sample_times start a) = adc_n a /\
  nth i (adc_sample_times start a) 0
  == start + adc_delay a + (inject_Z (Z.of_nat i) + (1 # 2)) * adc_dwell a.
Proof.
  intro Hi. unfold adc_sample_times. split; [rewrite map_length, seq_length; reflexivity|].
  set (f := fun i0 : nat => (inject_Z (Z.of_nat i0) + (1 # 2)) * adc_dwell a + adc_delay a + start).
  rewrite (nth_indep _ 0 (f 0%nat)) by (rewrite map_length, seq_length; exact Hi).
  rewrite map_nth. rewrite seq_nth by exact Hi. unfold f. cbn [Nat.add]. ring.
Qed.
