(* Proofs/ExtTrapAreaProofs.v — lemmas about Model/ExtTrapArea.v (make_extended_trapezoid_area). *)
From Coq Require Import ZArith QArith Qround Qabs List Bool Lia Lqa Qfield Sorted.
From PV Require Import Base.QUtil Gen.GenExtTrapArea Model.ExtTrapArea.
Import ListNotations.
Open Scope Q_scope.

(* ------------------------------------------------------------------------------------------ *)
(* facts about the constants read from the source (re-proved whenever the source changes)     *)
Lemma eta_slew_factor_pos : 0 < eta_slew_factor.   Proof. reflexivity. Qed.
Lemma eta_grad_factor_pos : 0 < eta_grad_factor.   Proof. reflexivity. Qed.
Lemma eta_amp_tol_nonneg : 0 <= eta_amp_tol.       Proof. discriminate. Qed.
Lemma eta_slew1_tol_nonneg : 0 <= eta_slew1_tol.   Proof. discriminate. Qed.
Lemma eta_slew2_tol_nonneg : 0 <= eta_slew2_tol.   Proof. discriminate. Qed.
Lemma eta_area_tol_pos : 0 < eta_area_tol.         Proof. reflexivity. Qed.
Lemma eta_min_dur_ge2 : (2 <= eta_min_dur)%Z.      Proof. discriminate. Qed.

(* ------------------------------------------------------------------------------------------ *)
(* generic list facts                                                                          *)
Lemma filter_nil_all {A} (f : A -> bool) (l : list A) :
  filter f l = [] -> forall x, In x l -> f x = false.
Proof.
  intros H x Hx. destruct (f x) eqn:E; [|reflexivity].
  assert (In x (filter f l)) by (apply filter_In; auto). rewrite H in H0. destruct H0.
Qed.

Lemma existsb_false_all {A} (f : A -> bool) (l : list A) :
  existsb f l = false -> forall x, In x l -> f x = false.
Proof.
  intros H x Hx. destruct (f x) eqn:E; [|reflexivity].
  assert (existsb f l = true) by (apply existsb_exists; eauto). congruence.
Qed.

(* ------------------------------------------------------------------------------------------ *)
(* argmin                                                                                      *)
Lemma argmin_first_some_not_none l : forall b, argmin_first (Some b) l <> None.
Proof.
  induction l as [|c r IH]; intros b; cbn [argmin_first]; [discriminate|].
  destruct (Qltb (cost c) (cost b)); apply IH.
Qed.

Lemma argmin_first_none l : argmin_first None l = None -> l = [].
Proof.
  destruct l as [|c r]; [reflexivity|]. cbn [argmin_first]. intro H.
  exfalso. exact (argmin_first_some_not_none r c H).
Qed.

Lemma argmin_first_in l : forall b r, argmin_first b l = Some r -> b = Some r \/ In r l.
Proof.
  induction l as [|c t IH]; intros b r H; cbn [argmin_first] in H; [left; exact H|].
  destruct b as [b|].
  - destruct (Qltb (cost c) (cost b)).
    + apply IH in H. destruct H as [H|H]; [inversion H; subst; right; left; reflexivity|right; right; exact H].
    + apply IH in H. destruct H as [H|H]; [left; exact H|right; right; exact H].
  - apply IH in H. destruct H as [H|H]; [inversion H; subst; right; left; reflexivity|right; right; exact H].
Qed.

(* the selected candidate has minimal cost among the list (np.argmin) *)
Lemma argmin_first_min l : forall b r, argmin_first b l = Some r ->
  (forall x, b = Some x -> cost r <= cost x) /\ (forall x, In x l -> cost r <= cost x).
Proof.
  induction l as [|c t IH]; intros b r H; cbn [argmin_first] in H.
  - subst b. split; [intros x Hx; inversion Hx; subst; lra|intros x []].
  - destruct b as [b|].
    + destruct (Qltb (cost c) (cost b)) eqn:E.
      * apply Qltb_lt in E. destruct (IH _ _ H) as [H1 H2]. specialize (H1 c eq_refl).
        split; [intros x Hx; inversion Hx; subst; lra|].
        intros x [Hx|Hx]; [subst; exact H1|apply H2; exact Hx].
      * assert (Hle : cost b <= cost c).
        { unfold Qltb in E. apply negb_false_iff in E. apply Qle_bool_iff in E. exact E. }
        destruct (IH _ _ H) as [H1 H2]. specialize (H1 b eq_refl).
        split; [intros x Hx; inversion Hx; subst; exact H1|].
        intros x [Hx|Hx]; [subst; lra|apply H2; exact Hx].
    + destruct (IH _ _ H) as [H1 H2]. specialize (H1 c eq_refl).
      split; [intros x Hx; discriminate|].
      intros x [Hx|Hx]; [subst; exact H1|apply H2; exact Hx].
Qed.

(* ------------------------------------------------------------------------------------------ *)
(* candidates                                                                                  *)
Lemma timing_ok_spec d ru rd : timing_ok d ru rd = true -> (0 < ru /\ 0 < rd /\ ru + rd <= d)%Z.
Proof. unfold timing_ok. rewrite !andb_true_iff. intros [[H1 H2] H3]. lia. Qed.

Lemma cand_pos_timing a d p : In p (cand_pos a d) -> (0 < fst p /\ 0 < snd p /\ fst p + snd p <= d)%Z.
Proof.
  unfold cand_pos.
  set (q := if Qltb _ _ then _ else _).
  destruct (timing_ok d (fst q) (snd q)) eqn:E; [|intros []].
  intros [H|[]]. subst p. apply timing_ok_spec. exact E.
Qed.

Lemma cand_neg_timing a d p : In p (cand_neg a d) -> (0 < fst p /\ 0 < snd p /\ fst p + snd p <= d)%Z.
Proof.
  unfold cand_neg.
  set (q := if Qltb _ _ then _ else _).
  destruct (timing_ok d (fst q) (snd q)) eqn:E; [|intros []].
  intros [H|[]]. subst p. apply timing_ok_spec. exact E.
Qed.

Lemma cand_two_ramp_spec d p :
  In p (cand_two_ramp d) <-> (1 <= fst p <= d - 1 /\ snd p = d - fst p)%Z.
Proof.
  unfold cand_two_ramp. rewrite in_map_iff. split.
  - intros [i [Hp Hi]]. apply in_seq in Hi. subst p. cbn [fst snd]. lia.
  - intros [H1 H2]. exists (Z.to_nat (fst p - 1)). split.
    + destruct p as [k r]. cbn [fst snd] in *. subst r. f_equal; lia.
    + apply in_seq. lia.
Qed.

Lemma cands_timing a d p : In p (cands a d) -> (0 < fst p /\ 0 < snd p /\ fst p + snd p <= d)%Z.
Proof.
  unfold cands. rewrite !in_app_iff. intros [H|[H|H]].
  - eapply cand_pos_timing; eauto.
  - eapply cand_neg_timing; eauto.
  - apply cand_two_ramp_spec in H. lia.
Qed.

Lemma find_solution_Some a d c : find_solution a d = Some c ->
  exists p, In p (cands a d) /\ c = eval_cand a d p /\ valid a c = true /\
            (0 < fst p /\ 0 < snd p /\ fst p + snd p <= d)%Z.
Proof.
  unfold find_solution. intro H. apply argmin_first_in in H. destruct H as [H|H]; [discriminate|].
  apply filter_In in H. destruct H as [H Hv]. apply in_map_iff in H. destruct H as [p [Hp Hin]].
  apply filter_In in Hin. destruct Hin as [Hin _].
  exists p. repeat split; auto; apply (cands_timing a d p Hin).
Qed.

Lemma find_solution_None a d : find_solution a d = None ->
  forall p, In p (cands a d) -> valid a (eval_cand a d p) = false.
Proof.
  unfold find_solution. intros H p Hp. apply argmin_first_none in H.
  apply (filter_nil_all _ _ H). apply in_map. apply filter_In. split; [exact Hp|].
  unfold flat_ok. pose proof (cands_timing a d p Hp). apply Z.leb_le. lia.
Qed.

(* the selected candidate has the least selection cost among all valid candidates *)
Lemma find_solution_min_cost a d c : find_solution a d = Some c ->
  forall p, In p (cands a d) -> valid a (eval_cand a d p) = true -> cost c <= cost (eval_cand a d p).
Proof.
  unfold find_solution. intros H p Hp Hv. apply argmin_first_min in H. destruct H as [_ H].
  apply H. apply filter_In. split; [|exact Hv]. apply in_map. apply filter_In. split; [exact Hp|].
  unfold flat_ok. pose proof (cands_timing a d p Hp). apply Z.leb_le. lia.
Qed.

(* ------------------------------------------------------------------------------------------ *)
(* searches                                                                                    *)
Lemma linear_search_Some a n : forall d0 d c, linear_search a d0 n = Some (d, c) ->
  (d0 <= d < d0 + Z.of_nat n)%Z /\ find_solution a d = Some c /\
  (forall d', (d0 <= d' < d)%Z -> find_solution a d' = None).
Proof.
  induction n as [|k IH]; intros d0 d c H; cbn [linear_search] in H; [discriminate|].
  destruct (find_solution a d0) eqn:E.
  - inversion H; subst. repeat split; [lia|lia|exact E|intros d' Hd'; lia].
  - apply IH in H. destruct H as [H1 [H2 H3]]. repeat split; [lia|lia|exact H2|].
    intros d' Hd'. destruct (Z.eq_dec d' d0) as [->|Hne]; [exact E|apply H3; lia].
Qed.

Lemma linear_search_None a n : forall d0, linear_search a d0 n = None ->
  forall d', (d0 <= d' < d0 + Z.of_nat n)%Z -> find_solution a d' = None.
Proof.
  induction n as [|k IH]; intros d0 H d' Hd'; cbn [linear_search] in H; [lia|].
  destruct (find_solution a d0) eqn:E; [discriminate|].
  destruct (Z.eq_dec d' d0) as [->|Hne]; [exact E|apply (IH _ H); lia].
Qed.

Lemma doubling_Some a fuel : forall md hi, doubling a md fuel = Some hi -> (0 < md)%Z ->
  find_solution a md = None ->
  (md <= hi / 2 /\ hi / 2 < hi)%Z /\ find_solution a hi <> None /\ find_solution a (hi / 2) = None.
Proof.
  induction fuel as [|k IH]; intros md hi H Hpos Hn; cbn [doubling] in H; [discriminate|].
  destruct (find_solution a (md * 2)) eqn:E.
  - inversion H; subst. rewrite Z.div_mul by lia. repeat split; [lia|lia|congruence|exact Hn].
  - apply IH in H; [|lia|exact E]. destruct H as [[H1 H2] [H3 H4]]. repeat split; [lia|lia|exact H3|exact H4].
Qed.

Lemma bsearch_OK a fuel : forall lo hi d c, bsearch a lo hi fuel = OK (d, c) -> (lo < hi)%Z ->
  find_solution a lo = None ->
  (lo < d <= hi)%Z /\ find_solution a d = Some c /\ find_solution a (d - 1) = None.
Proof.
  induction fuel as [|k IH]; intros lo hi d c H Hlt Hn; cbn [bsearch] in H; [discriminate|].
  destruct (lo =? hi - 1)%Z eqn:E.
  - apply Z.eqb_eq in E. destruct (find_solution a hi) eqn:F; [|discriminate].
    injection H as Hd Hc. subst d c. repeat split; [lia|lia|exact F|].
    replace (hi - 1)%Z with lo by lia. exact Hn.
  - apply Z.eqb_neq in E.
    assert (Ht : (lo < (hi + lo) / 2 < hi)%Z).
    { pose proof (Z_div_mod_eq_full (hi + lo) 2) as Hdm.
      pose proof (Z.mod_pos_bound (hi + lo) 2 ltac:(lia)) as Hmb. lia. }
    destruct (find_solution a ((hi + lo) / 2)) eqn:F.
    + apply IH in H; [|lia|exact Hn]. destruct H as [H1 [H2 H3]]. repeat split; [lia|lia|exact H2|exact H3].
    + apply IH in H; [|lia|exact F]. destruct H as [H1 [H2 H3]]. repeat split; [lia|lia|exact H2|exact H3].
Qed.

Lemma min_le_lin_max a : (min_duration a <= lin_max a)%Z.
Proof. unfold lin_max. lia. Qed.

Lemma min_duration_ge2 a : (2 <= min_duration a)%Z.
Proof. unfold min_duration. pose proof eta_min_dur_ge2. lia. Qed.

(* the rescan after the binary search (repair 7df2246) *)
Definition rescan_start (a : etaArgs) : Z := Z.max (lin_max a + 1) (shortest_conceivable a).

Lemma rescan_spec a d c : find_solution a d = Some c ->
  find_solution a (fst (rescan a (d, c))) = Some (snd (rescan a (d, c))) /\
  (fst (rescan a (d, c)) <= d)%Z /\
  (fst (rescan a (d, c)) = d \/ (rescan_start a <= fst (rescan a (d, c)))%Z) /\
  (forall x, (rescan_start a <= x < fst (rescan a (d, c)))%Z -> find_solution a x = None).
Proof.
  intro Hf. pose proof (find_solution_Some _ _ _ Hf) as [p [_ [Hc _]]].
  assert (Hsum : (c_up c + c_flat c + c_down c = d)%Z).
  { rewrite Hc. unfold eval_cand. cbn [c_up c_flat c_down]. lia. }
  unfold rescan. cbn [snd]. rewrite Hsum. fold (rescan_start a).
  destruct (linear_search a (rescan_start a) (Z.to_nat (d - rescan_start a))) as [[d' c']|] eqn:L.
  - apply linear_search_Some in L. destruct L as [L1 [L2 L3]]. cbn [fst snd].
    assert (rescan_start a < d)%Z by lia. rewrite Z2Nat.id in L1 by lia.
    repeat split; [exact L2|lia|right; lia|exact L3].
  - cbn [fst snd]. pose proof (linear_search_None _ _ _ L) as LN.
    repeat split; [exact Hf|lia|left; reflexivity|].
    intros x Hx. apply LN. rewrite Z2Nat.id by lia. lia.
Qed.

(* what the whole search returns: a duration with a solution, at or above the lower bound, and
   - linear phase: nothing below it within the range,
   - otherwise: nothing in the whole linear range, and nothing from the rescan start up to the result *)
Lemma search_OK fd fb a d c : search fd fb a = OK (d, c) ->
  find_solution a d = Some c /\ (min_duration a <= d)%Z /\
  ( ((d <= lin_max a)%Z /\ forall d', (min_duration a <= d' < d)%Z -> find_solution a d' = None)
    \/ ((lin_max a < d)%Z /\ (forall d', (min_duration a <= d' <= lin_max a)%Z -> find_solution a d' = None)
        /\ (forall x, (rescan_start a <= x < d)%Z -> find_solution a x = None)) ).
Proof.
  unfold search. pose proof (min_le_lin_max a) as Hmm. pose proof (min_duration_ge2 a) as Hm2.
  destruct (linear_search a (min_duration a) (Z.to_nat (lin_max a - min_duration a + 1))) as [[d0 c0]|] eqn:L.
  - intro H. inversion H; subst. apply linear_search_Some in L. destruct L as [L1 [L2 L3]].
    rewrite Z2Nat.id in L1 by lia.
    repeat split; [exact L2|lia|left; split; [lia|exact L3]].
  - pose proof (linear_search_None _ _ _ L) as LN. rewrite Z2Nat.id in LN by lia.
    destruct (doubling a (lin_max a) fd) as [hi|] eqn:Dd; [|discriminate].
    assert (Hlm : find_solution a (lin_max a) = None) by (apply LN; lia).
    apply doubling_Some in Dd; [|lia|exact Hlm]. destruct Dd as [[D1 D2] [D3 D4]].
    destruct (bsearch a (hi / 2) hi fb) as [[db cb]|e] eqn:B; [|discriminate].
    apply bsearch_OK in B; [|lia|exact D4]. destruct B as [B1 [B2 B3]].
    intro H. pose proof (rescan_spec a db cb B2) as [R1 [R2 [R3 R4]]].
    inversion H as [Hdc]. rewrite Hdc in R1, R2, R3, R4. cbn [fst snd] in *.
    assert (Hgt : (lin_max a < d)%Z).
    { destruct R3 as [->|R3]; [lia|]. unfold rescan_start in R3. lia. }
    repeat split; [exact R1|lia|right; repeat split; [exact Hgt| |exact R4]].
    intros d' Hd'. apply LN. lia.
Qed.

(* ------------------------------------------------------------------------------------------ *)
(* rastering helpers                                                                           *)
Lemma Qdiv_0_l x : 0 / x == 0.
Proof. unfold Qdiv. ring. Qed.

Lemma ramp_cnt_ceiling a g1 g2 : 0 < rast a ->
  ramp_cnt a g1 g2 = Qceiling (Qabs (g1 - g2) / mslew a / rast a).
Proof.
  intro HR. unfold ramp_cnt, calc_ramp_time, to_raster.
  set (z := Qceiling _).
  assert (E : inject_Z z * rast a / rast a == inject_Z z) by (field; lra).
  rewrite E. apply rnd_he_inject.
Qed.

Lemma inject_Z_pos z : (0 < z)%Z -> 0 < inject_Z z.
Proof. intro H. change 0 with (inject_Z 0). rewrite <- Zlt_Qlt. exact H. Qed.
Lemma inject_Z_nonneg z : (0 <= z)%Z -> 0 <= inject_Z z.
Proof. intro H. change 0 with (inject_Z 0). rewrite <- Zle_Qle. exact H. Qed.

(* ------------------------------------------------------------------------------------------ *)
(* the analytic plateau amplitude solves the area equation                                     *)
Definition amp_of (a : etaArgs) (d ru rd : Z) : Q :=
  - (inject_Z ru * rast a * e_gs a + inject_Z rd * rast a * e_ge a - 2 * e_area a)
  / (inject_Z (ru + 2 * (d - ru - rd) + rd) * rast a).

Lemma eval_cand_amp a d p : c_amp (eval_cand a d p) == amp_of a d (fst p) (snd p).
Proof. unfold eval_cand, amp_of. cbn [c_amp]. apply Qred_correct. Qed.

(* area of the polyline (0,gs) (ru R, ga) ((ru+fl) R, ga) ((ru+fl+rd) R, ge), as 2*area *)
Definition poly_area2 (R gs ge ga : Q) (ru fl rd : Z) : Q :=
  inject_Z ru * R * (ga + gs) + inject_Z fl * R * (ga + ga) + inject_Z rd * R * (ge + ga).

Lemma amp_area a d ru rd : 0 < rast a -> (0 < ru)%Z -> (0 < rd)%Z -> (ru + rd <= d)%Z ->
  (1 # 2) * poly_area2 (rast a) (e_gs a) (e_ge a) (amp_of a d ru rd) ru (d - ru - rd) rd == e_area a.
Proof.
  intros HR Hu Hd Hs. unfold poly_area2, amp_of.
  set (fl := (d - ru - rd)%Z).
  assert (Hfl : (0 <= fl)%Z) by (unfold fl; lia).
  assert (EK : inject_Z (ru + 2 * fl + rd) == inject_Z ru + 2 * inject_Z fl + inject_Z rd).
  { rewrite !inject_Z_plus, inject_Z_mult. reflexivity. }
  rewrite EK.
  pose proof (inject_Z_pos _ Hu) as Pu. pose proof (inject_Z_pos _ Hd) as Pd.
  pose proof (inject_Z_nonneg _ Hfl) as Pf.
  field. split; lra.
Qed.

(* uniqueness: any amplitude that solves the two-ramp area equation is the analytic one *)
Lemma amp_unique a ru rd ga : 0 < rast a -> (0 < ru)%Z -> (0 < rd)%Z ->
  (1 # 2) * poly_area2 (rast a) (e_gs a) (e_ge a) ga ru 0 rd == e_area a ->
  ga == amp_of a (ru + rd) ru rd.
Proof.
  intros HR Hu Hd H. unfold poly_area2 in H. unfold amp_of.
  replace (ru + 2 * (ru + rd - ru - rd) + rd)%Z with (ru + rd)%Z by lia.
  rewrite inject_Z_plus.
  pose proof (inject_Z_pos _ Hu) as Pu. pose proof (inject_Z_pos _ Hd) as Pd.
  change (inject_Z 0) with 0 in H.
  assert (E : 2 * e_area a == inject_Z ru * rast a * (ga + e_gs a) + inject_Z rd * rast a * (e_ge a + ga)).
  { rewrite <- H. ring. }
  rewrite E. field. split; lra.
Qed.

(* ------------------------------------------------------------------------------------------ *)
(* the limit filter (lines 149-151) in division-free form                                      *)
Definition within (a : etaArgs) (lim_g lim_s1 lim_s2 : Q) (ru rd : Z) (ga : Q) : Prop :=
  Qabs ga <= lim_g /\
  Qabs (e_gs a - ga) <= lim_s1 * (inject_Z ru * rast a) /\
  Qabs (e_ge a - ga) <= lim_s2 * (inject_Z rd * rast a).

Lemma Qle_div_l x y z : 0 < z -> x / z <= y -> x <= y * z.
Proof.
  intros Hz H. assert (E : x == (x / z) * z) by (field; lra). rewrite E.
  apply Qmult_le_compat_r; lra.
Qed.
Lemma Qle_div_r x y z : 0 < z -> x <= y * z -> x / z <= y.
Proof. intros Hz H. apply Qle_shift_div_r; assumption. Qed.

Lemma valid_within a d p : 0 < rast a -> (0 < fst p)%Z -> (0 < snd p)%Z ->
  (valid a (eval_cand a d p) = true <->
   within a (mgrad a + eta_amp_tol) (mslew a + eta_slew1_tol) (mslew a + eta_slew2_tol)
          (fst p) (snd p) (c_amp (eval_cand a d p))).
Proof.
  intros HR Hu Hd. unfold valid, within. rewrite !andb_true_iff, !Qleb_le.
  pose proof (inject_Z_pos _ Hu) as Pu. pose proof (inject_Z_pos _ Hd) as Pd.
  assert (Z1 : 0 < inject_Z (fst p) * rast a) by (apply Qmult_lt_0_compat; assumption).
  assert (Z2 : 0 < inject_Z (snd p) * rast a) by (apply Qmult_lt_0_compat; assumption).
  unfold eval_cand at 2 3. cbn [c_s1 c_s2].
  change (Qred (- (inject_Z (fst p) * rast a * e_gs a + inject_Z (snd p) * rast a * e_ge a - 2 * e_area a) /
                (inject_Z (fst p + 2 * (d - fst p - snd p) + snd p) * rast a)))
    with (c_amp (eval_cand a d p)).
  split.
  - intros [[H1 H2] H3]. repeat split; [exact H1|apply Qle_div_l; assumption|apply Qle_div_l; assumption].
  - intros [H1 [H2 H3]]. repeat split; [exact H1|apply Qle_div_r; assumption|apply Qle_div_r; assumption].
Qed.

Lemma within_mono a g1 s1 s2 g1' s1' s2' ru rd ga : 0 < rast a -> (0 < ru)%Z -> (0 < rd)%Z ->
  g1 <= g1' -> s1 <= s1' -> s2 <= s2' -> within a g1 s1 s2 ru rd ga -> within a g1' s1' s2' ru rd ga.
Proof.
  intros HR Hu Hd Hg H1 H2 [W1 [W2 W3]].
  pose proof (inject_Z_pos _ Hu) as Pu. pose proof (inject_Z_pos _ Hd) as Pd.
  assert (Z1 : 0 < inject_Z ru * rast a) by (apply Qmult_lt_0_compat; assumption).
  assert (Z2 : 0 < inject_Z rd * rast a) by (apply Qmult_lt_0_compat; assumption).
  repeat split.
  - lra.
  - eapply Qle_trans; [exact W2|]. apply Qmult_le_compat_r; lra.
  - eapply Qle_trans; [exact W3|]. apply Qmult_le_compat_r; lra.
Qed.

Lemma within_compat a g s1 s2 ru rd x y : x == y -> within a g s1 s2 ru rd x -> within a g s1 s2 ru rd y.
Proof. intros E [W1 [W2 W3]]. unfold within. rewrite <- E. auto. Qed.

(* ------------------------------------------------------------------------------------------ *)
(* make_extended_trapezoid: what an accepted call guarantees                                   *)
Lemma make_ext_trap_OK s times amps g : make_ext_trap s times amps = OK g ->
  existsb (fun dt => Qleb dt 0) (diffs times) = false /\
  forallb (on_raster (s_raster s)) times = true /\
  existsb (fun sl => Qltb (s_max_slew s * (1 + eta_eps)) (Qabs sl)) (slews (g_tt g) amps) = false /\
  existsb (fun w => Qltb (s_max_grad s + eta_eps) (Qabs w)) amps = false /\
  g_tt g = map (fun t => Qred (t - inject_Z (rnd_he (hd 0 times / s_raster s)) * s_raster s)) times /\
  g_wave g = amps /\
  g_area g = Qred ((1 # 2) * trap_area (g_tt g) amps).
Proof.
  unfold make_ext_trap.
  destruct (forallb (fun t => Qeq_bool t 0) times); [discriminate|].
  destruct (existsb (fun dt => Qleb dt 0) (diffs times)) eqn:E1; [discriminate|].
  destruct (negb (on_raster (s_raster s) (last times 0))); [discriminate|].
  destruct (Qltb 0 (hd 0 times) && negb (Qeq_bool (hd 0 amps) 0)); [discriminate|].
  destruct (negb (forallb (on_raster (s_raster s)) times)) eqn:E2; [discriminate|].
  cbv zeta.
  destruct (existsb _ (slews _ amps)) eqn:E3; [discriminate|].
  destruct (existsb _ amps) eqn:E4; [discriminate|].
  intro H. inversion H; subst; clear H. cbn [g_tt g_wave g_area].
  apply negb_false_iff in E2. repeat split; auto.
Qed.

Lemma finish_OK a d c o : finish a d c = OK o ->
  exists g, make_ext_trap (e_sys a) (build_times a c) (build_amps a c) = OK g /\
            o = {| o_grad := g; o_dur := d; o_cand := c |} /\
            Qabs (g_area g - e_area a) < eta_area_tol.
Proof.
  unfold finish. destruct (make_ext_trap _ _ _) as [g|e] eqn:E; [|discriminate].
  destruct (Qltb _ _) eqn:L; [|discriminate]. intro H. inversion H; subst.
  exists g. repeat split; auto. apply Qltb_lt. exact L.
Qed.

Lemma eta_OK fd fb a o : eta fd fb a = OK o ->
  search fd fb a = OK (o_dur o, o_cand o) /\ finish a (o_dur o) (o_cand o) = OK o.
Proof.
  unfold eta. destruct (search fd fb a) as [[d c]|e] eqn:S; [|discriminate].
  intro H. pose proof H as H'. apply finish_OK in H. destruct H as [g [_ [-> _]]].
  cbn [o_dur o_cand]. split; [reflexivity|exact H'].
Qed.

Lemma delay_zero R : inject_Z (rnd_he (0 / R)) * R == 0.
Proof. rewrite Qdiv_0_l. change (rnd_he 0) with 0%Z. change (inject_Z 0) with 0. ring. Qed.

(* the positive first time step forces a positive raster *)
Lemma pos_prod_pos u R : 0 < u -> 0 < u * R -> 0 < R.
Proof.
  intros Hu H. destruct (Qlt_le_dec 0 R) as [|Hle]; [assumption|exfalso].
  assert (0 <= u * (- R)) by (apply Qmult_le_0_compat; lra).
  assert (E : u * R == - (u * - R)) by ring. lra.
Qed.

(* corner times and amplitudes of an accepted result, in closed form *)
Definition corner_counts (c : cand) : list Z :=
  if (0 <? c_flat c)%Z then [0; c_up c; c_up c + c_flat c; c_up c + c_flat c + c_down c]%Z
  else [0; c_up c; c_up c + c_down c]%Z.
Definition corner_amps (a : etaArgs) (c : cand) : list Q :=
  if (0 <? c_flat c)%Z then [e_gs a; c_amp c; c_amp c; e_ge a] else [e_gs a; c_amp c; e_ge a].

Lemma eta_shape fd fb a o : eta fd fb a = OK o ->
  let c := o_cand o in let g := o_grad o in
  0 < rast a /\
  find_solution a (o_dur o) = Some c /\
  (0 < c_up c /\ 0 <= c_flat c /\ 0 < c_down c /\ c_up c + c_flat c + c_down c = o_dur o)%Z /\
  c = eval_cand a (o_dur o) (c_up c, c_down c) /\
  valid a c = true /\
  Forall2 (fun t k => t == inject_Z k * rast a) (g_tt g) (corner_counts c) /\
  g_wave g = corner_amps a c /\
  existsb (fun sl => Qltb (s_max_slew (e_sys a) * (1 + eta_eps)) (Qabs sl)) (slews (g_tt g) (g_wave g)) = false /\
  existsb (fun w => Qltb (s_max_grad (e_sys a) + eta_eps) (Qabs w)) (g_wave g) = false /\
  g_area g == (1 # 2) * trap_area (g_tt g) (g_wave g) /\
  Qabs (g_area g - e_area a) < eta_area_tol.
Proof.
  intro H. apply eta_OK in H. destruct H as [HS HF]. cbv zeta.
  apply search_OK in HS. destruct HS as [Hfind _].
  pose proof (find_solution_Some _ _ _ Hfind) as [p [Hin [Hc [Hv [Hu [Hd Hsum]]]]]].
  apply finish_OK in HF. destruct HF as [g [HM [Ho Har]]].
  assert (Hg : o_grad o = g) by (rewrite Ho; reflexivity). rewrite Hg. clear Ho Hg.
  set (c := o_cand o) in *. set (d := o_dur o) in *.
  assert (Cu : c_up c = fst p) by (rewrite Hc; reflexivity).
  assert (Cd : c_down c = snd p) by (rewrite Hc; reflexivity).
  assert (Cf : c_flat c = (d - fst p - snd p)%Z) by (rewrite Hc; reflexivity).
  apply make_ext_trap_OK in HM. destruct HM as [M1 [M2 [M3 [M4 [M5 [M6 M7]]]]]].
  (* raster positive *)
  assert (HR : 0 < rast a).
  { pose proof (existsb_false_all _ _ M1) as HD.
    assert (Hin1 : In ((0 + inject_Z (c_up c) * rast a) - 0) (diffs (build_times a c))).
    { unfold build_times. destruct (Qltb 0 (inject_Z (c_flat c) * rast a)); cbn [diffs]; left; reflexivity. }
    specialize (HD _ Hin1). cbv beta in HD.
    assert (Hpos : 0 < 0 + inject_Z (c_up c) * rast a - 0).
    { apply Qnot_le_lt. intro Hle. apply Qleb_le in Hle. congruence. }
    apply (pos_prod_pos (inject_Z (c_up c))); [apply inject_Z_pos; lia|lra]. }
  assert (Hfl : (0 <? c_flat c)%Z = Qltb 0 (inject_Z (c_flat c) * rast a)).
  { destruct (0 <? c_flat c)%Z eqn:E.
    - apply Z.ltb_lt in E. symmetry. apply Qltb_lt. apply Qmult_lt_0_compat; [apply inject_Z_pos; exact E|exact HR].
    - apply Z.ltb_ge in E. assert (c_flat c = 0%Z) by lia. rewrite H. symmetry.
      destruct (Qltb 0 (inject_Z 0 * rast a)) eqn:L; [|reflexivity].
      apply Qltb_lt in L. change (inject_Z 0) with 0 in L. lra. }
  repeat split; try lia.
  - exact HR.
  - exact Hfind.
  - rewrite Hc. unfold eval_cand. cbn [c_up c_down fst snd]. reflexivity.
  - exact Hv.
  - (* corner times *)
    rewrite M5. unfold build_times, corner_counts. rewrite Hfl.
    destruct (Qltb 0 (inject_Z (c_flat c) * rast a)); cbn [map hd];
      repeat (apply Forall2_cons || apply Forall2_nil);
      rewrite Qred_correct, delay_zero, ?inject_Z_plus; change (inject_Z 0) with 0; ring.
  - rewrite M6. unfold build_amps, corner_amps. rewrite Hfl. reflexivity.
  - rewrite M6. exact M3.
  - rewrite M6. exact M4.
  - rewrite M7, M6. apply Qred_correct.
  - exact Har.
Qed.

(* ------------------------------------------------------------------------------------------ *)
(* end points, raster                                                                          *)
Definition increasing (tt : list Q) : Prop := Forall (fun dt => 0 < dt) (diffs tt).

Lemma eta_endpoints_lem fd fb a o : eta fd fb a = OK o ->
  let g := o_grad o in
  hd_error (g_wave g) = Some (e_gs a) /\ last (g_wave g) 0 = e_ge a /\
  (exists t r, g_tt g = t :: r /\ t == 0) /\ length (g_tt g) = length (g_wave g).
Proof.
  intro H. apply eta_shape in H. cbv zeta in H.
  destruct H as [HR [_ [_ [_ [_ [HT [HW _]]]]]]]. cbv zeta.
  rewrite HW. unfold corner_amps, corner_counts in *.
  destruct (0 <? c_flat (o_cand o))%Z.
  - inversion HT as [|t0 k0 r0 kr0 E0 T1]; subst.
    inversion T1 as [|t1 k1 r1 kr1 E1 T2]; subst. inversion T2 as [|t2 k2 r2 kr2 E2 T3]; subst.
    inversion T3 as [|t3 k3 r3 kr3 E3 T4]; subst. inversion T4; subst.
    repeat split; try reflexivity. exists t0, [t1; t2; t3]. split; [reflexivity|].
    rewrite E0. change (inject_Z 0) with 0. ring.
  - inversion HT as [|t0 k0 r0 kr0 E0 T1]; subst.
    inversion T1 as [|t1 k1 r1 kr1 E1 T2]; subst. inversion T2 as [|t2 k2 r2 kr2 E2 T3]; subst.
    inversion T3; subst.
    repeat split; try reflexivity. exists t0, [t1; t2]. split; [reflexivity|].
    rewrite E0. change (inject_Z 0) with 0. ring.
Qed.

Lemma corner_counts_sorted c : (0 < c_up c)%Z -> (0 <= c_flat c)%Z -> (0 < c_down c)%Z ->
  StronglySorted Z.lt (corner_counts c) /\ hd_error (corner_counts c) = Some 0%Z /\
  last (corner_counts c) 0%Z = (c_up c + c_flat c + c_down c)%Z.
Proof.
  intros Hu Hf Hd. unfold corner_counts. destruct (0 <? c_flat c)%Z eqn:E.
  - apply Z.ltb_lt in E. repeat split; cbn [last hd_error]; try reflexivity.
    repeat (constructor; [|repeat (constructor; try lia)]). constructor.
  - apply Z.ltb_ge in E. assert (c_flat c = 0%Z) by lia. repeat split; cbn [last hd_error]; try reflexivity; try lia.
    repeat (constructor; [|repeat (constructor; try lia)]). constructor.
Qed.

Lemma eta_on_raster_lem fd fb a o : eta fd fb a = OK o ->
  let g := o_grad o in
  0 < rast a /\
  exists ks : list Z,
    Forall2 (fun t k => t == inject_Z k * rast a) (g_tt g) ks /\
    StronglySorted Z.lt ks /\ hd_error ks = Some 0%Z /\ last ks 0%Z = o_dur o /\
    increasing (g_tt g).
Proof.
  intro H. apply eta_shape in H. cbv zeta in H.
  destruct H as [HR [_ [[Hu [Hf [Hd Hs]]] [_ [_ [HT _]]]]]]. cbv zeta. split; [exact HR|].
  exists (corner_counts (o_cand o)).
  destruct (corner_counts_sorted _ Hu Hf Hd) as [S1 [S2 S3]].
  repeat split; auto; [lia|].
  unfold increasing. unfold corner_counts in *.
  pose proof (inject_Z_pos _ Hu) as Pu. pose proof (inject_Z_pos _ Hd) as Pd.
  destruct (0 <? c_flat (o_cand o))%Z eqn:E.
  - apply Z.ltb_lt in E. pose proof (inject_Z_pos _ E) as Pf.
    inversion HT as [|t0 k0 r0 kr0 E0 T1]; subst.
    inversion T1 as [|t1 k1 r1 kr1 E1 T2]; subst. inversion T2 as [|t2 k2 r2 kr2 E2 T3]; subst.
    inversion T3 as [|t3 k3 r3 kr3 E3 T4]; subst. inversion T4; subst.
    cbn [diffs]. rewrite !inject_Z_plus in *. change (inject_Z 0) with 0 in E0.
    assert (0 < inject_Z (c_up (o_cand o)) * rast a) by (apply Qmult_lt_0_compat; assumption).
    assert (0 < inject_Z (c_flat (o_cand o)) * rast a) by (apply Qmult_lt_0_compat; assumption).
    assert (0 < inject_Z (c_down (o_cand o)) * rast a) by (apply Qmult_lt_0_compat; assumption).
    repeat constructor; rewrite ?E0, ?E1, ?E2, ?E3; lra.
  - inversion HT as [|t0 k0 r0 kr0 E0 T1]; subst.
    inversion T1 as [|t1 k1 r1 kr1 E1 T2]; subst. inversion T2 as [|t2 k2 r2 kr2 E2 T3]; subst.
    inversion T3; subst.
    cbn [diffs]. rewrite !inject_Z_plus in *. change (inject_Z 0) with 0 in E0.
    assert (0 < inject_Z (c_up (o_cand o)) * rast a) by (apply Qmult_lt_0_compat; assumption).
    assert (0 < inject_Z (c_down (o_cand o)) * rast a) by (apply Qmult_lt_0_compat; assumption).
    repeat constructor; rewrite ?E0, ?E1, ?E2; lra.
Qed.

(* ------------------------------------------------------------------------------------------ *)
(* exact area                                                                                  *)
Lemma eta_area_exact_lem fd fb a o : eta fd fb a = OK o ->
  (1 # 2) * trap_area (g_tt (o_grad o)) (g_wave (o_grad o)) == e_area a /\ g_area (o_grad o) == e_area a.
Proof.
  intro H. apply eta_shape in H. cbv zeta in H.
  destruct H as [HR [_ [[Hu [Hf [Hd Hs]]] [Hc [_ [HT [HW [_ [_ [HA _]]]]]]]]]].
  assert (Main : (1 # 2) * trap_area (g_tt (o_grad o)) (g_wave (o_grad o)) == e_area a);
    [|split; [exact Main|rewrite HA; exact Main]].
  set (c := o_cand o) in *. set (d := o_dur o) in *.
  assert (Hamp : c_amp c == amp_of a d (c_up c) (c_down c)).
  { rewrite Hc at 1. apply eval_cand_amp. }
  assert (Hfl : c_flat c = (d - c_up c - c_down c)%Z) by lia.
  pose proof (amp_area a d (c_up c) (c_down c) HR Hu Hd ltac:(lia)) as AA.
  rewrite <- Hfl in AA. unfold poly_area2 in AA. rewrite <- Hamp in AA.
  rewrite HW. unfold corner_amps, corner_counts in *.
  destruct (0 <? c_flat c)%Z eqn:E.
  - inversion HT as [|t0 k0 r0 kr0 E0 T1]; subst.
    inversion T1 as [|t1 k1 r1 kr1 E1 T2]; subst. inversion T2 as [|t2 k2 r2 kr2 E2 T3]; subst.
    inversion T3 as [|t3 k3 r3 kr3 E3 T4]; subst. inversion T4; subst.
    cbn [trap_area]. rewrite E0, E1, E2, E3, !inject_Z_plus. change (inject_Z 0) with 0.
    rewrite <- AA. ring.
  - apply Z.ltb_ge in E. assert (F0 : c_flat c = 0%Z) by lia. rewrite F0 in AA. change (inject_Z 0) with 0 in AA.
    inversion HT as [|t0 k0 r0 kr0 E0 T1]; subst.
    inversion T1 as [|t1 k1 r1 kr1 E1 T2]; subst. inversion T2 as [|t2 k2 r2 kr2 E2 T3]; subst.
    inversion T3; subst.
    cbn [trap_area]. rewrite E0, E1, E2, !inject_Z_plus. change (inject_Z 0) with 0.
    rewrite <- AA. ring.
Qed.

(* ------------------------------------------------------------------------------------------ *)
(* limits                                                                                      *)
Lemma eta_within_limits_lem fd fb a o : eta fd fb a = OK o ->
  let g := o_grad o in let c := o_cand o in
  Forall (fun w => Qabs w <= s_max_grad (e_sys a) + eta_eps) (g_wave g) /\
  Forall (fun sl => Qabs sl <= s_max_slew (e_sys a) * (1 + eta_eps)) (slews (g_tt g) (g_wave g)) /\
  within a (mgrad a + eta_amp_tol) (mslew a + eta_slew1_tol) (mslew a + eta_slew2_tol)
         (c_up c) (c_down c) (c_amp c).
Proof.
  intro H. apply eta_shape in H. cbv zeta in H.
  destruct H as [HR [_ [[Hu [Hf [Hd Hs]]] [Hc [Hv [_ [_ [HS [HG _]]]]]]]]]. cbv zeta.
  split; [|split].
  - apply Forall_forall. intros w Hw. pose proof (existsb_false_all _ _ HG w Hw) as E. cbv beta in E.
    unfold Qltb in E. apply negb_false_iff in E. apply Qle_bool_iff in E. exact E.
  - apply Forall_forall. intros w Hw. pose proof (existsb_false_all _ _ HS w Hw) as E. cbv beta in E.
    unfold Qltb in E. apply negb_false_iff in E. apply Qle_bool_iff in E. exact E.
  - rewrite Hc in Hv. apply valid_within in Hv; [|exact HR|exact Hu|exact Hd].
    cbn [fst snd] in Hv. rewrite <- Hc in Hv. exact Hv.
Qed.

(* ------------------------------------------------------------------------------------------ *)
(* completeness of the per-duration enumeration for two-ramp gradients                         *)

(* a two-ramp gradient of [ru + rd] rasters: corners (0, gs) (ru R, ga) ((ru+rd) R, ge), enclosing the
   requested area, plateau-free, with |ga| <= lim_g and slopes <= lim_s1 / lim_s2 *)
Definition two_ramp (a : etaArgs) (lim_g lim_s1 lim_s2 : Q) (ru rd : Z) (ga : Q) : Prop :=
  (0 < ru)%Z /\ (0 < rd)%Z /\
  (1 # 2) * poly_area2 (rast a) (e_gs a) (e_ge a) ga ru 0 rd == e_area a /\
  within a lim_g lim_s1 lim_s2 ru rd ga.

Lemma find_solution_complete_two_ramp_lem a d : 0 < rast a -> find_solution a d = None ->
  forall ru rd ga, (ru + rd = d)%Z ->
    ~ two_ramp a (mgrad a + eta_amp_tol) (mslew a + eta_slew1_tol) (mslew a + eta_slew2_tol) ru rd ga.
Proof.
  intros HR HN ru rd ga Hsum [Hu [Hd [Har HW]]].
  assert (Hin : In (ru, rd) (cands a d)).
  { unfold cands. rewrite !in_app_iff. right; right. apply cand_two_ramp_spec. cbn [fst snd]. lia. }
  pose proof (find_solution_None _ _ HN _ Hin) as Hv.
  assert (Hv' : valid a (eval_cand a d (ru, rd)) = true).
  { apply valid_within; [exact HR|exact Hu|exact Hd|]. cbn [fst snd].
    eapply within_compat; [|exact HW].
    rewrite eval_cand_amp. cbn [fst snd]. subst d. apply amp_unique; assumption. }
  congruence.
Qed.

(* the same for the limits of the property text (99 percent, no tolerance) *)
Lemma find_solution_complete_strict a d : 0 < rast a -> find_solution a d = None ->
  forall ru rd ga, (ru + rd = d)%Z -> ~ two_ramp a (mgrad a) (mslew a) (mslew a) ru rd ga.
Proof.
  intros HR HN ru rd ga Hsum [Hu [Hd [Har HW]]].
  apply (find_solution_complete_two_ramp_lem a d HR HN ru rd ga Hsum).
  split; [exact Hu|split; [exact Hd|split; [exact Har|]]].
  pose proof eta_amp_tol_nonneg. pose proof eta_slew1_tol_nonneg. pose proof eta_slew2_tol_nonneg.
  apply (within_mono a (mgrad a) (mslew a) (mslew a) (mgrad a + eta_amp_tol) (mslew a + eta_slew1_tol)
           (mslew a + eta_slew2_tol) ru rd ga HR Hu Hd); [lra|lra|lra|exact HW].
Qed.

(* below the lower bound of the search no two-ramp gradient within the slew limit connects the end points *)
Lemma two_ramp_min_duration a ru rd ga lg : 0 < rast a -> 0 < mslew a ->
  two_ramp a lg (mslew a) (mslew a) ru rd ga -> (min_duration a <= ru + rd)%Z.
Proof.
  intros HR HS [Hu [Hd [_ [_ [W2 W3]]]]].
  unfold min_duration. apply Z.max_lub.
  - rewrite ramp_cnt_ceiling by exact HR.
    rewrite <- (Qceiling_Z (ru + rd)). apply Qceiling_resp_le.
    apply Qle_shift_div_r; [exact HR|]. apply Qle_shift_div_r; [exact HS|].
    rewrite inject_Z_plus.
    assert (T : Qabs (e_ge a - e_gs a) <= Qabs (e_ge a - ga) + Qabs (ga - e_gs a)).
    { setoid_replace (e_ge a - e_gs a) with ((e_ge a - ga) + (ga - e_gs a)) by ring. apply Qabs_triangle. }
    assert (S : Qabs (ga - e_gs a) == Qabs (e_gs a - ga)).
    { setoid_replace (ga - e_gs a) with (- (e_gs a - ga)) by ring. apply Qabs_opp. }
    rewrite S in T.
    eapply Qle_trans; [exact T|].
    setoid_replace ((inject_Z ru + inject_Z rd) * rast a * mslew a)
      with (mslew a * (inject_Z ru * rast a) + mslew a * (inject_Z rd * rast a)) by ring.
    lra.
  - (* a two-ramp gradient has at least two raster steps; the search starts at eta_min_dur <= 2 *)
    assert (eta_min_dur <= 2)%Z by discriminate. lia.
Qed.

(* ------------------------------------------------------------------------------------------ *)
(* minimality                                                                                  *)

(* no two-ramp gradient (raster corner times, same end points, exact area, plateau amplitude within
   99 percent of max_grad and both slopes within 99 percent of max_slew) with fewer than D rasters *)
Definition no_shorter_two_ramp (a : etaArgs) (D : Z) : Prop :=
  forall ru rd ga, (ru + rd < D)%Z -> ~ two_ramp a (mgrad a) (mslew a) (mslew a) ru rd ga.

(* the same with the tolerances of the code's filter, from the lower bound of the search upwards *)
Definition no_shorter_two_ramp_tol (a : etaArgs) (D : Z) : Prop :=
  forall ru rd ga, (min_duration a <= ru + rd < D)%Z ->
    ~ two_ramp a (mgrad a + eta_amp_tol) (mslew a + eta_slew1_tol) (mslew a + eta_slew2_tol) ru rd ga.

Lemma mslew_pos a : 0 < s_max_slew (e_sys a) -> 0 < mslew a.
Proof. intro H. unfold mslew. apply Qmult_lt_0_compat; [exact H|exact eta_slew_factor_pos]. Qed.

Lemma none_below_no_shorter a D : 0 < rast a -> 0 < mslew a ->
  (forall d', (min_duration a <= d' < D)%Z -> find_solution a d' = None) -> no_shorter_two_ramp a D.
Proof.
  intros HR HS HN ru rd ga Hlt HT.
  pose proof (two_ramp_min_duration a ru rd ga _ HR HS HT) as Hmin.
  assert (HN' : find_solution a (ru + rd) = None) by (apply HN; lia).
  exact (find_solution_complete_strict a (ru + rd) HR HN' ru rd ga eq_refl HT).
Qed.

Lemma none_below_no_shorter_tol a D : 0 < rast a ->
  (forall d', (min_duration a <= d' < D)%Z -> find_solution a d' = None) -> no_shorter_two_ramp_tol a D.
Proof.
  intros HR HN ru rd ga Hlt HT.
  assert (HN' : find_solution a (ru + rd) = None) by (apply HN; lia).
  exact (find_solution_complete_two_ramp_lem a (ru + rd) HR HN' ru rd ga eq_refl HT).
Qed.

(* ---- the area bound behind `shortest_conceivable`: a candidate the filter accepts cannot enclose more
   than duration * raster * (max_grad + tol), provided the end points are within that bound too ---- *)
Lemma scale_bound U x H : 0 <= U -> - H <= x -> x <= H -> - (U * H) <= U * x /\ U * x <= U * H.
Proof.
  intros HU H1 H2. split.
  - setoid_replace (- (U * H)) with (- H * U) by ring. rewrite (Qmult_comm U x).
    apply Qmult_le_compat_r; assumption.
  - rewrite (Qmult_comm U x), (Qmult_comm U H). apply Qmult_le_compat_r; assumption.
Qed.

Lemma eta_amp_tol_le_sc_tol : eta_amp_tol <= eta_sc_tol.
Proof. discriminate. Qed.

Lemma feasible_area_bound a d c G : 0 < rast a -> find_solution a d = Some c ->
  Qabs (e_gs a) <= G -> Qabs (e_ge a) <= G -> mgrad a + eta_amp_tol <= G ->
  Qabs (e_area a) <= inject_Z d * rast a * G.
Proof.
  intros HR Hf Hgs Hge HG.
  pose proof (find_solution_Some _ _ _ Hf) as [p [_ [Hc [Hv [Hu [Hd Hsum]]]]]].
  rewrite Hc in Hv. apply valid_within in Hv; [|exact HR|exact Hu|exact Hd].
  destruct Hv as [Hga _]. rewrite eval_cand_amp in Hga.
  pose proof (amp_area a d (fst p) (snd p) HR Hu Hd Hsum) as AA.
  set (ga := amp_of a d (fst p) (snd p)) in *. unfold poly_area2 in AA.
  set (fl := (d - fst p - snd p)%Z) in *.
  assert (Hfl : (0 <= fl)%Z) by (unfold fl; lia).
  assert (Ed : inject_Z d == inject_Z (fst p) + inject_Z fl + inject_Z (snd p)).
  { rewrite <- !inject_Z_plus. unfold fl. apply inject_Z_injective. lia. }
  pose proof (inject_Z_pos _ Hu) as Pu. pose proof (inject_Z_pos _ Hd) as Pd.
  pose proof (inject_Z_nonneg _ Hfl) as Pf.
  apply Qabs_Qle_condition in Hgs. apply Qabs_Qle_condition in Hge. apply Qabs_Qle_condition in Hga.
  destruct Hgs as [Gs1 Gs2]. destruct Hge as [Ge1 Ge2]. destruct Hga as [Ga1 Ga2].
  assert (U1 : 0 <= inject_Z (fst p) * rast a) by (apply Qmult_le_0_compat; lra).
  assert (U2 : 0 <= inject_Z fl * rast a) by (apply Qmult_le_0_compat; lra).
  assert (U3 : 0 <= inject_Z (snd p) * rast a) by (apply Qmult_le_0_compat; lra).
  pose proof (scale_bound _ (ga + e_gs a) (G + G) U1 ltac:(lra) ltac:(lra)) as [B1 B1'].
  pose proof (scale_bound _ (ga + ga) (G + G) U2 ltac:(lra) ltac:(lra)) as [B2 B2'].
  pose proof (scale_bound _ (e_ge a + ga) (G + G) U3 ltac:(lra) ltac:(lra)) as [B3 B3'].
  apply Qabs_Qle_condition. rewrite Ed. rewrite <- AA. split; lra.
Qed.

Lemma feasible_ge_shortest_conceivable a d c : 0 < rast a -> find_solution a d = Some c ->
  Qabs (e_gs a) <= mgrad a + eta_amp_tol -> Qabs (e_ge a) <= mgrad a + eta_amp_tol ->
  (shortest_conceivable a <= d)%Z.
Proof.
  intros HR Hf Hgs Hge. unfold shortest_conceivable.
  pose proof eta_amp_tol_le_sc_tol as Htol.
  pose proof (feasible_area_bound a d c (mgrad a + eta_sc_tol) HR Hf ltac:(lra) ltac:(lra) ltac:(lra)) as HB.
  set (G := mgrad a + eta_sc_tol) in *.
  assert (HG0 : 0 <= G).
  { pose proof (Qabs_nonneg (e_gs a)). unfold G. lra. }
  rewrite <- (Qfloor_Z d). apply Qfloor_resp_le.
  destruct (Qlt_le_dec 0 G) as [HGpos|HGle].
  - apply Qle_shift_div_r; [apply Qmult_lt_0_compat; assumption|].
    setoid_replace (inject_Z d * (G * rast a)) with (inject_Z d * rast a * G) by ring. exact HB.
  - assert (EG : G == 0) by lra.
    assert (EA : Qabs (e_area a) == 0).
    { pose proof (Qabs_nonneg (e_area a)). rewrite EG in HB. lra. }
    rewrite EA. unfold Qdiv. rewrite Qmult_0_l.
    pose proof (find_solution_Some _ _ _ Hf) as [p [_ [_ [_ [Hu [Hd Hsum]]]]]].
    change 0 with (inject_Z 0). rewrite <- Zle_Qle. lia.
Qed.

(* ---- what the search guarantees about every shorter duration ---- *)
Lemma eta_search_facts fd fb a o : eta fd fb a = OK o ->
  0 < rast a /\ find_solution a (o_dur o) = Some (o_cand o) /\ (min_duration a <= o_dur o)%Z /\
  ( ((o_dur o <= lin_max a)%Z /\ forall d', (min_duration a <= d' < o_dur o)%Z -> find_solution a d' = None)
    \/ ((lin_max a < o_dur o)%Z /\
        (forall d', (min_duration a <= d' <= lin_max a)%Z -> find_solution a d' = None) /\
        (forall x, (rescan_start a <= x < o_dur o)%Z -> find_solution a x = None)) ).
Proof.
  intro H. pose proof (eta_shape _ _ _ _ H) as S. cbv zeta in S. destruct S as [HR _].
  apply eta_OK in H. destruct H as [HS _]. apply search_OK in HS. destruct HS as [Hf [Hm Hd]].
  repeat split; assumption.
Qed.

(* UNCONDITIONAL (both phases): the returned duration is the least duration >= min_duration for which
   _find_solution succeeds — for end points within the 99 percent limit (+ the filter tolerance) *)
Lemma eta_smallest_feasible_lem fd fb a o : eta fd fb a = OK o ->
  Qabs (e_gs a) <= mgrad a + eta_amp_tol -> Qabs (e_ge a) <= mgrad a + eta_amp_tol ->
  find_solution a (o_dur o) <> None /\ (min_duration a <= o_dur o)%Z /\
  forall d', (min_duration a <= d' < o_dur o)%Z -> find_solution a d' = None.
Proof.
  intros H Hgs Hge. apply eta_search_facts in H. destruct H as [HR [Hf [Hm Hd]]].
  repeat split; [congruence|exact Hm|].
  destruct Hd as [[_ HN]|[Hgt [HL HRs]]]; [exact HN|].
  intros d' Hd'.
  destruct (Z_le_gt_dec d' (lin_max a)) as [Hl|Hg]; [apply HL; lia|].
  destruct (Z_lt_le_dec d' (shortest_conceivable a)) as [Hlt|Hge'].
  - destruct (find_solution a d') eqn:E; [|reflexivity]. exfalso.
    pose proof (feasible_ge_shortest_conceivable a d' c HR E Hgs Hge). lia.
  - apply HRs. unfold rescan_start. lia.
Qed.

(* the linear phase needs no hypothesis on the end points *)
Lemma eta_linear_smallest_feasible_lem fd fb a o : eta fd fb a = OK o -> (o_dur o <= lin_max a)%Z ->
  find_solution a (o_dur o) <> None /\ (min_duration a <= o_dur o)%Z /\
  forall d', (min_duration a <= d' < o_dur o)%Z -> find_solution a d' = None.
Proof.
  intros H Hle. apply eta_search_facts in H. destruct H as [_ [Hf [Hm [[_ HN]|[Hgt _]]]]]; [|lia].
  repeat split; [congruence|exact Hm|exact HN].
Qed.

Lemma eta_minimal_lem fd fb a o : eta fd fb a = OK o -> 0 < s_max_slew (e_sys a) ->
  Qabs (e_gs a) <= mgrad a + eta_amp_tol -> Qabs (e_ge a) <= mgrad a + eta_amp_tol ->
  no_shorter_two_ramp a (o_dur o) /\ no_shorter_two_ramp_tol a (o_dur o).
Proof.
  intros H HMS Hgs Hge. pose proof (eta_smallest_feasible_lem _ _ _ _ H Hgs Hge) as [_ [_ HN]].
  apply eta_search_facts in H. destruct H as [HR _].
  split; [apply none_below_no_shorter; [exact HR|apply mslew_pos; exact HMS|exact HN]
         |apply none_below_no_shorter_tol; [exact HR|exact HN]].
Qed.

Lemma eta_minimal_linear_range_lem fd fb a o : eta fd fb a = OK o -> 0 < s_max_slew (e_sys a) ->
  (o_dur o <= lin_max a)%Z -> no_shorter_two_ramp a (o_dur o).
Proof.
  intros H HMS Hle. pose proof (eta_linear_smallest_feasible_lem _ _ _ _ H Hle) as [_ [_ HN]].
  apply eta_search_facts in H. destruct H as [HR _].
  apply none_below_no_shorter; [exact HR|apply mslew_pos; exact HMS|exact HN].
Qed.

(* boolean reflection of [two_ramp] for closed witnesses *)
Definition two_ramp_b (a : etaArgs) (lg ls1 ls2 : Q) (ru rd : Z) (ga : Q) : bool :=
  (0 <? ru)%Z && (0 <? rd)%Z &&
  Qeq_bool ((1 # 2) * poly_area2 (rast a) (e_gs a) (e_ge a) ga ru 0 rd) (e_area a) &&
  Qleb (Qabs ga) lg &&
  Qleb (Qabs (e_gs a - ga)) (ls1 * (inject_Z ru * rast a)) &&
  Qleb (Qabs (e_ge a - ga)) (ls2 * (inject_Z rd * rast a)).

Lemma two_ramp_b_sound a lg ls1 ls2 ru rd ga :
  two_ramp_b a lg ls1 ls2 ru rd ga = true -> two_ramp a lg ls1 ls2 ru rd ga.
Proof.
  unfold two_ramp_b, two_ramp, within. rewrite !andb_true_iff, !Qleb_le, !Z.ltb_lt.
  intros [[[[[H1 H2] H3] H4] H5] H6]. apply Qeq_bool_iff in H3. repeat split; assumption.
Qed.

(* ========================================================================================== *)
(* convert_to_arbitrary=True                                                                   *)

Lemma make_ext_trap_arb_OK s times amps g : make_ext_trap_arb s times amps = OK g ->
  existsb (fun dt => Qleb dt 0) (diffs times) = false /\
  a_wave g = eta_points_to_waveform (s_raster s) times amps /\
  a_tt g = map (fun i => (inject_Z (Z.of_nat i) + (1 # 2)) * s_raster s) (seq 0 (length (a_wave g))) /\
  a_first g = hd 0 amps /\ a_last g = last amps 0 /\
  a_area g = Qred (qsum (map (fun w => w * s_raster s) (a_wave g))) /\
  a_shape_dur g = inject_Z (Z.of_nat (length (a_wave g))) * s_raster s /\
  existsb (fun w => Qltb (s_max_grad s + eta_eps) (Qabs w)) (a_wave g) = false /\
  existsb (fun dw => Qltb (s_max_slew s * (1 + eta_eps)) (Qabs (dw / s_raster s))) (diffs (a_wave g)) = false.
Proof.
  unfold make_ext_trap_arb.
  destruct (forallb (fun t => Qeq_bool t 0) times); [discriminate|].
  destruct (existsb (fun dt => Qleb dt 0) (diffs times)) eqn:E1; [discriminate|].
  destruct (negb (on_raster (s_raster s) (last times 0))); [discriminate|].
  destruct (Qltb 0 (hd 0 times) && negb (Qeq_bool (hd 0 amps) 0)); [discriminate|].
  cbv zeta.
  destruct (existsb _ (diffs (eta_points_to_waveform _ _ _))) eqn:E2; [discriminate|].
  destruct (existsb _ (eta_points_to_waveform _ _ _)) eqn:E3; [discriminate|].
  destruct (existsb _ (slews _ _)) eqn:E4; [discriminate|].
  intro H. inversion H; subst; clear H. cbn [a_wave a_tt a_first a_last a_area a_shape_dur].
  repeat split; auto.
Qed.

Lemma finish_arb_OK a d c o : finish_arb a d c = OK o ->
  exists g, make_ext_trap_arb (e_sys a) (build_times a c) (build_amps a c) = OK g /\
            o = {| oa_grad := g; oa_dur := d; oa_cand := c |} /\
            Qabs (a_area g - e_area a) < eta_area_tol.
Proof.
  unfold finish_arb. destruct (make_ext_trap_arb _ _ _) as [g|e] eqn:E; [|discriminate].
  destruct (Qltb _ _) eqn:L; [|discriminate]. intro H. inversion H; subst.
  exists g. repeat split; auto. apply Qltb_lt. exact L.
Qed.

Lemma eta_arb_OK fd fb a o : eta_arb fd fb a = OK o ->
  search fd fb a = OK (oa_dur o, oa_cand o) /\ finish_arb a (oa_dur o) (oa_cand o) = OK o.
Proof.
  unfold eta_arb. destruct (search fd fb a) as [[d c]|e] eqn:S; [|discriminate].
  intro H. pose proof H as H'. apply finish_arb_OK in H. destruct H as [g [_ [-> _]]].
  cbn [oa_dur oa_cand]. split; [reflexivity|exact H'].
Qed.

(* first / last of the sampled event are the requested end points *)
Lemma eta_arb_endpoints_lem fd fb a o : eta_arb fd fb a = OK o ->
  a_first (oa_grad o) = e_gs a /\ a_last (oa_grad o) = e_ge a.
Proof.
  intro H. apply eta_arb_OK in H. destruct H as [_ HF]. apply finish_arb_OK in HF.
  destruct HF as [g [HM [Ho _]]]. rewrite Ho. cbn [oa_grad].
  apply make_ext_trap_arb_OK in HM. destruct HM as [_ [_ [_ [F [L _]]]]].
  rewrite F, L. unfold build_amps. destruct (Qltb 0 (inject_Z (c_flat (oa_cand o)) * rast a)); split; reflexivity.
Qed.

(* ---- np.interp on three / four knots ---- *)
Lemma interp_seg1 t0 t1 w0 w1 tr wr x : ~ x <= t0 -> x <= t1 ->
  eta_interp (t0 :: t1 :: tr) (w0 :: w1 :: wr) x = (w1 - w0) / (t1 - t0) * (x - t0) + w0.
Proof.
  intros H0 H1. cbn [eta_interp].
  destruct (Qle_bool x t0) eqn:E0; [apply Qle_bool_iff in E0; contradiction|].
  destruct (Qle_bool x t1) eqn:E1; [reflexivity|].
  exfalso. apply Qle_bool_iff in H1. congruence.
Qed.

Lemma interp_skip t0 t1 w0 w1 tr wr x : ~ x <= t1 -> t0 <= t1 ->
  eta_interp (t0 :: t1 :: tr) (w0 :: w1 :: wr) x = eta_interp (t1 :: tr) (w1 :: wr) x.
Proof.
  intros H1 H01. cbn [eta_interp].
  destruct (Qle_bool x t0) eqn:E0; [apply Qle_bool_iff in E0; exfalso; apply H1; lra|].
  destruct (Qle_bool x t1) eqn:E1; [apply Qle_bool_iff in E1; contradiction|].
  reflexivity.
Qed.

(* raster centres against raster multiples *)
Lemma centre_le i n R : 0 < R -> ((inject_Z i + (1 # 2)) * R <= inject_Z n * R <-> (i < n)%Z).
Proof.
  intro HR. split; intro H.
  - assert (inject_Z i + (1 # 2) <= inject_Z n) by (apply (Qmult_le_r _ _ R HR); exact H).
    assert (inject_Z i < inject_Z n) by lra. rewrite <- Zlt_Qlt in H1. exact H1.
  - apply Qmult_le_compat_r; [|lra].
    assert (i + 1 <= n)%Z by lia. rewrite Zle_Qle, inject_Z_plus in H0. change (inject_Z 1) with 1 in H0. lra.
Qed.

Lemma centre_pos i R : 0 < R -> (0 <= i)%Z -> ~ (inject_Z i + (1 # 2)) * R <= 0.
Proof.
  intros HR Hi H. pose proof (inject_Z_nonneg _ Hi).
  assert (0 < (inject_Z i + (1 # 2)) * R) by (apply Qmult_lt_0_compat; lra). lra.
Qed.

Lemma build_times_raster_pos a c : (0 < c_up c)%Z ->
  existsb (fun dt => Qleb dt 0) (diffs (build_times a c)) = false -> 0 < rast a.
Proof.
  intros Hu M1. pose proof (existsb_false_all _ _ M1) as HD.
  assert (Hin1 : In ((0 + inject_Z (c_up c) * rast a) - 0) (diffs (build_times a c))).
  { unfold build_times. destruct (Qltb 0 (inject_Z (c_flat c) * rast a)); cbn [diffs]; left; reflexivity. }
  specialize (HD _ Hin1). cbv beta in HD.
  assert (Hpos : 0 < 0 + inject_Z (c_up c) * rast a - 0).
  { apply Qnot_le_lt. intro Hle. apply Qleb_le in Hle. congruence. }
  apply (pos_prod_pos (inject_Z (c_up c))); [apply inject_Z_pos; lia|lra].
Qed.

Lemma flat_test a c : 0 < rast a -> (0 <= c_flat c)%Z ->
  Qltb 0 (inject_Z (c_flat c) * rast a) = (0 <? c_flat c)%Z.
Proof.
  intros HR Hf. destruct (0 <? c_flat c)%Z eqn:E.
  - apply Z.ltb_lt in E. apply Qltb_lt. apply Qmult_lt_0_compat; [apply inject_Z_pos; exact E|exact HR].
  - apply Z.ltb_ge in E. assert (c_flat c = 0%Z) by lia. rewrite H.
    destruct (Qltb 0 (inject_Z 0 * rast a)) eqn:L; [|reflexivity].
    apply Qltb_lt in L. change (inject_Z 0) with 0 in L. lra.
Qed.

(* value of the corner list at the centre of raster cell i, in closed form *)
Definition arb_sample_spec (a : etaArgs) (c : cand) (i : Z) : Q :=
  let R := rast a in
  let x := (inject_Z i + (1 # 2)) * R in
  if (i <? c_up c)%Z then (c_amp c - e_gs a) / (inject_Z (c_up c) * R) * x + e_gs a
  else if (i <? c_up c + c_flat c)%Z then c_amp c
  else (e_ge a - c_amp c) / (inject_Z (c_down c) * R) * (x - inject_Z (c_up c + c_flat c) * R) + c_amp c.

Lemma interp_build a c i : 0 < rast a -> (0 < c_up c)%Z -> (0 <= c_flat c)%Z -> (0 < c_down c)%Z ->
  (0 <= i < c_up c + c_flat c + c_down c)%Z ->
  eta_interp (build_times a c) (build_amps a c) (inject_Z (0 + i) * rast a + rast a / 2)
  == arb_sample_spec a c i.
Proof.
  intros HR Hu Hf Hd Hi. unfold build_times, build_amps, arb_sample_spec. cbv zeta.
  rewrite (flat_test a c HR Hf).
  set (R := rast a) in *. set (X := inject_Z (0 + i) * R + R / 2).
  assert (HX : X == (inject_Z i + (1 # 2)) * R).
  { unfold X. rewrite Z.add_0_l. field. }
  pose proof (inject_Z_pos _ Hu) as Pu. pose proof (inject_Z_pos _ Hd) as Pd.
  pose proof (inject_Z_nonneg _ Hf) as Pf.
  assert (X0 : ~ X <= 0) by (rewrite HX; apply centre_pos; [exact HR|lia]).
  assert (TU : 0 < inject_Z (c_up c) * R) by (apply Qmult_lt_0_compat; assumption).
  assert (TD : 0 < inject_Z (c_down c) * R) by (apply Qmult_lt_0_compat; assumption).
  assert (TF : 0 <= inject_Z (c_flat c) * R) by (apply Qmult_le_0_compat; lra).
  destruct (0 <? c_flat c)%Z eqn:EF.
  - (* four corners *)
    apply Z.ltb_lt in EF. pose proof (inject_Z_pos _ EF) as Pf'.
    assert (TF' : 0 < inject_Z (c_flat c) * R) by (apply Qmult_lt_0_compat; assumption).
    destruct (i <? c_up c)%Z eqn:E1.
    + apply Z.ltb_lt in E1. rewrite interp_seg1; [rewrite HX; field; lra|exact X0|].
      rewrite HX. setoid_replace (0 + inject_Z (c_up c) * R) with (inject_Z (c_up c) * R) by ring.
      apply centre_le; assumption.
    + apply Z.ltb_ge in E1.
      assert (N1 : ~ X <= 0 + inject_Z (c_up c) * R).
      { rewrite HX. setoid_replace (0 + inject_Z (c_up c) * R) with (inject_Z (c_up c) * R) by ring.
        intro H. apply centre_le in H; [lia|exact HR]. }
      rewrite interp_skip; [|exact N1|lra].
      destruct (i <? c_up c + c_flat c)%Z eqn:E2.
      * apply Z.ltb_lt in E2. rewrite interp_seg1; [field; lra|exact N1|].
        rewrite HX.
        setoid_replace (0 + inject_Z (c_up c) * R + inject_Z (c_flat c) * R)
          with (inject_Z (c_up c + c_flat c) * R) by (rewrite inject_Z_plus; ring).
        apply centre_le; assumption.
      * apply Z.ltb_ge in E2.
        assert (N2 : ~ X <= 0 + inject_Z (c_up c) * R + inject_Z (c_flat c) * R).
        { rewrite HX.
          setoid_replace (0 + inject_Z (c_up c) * R + inject_Z (c_flat c) * R)
            with (inject_Z (c_up c + c_flat c) * R) by (rewrite inject_Z_plus; ring).
          intro H. apply centre_le in H; [lia|exact HR]. }
        rewrite interp_skip; [|exact N2|lra].
        rewrite interp_seg1; [rewrite HX, inject_Z_plus; field; lra|exact N2|].
        rewrite HX.
        setoid_replace (0 + inject_Z (c_up c) * R + inject_Z (c_flat c) * R + inject_Z (c_down c) * R)
          with (inject_Z (c_up c + c_flat c + c_down c) * R) by (rewrite !inject_Z_plus; ring).
        apply centre_le; [exact HR|lia].
  - (* three corners: flat = 0 *)
    apply Z.ltb_ge in EF. assert (F0 : c_flat c = 0%Z) by lia. rewrite F0 in *. rewrite Z.add_0_r in *.
    destruct (i <? c_up c)%Z eqn:E1.
    + apply Z.ltb_lt in E1. rewrite interp_seg1; [rewrite HX; field; lra|exact X0|].
      rewrite HX. setoid_replace (0 + inject_Z (c_up c) * R) with (inject_Z (c_up c) * R) by ring.
      apply centre_le; assumption.
    + apply Z.ltb_ge in E1.
      assert (N1 : ~ X <= 0 + inject_Z (c_up c) * R).
      { rewrite HX. setoid_replace (0 + inject_Z (c_up c) * R) with (inject_Z (c_up c) * R) by ring.
        intro H. apply centre_le in H; [lia|exact HR]. }
      rewrite interp_skip; [|exact N1|lra].
      rewrite interp_seg1; [rewrite HX; field; lra|exact N1|].
      rewrite HX.
      setoid_replace (0 + inject_Z (c_up c) * R + inject_Z (c_down c) * R)
        with (inject_Z (c_up c + c_down c) * R) by (rewrite !inject_Z_plus; ring).
      apply centre_le; [exact HR|lia].
Qed.

Lemma last_build_times a c :
  last (build_times a c) 0 == inject_Z (c_up c + (if Qltb 0 (inject_Z (c_flat c) * rast a) then c_flat c else 0) + c_down c)
                              * rast a.
Proof.
  unfold build_times. destruct (Qltb 0 (inject_Z (c_flat c) * rast a)); cbn [last];
    rewrite !inject_Z_plus; change (inject_Z 0) with 0; ring.
Qed.

Lemma hd_build_times a c : hd 0 (build_times a c) = 0.
Proof. unfold build_times. destruct (Qltb 0 (inject_Z (c_flat c) * rast a)); reflexivity. Qed.

(* structure of an accepted arbitrary-form result *)
Lemma eta_arb_samples_lem fd fb a o : eta_arb fd fb a = OK o ->
  let g := oa_grad o in let c := oa_cand o in let D := oa_dur o in
  0 < rast a /\ find_solution a D = Some c /\
  (0 < c_up c /\ 0 <= c_flat c /\ 0 < c_down c /\ c_up c + c_flat c + c_down c = D)%Z /\
  length (a_wave g) = Z.to_nat D /\ length (a_tt g) = Z.to_nat D /\
  (forall i, (i < Z.to_nat D)%nat -> nth i (a_wave g) 0 == arb_sample_spec a c (Z.of_nat i)) /\
  (forall i, (i < Z.to_nat D)%nat -> nth i (a_tt g) 0 == (inject_Z (Z.of_nat i) + (1 # 2)) * rast a) /\
  a_shape_dur g == inject_Z D * rast a /\
  a_area g == qsum (map (fun w => w * rast a) (a_wave g)) /\
  Qabs (a_area g - e_area a) < eta_area_tol.
Proof.
  intro H. apply eta_arb_OK in H. destruct H as [HS HF]. cbv zeta.
  apply search_OK in HS. destruct HS as [Hfind _].
  pose proof (find_solution_Some _ _ _ Hfind) as [p [_ [Hc [_ [Hu [Hd Hsum]]]]]].
  apply finish_arb_OK in HF. destruct HF as [g [HM [Ho Har]]].
  assert (Hg : oa_grad o = g) by (rewrite Ho; reflexivity). rewrite Hg. clear Ho Hg.
  set (c := oa_cand o) in *. set (D := oa_dur o) in *.
  assert (Cu : c_up c = fst p) by (rewrite Hc; reflexivity).
  assert (Cd : c_down c = snd p) by (rewrite Hc; reflexivity).
  assert (Cf : c_flat c = (D - fst p - snd p)%Z) by (rewrite Hc; reflexivity).
  assert (Hu' : (0 < c_up c)%Z) by lia. assert (Hd' : (0 < c_down c)%Z) by lia.
  assert (Hf' : (0 <= c_flat c)%Z) by lia. assert (HD : (c_up c + c_flat c + c_down c = D)%Z) by lia.
  apply make_ext_trap_arb_OK in HM. destruct HM as [M1 [MW [MT [_ [_ [MA [MD _]]]]]]].
  pose proof (build_times_raster_pos a c Hu' M1) as HR.
  change (s_raster (e_sys a)) with (rast a) in *.
  (* number of samples *)
  assert (K0 : rnd_he (hd 0 (build_times a c) / rast a) = 0%Z).
  { rewrite hd_build_times, Qdiv_0_l. reflexivity. }
  assert (K1 : rnd_he (last (build_times a c) 0 / rast a) = D).
  { rewrite last_build_times, (flat_test a c HR Hf').
    assert (E : (c_up c + (if (0 <? c_flat c)%Z then c_flat c else 0) + c_down c = D)%Z).
    { destruct (0 <? c_flat c)%Z eqn:E; [lia|]. apply Z.ltb_ge in E. lia. }
    rewrite E.
    assert (E2 : inject_Z D * rast a / rast a == inject_Z D) by (field; lra).
    rewrite E2. apply rnd_he_inject. }
  assert (LW : length (a_wave g) = Z.to_nat D).
  { rewrite MW. unfold eta_points_to_waveform. rewrite map_length, seq_length, K0, K1. f_equal. lia. }
  assert (NW : forall i, (i < Z.to_nat D)%nat -> nth i (a_wave g) 0 == arb_sample_spec a c (Z.of_nat i)).
  { intros i Hi. rewrite MW. unfold eta_points_to_waveform. rewrite K0, K1, Z.sub_0_r.
    set (f := fun i0 : nat => eta_interp (build_times a c) (build_amps a c)
                                (inject_Z (0 + Z.of_nat i0) * rast a + rast a / 2)).
    rewrite (nth_indep _ 0 (f 0%nat)) by (rewrite map_length, seq_length; exact Hi).
    rewrite map_nth, seq_nth by exact Hi. unfold f. cbn [plus].
    apply interp_build; try assumption. lia. }
  repeat split; try assumption; try lia.
  - rewrite MT, map_length, seq_length. exact LW.
  - intros i Hi. rewrite MT, LW.
    set (f := fun i0 : nat => (inject_Z (Z.of_nat i0) + (1 # 2)) * rast a).
    rewrite (nth_indep _ 0 (f 0%nat)) by (rewrite map_length, seq_length; exact Hi).
    rewrite map_nth, seq_nth by exact Hi. reflexivity.
  - rewrite MD, LW, Z2Nat.id by lia. reflexivity.
  - rewrite MA. apply Qred_correct.
Qed.

(* ========================================================================================== *)
(* exact area of the raster-sampled form                                                        *)

(* ---- exact area of the sampled form: midpoint sums of a polyline with corners on the raster ---- *)
Fixpoint sum_to (f : nat -> Q) (n : nat) : Q := match n with O => 0 | S k => sum_to f k + f k end.

Lemma qsum_app l1 l2 : qsum (l1 ++ l2) == qsum l1 + qsum l2.
Proof. induction l1 as [|x r IH]; cbn [qsum app]; [ring|rewrite IH; ring]. Qed.

Lemma qsum_scaled_nth R l : forall f, (forall i, (i < length l)%nat -> nth i l 0 == f i) ->
  qsum (map (fun w => w * R) l) == sum_to (fun i => f i * R) (length l).
Proof.
  induction l as [|x l IH] using rev_ind; intros f H; [reflexivity|].
  rewrite map_app, qsum_app, app_length. cbn [length map qsum]. rewrite Nat.add_1_r. cbn [sum_to].
  rewrite (IH f).
  - assert (E : x == f (length l)).
    { rewrite <- (H (length l)); [rewrite nth_middle; reflexivity|rewrite app_length; cbn; lia]. }
    rewrite E. ring.
  - intros i Hi. rewrite <- (H i); [rewrite app_nth1 by exact Hi; reflexivity|rewrite app_length; lia].
Qed.

(* primitive of the corner list at raster boundaries *)
Definition prim (a : etaArgs) (c : cand) (k : Z) : Q :=
  let R := rast a in let gs := e_gs a in let ge := e_ge a in let amp := c_amp c in
  let u := inject_Z (c_up c) in let f := inject_Z (c_flat c) in let w := inject_Z (c_down c) in
  let K := inject_Z k in
  let P1 := gs * u * R + (amp - gs) / (u * R) * ((u * R) * (u * R)) * (1 # 2) in
  if (k <=? c_up c)%Z then gs * K * R + (amp - gs) / (u * R) * ((K * R) * (K * R)) * (1 # 2)
  else if (k <=? c_up c + c_flat c)%Z then P1 + amp * (K - u) * R
  else P1 + amp * f * R + amp * (K - u - f) * R
       + (ge - amp) / (w * R) * (((K - u - f) * R) * ((K - u - f) * R)) * (1 # 2).

Lemma prim_step a c i : 0 < rast a -> (0 < c_up c)%Z -> (0 <= c_flat c)%Z -> (0 < c_down c)%Z ->
  (0 <= i < c_up c + c_flat c + c_down c)%Z ->
  prim a c (i + 1) - prim a c i == arb_sample_spec a c i * rast a.
Proof.
  intros HR Hu Hf Hd Hi. unfold prim, arb_sample_spec. cbv zeta.
  rewrite inject_Z_plus. change (inject_Z 1) with 1.
  pose proof (inject_Z_pos _ Hu) as Pu. pose proof (inject_Z_pos _ Hd) as Pd.
  set (R := rast a) in *. set (u := inject_Z (c_up c)) in *. set (w := inject_Z (c_down c)) in *.
  set (f := inject_Z (c_flat c)). set (K := inject_Z i).
  destruct (i <? c_up c)%Z eqn:E1.
  - apply Z.ltb_lt in E1.
    replace (i + 1 <=? c_up c)%Z with true by (symmetry; apply Z.leb_le; lia).
    replace (i <=? c_up c)%Z with true by (symmetry; apply Z.leb_le; lia).
    field. lra.
  - apply Z.ltb_ge in E1.
    replace (i + 1 <=? c_up c)%Z with false by (symmetry; apply Z.leb_gt; lia).
    destruct (i <? c_up c + c_flat c)%Z eqn:E2.
    + apply Z.ltb_lt in E2.
      replace (i + 1 <=? c_up c + c_flat c)%Z with true by (symmetry; apply Z.leb_le; lia).
      destruct (i <=? c_up c)%Z eqn:E3.
      * apply Z.leb_le in E3. assert (i = c_up c) by lia. subst i. fold u in K. subst K. field. lra.
      * replace (i <=? c_up c + c_flat c)%Z with true by (symmetry; apply Z.leb_le; lia). field. lra.
    + apply Z.ltb_ge in E2.
      replace (i + 1 <=? c_up c + c_flat c)%Z with false by (symmetry; apply Z.leb_gt; lia).
      rewrite inject_Z_plus. fold u f.
      destruct (i <=? c_up c)%Z eqn:E3.
      * apply Z.leb_le in E3. assert (i = c_up c) by lia. assert (F0 : c_flat c = 0%Z) by lia.
        assert (Ef : f == 0) by (unfold f; rewrite F0; reflexivity).
        subst i. fold u in K. subst K. rewrite Ef. field. lra.
      * destruct (i <=? c_up c + c_flat c)%Z eqn:E4.
        -- apply Z.leb_le in E4. assert (Ei : i = (c_up c + c_flat c)%Z) by lia.
           assert (EK : K == u + f) by (unfold K, u, f; rewrite Ei, inject_Z_plus; reflexivity).
           rewrite EK. field. lra.
        -- field. lra.
Qed.

Lemma prim_telescope a c n : 0 < rast a -> (0 < c_up c)%Z -> (0 <= c_flat c)%Z -> (0 < c_down c)%Z ->
  (Z.of_nat n <= c_up c + c_flat c + c_down c)%Z ->
  sum_to (fun i => arb_sample_spec a c (Z.of_nat i) * rast a) n == prim a c (Z.of_nat n) - prim a c 0.
Proof.
  intros HR Hu Hf Hd. induction n as [|n IH]; intro Hn.
  - cbn [sum_to]. change (Z.of_nat 0) with 0%Z. ring.
  - cbn [sum_to]. rewrite IH by lia. rewrite <- (prim_step a c (Z.of_nat n)) by (try assumption; lia).
    replace (Z.of_nat (S n)) with (Z.of_nat n + 1)%Z by lia. ring.
Qed.

Lemma prim_0 a c : (0 < c_up c)%Z -> prim a c 0 == 0.
Proof.
  intro Hu. unfold prim. cbv zeta. replace (0 <=? c_up c)%Z with true by (symmetry; apply Z.leb_le; lia).
  change (inject_Z 0) with 0. unfold Qdiv. ring.
Qed.

Lemma prim_end a c : 0 < rast a -> (0 < c_up c)%Z -> (0 <= c_flat c)%Z -> (0 < c_down c)%Z ->
  prim a c (c_up c + c_flat c + c_down c)
  == (1 # 2) * poly_area2 (rast a) (e_gs a) (e_ge a) (c_amp c) (c_up c) (c_flat c) (c_down c).
Proof.
  intros HR Hu Hf Hd. unfold prim, poly_area2. cbv zeta.
  replace (c_up c + c_flat c + c_down c <=? c_up c)%Z with false by (symmetry; apply Z.leb_gt; lia).
  replace (c_up c + c_flat c + c_down c <=? c_up c + c_flat c)%Z with false by (symmetry; apply Z.leb_gt; lia).
  rewrite !inject_Z_plus.
  pose proof (inject_Z_pos _ Hu) as Pu. pose proof (inject_Z_pos _ Hd) as Pd.
  field. lra.
Qed.

Lemma eta_arb_area_exact_lem fd fb a o : eta_arb fd fb a = OK o ->
  qsum (map (fun w => w * rast a) (a_wave (oa_grad o))) == e_area a /\ a_area (oa_grad o) == e_area a.
Proof.
  intro H. pose proof (eta_arb_samples_lem _ _ _ _ H) as S. cbv zeta in S.
  destruct S as [HR [Hfind [[Hu [Hf [Hd HD]]] [LW [_ [NW [_ [_ [HA _]]]]]]]]].
  assert (Main : qsum (map (fun w => w * rast a) (a_wave (oa_grad o))) == e_area a);
    [|split; [exact Main|rewrite HA; exact Main]].
  set (c := oa_cand o) in *. set (D := oa_dur o) in *.
  rewrite (qsum_scaled_nth (rast a) _ (fun i => arb_sample_spec a c (Z.of_nat i))).
  - rewrite LW. rewrite prim_telescope by (try assumption; rewrite Z2Nat.id by lia; lia).
    rewrite Z2Nat.id by lia. rewrite prim_0 by exact Hu. rewrite <- HD, prim_end by assumption.
    pose proof (find_solution_Some _ _ _ Hfind) as [p [_ [Hc [_ [Hpu [Hpd Hsum]]]]]].
    assert (Cu : c_up c = fst p) by (rewrite Hc; reflexivity).
    assert (Cd : c_down c = snd p) by (rewrite Hc; reflexivity).
    assert (Cf : c_flat c = (D - fst p - snd p)%Z) by (rewrite Hc; reflexivity).
    pose proof (amp_area a D (fst p) (snd p) HR Hpu Hpd Hsum) as AA.
    assert (Hamp : c_amp c == amp_of a D (fst p) (snd p)) by (rewrite Hc at 1; apply eval_cand_amp).
    rewrite Cu, Cd, Cf. unfold poly_area2 in *. rewrite Hamp.
    setoid_replace ((1 # 2) * (inject_Z (fst p) * rast a * (amp_of a D (fst p) (snd p) + e_gs a) +
      inject_Z (D - fst p - snd p) * rast a * (amp_of a D (fst p) (snd p) + amp_of a D (fst p) (snd p)) +
      inject_Z (snd p) * rast a * (e_ge a + amp_of a D (fst p) (snd p))) - 0) with
      ((1 # 2) * (inject_Z (fst p) * rast a * (amp_of a D (fst p) (snd p) + e_gs a) +
      inject_Z (D - fst p - snd p) * rast a * (amp_of a D (fst p) (snd p) + amp_of a D (fst p) (snd p)) +
      inject_Z (snd p) * rast a * (e_ge a + amp_of a D (fst p) (snd p)))) by ring.
    exact AA.
  - intros i Hi. apply NW. rewrite <- LW. exact Hi.
Qed.

(* ========================================================================================== *)
(* termination / total correctness                                                              *)

(* ---- termination: every sufficiently long duration has a (two-ramp) solution ---- *)
Lemma eta_amp_tol_pos : 0 < eta_amp_tol. Proof. reflexivity. Qed.

(* a duration from which the symmetric split d/2 + (d - d/2) is accepted by the filter *)
Definition d_feasible (a : etaArgs) : Z :=
  Z.max 2 (Z.max (Qceiling (2 * Qabs (e_area a) / (rast a * eta_amp_tol)))
                 (Qceiling (2 * (2 * mgrad a + eta_amp_tol) / (mslew a * rast a)) + 2)).

Lemma Qabs_bounds x H : Qabs x <= H -> - H <= x /\ x <= H.
Proof. intro A. apply Qabs_Qle_condition in A. exact A. Qed.

Lemma eventually_feasible a d : 0 < rast a -> 0 < mslew a ->
  Qabs (e_gs a) <= mgrad a -> Qabs (e_ge a) <= mgrad a ->
  (d_feasible a <= d)%Z -> find_solution a d <> None.
Proof.
  intros HR HS Hgs Hge Hd HN.
  unfold d_feasible in Hd.
  set (ru := (d / 2)%Z). set (rd := (d - ru)%Z).
  assert (Hd2 : (2 <= d)%Z) by lia.
  assert (Hru : (1 <= ru /\ 2 * ru <= d /\ d - 1 <= 2 * ru)%Z).
  { unfold ru. pose proof (Z_div_mod_eq_full d 2). pose proof (Z.mod_pos_bound d 2 ltac:(lia)). lia. }
  assert (Hrd : (1 <= rd /\ d - 1 <= 2 * rd)%Z) by (unfold rd; lia).
  assert (Hin : In (ru, rd) (cands a d)).
  { unfold cands. rewrite !in_app_iff. right; right. apply cand_two_ramp_spec. cbn [fst snd]. unfold rd. lia. }
  pose proof (find_solution_None _ _ HN _ Hin) as Hv.
  assert (Hv' : valid a (eval_cand a d (ru, rd)) = true); [|congruence].
  apply valid_within; [exact HR|cbn; lia|cbn; lia|]. cbn [fst snd].
  apply (within_compat a _ _ _ ru rd (amp_of a d ru rd)); [symmetry; apply (eval_cand_amp a d (ru, rd))|].
  (* the arithmetic *)
  set (G := mgrad a) in *. set (R := rast a) in *. set (ms := mslew a) in *.
  set (u := inject_Z ru). set (w := inject_Z rd). set (D := inject_Z d).
  assert (Pu : 1 <= u) by (unfold u; change 1 with (inject_Z 1); rewrite <- Zle_Qle; lia).
  assert (Pw : 1 <= w) by (unfold w; change 1 with (inject_Z 1); rewrite <- Zle_Qle; lia).
  assert (ED : D == u + w) by (unfold D, u, w; rewrite <- inject_Z_plus; unfold rd; apply inject_Z_injective; lia).
  assert (Hu2 : D - 1 <= 2 * u).
  { assert (H : inject_Z (d + - (1)) <= inject_Z (2 * ru)) by (rewrite <- Zle_Qle; lia).
    rewrite inject_Z_mult, inject_Z_plus, inject_Z_opp in H. fold D u in H.
    change (inject_Z 2) with 2 in H. change (inject_Z 1) with 1 in H. lra. }
  assert (Hw2 : D - 1 <= 2 * w).
  { assert (H : inject_Z (d + - (1)) <= inject_Z (2 * rd)) by (rewrite <- Zle_Qle; lia).
    rewrite inject_Z_mult, inject_Z_plus, inject_Z_opp in H. fold D w in H.
    change (inject_Z 2) with 2 in H. change (inject_Z 1) with 1 in H. lra. }
  assert (G0 : 0 <= G) by (pose proof (Qabs_nonneg (e_gs a)); lra).
  pose proof eta_amp_tol_pos as Tp. pose proof eta_slew1_tol_nonneg as T1. pose proof eta_slew2_tol_nonneg as T2.
  (* from the two ceilings *)
  assert (HA : 2 * Qabs (e_area a) <= D * (R * eta_amp_tol)).
  { assert (C : 2 * Qabs (e_area a) / (R * eta_amp_tol) <= D).
    { eapply Qle_trans; [apply Qle_ceiling|]. unfold D. rewrite <- Zle_Qle. lia. }
    apply Qle_div_l in C; [exact C|apply Qmult_lt_0_compat; assumption]. }
  assert (HSl : 2 * (2 * G + eta_amp_tol) <= (D - 2) * (ms * R)).
  { assert (C : 2 * (2 * G + eta_amp_tol) / (ms * R) <= D - 2).
    { eapply Qle_trans; [apply Qle_ceiling|].
      assert (H : inject_Z (Qceiling (2 * (2 * G + eta_amp_tol) / (ms * R))) <= inject_Z (d + - (2)))
        by (rewrite <- Zle_Qle; lia).
      rewrite inject_Z_plus, inject_Z_opp in H. fold D in H. change (inject_Z 2) with 2 in H. lra. }
    apply Qle_div_l in C; [exact C|apply Qmult_lt_0_compat; assumption]. }
  (* the amplitude *)
  set (ga := amp_of a d ru rd).
  assert (DR : 0 < D * R) by (apply Qmult_lt_0_compat; [rewrite ED; lra|exact HR]).
  assert (EX : ga * (D * R) == 2 * e_area a - u * R * e_gs a - w * R * e_ge a).
  { unfold ga, amp_of. replace (ru + 2 * (d - ru - rd) + rd)%Z with d by (unfold rd; lia).
    fold D R u w. field. lra. }
  apply Qabs_bounds in Hgs. apply Qabs_bounds in Hge. destruct Hgs as [S1 S2]. destruct Hge as [E1 E2].
  assert (UR : 0 <= u * R) by (apply Qmult_le_0_compat; lra).
  assert (WR : 0 <= w * R) by (apply Qmult_le_0_compat; lra).
  pose proof (scale_bound _ (e_gs a) G UR S1 S2) as [B1 B1'].
  pose proof (scale_bound _ (e_ge a) G WR E1 E2) as [B2 B2'].
  pose proof (Qle_Qabs (e_area a)) as A1.
  assert (A2 : - e_area a <= Qabs (e_area a)) by (rewrite <- Qabs_opp; apply Qle_Qabs).
  assert (Hga : - (G + eta_amp_tol) <= ga /\ ga <= G + eta_amp_tol).
  { split.
    - apply (Qmult_le_r _ _ (D * R) DR). rewrite EX. rewrite ED in *. lra.
    - apply (Qmult_le_r _ _ (D * R) DR). rewrite EX. rewrite ED in *. lra. }
  destruct Hga as [Ga1 Ga2].
  unfold within. fold R u w. repeat split.
  - apply Qabs_Qle_condition. split; lra.
  - apply Qabs_Qle_condition.
    assert (Cap : 2 * G + eta_amp_tol <= (ms + eta_slew1_tol) * (u * R)).
    { assert (ms * R * (D - 2) <= 2 * (ms * (u * R))).
      { setoid_replace (2 * (ms * (u * R))) with (ms * R * (2 * u)) by ring.
        apply Qmult_le_l; [apply Qmult_lt_0_compat; assumption|lra]. }
      assert (0 <= eta_slew1_tol * (u * R)) by (apply Qmult_le_0_compat; assumption).
      setoid_replace ((ms + eta_slew1_tol) * (u * R)) with (ms * (u * R) + eta_slew1_tol * (u * R)) by ring.
      lra. }
    split; lra.
  - apply Qabs_Qle_condition.
    assert (Cap : 2 * G + eta_amp_tol <= (ms + eta_slew2_tol) * (w * R)).
    { assert (ms * R * (D - 2) <= 2 * (ms * (w * R))).
      { setoid_replace (2 * (ms * (w * R))) with (ms * R * (2 * w)) by ring.
        apply Qmult_le_l; [apply Qmult_lt_0_compat; assumption|lra]. }
      assert (0 <= eta_slew2_tol * (w * R)) by (apply Qmult_le_0_compat; assumption).
      setoid_replace ((ms + eta_slew2_tol) * (w * R)) with (ms * (w * R) + eta_slew2_tol * (w * R)) by ring.
      lra. }
    split; lra.
Qed.

(* in-domain inputs of the termination theorems *)
Definition in_domain (a : etaArgs) : Prop :=
  0 < rast a /\ 0 < mslew a /\ Qabs (e_gs a) <= mgrad a /\ Qabs (e_ge a) <= mgrad a.

Lemma eventually_feasible' a d : in_domain a -> (d_feasible a <= d)%Z -> find_solution a d <> None.
Proof. intros [H1 [H2 [H3 H4]]]. apply eventually_feasible; assumption. Qed.

Lemma doubling_total a k : in_domain a -> forall md, (0 < md)%Z ->
  (d_feasible a <= md * 2 ^ Z.of_nat (S k))%Z -> doubling a md (S k) <> None.
Proof.
  intro Dom. induction k as [|k IH]; intros md Hmd Hb.
  - cbn [doubling]. change (2 ^ Z.of_nat 1)%Z with 2%Z in Hb.
    destruct (find_solution a (md * 2)) eqn:E; [discriminate|].
    exfalso. apply (eventually_feasible' a (md * 2) Dom Hb). exact E.
  - cbn [doubling]. destruct (find_solution a (md * 2)) eqn:E; [discriminate|].
    apply IH; [lia|].
    replace (md * 2 * 2 ^ Z.of_nat (S k))%Z with (md * 2 ^ Z.of_nat (S (S k)))%Z; [exact Hb|].
    rewrite (Nat2Z.inj_succ (S k)), Z.pow_succ_r by lia. ring.
Qed.

Lemma doubling_le a fuel : forall md hi, doubling a md fuel = Some hi -> (0 < md)%Z ->
  (hi <= md * 2 ^ Z.of_nat fuel)%Z.
Proof.
  induction fuel as [|k IH]; intros md hi H Hmd; cbn [doubling] in H; [discriminate|].
  rewrite Nat2Z.inj_succ, Z.pow_succ_r by lia.
  destruct (find_solution a (md * 2)) eqn:E.
  - inversion H; subst. assert (0 < 2 ^ Z.of_nat k)%Z by (apply Z.pow_pos_nonneg; lia). nia.
  - apply IH in H; [|lia]. lia.
Qed.

Lemma bsearch_S a lo hi k : bsearch a lo hi (S k) =
  if (lo =? hi - 1)%Z then match find_solution a hi with Some c => OK (hi, c) | None => Err NoneSolution end
  else match find_solution a ((hi + lo) / 2) with
       | Some _ => bsearch a lo ((hi + lo) / 2) k
       | None => bsearch a ((hi + lo) / 2) hi k
       end.
Proof. reflexivity. Qed.

Lemma bsearch_total a k : forall lo hi, (lo < hi)%Z -> (hi - lo <= 2 ^ Z.of_nat k)%Z ->
  find_solution a hi <> None -> exists dc, bsearch a lo hi (S k) = OK dc.
Proof.
  induction k as [|k IH]; intros lo hi Hlt Hsz Hhi.
  - change (2 ^ Z.of_nat 0)%Z with 1%Z in Hsz. cbn [bsearch].
    replace (lo =? hi - 1)%Z with true by (symmetry; apply Z.eqb_eq; lia).
    destruct (find_solution a hi) as [c|]; [eexists; reflexivity|congruence].
  - rewrite bsearch_S. destruct (lo =? hi - 1)%Z eqn:E.
    + destruct (find_solution a hi) as [c|]; [eexists; reflexivity|congruence].
    + apply Z.eqb_neq in E.
      rewrite Nat2Z.inj_succ, Z.pow_succ_r in Hsz by lia.
      pose proof (Z_div_mod_eq_full (hi + lo) 2) as Hdm.
      pose proof (Z.mod_pos_bound (hi + lo) 2 ltac:(lia)) as Hmb.
      destruct (find_solution a ((hi + lo) / 2)) eqn:F.
      * apply IH; [lia|lia|congruence].
      * apply IH; [lia|lia|exact Hhi].
Qed.

(* the search never runs out of fuel and never ends with NoneSolution when the fuel covers the feasibility bound *)
Lemma search_total a kd kb : in_domain a ->
  (d_feasible a <= lin_max a * 2 ^ Z.of_nat (S kd))%Z ->
  (lin_max a * 2 ^ Z.of_nat (S kd) <= 2 ^ Z.of_nat kb)%Z ->
  exists dc, search (S kd) (S kb) a = OK dc.
Proof.
  intros Dom Hd Hb. unfold search.
  pose proof (min_le_lin_max a) as Hmm. pose proof (min_duration_ge2 a) as Hm2.
  destruct (linear_search a (min_duration a) (Z.to_nat (lin_max a - min_duration a + 1))) as [dc|] eqn:L;
    [eexists; reflexivity|].
  pose proof (linear_search_None _ _ _ L) as LN. rewrite Z2Nat.id in LN by lia.
  assert (Hlm : find_solution a (lin_max a) = None) by (apply LN; lia).
  destruct (doubling a (lin_max a) (S kd)) as [hi|] eqn:Dd;
    [|exfalso; exact (doubling_total a kd Dom (lin_max a) ltac:(lia) Hd Dd)].
  pose proof (doubling_le _ _ _ _ Dd ltac:(lia)) as Hle.
  apply doubling_Some in Dd; [|lia|exact Hlm]. destruct Dd as [[D1 D2] [D3 D4]].
  destruct (bsearch_total a kb (hi / 2) hi D2 ltac:(lia) D3) as [dc Hdc].
  rewrite Hdc. eexists; reflexivity.
Qed.

(* ---- the final construction never fails on an accepted candidate ---- *)
Definition sys_ok (a : etaArgs) : Prop :=
  mslew a + eta_slew1_tol <= s_max_slew (e_sys a) * (1 + eta_eps) /\
  mslew a + eta_slew2_tol <= s_max_slew (e_sys a) * (1 + eta_eps) /\
  mgrad a + eta_amp_tol <= s_max_grad (e_sys a) + eta_eps.

Lemma Qltb_ge x y : y <= x -> Qltb x y = false.
Proof. intro H. unfold Qltb. apply negb_false_iff. apply Qle_bool_iff. exact H. Qed.

Lemma on_raster_mult R k t : 0 < R -> t == inject_Z k * R -> on_raster R t = true.
Proof.
  intros HR E. unfold on_raster. apply Qleb_le.
  assert (E2 : t / R == inject_Z k) by (rewrite E; field; lra).
  rewrite E2, rnd_he_inject.
  assert (Z0 : inject_Z k * R - t == 0) by (rewrite E; ring).
  rewrite Z0. discriminate.
Qed.

Lemma slope_ok w0 w1 T T' L B : 0 < T -> T' == T -> Qabs (w0 - w1) <= L * T -> L <= B ->
  Qabs ((w1 - w0) / T') <= B.
Proof.
  intros HT ET H HL. rewrite ET.
  assert (E : Qabs ((w1 - w0) / T) == Qabs (w0 - w1) / T).
  { setoid_replace ((w1 - w0) / T) with (- ((w0 - w1) / T)) by (field; lra).
    rewrite Qabs_opp. unfold Qdiv. rewrite Qabs_Qmult. rewrite (Qabs_pos (/ T)); [reflexivity|].
    apply Qlt_le_weak. apply Qinv_lt_0_compat. exact HT. }
  rewrite E. eapply Qle_trans; [|exact HL]. apply Qle_shift_div_r; assumption.
Qed.

Lemma finish_total a d c : find_solution a d = Some c -> in_domain a -> sys_ok a ->
  exists o, finish a d c = OK o.
Proof.
  intros Hf [HR [HS [Hgs Hge]]] [K1 [K2 K3]].
  pose proof (find_solution_Some _ _ _ Hf) as [p [_ [Hc [Hv [Hu [Hd Hsum]]]]]].
  assert (Cu : c_up c = fst p) by (rewrite Hc; reflexivity).
  assert (Cd : c_down c = snd p) by (rewrite Hc; reflexivity).
  assert (Cf : c_flat c = (d - fst p - snd p)%Z) by (rewrite Hc; reflexivity).
  assert (Hu' : (0 < c_up c)%Z) by lia. assert (Hd' : (0 < c_down c)%Z) by lia.
  assert (Hf' : (0 <= c_flat c)%Z) by lia.
  pose proof Hv as Hw. rewrite Hc in Hw. apply valid_within in Hw; [|exact HR|exact Hu|exact Hd].
  rewrite <- Hc, <- Cu, <- Cd in Hw. destruct Hw as [W1 [W2 W3]].
  assert (Hamp : c_amp c == amp_of a d (c_up c) (c_down c)).
  { rewrite Cu, Cd. rewrite Hc at 1. apply eval_cand_amp. }
  pose proof (amp_area a d (c_up c) (c_down c) HR Hu' Hd' ltac:(lia)) as AA.
  replace (d - c_up c - c_down c)%Z with (c_flat c) in AA by lia.
  unfold poly_area2 in AA. rewrite <- Hamp in AA.
  set (R := rast a) in *. set (amp := c_amp c) in *.
  set (u := inject_Z (c_up c)) in *. set (f := inject_Z (c_flat c)) in *. set (w := inject_Z (c_down c)) in *.
  pose proof (inject_Z_pos _ Hu') as Pu. pose proof (inject_Z_pos _ Hd') as Pd.
  pose proof (inject_Z_nonneg _ Hf') as Pf. fold u in Pu. fold w in Pd. fold f in Pf.
  assert (TU : 0 < u * R) by (apply Qmult_lt_0_compat; assumption).
  assert (TD : 0 < w * R) by (apply Qmult_lt_0_compat; assumption).
  pose proof eta_area_tol_pos as TA. pose proof eta_amp_tol_nonneg as Tt.
  assert (Ggs : Qabs (e_gs a) <= s_max_grad (e_sys a) + eta_eps) by lra.
  assert (Gge : Qabs (e_ge a) <= s_max_grad (e_sys a) + eta_eps) by lra.
  assert (Gam : Qabs amp <= s_max_grad (e_sys a) + eta_eps) by lra.
  unfold finish, make_ext_trap, build_times, build_amps.
  change (s_raster (e_sys a)) with R. fold u f w. fold R. fold amp.
  pose proof (flat_test a c HR Hf') as FT. fold R f in FT. rewrite FT. clear FT.
  destruct (0 <? c_flat c)%Z eqn:EF.
  - (* four corners *)
    apply Z.ltb_lt in EF. pose proof (inject_Z_pos _ EF) as Pf'. fold f in Pf'.
    assert (TF : 0 < f * R) by (apply Qmult_lt_0_compat; assumption).
    cbn [forallb diffs existsb last hd map slews trap_area].
    replace (Qeq_bool (0 + u * R) 0) with false
      by (symmetry; apply not_true_is_false; intro H; apply Qeq_bool_iff in H; lra).
    rewrite andb_false_r. cbn [andb].
    replace (Qleb (0 + u * R - 0) 0) with false
      by (symmetry; apply not_true_is_false; intro H; apply Qleb_le in H; lra).
    replace (Qleb (0 + u * R + f * R - (0 + u * R)) 0) with false
      by (symmetry; apply not_true_is_false; intro H; apply Qleb_le in H; lra).
    replace (Qleb (0 + u * R + f * R + w * R - (0 + u * R + f * R)) 0) with false
      by (symmetry; apply not_true_is_false; intro H; apply Qleb_le in H; lra).
    cbn [orb].
    rewrite (on_raster_mult R (c_up c + c_flat c + c_down c) _ HR)
      by (rewrite !inject_Z_plus; fold u f w; ring).
    cbn [negb].
    replace (Qltb 0 0) with false by reflexivity. cbn [andb].
    rewrite (on_raster_mult R 0 0 HR) by (change (inject_Z 0) with 0; ring).
    rewrite (on_raster_mult R (c_up c) (0 + u * R) HR) by (fold u; ring).
    rewrite (on_raster_mult R (c_up c + c_flat c) (0 + u * R + f * R) HR)
      by (rewrite inject_Z_plus; fold u f; ring).
    cbn [andb negb].
    set (dl := inject_Z (rnd_he (0 / R)) * R).
    assert (Edl : dl == 0) by apply delay_zero.
    (* slews *)
    rewrite (Qltb_ge _ (Qabs ((amp - e_gs a) / (Qred (0 + u * R - dl) - Qred (0 - dl)))))
      by (apply (slope_ok _ _ (u * R) _ (mslew a + eta_slew1_tol)); [exact TU|rewrite !Qred_correct, Edl; ring|exact W2|exact K1]).
    rewrite (Qltb_ge _ (Qabs ((amp - amp) / (Qred (0 + u * R + f * R - dl) - Qred (0 + u * R - dl)))))
      by (apply (slope_ok _ _ (f * R) _ 0); [exact TF|rewrite !Qred_correct, Edl; ring
          |setoid_replace (amp - amp) with 0 by ring; rewrite Qmult_0_l; discriminate
          |pose proof (Qabs_nonneg (e_gs a)); pose proof eta_slew1_tol_nonneg; lra]).
    rewrite (Qltb_ge _ (Qabs ((e_ge a - amp) / (Qred (0 + u * R + f * R + w * R - dl) - Qred (0 + u * R + f * R - dl)))))
      by (apply (slope_ok _ _ (w * R) _ (mslew a + eta_slew2_tol)); [exact TD|rewrite !Qred_correct, Edl; ring
          |rewrite <- Qabs_opp; setoid_replace (- (amp - e_ge a)) with (e_ge a - amp) by ring; exact W3|exact K2]).
    cbn [orb].
    rewrite (Qltb_ge _ (Qabs (e_gs a)) Ggs), (Qltb_ge _ (Qabs amp) Gam), (Qltb_ge _ (Qabs (e_ge a)) Gge).
    cbn [orb g_area].
    match goal with |- exists o, (if Qltb ?x ?y then _ else _) = _ => assert (HX : Qltb x y = true) end.
    { apply Qltb_lt. rewrite !Qred_correct, Edl.
      match goal with |- Qabs ?z < _ => assert (Z0 : z == 0) by (rewrite <- AA; ring) end.
      rewrite Z0. exact TA. }
    rewrite HX. eexists; reflexivity.
  - (* three corners *)
    apply Z.ltb_ge in EF. assert (F0 : c_flat c = 0%Z) by lia.
    assert (Ef : f == 0) by (unfold f; rewrite F0; reflexivity).
    cbn [forallb diffs existsb last hd map slews trap_area].
    replace (Qeq_bool (0 + u * R) 0) with false
      by (symmetry; apply not_true_is_false; intro H; apply Qeq_bool_iff in H; lra).
    rewrite andb_false_r. cbn [andb].
    replace (Qleb (0 + u * R - 0) 0) with false
      by (symmetry; apply not_true_is_false; intro H; apply Qleb_le in H; lra).
    replace (Qleb (0 + u * R + w * R - (0 + u * R)) 0) with false
      by (symmetry; apply not_true_is_false; intro H; apply Qleb_le in H; lra).
    cbn [orb].
    rewrite (on_raster_mult R (c_up c + c_down c) _ HR) by (rewrite !inject_Z_plus; fold u w; ring).
    cbn [negb].
    replace (Qltb 0 0) with false by reflexivity. cbn [andb].
    rewrite (on_raster_mult R 0 0 HR) by (change (inject_Z 0) with 0; ring).
    rewrite (on_raster_mult R (c_up c) (0 + u * R) HR) by (fold u; ring).
    cbn [andb negb].
    set (dl := inject_Z (rnd_he (0 / R)) * R).
    assert (Edl : dl == 0) by apply delay_zero.
    rewrite (Qltb_ge _ (Qabs ((amp - e_gs a) / (Qred (0 + u * R - dl) - Qred (0 - dl)))))
      by (apply (slope_ok _ _ (u * R) _ (mslew a + eta_slew1_tol)); [exact TU|rewrite !Qred_correct, Edl; ring|exact W2|exact K1]).
    rewrite (Qltb_ge _ (Qabs ((e_ge a - amp) / (Qred (0 + u * R + w * R - dl) - Qred (0 + u * R - dl)))))
      by (apply (slope_ok _ _ (w * R) _ (mslew a + eta_slew2_tol)); [exact TD|rewrite !Qred_correct, Edl; ring
          |rewrite <- Qabs_opp; setoid_replace (- (amp - e_ge a)) with (e_ge a - amp) by ring; exact W3|exact K2]).
    cbn [orb].
    rewrite (Qltb_ge _ (Qabs (e_gs a)) Ggs), (Qltb_ge _ (Qabs amp) Gam), (Qltb_ge _ (Qabs (e_ge a)) Gge).
    cbn [orb g_area].
    match goal with |- exists o, (if Qltb ?x ?y then _ else _) = _ => assert (HX : Qltb x y = true) end.
    { apply Qltb_lt. rewrite !Qred_correct, Edl.
      match goal with |- Qabs ?z < _ => assert (Z0 : z == 0) by (rewrite <- AA, Ef; ring) end.
      rewrite Z0. exact TA. }
    rewrite HX. eexists; reflexivity.
Qed.

(* TOTAL CORRECTNESS: for in-domain inputs and enough fuel the model returns a gradient *)
Lemma eta_total_lem a kd kb : in_domain a -> sys_ok a ->
  (d_feasible a <= lin_max a * 2 ^ Z.of_nat (S kd))%Z ->
  (lin_max a * 2 ^ Z.of_nat (S kd) <= 2 ^ Z.of_nat kb)%Z ->
  exists o, eta (S kd) (S kb) a = OK o.
Proof.
  intros Dom Sys Hd Hb. destruct (search_total a kd kb Dom Hd Hb) as [[d c] HS].
  unfold eta. rewrite HS. apply search_OK in HS. destruct HS as [Hf _].
  exact (finish_total a d c Hf Dom Sys).
Qed.
