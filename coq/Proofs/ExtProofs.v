(* Proofs/ExtProofs.v — C19: the hash-consed, suffix-shared extension lists of set_block/get_block.
   A. the invariant of the extension library (next pointers strictly decrease, keymap and data agree
      in both directions), kept by every library operation set_block performs;
   B. the chain walk terminates: fuel `S (length data)` is never exhausted;
   C. round trip: registering a list and walking the returned id yields the sorted list;
      sharing and injectivity of the hash-consing;
   D. the invariant over whole operation histories (`run`). *)
From Coq Require Import List Bool ZArith QArith Qcanon Qround Lia Permutation.
From RecordUpdate Require Import RecordSet.
From PV Require Import Base.AList Base.QUtil Model.EventLib Model.Seq Model.Labels Model.LabelEval
                       Proofs.SeqSpec Proofs.SeqCache.
Import ListNotations RecordSetNotations.
Open Scope Z_scope.

(* ================================================================================================ *)
(* 0. small facts                                                                                    *)
(* ================================================================================================ *)
Lemma qz_zq n : qz (zq n) = n.
Proof.
  unfold qz, zq. cbn [this Q2Qc].
  assert (H : (Qred (inject_Z n) == inject_Z n)%Q) by apply Qred_correct.
  rewrite (Qfloor_comp _ _ H). apply Qfloor_Z.
Qed.

Definition ext_row (ty ref nx : Z) : key := [zq ty; zq ref; zq nx].

Lemma ext_row_fields ty ref nx :
  qz (knth (ext_row ty ref nx) 0) = ty /\ qz (knth (ext_row ty ref nx) 1) = ref /\
  qz (knth (ext_row ty ref nx) 2) = nx.
Proof. unfold ext_row, knth. cbn [nth]. rewrite !qz_zq. auto. Qed.

Lemma ext_row_inj a b c a' b' c' : ext_row a b c = ext_row a' b' c' -> a = a' /\ b = b' /\ c = c'.
Proof.
  intro H. pose proof (ext_row_fields a b c) as (F1 & F2 & F3).
  pose proof (ext_row_fields a' b' c') as (G1 & G2 & G3). rewrite H in F1, F2, F3.
  repeat split; congruence.
Qed.

Local Notation kget := (aget key_eqb).

Lemma kget_aset_same (m : list (key * Z)) k v : kget (aset key_eqb m k v) k = Some v.
Proof. apply (aget_aset_same key_eqb key_eqb_spec). Qed.
Lemma kget_aset_other (m : list (key * Z)) k v k2 : k2 <> k -> kget (aset key_eqb m k v) k2 = kget m k2.
Proof. apply (aget_aset_other key_eqb key_eqb_spec). Qed.

(* ================================================================================================ *)
(* A. the invariant                                                                                  *)
(* ================================================================================================ *)
(* an id that may be handed to the walk: 0 (empty list) or an existing entry *)
Definition ext_valid (l : klib) (eid : Z) : Prop := eid = 0 \/ lib_get l eid <> None.

Definition ext_wf (l : klib) : Prop :=
  0 < lnext l /\
  (* every entry is a (type, ref, next) row whose next id is 0 or a strictly smaller existing id *)
  (forall id k, lib_get l id = Some k ->
     0 < id < lnext l /\
     exists ty ref nx, k = ext_row ty ref nx /\ 0 <= nx < id /\ ext_valid l nx) /\
  (* keymap -> data *)
  (forall k id, kget (lkeymap l) k = Some id -> lib_get l id = Some k) /\
  (* data -> keymap: no two ids hold the same row (hash-consing is injective) *)
  (forall id k, lib_get l id = Some k -> kget (lkeymap l) k = Some id).

Lemma ext_wf_empty : ext_wf lib_empty.
Proof. split; [reflexivity|]. repeat split; cbn; intros; discriminate. Qed.

(* keymap growth: keys already mapped keep their id *)
Definition km_le (l l' : klib) : Prop :=
  forall k id, kget (lkeymap l) k = Some id -> kget (lkeymap l') k = Some id.

Lemma ext_valid_le l l' eid : lib_le l l' -> ext_valid l eid -> ext_valid l' eid.
Proof.
  intros L [H|H]; [left; exact H|right].
  destruct (lib_get l eid) as [k|] eqn:E; [|congruence].
  rewrite (lib_le_get _ _ _ _ L E). discriminate.
Qed.

Lemma ext_valid_lt l eid : ext_wf l -> ext_valid l eid -> 0 <= eid < lnext l.
Proof.
  intros (W0 & W1 & _) [->|V]; [lia|].
  destruct (lib_get l eid) as [k|] eqn:E; [|congruence]. destruct (W1 _ _ E). lia.
Qed.

(* the one insertion set_block performs: a row not yet in the keymap, at the next free id *)
Lemma ext_insert_wf (l : klib) ty ref nx :
  ext_wf l -> ext_valid l nx -> kget (lkeymap l) (ext_row ty ref nx) = None ->
  let l1 := fst (kins l (lnext l) (ext_row ty ref nx) 0) in
  ext_wf l1 /\ lib_le l l1 /\ km_le l l1 /\ lib_get l1 (lnext l) = Some (ext_row ty ref nx) /\
  kget (lkeymap l1) (ext_row ty ref nx) = Some (lnext l).
Proof.
  intros W V Hnone. pose proof (ext_valid_lt l nx W V) as Hnx.
  destruct W as (W0 & W1 & W2 & W3). cbv zeta.
  unfold kins, lib_insert. cbn [fst].
  assert (Hid : (if lnext l =? 0 then lnext l else lnext l) = lnext l) by (destruct (lnext l =? 0); reflexivity).
  rewrite Hid. rewrite Z.leb_refl. unfold set_type. cbn [Z.eqb].
  set (row := ext_row ty ref nx) in *.
  set (l1 := mkLib (aset Z.eqb (ldata l) (lnext l) row) (ltype l) (aset key_eqb (lkeymap l) row (lnext l)) (lnext l + 1)).
  assert (Hfresh : lib_get l (lnext l) = None).
  { destruct (lib_get l (lnext l)) as [k|] eqn:E; [|reflexivity]. destruct (W1 _ _ E) as [Hlt _]. lia. }
  assert (Hold : forall id, id <> lnext l -> lib_get l1 id = lib_get l id).
  { intros id N. unfold lib_get, l1. cbn [ldata]. apply agetZ_aset_other. exact N. }
  assert (Hnew : lib_get l1 (lnext l) = Some row).
  { unfold lib_get, l1. cbn [ldata]. apply agetZ_aset_same. }
  assert (Hle : lib_le l l1).
  { intros id H. assert (N : id <> lnext l) by (intro X; subst; congruence).
    split; [apply Hold; exact N|reflexivity]. }
  assert (Hkm : km_le l l1).
  { intros k id H. unfold l1. cbn [lkeymap]. rewrite kget_aset_other; [exact H|]. intro X. subst k. congruence. }
  split; [|split; [exact Hle|split; [exact Hkm|split; [exact Hnew|unfold l1; cbn [lkeymap]; apply kget_aset_same]]]].
  split; [unfold l1; cbn [lnext]; lia|]. split; [|split].
  - intros id k H. destruct (Z.eq_dec id (lnext l)) as [->|N].
    + rewrite Hnew in H. inversion H. subst k. split; [unfold l1; cbn [lnext]; lia|].
      exists ty, ref, nx. split; [reflexivity|]. split; [lia|]. eapply ext_valid_le; eassumption.
    + rewrite (Hold id N) in H. destruct (W1 _ _ H) as (Hlt & ty' & ref' & nx' & Hk & Hn & Hv).
      split; [unfold l1; cbn [lnext]; lia|]. exists ty', ref', nx'. split; [exact Hk|]. split; [exact Hn|].
      eapply ext_valid_le; eassumption.
  - intros k id H. unfold l1 in H. cbn [lkeymap] in H.
    destruct (key_eqb k row) eqn:Ek.
    + apply key_eqb_spec in Ek. subst k. rewrite kget_aset_same in H. inversion H. subst id. exact Hnew.
    + assert (Hne : k <> row) by (intro X; subst; rewrite (proj2 (key_eqb_spec row row) eq_refl) in Ek; discriminate).
      rewrite kget_aset_other in H by exact Hne. pose proof (W2 _ _ H) as G.
      rewrite Hold; [exact G|]. intro X. subst id. congruence.
  - intros id k H. unfold l1. cbn [lkeymap]. destruct (Z.eq_dec id (lnext l)) as [->|N].
    + rewrite Hnew in H. inversion H. subst k. apply kget_aset_same.
    + rewrite (Hold id N) in H. pose proof (W3 _ _ H) as G.
      rewrite kget_aset_other; [exact G|]. intro X. subst k. congruence.
Qed.

(* ================================================================================================ *)
(* B. the walk                                                                                       *)
(* ================================================================================================ *)
Lemma ext_walk_unfold l f eid :
  ext_walk l f eid =
  if eid =? 0 then WOk [] else
  match f with
  | O => WFuel
  | S f => match lib_get l eid with
           | None => WKey
           | Some ed => match ext_walk l f (qz (knth ed 2)) with WOk r => WOk (eid :: r) | x => x end
           end
  end.
Proof. destruct f; reflexivity. Qed.

Lemma ext_list_unfold l f eid :
  ext_list l f eid =
  if eid =? 0 then Some [] else
  match f with
  | O => None
  | S f => match lib_get l eid with
           | None => None
           | Some ed => match ext_list l f (qz (knth ed 2)) with
                        | Some r => Some ((qz (knth ed 0), qz (knth ed 1)) :: r)
                        | None => None
                        end
           end
  end.
Proof. destruct f; reflexivity. Qed.

(* more fuel never changes a successful walk *)
Lemma ext_walk_mono l : forall f f' eid ids,
  (f <= f')%nat -> ext_walk l f eid = WOk ids -> ext_walk l f' eid = WOk ids.
Proof.
  induction f as [|f IH]; intros f' eid ids Hf H; rewrite ext_walk_unfold in H; rewrite ext_walk_unfold.
  - destruct (eid =? 0); [exact H|discriminate].
  - destruct (eid =? 0); [exact H|]. destruct f' as [|f']; [lia|].
    destruct (lib_get l eid) as [ed|]; [|discriminate].
    destruct (ext_walk l f (qz (knth ed 2))) as [r| |] eqn:E; try discriminate.
    rewrite (IH f' _ r); [exact H|lia|exact E].
Qed.

(* a successful walk needs exactly as much fuel as it visits entries *)
Lemma ext_walk_len l : forall f eid ids,
  ext_walk l f eid = WOk ids -> ext_walk l (length ids) eid = WOk ids.
Proof.
  induction f as [|f IH]; intros eid ids H; rewrite ext_walk_unfold in H.
  - destruct (eid =? 0) eqn:E0; [|discriminate]. inversion H. cbn [length]. rewrite ext_walk_unfold, E0. reflexivity.
  - destruct (eid =? 0) eqn:E0.
    { inversion H. cbn [length]. rewrite ext_walk_unfold, E0. reflexivity. }
    destruct (lib_get l eid) as [ed|] eqn:E1; [|discriminate].
    destruct (ext_walk l f (qz (knth ed 2))) as [r| |] eqn:E; try discriminate.
    inversion H. subst ids. cbn [length]. rewrite ext_walk_unfold, E0, E1. rewrite (IH _ _ E). reflexivity.
Qed.

(* under the invariant the visited ids strictly decrease *)
Lemma ext_walk_decreasing l : ext_wf l -> forall f eid ids,
  ext_walk l f eid = WOk ids ->
  (forall x, In x ids -> 0 < x <= eid /\ lib_get l x <> None) /\ NoDup ids.
Proof.
  intros (W0 & W1 & _). induction f as [|f IH]; intros eid ids H; rewrite ext_walk_unfold in H.
  - destruct (eid =? 0); [|discriminate]. inversion H. split; [intros x []|constructor].
  - destruct (eid =? 0); [inversion H; split; [intros x []|constructor]|].
    destruct (lib_get l eid) as [ed|] eqn:E1; [|discriminate].
    destruct (ext_walk l f (qz (knth ed 2))) as [r| |] eqn:E; try discriminate.
    inversion H. subst ids. clear H.
    destruct (W1 _ _ E1) as (Hid & ty & ref & nx & Hk & Hn & _). subst ed.
    destruct (ext_row_fields ty ref nx) as (_ & _ & F3). rewrite F3 in E.
    destruct (IH _ _ E) as [Hin Hnd]. split.
    + intros x [<-|Hx]; [split; [lia|congruence]|]. destruct (Hin x Hx). split; [lia|assumption].
    + constructor; [|exact Hnd]. intro Hx. destruct (Hin _ Hx). lia.
Qed.

Lemma ext_walk_bound l f eid ids :
  ext_wf l -> ext_walk l f eid = WOk ids -> (length ids <= length (ldata l))%nat.
Proof.
  intros W H. destruct (ext_walk_decreasing l W f eid ids H) as [Hin Hnd].
  rewrite <- (map_length fst (ldata l)). apply NoDup_incl_length; [exact Hnd|].
  intros x Hx. destruct (Hin x Hx) as [_ G].
  destruct (lib_get l x) as [k|] eqn:E; [|congruence].
  unfold lib_get in E. eapply aget_Some_in; [exact Zeqb_spec|exact E].
Qed.

(* with fuel >= the start id the walk of a valid id succeeds (ids strictly decrease, chain is closed) *)
Lemma ext_walk_total_big l : ext_wf l -> forall f eid,
  0 <= eid <= Z.of_nat f -> ext_valid l eid -> exists ids, ext_walk l f eid = WOk ids.
Proof.
  intros (W0 & W1 & _). induction f as [|f IH]; intros eid Hr V; rewrite ext_walk_unfold.
  - assert (eid = 0) by lia. subst. exists []. reflexivity.
  - destruct (eid =? 0) eqn:E0; [exists []; reflexivity|]. apply Z.eqb_neq in E0.
    destruct V as [V|V]; [contradiction|].
    destruct (lib_get l eid) as [ed|] eqn:E1; [|congruence].
    destruct (W1 _ _ E1) as (Hid & ty & ref & nx & Hk & Hn & Hv). subst ed.
    destruct (ext_row_fields ty ref nx) as (_ & _ & F3). rewrite F3.
    destruct (IH nx) as [r Hr']; [lia|exact Hv|]. rewrite Hr'. exists (eid :: r). reflexivity.
Qed.

(* the fuel get_block's model uses, one more than the number of library entries, always suffices *)
Theorem ext_walk_total : forall l eid, ext_wf l -> ext_valid l eid ->
  exists ids, ext_walk l (S (length (ldata l))) eid = WOk ids /\ (length ids <= length (ldata l))%nat.
Proof.
  intros l eid W V.
  pose proof (ext_valid_lt l eid W V) as Hr.
  destruct (ext_walk_total_big l W (Z.to_nat eid) eid) as [ids H]; [lia|exact V|].
  pose proof (ext_walk_bound l _ _ _ W H) as Hb.
  exists ids. split; [|exact Hb].
  eapply ext_walk_mono; [|apply (ext_walk_len l _ _ _ H)]. lia.
Qed.

Theorem ext_walk_terminates : forall l eid, ext_wf l -> ext_walk l (S (length (ldata l))) eid <> WFuel.
Proof.
  intros l eid W.
  destruct (Z.eq_dec eid 0) as [->|N].
  - rewrite ext_walk_unfold. cbn. discriminate.
  - destruct (lib_get l eid) as [k|] eqn:E.
    + destruct (ext_walk_total l eid W) as (ids & H & _); [right; congruence|]. rewrite H. discriminate.
    + rewrite ext_walk_unfold. apply Z.eqb_neq in N. rewrite N, E. discriminate.
Qed.

(* ---- the same for the list of (type, ref) pairs ------------------------------------------------- *)
Lemma ext_list_mono l l' : lib_le l l' -> forall f f' eid xs,
  (f <= f')%nat -> ext_list l f eid = Some xs -> ext_list l' f' eid = Some xs.
Proof.
  intro L. induction f as [|f IH]; intros f' eid xs Hf H; rewrite ext_list_unfold in H; rewrite ext_list_unfold.
  - destruct (eid =? 0); [exact H|discriminate].
  - destruct (eid =? 0); [exact H|]. destruct f' as [|f']; [lia|].
    destruct (lib_get l eid) as [ed|] eqn:E1; [|discriminate].
    rewrite (lib_le_get _ _ _ _ L E1).
    destruct (ext_list l f (qz (knth ed 2))) as [r|] eqn:E; [|discriminate].
    rewrite (IH f' _ r); [exact H|lia|exact E].
Qed.

Lemma ext_list_walk l : forall f eid xs,
  ext_list l f eid = Some xs -> exists ids, ext_walk l f eid = WOk ids /\ length ids = length xs.
Proof.
  induction f as [|f IH]; intros eid xs H; rewrite ext_list_unfold in H; rewrite ext_walk_unfold.
  - destruct (eid =? 0); [|discriminate]. inversion H. exists []. split; reflexivity.
  - destruct (eid =? 0); [inversion H; exists []; split; reflexivity|].
    destruct (lib_get l eid) as [ed|]; [|discriminate].
    destruct (ext_list l f (qz (knth ed 2))) as [r|] eqn:E; [|discriminate].
    destruct (IH _ _ E) as (ids & Hw & Hl). rewrite Hw. inversion H. exists (eid :: ids).
    split; [reflexivity|cbn; lia].
Qed.

Lemma ext_list_len l : forall f eid xs,
  ext_list l f eid = Some xs -> ext_list l (length xs) eid = Some xs.
Proof.
  induction f as [|f IH]; intros eid xs H; rewrite ext_list_unfold in H.
  - destruct (eid =? 0) eqn:E0; [|discriminate]. inversion H. cbn [length]. rewrite ext_list_unfold, E0. reflexivity.
  - destruct (eid =? 0) eqn:E0.
    { inversion H. cbn [length]. rewrite ext_list_unfold, E0. reflexivity. }
    destruct (lib_get l eid) as [ed|] eqn:E1; [|discriminate].
    destruct (ext_list l f (qz (knth ed 2))) as [r|] eqn:E; [|discriminate].
    inversion H. subst xs. cbn [length]. rewrite ext_list_unfold, E0, E1. rewrite (IH _ _ E). reflexivity.
Qed.

(* whatever fuel made the walk succeed, the standard fuel gives the same list *)
Lemma ext_list_std_fuel l f eid xs :
  ext_wf l -> ext_list l f eid = Some xs -> ext_list l (S (length (ldata l))) eid = Some xs.
Proof.
  intros W H. destruct (ext_list_walk l f eid xs H) as (ids & Hw & Hl).
  pose proof (ext_walk_bound l f eid ids W Hw) as Hb.
  eapply (ext_list_mono l l (lib_le_refl l)); [|apply (ext_list_len l _ _ _ H)]. lia.
Qed.

Lemma ext_walk_list l : forall f eid ids,
  ext_walk l f eid = WOk ids -> exists xs, ext_list l f eid = Some xs.
Proof.
  induction f as [|f IH]; intros eid ids H; rewrite ext_walk_unfold in H; rewrite ext_list_unfold.
  - destruct (eid =? 0); [|discriminate]. eexists; reflexivity.
  - destruct (eid =? 0); [eexists; reflexivity|].
    destruct (lib_get l eid) as [ed|]; [|discriminate].
    destruct (ext_walk l f (qz (knth ed 2))) as [r| |] eqn:E; try discriminate.
    destruct (IH _ _ E) as [xs Hx]. rewrite Hx. eexists; reflexivity.
Qed.

Theorem ext_list_total : forall l eid, ext_wf l -> ext_valid l eid ->
  exists xs, ext_list l (S (length (ldata l))) eid = Some xs.
Proof.
  intros l eid W V. destruct (ext_walk_total l eid W V) as (ids & H & _).
  exact (ext_walk_list l _ _ _ H).
Qed.

(* ---- dec_ext of Model/Seq.v factors through the list and the per-entry payload lookup ---------- *)
Lemma dec_ext_via_list c : forall f eid,
  dec_ext c f eid = match ext_list (ext_l c) f eid with
                    | Some xs => map_opt (ext_payload c) xs
                    | None => None
                    end.
Proof.
  induction f as [|f IH]; intros eid; rewrite dec_ext_unfold, ext_list_unfold.
  - destruct (eid =? 0); reflexivity.
  - destruct (eid =? 0); [reflexivity|].
    destruct (lib_get (ext_l c) eid) as [ed|]; cbn [opt_bind]; [|reflexivity].
    rewrite IH.
    destruct (ext_list (ext_l c) f (qz (knth ed 2))) as [r|].
    + cbn [map_opt]. generalize (map_opt (ext_payload c) r) as mr. intro mr.
      unfold ext_payload. cbn [fst snd].
      destruct (ext_type_str c (qz (knth ed 0))) as [s|]; cbn [opt_bind]; [|reflexivity]. cbv zeta.
      destruct (if s =? XS_TRIGGERS then lib_get (trig_l c) (qz (knth ed 1))
                else if s =? XS_LABELSET then lib_get (lset_l c) (qz (knth ed 1))
                else if s =? XS_LABELINC then lib_get (linc_l c) (qz (knth ed 1)) else None) as [p|];
        cbn [opt_bind]; [|reflexivity].
      destruct mr; reflexivity.
    + destruct (ext_type_str c (qz (knth ed 0))) as [s|]; cbn [opt_bind]; [|reflexivity]. cbv zeta.
      destruct (if s =? XS_TRIGGERS then lib_get (trig_l c) (qz (knth ed 1))
                else if s =? XS_LABELSET then lib_get (lset_l c) (qz (knth ed 1))
                else if s =? XS_LABELINC then lib_get (linc_l c) (qz (knth ed 1)) else None) as [p|];
        cbn [opt_bind]; reflexivity.
Qed.

(* in a well-formed store get_block's walk can only fail with a KeyError of a referenced event or an
   unknown extension type — never by running around a cycle *)
Theorem dec_ext_fails_only_on_payload : forall c eid,
  ext_wf (ext_l c) -> ext_valid (ext_l c) eid ->
  exists xs, ext_list (ext_l c) (S (length (ldata (ext_l c)))) eid = Some xs /\
             dec_ext c (S (length (ldata (ext_l c)))) eid = map_opt (ext_payload c) xs.
Proof.
  intros c eid W V. destruct (ext_list_total _ eid W V) as [xs H]. exists xs. split; [exact H|].
  rewrite dec_ext_via_list, H. reflexivity.
Qed.

(* for ANY store: more fuel than the standard amount never changes get_block's answer *)
Theorem dec_ext_fuel_irrelevant : forall c f eid,
  (S (length (ldata (ext_l c))) <= f)%nat ->
  dec_ext c f eid = dec_ext c (S (length (ldata (ext_l c)))) eid.
Proof.
  intros c f eid Hf.
  destruct (dec_ext c f eid) as [r|] eqn:E.
  - pose proof (dec_ext_bound c c f eid r (core_le_refl c) E) as Hb.
    symmetry. eapply (dec_ext_mono c c (core_le_refl c)); [|apply (dec_ext_len c _ _ _ E)]. lia.
  - destruct (dec_ext c (S (length (ldata (ext_l c)))) eid) as [r|] eqn:E2; [|reflexivity].
    rewrite (dec_ext_mono c c (core_le_refl c) _ f eid r Hf E2) in E. discriminate.
Qed.

(* ================================================================================================ *)
(* C. round trip, sharing, injectivity                                                               *)
(* ================================================================================================ *)
Lemma km_le_refl l : km_le l l.
Proof. intros k id H. exact H. Qed.
Lemma km_le_trans l1 l2 l3 : km_le l1 l2 -> km_le l2 l3 -> km_le l1 l3.
Proof. intros A B k id H. apply B, A, H. Qed.

Lemma ext_list_step l F ty ref nx id acc :
  lib_get l id = Some (ext_row ty ref nx) -> id <> 0 ->
  ext_list l F nx = Some acc -> ext_list l (S F) id = Some ((ty, ref) :: acc).
Proof.
  intros G N H. rewrite ext_list_unfold. apply Z.eqb_neq in N. rewrite N, G.
  destruct (ext_row_fields ty ref nx) as (F1 & F2 & F3). rewrite F1, F2, F3, H. reflexivity.
Qed.

(* the insertion loop of set_block (block.py:179-185), started at any valid tail [eid] *)
Lemma ext_add_spec : forall exts (l : klib) eid acc F,
  ext_wf l -> ext_valid l eid -> ext_list l F eid = Some acc ->
  let l' := fst (ext_add l exts eid) in
  let id := snd (ext_add l exts eid) in
  ext_wf l' /\ lib_le l l' /\ km_le l l' /\ ext_valid l' id /\
  (exists F', ext_list l' F' id = Some (rev exts ++ acc)) /\
  ext_probe l' exts eid = (id, true).
Proof.
  induction exts as [|[ty ref] r IH]; intros l eid acc F W V H; cbv zeta; cbn [ext_add ext_probe].
  - cbn [fst snd rev app]. split; [exact W|]. split; [apply lib_le_refl|]. split; [apply km_le_refl|].
    split; [exact V|]. split; [exists F; exact H|reflexivity].
  - unfold kfind, lib_find.
    destruct (kget (lkeymap l) [zq ty; zq ref; zq eid]) as [id0|] eqn:E.
    + (* the entry exists *)
      pose proof W as (W0 & W1 & W2 & W3).
      pose proof (W2 _ _ E) as G. destruct (W1 _ _ G) as (Hid & _).
      assert (V0 : ext_valid l id0) by (right; congruence).
      assert (H0 : ext_list l (S F) id0 = Some ((ty, ref) :: acc))
        by (apply (ext_list_step l F ty ref eid); [exact G|lia|exact H]).
      destruct (IH l id0 ((ty, ref) :: acc) (S F) W V0 H0) as (A1 & A2 & A3 & A4 & (F' & A5) & A6).
      split; [exact A1|]. split; [exact A2|]. split; [exact A3|]. split; [exact A4|]. split.
      * exists F'. cbn [rev]. rewrite <- app_assoc. exact A5.
      * rewrite (A3 _ _ E). exact A6.
    + (* a new entry at the next free id *)
      destruct (ext_insert_wf l ty ref eid W V E) as (B1 & B2 & B3 & B4 & B5).
      fold (ext_row ty ref eid) in *.
      set (l1 := fst (kins l (lnext l) (ext_row ty ref eid) 0)) in *.
      assert (Hpos : lnext l <> 0) by (destruct W as (W0 & _); lia).
      assert (V1 : ext_valid l1 (lnext l)) by (right; congruence).
      assert (H1 : ext_list l1 (S F) (lnext l) = Some ((ty, ref) :: acc)).
      { apply (ext_list_step l1 F ty ref eid); [exact B4|exact Hpos|].
        eapply ext_list_mono; [exact B2| |exact H]. lia. }
      destruct (IH l1 (lnext l) ((ty, ref) :: acc) (S F) B1 V1 H1) as (A1 & A2 & A3 & A4 & (F' & A5) & A6).
      split; [exact A1|]. split; [eapply lib_le_trans; eassumption|].
      split; [eapply km_le_trans; eassumption|]. split; [exact A4|]. split.
      * exists F'. cbn [rev]. rewrite <- app_assoc. exact A5.
      * rewrite (A3 _ _ B5). exact A6.
Qed.

(* the lookup loop (block.py:170-177): if every element is found, the chain is already there *)
Lemma ext_probe_spec : forall exts (l : klib) eid acc F id,
  ext_wf l -> ext_list l F eid = Some acc -> ext_probe l exts eid = (id, true) ->
  ext_valid l eid -> ext_valid l id /\ exists F', ext_list l F' id = Some (rev exts ++ acc).
Proof.
  induction exts as [|[ty ref] r IH]; intros l eid acc F id W H P V; cbn [ext_probe] in P.
  - inversion P. subst id. split; [exact V|exists F; exact H].
  - unfold kfind, lib_find in P.
    destruct (kget (lkeymap l) [zq ty; zq ref; zq eid]) as [id0|] eqn:E; [|discriminate].
    pose proof W as (W0 & W1 & W2 & W3).
    pose proof (W2 _ _ E) as G. destruct (W1 _ _ G) as (Hid & _).
    assert (H0 : ext_list l (S F) id0 = Some ((ty, ref) :: acc))
      by (apply (ext_list_step l F ty ref eid); [exact G|lia|exact H]).
    destruct (IH l id0 ((ty, ref) :: acc) (S F) id W H0 P) as (A1 & F' & A2); [right; congruence|].
    split; [exact A1|]. exists F'. cbn [rev]. rewrite <- app_assoc. exact A2.
Qed.

(* ---- the sort is a permutation ------------------------------------------------------------------- *)
Lemma ins_ref_perm x l : Permutation (ins_ref x l) (x :: l).
Proof.
  induction l as [|y r IH]; cbn [ins_ref]; [apply Permutation_refl|].
  destruct (snd x <? snd y); [apply Permutation_refl|].
  eapply perm_trans; [apply perm_skip; exact IH|apply perm_swap].
Qed.

Lemma sort_ref_perm l : Permutation (sort_ref l) l.
Proof.
  unfold sort_ref.
  assert (G : forall acc, Permutation (fold_left (fun a x => ins_ref x a) l acc) (l ++ acc)).
  { induction l as [|x r IH]; intro acc; cbn [fold_left app]; [apply Permutation_refl|].
    eapply perm_trans; [apply IH|].
    eapply perm_trans; [apply Permutation_app_head; apply ins_ref_perm|].
    apply Permutation_sym. apply Permutation_middle. }
  specialize (G []). rewrite app_nil_r in G. exact G.
Qed.

Lemma nodup_nat_NoDup l : nodup_nat l = true -> NoDup l.
Proof.
  induction l as [|x r IH]; cbn; intro H; constructor; apply andb_true_iff in H; destruct H as [H1 H2].
  - intro Hin. apply negb_true_iff in H1.
    assert (existsb (Nat.eqb x) r = true) by (apply existsb_exists; exists x; split; [exact Hin|apply Nat.eqb_refl]).
    congruence.
  - apply IH. exact H2.
Qed.

Lemma map_nth_seq {A} (l : list A) d : map (fun i => nth i l d) (seq 0 (length l)) = l.
Proof.
  induction l as [|x r IH]; cbn [length seq map]; [reflexivity|].
  cbn [nth]. f_equal. rewrite <- seq_shift, map_map. cbn [nth]. exact IH.
Qed.

Lemma apply_hint_perm hint exts l : apply_hint hint exts = Some l -> Permutation l exts.
Proof.
  unfold apply_hint.
  destruct ((length hint =? length exts)%nat && nodup_nat hint &&
            forallb (fun i => (i <? length exts)%nat) hint) eqn:E; [|discriminate].
  destruct (sorted_ref (map (fun i => nth i exts (0, 0)) hint)); [|discriminate].
  intro H. inversion H. subst l. clear H.
  apply andb_true_iff in E. destruct E as [E E3]. apply andb_true_iff in E. destruct E as [E1 E2].
  apply Nat.eqb_eq in E1. apply nodup_nat_NoDup in E2.
  assert (P : Permutation hint (seq 0 (length exts))).
  { apply NoDup_Permutation_bis; [exact E2|rewrite seq_length; lia|].
    intros i Hi. rewrite forallb_forall in E3. specialize (E3 i Hi). apply Nat.ltb_lt in E3.
    apply in_seq. lia. }
  eapply perm_trans; [apply Permutation_map; exact P|]. rewrite map_nth_seq. apply Permutation_refl.
Qed.

Theorem sort_exts_perm : forall hint exts, Permutation (sort_exts hint exts) exts.
Proof.
  intros hint exts. unfold sort_exts. destruct (apply_hint hint exts) as [l|] eqn:E.
  - eapply apply_hint_perm; exact E.
  - apply sort_ref_perm.
Qed.

(* ---- registration of a whole list (block.py:160-188) ---------------------------------------------- *)
Theorem ext_register_spec : forall hint (l : klib) exts,
  ext_wf l ->
  let l' := fst (ext_register hint l exts) in
  let id := snd (ext_register hint l exts) in
  ext_wf l' /\ lib_le l l' /\ km_le l l' /\ ext_valid l' id /\
  ext_list l' (S (length (ldata l'))) id = Some (rev (sort_exts hint exts)) /\
  ext_probe l' (sort_exts hint exts) 0 = (id, true).
Proof.
  intros hint l exts W. cbv zeta. unfold ext_register.
  assert (H0 : ext_list l 0 0 = Some []) by reflexivity.
  assert (V0 : ext_valid l 0) by (left; reflexivity).
  destruct (ext_probe l (sort_exts hint exts) 0) as [id af] eqn:P. destruct af.
  - cbn [fst snd]. destruct (ext_probe_spec _ l 0 [] 0%nat id W H0 P V0) as (A1 & F' & A2).
    rewrite app_nil_r in A2.
    split; [exact W|]. split; [apply lib_le_refl|]. split; [apply km_le_refl|]. split; [exact A1|].
    split; [eapply ext_list_std_fuel; eassumption|exact P].
  - destruct (ext_add_spec (sort_exts hint exts) l 0 [] 0%nat W V0 H0) as (A1 & A2 & A3 & A4 & (F' & A5) & A6).
    rewrite app_nil_r in A5.
    split; [exact A1|]. split; [exact A2|]. split; [exact A3|]. split; [exact A4|].
    split; [eapply ext_list_std_fuel; eassumption|exact A6].
Qed.

(* what get_block returns for the registered id: the payloads of the sorted list, in reverse (walk)
   order — for every core whose extension library satisfies the invariant *)
Theorem ext_roundtrip : forall hint c exts,
  ext_wf (ext_l c) ->
  let el := fst (ext_register hint (ext_l c) exts) in
  let id := snd (ext_register hint (ext_l c) exts) in
  let c' := c <| ext_l := el |> in
  dec_ext c' (S (length (ldata el))) id = map_opt (ext_payload c) (rev (sort_exts hint exts)) /\
  Permutation (rev (sort_exts hint exts)) exts.
Proof.
  intros hint c exts W. cbv zeta.
  destruct (ext_register_spec hint (ext_l c) exts W) as (_ & _ & _ & _ & A5 & _).
  split.
  - rewrite dec_ext_via_list. cbn [ext_l]. 
    change (ext_l (c <| ext_l := fst (ext_register hint (ext_l c) exts) |>))
      with (fst (ext_register hint (ext_l c) exts)).
    rewrite A5. reflexivity.
  - eapply perm_trans; [apply Permutation_sym, Permutation_rev|apply sort_exts_perm].
Qed.

(* sharing: registering a list with the same sorted form again finds every element, returns the
   same id and leaves the library untouched *)
Theorem ext_register_shares : forall h1 h2 (l : klib) e1 e2,
  ext_wf l -> sort_exts h2 e2 = sort_exts h1 e1 ->
  let l1 := fst (ext_register h1 l e1) in
  ext_register h2 l1 e2 = (l1, snd (ext_register h1 l e1)).
Proof.
  intros h1 h2 l e1 e2 W S. cbv zeta.
  destruct (ext_register_spec h1 l e1 W) as (_ & _ & _ & _ & _ & A6).
  unfold ext_register at 1. rewrite S, A6. reflexivity.
Qed.

(* injectivity: in a well-formed library two ids that stand for the same list are the same id *)
Theorem ext_list_injective : forall l, ext_wf l -> forall xs f1 f2 id1 id2,
  ext_list l f1 id1 = Some xs -> ext_list l f2 id2 = Some xs -> id1 = id2.
Proof.
  intros l (W0 & W1 & W2 & W3). induction xs as [|x r IH]; intros f1 f2 id1 id2 H1 H2;
    rewrite ext_list_unfold in H1, H2.
  - destruct (id1 =? 0) eqn:E1; destruct (id2 =? 0) eqn:E2.
    + apply Z.eqb_eq in E1, E2. congruence.
    + exfalso. destruct f2; [discriminate|]. destruct (lib_get l id2); [|discriminate].
      destruct (ext_list l f2 _); discriminate.
    + exfalso. destruct f1; [discriminate|]. destruct (lib_get l id1); [|discriminate].
      destruct (ext_list l f1 _); discriminate.
    + exfalso. destruct f1; [discriminate|]. destruct (lib_get l id1); [|discriminate].
      destruct (ext_list l f1 _); discriminate.
  - destruct (id1 =? 0); [discriminate|]. destruct (id2 =? 0); [discriminate|].
    destruct f1 as [|f1]; [discriminate|]. destruct f2 as [|f2]; [discriminate|].
    destruct (lib_get l id1) as [ed1|] eqn:G1; [|discriminate].
    destruct (lib_get l id2) as [ed2|] eqn:G2; [|discriminate].
    destruct (ext_list l f1 (qz (knth ed1 2))) as [r1|] eqn:L1; [|discriminate].
    destruct (ext_list l f2 (qz (knth ed2 2))) as [r2|] eqn:L2; [|discriminate].
    injection H1 as Hx1 Hr1. injection H2 as Hx2 Hr2. subst r1 r2.
    destruct (W1 _ _ G1) as (_ & t1 & rf1 & n1 & K1 & _). destruct (W1 _ _ G2) as (_ & t2 & rf2 & n2 & K2 & _).
    subst ed1 ed2.
    destruct (ext_row_fields t1 rf1 n1) as (A1 & A2 & A3). destruct (ext_row_fields t2 rf2 n2) as (B1 & B2 & B3).
    rewrite A3 in L1. rewrite B3 in L2.
    assert (n1 = n2) by (eapply IH; eassumption).
    assert (t1 = t2 /\ rf1 = rf2) as [-> ->].
    { rewrite A1, A2 in Hx1. rewrite B1, B2 in Hx2. rewrite <- Hx2 in Hx1. inversion Hx1. auto. }
    subst n2. pose proof (W3 _ _ G1) as M1. pose proof (W3 _ _ G2) as M2. congruence.
Qed.

(* ================================================================================================ *)
(* D. the invariant over operation histories                                                         *)
(* ================================================================================================ *)
Ltac crush_ext :=
  repeat match goal with
  | |- context [kfoi ?a ?b ?c] => destruct (kfoi a b c) as [[? ?] ?]
  | |- context [kins ?a ?b ?c ?d] => destruct (kins a b c d) as [? ?]
  | |- context [match ?x with _ => _ end] => destruct x
  end; try reflexivity.

Lemma register_adc_ext c n dw de fr ph dd : ext_l (fst (fst (register_adc c n dw de fr ph dd))) = ext_l c.
Proof. unfold register_adc. crush_ext. Qed.
Lemma register_ctl_ext c ty ch de du : ext_l (fst (fst (register_ctl c ty ch de du))) = ext_l c.
Proof. unfold register_ctl. crush_ext. Qed.
Lemma register_label_ext c s v lbl : ext_l (fst (fst (register_label c s v lbl))) = ext_l c.
Proof. unfold register_label. crush_ext. Qed.
Lemma register_trap_ext c a r f fl d : ext_l (fst (fst (register_trap c a r f fl d))) = ext_l c.
Proof. unfold register_trap. crush_ext. Qed.
Lemma register_grad_ext c sids amp ws ts delay first last :
  ext_l (fst (fst (fst (register_grad c sids amp ws ts delay first last)))) = ext_l c.
Proof. unfold register_grad. crush_ext. Qed.
Lemma register_rf_ext c sids amp mag ph ts delay freq phoff use :
  ext_l (fst (fst (fst (register_rf c sids amp mag ph ts delay freq phoff use)))) = ext_l c.
Proof. unfold register_rf. crush_ext. Qed.
Lemma ext_type_id_ext c s : ext_l (fst (ext_type_id c s)) = ext_l c.
Proof. unfold ext_type_id. destruct (index_of s (ext_str c)); reflexivity. Qed.

Lemma ev_step_ext a e a' : ev_step a e = inl a' -> ext_l (a_core a') = ext_l (a_core a).
Proof.
  intro H. destruct e; cbn [ev_step] in H.
  - destruct (negb (nth 1 (a_blk a) 0 =? 0)); [discriminate|].
    destruct id as [i|].
    + inversion H. reflexivity.
    + pose proof (register_rf_ext (a_core a) sids amp mag phase tshape delay freq phoff use) as G.
      destruct (register_rf (a_core a) sids amp mag phase tshape delay freq phoff use) as [[[c1 i] ids] clr].
      inversion H. cbn. exact G.
  - destruct (negb (nth (2 + ch) (a_blk a) 0 =? 0)); [discriminate|].
    destruct id as [i|].
    + inversion H. reflexivity.
    + pose proof (register_grad_ext (a_core a) sids amp wshape tshape delay first last) as G.
      destruct (register_grad (a_core a) sids amp wshape tshape delay first last) as [[[c1 i] ids] clr].
      inversion H. cbn. exact G.
  - destruct (negb (nth (2 + ch) (a_blk a) 0 =? 0)); [discriminate|].
    destruct id as [i|].
    + inversion H. reflexivity.
    + pose proof (register_trap_ext (a_core a) amp rise flat fall delay) as G.
      destruct (register_trap (a_core a) amp rise flat fall delay) as [[c1 i] clr].
      inversion H. cbn. exact G.
  - destruct (negb (nth 5 (a_blk a) 0 =? 0)); [discriminate|].
    destruct id as [i|].
    + inversion H. reflexivity.
    + pose proof (register_adc_ext (a_core a) num dwell delay freq phoff dead) as G.
      destruct (register_adc (a_core a) num dwell delay freq phoff dead) as [[c1 i] clr].
      inversion H. cbn. exact G.
  - inversion H. reflexivity.
  - destruct id as [i|].
    + pose proof (ext_type_id_ext (a_core a) XS_TRIGGERS) as G.
      destruct (ext_type_id (a_core a) XS_TRIGGERS) as [c2 tid].
      inversion H. cbn. exact G.
    + pose proof (register_ctl_ext (a_core a) typ chan delay dur) as G1.
      destruct (register_ctl (a_core a) typ chan delay dur) as [[c1 i] clr]. cbn [fst] in G1.
      pose proof (ext_type_id_ext c1 XS_TRIGGERS) as G2.
      destruct (ext_type_id c1 XS_TRIGGERS) as [c2 tid].
      inversion H. cbn. cbn [fst] in G2. congruence.
  - destruct id as [i|].
    + pose proof (ext_type_id_ext (a_core a) (if is_set then XS_LABELSET else XS_LABELINC)) as G.
      destruct (ext_type_id (a_core a) (if is_set then XS_LABELSET else XS_LABELINC)) as [c2 tid].
      inversion H. cbn. exact G.
    + pose proof (register_label_ext (a_core a) is_set value lbl) as G1.
      destruct (register_label (a_core a) is_set value lbl) as [[c1 i] clr]. cbn [fst] in G1.
      pose proof (ext_type_id_ext c1 (if is_set then XS_LABELSET else XS_LABELINC)) as G2.
      destruct (ext_type_id c1 (if is_set then XS_LABELSET else XS_LABELINC)) as [c2 tid].
      inversion H. cbn. cbn [fst] in G2. congruence.
  - inversion H. reflexivity.
Qed.

Lemma ev_loop_ext evs : forall a, ext_l (a_core (fst (ev_loop a evs))) = ext_l (a_core a).
Proof.
  induction evs as [|e r IH]; intros a; cbn [ev_loop]; [reflexivity|].
  destruct (ev_step a e) as [a'|x] eqn:E; [|reflexivity].
  rewrite IH. apply (ev_step_ext _ _ _ E).
Qed.

(* set_block touches the extension library only through ext_register *)
Lemma sbc_ext abs_fix c i evs hint :
  ext_wf (ext_l c) -> ext_wf (ext_l (fst (fst (set_block_core abs_fix c i evs hint)))).
Proof.
  intro W. unfold set_block_core.
  pose proof (ev_loop_ext evs (mkAcc c false [0; 0; 0; 0; 0; 0; 0] qc0 [chk0; chk0; chk0] [])) as G.
  destruct (ev_loop (mkAcc c false [0; 0; 0; 0; 0; 0; 0] qc0 [chk0; chk0; chk0] []) evs) as [a eo].
  cbn [fst a_core] in G.
  destruct eo as [x|]; [cbn [fst]; rewrite G; exact W|].
  destruct (a_exts a) as [|x xs].
  - destruct (check_channels abs_fix (a_core a) i (a_dur a) 0 (a_chk a)); cbn; rewrite G; exact W.
  - assert (W' : ext_wf (ext_l (a_core a))) by (rewrite G; exact W).
    destruct (ext_register_spec hint (ext_l (a_core a)) (x :: xs) W') as (A1 & _).
    destruct (ext_register hint (ext_l (a_core a)) (x :: xs)) as [el eid]. cbn [fst] in A1.
    destruct (check_channels abs_fix (a_core a <| ext_l := el |>) i (a_dur a) 0 (a_chk a)); cbn; exact A1.
Qed.

Lemma dedup_core_ext r1 r2 r3 r4 c c' : dedup_core r1 r2 r3 r4 c = Some c' -> ext_l c' = ext_l c.
Proof.
  intro H. unfold dedup_core in H.
  destruct (lib_remove_duplicates key_eqb r1 (shape_l c)) as [sl smap].
  destruct (remap_rows (ldata (grad_l c)) (grad_l c)
              (fun id => match lib_type (grad_l c) id with Some t => t =? tag_g | None => false end)
              (remap_grad_row smap)) as [gl1|]; cbn [opt_bind] in H; [|discriminate].
  destruct (remap_rows (ldata (rf_l c)) (rf_l c) (fun _ => true) (remap_rf_row smap)) as [rl1|];
    cbn [opt_bind] in H; [|discriminate].
  destruct (lib_remove_duplicates key_eqb r2 gl1) as [gl2 gmap].
  destruct (remap_blocks (blocks c) [2%nat; 3%nat; 4%nat] gmap) as [b1|]; cbn [opt_bind] in H; [|discriminate].
  destruct (lib_remove_duplicates key_eqb r3 rl1) as [rl2 rmap].
  destruct (remap_blocks b1 [1%nat] rmap) as [b2|]; cbn [opt_bind] in H; [|discriminate].
  destruct (lib_remove_duplicates key_eqb r4 (adc_l c)) as [al2 amap].
  destruct (remap_blocks b2 [5%nat] amap) as [b3|]; cbn [opt_bind] in H; [|discriminate].
  inversion H. reflexivity.
Qed.

(* read(): the loaded extension library must be well formed (true of every file written by write()) *)
Fixpoint ops_ext_wf (ops : list op) : Prop :=
  match ops with
  | [] => True
  | Load c :: r => ext_wf (ext_l c) /\ ops_ext_wf r
  | _ :: r => ops_ext_wf r
  end.

Lemma ops_ext_wf_cons o r : ops_ext_wf (o :: r) -> ops_ext_wf [o] /\ ops_ext_wf r.
Proof. destruct o; cbn; tauto. Qed.

Theorem step_ext_wf : forall cache_on abs_fix r1 r2 r3 r4 s o,
  ext_wf (ext_l (st_core s)) -> ops_ext_wf [o] ->
  ext_wf (ext_l (st_core (fst (step cache_on abs_fix r1 r2 r3 r4 s o)))).
Proof.
  intros cache_on abs_fix r1 r2 r3 r4 s o W Wo. destruct o; cbn [step].
  - pose proof (sbc_ext abs_fix (st_core s) (next_block (st_core s)) evs hint W) as H.
    destruct (set_block_core abs_fix (st_core s) (next_block (st_core s)) evs hint) as [[c' clr] e].
    cbn [fst] in H. destruct e; cbn [fst st_core]; exact H.
  - pose proof (sbc_ext abs_fix (st_core s) i evs hint W) as H.
    destruct (set_block_core abs_fix (st_core s) i evs hint) as [[c' clr] e].
    cbn [fst] in H. destruct e; cbn [fst st_core]; exact H.
  - pose proof (do_get_core cache_on s i) as H.
    destruct (do_get cache_on s i) as [s' b]. cbn [fst] in *. rewrite H. exact W.
  - pose proof (register_rf_ext (st_core s) sids amp mag phase tshape delay freq phoff use) as H.
    destruct (register_rf (st_core s) sids amp mag phase tshape delay freq phoff use) as [[[c' id] ids] clr].
    cbn [fst st_core] in *. rewrite H. exact W.
  - pose proof (register_grad_ext (st_core s) sids amp wshape tshape delay first last) as H.
    destruct (register_grad (st_core s) sids amp wshape tshape delay first last) as [[[c' id] ids] clr].
    cbn [fst st_core] in *. rewrite H. exact W.
  - pose proof (register_trap_ext (st_core s) amp rise flat fall delay) as H.
    destruct (register_trap (st_core s) amp rise flat fall delay) as [[c' id] clr].
    cbn [fst st_core] in *. rewrite H. exact W.
  - pose proof (register_adc_ext (st_core s) num dwell delay freq phoff dead) as H.
    destruct (register_adc (st_core s) num dwell delay freq phoff dead) as [[c' id] clr].
    cbn [fst st_core] in *. rewrite H. exact W.
  - pose proof (register_label_ext (st_core s) is_set value lbl) as H.
    destruct (register_label (st_core s) is_set value lbl) as [[c' id] clr].
    cbn [fst st_core] in *. rewrite H. exact W.
  - destruct (dedup_core r1 r2 r3 r4 (st_core s)) as [c'|] eqn:E; cbn [fst st_core].
    + rewrite (dedup_core_ext _ _ _ _ _ _ E). exact W.
    + exact W.
  - cbn [fst]. exact W.
  - cbn [fst]. rewrite touch_core. exact W.
  - cbn [fst st_core]. cbn in Wo. exact (proj1 Wo).
Qed.

Lemma run_ext_wf_gen cache_on abs_fix r1 r2 r3 r4 ops : forall s acc,
  ext_wf (ext_l (st_core s)) -> ops_ext_wf ops ->
  ext_wf (ext_l (st_core (fst (fold_left (fun (acc : state * list out) o =>
               let '(s', x) := step cache_on abs_fix r1 r2 r3 r4 (fst acc) o in (s', snd acc ++ [x]))
               ops (s, acc))))).
Proof.
  induction ops as [|o r IH]; intros s acc W Wf; cbn [fold_left]; [exact W|].
  destruct (ops_ext_wf_cons _ _ Wf) as [Wo Wr]. cbn [fst snd].
  pose proof (step_ext_wf cache_on abs_fix r1 r2 r3 r4 s o W Wo) as W'.
  destruct (step cache_on abs_fix r1 r2 r3 r4 s o) as [s1 x1]. cbn [fst] in W'.
  apply IH; assumption.
Qed.

(* every store reachable from a well-formed one (e.g. the empty Sequence) by ANY history of
   add_block, set_block, get_block, register_*, remove_duplicates, write and read of well-formed
   files keeps the invariant *)
Theorem run_ext_wf : forall cache_on abs_fix r1 r2 r3 r4 ops s0,
  ext_wf (ext_l (st_core s0)) -> ops_ext_wf ops ->
  ext_wf (ext_l (st_core (fst (run cache_on abs_fix r1 r2 r3 r4 s0 ops)))).
Proof. intros. unfold run. apply run_ext_wf_gen; assumption. Qed.

Theorem ext_wf_init : forall g s sl e, ext_wf (ext_l (core_init g s sl e)).
Proof. intros. exact ext_wf_empty. Qed.

(* ... hence in every reachable state the chain of every valid id is walked to the end within the
   model's fuel, and next pointers strictly decrease *)
Theorem ext_walk_terminates_run : forall cache_on abs_fix r1 r2 r3 r4 ops g s sl e eid,
  ops_ext_wf ops ->
  let c := st_core (fst (run cache_on abs_fix r1 r2 r3 r4 (mkState (core_init g s sl e) []) ops)) in
  ext_walk (ext_l c) (S (length (ldata (ext_l c)))) eid <> WFuel /\
  (forall id k, lib_get (ext_l c) id = Some k -> 0 <= qz (knth k 2) < id).
Proof.
  intros cache_on abs_fix r1 r2 r3 r4 ops g s sl e eid Wf. cbv zeta.
  pose proof (run_ext_wf cache_on abs_fix r1 r2 r3 r4 ops (mkState (core_init g s sl e) [])
                (ext_wf_init g s sl e) Wf) as W.
  split; [apply ext_walk_terminates; exact W|].
  intros id k H. destruct W as (_ & W1 & _). destruct (W1 _ _ H) as (_ & ty & ref & nx & -> & Hn & _).
  destruct (ext_row_fields ty ref nx) as (_ & _ & ->). exact Hn.
Qed.
